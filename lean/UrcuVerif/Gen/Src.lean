/- GENERATED from the C text of /repo by harness/gen/gen_src.py on every check run; do not edit. -/
import UrcuVerif.Src.IR
set_option maxRecDepth 8192
namespace UrcuVerif.Gen.Src
open UrcuVerif.Src

/-- `urcu_memb_smp_mb_slave` (include/urcu/static/urcu-memb.h) -/
def «urcu_memb_smp_mb_slave» : Stmt :=
  .ifte (.pload (.addrGlob "urcu_memb_has_sys_membarrier")) (.prim none .barrier []) (.prim none .mb [])
def «urcu_memb_smp_mb_slave.params» : List String := []

/-- `_urcu_memb_read_lock_update` (include/urcu/static/urcu-memb.h) -/
def «_urcu_memb_read_lock_update» : Stmt :=
  block [(.assign "ctr" (.fieldAddr (.addrTls "urcu_memb_reader") "ctr")), (.ifte (.un .lnot (.bin .band (.var "tmp") (.cst "URCU_GP_CTR_NEST_MASK" (4294967295)))) (block [(.assign "pgctr" (.fieldAddr (.addrGlob "urcu_memb_gp") "ctr")), (.prim (some "_t1") .uload [.var "pgctr", .cst "CMM_RELAXED" (0)]), (.assign "gctr" (.var "_t1")), (.prim none .ustore [.var "ctr", .var "gctr", .cst "CMM_RELAXED" (0)]), (.call none [] [] «urcu_memb_smp_mb_slave»)]) (.prim none .ustore [.var "ctr", .bin .add (.var "tmp") (.cst "URCU_GP_COUNT" (1)), .cst "CMM_RELAXED" (0)]))]
def «_urcu_memb_read_lock_update.params» : List String := ["tmp"]

/-- `_urcu_memb_read_lock` (include/urcu/static/urcu-memb.h) -/
def «_urcu_memb_read_lock» : Stmt :=
  block [(.assertDbg (.pload (.fieldAddr (.addrTls "urcu_memb_reader") "registered"))), (.prim none .barrier []), (.assign "tmp" (.pload (.fieldAddr (.addrTls "urcu_memb_reader") "ctr"))), (.assertDbg (.bin .ne (.bin .band (.var "tmp") (.cst "URCU_GP_CTR_NEST_MASK" (4294967295))) (.cst "URCU_GP_CTR_NEST_MASK" (4294967295)))), (.call none ["tmp"] [.var "tmp"] «_urcu_memb_read_lock_update»)]
def «_urcu_memb_read_lock.params» : List String := []

/-- `urcu_common_wake_up_gp` (include/urcu/static/urcu-common.h) -/
def «urcu_common_wake_up_gp» : Stmt :=
  block [(.prim (some "_t1") .uload [.fieldAddr (.var "gp") "futex", .cst "CMM_RELAXED" (0)]), (.ifte (.bin .eq (.var "_t1") (.lit (-1))) (block [(.prim none .ustore [.fieldAddr (.var "gp") "futex", .lit 0, .cst "CMM_RELAXED" (0)]), (.prim none (.ext "futex_async") [.fieldAddr (.var "gp") "futex", .cst "FUTEX_WAKE" (1), .lit 1, .null, .null, .lit 0])]) (.skip))]
def «urcu_common_wake_up_gp.params» : List String := ["gp"]

/-- `_urcu_memb_read_unlock_update_and_wakeup` (include/urcu/static/urcu-memb.h) -/
def «_urcu_memb_read_unlock_update_and_wakeup» : Stmt :=
  block [(.assign "ctr" (.fieldAddr (.addrTls "urcu_memb_reader") "ctr")), (.ifte (.bin .eq (.bin .band (.var "tmp") (.cst "URCU_GP_CTR_NEST_MASK" (4294967295))) (.cst "URCU_GP_COUNT" (1))) (block [(.call none [] [] «urcu_memb_smp_mb_slave»), (.prim none .ustore [.var "ctr", .bin .sub (.var "tmp") (.cst "URCU_GP_COUNT" (1)), .cst "CMM_RELAXED" (0)]), (.call none [] [] «urcu_memb_smp_mb_slave»), (.call none ["gp"] [.addrGlob "urcu_memb_gp"] «urcu_common_wake_up_gp»)]) (.prim none .ustore [.var "ctr", .bin .sub (.var "tmp") (.cst "URCU_GP_COUNT" (1)), .cst "CMM_RELAXED" (0)]))]
def «_urcu_memb_read_unlock_update_and_wakeup.params» : List String := ["tmp"]

/-- `_urcu_memb_read_unlock` (include/urcu/static/urcu-memb.h) -/
def «_urcu_memb_read_unlock» : Stmt :=
  block [(.assertDbg (.pload (.fieldAddr (.addrTls "urcu_memb_reader") "registered"))), (.assign "tmp" (.pload (.fieldAddr (.addrTls "urcu_memb_reader") "ctr"))), (.assertDbg (.bin .band (.var "tmp") (.cst "URCU_GP_CTR_NEST_MASK" (4294967295)))), (.call none ["tmp"] [.var "tmp"] «_urcu_memb_read_unlock_update_and_wakeup»), (.prim none .barrier [])]
def «_urcu_memb_read_unlock.params» : List String := []

/-- `_urcu_memb_read_ongoing` (include/urcu/static/urcu-memb.h) -/
def «_urcu_memb_read_ongoing» : Stmt :=
  .ret (some (.bin .band (.pload (.fieldAddr (.addrTls "urcu_memb_reader") "ctr")) (.cst "URCU_GP_CTR_NEST_MASK" (4294967295))))
def «_urcu_memb_read_ongoing.params» : List String := []

/-- `_urcu_mb_read_lock_update` (include/urcu/static/urcu-mb.h) -/
def «_urcu_mb_read_lock_update» : Stmt :=
  .ifte (.un .lnot (.bin .band (.var "tmp") (.cst "URCU_GP_CTR_NEST_MASK" (4294967295)))) (block [(.prim (some "_t1") .uload [.fieldAddr (.addrGlob "urcu_mb_gp") "ctr", .cst "CMM_RELAXED" (0)]), (.prim none .ustore [.fieldAddr (.addrTls "urcu_mb_reader") "ctr", .var "_t1", .cst "CMM_RELAXED" (0)]), (.prim none .mb [])]) (.prim none .ustore [.fieldAddr (.addrTls "urcu_mb_reader") "ctr", .bin .add (.var "tmp") (.cst "URCU_GP_COUNT" (1)), .cst "CMM_RELAXED" (0)])
def «_urcu_mb_read_lock_update.params» : List String := ["tmp"]

/-- `_urcu_mb_read_lock` (include/urcu/static/urcu-mb.h) -/
def «_urcu_mb_read_lock» : Stmt :=
  block [(.assertDbg (.pload (.fieldAddr (.addrTls "urcu_mb_reader") "registered"))), (.prim none .barrier []), (.assign "tmp" (.pload (.fieldAddr (.addrTls "urcu_mb_reader") "ctr"))), (.assertDbg (.bin .ne (.bin .band (.var "tmp") (.cst "URCU_GP_CTR_NEST_MASK" (4294967295))) (.cst "URCU_GP_CTR_NEST_MASK" (4294967295)))), (.call none ["tmp"] [.var "tmp"] «_urcu_mb_read_lock_update»)]
def «_urcu_mb_read_lock.params» : List String := []

/-- `_urcu_mb_read_unlock_update_and_wakeup` (include/urcu/static/urcu-mb.h) -/
def «_urcu_mb_read_unlock_update_and_wakeup» : Stmt :=
  block [(.assign "ctr" (.fieldAddr (.addrTls "urcu_mb_reader") "ctr")), (.ifte (.bin .eq (.bin .band (.var "tmp") (.cst "URCU_GP_CTR_NEST_MASK" (4294967295))) (.cst "URCU_GP_COUNT" (1))) (block [(.prim none .ustore [.var "ctr", .bin .sub (.var "tmp") (.cst "URCU_GP_COUNT" (1)), .cst "CMM_SEQ_CST" (5)]), (.call none ["gp"] [.addrGlob "urcu_mb_gp"] «urcu_common_wake_up_gp»)]) (.prim none .ustore [.var "ctr", .bin .sub (.var "tmp") (.cst "URCU_GP_COUNT" (1)), .cst "CMM_RELAXED" (0)]))]
def «_urcu_mb_read_unlock_update_and_wakeup.params» : List String := ["tmp"]

/-- `_urcu_mb_read_unlock` (include/urcu/static/urcu-mb.h) -/
def «_urcu_mb_read_unlock» : Stmt :=
  block [(.assertDbg (.pload (.fieldAddr (.addrTls "urcu_mb_reader") "registered"))), (.assign "tmp" (.pload (.fieldAddr (.addrTls "urcu_mb_reader") "ctr"))), (.assertDbg (.bin .band (.var "tmp") (.cst "URCU_GP_CTR_NEST_MASK" (4294967295)))), (.call none ["tmp"] [.var "tmp"] «_urcu_mb_read_unlock_update_and_wakeup»), (.prim none .barrier [])]
def «_urcu_mb_read_unlock.params» : List String := []

/-- `_urcu_mb_read_ongoing` (include/urcu/static/urcu-mb.h) -/
def «_urcu_mb_read_ongoing» : Stmt :=
  .ret (some (.bin .band (.pload (.fieldAddr (.addrTls "urcu_mb_reader") "ctr")) (.cst "URCU_GP_CTR_NEST_MASK" (4294967295))))
def «_urcu_mb_read_ongoing.params» : List String := []

/-- `urcu_bp_smp_mb_slave` (include/urcu/static/urcu-bp.h) -/
def «urcu_bp_smp_mb_slave» : Stmt :=
  .ifte (.pload (.addrGlob "urcu_bp_has_sys_membarrier")) (.prim none .barrier []) (.prim none .mb [])
def «urcu_bp_smp_mb_slave.params» : List String := []

/-- `_urcu_bp_read_lock_update` (include/urcu/static/urcu-bp.h) -/
def «_urcu_bp_read_lock_update» : Stmt :=
  .ifte (.un .lnot (.bin .band (.var "tmp") (.cst "URCU_BP_GP_CTR_NEST_MASK" (4294967295)))) (block [(.prim (some "_t1") .uload [.fieldAddr (.addrGlob "urcu_bp_gp") "ctr", .cst "CMM_RELAXED" (0)]), (.prim none .ustore [.fieldAddr (.pload (.addrTls "urcu_bp_reader")) "ctr", .var "_t1", .cst "CMM_RELAXED" (0)]), (.call none [] [] «urcu_bp_smp_mb_slave»)]) (.prim none .ustore [.fieldAddr (.pload (.addrTls "urcu_bp_reader")) "ctr", .bin .add (.var "tmp") (.cst "URCU_BP_GP_COUNT" (1)), .cst "CMM_RELAXED" (0)])
def «_urcu_bp_read_lock_update.params» : List String := ["tmp"]

/-- `_urcu_bp_read_lock` (include/urcu/static/urcu-bp.h) -/
def «_urcu_bp_read_lock» : Stmt :=
  block [(.ifte (.un .lnot (.pload (.addrTls "urcu_bp_reader"))) (.prim none (.ext "urcu_bp_register") []) (.skip)), (.prim none .barrier []), (.assign "tmp" (.pload (.fieldAddr (.pload (.addrTls "urcu_bp_reader")) "ctr"))), (.assertDbg (.bin .ne (.bin .band (.var "tmp") (.cst "URCU_BP_GP_CTR_NEST_MASK" (4294967295))) (.cst "URCU_BP_GP_CTR_NEST_MASK" (4294967295)))), (.call none ["tmp"] [.var "tmp"] «_urcu_bp_read_lock_update»)]
def «_urcu_bp_read_lock.params» : List String := []

/-- `_urcu_bp_read_unlock` (include/urcu/static/urcu-bp.h) -/
def «_urcu_bp_read_unlock» : Stmt :=
  block [(.assign "ctr" (.fieldAddr (.pload (.addrTls "urcu_bp_reader")) "ctr")), (.assign "tmp" (.pload (.fieldAddr (.pload (.addrTls "urcu_bp_reader")) "ctr"))), (.assertDbg (.bin .band (.var "tmp") (.cst "URCU_BP_GP_CTR_NEST_MASK" (4294967295)))), (.call none [] [] «urcu_bp_smp_mb_slave»), (.prim none .ustore [.var "ctr", .bin .sub (.var "tmp") (.cst "URCU_BP_GP_COUNT" (1)), .cst "CMM_RELAXED" (0)]), (.prim none .barrier [])]
def «_urcu_bp_read_unlock.params» : List String := []

/-- `_urcu_bp_read_ongoing` (include/urcu/static/urcu-bp.h) -/
def «_urcu_bp_read_ongoing» : Stmt :=
  block [(.ifte (.un .lnot (.pload (.addrTls "urcu_bp_reader"))) (.prim none (.ext "urcu_bp_register") []) (.skip)), (.ret (some (.bin .band (.pload (.fieldAddr (.pload (.addrTls "urcu_bp_reader")) "ctr")) (.cst "URCU_BP_GP_CTR_NEST_MASK" (4294967295)))))]
def «_urcu_bp_read_ongoing.params» : List String := []

/-- `_urcu_qsbr_read_lock` (include/urcu/static/urcu-qsbr.h) -/
def «_urcu_qsbr_read_lock» : Stmt :=
  .assertDbg (.pload (.fieldAddr (.addrTls "urcu_qsbr_reader") "ctr"))
def «_urcu_qsbr_read_lock.params» : List String := []

/-- `_urcu_qsbr_read_unlock` (include/urcu/static/urcu-qsbr.h) -/
def «_urcu_qsbr_read_unlock» : Stmt :=
  .assertDbg (.pload (.fieldAddr (.addrTls "urcu_qsbr_reader") "ctr"))
def «_urcu_qsbr_read_unlock.params» : List String := []

/-- `_urcu_qsbr_read_ongoing` (include/urcu/static/urcu-qsbr.h) -/
def «_urcu_qsbr_read_ongoing» : Stmt :=
  .ret (some (.pload (.fieldAddr (.addrTls "urcu_qsbr_reader") "ctr")))
def «_urcu_qsbr_read_ongoing.params» : List String := []

/-- `urcu_qsbr_wake_up_gp` (include/urcu/static/urcu-qsbr.h) -/
def «urcu_qsbr_wake_up_gp» : Stmt :=
  block [(.prim (some "_t1") .uload [.fieldAddr (.addrTls "urcu_qsbr_reader") "waiting", .cst "CMM_RELAXED" (0)]), (.ifte (.var "_t1") (block [(.prim none .ustore [.fieldAddr (.addrTls "urcu_qsbr_reader") "waiting", .lit 0, .cst "CMM_RELAXED" (0)]), (.prim none .mb []), (.prim (some "_t2") .uload [.fieldAddr (.addrGlob "urcu_qsbr_gp") "futex", .cst "CMM_RELAXED" (0)]), (.ifte (.bin .ne (.var "_t2") (.lit (-1))) (.ret none) (.skip)), (.prim none .ustore [.fieldAddr (.addrGlob "urcu_qsbr_gp") "futex", .lit 0, .cst "CMM_RELAXED" (0)]), (.prim none (.ext "futex_noasync") [.fieldAddr (.addrGlob "urcu_qsbr_gp") "futex", .cst "FUTEX_WAKE" (1), .lit 1, .null, .null, .lit 0])]) (.skip))]
def «urcu_qsbr_wake_up_gp.params» : List String := []

/-- `_urcu_qsbr_quiescent_state_update_and_wakeup` (include/urcu/static/urcu-qsbr.h) -/
def «_urcu_qsbr_quiescent_state_update_and_wakeup» : Stmt :=
  block [(.prim none .ustore [.fieldAddr (.addrTls "urcu_qsbr_reader") "ctr", .var "gp_ctr", .cst "CMM_SEQ_CST" (5)]), (.call none [] [] «urcu_qsbr_wake_up_gp»), (.prim none .mb [])]
def «_urcu_qsbr_quiescent_state_update_and_wakeup.params» : List String := ["gp_ctr"]

/-- `_urcu_qsbr_quiescent_state` (include/urcu/static/urcu-qsbr.h) -/
def «_urcu_qsbr_quiescent_state» : Stmt :=
  block [(.assertDbg (.pload (.fieldAddr (.addrTls "urcu_qsbr_reader") "registered"))), (.prim (some "_t1") .uload [.fieldAddr (.addrGlob "urcu_qsbr_gp") "ctr", .cst "CMM_RELAXED" (0)]), (.assign "gp_ctr" (.var "_t1")), (.ifte (.bin .eq (.var "gp_ctr") (.pload (.fieldAddr (.addrTls "urcu_qsbr_reader") "ctr"))) (.ret none) (.skip)), (.call none ["gp_ctr"] [.var "gp_ctr"] «_urcu_qsbr_quiescent_state_update_and_wakeup»)]
def «_urcu_qsbr_quiescent_state.params» : List String := []

/-- `_urcu_qsbr_thread_offline` (include/urcu/static/urcu-qsbr.h) -/
def «_urcu_qsbr_thread_offline» : Stmt :=
  block [(.assertDbg (.pload (.fieldAddr (.addrTls "urcu_qsbr_reader") "registered"))), (.prim none .ustore [.fieldAddr (.addrTls "urcu_qsbr_reader") "ctr", .lit 0, .cst "CMM_SEQ_CST" (5)]), (.call none [] [] «urcu_qsbr_wake_up_gp»), (.prim none .barrier [])]
def «_urcu_qsbr_thread_offline.params» : List String := []

/-- `_urcu_qsbr_thread_online` (include/urcu/static/urcu-qsbr.h) -/
def «_urcu_qsbr_thread_online» : Stmt :=
  block [(.assign "pctr" (.fieldAddr (.addrTls "urcu_qsbr_reader") "ctr")), (.assertDbg (.pload (.fieldAddr (.addrTls "urcu_qsbr_reader") "registered"))), (.prim none .barrier []), (.prim (some "_t1") .uload [.fieldAddr (.addrGlob "urcu_qsbr_gp") "ctr", .cst "CMM_RELAXED" (0)]), (.assign "ctr" (.var "_t1")), (.prim none .ustore [.var "pctr", .var "ctr", .cst "CMM_RELAXED" (0)]), (.prim none .mb [])]
def «_urcu_qsbr_thread_online.params» : List String := []

/-- `___cds_wfs_end` (include/urcu/static/wfstack.h) -/
def «___cds_wfs_end» : Stmt :=
  .ret (some (.bin .eq (.var "node") (.cst "CDS_WFS_END" (1))))
def «___cds_wfs_end.params» : List String := ["node"]

/-- `_cds_wfs_push` (include/urcu/static/wfstack.h) -/
def «_cds_wfs_push» : Stmt :=
  block [(.assign "s" (.var "u_stack")), (.assign "new_head" (.var "node")), (.ifte (.pload (.addrGlob "CONFIG_RCU_EMIT_LEGACY_MB")) (.prim none .mb []) (.skip)), (.prim (some "_t1") .uxchg [.fieldAddr (.var "s") "head", .var "new_head", .cst "CMM_SEQ_CST" (5)]), (.assign "old_head" (.var "_t1")), (.prim none .ustore [.fieldAddr (.var "node") "next", .var "old_head", .cst "CMM_RELEASE" (3)]), (.call (some "_t2") ["node"] [.var "old_head"] «___cds_wfs_end»), (.ret (some (.un .lnot (.var "_t2"))))]
def «_cds_wfs_push.params» : List String := ["u_stack", "node"]

/-- `___cds_wfs_node_sync_next` (include/urcu/static/wfstack.h) -/
def «___cds_wfs_node_sync_next» : Stmt :=
  block [(.assign "attempt" (.lit 0)), (.loop (block [(.prim (some "_t1") .uload [.fieldAddr (.var "node") "next", .cst "CMM_CONSUME" (1)]), (.assign "next" (.var "_t1")), (.ifte (.bin .eq (.var "next") (.null)) (block [(.ifte (.un .lnot (.var "blocking")) (.ret (some (.cst "CDS_WFS_WOULDBLOCK" (-1)))) (.skip)), (.assign "attempt" (.bin .add (.var "attempt") (.lit 1))), (.ifte (.bin .ge (.var "attempt") (.cst "CDS_WFS_ADAPT_ATTEMPTS" (10))) (block [(.prim none (.ext "poll") [.null, .lit 0, .cst "CDS_WFS_WAIT" (10)]), (.assign "attempt" (.lit 0))]) (.prim none .relax []))]) (.brk))])), (.ret (some (.var "next")))]
def «___cds_wfs_node_sync_next.params» : List String := ["node", "blocking"]

/-- `___cds_wfs_pop` (include/urcu/static/wfstack.h) -/
def «___cds_wfs_pop» : Stmt :=
  block [(.assign "s" (.var "u_stack")), (.ifte (.var "state") (block [(.assign "_t1" (.lit 0)), (.pstore (.var "state") (.var "_t1"))]) (.skip)), (.loop (block [(.prim (some "_t2") .uload [.fieldAddr (.var "s") "head", .cst "CMM_CONSUME" (1)]), (.assign "head" (.var "_t2")), (.call (some "_t3") ["node"] [.var "head"] «___cds_wfs_end»), (.ifte (.var "_t3") (.ret (some (.null))) (.skip)), (.call (some "_t4") ["node", "blocking"] [.var "head", .var "blocking"] «___cds_wfs_node_sync_next»), (.assign "next" (.var "_t4")), (.ifte (.bin .land (.un .lnot (.var "blocking")) (.bin .eq (.var "next") (.cst "CDS_WFS_WOULDBLOCK" (-1)))) (.ret (some (.cst "CDS_WFS_WOULDBLOCK" (-1)))) (.skip)), (.assign "new_head" (.var "next")), (.prim (some "_t5") .ucmpxchg [.fieldAddr (.var "s") "head", .var "head", .var "new_head", .cst "CMM_SEQ_CST" (5), .cst "CMM_SEQ_CST" (5)]), (.ifte (.bin .eq (.var "_t5") (.var "head")) (block [(.ifte (.var "state") (block [(.call (some "_t6") ["node"] [.var "new_head"] «___cds_wfs_end»), (.assign "_t7" (.un .lnot (.un .lnot (.var "_t6"))))]) (.assign "_t7" (.lit 0))), (.ifte (.var "_t7") (block [(.assign "_t8" (.bin .bor (.pload (.var "state")) (.cst "CDS_WFS_STATE_LAST" (1)))), (.pstore (.var "state") (.var "_t8"))]) (.skip)), (.ifte (.pload (.addrGlob "CONFIG_RCU_EMIT_LEGACY_MB")) (.prim none .mb []) (.skip)), (.ret (some (.var "head")))]) (.skip)), (.ifte (.un .lnot (.var "blocking")) (.ret (some (.cst "CDS_WFS_WOULDBLOCK" (-1)))) (.skip))]))]
def «___cds_wfs_pop.params» : List String := ["u_stack", "state", "blocking"]

/-- `___cds_wfs_pop_all` (include/urcu/static/wfstack.h) -/
def «___cds_wfs_pop_all» : Stmt :=
  block [(.assign "s" (.var "u_stack")), (.prim (some "_t1") .uxchg [.fieldAddr (.var "s") "head", .cst "CDS_WFS_END" (1), .cst "CMM_SEQ_CST" (5)]), (.assign "head" (.var "_t1")), (.ifte (.pload (.addrGlob "CONFIG_RCU_EMIT_LEGACY_MB")) (.prim none .mb []) (.skip)), (.call (some "_t2") ["node"] [.var "head"] «___cds_wfs_end»), (.ifte (.var "_t2") (.ret (some (.null))) (.skip)), (.ret (some (.var "head")))]
def «___cds_wfs_pop_all.params» : List String := ["u_stack"]

/-- `_cds_wfs_empty` (include/urcu/static/wfstack.h) -/
def «_cds_wfs_empty» : Stmt :=
  block [(.assign "s" (.var "u_stack")), (.prim (some "_t1") .uload [.fieldAddr (.var "s") "head", .cst "CMM_RELAXED" (0)]), (.call (some "_t2") ["node"] [.var "_t1"] «___cds_wfs_end»), (.ret (some (.var "_t2")))]
def «_cds_wfs_empty.params» : List String := ["u_stack"]

/-- `___cds_lfs_empty_head` (include/urcu/static/lfstack.h) -/
def «___cds_lfs_empty_head» : Stmt :=
  .ret (some (.bin .eq (.var "head") (.null)))
def «___cds_lfs_empty_head.params» : List String := ["head"]

/-- `_cds_lfs_push` (include/urcu/static/lfstack.h) -/
def «_cds_lfs_push» : Stmt :=
  block [(.assign "s" (.var "u_s")), (.assign "head" (.null)), (.assign "new_head" (.var "node")), (.loop (block [(.assign "old_head" (.var "head")), (.assign "_t1" (.var "head")), (.pstore (.fieldAddr (.var "node") "next") (.var "_t1")), (.ifte (.pload (.addrGlob "CONFIG_RCU_EMIT_LEGACY_MB")) (.prim none .mb []) (.skip)), (.prim (some "_t2") .ucmpxchg [.fieldAddr (.var "s") "head", .var "old_head", .var "new_head", .cst "CMM_SEQ_CST" (5), .cst "CMM_SEQ_CST" (5)]), (.assign "head" (.var "_t2")), (.ifte (.bin .eq (.var "old_head") (.var "head")) (.brk) (.skip))])), (.call (some "_t3") ["head"] [.var "head"] «___cds_lfs_empty_head»), (.ret (some (.un .lnot (.var "_t3"))))]
def «_cds_lfs_push.params» : List String := ["u_s", "node"]

/-- `___cds_lfs_pop` (include/urcu/static/lfstack.h) -/
def «___cds_lfs_pop» : Stmt :=
  block [(.assign "s" (.var "u_s")), (.loop (block [(.prim (some "_t1") .uload [.fieldAddr (.var "s") "head", .cst "CMM_CONSUME" (1)]), (.assign "head" (.var "_t1")), (.call (some "_t2") ["head"] [.var "head"] «___cds_lfs_empty_head»), (.ifte (.var "_t2") (.ret (some (.null))) (.skip)), (.prim (some "_t3") .uload [.fieldAddr (.var "head") "next", .cst "CMM_RELAXED" (0)]), (.assign "next" (.var "_t3")), (.assign "next_head" (.var "next")), (.prim (some "_t4") .ucmpxchg [.fieldAddr (.var "s") "head", .var "head", .var "next_head", .cst "CMM_SEQ_CST" (5), .cst "CMM_SEQ_CST" (5)]), (.ifte (.bin .eq (.var "_t4") (.var "head")) (block [(.ifte (.pload (.addrGlob "CONFIG_RCU_EMIT_LEGACY_MB")) (.prim none .mb []) (.skip)), (.ret (some (.var "head")))]) (.skip))]))]
def «___cds_lfs_pop.params» : List String := ["u_s"]

/-- `___cds_lfs_pop_all` (include/urcu/static/lfstack.h) -/
def «___cds_lfs_pop_all» : Stmt :=
  block [(.assign "s" (.var "u_s")), (.prim (some "_t1") .uxchg [.fieldAddr (.var "s") "head", .null, .cst "CMM_SEQ_CST" (5)]), (.assign "head" (.var "_t1")), (.ifte (.pload (.addrGlob "CONFIG_RCU_EMIT_LEGACY_MB")) (.prim none .mb []) (.skip)), (.ret (some (.var "head")))]
def «___cds_lfs_pop_all.params» : List String := ["u_s"]

/-- `_cds_lfs_empty` (include/urcu/static/lfstack.h) -/
def «_cds_lfs_empty» : Stmt :=
  block [(.prim (some "_t1") .uload [.fieldAddr (.var "s") "head", .cst "CMM_RELAXED" (0)]), (.call (some "_t2") ["head"] [.var "_t1"] «___cds_lfs_empty_head»), (.ret (some (.var "_t2")))]
def «_cds_lfs_empty.params» : List String := ["s"]

/-- `___cds_wfcq_append` (include/urcu/static/wfcqueue.h) -/
def «___cds_wfcq_append» : Stmt :=
  block [(.assign "head" (.var "u_head")), (.prim (some "_t1") .uxchg [.fieldAddr (.var "tail") "p", .var "new_tail", .cst "CMM_SEQ_CST" (5)]), (.assign "old_tail" (.var "_t1")), (.prim none .ustore [.fieldAddr (.var "old_tail") "next", .var "new_head", .cst "CMM_RELEASE" (3)]), (.ret (some (.bin .ne (.var "old_tail") (.var "head"))))]
def «___cds_wfcq_append.params» : List String := ["u_head", "tail", "new_head", "new_tail"]

/-- `_cds_wfcq_enqueue` (include/urcu/static/wfcqueue.h) -/
def «_cds_wfcq_enqueue» : Stmt :=
  block [(.ifte (.pload (.addrGlob "CONFIG_RCU_EMIT_LEGACY_MB")) (.prim none .mb []) (.skip)), (.call (some "_t1") ["u_head", "tail", "new_head", "new_tail"] [.var "head", .var "tail", .var "new_tail", .var "new_tail"] «___cds_wfcq_append»), (.ret (some (.var "_t1")))]
def «_cds_wfcq_enqueue.params» : List String := ["head", "tail", "new_tail"]

/-- `_cds_wfcq_empty` (include/urcu/static/wfcqueue.h) -/
def «_cds_wfcq_empty» : Stmt :=
  block [(.assign "head" (.var "u_head")), (.prim (some "_t1") .uload [.fieldAddr (.var "head") "next", .cst "CMM_CONSUME" (1)]), (.ifte (.bin .eq (.var "_t1") (.null)) (block [(.prim (some "_t2") .uload [.fieldAddr (.var "tail") "p", .cst "CMM_CONSUME" (1)]), (.assign "_t3" (.un .lnot (.un .lnot (.bin .eq (.var "_t2") (.var "head")))))]) (.assign "_t3" (.lit 0))), (.ret (some (.var "_t3")))]
def «_cds_wfcq_empty.params» : List String := ["u_head", "tail"]

/-- `___cds_wfcq_busy_wait` (include/urcu/static/wfcqueue.h) -/
def «___cds_wfcq_busy_wait» : Stmt :=
  block [(.ifte (.un .lnot (.var "blocking")) (.ret (some (.lit 1))) (.skip)), (.assign "_t1" (.bin .add (.pload (.var "attempt")) (.lit 1))), (.pstore (.var "attempt") (.var "_t1")), (.ifte (.bin .ge (.var "_t1") (.cst "WFCQ_ADAPT_ATTEMPTS" (10))) (block [(.prim none (.ext "CDS_WFCQ_WAIT_SLEEP") [.cst "WFCQ_WAIT" (10)]), (.assign "_t2" (.lit 0)), (.pstore (.var "attempt") (.var "_t2"))]) (.prim none .relax [])), (.ret (some (.lit 0)))]
def «___cds_wfcq_busy_wait.params» : List String := ["attempt", "blocking"]

/-- `___cds_wfcq_node_sync_next` (include/urcu/static/wfcqueue.h) -/
def «___cds_wfcq_node_sync_next» : Stmt :=
  block [(.assign "_t1" (.lit 0)), (.pstore (.addrGlob "&attempt") (.var "_t1")), (.loop (block [(.prim (some "_t2") .uload [.fieldAddr (.var "node") "next", .cst "CMM_CONSUME" (1)]), (.assign "next" (.var "_t2")), (.ifte (.bin .eq (.var "next") (.null)) (block [(.call (some "_t3") ["attempt", "blocking"] [.addrGlob "&attempt", .var "blocking"] «___cds_wfcq_busy_wait»), (.ifte (.var "_t3") (.ret (some (.cst "CDS_WFCQ_WOULDBLOCK" (-1)))) (.skip))]) (.brk))])), (.ret (some (.var "next")))]
def «___cds_wfcq_node_sync_next.params» : List String := ["node", "blocking"]

/-- `_cds_wfcq_node_init_atomic` (include/urcu/static/wfcqueue.h) -/
def «_cds_wfcq_node_init_atomic» : Stmt :=
  .prim none .ustore [.fieldAddr (.var "node") "next", .null, .cst "CMM_RELAXED" (0)]
def «_cds_wfcq_node_init_atomic.params» : List String := ["node"]

/-- `___cds_wfcq_dequeue_with_state` (include/urcu/static/wfcqueue.h) -/
def «___cds_wfcq_dequeue_with_state» : Stmt :=
  block [(.assign "head" (.var "u_head")), (.ifte (.var "state") (block [(.assign "_t1" (.lit 0)), (.pstore (.var "state") (.var "_t1"))]) (.skip)), (.call (some "_t2") ["u_head", "tail"] [.var "head", .var "tail"] «_cds_wfcq_empty»), (.ifte (.var "_t2") (.ret (some (.null))) (.skip)), (.call (some "_t3") ["node", "blocking"] [.var "head", .var "blocking"] «___cds_wfcq_node_sync_next»), (.assign "node" (.var "_t3")), (.ifte (.bin .land (.un .lnot (.var "blocking")) (.bin .eq (.var "node") (.cst "CDS_WFCQ_WOULDBLOCK" (-1)))) (.ret (some (.cst "CDS_WFCQ_WOULDBLOCK" (-1)))) (.skip)), (.prim (some "_t4") .uload [.fieldAddr (.var "node") "next", .cst "CMM_CONSUME" (1)]), (.assign "next" (.var "_t4")), (.ifte (.bin .eq (.var "next") (.null)) (block [(.call none ["node"] [.var "head"] «_cds_wfcq_node_init_atomic»), (.prim (some "_t5") .ucmpxchg [.fieldAddr (.var "tail") "p", .var "node", .var "head", .cst "CMM_SEQ_CST" (5), .cst "CMM_SEQ_CST" (5)]), (.ifte (.bin .eq (.var "_t5") (.var "node")) (block [(.ifte (.var "state") (block [(.assign "_t6" (.bin .bor (.pload (.var "state")) (.cst "CDS_WFCQ_STATE_LAST" (1)))), (.pstore (.var "state") (.var "_t6"))]) (.skip)), (.ifte (.pload (.addrGlob "CONFIG_RCU_EMIT_LEGACY_MB")) (.prim none .mb []) (.skip)), (.ret (some (.var "node")))]) (.skip)), (.call (some "_t7") ["node", "blocking"] [.var "node", .var "blocking"] «___cds_wfcq_node_sync_next»), (.assign "next" (.var "_t7")), (.ifte (.bin .land (.un .lnot (.var "blocking")) (.bin .eq (.var "next") (.cst "CDS_WFCQ_WOULDBLOCK" (-1)))) (block [(.prim none .ustore [.fieldAddr (.var "head") "next", .var "node", .cst "CMM_RELAXED" (0)]), (.ret (some (.cst "CDS_WFCQ_WOULDBLOCK" (-1))))]) (.skip))]) (.skip)), (.prim none .ustore [.fieldAddr (.var "head") "next", .var "next", .cst "CMM_RELAXED" (0)]), (.ifte (.pload (.addrGlob "CONFIG_RCU_EMIT_LEGACY_MB")) (.prim none .mb []) (.skip)), (.ret (some (.var "node")))]
def «___cds_wfcq_dequeue_with_state.params» : List String := ["u_head", "tail", "state", "blocking"]

/-- `___cds_wfcq_splice` (include/urcu/static/wfcqueue.h) -/
def «___cds_wfcq_splice» : Stmt :=
  block [(.assign "dest_q_head" (.var "u_dest_q_head")), (.assign "src_q_head" (.var "u_src_q_head")), (.assign "_t1" (.lit 0)), (.pstore (.addrGlob "&attempt") (.var "_t1")), (.call (some "_t2") ["u_head", "tail"] [.var "src_q_head", .var "src_q_tail"] «_cds_wfcq_empty»), (.ifte (.var "_t2") (.ret (some (.cst "CDS_WFCQ_RET_SRC_EMPTY" (2)))) (.skip)), (.loop (block [(.prim (some "_t3") .uxchg [.fieldAddr (.var "src_q_head") "next", .null, .cst "CMM_SEQ_CST" (5)]), (.assign "head" (.var "_t3")), (.ifte (.var "head") (.brk) (.skip)), (.prim (some "_t4") .uload [.fieldAddr (.var "src_q_tail") "p", .cst "CMM_CONSUME" (1)]), (.ifte (.bin .eq (.var "_t4") (.var "src_q_head")) (.ret (some (.cst "CDS_WFCQ_RET_SRC_EMPTY" (2)))) (.skip)), (.call (some "_t5") ["attempt", "blocking"] [.addrGlob "&attempt", .var "blocking"] «___cds_wfcq_busy_wait»), (.ifte (.var "_t5") (.ret (some (.cst "CDS_WFCQ_RET_WOULDBLOCK" (-1)))) (.skip))])), (.ifte (.pload (.addrGlob "CONFIG_RCU_EMIT_LEGACY_MB")) (.prim none .mb []) (.skip)), (.prim (some "_t6") .uxchg [.fieldAddr (.var "src_q_tail") "p", .var "src_q_head", .cst "CMM_SEQ_CST" (5)]), (.assign "tail" (.var "_t6")), (.call (some "_t7") ["u_head", "tail", "new_head", "new_tail"] [.var "dest_q_head", .var "dest_q_tail", .var "head", .var "tail"] «___cds_wfcq_append»), (.ifte (.var "_t7") (.ret (some (.cst "CDS_WFCQ_RET_DEST_NON_EMPTY" (1)))) (.ret (some (.cst "CDS_WFCQ_RET_DEST_EMPTY" (0)))))]
def «___cds_wfcq_splice.params» : List String := ["u_dest_q_head", "dest_q_tail", "u_src_q_head", "src_q_tail", "blocking"]

/-- `_cds_lfq_enqueue_rcu` (include/urcu/static/rculfqueue.h) -/
def «_cds_lfq_enqueue_rcu» : Stmt :=
  .loop (block [(.prim (some "_t1") .uload [.fieldAddr (.var "q") "tail", .cst "CMM_CONSUME" (1)]), (.assign "tail" (.var "_t1")), (.ifte (.pload (.addrGlob "CONFIG_RCU_EMIT_LEGACY_MB")) (.prim none .mb []) (.skip)), (.prim (some "_t2") .ucmpxchg [.fieldAddr (.var "tail") "next", .null, .var "node", .cst "CMM_SEQ_CST" (5), .cst "CMM_SEQ_CST" (5)]), (.assign "next" (.var "_t2")), (.ifte (.bin .eq (.var "next") (.null)) (block [(.prim none .ucmpxchg [.fieldAddr (.var "q") "tail", .var "tail", .var "node", .cst "CMM_SEQ_CST" (5), .cst "CMM_SEQ_CST" (5)]), (.ret none)]) (block [(.prim none .ucmpxchg [.fieldAddr (.var "q") "tail", .var "tail", .var "next", .cst "CMM_SEQ_CST" (5), .cst "CMM_SEQ_CST" (5)]), (.cont)]))])
def «_cds_lfq_enqueue_rcu.params» : List String := ["q", "node"]

/-- `make_dummy` (include/urcu/static/rculfqueue.h) -/
def «make_dummy» : Stmt :=
  block [(.prim (some "_t1") (.ext "malloc") [.cst "SIZEOF_struct_cds_lfq_node_rcu_dummy" (40)]), (.assign "dummy" (.var "_t1")), (.assign "_t2" (.var "next")), (.pstore (.fieldAddr (.fieldAddr (.var "dummy") "parent") "next") (.var "_t2")), (.assign "_t3" (.lit 1)), (.pstore (.fieldAddr (.fieldAddr (.var "dummy") "parent") "dummy") (.var "_t3")), (.assign "_t4" (.var "q")), (.pstore (.fieldAddr (.var "dummy") "q") (.var "_t4")), (.ret (some (.fieldAddr (.var "dummy") "parent")))]
def «make_dummy.params» : List String := ["q", "next"]

/-- `enqueue_dummy` (include/urcu/static/rculfqueue.h) -/
def «enqueue_dummy» : Stmt :=
  block [(.call (some "_t1") ["q", "next"] [.var "q", .null] «make_dummy»), (.assign "node" (.var "_t1")), (.call none ["q", "node"] [.var "q", .var "node"] «_cds_lfq_enqueue_rcu»)]
def «enqueue_dummy.params» : List String := ["q"]

/-- `rcu_free_dummy` (include/urcu/static/rculfqueue.h) -/
def «rcu_free_dummy» : Stmt :=
  block [(.assign "dummy" (.var "node")), (.prim none (.ext "(*queue_call_rcu)") [.pload (.fieldAddr (.pload (.fieldAddr (.var "dummy") "q")) "queue_call_rcu"), .fieldAddr (.var "dummy") "head", .addrGlob "free_dummy_cb"])]
def «rcu_free_dummy.params» : List String := ["node"]

/-- `_cds_lfq_dequeue_rcu` (include/urcu/static/rculfqueue.h) -/
def «_cds_lfq_dequeue_rcu» : Stmt :=
  .loop (block [(.prim (some "_t1") .uload [.fieldAddr (.var "q") "head", .cst "CMM_CONSUME" (1)]), (.assign "head" (.var "_t1")), (.prim (some "_t2") .uload [.fieldAddr (.var "head") "next", .cst "CMM_CONSUME" (1)]), (.assign "next" (.var "_t2")), (.ifte (.bin .land (.pload (.fieldAddr (.var "head") "dummy")) (.bin .eq (.var "next") (.null))) (.ret (some (.null))) (.skip)), (.ifte (.un .lnot (.var "next")) (block [(.call none ["q"] [.var "q"] «enqueue_dummy»), (.prim (some "_t3") .uload [.fieldAddr (.var "head") "next", .cst "CMM_CONSUME" (1)]), (.assign "next" (.var "_t3"))]) (.skip)), (.prim (some "_t4") .uload [.fieldAddr (.var "q") "tail", .cst "CMM_CONSUME" (1)]), (.ifte (.bin .eq (.var "_t4") (.var "head")) (.prim none .ucmpxchg [.fieldAddr (.var "q") "tail", .var "head", .var "next", .cst "CMM_SEQ_CST" (5), .cst "CMM_SEQ_CST" (5)]) (.skip)), (.prim (some "_t5") .ucmpxchg [.fieldAddr (.var "q") "head", .var "head", .var "next", .cst "CMM_SEQ_CST" (5), .cst "CMM_SEQ_CST" (5)]), (.ifte (.bin .ne (.var "_t5") (.var "head")) (.cont) (.skip)), (.ifte (.pload (.fieldAddr (.var "head") "dummy")) (block [(.call none ["node"] [.var "head"] «rcu_free_dummy»), (.cont)]) (.skip)), (.ret (some (.var "head")))])
def «_cds_lfq_dequeue_rcu.params» : List String := ["q"]

/-- `_cds_lfs_push_rcu` (include/urcu/static/rculfstack.h) -/
def «_cds_lfs_push_rcu» : Stmt :=
  block [(.assign "head" (.null)), (.loop (block [(.assign "old_head" (.var "head")), (.assign "_t1" (.var "head")), (.pstore (.fieldAddr (.var "node") "next") (.var "_t1")), (.ifte (.pload (.addrGlob "CONFIG_RCU_EMIT_LEGACY_MB")) (.prim none .mb []) (.skip)), (.prim (some "_t2") .ucmpxchg [.fieldAddr (.var "s") "head", .var "old_head", .var "node", .cst "CMM_SEQ_CST" (5), .cst "CMM_SEQ_CST" (5)]), (.assign "head" (.var "_t2")), (.ifte (.bin .eq (.var "old_head") (.var "head")) (.brk) (.skip))])), (.ret (some (.un .lnot (.un .lnot (.var "head")))))]
def «_cds_lfs_push_rcu.params» : List String := ["s", "node"]

/-- `_cds_lfs_pop_rcu` (include/urcu/static/rculfstack.h) -/
def «_cds_lfs_pop_rcu» : Stmt :=
  .loop (block [(.prim (some "_t1") .uload [.fieldAddr (.var "s") "head", .cst "CMM_CONSUME" (1)]), (.assign "head" (.var "_t1")), (.ifte (.var "head") (block [(.prim (some "_t2") .uload [.fieldAddr (.var "head") "next", .cst "CMM_CONSUME" (1)]), (.assign "next" (.var "_t2")), (.prim (some "_t3") .ucmpxchg [.fieldAddr (.var "s") "head", .var "head", .var "next", .cst "CMM_SEQ_CST" (5), .cst "CMM_SEQ_CST" (5)]), (.ifte (.bin .eq (.var "_t3") (.var "head")) (block [(.ifte (.pload (.addrGlob "CONFIG_RCU_EMIT_LEGACY_MB")) (.prim none .mb []) (.skip)), (.ret (some (.var "head")))]) (.cont))]) (.ret (some (.null))))])
def «_cds_lfs_pop_rcu.params» : List String := ["s"]

/-- `_cds_wfq_enqueue` (include/urcu/static/wfqueue.h) -/
def «_cds_wfq_enqueue» : Stmt :=
  block [(.ifte (.pload (.addrGlob "CONFIG_RCU_EMIT_LEGACY_MB")) (.prim none .mb []) (.skip)), (.prim (some "_t1") .uxchg [.fieldAddr (.var "q") "tail", .fieldAddr (.var "node") "next", .cst "CMM_SEQ_CST" (5)]), (.assign "old_tail" (.var "_t1")), (.prim none .ustore [.var "old_tail", .var "node", .cst "CMM_RELEASE" (3)])]
def «_cds_wfq_enqueue.params» : List String := ["q", "node"]

/-- `urcu_ref_get_safe` (include/urcu/ref.h) -/
def «urcu_ref_get_safe» : Stmt :=
  block [(.prim (some "_t1") .uload [.fieldAddr (.var "ref") "refcount", .cst "CMM_RELAXED" (0)]), (.assign "old" (.var "_t1")), (.loop (block [(.ifte (.bin .eq (.var "old") (.cst "LONG_MAX" (9223372036854775807))) (.ret (some (.lit 0))) (.skip)), (.assign "_new" (.bin .add (.var "old") (.lit 1))), (.prim (some "_t2") .ucmpxchg [.fieldAddr (.var "ref") "refcount", .var "old", .var "_new", .cst "CMM_SEQ_CST_FENCE" (6), .cst "CMM_RELAXED" (0)]), (.assign "res" (.var "_t2")), (.ifte (.bin .eq (.var "res") (.var "old")) (.ret (some (.lit 1))) (.skip)), (.assign "old" (.var "res"))]))]
def «urcu_ref_get_safe.params» : List String := ["ref"]

/-- `urcu_ref_put` (include/urcu/ref.h) -/
def «urcu_ref_put» : Stmt :=
  block [(.prim (some "_t1") .usubret [.fieldAddr (.var "ref") "refcount", .lit 1, .cst "CMM_SEQ_CST_FENCE" (6)]), (.assign "res" (.var "_t1")), (.ifte (.bin .eq (.var "res") (.lit 0)) (.prim none (.ext "release") [.var "ref"]) (.skip))]
def «urcu_ref_put.params» : List String := ["ref", "release"]

/-- `urcu_ref_get_unless_zero` (include/urcu/ref.h) -/
def «urcu_ref_get_unless_zero» : Stmt :=
  block [(.prim (some "_t1") .uload [.fieldAddr (.var "ref") "refcount", .cst "CMM_RELAXED" (0)]), (.assign "old" (.var "_t1")), (.loop (block [(.ifte (.bin .lor (.bin .eq (.var "old") (.lit 0)) (.bin .eq (.var "old") (.cst "LONG_MAX" (9223372036854775807)))) (.ret (some (.lit 0))) (.skip)), (.assign "_new" (.bin .add (.var "old") (.lit 1))), (.prim (some "_t2") .ucmpxchg [.fieldAddr (.var "ref") "refcount", .var "old", .var "_new", .cst "CMM_SEQ_CST_FENCE" (6), .cst "CMM_RELAXED" (0)]), (.assign "res" (.var "_t2")), (.ifte (.bin .eq (.var "res") (.var "old")) (.ret (some (.lit 1))) (.skip)), (.assign "old" (.var "res"))]))]
def «urcu_ref_get_unless_zero.params» : List String := ["ref"]

/-- `urcu_wait_add` (src/urcu-wait.h) -/
def «urcu_wait_add» : Stmt :=
  block [(.call (some "_t1") ["u_stack", "node"] [.fieldAddr (.var "queue") "stack", .fieldAddr (.var "node") "node"] «_cds_wfs_push»), (.ret (some (.var "_t1")))]
def «urcu_wait_add.params» : List String := ["queue", "node"]

/-- `urcu_move_waiters` (src/urcu-wait.h) -/
def «urcu_move_waiters» : Stmt :=
  block [(.call (some "_t1") ["u_stack"] [.fieldAddr (.var "queue") "stack"] «___cds_wfs_pop_all»), (.assign "_t2" (.var "_t1")), (.pstore (.fieldAddr (.var "waiters") "head") (.var "_t2"))]
def «urcu_move_waiters.params» : List String := ["waiters", "queue"]

/-- `urcu_wait_set_state` (src/urcu-wait.h) -/
def «urcu_wait_set_state» : Stmt :=
  block [(.assign "_t1" (.var "state")), (.pstore (.fieldAddr (.var "node") "state") (.var "_t1"))]
def «urcu_wait_set_state.params» : List String := ["node", "state"]

/-- `_cds_wfs_node_init` (include/urcu/static/wfstack.h) -/
def «_cds_wfs_node_init» : Stmt :=
  block [(.assign "_t1" (.null)), (.pstore (.fieldAddr (.var "node") "next") (.var "_t1"))]
def «_cds_wfs_node_init.params» : List String := ["node"]

/-- `urcu_wait_node_init` (src/urcu-wait.h) -/
def «urcu_wait_node_init» : Stmt :=
  block [(.call none ["node", "state"] [.var "node", .var "state"] «urcu_wait_set_state»), (.call none ["node"] [.fieldAddr (.var "node") "node"] «_cds_wfs_node_init»)]
def «urcu_wait_node_init.params» : List String := ["node", "state"]

/-- `urcu_adaptative_wake_up` (src/urcu-wait.h) -/
def «urcu_adaptative_wake_up» : Stmt :=
  block [(.prim (some "_t1") .uload [.fieldAddr (.var "wait") "state", .cst "CMM_RELAXED" (0)]), (.ifte (.bin .eq (.var "_t1") (.cst "URCU_WAIT_WAITING" (0))) (.skip) (.prim none (.ext "abort") [])), (.prim none .ustore [.fieldAddr (.var "wait") "state", .cst "URCU_WAIT_WAKEUP" (1), .cst "CMM_RELEASE" (3)]), (.prim (some "_t2") .uload [.fieldAddr (.var "wait") "state", .cst "CMM_RELAXED" (0)]), (.ifte (.un .lnot (.bin .band (.var "_t2") (.cst "URCU_WAIT_RUNNING" (2)))) (block [(.prim (some "_t3") (.ext "futex_noasync") [.fieldAddr (.var "wait") "state", .cst "FUTEX_WAKE" (1), .lit 1, .null, .null, .lit 0]), (.ifte (.bin .lt (.var "_t3") (.lit 0)) (block [(.prim (some "_t4") (.ext "errno") []), (.prim none (.ext "urcu_die") [.var "_t4"])]) (.skip))]) (.skip)), (.prim none .uor [.fieldAddr (.var "wait") "state", .cst "URCU_WAIT_TEARDOWN" (4), .cst "CMM_RELEASE" (3)])]
def «urcu_adaptative_wake_up.params» : List String := ["wait"]

/-- `urcu_adaptative_busy_wait` (src/urcu-wait.h) -/
def «urcu_adaptative_busy_wait» : Stmt :=
  block [(.assign "_goto_skip_futex_wait" (.lit 0)), (.prim none .rmb []), (.assign "i" (.lit 0)), (.loop (.ifte (.bin .lt (.var "i") (.cst "URCU_WAIT_ATTEMPTS" (1000))) (block [(.prim (some "_t1") .uload [.fieldAddr (.var "wait") "state", .cst "CMM_ACQUIRE" (2)]), (.ifte (.bin .ne (.var "_t1") (.cst "URCU_WAIT_WAITING" (0))) (block [(.assign "_goto_skip_futex_wait" (.lit 1)), (.brk)]) (.skip)), (.ifte (.var "_goto_skip_futex_wait") (.brk) (.prim none .relax [])), (.ifte (.var "_goto_skip_futex_wait") (.brk) (block [(.assign "_t2" (.var "i")), (.assign "i" (.bin .add (.var "i") (.lit 1)))]))]) (.brk))), (.ifte (.var "_goto_skip_futex_wait") (.skip) (.loop (block [(.prim (some "_t3") .uload [.fieldAddr (.var "wait") "state", .cst "CMM_ACQUIRE" (2)]), (.ifte (.bin .eq (.var "_t3") (.cst "URCU_WAIT_WAITING" (0))) (block [(.prim (some "_t4") (.ext "futex_noasync") [.fieldAddr (.var "wait") "state", .cst "FUTEX_WAIT" (0), .cst "URCU_WAIT_WAITING" (0), .null, .null, .lit 0]), (.ifte (.un .lnot (.var "_t4")) (.cont) (.skip)), (.prim (some "_t5") (.ext "errno") []), (.assign "_t6" (.var "_t5")), (.ifte (.bin .eq (.var "_t6") (.cst "EAGAIN" (11))) (block [(.assign "_goto_skip_futex_wait" (.lit 1)), (.brk)]) (.ifte (.bin .eq (.var "_t6") (.cst "EINTR" (4))) (.skip) (block [(.prim (some "_t7") (.ext "errno") []), (.prim none (.ext "urcu_die") [.var "_t7"])])))]) (.brk))]))), (.assign "_goto_skip_futex_wait" (.lit 0)), (.prim none .uor [.fieldAddr (.var "wait") "state", .cst "URCU_WAIT_RUNNING" (2), .cst "CMM_RELAXED" (0)]), (.assign "i" (.lit 0)), (.loop (.ifte (.bin .lt (.var "i") (.cst "URCU_WAIT_ATTEMPTS" (1000))) (block [(.prim (some "_t8") .uload [.fieldAddr (.var "wait") "state", .cst "CMM_RELAXED" (0)]), (.ifte (.bin .band (.var "_t8") (.cst "URCU_WAIT_TEARDOWN" (4))) (.brk) (.skip)), (.prim none .relax []), (.assign "_t9" (.var "i")), (.assign "i" (.bin .add (.var "i") (.lit 1)))]) (.brk))), (.loop (block [(.prim (some "_t10") .uload [.fieldAddr (.var "wait") "state", .cst "CMM_ACQUIRE" (2)]), (.ifte (.un .lnot (.bin .band (.var "_t10") (.cst "URCU_WAIT_TEARDOWN" (4)))) (.prim none (.ext "poll") [.null, .lit 0, .lit 10]) (.brk))])), (.prim (some "_t11") .uload [.fieldAddr (.var "wait") "state", .cst "CMM_RELAXED" (0)]), (.ifte (.bin .band (.var "_t11") (.cst "URCU_WAIT_TEARDOWN" (4))) (.skip) (.prim none (.ext "abort") []))]
def «urcu_adaptative_busy_wait.params» : List String := ["wait"]

/-- `call_rcu_wait` (src/urcu-call-rcu-impl.h) -/
def «call_rcu_wait» : Stmt :=
  block [(.prim none .mb []), (.loop (block [(.prim (some "_t1") .uload [.fieldAddr (.var "crdp") "futex", .cst "CMM_RELAXED" (0)]), (.ifte (.bin .eq (.var "_t1") (.lit (-1))) (block [(.prim (some "_t2") (.ext "futex_async") [.fieldAddr (.var "crdp") "futex", .cst "FUTEX_WAIT" (0), .lit (-1), .null, .null, .lit 0]), (.ifte (.un .lnot (.var "_t2")) (.cont) (.skip)), (.prim (some "_t3") (.ext "errno") []), (.assign "_t4" (.var "_t3")), (.ifte (.bin .eq (.var "_t4") (.cst "EAGAIN" (11))) (.ret none) (.ifte (.bin .eq (.var "_t4") (.cst "EINTR" (4))) (.skip) (block [(.prim (some "_t5") (.ext "errno") []), (.prim none (.ext "urcu_die") [.var "_t5"])])))]) (.brk))]))]
def «call_rcu_wait.params» : List String := ["crdp"]

/-- `call_rcu_wake_up` (src/urcu-call-rcu-impl.h) -/
def «call_rcu_wake_up» : Stmt :=
  block [(.prim none .mb []), (.prim (some "_t1") .uload [.fieldAddr (.var "crdp") "futex", .cst "CMM_RELAXED" (0)]), (.ifte (.bin .eq (.var "_t1") (.lit (-1))) (block [(.prim none .ustore [.fieldAddr (.var "crdp") "futex", .lit 0, .cst "CMM_RELAXED" (0)]), (.prim (some "_t2") (.ext "futex_async") [.fieldAddr (.var "crdp") "futex", .cst "FUTEX_WAKE" (1), .lit 1, .null, .null, .lit 0]), (.ifte (.bin .lt (.var "_t2") (.lit 0)) (block [(.prim (some "_t3") (.ext "errno") []), (.prim none (.ext "urcu_die") [.var "_t3"])]) (.skip))]) (.skip))]
def «call_rcu_wake_up.params» : List String := ["crdp"]

/-- `call_rcu_completion_wait` (src/urcu-call-rcu-impl.h) -/
def «call_rcu_completion_wait» : Stmt :=
  block [(.prim none .mb []), (.loop (block [(.prim (some "_t1") .uload [.fieldAddr (.var "completion") "futex", .cst "CMM_RELAXED" (0)]), (.ifte (.bin .eq (.var "_t1") (.lit (-1))) (block [(.prim (some "_t2") (.ext "futex_async") [.fieldAddr (.var "completion") "futex", .cst "FUTEX_WAIT" (0), .lit (-1), .null, .null, .lit 0]), (.ifte (.un .lnot (.var "_t2")) (.cont) (.skip)), (.prim (some "_t3") (.ext "errno") []), (.assign "_t4" (.var "_t3")), (.ifte (.bin .eq (.var "_t4") (.cst "EAGAIN" (11))) (.ret none) (.ifte (.bin .eq (.var "_t4") (.cst "EINTR" (4))) (.skip) (block [(.prim (some "_t5") (.ext "errno") []), (.prim none (.ext "urcu_die") [.var "_t5"])])))]) (.brk))]))]
def «call_rcu_completion_wait.params» : List String := ["completion"]

/-- `call_rcu_completion_wake_up` (src/urcu-call-rcu-impl.h) -/
def «call_rcu_completion_wake_up» : Stmt :=
  block [(.prim none .mb []), (.prim (some "_t1") .uload [.fieldAddr (.var "completion") "futex", .cst "CMM_RELAXED" (0)]), (.ifte (.bin .eq (.var "_t1") (.lit (-1))) (block [(.prim none .ustore [.fieldAddr (.var "completion") "futex", .lit 0, .cst "CMM_RELAXED" (0)]), (.prim (some "_t2") (.ext "futex_async") [.fieldAddr (.var "completion") "futex", .cst "FUTEX_WAKE" (1), .lit 1, .null, .null, .lit 0]), (.ifte (.bin .lt (.var "_t2") (.lit 0)) (block [(.prim (some "_t3") (.ext "errno") []), (.prim none (.ext "urcu_die") [.var "_t3"])]) (.skip))]) (.skip))]
def «call_rcu_completion_wake_up.params» : List String := ["completion"]

/-- `wake_call_rcu_thread` (src/urcu-call-rcu-impl.h) -/
def «wake_call_rcu_thread» : Stmt :=
  block [(.prim (some "_t1") .uload [.fieldAddr (.var "crdp") "flags", .cst "CMM_RELAXED" (0)]), (.ifte (.un .lnot (.bin .band (.var "_t1") (.cst "URCU_CALL_RCU_RT" (1)))) (.call none ["crdp"] [.var "crdp"] «call_rcu_wake_up») (.skip))]
def «wake_call_rcu_thread.params» : List String := ["crdp"]

/-- `_cds_wfcq_node_init` (include/urcu/static/wfcqueue.h) -/
def «_cds_wfcq_node_init» : Stmt :=
  block [(.assign "_t1" (.null)), (.pstore (.fieldAddr (.var "node") "next") (.var "_t1"))]
def «_cds_wfcq_node_init.params» : List String := ["node"]

/-- `_call_rcu` (src/urcu-call-rcu-impl.h) -/
def «_call_rcu» : Stmt :=
  block [(.call none ["node"] [.fieldAddr (.var "head") "next"] «_cds_wfcq_node_init»), (.assign "_t1" (.var "func")), (.pstore (.fieldAddr (.var "head") "func") (.var "_t1")), (.call none ["head", "tail", "new_tail"] [.fieldAddr (.var "crdp") "cbs_head", .fieldAddr (.var "crdp") "cbs_tail", .fieldAddr (.var "head") "next"] «_cds_wfcq_enqueue»), (.prim none .uinc [.fieldAddr (.var "crdp") "qlen", .cst "CMM_RELAXED" (0)]), (.call none ["crdp"] [.var "crdp"] «wake_call_rcu_thread»)]
def «_call_rcu.params» : List String := ["head", "func", "crdp"]

/-- `futex_wait` (src/workqueue.c) -/
def «futex_wait» : Stmt :=
  block [(.prim none .mb []), (.loop (block [(.prim (some "_t1") .uload [.var "futex", .cst "CMM_RELAXED" (0)]), (.ifte (.bin .eq (.var "_t1") (.lit (-1))) (block [(.prim (some "_t2") (.ext "futex_async") [.var "futex", .cst "FUTEX_WAIT" (0), .lit (-1), .null, .null, .lit 0]), (.ifte (.un .lnot (.var "_t2")) (.cont) (.skip)), (.prim (some "_t3") (.ext "errno") []), (.assign "_t4" (.var "_t3")), (.ifte (.bin .eq (.var "_t4") (.cst "EAGAIN" (11))) (.ret none) (.ifte (.bin .eq (.var "_t4") (.cst "EINTR" (4))) (.skip) (block [(.prim (some "_t5") (.ext "errno") []), (.prim none (.ext "urcu_die") [.var "_t5"])])))]) (.brk))]))]
def «futex_wait.params» : List String := ["futex"]

/-- `futex_wake_up` (src/workqueue.c) -/
def «futex_wake_up» : Stmt :=
  block [(.prim none .mb []), (.prim (some "_t1") .uload [.var "futex", .cst "CMM_RELAXED" (0)]), (.ifte (.bin .eq (.var "_t1") (.lit (-1))) (block [(.prim none .ustore [.var "futex", .lit 0, .cst "CMM_RELAXED" (0)]), (.prim (some "_t2") (.ext "futex_async") [.var "futex", .cst "FUTEX_WAKE" (1), .lit 1, .null, .null, .lit 0]), (.ifte (.bin .lt (.var "_t2") (.lit 0)) (block [(.prim (some "_t3") (.ext "errno") []), (.prim none (.ext "urcu_die") [.var "_t3"])]) (.skip))]) (.skip))]
def «futex_wake_up.params» : List String := ["futex"]

/-- `wake_worker_thread` (src/workqueue.c) -/
def «wake_worker_thread» : Stmt :=
  block [(.prim (some "_t1") .uload [.fieldAddr (.var "workqueue") "flags", .cst "CMM_RELAXED" (0)]), (.ifte (.un .lnot (.bin .band (.var "_t1") (.cst "URCU_WORKQUEUE_RT" (1)))) (.call none ["futex"] [.fieldAddr (.var "workqueue") "futex"] «futex_wake_up») (.skip))]
def «wake_worker_thread.params» : List String := ["workqueue"]

/-- `wake_up_defer` (src/urcu-defer-impl.h) -/
def «wake_up_defer» : Stmt :=
  block [(.prim (some "_t1") .uload [.addrGlob "defer_thread_futex", .cst "CMM_RELAXED" (0)]), (.ifte (.bin .eq (.var "_t1") (.lit (-1))) (block [(.prim none .ustore [.addrGlob "defer_thread_futex", .lit 0, .cst "CMM_RELAXED" (0)]), (.prim (some "_t2") (.ext "futex_noasync") [.addrGlob "defer_thread_futex", .cst "FUTEX_WAKE" (1), .lit 1, .null, .null, .lit 0]), (.ifte (.bin .lt (.var "_t2") (.lit 0)) (block [(.prim (some "_t3") (.ext "errno") []), (.prim none (.ext "urcu_die") [.var "_t3"])]) (.skip))]) (.skip))]
def «wake_up_defer.params» : List String := []

/-- `wait_defer` (src/urcu-defer-impl.h) -/
def «wait_defer» : Stmt :=
  block [(.prim none .udec [.addrGlob "defer_thread_futex", .cst "CMM_RELAXED" (0)]), (.prim none .mb []), (.prim (some "_t1") .uload [.addrGlob "defer_thread_stop", .cst "CMM_RELAXED" (0)]), (.ifte (.var "_t1") (block [(.prim none .ustore [.addrGlob "defer_thread_futex", .lit 0, .cst "CMM_RELAXED" (0)]), (.prim none (.ext "pthread_exit") [.lit 0])]) (.skip)), (.prim (some "_t2") (.ext "rcu_defer_num_callbacks") []), (.ifte (.var "_t2") (block [(.prim none .mb []), (.prim none .ustore [.addrGlob "defer_thread_futex", .lit 0, .cst "CMM_RELAXED" (0)])]) (block [(.prim none .rmb []), (.loop (block [(.prim (some "_t3") .uload [.addrGlob "defer_thread_futex", .cst "CMM_RELAXED" (0)]), (.ifte (.bin .eq (.var "_t3") (.lit (-1))) (block [(.prim (some "_t4") (.ext "futex_noasync") [.addrGlob "defer_thread_futex", .cst "FUTEX_WAIT" (0), .lit (-1), .null, .null, .lit 0]), (.ifte (.un .lnot (.var "_t4")) (.cont) (.skip)), (.prim (some "_t5") (.ext "errno") []), (.assign "_t6" (.var "_t5")), (.ifte (.bin .eq (.var "_t6") (.cst "EAGAIN" (11))) (.ret none) (.ifte (.bin .eq (.var "_t6") (.cst "EINTR" (4))) (.skip) (block [(.prim (some "_t7") (.ext "errno") []), (.prim none (.ext "urcu_die") [.var "_t7"])])))]) (.brk))]))]))]
def «wait_defer.params» : List String := []

/-- `rcu_defer_barrier_queue` (src/urcu-defer-impl.h) -/
def «rcu_defer_barrier_queue» : Stmt :=
  block [(.assign "i" (.pload (.fieldAddr (.var "queue") "tail"))), (.loop (.ifte (.bin .ne (.var "i") (.var "head")) (block [(.prim none .rmb []), (.assign "_t1" (.var "i")), (.assign "i" (.bin .add (.var "i") (.lit 1))), (.prim (some "_t2") .uload [.index (.fieldAddr (.var "queue") "q") (.bin .band (.var "_t1") (.cst "DEFER_QUEUE_MASK" (4095))), .cst "CMM_RELAXED" (0)]), (.assign "p" (.var "_t2")), (.ifte (.bin .band (.var "p") (.cst "DQ_FCT_BIT" (1))) (block [(.assign "p" (.bin .band (.var "p") (.cst "NOT_DQ_FCT_BIT" (18446744073709551614)))), (.assign "_t3" (.var "p")), (.pstore (.fieldAddr (.var "queue") "last_fct_out") (.var "_t3")), (.assign "_t4" (.var "i")), (.assign "i" (.bin .add (.var "i") (.lit 1))), (.prim (some "_t5") .uload [.index (.fieldAddr (.var "queue") "q") (.bin .band (.var "_t4") (.cst "DEFER_QUEUE_MASK" (4095))), .cst "CMM_RELAXED" (0)]), (.assign "p" (.var "_t5"))]) (.ifte (.bin .eq (.var "p") (.cst "DQ_FCT_MARK" (18446744073709551614))) (block [(.assign "_t6" (.var "i")), (.assign "i" (.bin .add (.var "i") (.lit 1))), (.prim (some "_t7") .uload [.index (.fieldAddr (.var "queue") "q") (.bin .band (.var "_t6") (.cst "DEFER_QUEUE_MASK" (4095))), .cst "CMM_RELAXED" (0)]), (.assign "p" (.var "_t7")), (.assign "_t8" (.var "p")), (.pstore (.fieldAddr (.var "queue") "last_fct_out") (.var "_t8")), (.assign "_t9" (.var "i")), (.assign "i" (.bin .add (.var "i") (.lit 1))), (.prim (some "_t10") .uload [.index (.fieldAddr (.var "queue") "q") (.bin .band (.var "_t9") (.cst "DEFER_QUEUE_MASK" (4095))), .cst "CMM_RELAXED" (0)]), (.assign "p" (.var "_t10"))]) (.skip))), (.assign "fct" (.pload (.fieldAddr (.var "queue") "last_fct_out"))), (.prim none (.ext "(*)") [.var "fct", .var "p"])]) (.brk))), (.prim none .mb []), (.prim none .ustore [.fieldAddr (.var "queue") "tail", .var "i", .cst "CMM_RELAXED" (0)])]
def «rcu_defer_barrier_queue.params» : List String := ["queue", "head"]

/-- `_rcu_defer_barrier_thread` (src/urcu-defer-impl.h) -/
def «_rcu_defer_barrier_thread» : Stmt :=
  block [(.assign "head" (.pload (.fieldAddr (.addrTls "defer_queue") "head"))), (.assign "num_items" (.bin .sub (.var "head") (.pload (.fieldAddr (.addrTls "defer_queue") "tail")))), (.ifte (.un .lnot (.var "num_items")) (.ret none) (.skip)), (.prim none (.ext "synchronize_rcu") []), (.call none ["queue", "head"] [.addrTls "defer_queue", .var "head"] «rcu_defer_barrier_queue»)]
def «_rcu_defer_barrier_thread.params» : List String := []

/-- `rcu_defer_barrier_thread` (src/urcu-defer-impl.h) -/
def «rcu_defer_barrier_thread» : Stmt :=
  block [(.prim none (.ext "mutex_lock_defer") [.addrGlob "rcu_defer_mutex"]), (.call none [] [] «_rcu_defer_barrier_thread»), (.prim none (.ext "mutex_unlock") [.addrGlob "rcu_defer_mutex"])]
def «rcu_defer_barrier_thread.params» : List String := []

/-- `_defer_rcu` (src/urcu-defer-impl.h) -/
def «_defer_rcu» : Stmt :=
  block [(.assign "head" (.pload (.fieldAddr (.addrTls "defer_queue") "head"))), (.prim (some "_t1") .uload [.fieldAddr (.addrTls "defer_queue") "tail", .cst "CMM_RELAXED" (0)]), (.assign "tail" (.var "_t1")), (.ifte (.bin .ge (.bin .sub (.var "head") (.var "tail")) (.bin .sub (.cst "DEFER_QUEUE_SIZE" (4096)) (.lit 2))) (block [(.call none [] [] «rcu_defer_barrier_thread»), (.prim (some "_t2") .uload [.fieldAddr (.addrTls "defer_queue") "tail", .cst "CMM_RELAXED" (0)]), (.ifte (.bin .eq (.bin .sub (.var "head") (.var "_t2")) (.lit 0)) (.skip) (.prim none (.ext "abort") []))]) (.skip)), (.ifte (.bin .lor (.bin .lor (.bin .ne (.pload (.fieldAddr (.addrTls "defer_queue") "last_fct_in")) (.var "fct")) (.bin .band (.var "p") (.cst "DQ_FCT_BIT" (1)))) (.bin .eq (.var "p") (.cst "DQ_FCT_MARK" (18446744073709551614)))) (block [(.assign "_t3" (.var "fct")), (.pstore (.fieldAddr (.addrTls "defer_queue") "last_fct_in") (.var "_t3")), (.ifte (.bin .lor (.bin .band (.var "fct") (.cst "DQ_FCT_BIT" (1))) (.bin .eq (.var "fct") (.cst "DQ_FCT_MARK" (18446744073709551614)))) (block [(.assign "_t4" (.var "head")), (.assign "head" (.bin .add (.var "head") (.lit 1))), (.prim none .ustore [.index (.fieldAddr (.addrTls "defer_queue") "q") (.bin .band (.var "_t4") (.cst "DEFER_QUEUE_MASK" (4095))), .cst "DQ_FCT_MARK" (18446744073709551614), .cst "CMM_RELAXED" (0)]), (.assign "_t5" (.var "head")), (.assign "head" (.bin .add (.var "head") (.lit 1))), (.prim none .ustore [.index (.fieldAddr (.addrTls "defer_queue") "q") (.bin .band (.var "_t5") (.cst "DEFER_QUEUE_MASK" (4095))), .var "fct", .cst "CMM_RELAXED" (0)])]) (block [(.assign "fct" (.bin .bor (.var "fct") (.cst "DQ_FCT_BIT" (1)))), (.assign "_t6" (.var "head")), (.assign "head" (.bin .add (.var "head") (.lit 1))), (.prim none .ustore [.index (.fieldAddr (.addrTls "defer_queue") "q") (.bin .band (.var "_t6") (.cst "DEFER_QUEUE_MASK" (4095))), .var "fct", .cst "CMM_RELAXED" (0)])]))]) (.skip)), (.assign "_t7" (.var "head")), (.assign "head" (.bin .add (.var "head") (.lit 1))), (.prim none .ustore [.index (.fieldAddr (.addrTls "defer_queue") "q") (.bin .band (.var "_t7") (.cst "DEFER_QUEUE_MASK" (4095))), .var "p", .cst "CMM_RELAXED" (0)]), (.prim none .wmb []), (.prim none .ustore [.fieldAddr (.addrTls "defer_queue") "head", .var "head", .cst "CMM_RELAXED" (0)]), (.prim none .mb []), (.call none [] [] «wake_up_defer»)]
def «_defer_rcu.params» : List String := ["fct", "p"]

/-- `_cds_wfs_first` (include/urcu/static/wfstack.h) -/
def «_cds_wfs_first» : Stmt :=
  block [(.call (some "_t1") ["node"] [.var "head"] «___cds_wfs_end»), (.ifte (.var "_t1") (.ret (some (.null))) (.skip)), (.ret (some (.var "head")))]
def «_cds_wfs_first.params» : List String := ["head"]

/-- `___cds_wfs_next` (include/urcu/static/wfstack.h) -/
def «___cds_wfs_next» : Stmt :=
  block [(.call (some "_t1") ["node", "blocking"] [.var "node", .var "blocking"] «___cds_wfs_node_sync_next»), (.assign "next" (.var "_t1")), (.call (some "_t2") ["node"] [.var "next"] «___cds_wfs_end»), (.ifte (.var "_t2") (.ret (some (.null))) (.skip)), (.ret (some (.var "next")))]
def «___cds_wfs_next.params» : List String := ["node", "blocking"]

/-- `_cds_wfs_next_blocking` (include/urcu/static/wfstack.h) -/
def «_cds_wfs_next_blocking» : Stmt :=
  block [(.call (some "_t1") ["node", "blocking"] [.var "node", .lit 1] «___cds_wfs_next»), (.ret (some (.var "_t1")))]
def «_cds_wfs_next_blocking.params» : List String := ["node"]

/-- `urcu_wake_all_waiters` (src/urcu-wait.h) -/
def «urcu_wake_all_waiters» : Stmt :=
  block [(.call (some "_t3") ["head"] [.pload (.fieldAddr (.var "waiters") "head")] «_cds_wfs_first»), (.assign "_t1" (.var "_t3")), (.loop (block [(.assign "iter" (.var "_t1")), (.ifte (.var "iter") (.skip) (.brk)), (.call (some "_t4") ["node"] [.var "iter"] «_cds_wfs_next_blocking»), (.assign "_t1" (.var "_t4")), (.assign "iter_n" (.var "_t1")), (.assign "wait_node" (.var "iter")), (.prim (some "_t2") .uload [.fieldAddr (.var "wait_node") "state", .cst "CMM_RELAXED" (0)]), (.ifte (.bin .band (.var "_t2") (.cst "URCU_WAIT_RUNNING" (2))) (.cont) (.skip)), (.call none ["wait"] [.var "wait_node"] «urcu_adaptative_wake_up»)]))]
def «urcu_wake_all_waiters.params» : List String := ["waiters"]

/-- `set_thread_cpu_affinity` (src/urcu-call-rcu-impl.h) -/
def «set_thread_cpu_affinity» : Stmt :=
  block [(.ifte (.bin .lt (.pload (.fieldAddr (.var "crdp") "cpu_affinity")) (.lit 0)) (.ret (some (.lit 0))) (.skip)), (.assign "_t1" (.bin .add (.pload (.fieldAddr (.var "crdp") "gp_count")) (.lit 1))), (.pstore (.fieldAddr (.var "crdp") "gp_count") (.var "_t1")), (.ifte (.bin .band (.var "_t1") (.cst "SET_AFFINITY_CHECK_PERIOD_MASK" (255))) (.ret (some (.lit 0))) (.skip)), (.prim (some "_t2") (.ext "urcu_sched_getcpu") []), (.ifte (.bin .eq (.var "_t2") (.pload (.fieldAddr (.var "crdp") "cpu_affinity"))) (.ret (some (.lit 0))) (.skip)), (.prim none (.ext "CPU_ZERO") [.addrGlob "&mask"]), (.prim none (.ext "CPU_SET") [.pload (.fieldAddr (.var "crdp") "cpu_affinity"), .addrGlob "&mask"]), (.prim (some "_t3") (.ext "sched_setaffinity") [.lit 0, .cst "SIZEOF_cpu_set_t" (128), .addrGlob "&mask"]), (.assign "ret" (.var "_t3")), (.ifte (.var "ret") (block [(.prim (some "_t4") (.ext "errno") []), (.assign "_t5" (.un .lnot (.un .lnot (.bin .eq (.var "_t4") (.cst "EINVAL" (22))))))]) (.assign "_t5" (.lit 0))), (.ifte (.var "_t5") (block [(.assign "ret" (.lit 0)), (.assign "_t6" (.lit 0)), (.pstore (.addrGlob "errno") (.var "_t6"))]) (.skip)), (.ret (some (.var "ret")))]
def «set_thread_cpu_affinity.params» : List String := ["crdp"]

/-- `_cds_wfcq_init` (include/urcu/static/wfcqueue.h) -/
def «_cds_wfcq_init» : Stmt :=
  block [(.call none ["node"] [.var "head"] «_cds_wfcq_node_init»), (.assign "_t1" (.var "head")), (.pstore (.fieldAddr (.var "tail") "p") (.var "_t1")), (.prim (some "_t2") (.ext "pthread_mutex_init") [.fieldAddr (.var "head") "lock", .null]), (.assign "ret" (.var "_t2"))]
def «_cds_wfcq_init.params» : List String := ["head", "tail"]

/-- `___cds_wfcq_splice_blocking` (include/urcu/static/wfcqueue.h) -/
def «___cds_wfcq_splice_blocking» : Stmt :=
  block [(.call (some "_t1") ["u_dest_q_head", "dest_q_tail", "u_src_q_head", "src_q_tail", "blocking"] [.var "dest_q_head", .var "dest_q_tail", .var "src_q_head", .var "src_q_tail", .lit 1] «___cds_wfcq_splice»), (.ret (some (.var "_t1")))]
def «___cds_wfcq_splice_blocking.params» : List String := ["dest_q_head", "dest_q_tail", "src_q_head", "src_q_tail"]

/-- `___cds_wfcq_first` (include/urcu/static/wfcqueue.h) -/
def «___cds_wfcq_first» : Stmt :=
  block [(.assign "head" (.var "u_head")), (.call (some "_t1") ["u_head", "tail"] [.var "head", .var "tail"] «_cds_wfcq_empty»), (.ifte (.var "_t1") (.ret (some (.null))) (.skip)), (.call (some "_t2") ["node", "blocking"] [.var "head", .var "blocking"] «___cds_wfcq_node_sync_next»), (.assign "node" (.var "_t2")), (.ret (some (.var "node")))]
def «___cds_wfcq_first.params» : List String := ["u_head", "tail", "blocking"]

/-- `___cds_wfcq_first_blocking` (include/urcu/static/wfcqueue.h) -/
def «___cds_wfcq_first_blocking» : Stmt :=
  block [(.call (some "_t1") ["u_head", "tail", "blocking"] [.var "head", .var "tail", .lit 1] «___cds_wfcq_first»), (.ret (some (.var "_t1")))]
def «___cds_wfcq_first_blocking.params» : List String := ["head", "tail"]

/-- `___cds_wfcq_next` (include/urcu/static/wfcqueue.h) -/
def «___cds_wfcq_next» : Stmt :=
  block [(.prim (some "_t1") .uload [.fieldAddr (.var "node") "next", .cst "CMM_CONSUME" (1)]), (.assign "next" (.var "_t1")), (.ifte (.bin .eq (.var "next") (.null)) (block [(.prim (some "_t2") .uload [.fieldAddr (.var "tail") "p", .cst "CMM_RELAXED" (0)]), (.ifte (.bin .eq (.var "_t2") (.var "node")) (.ret (some (.null))) (.skip)), (.call (some "_t3") ["node", "blocking"] [.var "node", .var "blocking"] «___cds_wfcq_node_sync_next»), (.assign "next" (.var "_t3"))]) (.skip)), (.ret (some (.var "next")))]
def «___cds_wfcq_next.params» : List String := ["head", "tail", "node", "blocking"]

/-- `___cds_wfcq_next_blocking` (include/urcu/static/wfcqueue.h) -/
def «___cds_wfcq_next_blocking» : Stmt :=
  block [(.call (some "_t1") ["head", "tail", "node", "blocking"] [.var "head", .var "tail", .var "node", .lit 1] «___cds_wfcq_next»), (.ret (some (.var "_t1")))]
def «___cds_wfcq_next_blocking.params» : List String := ["head", "tail", "node"]

/-- `call_rcu_thread` (src/urcu-call-rcu-impl.h) -/
def «call_rcu_thread» : Stmt :=
  block [(.assign "crdp" (.var "arg")), (.prim (some "_t1") .uload [.fieldAddr (.var "crdp") "flags", .cst "CMM_RELAXED" (0)]), (.assign "rt" (.un .lnot (.un .lnot (.bin .band (.var "_t1") (.cst "URCU_CALL_RCU_RT" (1)))))), (.call (some "_t2") ["crdp"] [.var "crdp"] «set_thread_cpu_affinity»), (.ifte (.var "_t2") (block [(.prim (some "_t3") (.ext "errno") []), (.prim none (.ext "urcu_die") [.var "_t3"])]) (.skip)), (.prim none (.ext "rcu_register_thread") []), (.assign "_t4" (.var "crdp")), (.pstore (.addrTls "thread_call_rcu_data") (.var "_t4")), (.ifte (.un .lnot (.var "rt")) (block [(.prim none .udec [.fieldAddr (.var "crdp") "futex", .cst "CMM_RELAXED" (0)]), (.prim none .mb [])]) (.skip)), (.loop (block [(.call (some "_t5") ["crdp"] [.var "crdp"] «set_thread_cpu_affinity»), (.ifte (.var "_t5") (block [(.prim (some "_t6") (.ext "errno") []), (.prim none (.ext "urcu_die") [.var "_t6"])]) (.skip)), (.prim (some "_t7") .uload [.fieldAddr (.var "crdp") "flags", .cst "CMM_RELAXED" (0)]), (.ifte (.bin .band (.var "_t7") (.cst "URCU_CALL_RCU_PAUSE" (16))) (block [(.prim none (.ext "rcu_unregister_thread") []), (.prim none .barrier []), (.prim none .uor [.fieldAddr (.var "crdp") "flags", .cst "URCU_CALL_RCU_PAUSED" (32), .cst "CMM_RELAXED" (0)]), (.loop (block [(.prim (some "_t8") .uload [.fieldAddr (.var "crdp") "flags", .cst "CMM_RELAXED" (0)]), (.ifte (.bin .ne (.bin .band (.var "_t8") (.cst "URCU_CALL_RCU_PAUSE" (16))) (.lit 0)) (.prim none (.ext "poll") [.null, .lit 0, .lit 1]) (.brk))])), (.prim none .uand [.fieldAddr (.var "crdp") "flags", .cst "NOT_URCU_CALL_RCU_PAUSED" (18446744073709551583), .cst "CMM_SEQ_CST" (5)]), (.prim none .barrier []), (.prim none (.ext "rcu_register_thread") [])]) (.skip)), (.call none ["head", "tail"] [.addrGlob "&cbs_tmp_head", .addrGlob "&cbs_tmp_tail"] «_cds_wfcq_init»), (.call (some "_t9") ["dest_q_head", "dest_q_tail", "src_q_head", "src_q_tail"] [.addrGlob "&cbs_tmp_head", .addrGlob "&cbs_tmp_tail", .fieldAddr (.var "crdp") "cbs_head", .fieldAddr (.var "crdp") "cbs_tail"] «___cds_wfcq_splice_blocking»), (.assign "splice_ret" (.var "_t9")), (.ifte (.bin .ne (.var "splice_ret") (.cst "CDS_WFCQ_RET_SRC_EMPTY" (2))) (block [(.prim none (.ext "synchronize_rcu") []), (.assign "cbcount" (.lit 0)), (.call (some "_t12") ["head", "tail"] [.addrGlob "&cbs_tmp_head", .addrGlob "&cbs_tmp_tail"] «___cds_wfcq_first_blocking»), (.assign "_t10" (.var "_t12")), (.loop (block [(.assign "cbs" (.var "_t10")), (.ifte (.var "cbs") (.skip) (.brk)), (.call (some "_t13") ["head", "tail", "node"] [.addrGlob "&cbs_tmp_head", .addrGlob "&cbs_tmp_tail", .var "cbs"] «___cds_wfcq_next_blocking»), (.assign "_t10" (.var "_t13")), (.assign "cbs_tmp_n" (.var "_t10")), (.assign "rhp" (.parent (.var "cbs") "next")), (.prim none (.ext "(*func)") [.pload (.fieldAddr (.var "rhp") "func"), .var "rhp"]), (.assign "_t11" (.var "cbcount")), (.assign "cbcount" (.bin .add (.var "cbcount") (.lit 1)))])), (.prim none .usub [.fieldAddr (.var "crdp") "qlen", .var "cbcount", .cst "CMM_RELAXED" (0)])]) (.skip)), (.prim (some "_t14") .uload [.fieldAddr (.var "crdp") "flags", .cst "CMM_RELAXED" (0)]), (.ifte (.bin .band (.var "_t14") (.cst "URCU_CALL_RCU_STOP" (4))) (.brk) (.skip)), (.prim none (.ext "rcu_thread_offline") []), (.ifte (.un .lnot (.var "rt")) (block [(.call (some "_t15") ["u_head", "tail"] [.fieldAddr (.var "crdp") "cbs_head", .fieldAddr (.var "crdp") "cbs_tail"] «_cds_wfcq_empty»), (.ifte (.var "_t15") (block [(.call none ["crdp"] [.var "crdp"] «call_rcu_wait»), (.prim none (.ext "poll") [.null, .lit 0, .lit 10]), (.prim none .udec [.fieldAddr (.var "crdp") "futex", .cst "CMM_RELAXED" (0)]), (.prim none .mb [])]) (.prim none (.ext "poll") [.null, .lit 0, .lit 10]))]) (.prim none (.ext "poll") [.null, .lit 0, .lit 10])), (.prim none (.ext "rcu_thread_online") [])])), (.ifte (.un .lnot (.var "rt")) (block [(.prim none .mb []), (.prim none .ustore [.fieldAddr (.var "crdp") "futex", .lit 0, .cst "CMM_RELAXED" (0)])]) (.skip)), (.prim none .uor [.fieldAddr (.var "crdp") "flags", .cst "URCU_CALL_RCU_STOPPED" (8), .cst "CMM_RELAXED" (0)]), (.prim none (.ext "rcu_unregister_thread") []), (.ret (some (.null)))]
def «call_rcu_thread.params» : List String := ["arg"]

/-- `call_rcu` (src/urcu-call-rcu-impl.h) -/
def «call_rcu» : Stmt :=
  block [(.prim none (.ext "_rcu_read_lock") []), (.prim (some "_t1") (.ext "get_call_rcu_data") []), (.assign "crdp" (.var "_t1")), (.call none ["head", "func", "crdp"] [.var "head", .var "func", .var "crdp"] «_call_rcu»), (.prim none (.ext "_rcu_read_unlock") [])]
def «call_rcu.params» : List String := ["head", "func"]

/-- `call_rcu_lock` (src/urcu-call-rcu-impl.h) -/
def «call_rcu_lock» : Stmt :=
  block [(.prim (some "_t1") (.ext "pthread_mutex_lock") [.var "pmp"]), (.assign "ret" (.var "_t1")), (.ifte (.var "ret") (.prim none (.ext "urcu_die") [.var "ret"]) (.skip))]
def «call_rcu_lock.params» : List String := ["pmp"]

/-- `urcu_ref_set` (include/urcu/ref.h) -/
def «urcu_ref_set» : Stmt :=
  .prim none .ustore [.fieldAddr (.var "ref") "refcount", .var "val", .cst "CMM_RELAXED" (0)]
def «urcu_ref_set.params» : List String := ["ref", "val"]

/-- `call_rcu_unlock` (src/urcu-call-rcu-impl.h) -/
def «call_rcu_unlock» : Stmt :=
  block [(.prim (some "_t1") (.ext "pthread_mutex_unlock") [.var "pmp"]), (.assign "ret" (.var "_t1")), (.ifte (.var "ret") (.prim none (.ext "urcu_die") [.var "ret"]) (.skip))]
def «call_rcu_unlock.params» : List String := ["pmp"]

/-- `rcu_barrier` (src/urcu-call-rcu-impl.h) -/
def «rcu_barrier» : Stmt :=
  block [(.assign "_goto_online" (.lit 0)), (.assign "count" (.lit 0)), (.prim (some "_t1") (.ext "_rcu_read_ongoing") []), (.assign "was_online" (.var "_t1")), (.ifte (.var "was_online") (.prim none (.ext "rcu_thread_offline") []) (.skip)), (.prim (some "_t2") (.ext "_rcu_read_ongoing") []), (.ifte (.var "_t2") (block [(.assign "warned" (.lit 0)), (.ifte (.un .lnot (.var "warned")) (.prim none (.ext "fprintf") [.pload (.addrGlob "stderr"), .lit 0]) (.skip)), (.assign "warned" (.lit 1)), (.assign "_goto_online" (.lit 1))]) (.skip)), (.ifte (.var "_goto_online") (.skip) (block [(.prim (some "_t3") (.ext "calloc") [.lit 1, .cst "SIZEOF_struct_call_rcu_completion" (16)]), (.assign "completion" (.var "_t3")), (.ifte (.un .lnot (.var "completion")) (block [(.prim (some "_t4") (.ext "errno") []), (.prim none (.ext "urcu_die") [.var "_t4"])]) (.skip)), (.call none ["pmp"] [.addrGlob "call_rcu_mutex"] «call_rcu_lock»), (.prim (some "_t5") (.ext "cds_list_for_each_entry.first") [.addrGlob "call_rcu_data_list"]), (.loop (block [(.assign "crdp" (.var "_t5")), (.ifte (.var "crdp") (.skip) (.brk)), (.prim (some "_t5") (.ext "cds_list_for_each_entry.next") ([.addrGlob "call_rcu_data_list"] ++ [.var "crdp"])), (.assign "_t6" (.var "count")), (.assign "count" (.bin .add (.var "count") (.lit 1)))])), (.call none ["ref", "val"] [.fieldAddr (.var "completion") "ref", .bin .add (.var "count") (.lit 1)] «urcu_ref_set»), (.assign "_t7" (.var "count")), (.pstore (.fieldAddr (.var "completion") "barrier_count") (.var "_t7")), (.prim (some "_t8") (.ext "cds_list_for_each_entry.first") [.addrGlob "call_rcu_data_list"]), (.loop (block [(.assign "crdp" (.var "_t8")), (.ifte (.var "crdp") (.skip) (.brk)), (.prim (some "_t8") (.ext "cds_list_for_each_entry.next") ([.addrGlob "call_rcu_data_list"] ++ [.var "crdp"])), (.prim (some "_t9") (.ext "calloc") [.lit 1, .cst "SIZEOF_struct_call_rcu_completion_work" (24)]), (.assign "work" (.var "_t9")), (.ifte (.un .lnot (.var "work")) (block [(.prim (some "_t10") (.ext "errno") []), (.prim none (.ext "urcu_die") [.var "_t10"])]) (.skip)), (.assign "_t11" (.var "completion")), (.pstore (.fieldAddr (.var "work") "completion") (.var "_t11")), (.call none ["head", "func", "crdp"] [.fieldAddr (.var "work") "head", .addrGlob "_rcu_barrier_complete", .var "crdp"] «_call_rcu»)])), (.call none ["pmp"] [.addrGlob "call_rcu_mutex"] «call_rcu_unlock»), (.loop (block [(.prim none .udec [.fieldAddr (.var "completion") "futex", .cst "CMM_RELAXED" (0)]), (.prim none .mb []), (.prim (some "_t12") .uload [.fieldAddr (.var "completion") "barrier_count", .cst "CMM_RELAXED" (0)]), (.ifte (.un .lnot (.var "_t12")) (.brk) (.skip)), (.call none ["completion"] [.var "completion"] «call_rcu_completion_wait»)])), (.call none ["ref", "release"] [.fieldAddr (.var "completion") "ref", .addrGlob "free_completion"] «urcu_ref_put»)])), (.assign "_goto_online" (.lit 0)), (.ifte (.var "was_online") (.prim none (.ext "rcu_thread_online") []) (.skip))]
def «rcu_barrier.params» : List String := []

/-- `_rcu_barrier_complete` (src/urcu-call-rcu-impl.h) -/
def «_rcu_barrier_complete» : Stmt :=
  block [(.assign "work" (.parent (.var "head") "head")), (.assign "completion" (.pload (.fieldAddr (.var "work") "completion"))), (.prim (some "_t1") .usubret [.fieldAddr (.var "completion") "barrier_count", .lit 1, .cst "CMM_SEQ_CST_FENCE" (6)]), (.ifte (.un .lnot (.var "_t1")) (.call none ["completion"] [.var "completion"] «call_rcu_completion_wake_up») (.skip)), (.call none ["ref", "release"] [.fieldAddr (.var "completion") "ref", .addrGlob "free_completion"] «urcu_ref_put»), (.prim none (.ext "free") [.var "work"])]
def «_rcu_barrier_complete.params» : List String := ["head"]

/-- `free_completion` (src/urcu-call-rcu-impl.h) -/
def «free_completion» : Stmt :=
  block [(.assign "completion" (.parent (.var "ref") "ref")), (.prim none (.ext "free") [.var "completion"])]
def «free_completion.params» : List String := ["ref"]

/-- `call_rcu_before_fork` (src/urcu-call-rcu-impl.h) -/
def «call_rcu_before_fork» : Stmt :=
  block [(.prim (some "_t1") (.ext "_rcu_read_ongoing") []), (.assign "was_online" (.var "_t1")), (.ifte (.var "was_online") (.prim none (.ext "rcu_thread_offline") []) (.skip)), (.call none ["pmp"] [.addrGlob "call_rcu_mutex"] «call_rcu_lock»), (.assign "atfork" (.pload (.addrGlob "registered_rculfhash_atfork"))), (.ifte (.var "atfork") (.prim none (.ext "(*before_fork)") [.pload (.fieldAddr (.var "atfork") "before_fork"), .pload (.fieldAddr (.var "atfork") "priv")]) (.skip)), (.prim (some "_t2") (.ext "cds_list_for_each_entry.first") [.addrGlob "call_rcu_data_list"]), (.loop (block [(.assign "crdp" (.var "_t2")), (.ifte (.var "crdp") (.skip) (.brk)), (.prim (some "_t2") (.ext "cds_list_for_each_entry.next") ([.addrGlob "call_rcu_data_list"] ++ [.var "crdp"])), (.prim none .uor [.fieldAddr (.var "crdp") "flags", .cst "URCU_CALL_RCU_PAUSE" (16), .cst "CMM_RELAXED" (0)]), (.prim none .barrier []), (.call none ["crdp"] [.var "crdp"] «wake_call_rcu_thread»)])), (.prim (some "_t3") (.ext "cds_list_for_each_entry.first") [.addrGlob "call_rcu_data_list"]), (.loop (block [(.assign "crdp" (.var "_t3")), (.ifte (.var "crdp") (.skip) (.brk)), (.prim (some "_t3") (.ext "cds_list_for_each_entry.next") ([.addrGlob "call_rcu_data_list"] ++ [.var "crdp"])), (.loop (block [(.prim (some "_t4") .uload [.fieldAddr (.var "crdp") "flags", .cst "CMM_RELAXED" (0)]), (.ifte (.bin .eq (.bin .band (.var "_t4") (.cst "URCU_CALL_RCU_PAUSED" (32))) (.lit 0)) (.prim none (.ext "poll") [.null, .lit 0, .lit 1]) (.brk))]))])), (.ifte (.var "was_online") (.prim none (.ext "rcu_thread_online") []) (.skip))]
def «call_rcu_before_fork.params» : List String := []

/-- `call_rcu_after_fork_parent` (src/urcu-call-rcu-impl.h) -/
def «call_rcu_after_fork_parent» : Stmt :=
  block [(.prim (some "_t1") (.ext "cds_list_for_each_entry.first") [.addrGlob "call_rcu_data_list"]), (.loop (block [(.assign "crdp" (.var "_t1")), (.ifte (.var "crdp") (.skip) (.brk)), (.prim (some "_t1") (.ext "cds_list_for_each_entry.next") ([.addrGlob "call_rcu_data_list"] ++ [.var "crdp"])), (.prim none .uand [.fieldAddr (.var "crdp") "flags", .cst "NOT_URCU_CALL_RCU_PAUSE" (18446744073709551599), .cst "CMM_SEQ_CST" (5)])])), (.prim (some "_t2") (.ext "cds_list_for_each_entry.first") [.addrGlob "call_rcu_data_list"]), (.loop (block [(.assign "crdp" (.var "_t2")), (.ifte (.var "crdp") (.skip) (.brk)), (.prim (some "_t2") (.ext "cds_list_for_each_entry.next") ([.addrGlob "call_rcu_data_list"] ++ [.var "crdp"])), (.loop (block [(.prim (some "_t3") .uload [.fieldAddr (.var "crdp") "flags", .cst "CMM_RELAXED" (0)]), (.ifte (.bin .ne (.bin .band (.var "_t3") (.cst "URCU_CALL_RCU_PAUSED" (32))) (.lit 0)) (.prim none (.ext "poll") [.null, .lit 0, .lit 1]) (.brk))]))])), (.assign "atfork" (.pload (.addrGlob "registered_rculfhash_atfork"))), (.ifte (.var "atfork") (.prim none (.ext "(*after_fork_parent)") [.pload (.fieldAddr (.var "atfork") "after_fork_parent"), .pload (.fieldAddr (.var "atfork") "priv")]) (.skip)), (.call none ["pmp"] [.addrGlob "call_rcu_mutex"] «call_rcu_unlock»)]
def «call_rcu_after_fork_parent.params» : List String := []

/-- `call_rcu_data_init` (src/urcu-call-rcu-impl.h) -/
def «call_rcu_data_init» : Stmt :=
  block [(.prim (some "_t1") (.ext "malloc") [.cst "SIZEOF_struct_call_rcu_data" (128)]), (.assign "crdp" (.var "_t1")), (.ifte (.bin .eq (.var "crdp") (.null)) (block [(.prim (some "_t2") (.ext "errno") []), (.prim none (.ext "urcu_die") [.var "_t2"])]) (.skip)), (.prim none (.ext "memset") [.var "crdp", .lit 0, .cst "SIZEOF_struct_call_rcu_data" (128)]), (.call none ["head", "tail"] [.fieldAddr (.var "crdp") "cbs_head", .fieldAddr (.var "crdp") "cbs_tail"] «_cds_wfcq_init»), (.assign "_t3" (.lit 0)), (.pstore (.fieldAddr (.var "crdp") "qlen") (.var "_t3")), (.assign "_t4" (.lit 0)), (.pstore (.fieldAddr (.var "crdp") "futex") (.var "_t4")), (.assign "_t5" (.var "flags")), (.pstore (.fieldAddr (.var "crdp") "flags") (.var "_t5")), (.prim none (.ext "cds_list_add") [.fieldAddr (.var "crdp") "list", .addrGlob "call_rcu_data_list"]), (.assign "_t6" (.var "cpu_affinity")), (.pstore (.fieldAddr (.var "crdp") "cpu_affinity") (.var "_t6")), (.assign "_t7" (.lit 0)), (.pstore (.fieldAddr (.var "crdp") "gp_count") (.var "_t7")), (.prim none (.ext "rcu_set_pointer") [.var "crdpp", .var "crdp"]), (.prim (some "_t8") (.ext "sigfillset") [.addrGlob "&newmask"]), (.assign "ret" (.var "_t8")), (.prim (some "_t9") (.ext "pthread_sigmask") [.cst "SIG_BLOCK" (0), .addrGlob "&newmask", .addrGlob "&oldmask"]), (.assign "ret" (.var "_t9")), (.prim (some "_t10") (.ext "pthread_create") [.fieldAddr (.var "crdp") "tid", .null, .addrGlob "call_rcu_thread", .var "crdp"]), (.assign "ret" (.var "_t10")), (.ifte (.var "ret") (.prim none (.ext "urcu_die") [.var "ret"]) (.skip)), (.prim (some "_t11") (.ext "pthread_sigmask") [.cst "SIG_SETMASK" (2), .addrGlob "&oldmask", .null]), (.assign "ret" (.var "_t11"))]
def «call_rcu_data_init.params» : List String := ["crdpp", "flags", "cpu_affinity"]

/-- `get_default_call_rcu_data` (src/urcu-call-rcu-impl.h) -/
def «get_default_call_rcu_data» : Stmt :=
  block [(.prim (some "_t1") .uload [.addrGlob "default_call_rcu_data", .cst "CMM_CONSUME" (1)]), (.assign "crdp" (.var "_t1")), (.ifte (.bin .ne (.var "crdp") (.null)) (.ret (some (.var "crdp"))) (.skip)), (.call none ["pmp"] [.addrGlob "call_rcu_mutex"] «call_rcu_lock»), (.ifte (.bin .eq (.pload (.addrGlob "default_call_rcu_data")) (.null)) (.call none ["crdpp", "flags", "cpu_affinity"] [.addrGlob "default_call_rcu_data", .lit 0, .lit (-1)] «call_rcu_data_init») (.skip)), (.assign "crdp" (.pload (.addrGlob "default_call_rcu_data"))), (.call none ["pmp"] [.addrGlob "call_rcu_mutex"] «call_rcu_unlock»), (.ret (some (.var "crdp")))]
def «get_default_call_rcu_data.params» : List String := []

/-- `cpus_array_len_reset` (src/urcu-call-rcu-impl.h) -/
def «cpus_array_len_reset» : Stmt :=
  block [(.assign "_t1" (.lit 0)), (.pstore (.addrGlob "cpus_array_len") (.var "_t1"))]
def «cpus_array_len_reset.params» : List String := []

/-- `get_call_rcu_thread` (src/urcu-call-rcu-impl.h) -/
def «get_call_rcu_thread» : Stmt :=
  .ret (some (.pload (.fieldAddr (.var "crdp") "tid")))
def «get_call_rcu_thread.params» : List String := ["crdp"]

/-- `_call_rcu_data_free` (src/urcu-call-rcu-impl.h) -/
def «_call_rcu_data_free» : Stmt :=
  block [(.ifte (.bin .lor (.bin .eq (.var "crdp") (.null)) (.bin .eq (.var "crdp") (.pload (.addrGlob "default_call_rcu_data")))) (.ret none) (.skip)), (.prim (some "_t1") .uload [.fieldAddr (.var "crdp") "flags", .cst "CMM_RELAXED" (0)]), (.ifte (.bin .eq (.bin .band (.var "_t1") (.cst "URCU_CALL_RCU_STOPPED" (8))) (.lit 0)) (block [(.prim none .uor [.fieldAddr (.var "crdp") "flags", .cst "URCU_CALL_RCU_STOP" (4), .cst "CMM_RELAXED" (0)]), (.call none ["crdp"] [.var "crdp"] «wake_call_rcu_thread»), (.loop (block [(.prim (some "_t2") .uload [.fieldAddr (.var "crdp") "flags", .cst "CMM_RELAXED" (0)]), (.ifte (.bin .eq (.bin .band (.var "_t2") (.cst "URCU_CALL_RCU_STOPPED" (8))) (.lit 0)) (.prim none (.ext "poll") [.null, .lit 0, .lit 1]) (.brk))]))]) (.skip)), (.call none ["pmp"] [.addrGlob "call_rcu_mutex"] «call_rcu_lock»), (.call (some "_t3") ["u_head", "tail"] [.fieldAddr (.var "crdp") "cbs_head", .fieldAddr (.var "crdp") "cbs_tail"] «_cds_wfcq_empty»), (.ifte (.un .lnot (.var "_t3")) (block [(.call none ["pmp"] [.addrGlob "call_rcu_mutex"] «call_rcu_unlock»), (.call none [] [] «get_default_call_rcu_data»), (.call none ["pmp"] [.addrGlob "call_rcu_mutex"] «call_rcu_lock»), (.call none ["dest_q_head", "dest_q_tail", "src_q_head", "src_q_tail"] [.fieldAddr (.pload (.addrGlob "default_call_rcu_data")) "cbs_head", .fieldAddr (.pload (.addrGlob "default_call_rcu_data")) "cbs_tail", .fieldAddr (.var "crdp") "cbs_head", .fieldAddr (.var "crdp") "cbs_tail"] «___cds_wfcq_splice_blocking»), (.prim (some "_t4") .uload [.fieldAddr (.var "crdp") "qlen", .cst "CMM_RELAXED" (0)]), (.prim none .uadd [.fieldAddr (.pload (.addrGlob "default_call_rcu_data")) "qlen", .var "_t4", .cst "CMM_RELAXED" (0)]), (.call none ["crdp"] [.pload (.addrGlob "default_call_rcu_data")] «wake_call_rcu_thread»)]) (.skip)), (.prim none (.ext "cds_list_del") [.fieldAddr (.var "crdp") "list"]), (.call none ["pmp"] [.addrGlob "call_rcu_mutex"] «call_rcu_unlock»), (.ifte (.bin .band (.var "flags") (.cst "CRDF_FLAG_JOIN_THREAD" (1))) (block [(.call (some "_t5") ["crdp"] [.var "crdp"] «get_call_rcu_thread»), (.prim (some "_t6") (.ext "pthread_join") [.var "_t5", .null]), (.assign "ret" (.var "_t6")), (.ifte (.var "ret") (.prim none (.ext "urcu_die") [.var "ret"]) (.skip))]) (.skip)), (.prim none (.ext "free") [.var "crdp"])]
def «_call_rcu_data_free.params» : List String := ["crdp", "flags"]

/-- `call_rcu_after_fork_child` (src/urcu-call-rcu-impl.h) -/
def «call_rcu_after_fork_child» : Stmt :=
  block [(.call none ["pmp"] [.addrGlob "call_rcu_mutex"] «call_rcu_unlock»), (.assign "atfork" (.pload (.addrGlob "registered_rculfhash_atfork"))), (.ifte (.var "atfork") (.prim none (.ext "(*after_fork_child)") [.pload (.fieldAddr (.var "atfork") "after_fork_child"), .pload (.fieldAddr (.var "atfork") "priv")]) (.skip)), (.prim (some "_t1") (.ext "cds_list_empty") [.addrGlob "call_rcu_data_list"]), (.ifte (.var "_t1") (.ret none) (.skip)), (.assign "_t2" (.null)), (.pstore (.addrGlob "default_call_rcu_data") (.var "_t2")), (.call none [] [] «get_default_call_rcu_data»), (.call none [] [] «cpus_array_len_reset»), (.prim none (.ext "free") [.pload (.addrGlob "per_cpu_call_rcu_data")]), (.prim none (.ext "rcu_set_pointer") [.addrGlob "per_cpu_call_rcu_data", .null]), (.assign "_t3" (.null)), (.pstore (.addrTls "thread_call_rcu_data") (.var "_t3")), (.prim (some "_t4") (.ext "cds_list_for_each_entry_safe.first") [.addrGlob "call_rcu_data_list"]), (.loop (block [(.assign "crdp" (.var "_t4")), (.ifte (.var "crdp") (.skip) (.brk)), (.prim (some "_t4") (.ext "cds_list_for_each_entry_safe.next") ([.addrGlob "call_rcu_data_list"] ++ [.var "crdp"])), (.assign "next" (.var "_t4")), (.ifte (.bin .eq (.var "crdp") (.pload (.addrGlob "default_call_rcu_data"))) (.cont) (.skip)), (.prim none .ustore [.fieldAddr (.var "crdp") "flags", .cst "URCU_CALL_RCU_STOPPED" (8), .cst "CMM_RELAXED" (0)]), (.call none ["crdp", "flags"] [.var "crdp", .lit 0] «_call_rcu_data_free»)]))]
def «call_rcu_after_fork_child.params» : List String := []

/-- `call_rcu_data_free` (src/urcu-call-rcu-impl.h) -/
def «call_rcu_data_free» : Stmt :=
  .call none ["crdp", "flags"] [.var "crdp", .cst "CRDF_FLAG_JOIN_THREAD" (1)] «_call_rcu_data_free»
def «call_rcu_data_free.params» : List String := ["crdp"]

/-- `urcu_workqueue_create_worker` (src/workqueue.c) -/
def «urcu_workqueue_create_worker» : Stmt :=
  block [(.assign "_t1" (.bin .band (.pload (.fieldAddr (.var "workqueue") "flags")) (.cst "NOT_URCU_WORKQUEUE_PAUSED" (18446744073709551607)))), (.pstore (.fieldAddr (.var "workqueue") "flags") (.var "_t1")), (.assign "_t2" (.bin .band (.pload (.fieldAddr (.var "workqueue") "flags")) (.cst "NOT_URCU_WORKQUEUE_PAUSE" (18446744073709551611)))), (.pstore (.fieldAddr (.var "workqueue") "flags") (.var "_t2")), (.assign "_t3" (.lit 0)), (.pstore (.fieldAddr (.var "workqueue") "tid") (.var "_t3")), (.prim (some "_t4") (.ext "sigfillset") [.addrGlob "&newmask"]), (.assign "ret" (.var "_t4")), (.prim (some "_t5") (.ext "pthread_sigmask") [.cst "SIG_BLOCK" (0), .addrGlob "&newmask", .addrGlob "&oldmask"]), (.assign "ret" (.var "_t5")), (.prim (some "_t6") (.ext "pthread_create") [.fieldAddr (.var "workqueue") "tid", .null, .addrGlob "workqueue_thread", .var "workqueue"]), (.assign "ret" (.var "_t6")), (.ifte (.var "ret") (.prim none (.ext "urcu_die") [.var "ret"]) (.skip)), (.prim (some "_t7") (.ext "pthread_sigmask") [.cst "SIG_SETMASK" (2), .addrGlob "&oldmask", .null]), (.assign "ret" (.var "_t7"))]
def «urcu_workqueue_create_worker.params» : List String := ["workqueue"]

/-- `urcu_workqueue_destroy_worker` (src/workqueue.c) -/
def «urcu_workqueue_destroy_worker» : Stmt :=
  block [(.prim none .uor [.fieldAddr (.var "workqueue") "flags", .cst "URCU_WORKQUEUE_STOP" (2), .cst "CMM_RELAXED" (0)]), (.call none ["workqueue"] [.var "workqueue"] «wake_worker_thread»), (.prim (some "_t1") (.ext "pthread_join") [.pload (.fieldAddr (.var "workqueue") "tid"), .addrGlob "&retval"]), (.assign "ret" (.var "_t1")), (.ifte (.var "ret") (.prim none (.ext "urcu_die") [.var "ret"]) (.skip)), (.ifte (.bin .ne (.pload (.addrGlob "&retval")) (.null)) (.prim none (.ext "urcu_die") [.cst "EINVAL" (22)]) (.skip)), (.assign "_t2" (.bin .band (.pload (.fieldAddr (.var "workqueue") "flags")) (.cst "NOT_URCU_WORKQUEUE_STOP" (18446744073709551613)))), (.pstore (.fieldAddr (.var "workqueue") "flags") (.var "_t2")), (.assign "_t3" (.lit 0)), (.pstore (.fieldAddr (.var "workqueue") "tid") (.var "_t3")), (.ret (some (.lit 0)))]
def «urcu_workqueue_destroy_worker.params» : List String := ["workqueue"]

/-- `urcu_workqueue_destroy` (src/workqueue.c) -/
def «urcu_workqueue_destroy» : Stmt :=
  block [(.ifte (.bin .eq (.var "workqueue") (.null)) (.ret none) (.skip)), (.call (some "_t1") ["workqueue"] [.var "workqueue"] «urcu_workqueue_destroy_worker»), (.ifte (.var "_t1") (block [(.prim (some "_t2") (.ext "errno") []), (.prim none (.ext "urcu_die") [.var "_t2"])]) (.skip)), (.call (some "_t3") ["u_head", "tail"] [.fieldAddr (.var "workqueue") "cbs_head", .fieldAddr (.var "workqueue") "cbs_tail"] «_cds_wfcq_empty»), (.ifte (.var "_t3") (.skip) (.prim none (.ext "abort") [])), (.prim none (.ext "free") [.var "workqueue"])]
def «urcu_workqueue_destroy.params» : List String := ["workqueue"]

/-- `workqueue_thread` (src/workqueue.c) -/
def «workqueue_thread» : Stmt :=
  block [(.assign "workqueue" (.var "arg")), (.prim (some "_t1") .uload [.fieldAddr (.var "workqueue") "flags", .cst "CMM_RELAXED" (0)]), (.assign "rt" (.un .lnot (.un .lnot (.bin .band (.var "_t1") (.cst "URCU_WORKQUEUE_RT" (1)))))), (.call (some "_t2") ["crdp"] [.var "workqueue"] «set_thread_cpu_affinity»), (.ifte (.var "_t2") (block [(.prim (some "_t3") (.ext "errno") []), (.prim none (.ext "urcu_die") [.var "_t3"])]) (.skip)), (.ifte (.pload (.fieldAddr (.var "workqueue") "initialize_worker_fct")) (.prim none (.ext "(*initialize_worker_fct)") [.pload (.fieldAddr (.var "workqueue") "initialize_worker_fct"), .var "workqueue", .pload (.fieldAddr (.var "workqueue") "priv")]) (.skip)), (.ifte (.un .lnot (.var "rt")) (block [(.prim none .udec [.fieldAddr (.var "workqueue") "futex", .cst "CMM_RELAXED" (0)]), (.prim none .mb [])]) (.skip)), (.loop (block [(.call (some "_t4") ["crdp"] [.var "workqueue"] «set_thread_cpu_affinity»), (.ifte (.var "_t4") (block [(.prim (some "_t5") (.ext "errno") []), (.prim none (.ext "urcu_die") [.var "_t5"])]) (.skip)), (.prim (some "_t6") .uload [.fieldAddr (.var "workqueue") "flags", .cst "CMM_RELAXED" (0)]), (.ifte (.bin .band (.var "_t6") (.cst "URCU_WORKQUEUE_PAUSE" (4))) (block [(.ifte (.pload (.fieldAddr (.var "workqueue") "worker_before_pause_fct")) (.prim none (.ext "(*worker_before_pause_fct)") [.pload (.fieldAddr (.var "workqueue") "worker_before_pause_fct"), .var "workqueue", .pload (.fieldAddr (.var "workqueue") "priv")]) (.skip)), (.prim none .barrier []), (.prim none .uor [.fieldAddr (.var "workqueue") "flags", .cst "URCU_WORKQUEUE_PAUSED" (8), .cst "CMM_RELAXED" (0)]), (.loop (block [(.prim (some "_t7") .uload [.fieldAddr (.var "workqueue") "flags", .cst "CMM_RELAXED" (0)]), (.ifte (.bin .ne (.bin .band (.var "_t7") (.cst "URCU_WORKQUEUE_PAUSE" (4))) (.lit 0)) (.prim none (.ext "poll") [.null, .lit 0, .lit 1]) (.brk))])), (.prim none .uand [.fieldAddr (.var "workqueue") "flags", .cst "NOT_URCU_WORKQUEUE_PAUSED" (18446744073709551607), .cst "CMM_SEQ_CST" (5)]), (.prim none .barrier []), (.ifte (.pload (.fieldAddr (.var "workqueue") "worker_after_resume_fct")) (.prim none (.ext "(*worker_after_resume_fct)") [.pload (.fieldAddr (.var "workqueue") "worker_after_resume_fct"), .var "workqueue", .pload (.fieldAddr (.var "workqueue") "priv")]) (.skip))]) (.skip)), (.call none ["head", "tail"] [.addrGlob "&cbs_tmp_head", .addrGlob "&cbs_tmp_tail"] «_cds_wfcq_init»), (.call (some "_t8") ["dest_q_head", "dest_q_tail", "src_q_head", "src_q_tail"] [.addrGlob "&cbs_tmp_head", .addrGlob "&cbs_tmp_tail", .fieldAddr (.var "workqueue") "cbs_head", .fieldAddr (.var "workqueue") "cbs_tail"] «___cds_wfcq_splice_blocking»), (.assign "splice_ret" (.var "_t8")), (.ifte (.bin .ne (.var "splice_ret") (.cst "CDS_WFCQ_RET_SRC_EMPTY" (2))) (block [(.ifte (.pload (.fieldAddr (.var "workqueue") "grace_period_fct")) (.prim none (.ext "(*grace_period_fct)") [.pload (.fieldAddr (.var "workqueue") "grace_period_fct"), .var "workqueue", .pload (.fieldAddr (.var "workqueue") "priv")]) (.skip)), (.assign "cbcount" (.lit 0)), (.call (some "_t11") ["head", "tail"] [.addrGlob "&cbs_tmp_head", .addrGlob "&cbs_tmp_tail"] «___cds_wfcq_first_blocking»), (.assign "_t9" (.var "_t11")), (.loop (block [(.assign "cbs" (.var "_t9")), (.ifte (.var "cbs") (.skip) (.brk)), (.call (some "_t12") ["head", "tail", "node"] [.addrGlob "&cbs_tmp_head", .addrGlob "&cbs_tmp_tail", .var "cbs"] «___cds_wfcq_next_blocking»), (.assign "_t9" (.var "_t12")), (.assign "cbs_tmp_n" (.var "_t9")), (.assign "uwp" (.parent (.var "cbs") "next")), (.prim none (.ext "(*func)") [.pload (.fieldAddr (.var "uwp") "func"), .var "uwp"]), (.assign "_t10" (.var "cbcount")), (.assign "cbcount" (.bin .add (.var "cbcount") (.lit 1)))])), (.prim none .usub [.fieldAddr (.var "workqueue") "qlen", .var "cbcount", .cst "CMM_RELAXED" (0)])]) (.skip)), (.prim (some "_t13") .uload [.fieldAddr (.var "workqueue") "flags", .cst "CMM_RELAXED" (0)]), (.ifte (.bin .band (.var "_t13") (.cst "URCU_WORKQUEUE_STOP" (2))) (.brk) (.skip)), (.ifte (.pload (.fieldAddr (.var "workqueue") "worker_before_wait_fct")) (.prim none (.ext "(*worker_before_wait_fct)") [.pload (.fieldAddr (.var "workqueue") "worker_before_wait_fct"), .var "workqueue", .pload (.fieldAddr (.var "workqueue") "priv")]) (.skip)), (.ifte (.un .lnot (.var "rt")) (block [(.call (some "_t14") ["u_head", "tail"] [.fieldAddr (.var "workqueue") "cbs_head", .fieldAddr (.var "workqueue") "cbs_tail"] «_cds_wfcq_empty»), (.ifte (.var "_t14") (block [(.call none ["futex"] [.fieldAddr (.var "workqueue") "futex"] «futex_wait»), (.prim none .udec [.fieldAddr (.var "workqueue") "futex", .cst "CMM_RELAXED" (0)]), (.prim none .mb [])]) (.skip))]) (block [(.call (some "_t15") ["u_head", "tail"] [.fieldAddr (.var "workqueue") "cbs_head", .fieldAddr (.var "workqueue") "cbs_tail"] «_cds_wfcq_empty»), (.ifte (.var "_t15") (.prim none (.ext "poll") [.null, .lit 0, .lit 10]) (.skip))])), (.ifte (.pload (.fieldAddr (.var "workqueue") "worker_after_wake_up_fct")) (.prim none (.ext "(*worker_after_wake_up_fct)") [.pload (.fieldAddr (.var "workqueue") "worker_after_wake_up_fct"), .var "workqueue", .pload (.fieldAddr (.var "workqueue") "priv")]) (.skip))])), (.ifte (.un .lnot (.var "rt")) (block [(.prim none .mb []), (.prim none .ustore [.fieldAddr (.var "workqueue") "futex", .lit 0, .cst "CMM_RELAXED" (0)])]) (.skip)), (.ifte (.pload (.fieldAddr (.var "workqueue") "finalize_worker_fct")) (.prim none (.ext "(*finalize_worker_fct)") [.pload (.fieldAddr (.var "workqueue") "finalize_worker_fct"), .var "workqueue", .pload (.fieldAddr (.var "workqueue") "priv")]) (.skip)), (.ret (some (.null)))]
def «workqueue_thread.params» : List String := ["arg"]

/-- `urcu_workqueue_queue_work` (src/workqueue.c) -/
def «urcu_workqueue_queue_work» : Stmt :=
  block [(.call none ["node"] [.fieldAddr (.var "work") "next"] «_cds_wfcq_node_init»), (.assign "_t1" (.var "func")), (.pstore (.fieldAddr (.var "work") "func") (.var "_t1")), (.call none ["head", "tail", "new_tail"] [.fieldAddr (.var "workqueue") "cbs_head", .fieldAddr (.var "workqueue") "cbs_tail", .fieldAddr (.var "work") "next"] «_cds_wfcq_enqueue»), (.prim none .uinc [.fieldAddr (.var "workqueue") "qlen", .cst "CMM_RELAXED" (0)]), (.call none ["workqueue"] [.var "workqueue"] «wake_worker_thread»)]
def «urcu_workqueue_queue_work.params» : List String := ["workqueue", "work", "func"]

/-- `urcu_workqueue_create_completion` (src/workqueue.c) -/
def «urcu_workqueue_create_completion» : Stmt :=
  block [(.prim (some "_t1") (.ext "calloc") [.lit 1, .cst "SIZEOF_struct_urcu_workqueue_completion" (16)]), (.assign "completion" (.var "_t1")), (.ifte (.un .lnot (.var "completion")) (block [(.prim (some "_t2") (.ext "errno") []), (.prim none (.ext "urcu_die") [.var "_t2"])]) (.skip)), (.call none ["ref", "val"] [.fieldAddr (.var "completion") "ref", .lit 1] «urcu_ref_set»), (.assign "_t3" (.lit 0)), (.pstore (.fieldAddr (.var "completion") "barrier_count") (.var "_t3")), (.ret (some (.var "completion")))]
def «urcu_workqueue_create_completion.params» : List String := []

/-- `urcu_ref_get` (include/urcu/ref.h) -/
def «urcu_ref_get» : Stmt :=
  block [(.call (some "_t1") ["ref"] [.var "ref"] «urcu_ref_get_safe»), (.ifte (.un .lnot (.var "_t1")) (.prim none (.ext "abort") []) (.skip))]
def «urcu_ref_get.params» : List String := ["ref"]

/-- `urcu_workqueue_queue_completion` (src/workqueue.c) -/
def «urcu_workqueue_queue_completion» : Stmt :=
  block [(.prim (some "_t1") (.ext "calloc") [.lit 1, .cst "SIZEOF_struct_urcu_workqueue_completion_work" (24)]), (.assign "work" (.var "_t1")), (.ifte (.un .lnot (.var "work")) (block [(.prim (some "_t2") (.ext "errno") []), (.prim none (.ext "urcu_die") [.var "_t2"])]) (.skip)), (.assign "_t3" (.var "completion")), (.pstore (.fieldAddr (.var "work") "completion") (.var "_t3")), (.call none ["ref"] [.fieldAddr (.var "completion") "ref"] «urcu_ref_get»), (.prim none .uinc [.fieldAddr (.var "completion") "barrier_count", .cst "CMM_RELAXED" (0)]), (.call none ["workqueue", "work", "func"] [.var "workqueue", .fieldAddr (.var "work") "work", .addrGlob "_urcu_workqueue_wait_complete"] «urcu_workqueue_queue_work»)]
def «urcu_workqueue_queue_completion.params» : List String := ["workqueue", "completion"]

/-- `urcu_workqueue_wait_completion` (src/workqueue.c) -/
def «urcu_workqueue_wait_completion» : Stmt :=
  .loop (block [(.prim none .udec [.fieldAddr (.var "completion") "futex", .cst "CMM_RELAXED" (0)]), (.prim none .mb []), (.prim (some "_t1") .uload [.fieldAddr (.var "completion") "barrier_count", .cst "CMM_RELAXED" (0)]), (.ifte (.un .lnot (.var "_t1")) (.brk) (.skip)), (.call none ["futex"] [.fieldAddr (.var "completion") "futex"] «futex_wait»)])
def «urcu_workqueue_wait_completion.params» : List String := ["completion"]

/-- `urcu_workqueue_destroy_completion` (src/workqueue.c) -/
def «urcu_workqueue_destroy_completion» : Stmt :=
  .call none ["ref", "release"] [.fieldAddr (.var "completion") "ref", .addrGlob "free_completion"] «urcu_ref_put»
def «urcu_workqueue_destroy_completion.params» : List String := ["completion"]

/-- `urcu_workqueue_flush_queued_work` (src/workqueue.c) -/
def «urcu_workqueue_flush_queued_work» : Stmt :=
  block [(.call (some "_t1") [] [] «urcu_workqueue_create_completion»), (.assign "completion" (.var "_t1")), (.ifte (.un .lnot (.var "completion")) (.prim none (.ext "urcu_die") [.cst "ENOMEM" (12)]) (.skip)), (.call none ["workqueue", "completion"] [.var "workqueue", .var "completion"] «urcu_workqueue_queue_completion»), (.call none ["completion"] [.var "completion"] «urcu_workqueue_wait_completion»), (.call none ["completion"] [.var "completion"] «urcu_workqueue_destroy_completion»)]
def «urcu_workqueue_flush_queued_work.params» : List String := ["workqueue"]

/-- `urcu_workqueue_pause_worker` (src/workqueue.c) -/
def «urcu_workqueue_pause_worker» : Stmt :=
  block [(.prim none .uor [.fieldAddr (.var "workqueue") "flags", .cst "URCU_WORKQUEUE_PAUSE" (4), .cst "CMM_RELAXED" (0)]), (.prim none .barrier []), (.call none ["workqueue"] [.var "workqueue"] «wake_worker_thread»), (.loop (block [(.prim (some "_t1") .uload [.fieldAddr (.var "workqueue") "flags", .cst "CMM_RELAXED" (0)]), (.ifte (.bin .eq (.bin .band (.var "_t1") (.cst "URCU_WORKQUEUE_PAUSED" (8))) (.lit 0)) (.prim none (.ext "poll") [.null, .lit 0, .lit 1]) (.brk))]))]
def «urcu_workqueue_pause_worker.params» : List String := ["workqueue"]

/-- `urcu_workqueue_resume_worker` (src/workqueue.c) -/
def «urcu_workqueue_resume_worker» : Stmt :=
  block [(.prim none .uand [.fieldAddr (.var "workqueue") "flags", .cst "NOT_URCU_WORKQUEUE_PAUSE" (18446744073709551611), .cst "CMM_SEQ_CST" (5)]), (.loop (block [(.prim (some "_t1") .uload [.fieldAddr (.var "workqueue") "flags", .cst "CMM_RELAXED" (0)]), (.ifte (.bin .ne (.bin .band (.var "_t1") (.cst "URCU_WORKQUEUE_PAUSED" (8))) (.lit 0)) (.prim none (.ext "poll") [.null, .lit 0, .lit 1]) (.brk))]))]
def «urcu_workqueue_resume_worker.params» : List String := ["workqueue"]

/-- `_urcu_workqueue_wait_complete` (src/workqueue.c) -/
def «_urcu_workqueue_wait_complete» : Stmt :=
  block [(.assign "completion_work" (.parent (.var "work") "work")), (.assign "completion" (.pload (.fieldAddr (.var "completion_work") "completion"))), (.prim (some "_t1") .usubret [.fieldAddr (.var "completion") "barrier_count", .lit 1, .cst "CMM_SEQ_CST_FENCE" (6)]), (.ifte (.un .lnot (.var "_t1")) (.call none ["futex"] [.fieldAddr (.var "completion") "futex"] «futex_wake_up») (.skip)), (.call none ["ref", "release"] [.fieldAddr (.var "completion") "ref", .addrGlob "free_completion"] «urcu_ref_put»), (.prim none (.ext "free") [.var "completion_work"])]
def «_urcu_workqueue_wait_complete.params» : List String := ["work"]

/-- `smp_mb_master` (src/urcu.c, with RCU_MEMBARRIER) -/
def «memb.smp_mb_master» : Stmt :=
  .ifte (.pload (.addrGlob "urcu_memb_has_sys_membarrier")) (block [(.ifte (.pload (.addrGlob "urcu_memb_has_sys_membarrier_private_expedited")) (.assign "_t1" (.cst "MEMBARRIER_CMD_PRIVATE_EXPEDITED" (8))) (.assign "_t1" (.cst "MEMBARRIER_CMD_SHARED" (1)))), (.prim (some "_t2") (.ext "membarrier") [.var "_t1", .lit 0]), (.ifte (.var "_t2") (block [(.prim (some "_t3") (.ext "errno") []), (.prim none (.ext "urcu_die") [.var "_t3"])]) (.skip))]) (.prim none .mb [])
def «memb.smp_mb_master.params» : List String := []

/-- `wait_gp` (src/urcu.c, with RCU_MEMBARRIER) -/
def «memb.wait_gp» : Stmt :=
  block [(.assign "_goto_end" (.lit 0)), (.call none [] [] «memb.smp_mb_master»), (.prim none (.ext "mutex_unlock") [.addrGlob "rcu_registry_lock"]), (.loop (block [(.prim (some "_t1") .uload [.fieldAddr (.addrGlob "rcu_gp") "futex", .cst "CMM_RELAXED" (0)]), (.ifte (.bin .eq (.var "_t1") (.lit (-1))) (block [(.prim (some "_t2") (.ext "futex_async") [.fieldAddr (.addrGlob "rcu_gp") "futex", .cst "FUTEX_WAIT" (0), .lit (-1), .null, .null, .lit 0]), (.ifte (.un .lnot (.var "_t2")) (.cont) (.skip)), (.prim (some "_t3") (.ext "errno") []), (.assign "_t4" (.var "_t3")), (.ifte (.bin .eq (.var "_t4") (.cst "EAGAIN" (11))) (block [(.assign "_goto_end" (.lit 1)), (.brk)]) (.ifte (.bin .eq (.var "_t4") (.cst "EINTR" (4))) (.skip) (block [(.prim (some "_t5") (.ext "errno") []), (.prim none (.ext "urcu_die") [.var "_t5"])])))]) (.brk))])), (.assign "_goto_end" (.lit 0)), (.prim none (.ext "mutex_lock") [.addrGlob "rcu_registry_lock"])]
def «memb.wait_gp.params» : List String := []

/-- `urcu_common_reader_state` (include/urcu/static/urcu-common.h) -/
def «urcu_common_reader_state» : Stmt :=
  block [(.prim (some "_t1") .uload [.var "ctr", .cst "CMM_RELAXED" (0)]), (.assign "v" (.var "_t1")), (.ifte (.un .lnot (.bin .band (.var "v") (.cst "URCU_GP_CTR_NEST_MASK" (4294967295)))) (.ret (some (.cst "URCU_READER_INACTIVE" (2)))) (.skip)), (.ifte (.un .lnot (.bin .band (.bin .bxor (.var "v") (.pload (.fieldAddr (.var "gp") "ctr"))) (.cst "URCU_GP_CTR_PHASE" (4294967296)))) (.ret (some (.cst "URCU_READER_ACTIVE_CURRENT" (0)))) (.skip)), (.ret (some (.cst "URCU_READER_ACTIVE_OLD" (1))))]
def «urcu_common_reader_state.params» : List String := ["gp", "ctr", "group"]

/-- `wait_for_readers` (src/urcu.c, with RCU_MEMBARRIER) -/
def «memb.wait_for_readers» : Stmt :=
  block [(.assign "wait_loops" (.lit 0)), (.loop (block [(.ifte (.bin .lt (.var "wait_loops") (.cst "memb.RCU_QS_ACTIVE_ATTEMPTS" (100))) (block [(.assign "_t1" (.var "wait_loops")), (.assign "wait_loops" (.bin .add (.var "wait_loops") (.lit 1)))]) (.skip)), (.ifte (.bin .ge (.var "wait_loops") (.cst "memb.RCU_QS_ACTIVE_ATTEMPTS" (100))) (block [(.prim none .udec [.fieldAddr (.addrGlob "rcu_gp") "futex", .cst "CMM_RELAXED" (0)]), (.call none [] [] «memb.smp_mb_master»)]) (.skip)), (.prim (some "_t2") (.ext "cds_list_for_each_entry_safe.first") [.var "input_readers"]), (.loop (block [(.assign "index" (.var "_t2")), (.ifte (.var "index") (.skip) (.brk)), (.prim (some "_t2") (.ext "cds_list_for_each_entry_safe.next") ([.var "input_readers"] ++ [.var "index"])), (.assign "tmp" (.var "_t2")), (.call (some "_t3") ["gp", "ctr", "group"] [.addrGlob "rcu_gp", .fieldAddr (.var "index") "ctr", .var "group"] «urcu_common_reader_state»), (.assign "_t4" (.var "_t3")), (.loop (block [(.ifte (.bin .eq (.var "_t4") (.cst "URCU_READER_ACTIVE_CURRENT" (0))) (block [(.ifte (.var "cur_snap_readers") (block [(.prim none (.ext "cds_list_move") [.fieldAddr (.var "index") "node", .var "cur_snap_readers"]), (.brk)]) (.skip)), (.prim none (.ext "cds_list_move") [.fieldAddr (.var "index") "node", .var "qsreaders"]), (.brk)]) (.ifte (.bin .eq (.var "_t4") (.cst "URCU_READER_INACTIVE" (2))) (block [(.prim none (.ext "cds_list_move") [.fieldAddr (.var "index") "node", .var "qsreaders"]), (.brk)]) (.ifte (.bin .eq (.var "_t4") (.cst "URCU_READER_ACTIVE_OLD" (1))) (.brk) (.skip)))), (.brk)]))])), (.prim (some "_t5") (.ext "cds_list_empty") [.var "input_readers"]), (.ifte (.var "_t5") (block [(.ifte (.bin .ge (.var "wait_loops") (.cst "memb.RCU_QS_ACTIVE_ATTEMPTS" (100))) (block [(.call none [] [] «memb.smp_mb_master»), (.prim none .ustore [.fieldAddr (.addrGlob "rcu_gp") "futex", .lit 0, .cst "CMM_RELAXED" (0)])]) (.skip)), (.brk)]) (.ifte (.bin .ge (.var "wait_loops") (.cst "memb.RCU_QS_ACTIVE_ATTEMPTS" (100))) (.call none [] [] «memb.wait_gp») (block [(.prim none (.ext "mutex_unlock") [.addrGlob "rcu_registry_lock"]), (.prim none .relax []), (.prim none (.ext "mutex_lock") [.addrGlob "rcu_registry_lock"])])))]))]
def «memb.wait_for_readers.params» : List String := ["input_readers", "cur_snap_readers", "qsreaders", "group"]

/-- `synchronize_rcu` (src/urcu.c, with RCU_MEMBARRIER) -/
def «memb.synchronize_rcu» : Stmt :=
  block [(.assign "_goto_out" (.lit 0)), (.pstore (.fieldAddr (.addrGlob "&wait") "state") (.cst "URCU_WAIT_WAITING" (0))), (.call (some "_t1") ["queue", "node"] [.addrGlob "gp_waiters", .addrGlob "&wait"] «urcu_wait_add»), (.ifte (.bin .ne (.var "_t1") (.lit 0)) (block [(.call none ["wait"] [.addrGlob "&wait"] «urcu_adaptative_busy_wait»), (.ret none)]) (.skip)), (.call none ["node", "state"] [.addrGlob "&wait", .cst "URCU_WAIT_RUNNING" (2)] «urcu_wait_set_state»), (.prim none (.ext "mutex_lock") [.addrGlob "rcu_gp_lock"]), (.call none ["waiters", "queue"] [.addrGlob "&waiters", .addrGlob "gp_waiters"] «urcu_move_waiters»), (.prim none (.ext "mutex_lock") [.addrGlob "rcu_registry_lock"]), (.prim (some "_t2") (.ext "cds_list_empty") [.addrGlob "registry"]), (.ifte (.var "_t2") (.assign "_goto_out" (.lit 1)) (.skip)), (.ifte (.var "_goto_out") (.skip) (block [(.call none [] [] «memb.smp_mb_master»), (.call none ["input_readers", "cur_snap_readers", "qsreaders", "group"] [.addrGlob "registry", .addrGlob "&cur_snap_readers", .addrGlob "&qsreaders", .addrGlob "&acquire_group"] «memb.wait_for_readers»), (.prim none .barrier []), (.prim none .mb []), (.prim none .ustore [.fieldAddr (.addrGlob "rcu_gp") "ctr", .bin .bxor (.pload (.fieldAddr (.addrGlob "rcu_gp") "ctr")) (.cst "URCU_GP_CTR_PHASE" (4294967296)), .cst "CMM_RELAXED" (0)]), (.prim none .barrier []), (.prim none .mb []), (.call none ["input_readers", "cur_snap_readers", "qsreaders", "group"] [.addrGlob "&cur_snap_readers", .null, .addrGlob "&qsreaders", .addrGlob "&acquire_group"] «memb.wait_for_readers»), (.prim none (.ext "cds_list_splice") [.addrGlob "&qsreaders", .addrGlob "registry"]), (.call none [] [] «memb.smp_mb_master»)])), (.assign "_goto_out" (.lit 0)), (.prim none (.ext "mutex_unlock") [.addrGlob "rcu_registry_lock"]), (.prim none (.ext "mutex_unlock") [.addrGlob "rcu_gp_lock"]), (.call none ["waiters"] [.addrGlob "&waiters"] «urcu_wake_all_waiters»)]
def «memb.synchronize_rcu.params» : List String := []

/-- `rcu_sys_membarrier_status` (src/urcu.c, with RCU_MEMBARRIER) -/
def «memb.rcu_sys_membarrier_status» : Stmt :=
  block [(.ifte (.un .lnot (.var "available")) (.ret none) (.skip)), (.assign "_t1" (.lit 1)), (.pstore (.addrGlob "urcu_memb_has_sys_membarrier") (.var "_t1"))]
def «memb.rcu_sys_membarrier_status.params» : List String := ["available"]

/-- `rcu_sys_membarrier_init` (src/urcu.c, with RCU_MEMBARRIER) -/
def «memb.rcu_sys_membarrier_init» : Stmt :=
  block [(.assign "available" (.lit 0)), (.prim (some "_t1") (.ext "membarrier") [.cst "MEMBARRIER_CMD_QUERY" (0), .lit 0]), (.assign "mask" (.var "_t1")), (.ifte (.bin .ge (.var "mask") (.lit 0)) (.ifte (.bin .band (.var "mask") (.cst "MEMBARRIER_CMD_PRIVATE_EXPEDITED" (8))) (block [(.prim (some "_t2") (.ext "membarrier") [.cst "MEMBARRIER_CMD_REGISTER_PRIVATE_EXPEDITED" (16), .lit 0]), (.ifte (.var "_t2") (block [(.prim (some "_t3") (.ext "errno") []), (.prim none (.ext "urcu_die") [.var "_t3"])]) (.skip)), (.assign "_t4" (.lit 1)), (.pstore (.addrGlob "urcu_memb_has_sys_membarrier_private_expedited") (.var "_t4")), (.assign "available" (.lit 1))]) (.ifte (.bin .band (.var "mask") (.cst "MEMBARRIER_CMD_SHARED" (1))) (.assign "available" (.lit 1)) (.skip))) (.skip)), (.call none ["available"] [.var "available"] «memb.rcu_sys_membarrier_status»)]
def «memb.rcu_sys_membarrier_init.params» : List String := []

/-- `rcu_init` (src/urcu.c, with RCU_MEMBARRIER) -/
def «memb.rcu_init» : Stmt :=
  block [(.ifte (.pload (.addrGlob "init_done")) (.ret none) (.skip)), (.assign "_t1" (.lit 1)), (.pstore (.addrGlob "init_done") (.var "_t1")), (.call none [] [] «memb.rcu_sys_membarrier_init»)]
def «memb.rcu_init.params» : List String := []

/-- `rcu_register_thread` (src/urcu.c, with RCU_MEMBARRIER) -/
def «memb.rcu_register_thread» : Stmt :=
  block [(.prim (some "_t1") (.ext "pthread_self") []), (.assign "_t2" (.var "_t1")), (.pstore (.fieldAddr (.addrTls "rcu_reader") "tid") (.var "_t2")), (.prim none (.ext "mutex_lock") [.addrGlob "rcu_registry_lock"]), (.assign "_t3" (.lit 1)), (.pstore (.fieldAddr (.addrTls "rcu_reader") "registered") (.var "_t3")), (.call none [] [] «memb.rcu_init»), (.prim none (.ext "cds_list_add") [.fieldAddr (.addrTls "rcu_reader") "node", .addrGlob "registry"]), (.prim none (.ext "mutex_unlock") [.addrGlob "rcu_registry_lock"])]
def «memb.rcu_register_thread.params» : List String := []

/-- `rcu_unregister_thread` (src/urcu.c, with RCU_MEMBARRIER) -/
def «memb.rcu_unregister_thread» : Stmt :=
  block [(.prim none (.ext "mutex_lock") [.addrGlob "rcu_registry_lock"]), (.assign "_t1" (.lit 0)), (.pstore (.fieldAddr (.addrTls "rcu_reader") "registered") (.var "_t1")), (.prim none (.ext "cds_list_del") [.fieldAddr (.addrTls "rcu_reader") "node"]), (.prim none (.ext "mutex_unlock") [.addrGlob "rcu_registry_lock"])]
def «memb.rcu_unregister_thread.params» : List String := []

/-- `smp_mb_master` (src/urcu.c, with RCU_MB) -/
def «mb.smp_mb_master» : Stmt :=
  .prim none .mb []
def «mb.smp_mb_master.params» : List String := []

/-- `wait_gp` (src/urcu.c, with RCU_MB) -/
def «mb.wait_gp» : Stmt :=
  block [(.assign "_goto_end" (.lit 0)), (.call none [] [] «mb.smp_mb_master»), (.prim none (.ext "mutex_unlock") [.addrGlob "rcu_registry_lock"]), (.loop (block [(.prim (some "_t1") .uload [.fieldAddr (.addrGlob "rcu_gp") "futex", .cst "CMM_RELAXED" (0)]), (.ifte (.bin .eq (.var "_t1") (.lit (-1))) (block [(.prim (some "_t2") (.ext "futex_async") [.fieldAddr (.addrGlob "rcu_gp") "futex", .cst "FUTEX_WAIT" (0), .lit (-1), .null, .null, .lit 0]), (.ifte (.un .lnot (.var "_t2")) (.cont) (.skip)), (.prim (some "_t3") (.ext "errno") []), (.assign "_t4" (.var "_t3")), (.ifte (.bin .eq (.var "_t4") (.cst "EAGAIN" (11))) (block [(.assign "_goto_end" (.lit 1)), (.brk)]) (.ifte (.bin .eq (.var "_t4") (.cst "EINTR" (4))) (.skip) (block [(.prim (some "_t5") (.ext "errno") []), (.prim none (.ext "urcu_die") [.var "_t5"])])))]) (.brk))])), (.assign "_goto_end" (.lit 0)), (.prim none (.ext "mutex_lock") [.addrGlob "rcu_registry_lock"])]
def «mb.wait_gp.params» : List String := []

/-- `wait_for_readers` (src/urcu.c, with RCU_MB) -/
def «mb.wait_for_readers» : Stmt :=
  block [(.assign "wait_loops" (.lit 0)), (.loop (block [(.ifte (.bin .lt (.var "wait_loops") (.cst "mb.RCU_QS_ACTIVE_ATTEMPTS" (100))) (block [(.assign "_t1" (.var "wait_loops")), (.assign "wait_loops" (.bin .add (.var "wait_loops") (.lit 1)))]) (.skip)), (.ifte (.bin .ge (.var "wait_loops") (.cst "mb.RCU_QS_ACTIVE_ATTEMPTS" (100))) (block [(.prim none .udec [.fieldAddr (.addrGlob "rcu_gp") "futex", .cst "CMM_RELAXED" (0)]), (.call none [] [] «mb.smp_mb_master»)]) (.skip)), (.prim (some "_t2") (.ext "cds_list_for_each_entry_safe.first") [.var "input_readers"]), (.loop (block [(.assign "index" (.var "_t2")), (.ifte (.var "index") (.skip) (.brk)), (.prim (some "_t2") (.ext "cds_list_for_each_entry_safe.next") ([.var "input_readers"] ++ [.var "index"])), (.assign "tmp" (.var "_t2")), (.call (some "_t3") ["gp", "ctr", "group"] [.addrGlob "rcu_gp", .fieldAddr (.var "index") "ctr", .var "group"] «urcu_common_reader_state»), (.assign "_t4" (.var "_t3")), (.loop (block [(.ifte (.bin .eq (.var "_t4") (.cst "URCU_READER_ACTIVE_CURRENT" (0))) (block [(.ifte (.var "cur_snap_readers") (block [(.prim none (.ext "cds_list_move") [.fieldAddr (.var "index") "node", .var "cur_snap_readers"]), (.brk)]) (.skip)), (.prim none (.ext "cds_list_move") [.fieldAddr (.var "index") "node", .var "qsreaders"]), (.brk)]) (.ifte (.bin .eq (.var "_t4") (.cst "URCU_READER_INACTIVE" (2))) (block [(.prim none (.ext "cds_list_move") [.fieldAddr (.var "index") "node", .var "qsreaders"]), (.brk)]) (.ifte (.bin .eq (.var "_t4") (.cst "URCU_READER_ACTIVE_OLD" (1))) (.brk) (.skip)))), (.brk)]))])), (.prim (some "_t5") (.ext "cds_list_empty") [.var "input_readers"]), (.ifte (.var "_t5") (block [(.ifte (.bin .ge (.var "wait_loops") (.cst "mb.RCU_QS_ACTIVE_ATTEMPTS" (100))) (block [(.call none [] [] «mb.smp_mb_master»), (.prim none .ustore [.fieldAddr (.addrGlob "rcu_gp") "futex", .lit 0, .cst "CMM_RELAXED" (0)])]) (.skip)), (.brk)]) (.ifte (.bin .ge (.var "wait_loops") (.cst "mb.RCU_QS_ACTIVE_ATTEMPTS" (100))) (.call none [] [] «mb.wait_gp») (block [(.prim none (.ext "mutex_unlock") [.addrGlob "rcu_registry_lock"]), (.prim none .relax []), (.prim none (.ext "mutex_lock") [.addrGlob "rcu_registry_lock"])])))]))]
def «mb.wait_for_readers.params» : List String := ["input_readers", "cur_snap_readers", "qsreaders", "group"]

/-- `synchronize_rcu` (src/urcu.c, with RCU_MB) -/
def «mb.synchronize_rcu» : Stmt :=
  block [(.assign "_goto_out" (.lit 0)), (.pstore (.fieldAddr (.addrGlob "&wait") "state") (.cst "URCU_WAIT_WAITING" (0))), (.call (some "_t1") ["queue", "node"] [.addrGlob "gp_waiters", .addrGlob "&wait"] «urcu_wait_add»), (.ifte (.bin .ne (.var "_t1") (.lit 0)) (block [(.call none ["wait"] [.addrGlob "&wait"] «urcu_adaptative_busy_wait»), (.ret none)]) (.skip)), (.call none ["node", "state"] [.addrGlob "&wait", .cst "URCU_WAIT_RUNNING" (2)] «urcu_wait_set_state»), (.prim none (.ext "mutex_lock") [.addrGlob "rcu_gp_lock"]), (.call none ["waiters", "queue"] [.addrGlob "&waiters", .addrGlob "gp_waiters"] «urcu_move_waiters»), (.prim none (.ext "mutex_lock") [.addrGlob "rcu_registry_lock"]), (.prim (some "_t2") (.ext "cds_list_empty") [.addrGlob "registry"]), (.ifte (.var "_t2") (.assign "_goto_out" (.lit 1)) (.skip)), (.ifte (.var "_goto_out") (.skip) (block [(.call none [] [] «mb.smp_mb_master»), (.call none ["input_readers", "cur_snap_readers", "qsreaders", "group"] [.addrGlob "registry", .addrGlob "&cur_snap_readers", .addrGlob "&qsreaders", .addrGlob "&acquire_group"] «mb.wait_for_readers»), (.prim none .barrier []), (.prim none .mb []), (.prim none .ustore [.fieldAddr (.addrGlob "rcu_gp") "ctr", .bin .bxor (.pload (.fieldAddr (.addrGlob "rcu_gp") "ctr")) (.cst "URCU_GP_CTR_PHASE" (4294967296)), .cst "CMM_RELAXED" (0)]), (.prim none .barrier []), (.prim none .mb []), (.call none ["input_readers", "cur_snap_readers", "qsreaders", "group"] [.addrGlob "&cur_snap_readers", .null, .addrGlob "&qsreaders", .addrGlob "&acquire_group"] «mb.wait_for_readers»), (.prim none (.ext "cds_list_splice") [.addrGlob "&qsreaders", .addrGlob "registry"]), (.call none [] [] «mb.smp_mb_master»)])), (.assign "_goto_out" (.lit 0)), (.prim none (.ext "mutex_unlock") [.addrGlob "rcu_registry_lock"]), (.prim none (.ext "mutex_unlock") [.addrGlob "rcu_gp_lock"]), (.call none ["waiters"] [.addrGlob "&waiters"] «urcu_wake_all_waiters»)]
def «mb.synchronize_rcu.params» : List String := []

/-- `wait_gp` (src/urcu-qsbr.c) -/
def «qsbr.wait_gp» : Stmt :=
  block [(.prim none .rmb []), (.loop (block [(.prim (some "_t1") .uload [.fieldAddr (.addrGlob "urcu_qsbr_gp") "futex", .cst "CMM_RELAXED" (0)]), (.ifte (.bin .eq (.var "_t1") (.lit (-1))) (block [(.prim (some "_t2") (.ext "futex_noasync") [.fieldAddr (.addrGlob "urcu_qsbr_gp") "futex", .cst "FUTEX_WAIT" (0), .lit (-1), .null, .null, .lit 0]), (.ifte (.un .lnot (.var "_t2")) (.cont) (.skip)), (.prim (some "_t3") (.ext "errno") []), (.assign "_t4" (.var "_t3")), (.ifte (.bin .eq (.var "_t4") (.cst "EAGAIN" (11))) (.ret none) (.ifte (.bin .eq (.var "_t4") (.cst "EINTR" (4))) (.skip) (block [(.prim (some "_t5") (.ext "errno") []), (.prim none (.ext "urcu_die") [.var "_t5"])])))]) (.brk))]))]
def «qsbr.wait_gp.params» : List String := []

/-- `urcu_qsbr_reader_state` (include/urcu/static/urcu-qsbr.h) -/
def «urcu_qsbr_reader_state» : Stmt :=
  block [(.prim (some "_t1") .uload [.var "ctr", .cst "CMM_RELAXED" (0)]), (.assign "v" (.var "_t1")), (.ifte (.un .lnot (.var "v")) (.ret (some (.cst "URCU_READER_INACTIVE" (2)))) (.skip)), (.ifte (.bin .eq (.var "v") (.pload (.fieldAddr (.addrGlob "urcu_qsbr_gp") "ctr"))) (.ret (some (.cst "URCU_READER_ACTIVE_CURRENT" (0)))) (.skip)), (.ret (some (.cst "URCU_READER_ACTIVE_OLD" (1))))]
def «urcu_qsbr_reader_state.params» : List String := ["ctr", "group"]

/-- `wait_for_readers` (src/urcu-qsbr.c) -/
def «qsbr.wait_for_readers» : Stmt :=
  block [(.assign "wait_loops" (.lit 0)), (.loop (block [(.ifte (.bin .lt (.var "wait_loops") (.cst "qsbr.RCU_QS_ACTIVE_ATTEMPTS" (100))) (block [(.assign "_t1" (.var "wait_loops")), (.assign "wait_loops" (.bin .add (.var "wait_loops") (.lit 1)))]) (.skip)), (.ifte (.bin .ge (.var "wait_loops") (.cst "qsbr.RCU_QS_ACTIVE_ATTEMPTS" (100))) (block [(.prim none .ustore [.fieldAddr (.addrGlob "urcu_qsbr_gp") "futex", .lit (-1), .cst "CMM_RELAXED" (0)]), (.prim none .wmb []), (.prim (some "_t2") (.ext "cds_list_for_each_entry.first") [.var "input_readers"]), (.loop (block [(.assign "index" (.var "_t2")), (.ifte (.var "index") (.skip) (.brk)), (.prim (some "_t2") (.ext "cds_list_for_each_entry.next") ([.var "input_readers"] ++ [.var "index"])), (.prim none .ustore [.fieldAddr (.var "index") "waiting", .lit 1, .cst "CMM_RELAXED" (0)])])), (.prim none .mb [])]) (.skip)), (.prim (some "_t3") (.ext "cds_list_for_each_entry_safe.first") [.var "input_readers"]), (.loop (block [(.assign "index" (.var "_t3")), (.ifte (.var "index") (.skip) (.brk)), (.prim (some "_t3") (.ext "cds_list_for_each_entry_safe.next") ([.var "input_readers"] ++ [.var "index"])), (.assign "tmp" (.var "_t3")), (.call (some "_t4") ["ctr", "group"] [.fieldAddr (.var "index") "ctr", .var "group"] «urcu_qsbr_reader_state»), (.assign "_t5" (.var "_t4")), (.loop (block [(.ifte (.bin .eq (.var "_t5") (.cst "URCU_READER_ACTIVE_CURRENT" (0))) (block [(.ifte (.var "cur_snap_readers") (block [(.prim none (.ext "cds_list_move") [.fieldAddr (.var "index") "node", .var "cur_snap_readers"]), (.brk)]) (.skip)), (.prim none (.ext "cds_list_move") [.fieldAddr (.var "index") "node", .var "qsreaders"]), (.brk)]) (.ifte (.bin .eq (.var "_t5") (.cst "URCU_READER_INACTIVE" (2))) (block [(.prim none (.ext "cds_list_move") [.fieldAddr (.var "index") "node", .var "qsreaders"]), (.brk)]) (.ifte (.bin .eq (.var "_t5") (.cst "URCU_READER_ACTIVE_OLD" (1))) (.brk) (.skip)))), (.brk)]))])), (.prim (some "_t6") (.ext "cds_list_empty") [.var "input_readers"]), (.ifte (.var "_t6") (block [(.ifte (.bin .ge (.var "wait_loops") (.cst "qsbr.RCU_QS_ACTIVE_ATTEMPTS" (100))) (.prim none .ustore [.fieldAddr (.addrGlob "urcu_qsbr_gp") "futex", .lit 0, .cst "CMM_RELEASE" (3)]) (.skip)), (.brk)]) (block [(.prim none (.ext "mutex_unlock") [.addrGlob "rcu_registry_lock"]), (.ifte (.bin .ge (.var "wait_loops") (.cst "qsbr.RCU_QS_ACTIVE_ATTEMPTS" (100))) (.call none [] [] «qsbr.wait_gp») (.prim none .relax [])), (.prim none (.ext "mutex_lock") [.addrGlob "rcu_registry_lock"])]))]))]
def «qsbr.wait_for_readers.params» : List String := ["input_readers", "cur_snap_readers", "qsreaders", "group"]

/-- `urcu_qsbr_read_ongoing` (src/urcu-qsbr.c) -/
def «qsbr.urcu_qsbr_read_ongoing» : Stmt :=
  block [(.call (some "_t1") [] [] «_urcu_qsbr_read_ongoing»), (.ret (some (.var "_t1")))]
def «qsbr.urcu_qsbr_read_ongoing.params» : List String := []

/-- `urcu_qsbr_thread_offline` (src/urcu-qsbr.c) -/
def «qsbr.urcu_qsbr_thread_offline» : Stmt :=
  .call none [] [] «_urcu_qsbr_thread_offline»
def «qsbr.urcu_qsbr_thread_offline.params» : List String := []

/-- `urcu_qsbr_thread_online` (src/urcu-qsbr.c) -/
def «qsbr.urcu_qsbr_thread_online» : Stmt :=
  .call none [] [] «_urcu_qsbr_thread_online»
def «qsbr.urcu_qsbr_thread_online.params» : List String := []

/-- `urcu_qsbr_synchronize_rcu` (src/urcu-qsbr.c) -/
def «qsbr.urcu_qsbr_synchronize_rcu» : Stmt :=
  block [(.assign "_goto_gp_end" (.lit 0)), (.assign "_goto_out" (.lit 0)), (.pstore (.fieldAddr (.addrGlob "&wait") "state") (.cst "URCU_WAIT_WAITING" (0))), (.call (some "_t1") [] [] «qsbr.urcu_qsbr_read_ongoing»), (.assign "was_online" (.var "_t1")), (.ifte (.var "was_online") (.call none [] [] «qsbr.urcu_qsbr_thread_offline») (.prim none .mb [])), (.call (some "_t2") ["queue", "node"] [.addrGlob "gp_waiters", .addrGlob "&wait"] «urcu_wait_add»), (.ifte (.bin .ne (.var "_t2") (.lit 0)) (block [(.call none ["wait"] [.addrGlob "&wait"] «urcu_adaptative_busy_wait»), (.assign "_goto_gp_end" (.lit 1))]) (.skip)), (.ifte (.var "_goto_gp_end") (.skip) (block [(.call none ["node", "state"] [.addrGlob "&wait", .cst "URCU_WAIT_RUNNING" (2)] «urcu_wait_set_state»), (.prim none (.ext "mutex_lock") [.addrGlob "rcu_gp_lock"]), (.call none ["waiters", "queue"] [.addrGlob "&waiters", .addrGlob "gp_waiters"] «urcu_move_waiters»), (.prim none (.ext "mutex_lock") [.addrGlob "rcu_registry_lock"]), (.prim (some "_t3") (.ext "cds_list_empty") [.addrGlob "registry"]), (.ifte (.var "_t3") (.assign "_goto_out" (.lit 1)) (.skip)), (.ifte (.var "_goto_out") (.skip) (block [(.prim none .ustore [.fieldAddr (.addrGlob "urcu_qsbr_gp") "ctr", .bin .add (.pload (.fieldAddr (.addrGlob "urcu_qsbr_gp") "ctr")) (.cst "URCU_QSBR_GP_CTR" (2)), .cst "CMM_RELAXED" (0)]), (.prim none .barrier []), (.prim none .mb []), (.call none ["input_readers", "cur_snap_readers", "qsreaders", "group"] [.addrGlob "registry", .null, .addrGlob "&qsreaders", .addrGlob "&acquire_group"] «qsbr.wait_for_readers»), (.prim none (.ext "cds_list_splice") [.addrGlob "&qsreaders", .addrGlob "registry"])])), (.assign "_goto_out" (.lit 0)), (.prim none (.ext "mutex_unlock") [.addrGlob "rcu_registry_lock"]), (.prim none (.ext "mutex_unlock") [.addrGlob "rcu_gp_lock"]), (.call none ["waiters"] [.addrGlob "&waiters"] «urcu_wake_all_waiters»)])), (.assign "_goto_gp_end" (.lit 0)), (.ifte (.var "was_online") (.call none [] [] «qsbr.urcu_qsbr_thread_online») (.prim none .mb []))]
def «qsbr.urcu_qsbr_synchronize_rcu.params» : List String := []

/-- `urcu_qsbr_register_thread` (src/urcu-qsbr.c) -/
def «qsbr.urcu_qsbr_register_thread» : Stmt :=
  block [(.prim (some "_t1") (.ext "pthread_self") []), (.assign "_t2" (.var "_t1")), (.pstore (.fieldAddr (.addrTls "urcu_qsbr_reader") "tid") (.var "_t2")), (.prim none (.ext "mutex_lock") [.addrGlob "rcu_registry_lock"]), (.assign "_t3" (.lit 1)), (.pstore (.fieldAddr (.addrTls "urcu_qsbr_reader") "registered") (.var "_t3")), (.prim none (.ext "cds_list_add") [.fieldAddr (.addrTls "urcu_qsbr_reader") "node", .addrGlob "registry"]), (.prim none (.ext "mutex_unlock") [.addrGlob "rcu_registry_lock"]), (.call none [] [] «_urcu_qsbr_thread_online»)]
def «qsbr.urcu_qsbr_register_thread.params» : List String := []

/-- `urcu_qsbr_unregister_thread` (src/urcu-qsbr.c) -/
def «qsbr.urcu_qsbr_unregister_thread» : Stmt :=
  block [(.call none [] [] «_urcu_qsbr_thread_offline»), (.assign "_t1" (.lit 0)), (.pstore (.fieldAddr (.addrTls "urcu_qsbr_reader") "registered") (.var "_t1")), (.prim none (.ext "mutex_lock") [.addrGlob "rcu_registry_lock"]), (.prim none (.ext "cds_list_del") [.fieldAddr (.addrTls "urcu_qsbr_reader") "node"]), (.prim none (.ext "mutex_unlock") [.addrGlob "rcu_registry_lock"])]
def «qsbr.urcu_qsbr_unregister_thread.params» : List String := []

/-- `bucket_at` (src/rculfhash.c) -/
def «lfht.bucket_at» : Stmt :=
  block [(.prim (some "_t1") (.ext "(*bucket_at)") [.pload (.fieldAddr (.var "ht") "bucket_at"), .var "ht", .var "index"]), (.ret (some (.var "_t1")))]
def «lfht.bucket_at.params» : List String := ["ht", "index"]

/-- `lookup_bucket` (src/rculfhash.c) -/
def «lfht.lookup_bucket» : Stmt :=
  block [(.call (some "_t1") ["ht", "index"] [.var "ht", .bin .band (.var "hash") (.bin .sub (.var "size") (.lit 1))] «lfht.bucket_at»), (.ret (some (.var "_t1")))]
def «lfht.lookup_bucket.params» : List String := ["ht", "size", "hash"]

/-- `is_bucket` (src/rculfhash.c) -/
def «lfht.is_bucket» : Stmt :=
  .ret (some (.bin .tagand (.var "node") (.cst "lfht.BUCKET_FLAG" (2))))
def «lfht.is_bucket.params» : List String := ["node"]

/-- `is_removed` (src/rculfhash.c) -/
def «lfht.is_removed» : Stmt :=
  .ret (some (.bin .tagand (.var "node") (.cst "lfht.REMOVED_FLAG" (1))))
def «lfht.is_removed.params» : List String := ["node"]

/-- `is_removal_owner` (src/rculfhash.c) -/
def «lfht.is_removal_owner» : Stmt :=
  .ret (some (.bin .tagand (.var "node") (.cst "lfht.REMOVAL_OWNER_FLAG" (4))))
def «lfht.is_removal_owner.params» : List String := ["node"]

/-- `clear_flag` (src/rculfhash.c) -/
def «lfht.clear_flag» : Stmt :=
  .ret (some (.bin .tagand (.var "node") (.cst "NOT_FLAGS_MASK" (18446744073709551608))))
def «lfht.clear_flag.params» : List String := ["node"]

/-- `is_end` (src/rculfhash.c) -/
def «lfht.is_end» : Stmt :=
  block [(.call (some "_t1") ["node"] [.var "node"] «lfht.clear_flag»), (.ret (some (.bin .eq (.var "_t1") (.cst "lfht.END_VALUE" (0)))))]
def «lfht.is_end.params» : List String := ["node"]

/-- `flag_bucket` (src/rculfhash.c) -/
def «lfht.flag_bucket» : Stmt :=
  .ret (some (.bin .tagor (.var "node") (.cst "lfht.BUCKET_FLAG" (2))))
def «lfht.flag_bucket.params» : List String := ["node"]

/-- `_cds_lfht_gc_bucket` (src/rculfhash.c) -/
def «lfht._cds_lfht_gc_bucket» : Stmt :=
  block [(.call (some "_t1") ["node"] [.var "bucket"] «lfht.is_bucket»), (.ifte (.un .lnot (.var "_t1")) (.skip) (.prim none (.ext "abort") [])), (.call (some "_t2") ["node"] [.var "bucket"] «lfht.is_removed»), (.ifte (.un .lnot (.var "_t2")) (.skip) (.prim none (.ext "abort") [])), (.call (some "_t3") ["node"] [.var "bucket"] «lfht.is_removal_owner»), (.ifte (.un .lnot (.var "_t3")) (.skip) (.prim none (.ext "abort") [])), (.call (some "_t4") ["node"] [.var "node"] «lfht.is_bucket»), (.ifte (.un .lnot (.var "_t4")) (.skip) (.prim none (.ext "abort") [])), (.call (some "_t5") ["node"] [.var "node"] «lfht.is_removed»), (.ifte (.un .lnot (.var "_t5")) (.skip) (.prim none (.ext "abort") [])), (.call (some "_t6") ["node"] [.var "node"] «lfht.is_removal_owner»), (.ifte (.un .lnot (.var "_t6")) (.skip) (.prim none (.ext "abort") [])), (.loop (block [(.assign "iter_prev" (.var "bucket")), (.prim (some "_t7") .uload [.fieldAddr (.var "iter_prev") "next", .cst "CMM_CONSUME" (1)]), (.assign "iter" (.var "_t7")), (.call (some "_t8") ["node"] [.var "iter"] «lfht.is_removed»), (.ifte (.un .lnot (.var "_t8")) (.skip) (.prim none (.ext "abort") [])), (.call (some "_t9") ["node"] [.var "iter"] «lfht.is_removal_owner»), (.ifte (.un .lnot (.var "_t9")) (.skip) (.prim none (.ext "abort") [])), (.loop (block [(.call (some "_t10") ["node"] [.var "iter"] «lfht.is_end»), (.ifte (.var "_t10") (.ret none) (.skip)), (.call (some "_t11") ["node"] [.var "iter"] «lfht.clear_flag»), (.ifte (.bin .gt (.pload (.fieldAddr (.var "_t11") "reverse_hash")) (.pload (.fieldAddr (.var "node") "reverse_hash"))) (.ret none) (.skip)), (.call (some "_t12") ["node"] [.var "iter"] «lfht.clear_flag»), (.prim (some "_t13") .uload [.fieldAddr (.var "_t12") "next", .cst "CMM_CONSUME" (1)]), (.assign "next" (.var "_t13")), (.call (some "_t14") ["node"] [.var "next"] «lfht.is_removed»), (.ifte (.var "_t14") (.brk) (.skip)), (.call (some "_t15") ["node"] [.var "iter"] «lfht.clear_flag»), (.assign "iter_prev" (.var "_t15")), (.assign "iter" (.var "next"))])), (.call (some "_t16") ["node"] [.var "iter"] «lfht.is_removed»), (.ifte (.un .lnot (.var "_t16")) (.skip) (.prim none (.ext "abort") [])), (.call (some "_t17") ["node"] [.var "iter"] «lfht.is_removal_owner»), (.ifte (.un .lnot (.var "_t17")) (.skip) (.prim none (.ext "abort") [])), (.call (some "_t18") ["node"] [.var "iter"] «lfht.is_bucket»), (.ifte (.var "_t18") (block [(.call (some "_t19") ["node"] [.var "next"] «lfht.clear_flag»), (.call (some "_t20") ["node"] [.var "_t19"] «lfht.flag_bucket»), (.assign "new_next" (.var "_t20"))]) (block [(.call (some "_t21") ["node"] [.var "next"] «lfht.clear_flag»), (.assign "new_next" (.var "_t21"))])), (.prim none .ucmpxchg [.fieldAddr (.var "iter_prev") "next", .var "iter", .var "new_next", .cst "CMM_SEQ_CST_FENCE" (6), .cst "CMM_RELAXED" (0)])]))]
def «lfht._cds_lfht_gc_bucket.params» : List String := ["bucket", "node"]

/-- `cds_lfht_next_duplicate` (src/rculfhash.c) -/
def «lfht.cds_lfht_next_duplicate» : Stmt :=
  block [(.assign "node" (.pload (.fieldAddr (.var "iter") "node"))), (.assign "reverse_hash" (.pload (.fieldAddr (.var "node") "reverse_hash"))), (.assign "next" (.pload (.fieldAddr (.var "iter") "next"))), (.call (some "_t1") ["node"] [.var "next"] «lfht.clear_flag»), (.assign "node" (.var "_t1")), (.loop (block [(.call (some "_t2") ["node"] [.var "node"] «lfht.is_end»), (.ifte (.var "_t2") (block [(.assign "next" (.null)), (.assign "node" (.var "next")), (.brk)]) (.skip)), (.ifte (.bin .gt (.pload (.fieldAddr (.var "node") "reverse_hash")) (.var "reverse_hash")) (block [(.assign "next" (.null)), (.assign "node" (.var "next")), (.brk)]) (.skip)), (.prim (some "_t3") .uload [.fieldAddr (.var "node") "next", .cst "CMM_CONSUME" (1)]), (.assign "next" (.var "_t3")), (.call (some "_t4") ["node"] [.var "next"] «lfht.is_removed»), (.ifte (.un .lnot (.var "_t4")) (block [(.call (some "_t5") ["node"] [.var "next"] «lfht.is_bucket»), (.assign "_t6" (.un .lnot (.un .lnot (.un .lnot (.var "_t5")))))]) (.assign "_t6" (.lit 0))), (.ifte (.var "_t6") (block [(.prim (some "_t7") (.ext "match") [.var "node", .var "key"]), (.assign "_t8" (.un .lnot (.un .lnot (.var "_t7"))))]) (.assign "_t8" (.lit 0))), (.ifte (.var "_t8") (.brk) (.skip)), (.call (some "_t9") ["node"] [.var "next"] «lfht.clear_flag»), (.assign "node" (.var "_t9"))])), (.ifte (.un .lnot (.var "node")) (.assign "_t12" (.lit 1)) (block [(.prim (some "_t10") .uload [.fieldAddr (.var "node") "next", .cst "CMM_RELAXED" (0)]), (.call (some "_t11") ["node"] [.var "_t10"] «lfht.is_bucket»), (.assign "_t12" (.un .lnot (.un .lnot (.un .lnot (.var "_t11")))))])), (.ifte (.var "_t12") (.skip) (.prim none (.ext "abort") [])), (.assign "_t13" (.var "node")), (.pstore (.fieldAddr (.var "iter") "node") (.var "_t13")), (.assign "_t14" (.var "next")), (.pstore (.fieldAddr (.var "iter") "next") (.var "_t14"))]
def «lfht.cds_lfht_next_duplicate.params» : List String := ["ht", "match", "key", "iter"]

/-- `_cds_lfht_add` (src/rculfhash.c) -/
def «lfht._cds_lfht_add» : Stmt :=
  block [(.assign "_goto_end" (.lit 0)), (.assign "_goto_gc_node" (.lit 0)), (.assign "_goto_insert" (.lit 0)), (.call (some "_t1") ["node"] [.var "node"] «lfht.is_bucket»), (.ifte (.un .lnot (.var "_t1")) (.skip) (.prim none (.ext "abort") [])), (.call (some "_t2") ["node"] [.var "node"] «lfht.is_removed»), (.ifte (.un .lnot (.var "_t2")) (.skip) (.prim none (.ext "abort") [])), (.call (some "_t3") ["node"] [.var "node"] «lfht.is_removal_owner»), (.ifte (.un .lnot (.var "_t3")) (.skip) (.prim none (.ext "abort") [])), (.call (some "_t4") ["ht", "size", "hash"] [.var "ht", .var "size", .var "hash"] «lfht.lookup_bucket»), (.assign "bucket" (.var "_t4")), (.loop (block [(.assign "chain_len" (.lit 0)), (.assign "iter_prev" (.var "bucket")), (.prim (some "_t5") .uload [.fieldAddr (.var "iter_prev") "next", .cst "CMM_CONSUME" (1)]), (.assign "iter" (.var "_t5")), (.loop (block [(.call (some "_t6") ["node"] [.var "iter"] «lfht.is_end»), (.ifte (.var "_t6") (block [(.assign "_goto_insert" (.lit 1)), (.brk)]) (.skip)), (.ifte (.var "_goto_insert") (.brk) (block [(.call (some "_t7") ["node"] [.var "iter"] «lfht.clear_flag»), (.ifte (.bin .gt (.pload (.fieldAddr (.var "_t7") "reverse_hash")) (.pload (.fieldAddr (.var "node") "reverse_hash"))) (block [(.assign "_goto_insert" (.lit 1)), (.brk)]) (.skip)), (.ifte (.var "_goto_insert") (.brk) (block [(.ifte (.var "bucket_flag") (block [(.call (some "_t8") ["node"] [.var "iter"] «lfht.clear_flag»), (.assign "_t9" (.un .lnot (.un .lnot (.bin .eq (.pload (.fieldAddr (.var "_t8") "reverse_hash")) (.pload (.fieldAddr (.var "node") "reverse_hash"))))))]) (.assign "_t9" (.lit 0))), (.ifte (.var "_t9") (block [(.assign "_goto_insert" (.lit 1)), (.brk)]) (.skip)), (.ifte (.var "_goto_insert") (.brk) (block [(.call (some "_t10") ["node"] [.var "iter"] «lfht.clear_flag»), (.prim (some "_t11") .uload [.fieldAddr (.var "_t10") "next", .cst "CMM_CONSUME" (1)]), (.assign "next" (.var "_t11")), (.call (some "_t12") ["node"] [.var "next"] «lfht.is_removed»), (.ifte (.var "_t12") (block [(.assign "_goto_gc_node" (.lit 1)), (.brk)]) (.skip)), (.ifte (.var "_goto_gc_node") (.brk) (block [(.ifte (.var "unique_ret") (block [(.call (some "_t13") ["node"] [.var "next"] «lfht.is_bucket»), (.assign "_t14" (.un .lnot (.un .lnot (.un .lnot (.var "_t13")))))]) (.assign "_t14" (.lit 0))), (.ifte (.var "_t14") (block [(.call (some "_t15") ["node"] [.var "iter"] «lfht.clear_flag»), (.assign "_t16" (.un .lnot (.un .lnot (.bin .eq (.pload (.fieldAddr (.var "_t15") "reverse_hash")) (.pload (.fieldAddr (.var "node") "reverse_hash"))))))]) (.assign "_t16" (.lit 0))), (.ifte (.var "_t16") (block [(.pstore (.fieldAddr (.addrGlob "&d_iter") "node") (.var "node")), (.pstore (.fieldAddr (.addrGlob "&d_iter") "next") (.var "iter")), (.call none ["ht", "match", "key", "iter"] [.var "ht", .var "match", .var "key", .addrGlob "&d_iter"] «lfht.cds_lfht_next_duplicate»), (.ifte (.un .lnot (.pload (.fieldAddr (.addrGlob "&d_iter") "node"))) (block [(.assign "_goto_insert" (.lit 1)), (.brk)]) (.skip)), (.ifte (.var "_goto_insert") (.brk) (block [(.assign "_t17" (.pload (.fieldAddr (.addrGlob "&d_iter") "node"))), (.pstore (.fieldAddr (.var "unique_ret") "node") (.var "_t17")), (.assign "_t18" (.pload (.fieldAddr (.addrGlob "&d_iter") "next"))), (.pstore (.fieldAddr (.var "unique_ret") "next") (.var "_t18")), (.ret none)]))]) (.skip)), (.ifte (.var "_goto_insert") (.brk) (block [(.call (some "_t19") ["node"] [.var "iter"] «lfht.clear_flag»), (.ifte (.bin .ne (.pload (.fieldAddr (.var "iter_prev") "reverse_hash")) (.pload (.fieldAddr (.var "_t19") "reverse_hash"))) (block [(.call (some "_t20") ["node"] [.var "next"] «lfht.is_bucket»), (.assign "_t21" (.un .lnot (.un .lnot (.un .lnot (.var "_t20")))))]) (.assign "_t21" (.lit 0))), (.ifte (.var "_t21") (block [(.assign "chain_len" (.bin .add (.var "chain_len") (.lit 1))), (.prim none (.ext "check_resize") [.var "ht", .var "size", .var "chain_len"])]) (.skip)), (.call (some "_t22") ["node"] [.var "iter"] «lfht.clear_flag»), (.assign "iter_prev" (.var "_t22")), (.assign "iter" (.var "next"))]))]))]))]))]))])), (.assign "_goto_insert" (.lit 0)), (.ifte (.var "_goto_gc_node") (.skip) (block [(.call (some "_t23") ["node"] [.var "iter"] «lfht.clear_flag»), (.ifte (.bin .ne (.var "node") (.var "_t23")) (.skip) (.prim none (.ext "abort") [])), (.call (some "_t24") ["node"] [.var "iter_prev"] «lfht.is_removed»), (.ifte (.un .lnot (.var "_t24")) (.skip) (.prim none (.ext "abort") [])), (.call (some "_t25") ["node"] [.var "iter_prev"] «lfht.is_removal_owner»), (.ifte (.un .lnot (.var "_t25")) (.skip) (.prim none (.ext "abort") [])), (.call (some "_t26") ["node"] [.var "iter"] «lfht.is_removed»), (.ifte (.un .lnot (.var "_t26")) (.skip) (.prim none (.ext "abort") [])), (.call (some "_t27") ["node"] [.var "iter"] «lfht.is_removal_owner»), (.ifte (.un .lnot (.var "_t27")) (.skip) (.prim none (.ext "abort") [])), (.ifte (.un .lnot (.var "bucket_flag")) (block [(.call (some "_t28") ["node"] [.var "iter"] «lfht.clear_flag»), (.assign "_t29" (.var "_t28")), (.pstore (.fieldAddr (.var "node") "next") (.var "_t29"))]) (block [(.call (some "_t30") ["node"] [.var "iter"] «lfht.clear_flag»), (.call (some "_t31") ["node"] [.var "_t30"] «lfht.flag_bucket»), (.assign "_t32" (.var "_t31")), (.pstore (.fieldAddr (.var "node") "next") (.var "_t32"))])), (.call (some "_t33") ["node"] [.var "iter"] «lfht.is_bucket»), (.ifte (.var "_t33") (block [(.call (some "_t34") ["node"] [.var "node"] «lfht.flag_bucket»), (.assign "new_node" (.var "_t34"))]) (.assign "new_node" (.var "node"))), (.prim (some "_t35") .ucmpxchg [.fieldAddr (.var "iter_prev") "next", .var "iter", .var "new_node", .cst "CMM_SEQ_CST_FENCE" (6), .cst "CMM_RELAXED" (0)]), (.ifte (.bin .ne (.var "_t35") (.var "iter")) (.cont) (block [(.assign "return_node" (.var "node")), (.assign "_goto_end" (.lit 1)), (.brk)]))])), (.assign "_goto_gc_node" (.lit 0)), (.ifte (.var "_goto_end") (.brk) (block [(.call (some "_t36") ["node"] [.var "iter"] «lfht.is_removed»), (.ifte (.un .lnot (.var "_t36")) (.skip) (.prim none (.ext "abort") [])), (.call (some "_t37") ["node"] [.var "iter"] «lfht.is_removal_owner»), (.ifte (.un .lnot (.var "_t37")) (.skip) (.prim none (.ext "abort") [])), (.call (some "_t38") ["node"] [.var "iter"] «lfht.is_bucket»), (.ifte (.var "_t38") (block [(.call (some "_t39") ["node"] [.var "next"] «lfht.clear_flag»), (.call (some "_t40") ["node"] [.var "_t39"] «lfht.flag_bucket»), (.assign "new_next" (.var "_t40"))]) (block [(.call (some "_t41") ["node"] [.var "next"] «lfht.clear_flag»), (.assign "new_next" (.var "_t41"))])), (.prim none .ucmpxchg [.fieldAddr (.var "iter_prev") "next", .var "iter", .var "new_next", .cst "CMM_SEQ_CST_FENCE" (6), .cst "CMM_RELAXED" (0)])]))])), (.assign "_goto_end" (.lit 0)), (.ifte (.var "unique_ret") (block [(.assign "_t42" (.var "return_node")), (.pstore (.fieldAddr (.var "unique_ret") "node") (.var "_t42"))]) (.skip))]
def «lfht._cds_lfht_add.params» : List String := ["ht", "hash", "match", "key", "size", "node", "unique_ret", "bucket_flag"]

/-- `flag_removal_owner` (src/rculfhash.c) -/
def «lfht.flag_removal_owner» : Stmt :=
  .ret (some (.bin .tagor (.var "node") (.cst "lfht.REMOVAL_OWNER_FLAG" (4))))
def «lfht.flag_removal_owner.params» : List String := ["node"]

/-- `_cds_lfht_del` (src/rculfhash.c) -/
def «lfht._cds_lfht_del» : Stmt :=
  block [(.ifte (.un .lnot (.var "node")) (.ret (some (.un .neg (.cst "ENOENT" (2))))) (.skip)), (.call (some "_t1") ["node"] [.var "node"] «lfht.is_bucket»), (.ifte (.un .lnot (.var "_t1")) (.skip) (.prim none (.ext "abort") [])), (.call (some "_t2") ["node"] [.var "node"] «lfht.is_removed»), (.ifte (.un .lnot (.var "_t2")) (.skip) (.prim none (.ext "abort") [])), (.call (some "_t3") ["node"] [.var "node"] «lfht.is_removal_owner»), (.ifte (.un .lnot (.var "_t3")) (.skip) (.prim none (.ext "abort") [])), (.prim (some "_t4") .uload [.fieldAddr (.var "node") "next", .cst "CMM_RELAXED" (0)]), (.assign "next" (.var "_t4")), (.call (some "_t5") ["node"] [.var "next"] «lfht.is_removed»), (.ifte (.var "_t5") (.ret (some (.un .neg (.cst "ENOENT" (2))))) (.skip)), (.call (some "_t6") ["node"] [.var "next"] «lfht.is_bucket»), (.ifte (.un .lnot (.var "_t6")) (.skip) (.prim none (.ext "abort") [])), (.assign "node_next" (.fieldAddr (.var "node") "next")), (.prim none .uor [.var "node_next", .cst "lfht.REMOVED_FLAG" (1), .cst "CMM_RELEASE" (3)]), (.prim (some "_t7") (.ext "bit_reverse_ulong") [.pload (.fieldAddr (.var "node") "reverse_hash")]), (.call (some "_t8") ["ht", "size", "hash"] [.var "ht", .var "size", .var "_t7"] «lfht.lookup_bucket»), (.assign "bucket" (.var "_t8")), (.call none ["bucket", "node"] [.var "bucket", .var "node"] «lfht._cds_lfht_gc_bucket»), (.prim (some "_t9") .uload [.fieldAddr (.var "node") "next", .cst "CMM_RELAXED" (0)]), (.call (some "_t10") ["node"] [.var "_t9"] «lfht.is_removed»), (.ifte (.var "_t10") (.skip) (.prim none (.ext "abort") [])), (.prim (some "_t11") .uload [.fieldAddr (.var "node") "next", .cst "CMM_RELAXED" (0)]), (.call (some "_t12") ["node"] [.var "_t11"] «lfht.flag_removal_owner»), (.prim (some "_t13") .uxchg [.fieldAddr (.var "node") "next", .var "_t12", .cst "CMM_SEQ_CST_FENCE" (6)]), (.call (some "_t14") ["node"] [.var "_t13"] «lfht.is_removal_owner»), (.ifte (.un .lnot (.var "_t14")) (.ret (some (.lit 0))) (.ret (some (.un .neg (.cst "ENOENT" (2))))))]
def «lfht._cds_lfht_del.params» : List String := ["ht", "size", "node"]

/-- `flag_removed_or_removal_owner` (src/rculfhash.c) -/
def «lfht.flag_removed_or_removal_owner» : Stmt :=
  .ret (some (.bin .tagor (.bin .tagor (.var "node") (.cst "lfht.REMOVED_FLAG" (1))) (.cst "lfht.REMOVAL_OWNER_FLAG" (4))))
def «lfht.flag_removed_or_removal_owner.params» : List String := ["node"]

/-- `_cds_lfht_replace` (src/rculfhash.c) -/
def «lfht._cds_lfht_replace» : Stmt :=
  block [(.ifte (.un .lnot (.var "old_node")) (.ret (some (.un .neg (.cst "ENOENT" (2))))) (.skip)), (.call (some "_t1") ["node"] [.var "old_node"] «lfht.is_removed»), (.ifte (.un .lnot (.var "_t1")) (.skip) (.prim none (.ext "abort") [])), (.call (some "_t2") ["node"] [.var "old_node"] «lfht.is_removal_owner»), (.ifte (.un .lnot (.var "_t2")) (.skip) (.prim none (.ext "abort") [])), (.call (some "_t3") ["node"] [.var "old_node"] «lfht.is_bucket»), (.ifte (.un .lnot (.var "_t3")) (.skip) (.prim none (.ext "abort") [])), (.call (some "_t4") ["node"] [.var "new_node"] «lfht.is_removed»), (.ifte (.un .lnot (.var "_t4")) (.skip) (.prim none (.ext "abort") [])), (.call (some "_t5") ["node"] [.var "new_node"] «lfht.is_removal_owner»), (.ifte (.un .lnot (.var "_t5")) (.skip) (.prim none (.ext "abort") [])), (.call (some "_t6") ["node"] [.var "new_node"] «lfht.is_bucket»), (.ifte (.un .lnot (.var "_t6")) (.skip) (.prim none (.ext "abort") [])), (.loop (block [(.call (some "_t7") ["node"] [.var "old_next"] «lfht.is_removed»), (.ifte (.var "_t7") (.ret (some (.un .neg (.cst "ENOENT" (2))))) (.skip)), (.call (some "_t8") ["node"] [.var "old_next"] «lfht.clear_flag»), (.ifte (.bin .eq (.var "old_next") (.var "_t8")) (.skip) (.prim none (.ext "abort") [])), (.call (some "_t9") ["node"] [.var "old_next"] «lfht.is_removal_owner»), (.ifte (.un .lnot (.var "_t9")) (.skip) (.prim none (.ext "abort") [])), (.assign "_t10" (.var "old_next")), (.pstore (.fieldAddr (.var "new_node") "next") (.var "_t10")), (.call (some "_t11") ["node"] [.var "new_node"] «lfht.flag_removed_or_removal_owner»), (.prim (some "_t12") .ucmpxchg [.fieldAddr (.var "old_node") "next", .var "old_next", .var "_t11", .cst "CMM_SEQ_CST_FENCE" (6), .cst "CMM_RELAXED" (0)]), (.assign "ret_next" (.var "_t12")), (.ifte (.bin .eq (.var "ret_next") (.var "old_next")) (.brk) (.skip)), (.assign "old_next" (.var "ret_next"))])), (.prim (some "_t13") (.ext "bit_reverse_ulong") [.pload (.fieldAddr (.var "old_node") "reverse_hash")]), (.call (some "_t14") ["ht", "size", "hash"] [.var "ht", .var "size", .var "_t13"] «lfht.lookup_bucket»), (.assign "bucket" (.var "_t14")), (.call none ["bucket", "node"] [.var "bucket", .var "new_node"] «lfht._cds_lfht_gc_bucket»), (.prim (some "_t15") .uload [.fieldAddr (.var "old_node") "next", .cst "CMM_RELAXED" (0)]), (.call (some "_t16") ["node"] [.var "_t15"] «lfht.is_removed»), (.ifte (.var "_t16") (.skip) (.prim none (.ext "abort") [])), (.ret (some (.lit 0)))]
def «lfht._cds_lfht_replace.params» : List String := ["ht", "size", "old_node", "old_next", "new_node"]

/-- `cds_lfht_lookup` (src/rculfhash.c) -/
def «lfht.cds_lfht_lookup» : Stmt :=
  block [(.prim (some "_t1") (.ext "bit_reverse_ulong") [.var "hash"]), (.assign "reverse_hash" (.var "_t1")), (.prim (some "_t2") .uload [.fieldAddr (.var "ht") "size", .cst "CMM_ACQUIRE" (2)]), (.assign "size" (.var "_t2")), (.call (some "_t3") ["ht", "size", "hash"] [.var "ht", .var "size", .var "hash"] «lfht.lookup_bucket»), (.assign "bucket" (.var "_t3")), (.prim (some "_t4") .uload [.fieldAddr (.var "bucket") "next", .cst "CMM_CONSUME" (1)]), (.assign "node" (.var "_t4")), (.call (some "_t5") ["node"] [.var "node"] «lfht.clear_flag»), (.assign "node" (.var "_t5")), (.loop (block [(.call (some "_t6") ["node"] [.var "node"] «lfht.is_end»), (.ifte (.var "_t6") (block [(.assign "next" (.null)), (.assign "node" (.var "next")), (.brk)]) (.skip)), (.ifte (.bin .gt (.pload (.fieldAddr (.var "node") "reverse_hash")) (.var "reverse_hash")) (block [(.assign "next" (.null)), (.assign "node" (.var "next")), (.brk)]) (.skip)), (.prim (some "_t7") .uload [.fieldAddr (.var "node") "next", .cst "CMM_CONSUME" (1)]), (.assign "next" (.var "_t7")), (.call (some "_t8") ["node"] [.var "node"] «lfht.clear_flag»), (.ifte (.bin .eq (.var "node") (.var "_t8")) (.skip) (.prim none (.ext "abort") [])), (.call (some "_t9") ["node"] [.var "next"] «lfht.is_removed»), (.ifte (.un .lnot (.var "_t9")) (block [(.call (some "_t10") ["node"] [.var "next"] «lfht.is_bucket»), (.assign "_t11" (.un .lnot (.un .lnot (.un .lnot (.var "_t10")))))]) (.assign "_t11" (.lit 0))), (.ifte (.bin .land (.var "_t11") (.bin .eq (.pload (.fieldAddr (.var "node") "reverse_hash")) (.var "reverse_hash"))) (block [(.prim (some "_t12") (.ext "match") [.var "node", .var "key"]), (.assign "_t13" (.un .lnot (.un .lnot (.var "_t12"))))]) (.assign "_t13" (.lit 0))), (.ifte (.var "_t13") (.brk) (.skip)), (.call (some "_t14") ["node"] [.var "next"] «lfht.clear_flag»), (.assign "node" (.var "_t14"))])), (.ifte (.un .lnot (.var "node")) (.assign "_t17" (.lit 1)) (block [(.prim (some "_t15") .uload [.fieldAddr (.var "node") "next", .cst "CMM_RELAXED" (0)]), (.call (some "_t16") ["node"] [.var "_t15"] «lfht.is_bucket»), (.assign "_t17" (.un .lnot (.un .lnot (.un .lnot (.var "_t16")))))])), (.ifte (.var "_t17") (.skip) (.prim none (.ext "abort") [])), (.assign "_t18" (.var "node")), (.pstore (.fieldAddr (.var "iter") "node") (.var "_t18")), (.assign "_t19" (.var "next")), (.pstore (.fieldAddr (.var "iter") "next") (.var "_t19"))]
def «lfht.cds_lfht_lookup.params» : List String := ["ht", "hash", "match", "key", "iter"]

/-- `cds_lfht_next` (src/rculfhash.c) -/
def «lfht.cds_lfht_next» : Stmt :=
  block [(.call (some "_t1") ["node"] [.pload (.fieldAddr (.var "iter") "next")] «lfht.clear_flag»), (.assign "node" (.var "_t1")), (.loop (block [(.call (some "_t2") ["node"] [.var "node"] «lfht.is_end»), (.ifte (.var "_t2") (block [(.assign "next" (.null)), (.assign "node" (.var "next")), (.brk)]) (.skip)), (.prim (some "_t3") .uload [.fieldAddr (.var "node") "next", .cst "CMM_CONSUME" (1)]), (.assign "next" (.var "_t3")), (.call (some "_t4") ["node"] [.var "next"] «lfht.is_removed»), (.ifte (.un .lnot (.var "_t4")) (block [(.call (some "_t5") ["node"] [.var "next"] «lfht.is_bucket»), (.assign "_t6" (.un .lnot (.un .lnot (.un .lnot (.var "_t5")))))]) (.assign "_t6" (.lit 0))), (.ifte (.var "_t6") (.brk) (.skip)), (.call (some "_t7") ["node"] [.var "next"] «lfht.clear_flag»), (.assign "node" (.var "_t7"))])), (.ifte (.un .lnot (.var "node")) (.assign "_t10" (.lit 1)) (block [(.prim (some "_t8") .uload [.fieldAddr (.var "node") "next", .cst "CMM_RELAXED" (0)]), (.call (some "_t9") ["node"] [.var "_t8"] «lfht.is_bucket»), (.assign "_t10" (.un .lnot (.un .lnot (.un .lnot (.var "_t9")))))])), (.ifte (.var "_t10") (.skip) (.prim none (.ext "abort") [])), (.assign "_t11" (.var "node")), (.pstore (.fieldAddr (.var "iter") "node") (.var "_t11")), (.assign "_t12" (.var "next")), (.pstore (.fieldAddr (.var "iter") "next") (.var "_t12"))]
def «lfht.cds_lfht_next.params» : List String := ["ht", "iter"]

/-- `cds_lfht_first` (src/rculfhash.c) -/
def «lfht.cds_lfht_first» : Stmt :=
  block [(.call (some "_t1") ["ht", "index"] [.var "ht", .lit 0] «lfht.bucket_at»), (.prim (some "_t2") .uload [.fieldAddr (.var "_t1") "next", .cst "CMM_CONSUME" (1)]), (.assign "_t3" (.var "_t2")), (.pstore (.fieldAddr (.var "iter") "next") (.var "_t3")), (.call none ["ht", "iter"] [.var "ht", .var "iter"] «lfht.cds_lfht_next»)]
def «lfht.cds_lfht_first.params» : List String := ["ht", "iter"]

/-- `cds_lfht_add` (src/rculfhash.c) -/
def «lfht.cds_lfht_add» : Stmt :=
  block [(.prim (some "_t1") (.ext "bit_reverse_ulong") [.var "hash"]), (.assign "_t2" (.var "_t1")), (.pstore (.fieldAddr (.var "node") "reverse_hash") (.var "_t2")), (.prim (some "_t3") .uload [.fieldAddr (.var "ht") "size", .cst "CMM_ACQUIRE" (2)]), (.assign "size" (.var "_t3")), (.call none ["ht", "hash", "match", "key", "size", "node", "unique_ret", "bucket_flag"] [.var "ht", .var "hash", .null, .null, .var "size", .var "node", .null, .lit 0] «lfht._cds_lfht_add»), (.prim none (.ext "ht_count_add") [.var "ht", .var "size", .var "hash"])]
def «lfht.cds_lfht_add.params» : List String := ["ht", "hash", "node"]

/-- `cds_lfht_add_unique` (src/rculfhash.c) -/
def «lfht.cds_lfht_add_unique» : Stmt :=
  block [(.prim (some "_t1") (.ext "bit_reverse_ulong") [.var "hash"]), (.assign "_t2" (.var "_t1")), (.pstore (.fieldAddr (.var "node") "reverse_hash") (.var "_t2")), (.prim (some "_t3") .uload [.fieldAddr (.var "ht") "size", .cst "CMM_ACQUIRE" (2)]), (.assign "size" (.var "_t3")), (.call none ["ht", "hash", "match", "key", "size", "node", "unique_ret", "bucket_flag"] [.var "ht", .var "hash", .var "match", .var "key", .var "size", .var "node", .addrGlob "&iter", .lit 0] «lfht._cds_lfht_add»), (.ifte (.bin .eq (.pload (.fieldAddr (.addrGlob "&iter") "node")) (.var "node")) (.prim none (.ext "ht_count_add") [.var "ht", .var "size", .var "hash"]) (.skip)), (.ret (some (.pload (.fieldAddr (.addrGlob "&iter") "node"))))]
def «lfht.cds_lfht_add_unique.params» : List String := ["ht", "hash", "match", "key", "node"]

/-- `cds_lfht_add_replace` (src/rculfhash.c) -/
def «lfht.cds_lfht_add_replace» : Stmt :=
  block [(.prim (some "_t1") (.ext "bit_reverse_ulong") [.var "hash"]), (.assign "_t2" (.var "_t1")), (.pstore (.fieldAddr (.var "node") "reverse_hash") (.var "_t2")), (.prim (some "_t3") .uload [.fieldAddr (.var "ht") "size", .cst "CMM_ACQUIRE" (2)]), (.assign "size" (.var "_t3")), (.loop (block [(.call none ["ht", "hash", "match", "key", "size", "node", "unique_ret", "bucket_flag"] [.var "ht", .var "hash", .var "match", .var "key", .var "size", .var "node", .addrGlob "&iter", .lit 0] «lfht._cds_lfht_add»), (.ifte (.bin .eq (.pload (.fieldAddr (.addrGlob "&iter") "node")) (.var "node")) (block [(.prim none (.ext "ht_count_add") [.var "ht", .var "size", .var "hash"]), (.ret (some (.null)))]) (.skip)), (.call (some "_t4") ["ht", "size", "old_node", "old_next", "new_node"] [.var "ht", .var "size", .pload (.fieldAddr (.addrGlob "&iter") "node"), .pload (.fieldAddr (.addrGlob "&iter") "next"), .var "node"] «lfht._cds_lfht_replace»), (.ifte (.un .lnot (.var "_t4")) (.ret (some (.pload (.fieldAddr (.addrGlob "&iter") "node")))) (.skip))]))]
def «lfht.cds_lfht_add_replace.params» : List String := ["ht", "hash", "match", "key", "node"]

/-- `cds_lfht_replace` (src/rculfhash.c) -/
def «lfht.cds_lfht_replace» : Stmt :=
  block [(.prim (some "_t1") (.ext "bit_reverse_ulong") [.var "hash"]), (.assign "_t2" (.var "_t1")), (.pstore (.fieldAddr (.var "new_node") "reverse_hash") (.var "_t2")), (.ifte (.un .lnot (.pload (.fieldAddr (.var "old_iter") "node"))) (.ret (some (.un .neg (.cst "ENOENT" (2))))) (.skip)), (.ifte (.bin .ne (.pload (.fieldAddr (.pload (.fieldAddr (.var "old_iter") "node")) "reverse_hash")) (.pload (.fieldAddr (.var "new_node") "reverse_hash"))) (.ret (some (.un .neg (.cst "EINVAL" (22))))) (.skip)), (.prim (some "_t3") (.ext "match") [.pload (.fieldAddr (.var "old_iter") "node"), .var "key"]), (.ifte (.un .lnot (.var "_t3")) (.ret (some (.un .neg (.cst "EINVAL" (22))))) (.skip)), (.prim (some "_t4") .uload [.fieldAddr (.var "ht") "size", .cst "CMM_ACQUIRE" (2)]), (.assign "size" (.var "_t4")), (.call (some "_t5") ["ht", "size", "old_node", "old_next", "new_node"] [.var "ht", .var "size", .pload (.fieldAddr (.var "old_iter") "node"), .pload (.fieldAddr (.var "old_iter") "next"), .var "new_node"] «lfht._cds_lfht_replace»), (.ret (some (.var "_t5")))]
def «lfht.cds_lfht_replace.params» : List String := ["ht", "old_iter", "hash", "match", "key", "new_node"]

/-- `cds_lfht_del` (src/rculfhash.c) -/
def «lfht.cds_lfht_del» : Stmt :=
  block [(.prim (some "_t1") .uload [.fieldAddr (.var "ht") "size", .cst "CMM_ACQUIRE" (2)]), (.assign "size" (.var "_t1")), (.call (some "_t2") ["ht", "size", "node"] [.var "ht", .var "size", .var "node"] «lfht._cds_lfht_del»), (.assign "ret" (.var "_t2")), (.ifte (.un .lnot (.var "ret")) (block [(.prim (some "_t3") (.ext "bit_reverse_ulong") [.pload (.fieldAddr (.var "node") "reverse_hash")]), (.assign "hash" (.var "_t3")), (.prim none (.ext "ht_count_del") [.var "ht", .var "size", .var "hash"])]) (.skip)), (.ret (some (.var "ret")))]
def «lfht.cds_lfht_del.params» : List String := ["ht", "node"]

/-- `cds_lfht_is_node_deleted` (src/rculfhash.c) -/
def «lfht.cds_lfht_is_node_deleted» : Stmt :=
  block [(.prim (some "_t1") .uload [.fieldAddr (.var "node") "next", .cst "CMM_RELAXED" (0)]), (.call (some "_t2") ["node"] [.var "_t1"] «lfht.is_removed»), (.ret (some (.var "_t2")))]
def «lfht.cds_lfht_is_node_deleted.params» : List String := ["node"]

/-- `urcu_poll_worker_cb` (src/urcu-poll-impl.h) -/
def «poll.urcu_poll_worker_cb» : Stmt :=
  block [(.prim none (.ext "mutex_lock") [.fieldAddr (.addrGlob "poll_worker_gp_state") "lock"]), (.assign "_t1" (.pload (.fieldAddr (.fieldAddr (.addrGlob "poll_worker_gp_state") "current_state") "grace_period_id"))), (.pstore (.fieldAddr (.fieldAddr (.addrGlob "poll_worker_gp_state") "current_state") "grace_period_id") (.bin .add (.var "_t1") (.lit 1))), (.ifte (.bin .ge (.bin .sub (.pload (.fieldAddr (.fieldAddr (.addrGlob "poll_worker_gp_state") "latest_target") "grace_period_id")) (.pload (.fieldAddr (.fieldAddr (.addrGlob "poll_worker_gp_state") "current_state") "grace_period_id"))) (.lit 0)) (.prim none (.ext "call_rcu") [.fieldAddr (.addrGlob "poll_worker_gp_state") "rcu_head", .addrGlob "urcu_poll_worker_cb"]) (block [(.assign "_t2" (.lit 0)), (.pstore (.fieldAddr (.addrGlob "poll_worker_gp_state") "active") (.var "_t2"))])), (.prim none (.ext "mutex_unlock") [.fieldAddr (.addrGlob "poll_worker_gp_state") "lock"])]
def «poll.urcu_poll_worker_cb.params» : List String := ["head"]

/-- `start_poll_synchronize_rcu` (src/urcu-poll-impl.h) -/
def «poll.start_poll_synchronize_rcu» : Stmt :=
  block [(.assign "was_active" (.lit 0)), (.prim none (.ext "mutex_lock") [.fieldAddr (.addrGlob "poll_worker_gp_state") "lock"]), (.assign "_t1" (.pload (.fieldAddr (.fieldAddr (.addrGlob "poll_worker_gp_state") "current_state") "grace_period_id"))), (.pstore (.fieldAddr (.addrGlob "&new_target_gp_state") "grace_period_id") (.var "_t1")), (.assign "was_active" (.pload (.fieldAddr (.addrGlob "poll_worker_gp_state") "active"))), (.ifte (.un .lnot (.var "was_active")) (block [(.assign "_t2" (.lit 1)), (.pstore (.fieldAddr (.addrGlob "poll_worker_gp_state") "active") (.var "_t2"))]) (block [(.assign "_t3" (.pload (.fieldAddr (.addrGlob "&new_target_gp_state") "grace_period_id"))), (.pstore (.fieldAddr (.addrGlob "&new_target_gp_state") "grace_period_id") (.bin .add (.var "_t3") (.lit 1)))])), (.assign "_t4" (.pload (.fieldAddr (.addrGlob "&new_target_gp_state") "grace_period_id"))), (.pstore (.fieldAddr (.fieldAddr (.addrGlob "poll_worker_gp_state") "latest_target") "grace_period_id") (.var "_t4")), (.ifte (.un .lnot (.var "was_active")) (.prim none (.ext "call_rcu") [.fieldAddr (.addrGlob "poll_worker_gp_state") "rcu_head", .addrGlob "urcu_poll_worker_cb"]) (.skip)), (.prim none (.ext "mutex_unlock") [.fieldAddr (.addrGlob "poll_worker_gp_state") "lock"]), (.ret (some (.addrGlob "&new_target_gp_state")))]
def «poll.start_poll_synchronize_rcu.params» : List String := []

/-- `poll_state_synchronize_rcu` (src/urcu-poll-impl.h) -/
def «poll.poll_state_synchronize_rcu» : Stmt :=
  block [(.assign "target_gp_reached" (.lit 0)), (.prim none (.ext "mutex_lock") [.fieldAddr (.addrGlob "poll_worker_gp_state") "lock"]), (.ifte (.bin .lt (.bin .sub (.pload (.fieldAddr (.var "target_gp_state") "grace_period_id")) (.pload (.fieldAddr (.fieldAddr (.addrGlob "poll_worker_gp_state") "current_state") "grace_period_id"))) (.lit 0)) (.assign "target_gp_reached" (.lit 1)) (.skip)), (.prim none (.ext "mutex_unlock") [.fieldAddr (.addrGlob "poll_worker_gp_state") "lock"]), (.ret (some (.var "target_gp_reached")))]
def «poll.poll_state_synchronize_rcu.params» : List String := ["target_gp_state"]

/-- `smp_mb_master` (src/urcu-bp.c) -/
def «bp.smp_mb_master» : Stmt :=
  .ifte (.pload (.addrGlob "urcu_bp_has_sys_membarrier")) (block [(.prim (some "_t1") (.ext "membarrier") [.cst "MEMBARRIER_CMD_PRIVATE_EXPEDITED" (8), .lit 0]), (.ifte (.var "_t1") (block [(.prim (some "_t2") (.ext "errno") []), (.prim none (.ext "urcu_die") [.var "_t2"])]) (.skip))]) (.prim none .mb [])
def «bp.smp_mb_master.params» : List String := []

/-- `urcu_bp_reader_state` (include/urcu/static/urcu-bp.h) -/
def «urcu_bp_reader_state» : Stmt :=
  block [(.ifte (.bin .eq (.var "ctr") (.null)) (.ret (some (.cst "URCU_BP_READER_INACTIVE" (2)))) (.skip)), (.prim (some "_t1") .uload [.var "ctr", .cst "CMM_RELAXED" (0)]), (.assign "v" (.var "_t1")), (.ifte (.un .lnot (.bin .band (.var "v") (.cst "URCU_BP_GP_CTR_NEST_MASK" (4294967295)))) (.ret (some (.cst "URCU_BP_READER_INACTIVE" (2)))) (.skip)), (.ifte (.un .lnot (.bin .band (.bin .bxor (.var "v") (.pload (.fieldAddr (.addrGlob "urcu_bp_gp") "ctr"))) (.cst "URCU_BP_GP_CTR_PHASE" (4294967296)))) (.ret (some (.cst "URCU_BP_READER_ACTIVE_CURRENT" (0)))) (.skip)), (.ret (some (.cst "URCU_BP_READER_ACTIVE_OLD" (1))))]
def «urcu_bp_reader_state.params» : List String := ["ctr", "group"]

/-- `wait_for_readers` (src/urcu-bp.c) -/
def «bp.wait_for_readers» : Stmt :=
  block [(.assign "wait_loops" (.lit 0)), (.loop (block [(.ifte (.bin .lt (.var "wait_loops") (.cst "bp.RCU_QS_ACTIVE_ATTEMPTS" (100))) (block [(.assign "_t1" (.var "wait_loops")), (.assign "wait_loops" (.bin .add (.var "wait_loops") (.lit 1)))]) (.skip)), (.prim (some "_t2") (.ext "cds_list_for_each_entry_safe.first") [.var "input_readers"]), (.loop (block [(.assign "index" (.var "_t2")), (.ifte (.var "index") (.skip) (.brk)), (.prim (some "_t2") (.ext "cds_list_for_each_entry_safe.next") ([.var "input_readers"] ++ [.var "index"])), (.assign "tmp" (.var "_t2")), (.call (some "_t3") ["ctr", "group"] [.fieldAddr (.var "index") "ctr", .var "group"] «urcu_bp_reader_state»), (.assign "_t4" (.var "_t3")), (.loop (block [(.ifte (.bin .eq (.var "_t4") (.cst "URCU_BP_READER_ACTIVE_CURRENT" (0))) (block [(.ifte (.var "cur_snap_readers") (block [(.prim none (.ext "cds_list_move") [.fieldAddr (.var "index") "node", .var "cur_snap_readers"]), (.brk)]) (.skip)), (.prim none (.ext "cds_list_move") [.fieldAddr (.var "index") "node", .var "qsreaders"]), (.brk)]) (.ifte (.bin .eq (.var "_t4") (.cst "URCU_BP_READER_INACTIVE" (2))) (block [(.prim none (.ext "cds_list_move") [.fieldAddr (.var "index") "node", .var "qsreaders"]), (.brk)]) (.ifte (.bin .eq (.var "_t4") (.cst "URCU_BP_READER_ACTIVE_OLD" (1))) (.brk) (.skip)))), (.brk)]))])), (.prim (some "_t5") (.ext "cds_list_empty") [.var "input_readers"]), (.ifte (.var "_t5") (.brk) (block [(.prim none (.ext "mutex_unlock") [.addrGlob "rcu_registry_lock"]), (.ifte (.bin .ge (.var "wait_loops") (.cst "bp.RCU_QS_ACTIVE_ATTEMPTS" (100))) (.prim none (.ext "poll") [.null, .lit 0, .cst "bp.RCU_SLEEP_DELAY_MS" (10)]) (.prim none .relax [])), (.prim none (.ext "mutex_lock") [.addrGlob "rcu_registry_lock"])]))]))]
def «bp.wait_for_readers.params» : List String := ["input_readers", "cur_snap_readers", "qsreaders", "group"]

/-- `urcu_bp_synchronize_rcu` (src/urcu-bp.c) -/
def «bp.urcu_bp_synchronize_rcu» : Stmt :=
  block [(.assign "_goto_out" (.lit 0)), (.prim (some "_t1") (.ext "sigfillset") [.addrGlob "&newmask"]), (.assign "ret" (.var "_t1")), (.prim (some "_t2") (.ext "pthread_sigmask") [.cst "SIG_BLOCK" (0), .addrGlob "&newmask", .addrGlob "&oldmask"]), (.assign "ret" (.var "_t2")), (.prim none (.ext "mutex_lock") [.addrGlob "rcu_gp_lock"]), (.prim none (.ext "mutex_lock") [.addrGlob "rcu_registry_lock"]), (.prim (some "_t3") (.ext "cds_list_empty") [.addrGlob "registry"]), (.ifte (.var "_t3") (.assign "_goto_out" (.lit 1)) (.skip)), (.ifte (.var "_goto_out") (.skip) (block [(.call none [] [] «bp.smp_mb_master»), (.call none ["input_readers", "cur_snap_readers", "qsreaders", "group"] [.addrGlob "registry", .addrGlob "&cur_snap_readers", .addrGlob "&qsreaders", .addrGlob "&acquire_group"] «bp.wait_for_readers»), (.prim none .mb []), (.prim none .ustore [.fieldAddr (.addrGlob "urcu_bp_gp") "ctr", .bin .bxor (.pload (.fieldAddr (.addrGlob "urcu_bp_gp") "ctr")) (.cst "URCU_BP_GP_CTR_PHASE" (4294967296)), .cst "CMM_RELAXED" (0)]), (.prim none .mb []), (.call none ["input_readers", "cur_snap_readers", "qsreaders", "group"] [.addrGlob "&cur_snap_readers", .null, .addrGlob "&qsreaders", .addrGlob "&acquire_group"] «bp.wait_for_readers»), (.prim none (.ext "cds_list_splice") [.addrGlob "&qsreaders", .addrGlob "registry"]), (.call none [] [] «bp.smp_mb_master»)])), (.assign "_goto_out" (.lit 0)), (.prim none (.ext "mutex_unlock") [.addrGlob "rcu_registry_lock"]), (.prim none (.ext "mutex_unlock") [.addrGlob "rcu_gp_lock"]), (.prim (some "_t4") (.ext "pthread_sigmask") [.cst "SIG_SETMASK" (2), .addrGlob "&oldmask", .null]), (.assign "ret" (.var "_t4"))]
def «bp.urcu_bp_synchronize_rcu.params» : List String := []

/-- `urcu_bp_sys_membarrier_status` (src/urcu-bp.c) -/
def «bp.urcu_bp_sys_membarrier_status» : Stmt :=
  block [(.ifte (.un .lnot (.var "available")) (.ret none) (.skip)), (.assign "_t1" (.lit 1)), (.pstore (.addrGlob "urcu_bp_has_sys_membarrier") (.var "_t1"))]
def «bp.urcu_bp_sys_membarrier_status.params» : List String := ["available"]

/-- `urcu_bp_sys_membarrier_init` (src/urcu-bp.c) -/
def «bp.urcu_bp_sys_membarrier_init» : Stmt :=
  block [(.assign "available" (.lit 0)), (.prim (some "_t1") (.ext "membarrier") [.cst "MEMBARRIER_CMD_QUERY" (0), .lit 0]), (.assign "mask" (.var "_t1")), (.ifte (.bin .ge (.var "mask") (.lit 0)) (.ifte (.bin .band (.var "mask") (.cst "MEMBARRIER_CMD_PRIVATE_EXPEDITED" (8))) (block [(.prim (some "_t2") (.ext "membarrier") [.cst "MEMBARRIER_CMD_REGISTER_PRIVATE_EXPEDITED" (16), .lit 0]), (.ifte (.var "_t2") (block [(.prim (some "_t3") (.ext "errno") []), (.prim none (.ext "urcu_die") [.var "_t3"])]) (.skip)), (.assign "available" (.lit 1))]) (.skip)) (.skip)), (.call none ["available"] [.var "available"] «bp.urcu_bp_sys_membarrier_status»)]
def «bp.urcu_bp_sys_membarrier_init.params» : List String := []

/-- `_urcu_bp_init` (src/urcu-bp.c) -/
def «bp._urcu_bp_init» : Stmt :=
  block [(.prim none (.ext "mutex_lock") [.addrGlob "init_lock"]), (.assign "_t1" (.pload (.addrGlob "urcu_bp_refcount"))), (.pstore (.addrGlob "urcu_bp_refcount") (.bin .add (.var "_t1") (.lit 1))), (.ifte (.un .lnot (.var "_t1")) (block [(.prim (some "_t2") (.ext "pthread_key_create") [.addrGlob "urcu_bp_key", .addrGlob "urcu_bp_thread_exit_notifier"]), (.assign "ret" (.var "_t2")), (.ifte (.var "ret") (.prim none (.ext "abort") []) (.skip)), (.call none [] [] «bp.urcu_bp_sys_membarrier_init»), (.assign "_t3" (.lit 1)), (.pstore (.addrGlob "initialized") (.var "_t3"))]) (.skip)), (.prim none (.ext "mutex_unlock") [.addrGlob "init_lock"])]
def «bp._urcu_bp_init.params» : List String := []

/-- `chunk_allocation_size` (src/urcu-bp.c) -/
def «bp.chunk_allocation_size» : Stmt :=
  .ret (some (.bin .add (.bin .mul (.var "capacity") (.cst "SIZEOF_struct_urcu_bp_reader" (256))) (.cst "SIZEOF_struct_registry_chunk" (128))))
def «bp.chunk_allocation_size.params» : List String := ["capacity"]

/-- `mremap_wrapper` (src/urcu-bp.c) -/
def «bp.mremap_wrapper» : Stmt :=
  .ret (some (.cst "MAP_FAILED" (-1)))
def «bp.mremap_wrapper.params» : List String := ["old_address", "old_size", "new_size", "flags"]

/-- `expand_arena` (src/urcu-bp.c) -/
def «bp.expand_arena» : Stmt :=
  block [(.prim (some "_t1") (.ext "cds_list_empty") [.fieldAddr (.var "arena") "chunk_list"]), (.ifte (.var "_t1") (block [(.call (some "_t2") ["capacity"] [.cst "bp.INIT_READER_COUNT" (8)] «bp.chunk_allocation_size»), (.assign "new_chunk_size_bytes" (.var "_t2")), (.prim (some "_t3") (.ext "mmap") [.null, .var "new_chunk_size_bytes", .bin .bor (.cst "PROT_READ" (1)) (.cst "PROT_WRITE" (2)), .bin .bor (.cst "bp.MAP_ANONYMOUS" (32)) (.cst "MAP_PRIVATE" (2)), .lit (-1), .lit 0]), (.assign "new_chunk" (.var "_t3")), (.ifte (.bin .eq (.var "new_chunk") (.cst "MAP_FAILED" (-1))) (.prim none (.ext "abort") []) (.skip)), (.prim none (.ext "memset") [.var "new_chunk", .lit 0, .var "new_chunk_size_bytes"]), (.assign "_t4" (.cst "bp.INIT_READER_COUNT" (8))), (.pstore (.fieldAddr (.var "new_chunk") "capacity") (.var "_t4")), (.prim none (.ext "cds_list_add_tail") [.fieldAddr (.var "new_chunk") "node", .fieldAddr (.var "arena") "chunk_list"]), (.ret none)]) (.skip)), (.assign "last_chunk" (.parent (.pload (.fieldAddr (.fieldAddr (.var "arena") "chunk_list") "prev")) "node")), (.call (some "_t5") ["capacity"] [.pload (.fieldAddr (.var "last_chunk") "capacity")] «bp.chunk_allocation_size»), (.assign "old_chunk_size_bytes" (.var "_t5")), (.assign "new_capacity" (.bin .shl (.pload (.fieldAddr (.var "last_chunk") "capacity")) (.lit 1))), (.call (some "_t6") ["capacity"] [.var "new_capacity"] «bp.chunk_allocation_size»), (.assign "new_chunk_size_bytes" (.var "_t6")), (.call (some "_t7") ["old_address", "old_size", "new_size", "flags"] [.var "last_chunk", .var "old_chunk_size_bytes", .var "new_chunk_size_bytes", .lit 0] «bp.mremap_wrapper»), (.assign "new_chunk" (.var "_t7")), (.ifte (.bin .ne (.var "new_chunk") (.cst "MAP_FAILED" (-1))) (block [(.prim none (.ext "assert") [.bin .eq (.var "new_chunk") (.var "last_chunk")]), (.prim none (.ext "memset") [.bin .add (.var "last_chunk") (.var "old_chunk_size_bytes"), .lit 0, .bin .sub (.var "new_chunk_size_bytes") (.var "old_chunk_size_bytes")]), (.assign "_t8" (.var "new_capacity")), (.pstore (.fieldAddr (.var "last_chunk") "capacity") (.var "_t8")), (.ret none)]) (.skip)), (.prim (some "_t9") (.ext "mmap") [.null, .var "new_chunk_size_bytes", .bin .bor (.cst "PROT_READ" (1)) (.cst "PROT_WRITE" (2)), .bin .bor (.cst "bp.MAP_ANONYMOUS" (32)) (.cst "MAP_PRIVATE" (2)), .lit (-1), .lit 0]), (.assign "new_chunk" (.var "_t9")), (.ifte (.bin .eq (.var "new_chunk") (.cst "MAP_FAILED" (-1))) (.prim none (.ext "abort") []) (.skip)), (.prim none (.ext "memset") [.var "new_chunk", .lit 0, .var "new_chunk_size_bytes"]), (.assign "_t10" (.var "new_capacity")), (.pstore (.fieldAddr (.var "new_chunk") "capacity") (.var "_t10")), (.prim none (.ext "cds_list_add_tail") [.fieldAddr (.var "new_chunk") "node", .fieldAddr (.var "arena") "chunk_list"])]
def «bp.expand_arena.params» : List String := ["arena"]

/-- `arena_alloc` (src/urcu-bp.c) -/
def «bp.arena_alloc» : Stmt :=
  block [(.assign "_goto_retry" (.lit 0)), (.assign "expand_done" (.lit 0)), (.assign "_goto_retry" (.lit 0)), (.prim (some "_t1") (.ext "cds_list_for_each_entry.first") [.fieldAddr (.var "arena") "chunk_list"]), (.loop (block [(.assign "chunk" (.var "_t1")), (.ifte (.var "chunk") (.skip) (.brk)), (.prim (some "_t1") (.ext "cds_list_for_each_entry.next") ([.fieldAddr (.var "arena") "chunk_list"] ++ [.var "chunk"])), (.ifte (.bin .eq (.pload (.fieldAddr (.var "chunk") "used")) (.pload (.fieldAddr (.var "chunk") "capacity"))) (.cont) (.skip)), (.assign "spot_idx" (.lit 0)), (.loop (.ifte (.bin .lt (.var "spot_idx") (.pload (.fieldAddr (.var "chunk") "capacity"))) (block [(.ifte (.un .lnot (.pload (.fieldAddr (.index (.fieldAddr (.var "chunk") "readers") (.var "spot_idx")) "alloc"))) (block [(.assign "_t2" (.lit 1)), (.pstore (.fieldAddr (.index (.fieldAddr (.var "chunk") "readers") (.var "spot_idx")) "alloc") (.var "_t2")), (.assign "_t3" (.pload (.fieldAddr (.var "chunk") "used"))), (.pstore (.fieldAddr (.var "chunk") "used") (.bin .add (.var "_t3") (.lit 1))), (.ret (some (.index (.fieldAddr (.var "chunk") "readers") (.var "spot_idx"))))]) (.skip)), (.assign "_t4" (.var "spot_idx")), (.assign "spot_idx" (.bin .add (.var "spot_idx") (.lit 1)))]) (.brk)))])), (.ifte (.un .lnot (.var "expand_done")) (block [(.call none ["arena"] [.var "arena"] «bp.expand_arena»), (.assign "expand_done" (.lit 1)), (.assign "_goto_retry" (.lit 1))]) (.skip)), (.ifte (.var "_goto_retry") (.skip) (.ret (some (.null))))]
def «bp.arena_alloc.params» : List String := ["arena"]

/-- `add_thread` (src/urcu-bp.c) -/
def «bp.add_thread» : Stmt :=
  block [(.call (some "_t1") ["arena"] [.addrGlob "registry_arena"] «bp.arena_alloc»), (.assign "rcu_reader_reg" (.var "_t1")), (.ifte (.un .lnot (.var "rcu_reader_reg")) (.prim none (.ext "abort") []) (.skip)), (.prim (some "_t2") (.ext "pthread_setspecific") [.pload (.addrGlob "urcu_bp_key"), .var "rcu_reader_reg"]), (.assign "ret" (.var "_t2")), (.ifte (.var "ret") (.prim none (.ext "abort") []) (.skip)), (.prim (some "_t3") (.ext "pthread_self") []), (.assign "_t4" (.var "_t3")), (.pstore (.fieldAddr (.var "rcu_reader_reg") "tid") (.var "_t4")), (.prim none (.ext "cds_list_add") [.fieldAddr (.var "rcu_reader_reg") "node", .addrGlob "registry"]), (.assign "_t5" (.var "rcu_reader_reg")), (.pstore (.addrTls "urcu_bp_reader") (.var "_t5"))]
def «bp.add_thread.params» : List String := []

/-- `urcu_bp_register` (src/urcu-bp.c) -/
def «bp.urcu_bp_register» : Stmt :=
  block [(.assign "_goto_end" (.lit 0)), (.prim (some "_t1") (.ext "sigfillset") [.addrGlob "&newmask"]), (.assign "ret" (.var "_t1")), (.ifte (.var "ret") (.prim none (.ext "abort") []) (.skip)), (.prim (some "_t2") (.ext "pthread_sigmask") [.cst "SIG_BLOCK" (0), .addrGlob "&newmask", .addrGlob "&oldmask"]), (.assign "ret" (.var "_t2")), (.ifte (.var "ret") (.prim none (.ext "abort") []) (.skip)), (.ifte (.pload (.addrTls "urcu_bp_reader")) (.assign "_goto_end" (.lit 1)) (.skip)), (.ifte (.var "_goto_end") (.skip) (block [(.call none [] [] «bp._urcu_bp_init»), (.prim none (.ext "mutex_lock") [.addrGlob "rcu_registry_lock"]), (.call none [] [] «bp.add_thread»), (.prim none (.ext "mutex_unlock") [.addrGlob "rcu_registry_lock"])])), (.assign "_goto_end" (.lit 0)), (.prim (some "_t3") (.ext "pthread_sigmask") [.cst "SIG_SETMASK" (2), .addrGlob "&oldmask", .null]), (.assign "ret" (.var "_t3")), (.ifte (.var "ret") (.prim none (.ext "abort") []) (.skip))]
def «bp.urcu_bp_register.params» : List String := []

/-- `cleanup_thread` (src/urcu-bp.c) -/
def «bp.cleanup_thread» : Stmt :=
  block [(.assign "_t1" (.lit 0)), (.pstore (.fieldAddr (.var "rcu_reader_reg") "ctr") (.var "_t1")), (.prim none (.ext "cds_list_del") [.fieldAddr (.var "rcu_reader_reg") "node"]), (.assign "_t2" (.lit 0)), (.pstore (.fieldAddr (.var "rcu_reader_reg") "tid") (.var "_t2")), (.assign "_t3" (.lit 0)), (.pstore (.fieldAddr (.var "rcu_reader_reg") "alloc") (.var "_t3")), (.assign "_t4" (.pload (.fieldAddr (.var "chunk") "used"))), (.pstore (.fieldAddr (.var "chunk") "used") (.bin .sub (.var "_t4") (.lit 1)))]
def «bp.cleanup_thread.params» : List String := ["chunk", "rcu_reader_reg"]

/-- `find_chunk` (src/urcu-bp.c) -/
def «bp.find_chunk» : Stmt :=
  block [(.prim (some "_t1") (.ext "cds_list_for_each_entry.first") [.fieldAddr (.addrGlob "registry_arena") "chunk_list"]), (.loop (block [(.assign "chunk" (.var "_t1")), (.ifte (.var "chunk") (.skip) (.brk)), (.prim (some "_t1") (.ext "cds_list_for_each_entry.next") ([.fieldAddr (.addrGlob "registry_arena") "chunk_list"] ++ [.var "chunk"])), (.ifte (.bin .lt (.var "rcu_reader_reg") (.index (.fieldAddr (.var "chunk") "readers") (.lit 0))) (.cont) (.skip)), (.ifte (.bin .ge (.var "rcu_reader_reg") (.index (.fieldAddr (.var "chunk") "readers") (.pload (.fieldAddr (.var "chunk") "capacity")))) (.cont) (.skip)), (.ret (some (.var "chunk")))])), (.ret (some (.null)))]
def «bp.find_chunk.params» : List String := ["rcu_reader_reg"]

/-- `remove_thread` (src/urcu-bp.c) -/
def «bp.remove_thread» : Stmt :=
  block [(.call (some "_t1") ["rcu_reader_reg"] [.var "rcu_reader_reg"] «bp.find_chunk»), (.call none ["chunk", "rcu_reader_reg"] [.var "_t1", .var "rcu_reader_reg"] «bp.cleanup_thread»), (.assign "_t2" (.null)), (.pstore (.addrTls "urcu_bp_reader") (.var "_t2"))]
def «bp.remove_thread.params» : List String := ["rcu_reader_reg"]

/-- `urcu_bp_exit` (src/urcu-bp.c) -/
def «bp.urcu_bp_exit» : Stmt :=
  block [(.prim none (.ext "mutex_lock") [.addrGlob "init_lock"]), (.assign "_t1" (.bin .sub (.pload (.addrGlob "urcu_bp_refcount")) (.lit 1))), (.pstore (.addrGlob "urcu_bp_refcount") (.var "_t1")), (.ifte (.un .lnot (.var "_t1")) (block [(.prim (some "_t2") (.ext "cds_list_for_each_entry_safe.first") [.fieldAddr (.addrGlob "registry_arena") "chunk_list"]), (.loop (block [(.assign "chunk" (.var "_t2")), (.ifte (.var "chunk") (.skip) (.brk)), (.prim (some "_t2") (.ext "cds_list_for_each_entry_safe.next") ([.fieldAddr (.addrGlob "registry_arena") "chunk_list"] ++ [.var "chunk"])), (.assign "tmp" (.var "_t2")), (.call (some "_t3") ["capacity"] [.pload (.fieldAddr (.var "chunk") "capacity")] «bp.chunk_allocation_size»), (.prim none (.ext "munmap") [.var "chunk", .var "_t3"])])), (.prim none (.ext "CDS_INIT_LIST_HEAD") [.fieldAddr (.addrGlob "registry_arena") "chunk_list"]), (.prim (some "_t4") (.ext "pthread_key_delete") [.pload (.addrGlob "urcu_bp_key")]), (.assign "ret" (.var "_t4")), (.ifte (.var "ret") (.prim none (.ext "abort") []) (.skip))]) (.skip)), (.prim none (.ext "mutex_unlock") [.addrGlob "init_lock"])]
def «bp.urcu_bp_exit.params» : List String := []

/-- `urcu_bp_unregister` (src/urcu-bp.c) -/
def «bp.urcu_bp_unregister» : Stmt :=
  block [(.prim (some "_t1") (.ext "sigfillset") [.addrGlob "&newmask"]), (.assign "ret" (.var "_t1")), (.ifte (.var "ret") (.prim none (.ext "abort") []) (.skip)), (.prim (some "_t2") (.ext "pthread_sigmask") [.cst "SIG_BLOCK" (0), .addrGlob "&newmask", .addrGlob "&oldmask"]), (.assign "ret" (.var "_t2")), (.ifte (.var "ret") (.prim none (.ext "abort") []) (.skip)), (.prim none (.ext "mutex_lock") [.addrGlob "rcu_registry_lock"]), (.call none ["rcu_reader_reg"] [.var "rcu_reader_reg"] «bp.remove_thread»), (.prim none (.ext "mutex_unlock") [.addrGlob "rcu_registry_lock"]), (.call none [] [] «bp.urcu_bp_exit»), (.prim (some "_t3") (.ext "pthread_sigmask") [.cst "SIG_SETMASK" (2), .addrGlob "&oldmask", .null]), (.assign "ret" (.var "_t3")), (.ifte (.var "ret") (.prim none (.ext "abort") []) (.skip))]
def «bp.urcu_bp_unregister.params» : List String := ["rcu_reader_reg"]

/-- `urcu_bp_prune_registry` (src/urcu-bp.c) -/
def «bp.urcu_bp_prune_registry» : Stmt :=
  block [(.prim (some "_t1") (.ext "cds_list_for_each_entry.first") [.fieldAddr (.addrGlob "registry_arena") "chunk_list"]), (.loop (block [(.assign "chunk" (.var "_t1")), (.ifte (.var "chunk") (.skip) (.brk)), (.prim (some "_t1") (.ext "cds_list_for_each_entry.next") ([.fieldAddr (.addrGlob "registry_arena") "chunk_list"] ++ [.var "chunk"])), (.assign "spot_idx" (.lit 0)), (.assign "_forbrk1" (.lit 0)), (.loop (.ifte (.bin .lt (.var "spot_idx") (.pload (.fieldAddr (.var "chunk") "capacity"))) (block [(.loop (block [(.assign "reader" (.index (.fieldAddr (.var "chunk") "readers") (.var "spot_idx"))), (.ifte (.un .lnot (.pload (.fieldAddr (.var "reader") "alloc"))) (.brk) (.skip)), (.prim (some "_t2") (.ext "pthread_self") []), (.ifte (.bin .eq (.pload (.fieldAddr (.var "reader") "tid")) (.var "_t2")) (.brk) (.skip)), (.call none ["chunk", "rcu_reader_reg"] [.var "chunk", .var "reader"] «bp.cleanup_thread»), (.brk)])), (.ifte (.var "_forbrk1") (.brk) (.skip)), (.assign "_t3" (.var "spot_idx")), (.assign "spot_idx" (.bin .add (.var "spot_idx") (.lit 1)))]) (.brk)))]))]
def «bp.urcu_bp_prune_registry.params» : List String := []

/-- `urcu_bp_before_fork` (src/urcu-bp.c) -/
def «bp.urcu_bp_before_fork» : Stmt :=
  block [(.prim (some "_t1") (.ext "sigfillset") [.addrGlob "&newmask"]), (.assign "ret" (.var "_t1")), (.prim (some "_t2") (.ext "pthread_sigmask") [.cst "SIG_BLOCK" (0), .addrGlob "&newmask", .addrGlob "&oldmask"]), (.assign "ret" (.var "_t2")), (.prim none (.ext "mutex_lock") [.addrGlob "rcu_gp_lock"]), (.prim none (.ext "mutex_lock") [.addrGlob "rcu_registry_lock"]), (.assign "_t3" (.pload (.addrGlob "&oldmask"))), (.pstore (.addrGlob "saved_fork_signal_mask") (.var "_t3"))]
def «bp.urcu_bp_before_fork.params» : List String := []

/-- `urcu_bp_after_fork_parent` (src/urcu-bp.c) -/
def «bp.urcu_bp_after_fork_parent» : Stmt :=
  block [(.assign "_t1" (.pload (.addrGlob "saved_fork_signal_mask"))), (.pstore (.addrGlob "&oldmask") (.var "_t1")), (.prim none (.ext "mutex_unlock") [.addrGlob "rcu_registry_lock"]), (.prim none (.ext "mutex_unlock") [.addrGlob "rcu_gp_lock"]), (.prim (some "_t2") (.ext "pthread_sigmask") [.cst "SIG_SETMASK" (2), .addrGlob "&oldmask", .null]), (.assign "ret" (.var "_t2"))]
def «bp.urcu_bp_after_fork_parent.params» : List String := []

/-- `urcu_bp_after_fork_child` (src/urcu-bp.c) -/
def «bp.urcu_bp_after_fork_child» : Stmt :=
  block [(.call none [] [] «bp.urcu_bp_prune_registry»), (.assign "_t1" (.pload (.addrGlob "saved_fork_signal_mask"))), (.pstore (.addrGlob "&oldmask") (.var "_t1")), (.prim none (.ext "mutex_unlock") [.addrGlob "rcu_registry_lock"]), (.prim none (.ext "mutex_unlock") [.addrGlob "rcu_gp_lock"]), (.prim (some "_t2") (.ext "pthread_sigmask") [.cst "SIG_SETMASK" (2), .addrGlob "&oldmask", .null]), (.assign "ret" (.var "_t2"))]
def «bp.urcu_bp_after_fork_child.params» : List String := []

/-- functions the translator could not express in the IR subset (listed, never defaulted) -/
def untranslated : List String := []
def translated : List String := ["urcu_memb_smp_mb_slave", "_urcu_memb_read_lock_update", "_urcu_memb_read_lock", "urcu_common_wake_up_gp", "_urcu_memb_read_unlock_update_and_wakeup", "_urcu_memb_read_unlock", "_urcu_memb_read_ongoing", "_urcu_mb_read_lock_update", "_urcu_mb_read_lock", "_urcu_mb_read_unlock_update_and_wakeup", "_urcu_mb_read_unlock", "_urcu_mb_read_ongoing", "urcu_bp_smp_mb_slave", "_urcu_bp_read_lock_update", "_urcu_bp_read_lock", "_urcu_bp_read_unlock", "_urcu_bp_read_ongoing", "_urcu_qsbr_read_lock", "_urcu_qsbr_read_unlock", "_urcu_qsbr_read_ongoing", "urcu_qsbr_wake_up_gp", "_urcu_qsbr_quiescent_state_update_and_wakeup", "_urcu_qsbr_quiescent_state", "_urcu_qsbr_thread_offline", "_urcu_qsbr_thread_online", "___cds_wfs_end", "_cds_wfs_push", "___cds_wfs_node_sync_next", "___cds_wfs_pop", "___cds_wfs_pop_all", "_cds_wfs_empty", "___cds_lfs_empty_head", "_cds_lfs_push", "___cds_lfs_pop", "___cds_lfs_pop_all", "_cds_lfs_empty", "___cds_wfcq_append", "_cds_wfcq_enqueue", "_cds_wfcq_empty", "___cds_wfcq_busy_wait", "___cds_wfcq_node_sync_next", "_cds_wfcq_node_init_atomic", "___cds_wfcq_dequeue_with_state", "___cds_wfcq_splice", "_cds_lfq_enqueue_rcu", "make_dummy", "enqueue_dummy", "rcu_free_dummy", "_cds_lfq_dequeue_rcu", "_cds_lfs_push_rcu", "_cds_lfs_pop_rcu", "_cds_wfq_enqueue", "urcu_ref_get_safe", "urcu_ref_put", "urcu_ref_get_unless_zero", "urcu_wait_add", "urcu_move_waiters", "urcu_wait_set_state", "_cds_wfs_node_init", "urcu_wait_node_init", "urcu_adaptative_wake_up", "urcu_adaptative_busy_wait", "call_rcu_wait", "call_rcu_wake_up", "call_rcu_completion_wait", "call_rcu_completion_wake_up", "wake_call_rcu_thread", "_cds_wfcq_node_init", "_call_rcu", "futex_wait", "futex_wake_up", "wake_worker_thread", "wake_up_defer", "wait_defer", "rcu_defer_barrier_queue", "_rcu_defer_barrier_thread", "rcu_defer_barrier_thread", "_defer_rcu", "_cds_wfs_first", "___cds_wfs_next", "_cds_wfs_next_blocking", "urcu_wake_all_waiters", "set_thread_cpu_affinity", "_cds_wfcq_init", "___cds_wfcq_splice_blocking", "___cds_wfcq_first", "___cds_wfcq_first_blocking", "___cds_wfcq_next", "___cds_wfcq_next_blocking", "call_rcu_thread", "call_rcu", "call_rcu_lock", "urcu_ref_set", "call_rcu_unlock", "rcu_barrier", "_rcu_barrier_complete", "free_completion", "call_rcu_before_fork", "call_rcu_after_fork_parent", "call_rcu_data_init", "get_default_call_rcu_data", "cpus_array_len_reset", "get_call_rcu_thread", "_call_rcu_data_free", "call_rcu_after_fork_child", "call_rcu_data_free", "urcu_workqueue_create_worker", "urcu_workqueue_destroy_worker", "urcu_workqueue_destroy", "workqueue_thread", "urcu_workqueue_queue_work", "urcu_workqueue_create_completion", "urcu_ref_get", "urcu_workqueue_queue_completion", "urcu_workqueue_wait_completion", "urcu_workqueue_destroy_completion", "urcu_workqueue_flush_queued_work", "urcu_workqueue_pause_worker", "urcu_workqueue_resume_worker", "_urcu_workqueue_wait_complete", "memb.smp_mb_master", "memb.wait_gp", "urcu_common_reader_state", "memb.wait_for_readers", "memb.synchronize_rcu", "memb.rcu_sys_membarrier_status", "memb.rcu_sys_membarrier_init", "memb.rcu_init", "memb.rcu_register_thread", "memb.rcu_unregister_thread", "mb.smp_mb_master", "mb.wait_gp", "mb.wait_for_readers", "mb.synchronize_rcu", "qsbr.wait_gp", "urcu_qsbr_reader_state", "qsbr.wait_for_readers", "qsbr.urcu_qsbr_read_ongoing", "qsbr.urcu_qsbr_thread_offline", "qsbr.urcu_qsbr_thread_online", "qsbr.urcu_qsbr_synchronize_rcu", "qsbr.urcu_qsbr_register_thread", "qsbr.urcu_qsbr_unregister_thread", "lfht.bucket_at", "lfht.lookup_bucket", "lfht.is_bucket", "lfht.is_removed", "lfht.is_removal_owner", "lfht.clear_flag", "lfht.is_end", "lfht.flag_bucket", "lfht._cds_lfht_gc_bucket", "lfht.cds_lfht_next_duplicate", "lfht._cds_lfht_add", "lfht.flag_removal_owner", "lfht._cds_lfht_del", "lfht.flag_removed_or_removal_owner", "lfht._cds_lfht_replace", "lfht.cds_lfht_lookup", "lfht.cds_lfht_next", "lfht.cds_lfht_first", "lfht.cds_lfht_add", "lfht.cds_lfht_add_unique", "lfht.cds_lfht_add_replace", "lfht.cds_lfht_replace", "lfht.cds_lfht_del", "lfht.cds_lfht_is_node_deleted", "poll.urcu_poll_worker_cb", "poll.start_poll_synchronize_rcu", "poll.poll_state_synchronize_rcu", "bp.smp_mb_master", "urcu_bp_reader_state", "bp.wait_for_readers", "bp.urcu_bp_synchronize_rcu", "bp.urcu_bp_sys_membarrier_status", "bp.urcu_bp_sys_membarrier_init", "bp._urcu_bp_init", "bp.chunk_allocation_size", "bp.mremap_wrapper", "bp.expand_arena", "bp.arena_alloc", "bp.add_thread", "bp.urcu_bp_register", "bp.cleanup_thread", "bp.find_chunk", "bp.remove_thread", "bp.urcu_bp_exit", "bp.urcu_bp_unregister", "bp.urcu_bp_prune_registry", "bp.urcu_bp_before_fork", "bp.urcu_bp_after_fork_parent", "bp.urcu_bp_after_fork_child"]
end UrcuVerif.Gen.Src
