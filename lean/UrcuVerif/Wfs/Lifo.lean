/-!
# Sequential LIFO specification (`Spec.Lifo` of DESIGN §2 "Layering") used by C11 (wfstack, lfstack,
rculfstack).

`apply st op` is the sequential stack: the new content and the result the operation must return.
`Valid h st`: the history `h` (newest event first) of linearisation events, *with the results the
implementation computed from its concrete memory*, is a legal sequential LIFO history that ends
with content `st`.  Linearizability of the concurrent models is the invariant
`Valid s.hist s.abs` (each event is recorded by a step of the operation itself, hence inside the
operation's call/return interval).
-/
namespace UrcuVerif.Lifo

inductive Op
  | push (n : Nat)
  | pop
  | popAll
  | empty
  deriving DecidableEq, Repr

inductive Res
  | pushed (nonEmpty : Bool)               -- return value of push: "stack was non-empty"
  | popped (n : Option Nat) (last : Bool)  -- pop: node or NULL; CDS_WFS_STATE_LAST
  | all (l : List Nat)                     -- pop_all: the nodes, top first
  | isEmpty (b : Bool)
  deriving DecidableEq, Repr

def apply (st : List Nat) : Op → List Nat × Res
  | .push n => (n :: st, .pushed (!st.isEmpty))
  | .pop =>
    match st with
    | [] => ([], .popped none false)
    | n :: r => (r, .popped (some n) r.isEmpty)
  | .popAll => ([], .all st)
  | .empty => (st, .isEmpty st.isEmpty)

structure Ev where
  tid : Nat
  op : Op
  res : Res
  deriving DecidableEq, Repr

inductive Valid : List Ev → List Nat → Prop
  | nil : Valid [] []
  | cons {h st e st'} : Valid h st → e.res = (apply st e.op).2 → st' = (apply st e.op).1 → Valid (e :: h) st'

theorem Valid.step {h st} (v : Valid h st) (t : Nat) (op : Op) {st' : List Nat} {r : Res}
    (e : apply st op = (st', r)) : Valid (⟨t, op, r⟩ :: h) st' :=
  Valid.cons v (by simp [e]) (by simp [e])

/-- number of times node `n` was pushed -/
def pushes (n : Nat) : List Ev → Nat
  | [] => 0
  | e :: h => (if e.op = .push n then 1 else 0) + pushes n h

/-- number of times node `n` was handed out by a pop or inside a pop_all list -/
def outs (n : Nat) : List Ev → Nat
  | [] => 0
  | e :: h =>
    (match e.res with
     | .popped (some m) _ => if m = n then 1 else 0
     | .all l => l.count n
     | _ => 0) + outs n h

/-- **lose nothing, duplicate nothing** (sequential fact): in a valid LIFO history every push of
`n` is matched by exactly one hand-out of `n` or by one occurrence of `n` in the content. -/
theorem conservation {h st} (v : Valid h st) (n : Nat) : pushes n h = outs n h + st.count n := by
  induction v with
  | nil => simp [pushes, outs]
  | cons v hr hs ih =>
    rename_i h st e st'
    obtain ⟨t, op, res⟩ := e
    simp only at hr hs
    subst hr; subst hs
    cases op with
    | push m =>
      simp only [pushes, outs, apply, List.count_cons]
      by_cases e : m = n
      · subst e; simp; omega
      · have : ¬ (Op.push m = Op.push n) := by intro h'; injection h' with h'; exact e h'
        simp [this, e]; omega
    | pop =>
      cases st with
      | nil => simp [pushes, outs, apply] at *; omega
      | cons a r =>
        simp only [pushes, outs, apply, List.count_cons] at *
        by_cases e : a = n
        · subst e; simp at *; omega
        · simp [e] at *; omega
    | popAll =>
      simp only [pushes, outs, apply] at *
      simp; omega
    | empty =>
      simp only [pushes, outs, apply] at *
      simp; omega

/-- a pop hands out the most recently pushed node that has not been handed out yet (LIFO) -/
theorem pop_top {h st} (v : Valid h st) (t : Nat) (a : Nat) (r : List Nat) (e : st = a :: r) :
    Valid (⟨t, .pop, .popped (some a) r.isEmpty⟩ :: h) r := by
  subst e
  exact v.step t .pop rfl


/-- the content is a function of the history -/
theorem Valid.functional {h st st'} (v : Valid h st) (v' : Valid h st') : st = st' := by
  induction v generalizing st' with
  | nil => cases v'; rfl
  | cons v hr hs ih =>
    cases v' with
    | cons w hr' hs' => rw [hs, hs', ih w]

/-- one more linearisation event on top of a valid history: it is the sequential LIFO step -/
theorem Valid.inv_cons {h st st'} {e : Ev} (v : Valid h st) (v' : Valid (e :: h) st') :
    e.res = (apply st e.op).2 ∧ st' = (apply st e.op).1 := by
  cases v' with
  | cons w hr hs =>
    have := w.functional v
    subst this
    exact ⟨hr, hs⟩

end UrcuVerif.Lifo
