import UrcuVerif.Wfs.Thms
/-!
Necessity witness for C11 `no_aba`, wfstack (DESIGN §4 C11 `Neg/`): an explicit run, checked by
`decide` on the executable `step`, of the wfstack algorithm with two **unprotected** concurrent
poppers (no mutex, no read-side sections) and immediate node recycling (not a configuration of
the API: `Cfg.WF` excludes it) that ends in ABA corruption: the victim's cmpxchg succeeds on a
re-pushed top node and installs the stale `next` it read before, so the head points to a node
that was already handed out, that node is then delivered a second time, and the sequential stack
and the memory disagree.  The same schedule is rejected by each real scheme; under RCU it is the
grace-period guard that rejects it (the re-push needs `reclaim`, which needs `gpEnd`, which needs
the victim's section to have ended).
-/
namespace UrcuVerif.Wfs.Neg
open Lifo

def cfgU : Cfg := { scheme := .unprotected }
def cfgRcu : Cfg := { scheme := .rcu }
def cfgMutex : Cfg := { scheme := .mutex }
def cfgSingle : Cfg := { scheme := .single, consumer := 2 }

/-- `CDS_WFS_END` = 1; nodes A = 2, B = 3; threads 1 (victim popper) and 2 -/
def build : List Label :=
  [.pushBegin 2 3, .flush 2, .pushX 2, .pushSt 2, .flush 2,        -- push B
   .pushBegin 2 2, .flush 2, .pushX 2, .pushSt 2, .flush 2]        -- push A: stack = [A, B]

/-- T1: `head = A`, `A.next = B`, parked before its cmpxchg -/
def victimReads : List Label := [.popBegin 1 true, .popLd 1, .popSync 1]

def interference : List Label :=
  [.popBegin 2 true, .popLd 2, .popSync 2, .popCas 2,               -- T2 pops A
   .popBegin 2 true, .popLd 2, .popSync 2, .popCas 2,               -- T2 pops B
   .pushBegin 2 2, .flush 2, .pushX 2, .pushSt 2, .flush 2]         -- T2 re-pushes A at once

def witness : List Label := build ++ victimReads ++ interference ++ [.popCas 1]

/-- before the victim's cmpxchg everything is consistent: stack = [A], A.next = END, B handed out -/
theorem before_cas :
    (run cfgU init (build ++ victimReads ++ interference)).map
      (fun s => (s.head, s.abs, s.next 2, s.pc 1, s.nst 3)) = some (2, [2], 1, .popCas true 2 3, .free) := by
  decide

/-- **ABA corruption**: the victim's cmpxchg succeeds (head is A again) and installs the stale
`next` = B: the head now points to B, which was popped and handed out (free), while the sequential
stack is empty. -/
theorem unprotected_pop_aba :
    (run cfgU init witness).map (fun s => (s.head, s.abs, s.nst 3, s.ret 1)) =
      some (3, [], .free, .node 2 false) := by
  decide

theorem cfgU_not_wf : ¬ cfgU.WF := by simp [Cfg.WF, cfgU]

/-- the corrupted state violates the representation invariant that holds in every reachable
state of the real schemes (`head = END ↔ abstract stack empty`, `Thms.head_end_iff_nil`) -/
theorem corrupted_breaks_invariant :
    (run cfgU init witness).map (fun s => decide (s.head = END ↔ s.abs = [])) = some false := by
  decide

/-- **a node delivered twice**: the next pop hands out B again – one push of B, two hand-outs
(`Lifo.conservation` fails: the recorded history is not a LIFO history any more) -/
theorem node_delivered_twice :
    (run cfgU init (witness ++ [.popBegin 1 true, .popLd 1, .popSync 1, .popCas 1])).map
      (fun s => (s.ret 1, pushes 3 s.hist, outs 3 s.hist)) = some (.node 3 true, 1, 2) := by
  decide

/-- mutex scheme: thread 1 cannot even start popping without the lock -/
example : run cfgMutex init (build ++ victimReads) = none := by decide
/-- single consumer: thread 1 is not the consumer -/
example : run cfgSingle init (build ++ victimReads) = none := by decide
/-- RCU scheme: a popper outside a read-side section is not a run of the API -/
example : run cfgRcu init (build ++ victimReads) = none := by decide

/-- RCU scheme: the victim is inside a read-side section; A and B are retired by thread 2's pops
and can be recycled only after a grace period, which cannot end while the victim's section is
open: `gpEnd` is not enabled, so `reclaim` of A is not enabled, so A cannot be re-pushed. -/
def rcuPrefix : List Label :=
  build ++ [.rlock 1] ++ victimReads ++
  [.rlock 2, .popBegin 2 true, .popLd 2, .popSync 2, .popCas 2,
   .popBegin 2 true, .popLd 2, .popSync 2, .popCas 2, .runlock 2,
   .gpStart]

example : (run cfgRcu init rcuPrefix).map (fun s => (s.nst 2, s.nst 3, s.cs 1, s.gpCur, s.pc 1)) =
    some (.retired 3, .retired 4, 1, some 5, .popCas true 2 3) := by decide
example : run cfgRcu init (rcuPrefix ++ [.gpEnd]) = none := by decide
example : run cfgRcu init (rcuPrefix ++ [.reclaim 2]) = none := by decide
example : run cfgRcu init (rcuPrefix ++ [.pushBegin 2 2]) = none := by decide
/-- the victim's cmpxchg then fails harmlessly (head is END, not A) and it retries: NULL -/
example : (run cfgRcu init (rcuPrefix ++ [.popCas 1, .popLd 1])).map (fun s => (s.pc 1, s.ret 1, s.head, s.abs)) =
    some (.idle, .null, 1, []) := by decide
/-- once the victim has left its section the grace period ends and A may be recycled -/
example : (run cfgRcu init (rcuPrefix ++ [.popCas 1, .popLd 1, .runlock 1, .gpEnd, .reclaim 2,
    .pushBegin 2 2])).map (fun s => (s.nst 2, s.gpDone)) = some (.own 2, 5) := by decide

end UrcuVerif.Wfs.Neg
