import UrcuVerif.Machine.Upd
import UrcuVerif.Gen.Constants
import UrcuVerif.Wfs.Lifo
/-!
# C11/C17 — wait-free stack `cds_wfs` (`include/urcu/static/wfstack.h`) on x86-TSO

L2 model: one step per shared-memory access of the C text.

* `cds_wfs_node_init` + `cds_wfs_push`: `pushBegin` (plain store `node->next := NULL`, through the
  pusher's store buffer), `pushX` (`uatomic_xchg(&s->head, new)`: locked RMW, needs an empty
  buffer; **linearisation point**), `pushSt` (release store `node->next := old_head`, appended to
  the pusher's FIFO store buffer; reaches memory at an arbitrary later `flush`).
* `___cds_wfs_pop(state, blocking)`: `popLd` (load head; `END` ⇒ return NULL, linearisation of an
  empty pop), `popSync` (`___cds_wfs_node_sync_next`: load `head->node.next`; NULL ⇒ blocking: spin
  (stutter step), non-blocking: return WOULDBLOCK), `popCas` (`uatomic_cmpxchg(&s->head, head,
  next)`: success = linearisation point, `*state |= LAST` iff the new head is `END`; failure ⇒
  blocking: retry from `popLd`, non-blocking: WOULDBLOCK).
* `___cds_wfs_pop_all`: `popAll` = `uatomic_xchg(&s->head, CDS_WFS_END)`.
* `cds_wfs_first/next_{blocking,nonblocking}` over a popped head: `iterNext`.
* `cds_wfs_empty`: `empty`.
* synchronisation schemes (`Cfg.scheme`, the three techniques of the header's synchronisation
  table): `mutex` = the stack's internal mutex (`cds_wfs_pop_lock/unlock`, taken by
  `cds_wfs_pop_blocking`/`cds_wfs_pop_all_blocking`), `single` = one consumer thread, `rcu` =
  technique 1: any number of concurrent callers of `__cds_wfs_pop_*`, each inside an RCU read-side
  critical section (`rlock` … `runlock`), no mutex; `__cds_wfs_pop_all` needs no section; a node
  handed out by pop or by the iteration over a pop_all list is `retired` and may be recycled
  (`reclaim`: freed / re-initialised / re-pushed) only after a grace period that started after it
  was handed out.  The grace period is abstract (`Spec.GpSpec`, as in `Lfs/Model.lean`,
  `Poll/Model.lean`): `gpStart` stamps the logical clock, `gpEnd` is enabled only when every
  section that began before the start has ended.  `pop` needs `hasRight`, `pop_all`
  `hasRightAll`.  `unprotected` (pops by anybody, immediate recycling) is **not** a configuration
  of the API (`Cfg.WF` excludes it); it exists for the ABA witness `Wfs/Neg.lean`.
* nodes are `Nat` ≠ 0 (NULL), ≠ `END`; under `mutex` / `single` a node is recycled (`free`) as
  soon as its popper owns it: after a successful pop, or after the iterator of a popped list has
  read its `next`.

Ghost: abstract stack `abs`, per-thread popped list `priv`, node life cycle `nst`, history of
linearisation events `hist` with the results computed from concrete memory, logical clock,
section begin times `cs`, grace-period stamps `gpCur` / `gpDone`.
-/
namespace UrcuVerif.Wfs
open Lifo

/-- `CDS_WFS_END` regenerated from the source -/
def END : Nat := Gen.CDS_WFS_END

theorem END_ne_zero : END ≠ 0 := by decide

inductive Scheme | mutex | single | rcu | unprotected
  deriving DecidableEq, Repr

structure Cfg where
  scheme : Scheme
  consumer : Nat := 0
  n : Nat := 8           -- number of threads that may open read-side sections (bounds `gpEnd`'s guard)
  deriving Repr

/-- the configurations of the API (synchronisation techniques 1–3 of `urcu/wfstack.h`) -/
def Cfg.WF (c : Cfg) : Prop := c.scheme ≠ .unprotected

inductive Pc
  | idle
  | pushX (n : Nat)
  | pushSt (n o : Nat)
  | popLd (b : Bool)
  | popSync (b : Bool) (h : Nat)
  | popCas (b : Bool) (h nx : Nat)
  deriving DecidableEq, Repr

inductive NSt
  | free
  | own (t : Nat)
  | inStack
  | limbo (t : Nat)
  | retired (stamp : Nat)
  deriving DecidableEq, Repr

inductive Ret
  | void
  | flag (b : Bool)                -- push: "was non-empty"; empty(): "is empty"
  | node (n : Nat) (last : Bool)   -- pop: node + (state & CDS_WFS_STATE_LAST); next: node
  | null
  | wouldblock
  | head (h : Nat)                 -- pop_all: non-empty popped head
  deriving DecidableEq, Repr

structure State where
  head : Nat
  next : Nat → Nat                  -- memory copy of node.next
  buf  : Nat → List (Nat × Nat)     -- store buffer of thread t: (node, value) oldest first
  pc   : Nat → Pc
  lock : Option Nat
  cur  : Nat → Nat                  -- iterator of thread t over its popped list (END = none)
  ret  : Nat → Ret                  -- value returned by the thread's last completed operation
  abs  : List Nat                   -- ghost: abstract stack, top first
  priv : Nat → List Nat             -- ghost: remaining popped list of thread t
  nst  : Nat → NSt                  -- ghost: node life cycle
  hist : List Ev                    -- ghost: linearisation events, newest first
  clock : Nat                       -- ghost: logical clock
  cs    : Nat → Nat                 -- ghost: begin time of thread t's open read-side section (0 = none)
  gpCur : Option Nat                -- ghost: start time of the grace period in flight
  gpDone : Nat                      -- ghost: latest start time of a completed grace period

def init : State :=
  { head := END, next := fun _ => 0, buf := fun _ => [], pc := fun _ => .idle, lock := none,
    cur := fun _ => END, ret := fun _ => .void, abs := [], priv := fun _ => [],
    nst := fun _ => .free, hist := [], clock := 1, cs := fun _ => 0, gpCur := none, gpDone := 0 }

def isNode (n : Nat) : Prop := n ≠ 0 ∧ n ≠ END
instance (n : Nat) : Decidable (isNode n) := by unfold isNode; infer_instance

/-- newest buffered value for node `n` (store-to-load forwarding) -/
def bufVal : List (Nat × Nat) → Nat → Option Nat
  | [], _ => none
  | (a, v) :: rest, n =>
    match bufVal rest n with
    | some w => some w
    | none => if a = n then some v else none

/-- TSO load of `n.next` by thread `t` -/
def rd (s : State) (t n : Nat) : Nat :=
  match bufVal (s.buf t) n with
  | some v => v
  | none => s.next n

/-- the thread may call `__cds_wfs_pop*` (RCU scheme: it is inside a read-side section) -/
def hasRight (c : Cfg) (s : State) (t : Nat) : Prop :=
  (c.scheme = .mutex ∧ s.lock = some t) ∨ (c.scheme = .single ∧ t = c.consumer) ∨
  (c.scheme = .rcu ∧ s.cs t ≠ 0) ∨ c.scheme = .unprotected
instance (c s t) : Decidable (hasRight c s t) := by unfold hasRight; infer_instance

/-- the thread may call `__cds_wfs_pop_all` (no read-side section needed in the RCU scheme) -/
def hasRightAll (c : Cfg) (s : State) (t : Nat) : Prop :=
  (c.scheme = .mutex ∧ s.lock = some t) ∨ (c.scheme = .single ∧ t = c.consumer) ∨
  c.scheme = .rcu ∨ c.scheme = .unprotected
instance (c s t) : Decidable (hasRightAll c s t) := by unfold hasRightAll; infer_instance

/-- life-cycle state of a node its popper is done with: recycled at once, or – RCU scheme –
retired with the current time stamp until a later grace period has completed -/
def released (c : Cfg) (s : State) : NSt :=
  if c.scheme = .rcu then .retired s.clock else .free

inductive Label
  | pushBegin (t n : Nat)
  | pushX (t : Nat)
  | pushSt (t : Nat)
  | flush (t : Nat)
  | lock (t : Nat)
  | unlock (t : Nat)
  | rlock (t : Nat)
  | runlock (t : Nat)
  | gpStart
  | gpEnd
  | reclaim (n : Nat)
  | empty (t : Nat)
  | popBegin (t : Nat) (b : Bool)
  | popLd (t : Nat)
  | popSync (t : Nat)
  | popCas (t : Nat)
  | popAll (t : Nat)
  | iterNext (t : Nat) (b : Bool)
  deriving DecidableEq, Repr

/-- One step; `none` = not enabled. -/
def step (c : Cfg) (s : State) : Label → Option State
  | .pushBegin t n =>
    if s.pc t = .idle ∧ isNode n ∧ s.nst n = .free then
      some { s with nst := upd s.nst n (.own t), buf := upd s.buf t (s.buf t ++ [(n, 0)]),
                    pc := upd s.pc t (.pushX n) }
    else none
  | .pushX t =>
    match s.pc t with
    | .pushX n =>
      if s.buf t = [] then
        some { s with head := n, abs := n :: s.abs, nst := upd s.nst n .inStack,
                      pc := upd s.pc t (.pushSt n s.head),
                      hist := ⟨t, .push n, .pushed (s.head != END)⟩ :: s.hist }
      else none
    | _ => none
  | .pushSt t =>
    match s.pc t with
    | .pushSt n o =>
      some { s with buf := upd s.buf t (s.buf t ++ [(n, o)]), pc := upd s.pc t .idle,
                    ret := upd s.ret t (.flag (o != END)) }
    | _ => none
  | .flush t =>
    match s.buf t with
    | (n, v) :: rest => some { s with next := upd s.next n v, buf := upd s.buf t rest }
    | [] => none
  | .lock t =>
    if c.scheme = .mutex ∧ s.pc t = .idle ∧ s.lock = none ∧ s.buf t = [] then
      some { s with lock := some t }
    else none
  | .unlock t =>
    if c.scheme = .mutex ∧ s.pc t = .idle ∧ s.lock = some t ∧ s.buf t = [] then
      some { s with lock := none }
    else none
  | .rlock t =>
    if s.pc t = .idle ∧ t < c.n ∧ s.cs t = 0 then
      some { s with cs := upd s.cs t s.clock, clock := s.clock + 1 }
    else none
  | .runlock t =>
    if s.pc t = .idle ∧ s.cs t ≠ 0 then some { s with cs := upd s.cs t 0 } else none
  | .gpStart =>
    match s.gpCur with
    | none => some { s with gpCur := some s.clock, clock := s.clock + 1 }
    | some _ => none
  | .gpEnd =>
    match s.gpCur with
    | some a =>
      -- GpSpec: every section that began before the grace period started has ended
      if (∀ i, i < c.n → s.cs i ≠ 0 → a ≤ s.cs i) then
        some { s with gpCur := none, gpDone := max s.gpDone a }
      else none
    | none => none
  | .reclaim n =>
    match s.nst n with
    | .retired τ => if τ ≤ s.gpDone then some { s with nst := upd s.nst n .free } else none
    | _ => none
  | .empty t =>
    if s.pc t = .idle then
      some { s with ret := upd s.ret t (.flag (s.head == END)),
                    hist := ⟨t, .empty, .isEmpty (s.head == END)⟩ :: s.hist }
    else none
  | .popBegin t b =>
    if s.pc t = .idle ∧ hasRight c s t then some { s with pc := upd s.pc t (.popLd b) } else none
  | .popLd t =>
    match s.pc t with
    | .popLd b =>
      if s.head = END then
        some { s with pc := upd s.pc t .idle, ret := upd s.ret t .null,
                      hist := ⟨t, .pop, .popped none false⟩ :: s.hist }
      else some { s with pc := upd s.pc t (.popSync b s.head) }
    | _ => none
  | .popSync t =>
    match s.pc t with
    | .popSync b h =>
      if rd s t h = 0 then
        (if b then some s else some { s with pc := upd s.pc t .idle, ret := upd s.ret t .wouldblock })
      else some { s with pc := upd s.pc t (.popCas b h (rd s t h)) }
    | _ => none
  | .popCas t =>
    match s.pc t with
    | .popCas b h nx =>
      if s.buf t = [] then
        if s.head = h then
          some { s with head := nx, abs := s.abs.tail, nst := upd s.nst h (released c s),
                        clock := s.clock + 1,
                        pc := upd s.pc t .idle, ret := upd s.ret t (.node h (nx == END)),
                        hist := ⟨t, .pop, .popped (some h) (nx == END)⟩ :: s.hist }
        else if b then some { s with pc := upd s.pc t (.popLd b) }
        else some { s with pc := upd s.pc t .idle, ret := upd s.ret t .wouldblock }
      else none
    | _ => none
  | .popAll t =>
    if s.pc t = .idle ∧ hasRightAll c s t ∧ s.buf t = [] ∧ s.priv t = [] then
      some { s with head := END, abs := [], priv := upd s.priv t s.abs, cur := upd s.cur t s.head,
                    nst := fun a => if a ∈ s.abs then .limbo t else s.nst a,
                    ret := upd s.ret t (if s.head = END then .null else .head s.head),
                    hist := ⟨t, .popAll, .all s.abs⟩ :: s.hist }
    else none
  | .iterNext t b =>
    if s.pc t = .idle ∧ s.cur t ≠ END then
      if rd s t (s.cur t) = 0 then
        (if b then some s else some { s with ret := upd s.ret t .wouldblock })
      else
        some { s with cur := upd s.cur t (rd s t (s.cur t)), priv := upd s.priv t (s.priv t).tail,
                      nst := upd s.nst (s.cur t) (released c s), clock := s.clock + 1,
                      ret := upd s.ret t (if rd s t (s.cur t) = END then .null
                                          else .node (rd s t (s.cur t)) false) }
    else none

/-- replay of a label list (non-vacuity examples, driver, solo runs) -/
def run (c : Cfg) : State → List Label → Option State
  | s, [] => some s
  | s, l :: ls =>
    match step c s l with
    | none => none
    | some s' => run c s' ls

end UrcuVerif.Wfs
