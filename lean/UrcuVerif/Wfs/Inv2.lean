import UrcuVerif.Wfs.Inv
/-! Invariant of the wfstack model, continued: pop (cmpxchg), pop_all, iteration, read-side
sections, abstract grace period, reclamation; `inv_step`. -/
set_option linter.unusedVariables false
namespace UrcuVerif.Wfs
open Lifo

theorem inv_popCas_ok (c : Cfg) (wf : c.WF) {s : State} (h : Inv c s) (t b h0 nx)
    (hp : s.pc t = .popCas b h0 nx) (hb : s.buf t = []) (hhd : s.head = h0) :
    Inv c { s with head := nx, abs := s.abs.tail, nst := upd s.nst h0 (released c s),
                   clock := s.clock + 1,
                   pc := upd s.pc t .idle, ret := upd s.ret t (.node h0 (nx == END)),
                   hist := ⟨t, .pop, .popped (some h0) (nx == END)⟩ :: s.hist } := by
  obtain ⟨hc, hpc, hnd, hpnd, habs, hpriv, hpcX, hown, hpcSt, hbI, hbC, hbN, hpp, hpb, hbb, hr1, hr2, hr3, hret, hrnx, hcs, hgp, hh⟩ := h
  unfold Cfg.WF at wf
  have hR := hr3 t b h0 nx hp
  have hne : s.head ≠ END := by rw [hhd]; exact hR.2.1.1.2
  obtain ⟨b1, r, e1, hn1, hl1, hc1⟩ := chain_cons_inv hc hne
  have hnx : s.next h0 = nx := by
    rcases hR.2.2.2 with h1 | h1
    · exact h1
    · rw [hb] at h1; simp at h1
  have hb1 : b1 = nx := by
    rw [hhd] at hl1
    rcases hl1 with ⟨h1, h2⟩ | ⟨h1, _⟩
    · rw [← h1, hnx]
    · rw [hnx] at h1; exact absurd h1 hR.2.2.1
  subst hb1
  have hnd' : s.head ∉ r ∧ r.Nodup := by rw [e1] at hnd; simpa using hnd
  have hmem : ∀ a, a ∈ s.abs ↔ a = s.head ∨ a ∈ r := by intro a; rw [e1]; simp
  have hst0 : s.nst h0 = .inStack := (habs h0).1 (by rw [e1, hhd]; simp)
  -- any other thread inside a pop: RCU scheme, inside a section that began before now
  have hfact : ∀ u, hasRightP c s.lock s.cs u → u = t ∨ (c.scheme = .rcu ∧ s.cs u < s.clock) := by
    intro u hu
    by_cases hr : c.scheme = .rcu
    · exact Or.inr ⟨hr, (hcs u (hrP_cs hr hu)).1⟩
    · exact Or.inl (hrP_excl wf hr hu hR.1)
  constructor
  · rw [e1]; simp only [List.tail_cons]
    refine chain_congr hc1 ?_
    intro a ha b hl
    refine lnext_frame (s := s) rfl ?_ hl
    frame_tac
  · simple_frames
  case hist =>
    have e : (b1 == END) = r.isEmpty := by
      have := chain_nil_iff hc1
      cases h : r with
      | nil => simp [h] at this; simp [this]
      | cons a r => simp [h] at this; simp [this]
    rw [e1]; simp only [List.tail_cons]
    rw [← hhd]
    exact hh.step t .pop (by rw [e1]; simp [apply, e])
  case nodup => rw [e1]; exact hnd'.2
  all_goals (clear hh hc hpc hc1 hl1; subst hhd)
  all_goals (simp only [e1, List.tail_cons]; rw [e1] at hnd; clear e1)
  all_goals (first | assumption | skip)
  all_goals (simp only [upd, hasRight_eq, hasRightAll_eq, Prot, ProtP, released] at *)
  all_goals grind


/-- a thread leaves a pop attempt (or retries): only its pc / return value change -/
theorem inv_pop_leave (c : Cfg) (wf : c.WF) {s : State} (h : Inv c s) (t : Nat) (pc' : Pc) (r : Ret)
    (hp : (∃ b, s.pc t = .popLd b) ∨ (∃ b h0, s.pc t = .popSync b h0) ∨ (∃ b h0 nx, s.pc t = .popCas b h0 nx))
    (hpc' : pc' = .idle ∨ ∃ b, pc' = .popLd b) :
    Inv c { s with pc := upd s.pc t pc', ret := upd s.ret t r } := by
  obtain ⟨hc, hpc, hnd, hpnd, habs, hpriv, hpcX, hown, hpcSt, hbI, hbC, hbN, hpp, hpb, hbb, hr1, hr2, hr3, hret, hrnx, hcs, hgp, hh⟩ := h
  constructor
  · simple_frames
  · simple_frames
  rest_tac

theorem inv_popCas (c : Cfg) (wf : c.WF) {s s' : State} (h : Inv c s) (t)
    (st : step c s (.popCas t) = some s') : Inv c s' := by
  simp only [step] at st
  split at st
  · next b h0 nx hp =>
    split at st
    · next hb =>
      split at st
      · next hhd =>
        simp only [Option.some.injEq] at st; subst st
        exact inv_popCas_ok c wf h t b h0 nx hp hb hhd
      · split at st
        · simp only [Option.some.injEq] at st; subst st
          have := inv_pop_leave c wf h t (.popLd b) (s.ret t) (Or.inr (Or.inr ⟨_, _, _, hp⟩)) (Or.inr ⟨_, rfl⟩)
          have e : upd s.ret t (s.ret t) = s.ret := by funext j; simp only [upd]; split <;> simp_all
          rw [e] at this; exact this
        · simp only [Option.some.injEq] at st; subst st
          exact inv_pop_leave c wf h t .idle .wouldblock (Or.inr (Or.inr ⟨_, _, _, hp⟩)) (Or.inl rfl)
    · simp at st
  all_goals (first | (simp at st; done) | skip)

theorem inv_popAll (c : Cfg) (wf : c.WF) {s s' : State} (h : Inv c s) (t)
    (st : step c s (.popAll t) = some s') : Inv c s' := by
  obtain ⟨hc, hpc, hnd, hpnd, habs, hpriv, hpcX, hown, hpcSt, hbI, hbC, hbN, hpp, hpb, hbb, hr1, hr2, hr3, hret, hrnx, hcs, hgp, hh⟩ := h
  simp only [step] at st
  split at st
  · next g =>
    obtain ⟨g1, g2, g3, g4⟩ := g
    simp only [Option.some.injEq] at st; subst st
    unfold Cfg.WF at wf
    constructor
    · exact .nil
    · intro u
      by_cases e : u = t
      · subst e
        simp only [upd_same]
        refine chain_congr hc ?_
        intro a ha b hl
        refine lnext_frame (s := s) rfl ?_ hl
        frame_tac
      · simp only [upd, e, if_false]
        refine chain_congr (hpc u) ?_
        intro a ha b hl
        refine lnext_frame (s := s) rfl ?_ hl
        frame_tac
    case hist => exact hh.step t .popAll (by simp [apply])
    case priv_st =>
      intro t1 a
      have h1 := habs a
      have h2 := hpriv t1 a
      have h3 := hpriv t a
      by_cases e : t1 = t <;> by_cases m : a ∈ s.abs <;> simp only [upd, e, m, if_true, if_false] <;> grind
    all_goals (clear hh hc hpc)
    all_goals (first | assumption | skip)
    all_goals (simp only [upd, hasRight_eq, hasRightAll_eq, Prot, ProtP, hasRightP, hasRightAllP, released] at *)
    all_goals grind
  · simp at st

theorem inv_iterNext (c : Cfg) (wf : c.WF) {s s' : State} (h : Inv c s) (t b)
    (st : step c s (.iterNext t b) = some s') : Inv c s' := by
  simp only [step] at st
  split at st
  · next g =>
    obtain ⟨g1, g2⟩ := g
    split at st
    · split at st
      · simp only [Option.some.injEq] at st; subst st; exact h
      · simp only [Option.some.injEq] at st; subst st
        obtain ⟨hc, hpc, hnd, hpnd, habs, hpriv, hpcX, hown, hpcSt, hbI, hbC, hbN, hpp, hpb, hbb, hr1, hr2, hr3, hret, hrnx, hcs, hgp, hh⟩ := h
        constructor
        · simple_frames
        · simple_frames
        rest_tac
    · next hv =>
      simp only [Option.some.injEq] at st; subst st
      obtain ⟨hc, hpc, hnd, hpnd, habs, hpriv, hpcX, hown, hpcSt, hbI, hbC, hbN, hpp, hpb, hbb, hr1, hr2, hr3, hret, hrnx, hcs, hgp, hh⟩ := h
      unfold Cfg.WF at wf
      obtain ⟨b1, r, e1, hn1, hl1, hc1⟩ := chain_cons_inv (hpc t) g2
      have hrd := rd_cases s t (s.cur t)
      have hlim : s.nst (s.cur t) = .limbo t := (hpriv t _).1 (by rw [e1]; simp)
      have hnob : ∀ u v, (s.cur t, v) ∈ s.buf u → v = 0 := by
        intro u v hm
        apply Classical.byContradiction
        intro hv0
        have h1 := hbC u _ v hm hv0
        rcases hrd with h2 | ⟨h2, h3⟩
        · have h4 := hbC t _ _ h2 hv
          rw [hlim] at h4
          rcases h4.2.2 with h5 | ⟨w, h5, h6⟩
          · simp at h5
          · simp at h6; exact h5 h6.symm
        · rw [h2, h1.1] at hv; exact hv rfl
      have hmemv : rd s t (s.cur t) = s.next (s.cur t) := by
        rcases hrd with h2 | ⟨h2, _⟩
        · exact absurd (hnob t _ h2) hv
        · exact h2
      have hb1 : b1 = rd s t (s.cur t) := by
        rcases hl1 with ⟨h1, h2⟩ | ⟨h1, _⟩
        · rw [hmemv, h1]
        · rw [hmemv] at hv; exact absurd h1 hv
      subst hb1
      have hnd' : s.cur t ∉ r ∧ r.Nodup := by have := hpnd t; rw [e1] at this; simpa using this
      have hmem : ∀ a, a ∈ s.priv t ↔ a = s.cur t ∨ a ∈ r := by intro a; rw [e1]; simp
      constructor
      · simple_frames
      · intro u
        by_cases e : u = t
        · subst e
          simp only [upd_same, e1, List.tail_cons]
          refine chain_congr hc1 ?_
          intro a ha b hl
          refine lnext_frame (s := s) rfl ?_ hl
          frame_tac
        · simp only [upd, e, if_false]
          refine chain_congr (hpc u) ?_
          intro a ha b hl
          refine lnext_frame (s := s) rfl ?_ hl
          frame_tac
      all_goals (clear hc hpc hc1 hl1 hrd)
      all_goals (first | assumption | skip)
      all_goals (simp only [upd, hasRight_eq, hasRightAll_eq, Prot, ProtP, hasRightP, hasRightAllP, released] at *)
      all_goals grind
  · simp at st


theorem inv_rlock (c : Cfg) (wf : c.WF) {s s' : State} (h : Inv c s) (t)
    (st : step c s (.rlock t) = some s') : Inv c s' := by
  obtain ⟨hc, hpc, hnd, hpnd, habs, hpriv, hpcX, hown, hpcSt, hbI, hbC, hbN, hpp, hpb, hbb, hr1, hr2, hr3, hret, hrnx, hcs, hgp, hh⟩ := h
  simp only [step] at st
  split at st
  · next g =>
    simp only [Option.some.injEq] at st; subst st
    unfold Cfg.WF at wf
    constructor
    · simple_frames
    · simple_frames
    rest_tac_u
  · simp at st

theorem inv_runlock (c : Cfg) (wf : c.WF) {s s' : State} (h : Inv c s) (t)
    (st : step c s (.runlock t) = some s') : Inv c s' := by
  obtain ⟨hc, hpc, hnd, hpnd, habs, hpriv, hpcX, hown, hpcSt, hbI, hbC, hbN, hpp, hpb, hbb, hr1, hr2, hr3, hret, hrnx, hcs, hgp, hh⟩ := h
  simp only [step] at st
  split at st
  · next g =>
    simp only [Option.some.injEq] at st; subst st
    unfold Cfg.WF at wf
    constructor
    · simple_frames
    · simple_frames
    rest_tac_u
  · simp at st

theorem inv_gpStart (c : Cfg) (wf : c.WF) {s s' : State} (h : Inv c s)
    (st : step c s .gpStart = some s') : Inv c s' := by
  obtain ⟨hc, hpc, hnd, hpnd, habs, hpriv, hpcX, hown, hpcSt, hbI, hbC, hbN, hpp, hpb, hbb, hr1, hr2, hr3, hret, hrnx, hcs, hgp, hh⟩ := h
  simp only [step] at st
  split at st
  · next g =>
    simp only [Option.some.injEq] at st; subst st
    constructor
    · simple_frames
    · simple_frames
    rest_tac
  · simp at st

theorem inv_gpEnd (c : Cfg) (wf : c.WF) {s s' : State} (h : Inv c s)
    (st : step c s .gpEnd = some s') : Inv c s' := by
  obtain ⟨hc, hpc, hnd, hpnd, habs, hpriv, hpcX, hown, hpcSt, hbI, hbC, hbN, hpp, hpb, hbb, hr1, hr2, hr3, hret, hrnx, hcs, hgp, hh⟩ := h
  simp only [step] at st
  split at st
  · next a ha =>
    split at st
    · next g =>
      simp only [Option.some.injEq] at st; subst st
      have := hgp.2 a ha
      constructor
      · simple_frames
      · simple_frames
      rest_tac
    · simp at st
  · simp at st

/-- recycling: the node's grace period is over, hence no popper that could still reference it is
inside the section in which it loaded it -/
theorem inv_reclaim (c : Cfg) (wf : c.WF) {s s' : State} (h : Inv c s) (n)
    (st : step c s (.reclaim n) = some s') : Inv c s' := by
  obtain ⟨hc, hpc, hnd, hpnd, habs, hpriv, hpcX, hown, hpcSt, hbI, hbC, hbN, hpp, hpb, hbb, hr1, hr2, hr3, hret, hrnx, hcs, hgp, hh⟩ := h
  simp only [step] at st
  split at st
  · next τ hτ =>
    split at st
    · next g =>
      simp only [Option.some.injEq] at st; subst st
      unfold Cfg.WF at wf
      have hrcu := (hret n τ hτ).1
      constructor
      · simple_frames
      · simple_frames
      rest_tac_u
    · simp at st
  all_goals (first | (simp at st; done) | skip)

theorem inv_step (c : Cfg) (wf : c.WF) {s s' : State} {l : Label} (h : Inv c s)
    (st : step c s l = some s') : Inv c s' := by
  cases l with
  | pushBegin t n => exact inv_pushBegin c wf h t n st
  | pushX t => exact inv_pushX c wf h t st
  | pushSt t => exact inv_pushSt c wf h t st
  | flush t => exact inv_flush c wf h t st
  | lock t => exact inv_lock c wf h t st
  | unlock t => exact inv_unlock c wf h t st
  | rlock t => exact inv_rlock c wf h t st
  | runlock t => exact inv_runlock c wf h t st
  | gpStart => exact inv_gpStart c wf h st
  | gpEnd => exact inv_gpEnd c wf h st
  | reclaim n => exact inv_reclaim c wf h n st
  | empty t => exact inv_empty c wf h t st
  | popBegin t b => exact inv_popBegin c wf h t b st
  | popLd t => exact inv_popLd c wf h t st
  | popSync t => exact inv_popSync c wf h t st
  | popCas t => exact inv_popCas c wf h t st
  | popAll t => exact inv_popAll c wf h t st
  | iterNext t b => exact inv_iterNext c wf h t b st

theorem inv_reach (c : Cfg) (wf : c.WF) {s : State} (h : Reach c s) : Inv c s := by
  induction h with
  | init => exact inv_init c
  | step _ st ih => exact inv_step c wf ih st

theorem run_reach (c : Cfg) {s s' : State} (ls : List Label) (h : Reach c s)
    (hr : run c s ls = some s') : Reach c s' := by
  induction ls generalizing s with
  | nil => simp [run] at hr; subst hr; exact h
  | cons l ls ih =>
    simp only [run] at hr
    split at hr
    · simp at hr
    · next s1 hs => exact ih (Reach.step h hs) hr

end UrcuVerif.Wfs
