import UrcuVerif.Wfs.Inv2
/-! Consequences of the wfstack invariant used by `Props/C11.lean` and `Props/C17Stacks.lean`. -/
set_option linter.unusedVariables false
namespace UrcuVerif.Wfs
open Lifo

/-- the thread a label belongs to (`none`: environment steps of the abstract grace period) -/
def Label.tid : Label → Option Nat
  | .pushBegin t _ | .pushX t | .pushSt t | .flush t | .lock t | .unlock t | .rlock t | .runlock t
  | .empty t | .popBegin t _ | .popLd t | .popSync t | .popCas t | .popAll t | .iterNext t _ => some t
  | .gpStart | .gpEnd | .reclaim _ => none

/-- a step of another thread (including the flushing of another thread's store buffer) does not
touch this thread's pc, store buffer, return value, iterator -/
theorem step_frame (c : Cfg) {s s' : State} {l : Label} (st : step c s l = some s') (t : Nat)
    (ht : l.tid ≠ some t) :
    s'.pc t = s.pc t ∧ s'.buf t = s.buf t ∧ s'.ret t = s.ret t ∧ s'.cur t = s.cur t ∧
    s'.priv t = s.priv t := by
  cases l <;> simp only [Label.tid, ne_eq, Option.some.injEq, not_false_eq_true] at ht <;>
    simp only [step] at st <;>
    (repeat' split at st) <;>
    first
    | (simp at st; done)
    | (simp only [Option.some.injEq] at st; subst st; simp [upd, Ne.symm ht])
    | (simp only [Option.some.injEq] at st; subst st; simp [upd])

/-- every step is a stutter of the abstract stack or records exactly one linearisation event -/
theorem step_hist (c : Cfg) {s s' : State} {l : Label} (st : step c s l = some s') :
    (s'.hist = s.hist ∧ s'.abs = s.abs) ∨ ∃ e, s'.hist = e :: s.hist := by
  cases l <;> simp only [step] at st <;>
    (repeat' split at st) <;>
    first
    | (simp at st; done)
    | (simp only [Option.some.injEq] at st; subst st; simp)

/-- **refinement step**: a step of the concurrent model is a stutter or the sequential LIFO
operation of the recorded linearisation event, with the recorded (concrete) result -/
theorem step_refines (c : Cfg) (wf : c.WF) {s s' : State} {l : Label} (h : Reach c s)
    (st : step c s l = some s') :
    (s'.hist = s.hist ∧ s'.abs = s.abs) ∨
    ∃ e, s'.hist = e :: s.hist ∧ e.res = (apply s.abs e.op).2 ∧ s'.abs = (apply s.abs e.op).1 := by
  rcases step_hist c st with h1 | ⟨e, he⟩
  · exact Or.inl h1
  · right
    have v := (inv_reach c wf h).hist
    have v' := (inv_reach c wf (Reach.step h st)).hist
    rw [he] at v'
    exact ⟨e, he, v.inv_cons v'⟩

theorem head_end_iff_nil (c : Cfg) (wf : c.WF) {s : State} (h : Reach c s) : s.head = END ↔ s.abs = [] :=
  chain_nil_iff (inv_reach c wf h).chain


/-- **no ABA** (mutex / single consumer / concurrent poppers under RCU): when the popper's cmpxchg
is about to succeed (`head` is the node it loaded), the `next` value it read earlier is still the
node's successor: the abstract stack is `h :: l` and `nx` heads exactly `l`.  (RCU: the node
cannot have been recycled since the popper loaded it, `Inv.popR3` / `Prot`.) -/
theorem no_aba (c : Cfg) (wf : c.WF) {s : State} (h : Reach c s) (t : Nat) (b : Bool) (h0 nx : Nat)
    (hp : s.pc t = .popCas b h0 nx) (hb : s.buf t = []) (hhd : s.head = h0) :
    ∃ l, s.abs = h0 :: l ∧ Chain s nx l := by
  have I := inv_reach c wf h
  have hR := I.popR3 t b h0 nx hp
  have hne : s.head ≠ END := by rw [hhd]; exact hR.2.1.1.2
  obtain ⟨b1, r, e1, hn1, hl1, hc1⟩ := chain_cons_inv I.chain hne
  have hnx : s.next h0 = nx := by
    rcases hR.2.2.2 with h1 | h1
    · exact h1
    · rw [hb] at h1; simp at h1
  have hb1 : b1 = nx := by
    rw [hhd] at hl1
    rcases hl1 with ⟨h1, h2⟩ | ⟨h1, _⟩
    · rw [← h1, hnx]
    · rw [hnx] at h1; exact absurd h1 hR.2.2.1
  subst hb1
  exact ⟨r, hhd ▸ e1, hc1⟩

/-- the mechanism under RCU: a node a popper holds (it loaded `head = h0` inside its read-side
section) is never free nor being re-pushed while the popper still uses it -/
theorem rcu_protects (c : Cfg) (wf : c.WF) {s : State} (h : Reach c s) (t : Nat) (b : Bool) (h0 nx : Nat)
    (hp : s.pc t = .popCas b h0 nx ∨ s.pc t = .popSync b h0) :
    s.nst h0 ≠ .free ∧ (∀ u, s.nst h0 ≠ .own u) ∧ (c.scheme = .rcu → s.cs t ≠ 0) ∧
    (∀ τ, s.nst h0 = .retired τ → s.cs t < τ) := by
  have I := inv_reach c wf h
  unfold Cfg.WF at wf
  rcases hp with hp | hp
  · have := I.popR3 t b h0 nx hp
    simp only [Prot, ProtP, hasRight] at this
    grind
  · have := I.popR2 t b h0 hp
    simp only [Prot, ProtP, hasRight] at this
    grind

/-- the grace-period guard (GpSpec): a grace period ends only when every open read-side section –
of any thread – began after the grace period started -/
theorem gp_end_spec (c : Cfg) (wf : c.WF) {s s' : State} (h : Reach c s)
    (st : step c s .gpEnd = some s') :
    ∃ a, s.gpCur = some a ∧ s'.gpDone = max s.gpDone a ∧ ∀ t, s.cs t ≠ 0 → a ≤ s.cs t := by
  have I := inv_reach c wf h
  simp only [step] at st
  split at st
  · next a ha =>
    split at st
    · next g =>
      simp only [Option.some.injEq] at st; subst st
      exact ⟨a, ha, rfl, fun t ht => g t (I.cs_lt t ht).2.1 ht⟩
    · simp at st
  · simp at st

/-- **recycling only after a grace period**: a node handed out (retired) at time `τ` cannot be
recycled (freed, re-initialised, re-pushed) while a read-side section that began before `τ` is
still open -/
theorem no_recycle_in_section (c : Cfg) (wf : c.WF) {s : State} (h : Reach c s) (t n τ : Nat)
    (hcs : s.cs t ≠ 0) (hn : s.nst n = .retired τ) (hlt : s.cs t < τ) :
    step c s (.reclaim n) = none ∧ ∀ u, step c s (.pushBegin u n) = none := by
  have I := inv_reach c wf h
  have := (I.cs_lt t hcs).2.2
  refine ⟨?_, ?_⟩
  · simp only [step, hn]
    split
    · omega
    · rfl
  · intro u; simp [step, hn]

/-- a successful pop hands the node to its popper: recycled at once under mutex / single
consumer, retired with the current time stamp under RCU -/
theorem pop_release (c : Cfg) {s s' : State} (t : Nat) (b : Bool) (h0 nx : Nat)
    (hp : s.pc t = .popCas b h0 nx) (hhd : s.head = h0) (st : step c s (.popCas t) = some s') :
    s'.nst h0 = (if c.scheme = .rcu then .retired s.clock else .free) ∧ s.clock < s'.clock := by
  simp only [step, hp] at st
  split at st
  · simp only [hhd, if_true, Option.some.injEq] at st
    subst st
    simp [released]
  · simp at st

/-- a successful pop returns the abstract top; `CDS_WFS_STATE_LAST` is reported iff the stack
became empty -/
theorem pop_result (c : Cfg) (wf : c.WF) {s s' : State} (h : Reach c s) (t : Nat) (b : Bool) (h0 nx : Nat)
    (hp : s.pc t = .popCas b h0 nx) (hhd : s.head = h0) (st : step c s (.popCas t) = some s') :
    s.abs = h0 :: s'.abs ∧ s'.ret t = .node h0 (nx == END) ∧ ((nx == END) = true ↔ s'.abs = []) ∧
    s'.head = nx := by
  simp only [step, hp] at st
  split at st
  · next hb =>
    obtain ⟨l, e1, hc1⟩ := no_aba c wf h t b h0 nx hp hb hhd
    simp only [hhd, if_true, Option.some.injEq] at st
    subst st
    simp only [e1, List.tail_cons, upd_same, true_and]
    have := chain_nil_iff hc1
    simp [this]
  · simp at st

/-- **pop_all**: one `xchg`; the returned head is the start of a chain whose logical content is
exactly the abstract stack at that instant, top first; the stack is empty afterwards -/
theorem popAll_result (c : Cfg) (wf : c.WF) {s s' : State} (h : Reach c s) (t : Nat)
    (st : step c s (.popAll t) = some s') :
    s'.head = END ∧ s'.abs = [] ∧ s'.priv t = s.abs ∧ s'.cur t = s.head ∧
    Chain s' (s'.cur t) s.abs ∧
    s'.ret t = (if s.abs = [] then .null else .head s.head) := by
  have I' := inv_reach c wf (Reach.step h st)
  have hn := head_end_iff_nil c wf h
  have hpc := I'.pchain t
  simp only [step] at st
  split at st
  · simp only [Option.some.injEq] at st; subst st
    simp only [upd_same] at hpc
    refine ⟨rfl, rfl, by simp, by simp, by simpa using hpc, ?_⟩
    by_cases e : s.head = END
    · simp [e, hn.1 e]
    · simp [e, (not_congr hn).1 e]
  · simp at st

/-- **iteration is exact**: an iterator step that advances hands out the nodes of the popped
list in order (the first one is `cds_wfs_first` = the returned head) -/
theorem iter_exact (c : Cfg) (wf : c.WF) {s s' : State} (h : Reach c s) (t : Nat) (b : Bool)
    (st : step c s (.iterNext t b) = some s') (hadv : s'.cur t ≠ s.cur t) :
    ∃ r, s.priv t = s.cur t :: r ∧ s'.priv t = r ∧ Chain s' (s'.cur t) r ∧
      s'.ret t = (if r = [] then .null else .node (s'.cur t) false) := by
  have I := inv_reach c wf h
  have I' := inv_reach c wf (Reach.step h st)
  have hpc' := I'.pchain t
  simp only [step] at st
  split at st
  · next g =>
    obtain ⟨b1, r, e1, hn1, hl1, hc1⟩ := chain_cons_inv (I.pchain t) g.2
    split at st
    · split at st
      · simp only [Option.some.injEq] at st; subst st; exact absurd rfl hadv
      · simp only [Option.some.injEq] at st; subst st; exact absurd rfl hadv
    · simp only [Option.some.injEq] at st; subst st
      refine ⟨_, ?_, rfl, hpc', ?_⟩
      · simp [e1]
      · have := chain_nil_iff hpc'
        simp only [upd_same] at this ⊢
        by_cases e : rd s t (s.cur t) = END
        · simp [e, this.1 e]
        · simp [e, (not_congr this).1 e]
  · simp at st

/-- **iteration past an incomplete push**: if the iterator's current node has no visible `next`
yet, a push of that node is in flight (its pusher is between its `xchg` and its store, or the
store sits in the pusher's store buffer); the blocking variant keeps waiting (no progress, no
wrong answer), the non-blocking variant returns `CDS_WFS_WOULDBLOCK` and keeps its position. -/
theorem iter_incomplete (c : Cfg) (wf : c.WF) {s : State} (h : Reach c s) (t : Nat)
    (hp : s.pc t = .idle) (hcur : s.cur t ≠ END) (hrd : rd s t (s.cur t) = 0) :
    (∃ u b, PendC s u (s.cur t) b) ∧
    step c s (.iterNext t true) = some s ∧
    ∃ s', step c s (.iterNext t false) = some s' ∧ s'.ret t = .wouldblock ∧
      s'.cur t = s.cur t ∧ s'.priv t = s.priv t ∧ s'.abs = s.abs := by
  have I := inv_reach c wf h
  refine ⟨?_, by simp [step, hp, hcur, hrd], { s with ret := upd s.ret t .wouldblock },
    by simp [step, hp, hcur, hrd], by simp, rfl, rfl, rfl⟩
  obtain ⟨b1, r, e1, hn1, hl1, hc1⟩ := chain_cons_inv (I.pchain t) hcur
  rcases rd_cases s t (s.cur t) with h1 | ⟨h1, _⟩
  · rw [hrd] at h1
    have := I.bufInit t _ h1
    rw [hp] at this; simp at this
  · rw [hrd] at h1
    rcases hl1 with ⟨h2, h3⟩ | ⟨_, u, h3⟩
    · rw [← h1] at h2; exact absurd h2.symm h3
    · exact ⟨u, b1, h3⟩

/-- same for pop: `___cds_wfs_node_sync_next` sees NULL only while a push of the top node is in
flight; blocking pop waits, non-blocking pop returns WOULDBLOCK without touching the stack -/
theorem pop_incomplete (c : Cfg) (wf : c.WF) {s : State} (h : Reach c s) (t : Nat) (b : Bool) (h0 : Nat)
    (hp : s.pc t = .popSync b h0) (hrd : rd s t h0 = 0) :
    (∃ u o, PendC s u h0 o) ∧
    (b = true → step c s (.popSync t) = some s) ∧
    (b = false → ∃ s', step c s (.popSync t) = some s' ∧ s'.ret t = .wouldblock ∧ s'.pc t = .idle ∧
      s'.abs = s.abs ∧ s'.head = s.head) := by
  have I := inv_reach c wf h
  have hR := I.popR2 t b h0 hp
  refine ⟨?_, ?_, ?_⟩
  · -- h0 is in the abstract stack or in a popped list: it has a logical successor;
    -- or it was handed out: its `next` is set
    have : ∀ {hd l}, Chain s hd l → h0 ∈ l → ∃ b1, lnext s h0 b1 := by
      intro hd l hc
      induction hc with
      | nil => intro hm; simp at hm
      | cons hn hl _ ih =>
        intro hm
        simp only [List.mem_cons] at hm
        rcases hm with e | hm
        · subst e; exact ⟨_, hl⟩
        · exact ih hm
    have hP := hR.2
    simp only [Prot, ProtP] at hP
    have hsucc : ∃ b1, lnext s h0 b1 := by
      cases hst : s.nst h0 with
      | free => exact absurd hst hP.2.1
      | own u => exact absurd hst (hP.2.2.1 u)
      | inStack => exact this I.chain ((I.abs_st h0).2 hst)
      | limbo u => exact this (I.pchain u) ((I.priv_st u h0).2 hst)
      | retired τ =>
        exfalso
        have hnz := I.retired_nx h0 τ hst
        rcases rd_cases s t h0 with h1 | ⟨h1, _⟩
        · rw [hrd] at h1
          have := I.bufInit t _ h1
          rw [hp] at this; simp at this
        · rw [hrd] at h1; exact hnz h1.symm
    obtain ⟨b1, hl1⟩ := hsucc
    rcases rd_cases s t h0 with h1 | ⟨h1, _⟩
    · rw [hrd] at h1
      have := I.bufInit t _ h1
      rw [hp] at this; simp at this
    · rw [hrd] at h1
      rcases hl1 with ⟨h2, h3⟩ | ⟨_, u, h3⟩
      · rw [← h1] at h2; exact absurd h2.symm h3
      · exact ⟨u, b1, h3⟩
  · intro hb; subst hb; simp [step, hp, hrd]
  · intro hb; subst hb
    exact ⟨{ s with pc := upd s.pc t .idle, ret := upd s.ret t .wouldblock },
      by simp [step, hp, hrd], by simp, by simp, rfl, rfl⟩

/-- push: the value returned ("stack was non-empty") is computed from the head value replaced
by the `xchg`, which is `END` iff the abstract stack is empty at that instant -/
theorem push_result (c : Cfg) (wf : c.WF) {s s' : State} (h : Reach c s) (t n : Nat)
    (hp : s.pc t = .pushX n) (st : step c s (.pushX t) = some s') :
    s'.abs = n :: s.abs ∧ s'.pc t = .pushSt n s.head ∧ ((s.head != END) = !s.abs.isEmpty) := by
  have I := inv_reach c wf h
  simp only [step, hp] at st
  split at st
  · simp only [Option.some.injEq] at st; subst st
    exact ⟨rfl, by simp, head_end_iff I.chain⟩
  · simp at st

theorem push_ret (c : Cfg) {s s' : State} (t n o : Nat)
    (hp : s.pc t = .pushSt n o) (st : step c s (.pushSt t) = some s') :
    s'.ret t = .flag (o != END) ∧ s'.pc t = .idle := by
  simp only [step, hp, Option.some.injEq] at st
  subst st
  simp

theorem empty_result (c : Cfg) (wf : c.WF) {s s' : State} (h : Reach c s) (t : Nat)
    (st : step c s (.empty t) = some s') : s'.ret t = .flag s.abs.isEmpty ∧ s'.abs = s.abs := by
  have I := inv_reach c wf h
  simp only [step] at st
  split at st
  · simp only [Option.some.injEq] at st; subst st
    simp [head_end_iff' I.chain]
  · simp at st

/-- an empty pop (returns NULL) happens only on an empty abstract stack -/
theorem pop_null (c : Cfg) (wf : c.WF) {s s' : State} (h : Reach c s) (t : Nat) (b : Bool)
    (hp : s.pc t = .popLd b) (hh : s.head = END) (st : step c s (.popLd t) = some s') :
    s.abs = [] ∧ s'.ret t = .null ∧ s'.abs = [] := by
  have hn := (head_end_iff_nil c wf h).1 hh
  simp only [step, hp, hh, if_true, Option.some.injEq] at st
  subst st
  simp [hn]

end UrcuVerif.Wfs
