import UrcuVerif.Wfs.Inv2
/-! Consequences of the wfstack invariant used by `Props/C11.lean` and `Props/C17Stacks.lean`. -/
set_option linter.unusedVariables false
namespace UrcuVerif.Wfs
open Lifo

/-- the thread a label belongs to -/
def Label.tid : Label → Nat
  | .pushBegin t _ | .pushX t | .pushSt t | .flush t | .lock t | .unlock t | .empty t
  | .popBegin t _ | .popLd t | .popSync t | .popCas t | .popAll t | .iterNext t _ => t

/-- a step of another thread (including the flushing of another thread's store buffer) does not
touch this thread's pc, store buffer, return value, iterator -/
theorem step_frame (c : Cfg) {s s' : State} {l : Label} (st : step c s l = some s') (t : Nat)
    (ht : l.tid ≠ t) :
    s'.pc t = s.pc t ∧ s'.buf t = s.buf t ∧ s'.ret t = s.ret t ∧ s'.cur t = s.cur t ∧
    s'.priv t = s.priv t := by
  cases l <;> simp only [Label.tid] at ht <;> simp only [step] at st <;>
    (repeat' split at st) <;>
    first
    | (simp at st; done)
    | (simp only [Option.some.injEq] at st; subst st; simp [upd, Ne.symm ht])

/-- every step is a stutter of the abstract stack or records exactly one linearisation event -/
theorem step_hist (c : Cfg) {s s' : State} {l : Label} (st : step c s l = some s') :
    (s'.hist = s.hist ∧ s'.abs = s.abs) ∨ ∃ e, s'.hist = e :: s.hist := by
  cases l <;> simp only [step] at st <;>
    (repeat' split at st) <;>
    first
    | (simp at st; done)
    | (simp only [Option.some.injEq] at st; subst st; simp)

/-- **refinement step**: a step of the concurrent model is a stutter or the sequential LIFO
operation of the recorded linearisation event, with the recorded (concrete) result -/
theorem step_refines (c : Cfg) {s s' : State} {l : Label} (h : Reach c s)
    (st : step c s l = some s') :
    (s'.hist = s.hist ∧ s'.abs = s.abs) ∨
    ∃ e, s'.hist = e :: s.hist ∧ e.res = (apply s.abs e.op).2 ∧ s'.abs = (apply s.abs e.op).1 := by
  rcases step_hist c st with h1 | ⟨e, he⟩
  · exact Or.inl h1
  · right
    have v := (inv_reach c h).hist
    have v' := (inv_reach c (Reach.step h st)).hist
    rw [he] at v'
    exact ⟨e, he, v.inv_cons v'⟩

theorem head_end_iff_nil (c : Cfg) {s : State} (h : Reach c s) : s.head = END ↔ s.abs = [] :=
  chain_nil_iff (inv_reach c h).chain

end UrcuVerif.Wfs
