import UrcuVerif.Wfs.Thms
/-!
C17 facets of the wfstack model: solo runs.  `solo c t k s` lets thread `t` take `k` steps of
its own (its next instruction, or – when that instruction is a locked RMW and its store buffer
is not empty – the draining of its own buffer) while **every other thread is frozen** wherever it
is.  `none` would mean "stuck: needs a step of another thread".
-/
set_option linter.unusedVariables false
namespace UrcuVerif.Wfs
open Lifo

/-- the next own step of thread `t` (operations in progress only) -/
def ownNext (s : State) (t : Nat) : Option Label :=
  match s.pc t with
  | .idle => none
  | .pushX _ => if s.buf t = [] then some (.pushX t) else some (.flush t)
  | .pushSt _ _ => some (.pushSt t)
  | .popLd _ => some (.popLd t)
  | .popSync _ _ => some (.popSync t)
  | .popCas _ _ _ => if s.buf t = [] then some (.popCas t) else some (.flush t)

def solo (c : Cfg) (t : Nat) : Nat → State → Option State
  | 0, s => some s
  | k+1, s =>
    match ownNext s t with
    | none => some s
    | some l =>
      match step c s l with
      | none => none
      | some s' => solo c t k s'

/-- generic termination argument: a measure that strictly decreases on every own step, which is
always enabled, bounds the length of the solo run -/
theorem solo_measure (c : Cfg) (t : Nat) (μ : State → Nat) (P : State → Prop)
    (hstep : ∀ s, P s → s.pc t ≠ .idle →
      ∃ l s', ownNext s t = some l ∧ step c s l = some s' ∧ P s' ∧ μ s' < μ s) :
    ∀ n s, P s → μ s ≤ n → ∃ k s', k ≤ n ∧ solo c t k s = some s' ∧ s'.pc t = .idle ∧ P s' := by
  intro n
  induction n with
  | zero =>
    intro s hP hμ
    by_cases hi : s.pc t = .idle
    · exact ⟨0, s, Nat.le_refl _, rfl, hi, hP⟩
    · obtain ⟨l, s', _, _, _, hlt⟩ := hstep s hP hi
      omega
  | succ n ih =>
    intro s hP hμ
    by_cases hi : s.pc t = .idle
    · exact ⟨0, s, Nat.zero_le _, rfl, hi, hP⟩
    · obtain ⟨l, s', h1, h2, h3, hlt⟩ := hstep s hP hi
      obtain ⟨k, s'', hk, hs, hi', hP'⟩ := ih s' h3 (by omega)
      exact ⟨k + 1, s'', by omega, by simp [solo, h1, h2, hs], hi', hP'⟩

def Pc.isPushX : Pc → Bool
  | .pushX _ => true
  | _ => false

/-- store-buffer occupancy: at most the trailing `next` store of the previous push plus the
`next := NULL` initialisation of the node being pushed -/
structure BufLen (s : State) : Prop where
  le2 : ∀ t, (s.buf t).length ≤ 2
  le1 : ∀ t, (s.pc t).isPushX = false → (s.buf t).length ≤ 1
  st0 : ∀ t n o, s.pc t = .pushSt n o → s.buf t = []

theorem buflen_step (c : Cfg) {s s' : State} {l : Label} (h : BufLen s) (st : step c s l = some s') :
    BufLen s' := by
  obtain ⟨h1, h2, h3⟩ := h
  cases l <;> simp only [step] at st <;> (repeat' split at st) <;>
    first
    | (simp at st; done)
    | (simp only [Option.some.injEq] at st; subst st
       constructor <;> (try simp only [upd] at *) <;>
         grind [List.length_append, List.length_cons, List.length_nil, Pc.isPushX])

theorem buflen_reach (c : Cfg) {s : State} (h : Reach c s) : BufLen s := by
  induction h with
  | init => constructor <;> simp [init, Pc.isPushX]
  | step _ st ih => exact buflen_step c ih st


/-! enabledness of own steps: none of them looks at another thread's state -/

theorem en_pushX (c : Cfg) {s : State} {t n : Nat} (hp : s.pc t = .pushX n) (hb : s.buf t = []) :
    ∃ s', step c s (.pushX t) = some s' ∧ s'.pc t = .pushSt n s.head := by
  simp [step, hp, hb]

theorem en_flush (c : Cfg) {s : State} {t : Nat} {e rest} (hb : s.buf t = e :: rest) :
    ∃ s', step c s (.flush t) = some s' ∧ s'.pc t = s.pc t ∧ s'.buf t = rest := by
  obtain ⟨a, v⟩ := e
  simp [step, hb]

theorem en_pushSt (c : Cfg) {s : State} {t n o : Nat} (hp : s.pc t = .pushSt n o) :
    ∃ s', step c s (.pushSt t) = some s' ∧ s'.pc t = .idle ∧ s'.ret t = .flag (o != END) := by
  simp [step, hp]

theorem en_popLd (c : Cfg) {s : State} {t : Nat} {b : Bool} (hp : s.pc t = .popLd b) :
    ∃ s', step c s (.popLd t) = some s' ∧ s'.buf t = s.buf t ∧
      ((s.head = END ∧ s'.pc t = .idle ∧ s'.ret t = .null) ∨ (s.head ≠ END ∧ s'.pc t = .popSync b s.head)) := by
  by_cases he : s.head = END <;> simp [step, hp, he]

theorem en_popSync_nb (c : Cfg) {s : State} {t h0 : Nat} (hp : s.pc t = .popSync false h0) :
    ∃ s', step c s (.popSync t) = some s' ∧ s'.buf t = s.buf t ∧ s'.head = s.head ∧
      ((rd s t h0 = 0 ∧ s'.pc t = .idle ∧ s'.ret t = .wouldblock) ∨
       (rd s t h0 ≠ 0 ∧ s'.pc t = .popCas false h0 (rd s t h0))) := by
  by_cases he : rd s t h0 = 0 <;> simp [step, hp, he]

theorem en_popCas_nb (c : Cfg) {s : State} {t h0 nx : Nat} (hp : s.pc t = .popCas false h0 nx)
    (hb : s.buf t = []) :
    ∃ s', step c s (.popCas t) = some s' ∧ s'.pc t = .idle ∧
      ((s.head = h0 ∧ s'.ret t = .node h0 (nx == END)) ∨ (s.head ≠ h0 ∧ s'.ret t = .wouldblock)) := by
  by_cases he : s.head = h0 <;> simp [step, hp, hb, he]

/-- remaining own steps of a push -/
def pushMu (s : State) (t : Nat) : Nat :=
  match s.pc t with
  | .pushX _ => 2 + (s.buf t).length
  | .pushSt _ _ => 1
  | _ => 0

def pushP (c : Cfg) (t : Nat) (s : State) : Prop :=
  Reach c s ∧ ((∃ n, s.pc t = .pushX n) ∨ (∃ n o, s.pc t = .pushSt n o) ∨
               (s.pc t = .idle ∧ ∃ b, s.ret t = .flag b))

theorem push_own_step (c : Cfg) (t : Nat) (s : State) (hP : pushP c t s) (hi : s.pc t ≠ .idle) :
    ∃ l s', ownNext s t = some l ∧ step c s l = some s' ∧ pushP c t s' ∧ pushMu s' t < pushMu s t := by
  obtain ⟨hr, hpc⟩ := hP
  rcases hpc with ⟨n, hp⟩ | ⟨n, o, hp⟩ | ⟨hp, _⟩
  · cases hb : s.buf t with
    | nil =>
      obtain ⟨s', hst, h1⟩ := en_pushX c hp hb
      exact ⟨.pushX t, s', by simp [ownNext, hp, hb], hst, ⟨Reach.step hr hst, Or.inr (Or.inl ⟨_, _, h1⟩)⟩,
        by (simp [pushMu, hp, h1] <;> omega)⟩
    | cons e rest =>
      obtain ⟨s', hst, h1, h2⟩ := en_flush c hb
      exact ⟨.flush t, s', by simp [ownNext, hp, hb], hst, ⟨Reach.step hr hst, Or.inl ⟨n, h1.trans hp⟩⟩,
        by (simp [pushMu, hp, h1, h2, hb] <;> omega)⟩
  · obtain ⟨s', hst, h1, h2⟩ := en_pushSt c hp
    exact ⟨.pushSt t, s', by simp [ownNext, hp], hst, ⟨Reach.step hr hst, Or.inr (Or.inr ⟨h1, _, h2⟩)⟩,
      by (simp [pushMu, hp, h1] <;> omega)⟩
  · exact absurd hp hi

/-- **wfstack push is wait-free**: from any reachable state, whatever the other threads are in
the middle of, the pusher finishes within 4 steps of its own (at most 2 drains of its own store
buffer, the `xchg`, the `next` store) and returns the "was non-empty" flag. -/
theorem push_wait_free (c : Cfg) {s : State} (h : Reach c s) (t n : Nat) (hp : s.pc t = .pushX n) :
    ∃ k s', k ≤ 4 ∧ solo c t k s = some s' ∧ s'.pc t = .idle ∧ (∃ b, s'.ret t = .flag b) ∧ Reach c s' := by
  have hB := (buflen_reach c h).le2 t
  obtain ⟨k, s', hk, hs, hi, hP'⟩ := solo_measure c t (pushMu · t) (pushP c t) (push_own_step c t) 4 s
    ⟨h, Or.inl ⟨n, hp⟩⟩ (by simp only [pushMu, hp]; omega)
  refine ⟨k, s', hk, hs, hi, ?_, hP'.1⟩
  rcases hP'.2 with ⟨n, hp'⟩ | ⟨n, o, hp'⟩ | ⟨_, hb⟩
  · rw [hi] at hp'; simp at hp'
  · rw [hi] at hp'; simp at hp'
  · exact hb

/-- **pop_all is wait-free**: a single `xchg`, always enabled for a thread that holds the pop
right (its buffer drained: at most one own flush) -/
theorem popAll_one_step (c : Cfg) {s : State} (t : Nat) (hp : s.pc t = .idle) (hr : hasRight c s t)
    (hb : s.buf t = []) (hv : s.priv t = []) :
    ∃ s', step c s (.popAll t) = some s' ∧ s'.pc t = .idle ∧ s'.head = END := by
  simp [step, hp, hr, hb, hv]

/-- remaining own steps of a non-blocking pop -/
def popMu (s : State) (t : Nat) : Nat :=
  match s.pc t with
  | .popLd _ => 3 + (s.buf t).length
  | .popSync _ _ => 2 + (s.buf t).length
  | .popCas _ _ _ => 1 + (s.buf t).length
  | _ => 0

def nbP (c : Cfg) (t : Nat) (s : State) : Prop :=
  Reach c s ∧ (s.pc t = .popLd false ∨ (∃ h, s.pc t = .popSync false h) ∨
               (∃ h nx, s.pc t = .popCas false h nx) ∨ s.pc t = .idle)

theorem nb_own_step (c : Cfg) (t : Nat) (s : State) (hP : nbP c t s) (hi : s.pc t ≠ .idle) :
    ∃ l s', ownNext s t = some l ∧ step c s l = some s' ∧ nbP c t s' ∧ popMu s' t < popMu s t := by
  obtain ⟨hr, hpc⟩ := hP
  rcases hpc with hp | ⟨h0, hp⟩ | ⟨h0, nx, hp⟩ | hp
  · obtain ⟨s', hst, h1, h2⟩ := en_popLd c hp
    refine ⟨.popLd t, s', by simp [ownNext, hp], hst, ⟨Reach.step hr hst, ?_⟩, ?_⟩
    · rcases h2 with ⟨_, h3, _⟩ | ⟨_, h3⟩
      · exact Or.inr (Or.inr (Or.inr h3))
      · exact Or.inr (Or.inl ⟨_, h3⟩)
    · rcases h2 with ⟨_, h3, _⟩ | ⟨_, h3⟩ <;> simp [popMu, hp, h3, h1] <;> omega
  · obtain ⟨s', hst, h1, _, h2⟩ := en_popSync_nb c hp
    refine ⟨.popSync t, s', by simp [ownNext, hp], hst, ⟨Reach.step hr hst, ?_⟩, ?_⟩
    · rcases h2 with ⟨_, h3, _⟩ | ⟨_, h3⟩
      · exact Or.inr (Or.inr (Or.inr h3))
      · exact Or.inr (Or.inr (Or.inl ⟨_, _, h3⟩))
    · rcases h2 with ⟨_, h3, _⟩ | ⟨_, h3⟩ <;> simp [popMu, hp, h3, h1] <;> omega
  · cases hb : s.buf t with
    | nil =>
      obtain ⟨s', hst, h1, _⟩ := en_popCas_nb c hp hb
      exact ⟨.popCas t, s', by simp [ownNext, hp, hb], hst, ⟨Reach.step hr hst, Or.inr (Or.inr (Or.inr h1))⟩,
        by (simp [popMu, hp, h1] <;> omega)⟩
    | cons e rest =>
      obtain ⟨s', hst, h1, h2⟩ := en_flush c hb
      exact ⟨.flush t, s', by simp [ownNext, hp, hb], hst,
        ⟨Reach.step hr hst, Or.inr (Or.inr (Or.inl ⟨h0, nx, h1.trans hp⟩))⟩,
        by (simp [popMu, hp, h1, h2, hb] <;> omega)⟩
  · exact absurd hp hi

/-- **non-blocking pop never waits**: from any reachable state it returns within 4 own steps
(load head, load next, at most one drain of its own buffer, cmpxchg), whatever the others do -/
theorem nonblocking_pop_never_waits (c : Cfg) {s : State} (h : Reach c s) (t : Nat)
    (hp : s.pc t = .popLd false) :
    ∃ k s', k ≤ 4 ∧ solo c t k s = some s' ∧ s'.pc t = .idle ∧ Reach c s' := by
  have hB := (buflen_reach c h).le1 t (by simp [hp, Pc.isPushX])
  obtain ⟨k, s', hk, hs, hi, hP'⟩ := solo_measure c t (popMu · t) (nbP c t) (nb_own_step c t) 4 s
    ⟨h, Or.inl hp⟩ (by simp only [popMu, hp]; omega)
  exact ⟨k, s', hk, hs, hi, hP'.1⟩

/-- non-blocking iteration: one load, never a loop -/
theorem nonblocking_next_one_step (c : Cfg) {s : State} (t : Nat) (hp : s.pc t = .idle)
    (hc : s.cur t ≠ END) : ∃ s', step c s (.iterNext t false) = some s' ∧ s'.pc t = .idle := by
  by_cases he : rd s t (s.cur t) = 0 <;> simp [step, hp, hc, he]

end UrcuVerif.Wfs
