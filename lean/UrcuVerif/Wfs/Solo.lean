import UrcuVerif.Wfs.Thms
/-!
C17 facets of the wfstack model: solo runs.  `solo c t k s` lets thread `t` take `k` steps of
its own (its next instruction, or – when that instruction is a locked RMW and its store buffer
is not empty – the draining of its own buffer) while **every other thread is frozen** wherever it
is.  `none` would mean "stuck: needs a step of another thread".
-/
set_option linter.unusedVariables false
namespace UrcuVerif.Wfs
open Lifo

/-- the next own step of thread `t` (operations in progress only) -/
def ownNext (s : State) (t : Nat) : Option Label :=
  match s.pc t with
  | .idle => none
  | .pushX _ => if s.buf t = [] then some (.pushX t) else some (.flush t)
  | .pushSt _ _ => some (.pushSt t)
  | .popLd _ => some (.popLd t)
  | .popSync _ _ => some (.popSync t)
  | .popCas _ _ _ => if s.buf t = [] then some (.popCas t) else some (.flush t)

def solo (c : Cfg) (t : Nat) : Nat → State → Option State
  | 0, s => some s
  | k+1, s =>
    match ownNext s t with
    | none => some s
    | some l =>
      match step c s l with
      | none => none
      | some s' => solo c t k s'

/-- generic termination argument: a measure that strictly decreases on every own step, which is
always enabled, bounds the length of the solo run -/
theorem solo_measure (c : Cfg) (t : Nat) (μ : State → Nat) (P : State → Prop)
    (hstep : ∀ s, P s → s.pc t ≠ .idle →
      ∃ l s', ownNext s t = some l ∧ step c s l = some s' ∧ P s' ∧ μ s' < μ s) :
    ∀ n s, P s → μ s ≤ n → ∃ k s', k ≤ n ∧ solo c t k s = some s' ∧ s'.pc t = .idle ∧ P s' := by
  intro n
  induction n with
  | zero =>
    intro s hP hμ
    by_cases hi : s.pc t = .idle
    · exact ⟨0, s, Nat.le_refl _, rfl, hi, hP⟩
    · obtain ⟨l, s', _, _, _, hlt⟩ := hstep s hP hi
      omega
  | succ n ih =>
    intro s hP hμ
    by_cases hi : s.pc t = .idle
    · exact ⟨0, s, Nat.zero_le _, rfl, hi, hP⟩
    · obtain ⟨l, s', h1, h2, h3, hlt⟩ := hstep s hP hi
      obtain ⟨k, s'', hk, hs, hi', hP'⟩ := ih s' h3 (by omega)
      exact ⟨k + 1, s'', by omega, by simp [solo, h1, h2, hs], hi', hP'⟩

def Pc.isPushX : Pc → Bool
  | .pushX _ => true
  | _ => false

/-- store-buffer occupancy: at most the trailing `next` store of the previous push plus the
`next := NULL` initialisation of the node being pushed -/
structure BufLen (s : State) : Prop where
  le2 : ∀ t, (s.buf t).length ≤ 2
  le1 : ∀ t, (s.pc t).isPushX = false → (s.buf t).length ≤ 1
  st0 : ∀ t n o, s.pc t = .pushSt n o → s.buf t = []

theorem buflen_step (c : Cfg) {s s' : State} {l : Label} (h : BufLen s) (st : step c s l = some s') :
    BufLen s' := by
  obtain ⟨h1, h2, h3⟩ := h
  cases l <;> simp only [step] at st <;> (repeat' split at st) <;>
    first
    | (simp at st; done)
    | (simp only [Option.some.injEq] at st; subst st
       constructor <;> (try simp only [upd] at *) <;>
         grind [List.length_append, List.length_cons, List.length_nil, Pc.isPushX])

theorem buflen_reach (c : Cfg) {s : State} (h : Reach c s) : BufLen s := by
  induction h with
  | init => constructor <;> simp [init, Pc.isPushX]
  | step _ st ih => exact buflen_step c ih st


/-! enabledness of own steps: none of them looks at another thread's state -/

theorem en_pushX (c : Cfg) {s : State} {t n : Nat} (hp : s.pc t = .pushX n) (hb : s.buf t = []) :
    ∃ s', step c s (.pushX t) = some s' ∧ s'.pc t = .pushSt n s.head := by
  simp [step, hp, hb]

theorem en_flush (c : Cfg) {s : State} {t : Nat} {e rest} (hb : s.buf t = e :: rest) :
    ∃ s', step c s (.flush t) = some s' ∧ s'.pc t = s.pc t ∧ s'.buf t = rest := by
  obtain ⟨a, v⟩ := e
  simp [step, hb]

theorem en_pushSt (c : Cfg) {s : State} {t n o : Nat} (hp : s.pc t = .pushSt n o) :
    ∃ s', step c s (.pushSt t) = some s' ∧ s'.pc t = .idle ∧ s'.ret t = .flag (o != END) := by
  simp [step, hp]

theorem en_popLd (c : Cfg) {s : State} {t : Nat} {b : Bool} (hp : s.pc t = .popLd b) :
    ∃ s', step c s (.popLd t) = some s' ∧ s'.buf t = s.buf t ∧
      ((s.head = END ∧ s'.pc t = .idle ∧ s'.ret t = .null) ∨ (s.head ≠ END ∧ s'.pc t = .popSync b s.head)) := by
  by_cases he : s.head = END <;> simp [step, hp, he]

theorem en_popSync_nb (c : Cfg) {s : State} {t h0 : Nat} (hp : s.pc t = .popSync false h0) :
    ∃ s', step c s (.popSync t) = some s' ∧ s'.buf t = s.buf t ∧ s'.head = s.head ∧
      ((rd s t h0 = 0 ∧ s'.pc t = .idle ∧ s'.ret t = .wouldblock) ∨
       (rd s t h0 ≠ 0 ∧ s'.pc t = .popCas false h0 (rd s t h0))) := by
  by_cases he : rd s t h0 = 0 <;> simp [step, hp, he]

theorem en_popCas_nb (c : Cfg) {s : State} {t h0 nx : Nat} (hp : s.pc t = .popCas false h0 nx)
    (hb : s.buf t = []) :
    ∃ s', step c s (.popCas t) = some s' ∧ s'.pc t = .idle ∧
      ((s.head = h0 ∧ s'.ret t = .node h0 (nx == END)) ∨ (s.head ≠ h0 ∧ s'.ret t = .wouldblock)) := by
  by_cases he : s.head = h0 <;> simp [step, hp, hb, he]

/-- remaining own steps of a push -/
def pushMu (s : State) (t : Nat) : Nat :=
  match s.pc t with
  | .pushX _ => 2 + (s.buf t).length
  | .pushSt _ _ => 1
  | _ => 0

def pushP (c : Cfg) (t : Nat) (s : State) : Prop :=
  Reach c s ∧ ((∃ n, s.pc t = .pushX n) ∨ (∃ n o, s.pc t = .pushSt n o) ∨
               (s.pc t = .idle ∧ ∃ b, s.ret t = .flag b))

theorem push_own_step (c : Cfg) (t : Nat) (s : State) (hP : pushP c t s) (hi : s.pc t ≠ .idle) :
    ∃ l s', ownNext s t = some l ∧ step c s l = some s' ∧ pushP c t s' ∧ pushMu s' t < pushMu s t := by
  obtain ⟨hr, hpc⟩ := hP
  rcases hpc with ⟨n, hp⟩ | ⟨n, o, hp⟩ | ⟨hp, _⟩
  · cases hb : s.buf t with
    | nil =>
      obtain ⟨s', hst, h1⟩ := en_pushX c hp hb
      exact ⟨.pushX t, s', by simp [ownNext, hp, hb], hst, ⟨Reach.step hr hst, Or.inr (Or.inl ⟨_, _, h1⟩)⟩,
        by (simp [pushMu, hp, h1] <;> omega)⟩
    | cons e rest =>
      obtain ⟨s', hst, h1, h2⟩ := en_flush c hb
      exact ⟨.flush t, s', by simp [ownNext, hp, hb], hst, ⟨Reach.step hr hst, Or.inl ⟨n, h1.trans hp⟩⟩,
        by (simp [pushMu, hp, h1, h2, hb] <;> omega)⟩
  · obtain ⟨s', hst, h1, h2⟩ := en_pushSt c hp
    exact ⟨.pushSt t, s', by simp [ownNext, hp], hst, ⟨Reach.step hr hst, Or.inr (Or.inr ⟨h1, _, h2⟩)⟩,
      by (simp [pushMu, hp, h1] <;> omega)⟩
  · exact absurd hp hi

/-- **wfstack push is wait-free**: from any reachable state, whatever the other threads are in
the middle of, the pusher finishes within 4 steps of its own (at most 2 drains of its own store
buffer, the `xchg`, the `next` store) and returns the "was non-empty" flag. -/
theorem push_wait_free (c : Cfg) {s : State} (h : Reach c s) (t n : Nat) (hp : s.pc t = .pushX n) :
    ∃ k s', k ≤ 4 ∧ solo c t k s = some s' ∧ s'.pc t = .idle ∧ (∃ b, s'.ret t = .flag b) ∧ Reach c s' := by
  have hB := (buflen_reach c h).le2 t
  obtain ⟨k, s', hk, hs, hi, hP'⟩ := solo_measure c t (pushMu · t) (pushP c t) (push_own_step c t) 4 s
    ⟨h, Or.inl ⟨n, hp⟩⟩ (by simp only [pushMu, hp]; omega)
  refine ⟨k, s', hk, hs, hi, ?_, hP'.1⟩
  rcases hP'.2 with ⟨n, hp'⟩ | ⟨n, o, hp'⟩ | ⟨_, hb⟩
  · rw [hi] at hp'; simp at hp'
  · rw [hi] at hp'; simp at hp'
  · exact hb

/-- **pop_all is wait-free**: a single `xchg`, always enabled for a thread that holds the pop
right (its buffer drained: at most one own flush) -/
theorem popAll_one_step (c : Cfg) {s : State} (t : Nat) (hp : s.pc t = .idle) (hr : hasRightAll c s t)
    (hb : s.buf t = []) (hv : s.priv t = []) :
    ∃ s', step c s (.popAll t) = some s' ∧ s'.pc t = .idle ∧ s'.head = END := by
  simp [step, hp, hr, hb, hv]

/-- remaining own steps of a non-blocking pop -/
def popMu (s : State) (t : Nat) : Nat :=
  match s.pc t with
  | .popLd _ => 3 + (s.buf t).length
  | .popSync _ _ => 2 + (s.buf t).length
  | .popCas _ _ _ => 1 + (s.buf t).length
  | _ => 0

def nbP (c : Cfg) (t : Nat) (s : State) : Prop :=
  Reach c s ∧ (s.pc t = .popLd false ∨ (∃ h, s.pc t = .popSync false h) ∨
               (∃ h nx, s.pc t = .popCas false h nx) ∨ s.pc t = .idle)

theorem nb_own_step (c : Cfg) (t : Nat) (s : State) (hP : nbP c t s) (hi : s.pc t ≠ .idle) :
    ∃ l s', ownNext s t = some l ∧ step c s l = some s' ∧ nbP c t s' ∧ popMu s' t < popMu s t := by
  obtain ⟨hr, hpc⟩ := hP
  rcases hpc with hp | ⟨h0, hp⟩ | ⟨h0, nx, hp⟩ | hp
  · obtain ⟨s', hst, h1, h2⟩ := en_popLd c hp
    refine ⟨.popLd t, s', by simp [ownNext, hp], hst, ⟨Reach.step hr hst, ?_⟩, ?_⟩
    · rcases h2 with ⟨_, h3, _⟩ | ⟨_, h3⟩
      · exact Or.inr (Or.inr (Or.inr h3))
      · exact Or.inr (Or.inl ⟨_, h3⟩)
    · rcases h2 with ⟨_, h3, _⟩ | ⟨_, h3⟩ <;> simp [popMu, hp, h3, h1] <;> omega
  · obtain ⟨s', hst, h1, _, h2⟩ := en_popSync_nb c hp
    refine ⟨.popSync t, s', by simp [ownNext, hp], hst, ⟨Reach.step hr hst, ?_⟩, ?_⟩
    · rcases h2 with ⟨_, h3, _⟩ | ⟨_, h3⟩
      · exact Or.inr (Or.inr (Or.inr h3))
      · exact Or.inr (Or.inr (Or.inl ⟨_, _, h3⟩))
    · rcases h2 with ⟨_, h3, _⟩ | ⟨_, h3⟩ <;> simp [popMu, hp, h3, h1] <;> omega
  · cases hb : s.buf t with
    | nil =>
      obtain ⟨s', hst, h1, _⟩ := en_popCas_nb c hp hb
      exact ⟨.popCas t, s', by simp [ownNext, hp, hb], hst, ⟨Reach.step hr hst, Or.inr (Or.inr (Or.inr h1))⟩,
        by (simp [popMu, hp, h1] <;> omega)⟩
    | cons e rest =>
      obtain ⟨s', hst, h1, h2⟩ := en_flush c hb
      exact ⟨.flush t, s', by simp [ownNext, hp, hb], hst,
        ⟨Reach.step hr hst, Or.inr (Or.inr (Or.inl ⟨h0, nx, h1.trans hp⟩))⟩,
        by (simp [popMu, hp, h1, h2, hb] <;> omega)⟩
  · exact absurd hp hi

/-- **non-blocking pop never waits**: from any reachable state it returns within 4 own steps
(load head, load next, at most one drain of its own buffer, cmpxchg), whatever the others do -/
theorem nonblocking_pop_never_waits (c : Cfg) {s : State} (h : Reach c s) (t : Nat)
    (hp : s.pc t = .popLd false) :
    ∃ k s', k ≤ 4 ∧ solo c t k s = some s' ∧ s'.pc t = .idle ∧ Reach c s' := by
  have hB := (buflen_reach c h).le1 t (by simp [hp, Pc.isPushX])
  obtain ⟨k, s', hk, hs, hi, hP'⟩ := solo_measure c t (popMu · t) (nbP c t) (nb_own_step c t) 4 s
    ⟨h, Or.inl hp⟩ (by simp only [popMu, hp]; omega)
  exact ⟨k, s', hk, hs, hi, hP'.1⟩

/-- no other operation is in progress: every other thread is outside the stack API and its
stores have reached memory -/
def Quiet (s : State) (t : Nat) : Prop := ∀ u, u ≠ t → s.pc u = .idle ∧ s.buf u = []

theorem quiet_own_step (c : Cfg) {s s' : State} {l : Label} {t : Nat} (hq : Quiet s t)
    (st : step c s l = some s') (hl : l.tid = some t) : Quiet s' t := by
  intro u hu
  have := step_frame c st u (by rw [hl]; intro e; injection e with e; exact hu e.symm)
  rw [this.1, this.2.1]
  exact hq u hu

def nbQ (c : Cfg) (t : Nat) (s : State) : Prop :=
  c.WF ∧ Reach c s ∧ Quiet s t ∧
  (s.pc t = .popLd false ∨ (∃ h, s.pc t = .popSync false h ∧ s.head = h) ∨
   (∃ h nx, s.pc t = .popCas false h nx ∧ s.head = h) ∨
   (s.pc t = .idle ∧ s.ret t ≠ .wouldblock))

theorem nbq_own_step (c : Cfg) (t : Nat) (s : State) (hP : nbQ c t s) (hi : s.pc t ≠ .idle) :
    ∃ l s', ownNext s t = some l ∧ step c s l = some s' ∧ nbQ c t s' ∧ popMu s' t < popMu s t := by
  obtain ⟨wf, hr, hq, hpc⟩ := hP
  rcases hpc with hp | ⟨h0, hp, hh⟩ | ⟨h0, nx, hp, hh⟩ | ⟨hp, _⟩
  · obtain ⟨s', hst, h1, h2⟩ := en_popLd c hp
    have hhd : s'.head = s.head ∨ s'.pc t = .idle := by
      rcases h2 with ⟨_, h3, _⟩ | ⟨he, _⟩
      · exact Or.inr h3
      · left; simp only [step, hp, he, if_false, Option.some.injEq] at hst; subst hst; rfl
    refine ⟨.popLd t, s', by simp [ownNext, hp], hst, ⟨wf, Reach.step hr hst, quiet_own_step c hq hst rfl, ?_⟩, ?_⟩
    · rcases h2 with ⟨_, h3, h4⟩ | ⟨he, h3⟩
      · exact Or.inr (Or.inr (Or.inr ⟨h3, by rw [h4]; simp⟩))
      · refine Or.inr (Or.inl ⟨_, h3, ?_⟩)
        rcases hhd with h5 | h5
        · exact h5
        · rw [h3] at h5; simp at h5
    · rcases h2 with ⟨_, h3, _⟩ | ⟨_, h3⟩ <;> simp [popMu, hp, h3, h1] <;> omega
  · obtain ⟨s', hst, h1, h1', h2⟩ := en_popSync_nb c hp
    have hrd : rd s t h0 ≠ 0 := by
      intro h0z
      obtain ⟨⟨u, o, hpend⟩, _, _⟩ := pop_incomplete c wf hr t false h0 hp h0z
      have I := inv_reach c wf hr
      by_cases hu : u = t
      · subst hu
        rcases hpend with h3 | ⟨h3, h4⟩
        · rw [hp] at h3; simp at h3
        · rcases rd_cases s u h0 with h5 | ⟨_, h5⟩
          · rw [h0z] at h5
            have := I.bufInit u _ h5
            rw [hp] at this; simp at this
          · exact h5 o h3
      · have := hq u hu
        rcases hpend with h3 | ⟨h3, _⟩
        · rw [this.1] at h3; simp at h3
        · rw [this.2] at h3; simp at h3
    refine ⟨.popSync t, s', by simp [ownNext, hp], hst, ⟨wf, Reach.step hr hst, quiet_own_step c hq hst rfl, ?_⟩, ?_⟩
    · rcases h2 with ⟨h3, _⟩ | ⟨_, h3⟩
      · exact absurd h3 hrd
      · exact Or.inr (Or.inr (Or.inl ⟨_, _, h3, h1'.trans hh⟩))
    · rcases h2 with ⟨_, h3, _⟩ | ⟨_, h3⟩ <;> simp [popMu, hp, h3, h1] <;> omega
  · cases hb : s.buf t with
    | nil =>
      obtain ⟨s', hst, h1, h2⟩ := en_popCas_nb c hp hb
      refine ⟨.popCas t, s', by simp [ownNext, hp, hb], hst,
        ⟨wf, Reach.step hr hst, quiet_own_step c hq hst rfl, Or.inr (Or.inr (Or.inr ⟨h1, ?_⟩))⟩,
        by (simp [popMu, hp, h1] <;> omega)⟩
      rcases h2 with ⟨_, h3⟩ | ⟨h3, _⟩
      · rw [h3]; simp
      · exact absurd hh h3
    | cons e rest =>
      obtain ⟨s', hst, h1, h2⟩ := en_flush c hb
      have hhd : s'.head = s.head := by
        obtain ⟨a, v⟩ := e
        simp only [step, hb, Option.some.injEq] at hst; subst hst; rfl
      exact ⟨.flush t, s', by simp [ownNext, hp, hb], hst,
        ⟨wf, Reach.step hr hst, quiet_own_step c hq hst rfl,
          Or.inr (Or.inr (Or.inl ⟨h0, nx, h1.trans hp, hhd.trans hh⟩))⟩,
        by (simp [popMu, hp, h1, h2, hb] <;> omega)⟩
  · exact absurd hp hi

/-- **never WOULDBLOCK when no other operation is in progress**: with every other thread
outside the API (and its stores flushed), a non-blocking pop returns a node or NULL -/
theorem nonblocking_pop_quiet_succeeds (c : Cfg) (wf : c.WF) {s : State} (h : Reach c s) (t : Nat)
    (hp : s.pc t = .popLd false) (hq : Quiet s t) :
    ∃ k s', k ≤ 4 ∧ solo c t k s = some s' ∧ s'.pc t = .idle ∧ s'.ret t ≠ .wouldblock := by
  have hB := (buflen_reach c h).le1 t (by simp [hp, Pc.isPushX])
  obtain ⟨k, s', hk, hs, hi, hP'⟩ := solo_measure c t (popMu · t) (nbQ c t) (nbq_own_step c t) 4 s
    ⟨wf, h, hq, Or.inl hp⟩ (by simp only [popMu, hp]; omega)
  refine ⟨k, s', hk, hs, hi, ?_⟩
  rcases hP'.2.2.2 with h1 | ⟨_, h1, _⟩ | ⟨_, _, h1, _⟩ | ⟨_, h1⟩
  · rw [hi] at h1; simp at h1
  · rw [hi] at h1; simp at h1
  · rw [hi] at h1; simp at h1
  · exact h1

/-- non-blocking iteration: one load, never a loop -/
theorem nonblocking_next_one_step (c : Cfg) {s : State} (t : Nat) (hp : s.pc t = .idle)
    (hc : s.cur t ≠ END) : ∃ s', step c s (.iterNext t false) = some s' ∧ s'.pc t = .idle := by
  by_cases he : rd s t (s.cur t) = 0 <;> simp [step, hp, hc, he]


/-- … and with no push in flight it returns the next node (or NULL at the end), not WOULDBLOCK -/
theorem nonblocking_next_quiet_succeeds (c : Cfg) (wf : c.WF) {s : State} (h : Reach c s) (t : Nat)
    (hp : s.pc t = .idle) (hc : s.cur t ≠ END) (hq : Quiet s t) :
    ∃ s', step c s (.iterNext t false) = some s' ∧ s'.ret t ≠ .wouldblock ∧ s'.cur t ≠ s.cur t := by
  have I := inv_reach c wf h
  have hrd : rd s t (s.cur t) ≠ 0 := by
    intro h0z
    obtain ⟨⟨u, o, hpend⟩, _, _⟩ := iter_incomplete c wf h t hp hc h0z
    by_cases hu : u = t
    · subst hu
      rcases hpend with h3 | ⟨h3, h4⟩
      · rw [hp] at h3; simp at h3
      · rcases rd_cases s u (s.cur u) with h5 | ⟨_, h5⟩
        · rw [h0z] at h5
          have := I.bufInit u _ h5
          rw [hp] at this; simp at this
        · exact h5 o h3
    · have := hq u hu
      rcases hpend with h3 | ⟨h3, _⟩
      · rw [this.1] at h3; simp at h3
      · rw [this.2] at h3; simp at h3
  obtain ⟨b1, r, e1, hn1, hl1, hc1⟩ := chain_cons_inv (I.pchain t) hc
  have hst : ∃ s', step c s (.iterNext t false) = some s' ∧ s'.cur t = rd s t (s.cur t) ∧
      s'.priv t = (s.priv t).tail ∧
      s'.ret t = (if rd s t (s.cur t) = END then .null else .node (rd s t (s.cur t)) false) := by
    simp [step, hp, hc, hrd]
  obtain ⟨s', hst, h1, h2, h3⟩ := hst
  have hp' := (inv_reach c wf (Reach.step h hst)).pchain t
  rw [h1, h2, e1, List.tail_cons] at hp'
  refine ⟨s', hst, ?_, ?_⟩
  · rw [h3]; split <;> simp
  · rw [h1]
    intro e
    have hnd := I.pnodup t
    rw [e1] at hnd
    rcases chain_head hp' with ⟨e2, _⟩ | ⟨_, r', e2⟩
    · rw [e] at e2; exact hc e2
    · rw [e2, e] at hnd; simp at hnd

end UrcuVerif.Wfs
