import UrcuVerif.Wfs.Model
/-!
Inductive invariant of the wfstack model (helper lemmas; statements are in `Props/C11.lean`).
Pattern of `notes/calibration_wfstack_chain.lean.txt`: ghost abstract stack + *logical successor*
chain with in-flight pushes, extended with explicit TSO store buffers, pop with cmpxchg, popped
lists with iterators, node recycling and the three synchronisation schemes: mutex, single
consumer, and concurrent poppers under RCU (clauses `popR2` / `popR3` with `Prot`: the node a
popper loaded cannot be recycled under it; `retired_rcu`, `retired_nx`, `cs_lt`, `gp_lt`: the
abstract grace period).  Proof engineering: the scheme predicates are kept folded
(`hasRightP`, `ProtP` over the state components they read) in the steps that do not touch the
lock / the sections / the node life cycle, so that `grind` does not case-split on the scheme.
-/
set_option linter.unusedVariables false
namespace UrcuVerif.Wfs
open Lifo

inductive Reach (c : Cfg) : State → Prop
  | init : Reach c init
  | step {s s' l} : Reach c s → step c s l = some s' → Reach c s'

/-- thread `t` has an in-flight push of node `a` over old head `b`: it is between its `xchg` and
its `next` store, or the store sits in its store buffer -/
def PendC (s : State) (t a b : Nat) : Prop :=
  s.pc t = .pushSt a b ∨ ((a, b) ∈ s.buf t ∧ b ≠ 0)

/-- logical successor of node `a`: the value its `next` has in memory, or will have once the
in-flight push completes -/
def lnext (s : State) (a b : Nat) : Prop :=
  (s.next a = b ∧ b ≠ 0) ∨ (s.next a = 0 ∧ ∃ t, PendC s t a b)

/-- `Chain s h l`: `l` is exactly the sequence of nodes from `h` along logical successors to END -/
inductive Chain (s : State) : Nat → List Nat → Prop
  | nil : Chain s END []
  | cons {a b l} : isNode a → lnext s a b → Chain s b l → Chain s a (a :: l)

theorem chain_congr {s s' : State} {h l} (c : Chain s h l)
    (hx : ∀ a, a ∈ l → ∀ b, lnext s a b → lnext s' a b) : Chain s' h l := by
  induction c with
  | nil => exact .nil
  | cons h2 hl _ ih =>
    refine .cons h2 (hx _ (by simp) _ hl) (ih ?_)
    intro a ha b hb
    exact hx a (by simp [ha]) b hb

theorem chain_end {s : State} {l} (c : Chain s END l) : l = [] := by
  cases c with
  | nil => rfl
  | cons h _ _ => exact absurd rfl h.2

theorem chain_head {s : State} {h l} (c : Chain s h l) :
    (h = END ∧ l = []) ∨ (isNode h ∧ ∃ r, l = h :: r) := by
  cases c with
  | nil => left; exact ⟨rfl, rfl⟩
  | cons h _ _ => right; exact ⟨h, _, rfl⟩

theorem chain_head_nz {s : State} {h l} (c : Chain s h l) : h ≠ 0 := by
  rcases chain_head c with ⟨e, _⟩ | ⟨e, _⟩
  · rw [e]; exact END_ne_zero
  · exact e.1

theorem chain_nil_iff {s : State} {h l} (c : Chain s h l) : h = END ↔ l = [] := by
  rcases chain_head c with ⟨e, e'⟩ | ⟨e, r, e'⟩
  · simp [e, e']
  · simp [e', e.2]

theorem head_end_iff {s : State} (hc : Chain s s.head s.abs) : (s.head != END) = !s.abs.isEmpty := by
  have := chain_nil_iff hc
  cases h : s.abs with
  | nil => simp [h] at this; simp [this]
  | cons a r => simp [h] at this; simp [this]

theorem head_end_iff' {s : State} (hc : Chain s s.head s.abs) : (s.head == END) = s.abs.isEmpty := by
  have := chain_nil_iff hc
  cases h : s.abs with
  | nil => simp [h] at this; simp [this]
  | cons a r => simp [h] at this; simp [this]

theorem lnext_frame {s s' : State} {a b : Nat} (hn : s'.next a = s.next a)
    (hp : ∀ t, PendC s t a b → ∃ t', PendC s' t' a b) (h : lnext s a b) : lnext s' a b := by
  rcases h with ⟨h1, h2⟩ | ⟨h1, t, h2⟩
  · left; exact ⟨hn ▸ h1, h2⟩
  · right; exact ⟨hn ▸ h1, hp t h2⟩

theorem bufVal_some {l : List (Nat × Nat)} {n v : Nat} (h : bufVal l n = some v) : (n, v) ∈ l := by
  induction l with
  | nil => simp [bufVal] at h
  | cons e rest ih =>
    obtain ⟨a, w⟩ := e
    simp only [bufVal] at h
    split at h
    · next w' hw => simp at h; subst h; simp [ih hw]
    · split at h
      · next e => simp at h; subst h; subst e; simp
      · simp at h

theorem bufVal_none {l : List (Nat × Nat)} {n : Nat} (h : bufVal l n = none) : ∀ v, (n, v) ∉ l := by
  induction l with
  | nil => simp
  | cons e rest ih =>
    obtain ⟨a, w⟩ := e
    simp only [bufVal] at h
    split at h
    · simp at h
    · next hw =>
      split at h
      · simp at h
      · next ne =>
        intro v hv
        simp at hv
        rcases hv with ⟨e1, _⟩ | hv
        · exact ne e1.symm
        · exact ih hw v hv

theorem bufVal_nil (n : Nat) : bufVal [] n = none := rfl

/-- what a TSO load of `n.next` returns -/
theorem rd_cases (s : State) (t n : Nat) :
    ((n, rd s t n) ∈ s.buf t) ∨ (rd s t n = s.next n ∧ ∀ v, (n, v) ∉ s.buf t) := by
  unfold rd
  split
  · next v h => left; exact bufVal_some h
  · next h => right; exact ⟨rfl, bufVal_none h⟩

/-- `hasRight` / `hasRightAll` as predicates of the state components they read (so that steps which
leave the lock and the sections alone keep them syntactically) -/
def hasRightP (c : Cfg) (lock : Option Nat) (cs : Nat → Nat) (t : Nat) : Prop :=
  (c.scheme = .mutex ∧ lock = some t) ∨ (c.scheme = .single ∧ t = c.consumer) ∨
  (c.scheme = .rcu ∧ cs t ≠ 0) ∨ c.scheme = .unprotected

def hasRightAllP (c : Cfg) (lock : Option Nat) (t : Nat) : Prop :=
  (c.scheme = .mutex ∧ lock = some t) ∨ (c.scheme = .single ∧ t = c.consumer) ∨
  c.scheme = .rcu ∨ c.scheme = .unprotected

theorem hasRight_eq (c : Cfg) (s : State) (t : Nat) : hasRight c s t = hasRightP c s.lock s.cs t := rfl
theorem hasRightAll_eq (c : Cfg) (s : State) (t : Nat) : hasRightAll c s t = hasRightAllP c s.lock t := rfl

/-- mutex / single consumer: at most one thread holds the pop right -/
theorem hrP_excl {c : Cfg} (wf : c.scheme ≠ .unprotected) (hn : c.scheme ≠ .rcu) {lock cs t u}
    (h1 : hasRightP c lock cs t) (h2 : hasRightP c lock cs u) : t = u := by
  simp only [hasRightP] at h1 h2; grind

theorem hrP_excl_all {c : Cfg} (wf : c.scheme ≠ .unprotected) (hn : c.scheme ≠ .rcu) {lock cs t u}
    (h1 : hasRightAllP c lock t) (h2 : hasRightP c lock cs u) : t = u := by
  simp only [hasRightP, hasRightAllP] at h1 h2; grind

/-- RCU: the pop right is an open read-side section -/
theorem hrP_cs {c : Cfg} (hr : c.scheme = .rcu) {lock cs t} (h : hasRightP c lock cs t) : cs t ≠ 0 := by
  simp only [hasRightP] at h; grind

/-- node `h`, referenced by a popper whose section began at `cst` (it loaded `head = h`), cannot be
recycled under it: it is not free and not being re-pushed; under mutex / single consumer it is
still in the stack; under RCU, if it was handed out meanwhile (to another popper), that happened
after the popper's section began, so no grace period that started after the hand-out can have
completed -/
def ProtP (c : Cfg) (nst : Nat → NSt) (cst : Nat) (h : Nat) : Prop :=
  isNode h ∧ nst h ≠ .free ∧ (∀ u, nst h ≠ .own u) ∧ (c.scheme ≠ .rcu → nst h = .inStack) ∧
  (∀ τ, nst h = .retired τ → cst < τ)

def Prot (c : Cfg) (s : State) (t h : Nat) : Prop := ProtP c s.nst (s.cs t) h

structure Inv (c : Cfg) (s : State) : Prop where
  chain : Chain s s.head s.abs
  pchain : ∀ t, Chain s (s.cur t) (s.priv t)
  nodup : s.abs.Nodup
  pnodup : ∀ t, (s.priv t).Nodup
  abs_st : ∀ a, a ∈ s.abs ↔ s.nst a = .inStack
  priv_st : ∀ t a, a ∈ s.priv t ↔ s.nst a = .limbo t
  pcX : ∀ t n, s.pc t = .pushX n → s.nst n = .own t ∧ isNode n ∧ ((n, 0) ∈ s.buf t ∨ s.next n = 0)
  own_pc : ∀ t n, s.nst n = .own t → s.pc t = .pushX n
  pcSt : ∀ t n o, s.pc t = .pushSt n o → s.buf t = [] ∧ s.next n = 0 ∧ o ≠ 0 ∧ isNode n ∧
            (s.nst n = .inStack ∨ ∃ u, u ≠ t ∧ s.nst n = .limbo u)
  bufInit : ∀ t a, (a, 0) ∈ s.buf t → s.pc t = .pushX a
  bufC : ∀ t a v, (a, v) ∈ s.buf t → v ≠ 0 → s.next a = 0 ∧ isNode a ∧
            (s.nst a = .inStack ∨ ∃ u, u ≠ t ∧ s.nst a = .limbo u)
  bufNd : ∀ t, (s.buf t).Nodup
  pend_pp : ∀ t u a b b', s.pc t = .pushSt a b → s.pc u = .pushSt a b' → t = u
  pend_pb : ∀ t u a b b', s.pc t = .pushSt a b → (a, b') ∈ s.buf u → b' = 0
  pend_bb : ∀ t u a b b', (a, b) ∈ s.buf t → (a, b') ∈ s.buf u → b ≠ 0 → b' ≠ 0 → t = u ∧ b = b'
  popR1 : ∀ t b, s.pc t = .popLd b → hasRight c s t
  popR2 : ∀ t b h, s.pc t = .popSync b h → hasRight c s t ∧ Prot c s t h
  popR3 : ∀ t b h nx, s.pc t = .popCas b h nx → hasRight c s t ∧ Prot c s t h ∧ nx ≠ 0 ∧
            (s.next h = nx ∨ (h, nx) ∈ s.buf t)
  retired_rcu : ∀ a τ, s.nst a = .retired τ → c.scheme = .rcu ∧ τ < s.clock
  retired_nx : ∀ a τ, s.nst a = .retired τ → s.next a ≠ 0
  cs_lt : ∀ t, s.cs t ≠ 0 → s.cs t < s.clock ∧ t < c.n ∧ s.gpDone ≤ s.cs t
  gp_lt : s.gpDone < s.clock ∧ ∀ a, s.gpCur = some a → a < s.clock
  hist : Valid s.hist s.abs

theorem inv_init (c) : Inv c init := by
  constructor <;> simp [init]
  · exact .nil
  · exact .nil
  · exact .nil


theorem chain_cons_inv {s : State} {h l} (c : Chain s h l) (hn : h ≠ END) :
    ∃ b r, l = h :: r ∧ isNode h ∧ lnext s h b ∧ Chain s b r := by
  cases c with
  | nil => exact absurd rfl hn
  | cons h1 h2 h3 => exact ⟨_, _, rfl, h1, h2, h3⟩

/-- frame condition for one node: nothing in flight for it is lost -/
macro "frame_tac" : tactic => `(tactic| (
  intro u hp; refine ⟨u, ?_⟩; simp only [PendC, upd] at *; grind))

/-- remaining clauses of a step that leaves the lock, the sections and the node life cycle alone -/
macro "rest_tac" : tactic => `(tactic| (
  all_goals (first | assumption | skip)
  all_goals (simp only [upd, hasRight_eq, hasRightAll_eq, Prot] at *)
  all_goals grind))

/-- … of a step that changes the node life cycle: `Prot` unfolded -/
macro "rest_tac_p" : tactic => `(tactic| (
  all_goals (first | assumption | skip)
  all_goals (simp only [upd, hasRight_eq, hasRightAll_eq, Prot, ProtP, released] at *)
  all_goals grind))

/-- … of a step that touches the lock / the sections: scheme predicates unfolded -/
macro "rest_tac_u" : tactic => `(tactic| (
  all_goals (first | assumption | skip)
  all_goals (simp only [upd, hasRight_eq, hasRightAll_eq, Prot, ProtP, hasRightP, hasRightAllP, released] at *)
  all_goals grind))

theorem inv_pushBegin (c : Cfg) (wf : c.WF) {s s' : State} (h : Inv c s) (t n)
    (st : step c s (.pushBegin t n) = some s') : Inv c s' := by
  obtain ⟨hc, hpc, hnd, hpnd, habs, hpriv, hpcX, hown, hpcSt, hbI, hbC, hbN, hpp, hpb, hbb, hr1, hr2, hr3, hret, hrnx, hcs, hgp, hh⟩ := h
  simp only [step] at st
  split at st
  · next g =>
    obtain ⟨g1, g2, g3⟩ := g
    simp only [Option.some.injEq] at st; subst st
    constructor
    · refine chain_congr hc ?_
      intro a ha b hl
      refine lnext_frame (s := s) rfl ?_ hl
      frame_tac
    · intro u
      refine chain_congr (hpc u) ?_
      intro a ha b hl
      refine lnext_frame (s := s) rfl ?_ hl
      frame_tac
    rest_tac_p
  · simp at st

theorem inv_pushX (c : Cfg) (wf : c.WF) {s s' : State} (h : Inv c s) (t)
    (st : step c s (.pushX t) = some s') : Inv c s' := by
  obtain ⟨hc, hpc, hnd, hpnd, habs, hpriv, hpcX, hown, hpcSt, hbI, hbC, hbN, hpp, hpb, hbb, hr1, hr2, hr3, hret, hrnx, hcs, hgp, hh⟩ := h
  simp only [step] at st
  split at st
  · next n hp =>
    split at st
    · next hb =>
      simp only [Option.some.injEq] at st; subst st
      have hX := hpcX t n hp
      have hnz := chain_head_nz hc
      have hn0 : s.next n = 0 := by
        rcases hX.2.2 with h1 | h1
        · rw [hb] at h1; simp at h1
        · exact h1
      have hnabs : n ∉ s.abs := by
        intro hm; have := (habs n).1 hm; rw [hX.1] at this; simp at this
      constructor
      · refine .cons hX.2.1 ?_ (chain_congr hc ?_)
        · right; exact ⟨hn0, t, by simp [PendC, upd]⟩
        · intro a ha b hl
          refine lnext_frame (s := s) rfl ?_ hl
          frame_tac
      · intro u
        refine chain_congr (hpc u) ?_
        intro a ha b hl
        refine lnext_frame (s := s) rfl ?_ hl
        frame_tac
      · simp only [List.nodup_cons]; exact ⟨hnabs, hnd⟩
      case hist =>
        exact hh.step t (.push n) (by simp [apply, head_end_iff hc])
      rest_tac_p
    · simp at st
  all_goals (first | (simp at st; done) | skip)

theorem inv_pushSt (c : Cfg) (wf : c.WF) {s s' : State} (h : Inv c s) (t)
    (st : step c s (.pushSt t) = some s') : Inv c s' := by
  obtain ⟨hc, hpc, hnd, hpnd, habs, hpriv, hpcX, hown, hpcSt, hbI, hbC, hbN, hpp, hpb, hbb, hr1, hr2, hr3, hret, hrnx, hcs, hgp, hh⟩ := h
  simp only [step] at st
  split at st
  · next n o hp =>
    simp only [Option.some.injEq] at st; subst st
    have hS := hpcSt t n o hp
    constructor
    · refine chain_congr hc ?_
      intro a ha b hl
      refine lnext_frame (s := s) rfl ?_ hl
      intro u hp; refine ⟨u, ?_⟩; simp only [PendC, upd, List.mem_append, List.mem_singleton] at *; grind
    · intro u
      refine chain_congr (hpc u) ?_
      intro a ha b hl
      refine lnext_frame (s := s) rfl ?_ hl
      intro u hp; refine ⟨u, ?_⟩; simp only [PendC, upd, List.mem_append, List.mem_singleton] at *; grind
    all_goals (first | assumption | skip)
    all_goals (simp only [upd, hasRight_eq, hasRightAll_eq, Prot, List.mem_append, List.mem_singleton] at *)
    all_goals grind
  all_goals (first | (simp at st; done) | skip)

theorem inv_flush (c : Cfg) (wf : c.WF) {s s' : State} (h : Inv c s) (t)
    (st : step c s (.flush t) = some s') : Inv c s' := by
  obtain ⟨hc, hpc, hnd, hpnd, habs, hpriv, hpcX, hown, hpcSt, hbI, hbC, hbN, hpp, hpb, hbb, hr1, hr2, hr3, hret, hrnx, hcs, hgp, hh⟩ := h
  simp only [step] at st
  split at st
  · next m v rest hb =>
    simp only [Option.some.injEq] at st; subst st
    have key : ∀ a, (s.nst a = .inStack ∨ ∃ u, s.nst a = .limbo u) → ∀ b, lnext s a b →
        lnext { s with next := upd s.next m v, buf := upd s.buf t rest } a b := by
      intro a hst b hl
      by_cases e : a = m
      · subst e
        have hm : (a, v) ∈ s.buf t := by rw [hb]; simp
        by_cases v0 : v = 0
        · subst v0
          have := hbI t a hm
          have := hpcX t a this
          grind
        · have hC := hbC t a v hm v0
          rcases hl with ⟨h1, h2⟩ | ⟨h1, u, h2⟩
          · exfalso; rw [hC.1] at h1; exact h2 h1.symm
          · left
            have : b = v := by
              rcases h2 with h2 | ⟨h2, h3⟩
              · have := hpb u t a b v h2 hm; contradiction
              · exact ((hbb u t a b v h2 hm h3 v0).2)
            subst this
            simp [upd, v0]
      · refine lnext_frame (s := s) (by simp [upd, e]) ?_ hl
        intro u hp; refine ⟨u, ?_⟩; simp only [PendC, upd] at *
        by_cases hu : u = t
        · subst hu
          rw [hb] at hp
          simp only [List.mem_cons, Prod.mk.injEq] at hp
          grind
        · grind
    have hsub : ∀ x, x ∈ rest → x ∈ s.buf t := by intro x hx; rw [hb]; simp [hx]
    have hsplit : ∀ x, x ∈ s.buf t → x = (m, v) ∨ x ∈ rest := by intro x hx; rw [hb] at hx; simpa using hx
    have hm : (m, v) ∈ s.buf t := by rw [hb]; simp
    have hnd2 := hbN t
    rw [hb, List.nodup_cons] at hnd2
    have hmI : v = 0 → s.pc t = .pushX m := by intro e; subst e; exact hbI t m hm
    have hmC := hbC t m v hm
    have hmpb : ∀ t1 o, s.pc t1 = .pushSt m o → v = 0 := fun t1 o h => hpb t1 t m o v h hm
    have hmbb : ∀ u b, (m, b) ∈ s.buf u → b ≠ 0 → v ≠ 0 → u = t ∧ b = v := fun u b h1 h2 h3 => hbb u t m b v h1 hm h2 h3
    constructor
    · refine chain_congr hc ?_
      intro a ha b hl
      exact key a (Or.inl ((habs a).1 ha)) b hl
    · intro u
      refine chain_congr (hpc u) ?_
      intro a ha b hl
      exact key a (Or.inr ⟨u, (hpriv u a).1 ha⟩) b hl
    all_goals (clear key hc hpc)
    all_goals (first | assumption | skip)
    all_goals (simp only [upd, hasRight_eq, hasRightAll_eq, Prot, ProtP] at *)
    all_goals grind
  · simp at st


set_option hygiene false in
/-- steps that change neither memory, buffers nor the push pcs: every chain is kept -/
macro "simple_frames" : tactic => `(tactic| (
  first
  | (refine chain_congr hc ?_
     intro a ha b hl
     refine lnext_frame (s := s) rfl ?_ hl
     frame_tac)
  | (intro u
     refine chain_congr (hpc u) ?_
     intro a ha b hl
     refine lnext_frame (s := s) rfl ?_ hl
     frame_tac)))

theorem inv_lock (c : Cfg) (wf : c.WF) {s s' : State} (h : Inv c s) (t)
    (st : step c s (.lock t) = some s') : Inv c s' := by
  obtain ⟨hc, hpc, hnd, hpnd, habs, hpriv, hpcX, hown, hpcSt, hbI, hbC, hbN, hpp, hpb, hbb, hr1, hr2, hr3, hret, hrnx, hcs, hgp, hh⟩ := h
  simp only [step] at st
  split at st
  · next g =>
    simp only [Option.some.injEq] at st; subst st
    unfold Cfg.WF at wf
    constructor
    · simple_frames
    · simple_frames
    rest_tac_u
  · simp at st

theorem inv_unlock (c : Cfg) (wf : c.WF) {s s' : State} (h : Inv c s) (t)
    (st : step c s (.unlock t) = some s') : Inv c s' := by
  obtain ⟨hc, hpc, hnd, hpnd, habs, hpriv, hpcX, hown, hpcSt, hbI, hbC, hbN, hpp, hpb, hbb, hr1, hr2, hr3, hret, hrnx, hcs, hgp, hh⟩ := h
  simp only [step] at st
  split at st
  · next g =>
    simp only [Option.some.injEq] at st; subst st
    unfold Cfg.WF at wf
    constructor
    · simple_frames
    · simple_frames
    rest_tac_u
  · simp at st

theorem inv_empty (c : Cfg) (wf : c.WF) {s s' : State} (h : Inv c s) (t)
    (st : step c s (.empty t) = some s') : Inv c s' := by
  obtain ⟨hc, hpc, hnd, hpnd, habs, hpriv, hpcX, hown, hpcSt, hbI, hbC, hbN, hpp, hpb, hbb, hr1, hr2, hr3, hret, hrnx, hcs, hgp, hh⟩ := h
  simp only [step] at st
  split at st
  · next g =>
    simp only [Option.some.injEq] at st; subst st
    constructor
    · simple_frames
    · simple_frames
    case hist =>
      exact hh.step t .empty (by simp [apply, head_end_iff' hc])
    rest_tac
  · simp at st

theorem inv_popBegin (c : Cfg) (wf : c.WF) {s s' : State} (h : Inv c s) (t b)
    (st : step c s (.popBegin t b) = some s') : Inv c s' := by
  obtain ⟨hc, hpc, hnd, hpnd, habs, hpriv, hpcX, hown, hpcSt, hbI, hbC, hbN, hpp, hpb, hbb, hr1, hr2, hr3, hret, hrnx, hcs, hgp, hh⟩ := h
  simp only [step] at st
  split at st
  · next g =>
    simp only [Option.some.injEq] at st; subst st
    constructor
    · simple_frames
    · simple_frames
    rest_tac
  · simp at st

theorem inv_popLd (c : Cfg) (wf : c.WF) {s s' : State} (h : Inv c s) (t)
    (st : step c s (.popLd t) = some s') : Inv c s' := by
  obtain ⟨hc, hpc, hnd, hpnd, habs, hpriv, hpcX, hown, hpcSt, hbI, hbC, hbN, hpp, hpb, hbb, hr1, hr2, hr3, hret, hrnx, hcs, hgp, hh⟩ := h
  simp only [step] at st
  split at st
  · next b hp =>
    split at st
    · next he =>
      simp only [Option.some.injEq] at st; subst st
      have hnil : s.abs = [] := (chain_nil_iff hc).1 he
      constructor
      · simple_frames
      · simple_frames
      case hist =>
        exact hh.step t .pop (by simp [apply, hnil])
      rest_tac
    · next he =>
      simp only [Option.some.injEq] at st; subst st
      have hmem : s.head ∈ s.abs := by
        rcases chain_head hc with ⟨e, _⟩ | ⟨_, r, e⟩
        · exact absurd e he
        · rw [e]; simp
      have hin := (habs _).1 hmem
      have hnode : isNode s.head := by
        rcases chain_head hc with ⟨e, _⟩ | ⟨e, _⟩
        · exact absurd e he
        · exact e
      have hR := hr1 t b hp
      constructor
      · simple_frames
      · simple_frames
      rest_tac_p
  all_goals (first | (simp at st; done) | skip)

theorem inv_popSync (c : Cfg) (wf : c.WF) {s s' : State} (h : Inv c s) (t)
    (st : step c s (.popSync t) = some s') : Inv c s' := by
  obtain ⟨hc, hpc, hnd, hpnd, habs, hpriv, hpcX, hown, hpcSt, hbI, hbC, hbN, hpp, hpb, hbb, hr1, hr2, hr3, hret, hrnx, hcs, hgp, hh⟩ := h
  simp only [step] at st
  split at st
  · next b h0 hp =>
    have hrd := rd_cases s t h0
    split at st
    · split at st
      · simp only [Option.some.injEq] at st; subst st
        exact ⟨hc, hpc, hnd, hpnd, habs, hpriv, hpcX, hown, hpcSt, hbI, hbC, hbN, hpp, hpb, hbb, hr1, hr2, hr3, hret, hrnx, hcs, hgp, hh⟩
      · simp only [Option.some.injEq] at st; subst st
        constructor
        · simple_frames
        · simple_frames
        rest_tac
    · next hv =>
      simp only [Option.some.injEq] at st; subst st
      constructor
      · simple_frames
      · simple_frames
      rest_tac
  all_goals (first | (simp at st; done) | skip)

end UrcuVerif.Wfs
