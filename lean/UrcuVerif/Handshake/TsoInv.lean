import UrcuVerif.Handshake.Tso
/-! Inductive invariant of the TSO futex handshake (helper lemmas; statements in `Props/C02.lean`). -/
set_option linter.unusedSimpArgs false
namespace UrcuVerif.Handshake
open UrcuVerif

/-- waker i has not yet passed its futex test with a stale value: it will (re)set the futex and
call FUTEX_WAKE for the current round -/
def willWake (s : State) (i : Nat) : Prop :=
  s.kpc i = .k0 ∨ s.kpc i = .kf ∨ s.kpc i = .k1 ∨ (s.kpc i = .k2 ∧ s.r i = -1) ∨ (s.kpc i = .k3 ∧ s.bfut i = true)

structure Inv (c : Cfg) (s : State) : Prop where
  fut_range : s.futex = 0 ∨ s.futex = -1
  w0_fut : s.wpc = .w0 → s.futex = 0
  k0_clean : ∀ i, s.kpc i = .k0 → s.bdone i = false ∧ s.mdone i = false
  bfut_k3 : ∀ i, s.bfut i = true → s.kpc i = .k3
  kpc_bound : ∀ i, s.kpc i ≠ .k0 → i < c.n
  k3_fifo : ∀ i, s.kpc i = .k3 → s.bfut i = false → s.bdone i = false
  done_vis : ∀ i, s.kpc i ≠ .k0 → s.bdone i = false → s.mdone i = true
  fence_vis : c.slaveFence = true → ∀ i, (s.kpc i = .k1 ∨ s.kpc i = .k2 ∨ s.kpc i = .k3 ∨ s.kpc i = .k4) → s.mdone i = true
  r_range : ∀ i, s.r i = 0 ∨ s.r i = -1
  /-- a waker that passed its futex test with the stale value 0 has its word visible once the
  waiter's barrier is over (as long as the futex still reads -1, i.e. this round is not yet woken) -/
  stale_vis : (s.wpc = .w1 ∨ s.wpc = .w2 ∨ s.wpc = .wsleep) → s.futex = -1 →
      ∀ i, i < c.n → (s.kpc i = .k2 ∨ s.kpc i = .k4) → s.r i ≠ -1 → s.mdone i = true
  stale_bar : s.wpc = .wbar → s.futex = -1 →
      ∀ i, i < c.n → (s.kpc i = .k2 ∨ s.kpc i = .k4) → s.r i ≠ -1 → s.mdone i = true ∨ (c.membarrier = true ∧ s.pend i = true)
  k4_woke : ∀ i, s.kpc i = .k4 → s.r i = -1 → s.mdone i = true
  asleep_m1 : (s.wpc = .w2 ∨ s.wpc = .wsleep) → s.futex = -1 → ∃ i, i < c.n ∧ willWake s i
  asleep_0 : s.wpc = .wsleep → s.futex = 0 → ∃ i, i < c.n ∧ s.kpc i = .k3

theorem inv_init (c) : Inv c init := by
  constructor <;> simp [init, willWake]

set_option hygiene false in
macro "hs_pre" : tactic => `(tactic| (
  simp only [step] at st
  (repeat' split at st)
  all_goals (first | (simp at st; done) | skip)
  all_goals (simp only [Option.some.injEq] at st; subst st)))

set_option hygiene false in
macro "hs_tac" : tactic => `(tactic| (
  hs_pre
  all_goals (constructor <;> simp only [upd, willWake] at * <;> grind)))

set_option linter.unusedVariables false

theorem inv_w0 (c : Cfg) (hc : c.WF) {s s' : State} (h : Inv c s)
    (st : step c s .w0 = some s') : Inv c s' := by
  obtain ⟨h1, h2, h3, h4, h4b, h4', h5, h6, h7, h8, h9, h10, h11, h12⟩ := h
  unfold Cfg.WF at hc
  hs_tac

theorem inv_forced (c : Cfg) (hc : c.WF) {s s' : State} (h : Inv c s) (i : Nat)
    (st : step c s (.forced i) = some s') : Inv c s' := by
  obtain ⟨h1, h2, h3, h4, h4b, h4', h5, h6, h7, h8, h9, h10, h11, h12⟩ := h
  unfold Cfg.WF at hc
  hs_tac

theorem inv_wbarRet (c : Cfg) (hc : c.WF) {s s' : State} (h : Inv c s)
    (st : step c s .wbarRet = some s') : Inv c s' := by
  obtain ⟨h1, h2, h3, h4, h4b, h4', h5, h6, h7, h8, h9, h10, h11, h12⟩ := h
  unfold Cfg.WF at hc
  hs_tac

theorem inv_w1All (c : Cfg) (hc : c.WF) {s s' : State} (h : Inv c s)
    (st : step c s .w1All = some s') : Inv c s' := by
  obtain ⟨h1, h2, h3, h4, h4b, h4', h5, h6, h7, h8, h9, h10, h11, h12⟩ := h
  unfold Cfg.WF at hc
  hs_tac

theorem inv_w2Sleep (c : Cfg) (hc : c.WF) {s s' : State} (h : Inv c s)
    (st : step c s .w2Sleep = some s') : Inv c s' := by
  obtain ⟨h1, h2, h3, h4, h4b, h4', h5, h6, h7, h8, h9, h10, h11, h12⟩ := h
  unfold Cfg.WF at hc
  hs_tac

theorem inv_w2Ret (c : Cfg) (hc : c.WF) {s s' : State} (h : Inv c s)
    (st : step c s .w2Ret = some s') : Inv c s' := by
  obtain ⟨h1, h2, h3, h4, h4b, h4', h5, h6, h7, h8, h9, h10, h11, h12⟩ := h
  unfold Cfg.WF at hc
  hs_tac

theorem inv_wSpurious (c : Cfg) (hc : c.WF) {s s' : State} (h : Inv c s)
    (st : step c s .wSpurious = some s') : Inv c s' := by
  obtain ⟨h1, h2, h3, h4, h4b, h4', h5, h6, h7, h8, h9, h10, h11, h12⟩ := h
  unfold Cfg.WF at hc
  hs_tac

theorem inv_w4 (c : Cfg) (hc : c.WF) {s s' : State} (h : Inv c s)
    (st : step c s .w4 = some s') : Inv c s' := by
  obtain ⟨h1, h2, h3, h4, h4b, h4', h5, h6, h7, h8, h9, h10, h11, h12⟩ := h
  unfold Cfg.WF at hc
  hs_tac

theorem inv_k0 (c : Cfg) (hc : c.WF) {s s' : State} (h : Inv c s) (i : Nat)
    (st : step c s (.k0 i) = some s') : Inv c s' := by
  obtain ⟨h1, h2, h3, h4, h4b, h4', h5, h6, h7, h8, h9, h10, h11, h12⟩ := h
  unfold Cfg.WF at hc
  hs_tac

theorem inv_kf (c : Cfg) (hc : c.WF) {s s' : State} (h : Inv c s) (i : Nat)
    (st : step c s (.kf i) = some s') : Inv c s' := by
  obtain ⟨h1, h2, h3, h4, h4b, h4', h5, h6, h7, h8, h9, h10, h11, h12⟩ := h
  unfold Cfg.WF at hc
  hs_tac

theorem inv_k1 (c : Cfg) (hc : c.WF) {s s' : State} (h : Inv c s) (i : Nat)
    (st : step c s (.k1 i) = some s') : Inv c s' := by
  obtain ⟨h1, h2, h3, h4, h4b, h4', h5, h6, h7, h8, h9, h10, h11, h12⟩ := h
  unfold Cfg.WF at hc
  hs_tac

theorem inv_k2Wake (c : Cfg) (hc : c.WF) {s s' : State} (h : Inv c s) (i : Nat)
    (st : step c s (.k2Wake i) = some s') : Inv c s' := by
  obtain ⟨h1, h2, h3, h4, h4b, h4', h5, h6, h7, h8, h9, h10, h11, h12⟩ := h
  unfold Cfg.WF at hc
  hs_tac

theorem inv_k2Skip (c : Cfg) (hc : c.WF) {s s' : State} (h : Inv c s) (i : Nat)
    (st : step c s (.k2Skip i) = some s') : Inv c s' := by
  obtain ⟨h1, h2, h3, h4, h4b, h4', h5, h6, h7, h8, h9, h10, h11, h12⟩ := h
  unfold Cfg.WF at hc
  hs_tac

theorem inv_k3 (c : Cfg) (hc : c.WF) {s s' : State} (h : Inv c s) (i : Nat)
    (st : step c s (.k3 i) = some s') : Inv c s' := by
  obtain ⟨h1, h2, h3, h4, h4b, h4', h5, h6, h7, h8, h9, h10, h11, h12⟩ := h
  unfold Cfg.WF at hc
  hs_tac

theorem inv_flushDone (c : Cfg) (hc : c.WF) {s s' : State} (h : Inv c s) (i : Nat)
    (st : step c s (.flushDone i) = some s') : Inv c s' := by
  obtain ⟨h1, h2, h3, h4, h4b, h4', h5, h6, h7, h8, h9, h10, h11, h12⟩ := h
  unfold Cfg.WF at hc
  hs_tac

theorem inv_w1Some (c : Cfg) (hc : c.WF) {s s' : State} (h : Inv c s) (i : Nat)
    (st : step c s (.w1Some i) = some s') : Inv c s' := by
  obtain ⟨h1, h2, h3, h4, h4b, h4', h5, h6, h7, h8, h9, h10, h11, h12⟩ := h
  unfold Cfg.WF at hc
  hs_pre
  rename_i hg
  constructor <;> simp only [upd, willWake] at * <;> (first | grind | skip)
  -- asleep_m1: the reader the scan found active is the witness
  intro _ hf
  refine ⟨i, hg.2.1, ?_⟩
  have hr := h7 i
  have h8i := h8 (Or.inl hg.1) hf i hg.2.1
  have h10i := h10 i
  have h5i := h5 i
  have h4i := h4' i
  cases hk : s.kpc i <;> simp_all <;> grind

theorem inv_flushFut (c : Cfg) (hc : c.WF) {s s' : State} (h : Inv c s) (i : Nat)
    (st : step c s (.flushFut i) = some s') : Inv c s' := by
  obtain ⟨h1, h2, h3, h4, h4b, h4', h5, h6, h7, h8, h9, h10, h11, h12⟩ := h
  unfold Cfg.WF at hc
  hs_tac

theorem inv_step (c : Cfg) (hc : c.WF) {s s' : State} {l : Label} (h : Inv c s)
    (st : step c s l = some s') : Inv c s' := by
  cases l with
  | w0 => exact inv_w0 c hc h st
  | forced i => exact inv_forced c hc h i st
  | wbarRet => exact inv_wbarRet c hc h st
  | w1All => exact inv_w1All c hc h st
  | w2Sleep => exact inv_w2Sleep c hc h st
  | w2Ret => exact inv_w2Ret c hc h st
  | wSpurious => exact inv_wSpurious c hc h st
  | w4 => exact inv_w4 c hc h st
  | k0 i => exact inv_k0 c hc h i st
  | kf i => exact inv_kf c hc h i st
  | k1 i => exact inv_k1 c hc h i st
  | k2Wake i => exact inv_k2Wake c hc h i st
  | k2Skip i => exact inv_k2Skip c hc h i st
  | k3 i => exact inv_k3 c hc h i st
  | flushDone i => exact inv_flushDone c hc h i st
  | w1Some i => exact inv_w1Some c hc h i st
  | flushFut i => exact inv_flushFut c hc h i st

theorem inv_reach (c : Cfg) (hc : c.WF) {s : State} (h : Reach c s) : Inv c s := by
  induction h with
  | init => exact inv_init c
  | step _ st ih => exact inv_step c hc ih st

end UrcuVerif.Handshake
