import UrcuVerif.Handshake.QsbrTso
/-! Inductive step of the QSBR handshake invariant, one lemma per label. -/
set_option linter.unusedVariables false
set_option linter.unusedSimpArgs false
namespace UrcuVerif.QsbrHs
open UrcuVerif

set_option hygiene false in
macro "qh_tac" : tactic => `(tactic| (
  simp only [step] at st
  (repeat' split at st)
  all_goals (first | (simp at st; done) | skip)
  all_goals (simp only [Option.some.injEq] at st; subst st)
  all_goals (constructor <;> simp only [upd, willWake] at * <;> grind)))

theorem inv_w0 (c : Cfg) {s s' : State} (h : Inv c s)
    (st : step c s .w0 = some s') : Inv c s' := by
  obtain ⟨h1, h2, h3, h4, h5, h6, h7, h8, h9, h10, h11, h12⟩ := h
  qh_tac

theorem inv_wArm (c : Cfg) {s s' : State} (h : Inv c s) (i : Nat)
    (st : step c s (.wArm i) = some s') : Inv c s' := by
  obtain ⟨h1, h2, h3, h4, h5, h6, h7, h8, h9, h10, h11, h12⟩ := h
  qh_tac

theorem inv_wMb (c : Cfg) {s s' : State} (h : Inv c s)
    (st : step c s .wMb = some s') : Inv c s' := by
  obtain ⟨h1, h2, h3, h4, h5, h6, h7, h8, h9, h10, h11, h12⟩ := h
  qh_tac

theorem inv_w1All (c : Cfg) {s s' : State} (h : Inv c s)
    (st : step c s .w1All = some s') : Inv c s' := by
  obtain ⟨h1, h2, h3, h4, h5, h6, h7, h8, h9, h10, h11, h12⟩ := h
  qh_tac

theorem inv_w1Some (c : Cfg) {s s' : State} (h : Inv c s) (i : Nat)
    (st : step c s (.w1Some i) = some s') : Inv c s' := by
  obtain ⟨h1, h2, h3, h4, h5, h6, h7, h8, h9, h10, h11, h12⟩ := h
  qh_tac

theorem inv_w2Sleep (c : Cfg) {s s' : State} (h : Inv c s)
    (st : step c s .w2Sleep = some s') : Inv c s' := by
  obtain ⟨h1, h2, h3, h4, h5, h6, h7, h8, h9, h10, h11, h12⟩ := h
  qh_tac

theorem inv_w2Ret (c : Cfg) {s s' : State} (h : Inv c s)
    (st : step c s .w2Ret = some s') : Inv c s' := by
  obtain ⟨h1, h2, h3, h4, h5, h6, h7, h8, h9, h10, h11, h12⟩ := h
  qh_tac

theorem inv_wSpurious (c : Cfg) {s s' : State} (h : Inv c s)
    (st : step c s .wSpurious = some s') : Inv c s' := by
  obtain ⟨h1, h2, h3, h4, h5, h6, h7, h8, h9, h10, h11, h12⟩ := h
  qh_tac

theorem inv_w4 (c : Cfg) {s s' : State} (h : Inv c s)
    (st : step c s .w4 = some s') : Inv c s' := by
  obtain ⟨h1, h2, h3, h4, h5, h6, h7, h8, h9, h10, h11, h12⟩ := h
  qh_tac

theorem inv_flushFutM1 (c : Cfg) {s s' : State} (h : Inv c s)
    (st : step c s .flushFutM1 = some s') : Inv c s' := by
  obtain ⟨h1, h2, h3, h4, h5, h6, h7, h8, h9, h10, h11, h12⟩ := h
  qh_tac

theorem inv_flushWait (c : Cfg) {s s' : State} (h : Inv c s) (i : Nat)
    (st : step c s (.flushWait i) = some s') : Inv c s' := by
  obtain ⟨h1, h2, h3, h4, h5, h6, h7, h8, h9, h10, h11, h12⟩ := h
  qh_tac

theorem inv_k0 (c : Cfg) {s s' : State} (h : Inv c s) (i : Nat)
    (st : step c s (.k0 i) = some s') : Inv c s' := by
  obtain ⟨h1, h2, h3, h4, h5, h6, h7, h8, h9, h10, h11, h12⟩ := h
  qh_tac

theorem inv_k1Set (c : Cfg) {s s' : State} (h : Inv c s) (i : Nat)
    (st : step c s (.k1Set i) = some s') : Inv c s' := by
  obtain ⟨h1, h2, h3, h4, h5, h6, h7, h8, h9, h10, h11, h12⟩ := h
  qh_tac

theorem inv_k1Clear (c : Cfg) {s s' : State} (h : Inv c s) (i : Nat)
    (st : step c s (.k1Clear i) = some s') : Inv c s' := by
  obtain ⟨h1, h2, h3, h4, h5, h6, h7, h8, h9, h10, h11, h12⟩ := h
  qh_tac

theorem inv_k2 (c : Cfg) {s s' : State} (h : Inv c s) (i : Nat)
    (st : step c s (.k2 i) = some s') : Inv c s' := by
  obtain ⟨h1, h2, h3, h4, h5, h6, h7, h8, h9, h10, h11, h12⟩ := h
  qh_tac

theorem inv_kf (c : Cfg) {s s' : State} (h : Inv c s) (i : Nat)
    (st : step c s (.kf i) = some s') : Inv c s' := by
  obtain ⟨h1, h2, h3, h4, h5, h6, h7, h8, h9, h10, h11, h12⟩ := h
  qh_tac

theorem inv_k3 (c : Cfg) {s s' : State} (h : Inv c s) (i : Nat)
    (st : step c s (.k3 i) = some s') : Inv c s' := by
  obtain ⟨h1, h2, h3, h4, h5, h6, h7, h8, h9, h10, h11, h12⟩ := h
  qh_tac

theorem inv_k4Wake (c : Cfg) {s s' : State} (h : Inv c s) (i : Nat)
    (st : step c s (.k4Wake i) = some s') : Inv c s' := by
  obtain ⟨h1, h2, h3, h4, h5, h6, h7, h8, h9, h10, h11, h12⟩ := h
  qh_tac

theorem inv_k4Skip (c : Cfg) {s s' : State} (h : Inv c s) (i : Nat)
    (st : step c s (.k4Skip i) = some s') : Inv c s' := by
  obtain ⟨h1, h2, h3, h4, h5, h6, h7, h8, h9, h10, h11, h12⟩ := h
  qh_tac

theorem inv_k5 (c : Cfg) {s s' : State} (h : Inv c s) (i : Nat)
    (st : step c s (.k5 i) = some s') : Inv c s' := by
  obtain ⟨h1, h2, h3, h4, h5, h6, h7, h8, h9, h10, h11, h12⟩ := h
  qh_tac

theorem inv_flushW0 (c : Cfg) {s s' : State} (h : Inv c s) (i : Nat)
    (st : step c s (.flushW0 i) = some s') : Inv c s' := by
  obtain ⟨h1, h2, h3, h4, h5, h6, h7, h8, h9, h10, h11, h12⟩ := h
  qh_tac

theorem inv_flushF0 (c : Cfg) {s s' : State} (h : Inv c s) (i : Nat)
    (st : step c s (.flushF0 i) = some s') : Inv c s' := by
  obtain ⟨h1, h2, h3, h4, h5, h6, h7, h8, h9, h10, h11, h12⟩ := h
  qh_tac

theorem inv_step (c : Cfg) {s s' : State} {l : Label} (h : Inv c s)
    (st : step c s l = some s') : Inv c s' := by
  cases l with
  | w0 => exact inv_w0 c h st
  | wArm i => exact inv_wArm c h i st
  | wMb => exact inv_wMb c h st
  | w1All => exact inv_w1All c h st
  | w1Some i => exact inv_w1Some c h i st
  | w2Sleep => exact inv_w2Sleep c h st
  | w2Ret => exact inv_w2Ret c h st
  | wSpurious => exact inv_wSpurious c h st
  | w4 => exact inv_w4 c h st
  | flushFutM1 => exact inv_flushFutM1 c h st
  | flushWait i => exact inv_flushWait c h i st
  | k0 i => exact inv_k0 c h i st
  | k1Set i => exact inv_k1Set c h i st
  | k1Clear i => exact inv_k1Clear c h i st
  | k2 i => exact inv_k2 c h i st
  | kf i => exact inv_kf c h i st
  | k3 i => exact inv_k3 c h i st
  | k4Wake i => exact inv_k4Wake c h i st
  | k4Skip i => exact inv_k4Skip c h i st
  | k5 i => exact inv_k5 c h i st
  | flushW0 i => exact inv_flushW0 c h i st
  | flushF0 i => exact inv_flushF0 c h i st

theorem inv_reach (c : Cfg) {s : State} (h : Reach c s) : Inv c s := by
  induction h with
  | init => exact inv_init c
  | step _ st ih => exact inv_step c ih st

end UrcuVerif.QsbrHs
