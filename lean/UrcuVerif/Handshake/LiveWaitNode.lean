import UrcuVerif.Machine.Fair
import UrcuVerif.Handshake.WaitNode
/-! Helper lemmas for `waiter_eventually_returns` (`Props/LiveC02.lean`): the wait-node hand-over of
`urcu_adaptative_wake_up()` / `urcu_adaptative_busy_wait()`. -/
set_option linter.unusedSimpArgs false
namespace UrcuVerif.WaitNode
open UrcuVerif.Fair

/-- steps of the leader's thread (its store-buffer commit included) -/
def leaderLabel : Label → Prop
  | .lStore | .lFlush | .lLoad | .lWake | .lSkipWake | .lTeardown => True
  | _ => False

/-- steps of the waiter's thread (`wSpurious`, a spurious / EINTR return of `FUTEX_WAIT`, is an environment step) -/
def waiterLabel : Label → Prop
  | .wSeeWaiting | .wSleep | .wEagain | .wSeeWoken | .wOrRunning | .wSeeTeardown => True
  | _ => False

/-- the invariant of `WaitNode.lean` plus: the leader's last access leaves TEARDOWN set -/
structure Inv2 (s : State) : Prop where
  inv : Inv s
  done_td : s.lpc = .ldone → s.teardown = true

theorem inv2_init : Inv2 init := ⟨inv_init, by simp [init]⟩

theorem inv2_step {s s' : State} {l : Label} (h : Inv2 s) (st : step s l = some s') : Inv2 s' := by
  refine ⟨inv_step h.inv st, ?_⟩
  obtain ⟨⟨h1, h2, h3, h4, h5, h6, h7, h7a, h7b, h8, h9⟩, h10⟩ := h
  cases l <;> simp only [step] at st <;> (repeat' split at st)
  all_goals (first | (simp at st; done) | skip)
  all_goals (simp only [Option.some.injEq] at st; subst st)
  all_goals ((try simp only [touch] at *) <;> grind)

theorem inv2_reach {s : State} (h : Reach s) : Inv2 s := by
  induction h with
  | init => exact inv2_init
  | step _ st ih => exact inv2_step ih st

def lRank : LPc → Nat
  | .l0 => 5 | .l1 => 4 | .l2 _ => 3 | .l3 => 2 | .ldone => 0

/-- own-step measure of the leader -/
def lMeasure (s : State) : Nat := 2 * lRank s.lpc + (if s.bufWakeup then 1 else 0)

theorem leader_enabled {s : State} (h : s.lpc ≠ .ldone) : Enabled step leaderLabel s := by
  by_cases hb : s.bufWakeup = true
  · exact ⟨.lFlush, trivial, by simp [step, hb]⟩
  · have hb : s.bufWakeup = false := by simpa using hb
    cases hp : s.lpc with
    | l0 => exact ⟨.lStore, trivial, by simp [step, hp]⟩
    | l1 => exact ⟨.lLoad, trivial, by simp [step, hp]⟩
    | l2 b =>
      cases b with
      | false => exact ⟨.lWake, trivial, by simp [step, hp, hb]⟩
      | true => exact ⟨.lSkipWake, trivial, by simp [step, hp]⟩
    | l3 => exact ⟨.lTeardown, trivial, by simp [step, hp, hb]⟩
    | ldone => exact absurd hp h

theorem leader_dec {s s' : State} {l : Label} (I : Inv s) (hl : leaderLabel l) (st : step s l = some s') :
    lMeasure s' < lMeasure s := by
  have hb := I.buf_pc
  cases l <;> simp only [leaderLabel] at hl <;> simp only [step] at st <;> split at st <;>
    simp only [Option.some.injEq, reduceCtorEq] at st <;> subst st <;> rename_i hg <;>
    simp only [lMeasure, touch] <;> simp_all [lRank] <;> (rcases Bool.eq_false_or_eq_true s.bufWakeup with h | h <;> simp [h])

theorem leader_other {s s' : State} {l : Label} (hl : ¬ leaderLabel l) (st : step s l = some s') :
    s'.lpc = s.lpc ∧ s'.bufWakeup = s.bufWakeup := by
  cases l <;> simp only [leaderLabel, not_true_eq_false] at hl <;> simp only [step] at st <;> split at st <;>
    simp only [Option.some.injEq, reduceCtorEq] at st <;> subst st <;> simp

def wRank : WPc → Nat
  | .sleep => 4 | .spin => 3 | .orRun => 2 | .waitTd => 1 | .returned => 0

theorem ldone_stable {s s' : State} {l : Label} (I : Inv s) (h : s.lpc = .ldone) (st : step s l = some s') :
    s'.lpc = .ldone := by
  have hb := I.buf_pc
  cases l <;> simp only [step] at st <;> split at st <;>
    simp only [Option.some.injEq, reduceCtorEq] at st <;> subst st <;> simp_all [touch]

theorem waiter_enabled {s : State} (I : Inv2 s) (hd : s.lpc = .ldone) (h : s.wpc ≠ .returned) :
    Enabled step waiterLabel s := by
  have hb : s.bufWakeup = false := by
    cases hb : s.bufWakeup with
    | false => rfl
    | true => have := I.inv.buf_pc hb; rw [hd] at this; simp at this
  have hw : s.wakeup = true := I.inv.past_wake (by rw [hd]; simp) hb
  have ht := I.done_td hd
  cases hp : s.wpc with
  | sleep => have := I.inv.asleep hp; rw [hd] at this; simp at this
  | spin => exact ⟨.wSeeWoken, trivial, by simp [step, hp, hw]⟩
  | orRun => exact ⟨.wOrRunning, trivial, by simp [step, hp]⟩
  | waitTd => exact ⟨.wSeeTeardown, trivial, by simp [step, hp, ht]⟩
  | returned => exact absurd hp h

theorem waiter_dec {s s' : State} {l : Label} (I : Inv2 s) (hd : s.lpc = .ldone) (hl : waiterLabel l)
    (st : step s l = some s') : wRank s'.wpc < wRank s.wpc := by
  have hb : s.bufWakeup = false := by
    cases hb : s.bufWakeup with
    | false => rfl
    | true => have := I.inv.buf_pc hb; rw [hd] at this; simp at this
  have hw : s.wakeup = true := I.inv.past_wake (by rw [hd]; simp) hb
  cases l <;> simp only [waiterLabel] at hl <;> simp only [step] at st <;> split at st <;>
    simp only [Option.some.injEq, reduceCtorEq] at st <;> subst st <;> simp_all [wRank]

theorem waiter_other {s s' : State} {l : Label} (I : Inv2 s) (hd : s.lpc = .ldone) (hl : ¬ waiterLabel l)
    (st : step s l = some s') : wRank s'.wpc ≤ wRank s.wpc := by
  have hb : s.bufWakeup = false := by
    cases hb : s.bufWakeup with
    | false => rfl
    | true => have := I.inv.buf_pc hb; rw [hd] at this; simp at this
  have hs : s.wpc ≠ .sleep := fun hp => by have := I.inv.asleep hp; rw [hd] at this; simp at this
  cases l <;> simp only [waiterLabel, not_true_eq_false] at hl <;> simp only [step] at st <;> split at st <;>
    simp only [Option.some.injEq, reduceCtorEq] at st <;> subst st <;> simp_all [touch]

end UrcuVerif.WaitNode
