import UrcuVerif.Machine.Upd
/-!
# C02 (QSBR) — the two-level futex handshake of `src/urcu-qsbr.c` on x86-TSO

updater (`wait_for_readers`, once it stops spinning), per round:
    `futex := -1` (plain store); wmb; for every reader of the input list `waiting[i] := 1`
    (plain stores, same FIFO buffer); `cmm_smp_mb()`; scan (reads every reader word from memory);
    all quiescent → `futex := 0`, done; else `wait_gp()`: `FUTEX_WAIT(&futex, -1)` with the value
    re-checked after every return.
reader i (`rcu_quiescent_state` / `rcu_thread_offline`):
    store own word (seq_cst: store + fence, atomic here); `urcu_qsbr_wake_up_gp()`:
    `if (load(waiting[i]))` { `waiting[i] := 0` (buffered); `mb`; `if (load(futex) != -1) return;`
    `futex := 0` (buffered); `FUTEX_WAKE` (system call: drains) }.
Store buffers: the updater's holds `futex := -1` then the `waiting[i] := 1` stores (FIFO: the futex
store commits first); reader i's holds `waiting[i] := 0` then `futex := 0`.
-/
namespace UrcuVerif.QsbrHs

structure Cfg where
  n : Nat

inductive WPc | w0 | warm | w1 | w2 | wsleep | w4 | wdone
  deriving DecidableEq, Repr
inductive KPc | k0 | k1 | k2 | kf | k3 | k4 | k5 | k9
  deriving DecidableEq, Repr

structure State where
  futex : Int
  waiting : Nat → Bool
  mdone : Nat → Bool
  wpc : WPc
  armed : Nat → Bool        -- this round's `waiting[i] := 1` has been issued
  bfutm1 : Bool             -- updater buffer: `futex := -1` pending
  bwait : Nat → Bool        -- updater buffer: `waiting[i] := 1` pending
  kpc : Nat → KPc
  bw0 : Nat → Bool          -- reader i buffer: `waiting[i] := 0` pending
  bf0 : Nat → Bool          -- reader i buffer: `futex := 0` pending
  r : Nat → Int

def init : State :=
  { futex := 0, waiting := fun _ => false, mdone := fun _ => false, wpc := .w0, armed := fun _ => false,
    bfutm1 := false, bwait := fun _ => false, kpc := fun _ => .k0, bw0 := fun _ => false, bf0 := fun _ => false,
    r := fun _ => 0 }

inductive Label
  | w0 | wArm (i : Nat) | wMb | w1All | w1Some (i : Nat) | w2Sleep | w2Ret | wSpurious | w4
  | flushFutM1 | flushWait (i : Nat)
  | k0 (i : Nat) | k1Set (i : Nat) | k1Clear (i : Nat) | k2 (i : Nat) | kf (i : Nat) | k3 (i : Nat)
  | k4Wake (i : Nat) | k4Skip (i : Nat) | k5 (i : Nat) | flushW0 (i : Nat) | flushF0 (i : Nat)
  deriving DecidableEq, Repr

def step (c : Cfg) (s : State) : Label → Option State
  | .w0 => if s.wpc = .w0 then some { s with bfutm1 := true, wpc := .warm, armed := fun _ => false } else none
  | .wArm i =>
    if s.wpc = .warm ∧ i < c.n ∧ s.armed i = false then
      some { s with armed := upd s.armed i true, bwait := upd s.bwait i true } else none
  | .wMb =>
    -- cmm_smp_mb(): every input reader armed, the whole buffer drained
    if s.wpc = .warm ∧ (∀ i, i < c.n → s.armed i = true ∧ s.bwait i = false) ∧ s.bfutm1 = false then
      some { s with wpc := .w1 } else none
  | .w1All => if s.wpc = .w1 ∧ (∀ i, i < c.n → s.mdone i = true) then some { s with wpc := .w4 } else none
  | .w1Some i => if s.wpc = .w1 ∧ i < c.n ∧ s.mdone i = false then some { s with wpc := .w2 } else none
  | .w2Sleep => if s.wpc = .w2 ∧ s.futex = -1 then some { s with wpc := .wsleep } else none
  | .w2Ret => if s.wpc = .w2 ∧ s.futex ≠ -1 then some { s with wpc := .w0 } else none
  | .wSpurious => if s.wpc = .wsleep then some { s with wpc := .w2 } else none
  | .w4 => if s.wpc = .w4 then some { s with futex := 0, wpc := .wdone } else none
  | .flushFutM1 => if s.bfutm1 = true then some { s with futex := -1, bfutm1 := false } else none
  | .flushWait i =>
    if s.bwait i = true ∧ s.bfutm1 = false then some { s with waiting := upd s.waiting i true, bwait := upd s.bwait i false }
    else none
  | .k0 i => if i < c.n ∧ s.kpc i = .k0 then some { s with mdone := upd s.mdone i true, kpc := upd s.kpc i .k1 } else none
  | .k1Set i => if i < c.n ∧ s.kpc i = .k1 ∧ s.waiting i = true then some { s with kpc := upd s.kpc i .k2 } else none
  | .k1Clear i => if i < c.n ∧ s.kpc i = .k1 ∧ s.waiting i = false then some { s with kpc := upd s.kpc i .k9 } else none
  | .k2 i => if i < c.n ∧ s.kpc i = .k2 then some { s with bw0 := upd s.bw0 i true, kpc := upd s.kpc i .kf } else none
  | .kf i => if i < c.n ∧ s.kpc i = .kf ∧ s.bw0 i = false then some { s with kpc := upd s.kpc i .k3 } else none
  | .k3 i => if i < c.n ∧ s.kpc i = .k3 then some { s with r := upd s.r i s.futex, kpc := upd s.kpc i .k4 } else none
  | .k4Wake i =>
    if i < c.n ∧ s.kpc i = .k4 ∧ s.r i = -1 then some { s with bf0 := upd s.bf0 i true, kpc := upd s.kpc i .k5 } else none
  | .k4Skip i => if i < c.n ∧ s.kpc i = .k4 ∧ s.r i ≠ -1 then some { s with kpc := upd s.kpc i .k9 } else none
  | .k5 i =>
    if i < c.n ∧ s.kpc i = .k5 ∧ s.bf0 i = false ∧ s.bw0 i = false then
      some { s with kpc := upd s.kpc i .k9, wpc := if s.wpc = .wsleep then .w2 else s.wpc } else none
  | .flushW0 i => if s.bw0 i = true then some { s with waiting := upd s.waiting i false, bw0 := upd s.bw0 i false } else none
  | .flushF0 i => if s.bf0 i = true ∧ s.bw0 i = false then some { s with futex := 0, bf0 := upd s.bf0 i false } else none

inductive Reach (c : Cfg) : State → Prop
  | init : Reach c init
  | step {s s' l} : Reach c s → step c s l = some s' → Reach c s'

/-- reader i is still going to reset the futex and call FUTEX_WAKE for the current round -/
def willWake (s : State) (i : Nat) : Prop :=
  ((s.kpc i = .k0 ∨ s.kpc i = .k1) ∧ s.waiting i = true) ∨ s.kpc i = .k2 ∨ s.kpc i = .kf ∨ s.kpc i = .k3 ∨
  (s.kpc i = .k4 ∧ s.r i = -1) ∨ (s.kpc i = .k5 ∧ s.bf0 i = true)

structure Inv (c : Cfg) (s : State) : Prop where
  fut_range : s.futex = 0 ∨ s.futex = -1
  r_range : ∀ i, s.r i = 0 ∨ s.r i = -1
  k0_clean : ∀ i, (s.kpc i = .k0 ↔ s.mdone i = false)
  kpc_bound : ∀ i, s.kpc i ≠ .k0 → i < c.n
  bw0_pc : ∀ i, s.bw0 i = true → s.kpc i = .kf
  bf0_pc : ∀ i, s.bf0 i = true → s.kpc i = .k5
  bwait_pc : ∀ i, s.bwait i = true → s.wpc = .warm ∧ s.armed i = true ∧ i < c.n
  bfut_pc : s.bfutm1 = true → s.wpc = .warm
  /-- this round's arming store of reader i has reached memory and i has not consumed it yet -/
  armed_vis_arm : s.wpc = .warm → ∀ i, s.armed i = true → s.bwait i = false → (s.kpc i = .k0 ∨ s.kpc i = .k1) → s.waiting i = true
  armed_vis : (s.wpc = .w1 ∨ s.wpc = .w2 ∨ s.wpc = .wsleep) → ∀ i, i < c.n → (s.kpc i = .k0 ∨ s.kpc i = .k1) → s.waiting i = true
  asleep_m1 : (s.wpc = .w2 ∨ s.wpc = .wsleep) → s.futex = -1 → ∃ i, i < c.n ∧ willWake s i
  asleep_0 : s.wpc = .wsleep → s.futex = 0 → ∃ i, i < c.n ∧ s.kpc i = .k5

theorem inv_init (c) : Inv c init := by
  constructor <;> simp [init, willWake]

end UrcuVerif.QsbrHs
