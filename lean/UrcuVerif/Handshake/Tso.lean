import UrcuVerif.Machine.Upd
/-!
# C02 — the futex sleep/wake handshake of `wait_for_readers()` / `wait_gp()` vs
`urcu_common_wake_up_gp()` on x86-TSO, any number of wakers (DESIGN §4 C02).

waiter (the grace-period leader, one at a time thanks to `rcu_gp_lock`):
    loop: `uatomic_dec(&futex)` (0 → -1, locked RMW); master barrier; scan (reads each waker's
          word from memory); all quiescent → `futex := 0`, done;
          else `FUTEX_WAIT(&futex, -1)` – atomically: value ≠ -1 → return (EAGAIN) and loop again,
          else sleep; a sleeping waiter leaves by `FUTEX_WAKE`, or spuriously / by EINTR, and
          re-checks the value in user space.
waker i (a reader leaving its section):
    store word := inactive (through its FIFO store buffer); slave barrier (mfence when
    `slaveFence`, nothing otherwise); `r := futex`; if `r = -1`: store `futex := 0` (buffered);
    `FUTEX_WAKE` (system call: drains the store buffer first).
With `membarrier`, the waiter's master barrier forces a fence on every waker between its call and
its return.
-/
namespace UrcuVerif.Handshake

structure Cfg where
  n : Nat
  membarrier : Bool
  slaveFence : Bool

def Cfg.WF (c : Cfg) : Prop := c.membarrier = true ∨ c.slaveFence = true

inductive WPc | w0 | wbar | w1 | w2 | wsleep | w4 | wdone
  deriving DecidableEq, Repr
inductive KPc | k0 | kf | k1 | k2 | k3 | k4
  deriving DecidableEq, Repr
structure State where
  futex : Int
  wpc   : WPc
  pend  : Nat → Bool
  mdone : Nat → Bool           -- memory: waker i's word is inactive
  kpc   : Nat → KPc
  /-- waker i's FIFO store buffer.  The waker program issues at most two stores, `word := inactive`
  then `futex := 0`, in this order, so the buffer is exactly described by two flags and the rule
  that `futex := 0` cannot be committed while `word := inactive` is still pending. -/
  bdone : Nat → Bool
  bfut  : Nat → Bool
  r     : Nat → Int

def init : State :=
  { futex := 0, wpc := .w0, pend := fun _ => false, mdone := fun _ => false, kpc := fun _ => .k0,
    bdone := fun _ => false, bfut := fun _ => false, r := fun _ => 0 }

inductive Label
  | w0 | forced (i : Nat) | wbarRet | w1All | w1Some (i : Nat) | w2Sleep | w2Ret | wSpurious | w4
  | k0 (i : Nat) | kf (i : Nat) | k1 (i : Nat) | k2Wake (i : Nat) | k2Skip (i : Nat) | k3 (i : Nat)
  | flushDone (i : Nat) | flushFut (i : Nat)
  deriving DecidableEq, Repr

def step (c : Cfg) (s : State) : Label → Option State
  | .w0 => if s.wpc = .w0 then some { s with futex := s.futex - 1, wpc := .wbar, pend := fun _ => true } else none
  | .forced i =>
    if s.wpc = .wbar ∧ s.pend i = true ∧ c.membarrier = true then
      some { s with mdone := if s.bdone i then upd s.mdone i true else s.mdone,
                    futex := if s.bfut i then 0 else s.futex,
                    bdone := upd s.bdone i false, bfut := upd s.bfut i false, pend := upd s.pend i false }
    else none
  | .wbarRet =>
    if s.wpc = .wbar ∧ (c.membarrier = true → ∀ i, i < c.n → s.pend i = false) then some { s with wpc := .w1 } else none
  | .w1All => if s.wpc = .w1 ∧ (∀ i, i < c.n → s.mdone i = true) then some { s with wpc := .w4 } else none
  | .w1Some i => if s.wpc = .w1 ∧ i < c.n ∧ s.mdone i = false then some { s with wpc := .w2 } else none
  | .w2Sleep => if s.wpc = .w2 ∧ s.futex = -1 then some { s with wpc := .wsleep } else none
  | .w2Ret => if s.wpc = .w2 ∧ s.futex ≠ -1 then some { s with wpc := .w0 } else none
  | .wSpurious => if s.wpc = .wsleep then some { s with wpc := .w2 } else none
  | .w4 => if s.wpc = .w4 then some { s with futex := 0, wpc := .wdone } else none
  | .k0 i =>
    if i < c.n ∧ s.kpc i = .k0 then some { s with bdone := upd s.bdone i true, kpc := upd s.kpc i .kf } else none
  | .kf i =>
    if i < c.n ∧ s.kpc i = .kf ∧ (c.slaveFence = true → s.bdone i = false) then some { s with kpc := upd s.kpc i .k1 } else none
  | .k1 i =>
    if i < c.n ∧ s.kpc i = .k1 then some { s with r := upd s.r i s.futex, kpc := upd s.kpc i .k2 } else none
  | .k2Wake i =>
    if i < c.n ∧ s.kpc i = .k2 ∧ s.r i = -1 then some { s with bfut := upd s.bfut i true, kpc := upd s.kpc i .k3 } else none
  | .k2Skip i =>
    if i < c.n ∧ s.kpc i = .k2 ∧ s.r i ≠ -1 then some { s with kpc := upd s.kpc i .k4 } else none
  | .k3 i =>
    -- FUTEX_WAKE: a system call, the store buffer is drained before it takes effect
    if i < c.n ∧ s.kpc i = .k3 ∧ s.bdone i = false ∧ s.bfut i = false then
      some { s with kpc := upd s.kpc i .k4, wpc := if s.wpc = .wsleep then .w2 else s.wpc } else none
  | .flushDone i =>
    if s.bdone i = true then some { s with mdone := upd s.mdone i true, bdone := upd s.bdone i false } else none
  | .flushFut i =>
    if s.bfut i = true ∧ s.bdone i = false then some { s with futex := 0, bfut := upd s.bfut i false } else none

inductive Reach (c : Cfg) : State → Prop
  | init : Reach c init
  | step {s s' l} : Reach c s → step c s l = some s' → Reach c s'

end UrcuVerif.Handshake
