import UrcuVerif.Machine.Upd
/-!
# C02 — `urcu_adaptative_wake_up()` vs `urcu_adaptative_busy_wait()` (`src/urcu-wait.h`):
the per-waiter hand-over between the grace-period leader and a merged `synchronize_rcu()`
caller, on x86-TSO.  One leader/waiter pair per wait node (nodes are private to their pair).

leader (waker):  `state := WAKEUP` (release store, through its store buffer);
                 `v := state` (forwarded from the buffer); if `!(v & RUNNING)`: `FUTEX_WAKE`
                 (system call: drains); `state |= TEARDOWN` (locked RMW: drains) – last access.
waiter:          spin / `FUTEX_WAIT(state, WAITING)` until `state ≠ WAITING` (value re-checked
                 after every return); `state |= RUNNING` (locked); wait until `state & TEARDOWN`;
                 return (the node lives on its stack: it is dead from here on).
-/
namespace UrcuVerif.WaitNode

inductive LPc | l0 | l1 | l2 (running : Bool) | l3 | ldone
  deriving DecidableEq, Repr
inductive WPc | spin | sleep | orRun | waitTd | returned
  deriving DecidableEq, Repr

structure State where
  wakeup : Bool       -- memory: WAKEUP bit
  running : Bool      -- memory: RUNNING bit
  teardown : Bool     -- memory: TEARDOWN bit
  bufWakeup : Bool    -- leader's store buffer holds `state := WAKEUP`
  lpc : LPc
  wpc : WPc
  /-- ghost: the leader touched the node after the waiter returned -/
  useAfterFree : Bool

def init : State :=
  { wakeup := false, running := false, teardown := false, bufWakeup := false, lpc := .l0, wpc := .spin,
    useAfterFree := false }

inductive Label
  | lStore | lFlush | lLoad | lWake | lSkipWake | lTeardown
  | wSeeWaiting | wSleep | wEagain | wSpurious | wSeeWoken | wOrRunning | wSeeTeardown
  deriving DecidableEq, Repr

def touch (s : State) : State := { s with useAfterFree := s.useAfterFree || decide (s.wpc = .returned) }

def step (s : State) : Label → Option State
  | .lStore => if s.lpc = .l0 then some { touch s with bufWakeup := true, lpc := .l1 } else none
  | .lFlush => if s.bufWakeup then some { s with wakeup := true, running := false, teardown := false, bufWakeup := false } else none
  -- the load is forwarded from the store buffer when the store is still pending
  | .lLoad => if s.lpc = .l1 then some { touch s with lpc := .l2 (if s.bufWakeup then false else s.running) } else none
  | .lWake =>
    -- FUTEX_WAKE: system call, drains the buffer first
    if s.lpc = .l2 false ∧ s.bufWakeup = false then
      some { touch s with lpc := .l3, wpc := if s.wpc = .sleep then .spin else s.wpc } else none
  | .lSkipWake => if s.lpc = .l2 true then some { s with lpc := .l3 } else none
  | .lTeardown => if s.lpc = .l3 ∧ s.bufWakeup = false then some { touch s with teardown := true, lpc := .ldone } else none
  | .wSeeWaiting => if s.wpc = .spin ∧ s.wakeup = false then some s else none
  | .wSleep => if s.wpc = .spin ∧ s.wakeup = false then some { s with wpc := .sleep } else none     -- FUTEX_WAIT: value still WAITING
  | .wEagain => if s.wpc = .spin ∧ s.wakeup = true then some { s with wpc := .orRun } else none      -- FUTEX_WAIT: value changed
  | .wSpurious => if s.wpc = .sleep then some { s with wpc := .spin } else none
  | .wSeeWoken => if s.wpc = .spin ∧ s.wakeup = true then some { s with wpc := .orRun } else none
  | .wOrRunning => if s.wpc = .orRun then some { s with running := true, wpc := .waitTd } else none
  | .wSeeTeardown => if s.wpc = .waitTd ∧ s.teardown = true then some { s with wpc := .returned } else none

inductive Reach : State → Prop
  | init : Reach init
  | step {s s' l} : Reach s → step s l = some s' → Reach s'

structure Inv (s : State) : Prop where
  noUaf : s.useAfterFree = false
  ret_done : s.wpc = .returned → s.lpc = .ldone
  td_done : s.teardown = true → s.lpc = .ldone
  buf_pc : s.bufWakeup = true → (s.lpc = .l1 ∨ s.lpc = .l2 false)
  wake_pc : s.wakeup = true → s.lpc ≠ .l0
  past_wake : s.lpc ≠ .l0 → s.bufWakeup = false → s.wakeup = true
  run_woken : s.running = true → s.wakeup = true ∧ (s.wpc = .waitTd ∨ s.wpc = .returned)
  l2_buf : ∀ b, s.lpc = .l2 b → s.bufWakeup = true → b = false
  woken_states : (s.wpc = .orRun ∨ s.wpc = .waitTd ∨ s.wpc = .returned) → s.wakeup = true
  l2_running : s.lpc = .l2 true → (s.wpc = .waitTd ∨ s.wpc = .returned)
  /-- no lost wake-up: a sleeping waiter is always followed by a leader that will still wake it -/
  asleep : s.wpc = .sleep → s.lpc = .l0 ∨ s.lpc = .l1 ∨ s.lpc = .l2 false

theorem inv_init : Inv init := by constructor <;> simp [init]

theorem inv_step {s s' : State} {l : Label} (h : Inv s) (st : step s l = some s') : Inv s' := by
  obtain ⟨h1, h2, h3, h4, h5, h6, h7, h7a, h7b, h8, h9⟩ := h
  cases l <;> simp only [step] at st <;> (repeat' split at st)
  all_goals (first | (simp at st; done) | skip)
  all_goals (simp only [Option.some.injEq] at st; subst st)
  all_goals (constructor <;> (try simp only [touch] at *) <;> grind)

theorem inv_reach {s : State} (h : Reach s) : Inv s := by
  induction h with
  | init => exact inv_init
  | step _ st ih => exact inv_step ih st

end UrcuVerif.WaitNode
