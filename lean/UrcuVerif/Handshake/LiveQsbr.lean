import UrcuVerif.Machine.Fair
import UrcuVerif.Handshake.QsbrTsoInv
/-! Helper lemmas for `qsbr_leader_eventually_woken` (`Props/LiveC02.lean`): the two-level futex handshake of
`src/urcu-qsbr.c` on x86-TSO. -/
set_option linter.unusedSimpArgs false
namespace UrcuVerif.QsbrHs
open UrcuVerif UrcuVerif.Fair

/-- the steps of reader `i` after it has announced its quiescent state (`k0 i`): `urcu_qsbr_wake_up_gp()` and the
commits of its store buffer -/
def postLabels (i : Nat) : List Label :=
  [.k1Set i, .k1Clear i, .k2 i, .kf i, .k3 i, .k4Wake i, .k4Skip i, .k5 i, .flushW0 i, .flushF0 i]

def ownLabels (i : Nat) : List Label := .k0 i :: postLabels i

theorem ownLabels_iff (i : Nat) (l : Label) : l ∈ ownLabels i ↔ l = .k0 i ∨ l ∈ postLabels i := by
  simp [ownLabels]

theorem ownLabels_disjoint {i j : Nat} {l : Label} (hi : l ∈ ownLabels i) (hj : l ∈ ownLabels j) : i = j := by
  simp only [ownLabels, postLabels, List.mem_cons, List.mem_nil_iff, or_false] at hi hj
  rcases hi with rfl | rfl | rfl | rfl | rfl | rfl | rfl | rfl | rfl | rfl | rfl <;> simp at hj <;> exact hj

def kRank : KPc → Nat
  | .k0 => 8 | .k1 => 7 | .k2 => 6 | .kf => 5 | .k3 => 4 | .k4 => 3 | .k5 => 2 | .k9 => 0

/-- own-step measure of reader `i` -/
def measure (s : State) (i : Nat) : Nat :=
  3 * kRank (s.kpc i) + (if s.bw0 i then 1 else 0) + (if s.bf0 i then 1 else 0)

def total (c : Cfg) (s : State) : Nat := sumTo c.n (measure s)

/-- a reader that has not finished always has an enabled step of its own -/
theorem waker_not_stuck (c : Cfg) {s : State} (i : Nat) (hi : i < c.n) (hk : s.kpc i ≠ .k9) :
    ∃ l, l ∈ ownLabels i ∧ (step c s l).isSome = true := by
  by_cases hb : s.bw0 i = true
  · exact ⟨.flushW0 i, by simp [ownLabels, postLabels], by simp [step, hb]⟩
  · have hb : s.bw0 i = false := by simpa using hb
    by_cases hf : s.bf0 i = true
    · exact ⟨.flushF0 i, by simp [ownLabels, postLabels], by simp [step, hf, hb]⟩
    · have hf : s.bf0 i = false := by simpa using hf
      cases hp : s.kpc i with
      | k0 => exact ⟨.k0 i, by simp [ownLabels], by simp [step, hi, hp]⟩
      | k1 =>
        cases hw : s.waiting i with
        | true => exact ⟨.k1Set i, by simp [ownLabels, postLabels], by simp [step, hi, hp, hw]⟩
        | false => exact ⟨.k1Clear i, by simp [ownLabels, postLabels], by simp [step, hi, hp, hw]⟩
      | k2 => exact ⟨.k2 i, by simp [ownLabels, postLabels], by simp [step, hi, hp]⟩
      | kf => exact ⟨.kf i, by simp [ownLabels, postLabels], by simp [step, hi, hp, hb]⟩
      | k3 => exact ⟨.k3 i, by simp [ownLabels, postLabels], by simp [step, hi, hp]⟩
      | k4 =>
        by_cases hr : s.r i = -1
        · exact ⟨.k4Wake i, by simp [ownLabels, postLabels], by simp [step, hi, hp, hr]⟩
        · exact ⟨.k4Skip i, by simp [ownLabels, postLabels], by simp [step, hi, hp, hr]⟩
      | k5 => exact ⟨.k5 i, by simp [ownLabels, postLabels], by simp [step, hi, hp, hb, hf]⟩
      | k9 => exact absurd hp hk

/-- every own step of reader `i` strictly decreases its measure -/
theorem waker_measure (c : Cfg) {s s' : State} (i : Nat) {l : Label} (hl : l ∈ ownLabels i)
    (st : step c s l = some s') : measure s' i < measure s i := by
  simp only [ownLabels, postLabels, List.mem_cons, List.mem_nil_iff, or_false] at hl
  rcases hl with rfl | rfl | rfl | rfl | rfl | rfl | rfl | rfl | rfl | rfl | rfl <;>
    simp only [step] at st <;> split at st <;> simp only [Option.some.injEq, reduceCtorEq] at st <;>
    subst st <;> simp_all [measure, kRank, upd] <;> (repeat' split) <;> omega

theorem post_enabled (c : Cfg) {s : State} (i : Nat) (hi : i < c.n) (h0 : s.kpc i ≠ .k0) (h9 : s.kpc i ≠ .k9) :
    Enabled (step c) (fun l => l ∈ postLabels i) s := by
  obtain ⟨l, hl, he⟩ := waker_not_stuck c i hi h9
  rcases (ownLabels_iff i l).mp hl with rfl | hp
  · simp [step, h0] at he
  · exact ⟨l, hp, he⟩

/-- while the leader sleeps, a step either wakes it or leaves every reader that did not make it untouched -/
theorem sleep_frame (c : Cfg) {s s' : State} {l : Label} (I : Inv c s) (hs : s.wpc = .wsleep) (st : step c s l = some s') :
    s'.wpc ≠ .wsleep ∨
    (s'.wpc = .wsleep ∧ ∀ i, l ∉ ownLabels i → s'.kpc i = s.kpc i ∧ s'.bw0 i = s.bw0 i ∧ s'.bf0 i = s.bf0 i) := by
  have h1 := I.bfut_pc
  have h2 := I.bwait_pc
  cases l <;> simp only [step] at st <;> split at st <;> simp only [Option.some.injEq, reduceCtorEq] at st <;>
    subst st <;> simp_all [ownLabels, postLabels, upd] <;> grind

theorem k0_only (c : Cfg) {s s' : State} {l : Label} (i : Nat) (h0 : s.kpc i = .k0) (st : step c s l = some s') :
    s'.kpc i = .k0 ∨ l = .k0 i := by
  cases l <;> simp only [step] at st <;> split at st <;> simp only [Option.some.injEq, reduceCtorEq] at st <;>
    subst st <;> simp_all [upd] <;> grind

theorem kpc_frame (c : Cfg) {s s' : State} {l : Label} (i : Nat) (hl : l ∉ ownLabels i) (st : step c s l = some s') :
    s'.kpc i = s.kpc i := by
  cases l <;> simp only [step] at st <;> split at st <;> simp only [Option.some.injEq, reduceCtorEq] at st <;>
    subst st <;> simp_all [ownLabels, postLabels, upd] <;> grind

end UrcuVerif.QsbrHs
