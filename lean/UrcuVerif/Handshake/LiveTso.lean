import UrcuVerif.Machine.Fair
import UrcuVerif.Props.C02
/-! Helper lemmas for `Props/LiveC02.lean` (TSO futex handshake of `wait_for_readers` / `urcu_common_wake_up_gp`):
frame lemmas ("a step that is not reader i's own does not touch reader i") and the per-reader progress facts. -/
namespace UrcuVerif.Handshake
open UrcuVerif UrcuVerif.Fair

/-- the steps reader `i` makes after it has left its read-side section (`k0 i` is the leaving store itself):
fence, futex test, `futex := 0`, `FUTEX_WAKE`, and the commits of its store buffer -/
def postLabels (i : Nat) : List Label := [.kf i, .k1 i, .k2Wake i, .k2Skip i, .k3 i, .flushDone i, .flushFut i]

theorem ownLabels_iff (i : Nat) (l : Label) : l ∈ ownLabels i ↔ l = .k0 i ∨ l ∈ postLabels i := by
  simp [ownLabels, postLabels]

theorem ownLabels_disjoint {i j : Nat} {l : Label} (hi : l ∈ ownLabels i) (hj : l ∈ ownLabels j) : i = j := by
  simp only [ownLabels, List.mem_cons, List.mem_nil_iff, or_false] at hi hj
  rcases hi with rfl | rfl | rfl | rfl | rfl | rfl | rfl | rfl <;> simp at hj <;> exact hj

/-- while the leader sleeps, a step either wakes it or leaves every reader that did not make it untouched -/
theorem sleep_frame (c : Cfg) {s s' : State} {l : Label} (hs : s.wpc = .wsleep) (st : step c s l = some s') :
    s'.wpc ≠ .wsleep ∨
    (s'.wpc = .wsleep ∧ ∀ i, l ∉ ownLabels i → s'.kpc i = s.kpc i ∧ s'.bdone i = s.bdone i ∧ s'.bfut i = s.bfut i) := by
  cases l <;> simp only [step] at st <;> split at st <;> simp only [Option.some.injEq, reduceCtorEq] at st <;>
    subst st <;> simp_all [ownLabels, upd] <;> grind

/-- a reader that has not finished its unlock path and is past the leaving store has an enabled step -/
theorem post_enabled (c : Cfg) {s : State} (i : Nat) (hi : i < c.n) (h0 : s.kpc i ≠ .k0) (h4 : s.kpc i ≠ .k4) :
    Enabled (step c) (fun l => l ∈ postLabels i) s := by
  obtain ⟨l, hl, he⟩ := waker_not_stuck c i hi h4
  rcases (ownLabels_iff i l).mp hl with rfl | hp
  · simp [step, h0] at he
  · exact ⟨l, hp, he⟩

/-- a reader past the leaving store with something left to do (code or a buffered store) has an enabled step -/
theorem post_enabled' (c : Cfg) {s : State} (i : Nat) (hi : i < c.n) (h0 : s.kpc i ≠ .k0) (hm : measure s i ≠ 0) :
    Enabled (step c) (fun l => l ∈ postLabels i) s := by
  by_cases h4 : s.kpc i = .k4
  · by_cases hb : s.bdone i = true
    · exact ⟨.flushDone i, by simp [postLabels], by simp [step, hb]⟩
    · have hb : s.bdone i = false := by simpa using hb
      by_cases hf : s.bfut i = true
      · exact ⟨.flushFut i, by simp [postLabels], by simp [step, hf, hb]⟩
      · have hf : s.bfut i = false := by simpa using hf
        simp [measure, h4, hb, hf, kRank] at hm
  · exact post_enabled c i hi h0 h4

/-- only `k0 i` moves reader `i` out of its section -/
theorem k0_only (c : Cfg) {s s' : State} {l : Label} (i : Nat) (h0 : s.kpc i = .k0) (st : step c s l = some s') :
    s'.kpc i = .k0 ∨ l = .k0 i := by
  cases l <;> simp only [step] at st <;> split at st <;> simp only [Option.some.injEq, reduceCtorEq] at st <;>
    subst st <;> simp_all [upd] <;> grind

/-- a step that is not reader `i`'s own does not change its program counter (any leader state) -/
theorem kpc_frame (c : Cfg) {s s' : State} {l : Label} (i : Nat) (hl : l ∉ ownLabels i) (st : step c s l = some s') :
    s'.kpc i = s.kpc i := by
  cases l <;> simp only [step] at st <;> split at st <;> simp only [Option.some.injEq, reduceCtorEq] at st <;>
    subst st <;> simp_all [ownLabels, upd] <;> grind

/-- sum of the readers' own-step measures -/
def total (c : Cfg) (s : State) : Nat := sumTo c.n (measure s)

/-- any step that is not reader `i`'s own leaves its measure alone, or (the membarrier IPI `forced i`) drains its buffer -/
theorem measure_frame (c : Cfg) {s s' : State} {l : Label} (i : Nat) (hl : l ∉ ownLabels i) (st : step c s l = some s') :
    measure s' i ≤ measure s i := by
  cases l <;> simp only [step] at st <;> split at st <;> simp only [Option.some.injEq, reduceCtorEq] at st <;>
    subst st <;> simp_all [ownLabels, upd, measure] <;> (repeat' split) <;> simp_all <;> omega

/-- hence no step at all increases a reader's measure -/
theorem measure_le (c : Cfg) {s s' : State} {l : Label} (i : Nat) (st : step c s l = some s') :
    measure s' i ≤ measure s i := by
  by_cases hl : l ∈ ownLabels i
  · exact Nat.le_of_lt (waker_measure c i hl st)
  · exact measure_frame c i hl st

theorem total_le (c : Cfg) {s s' : State} {l : Label} (st : step c s l = some s') : total c s' ≤ total c s :=
  sumTo_le (fun i _ => measure_le c i st)

/-- every reader has completed `rcu_read_unlock()` and its stores have reached memory -/
def AllDone (c : Cfg) (s : State) : Prop := ∀ i, i < c.n → s.kpc i = .k4 ∧ s.bdone i = false ∧ s.bfut i = false

theorem measure_zero {s : State} {i : Nat} (h : measure s i = 0) : s.kpc i = .k4 ∧ s.bdone i = false ∧ s.bfut i = false := by
  unfold measure at h
  cases hk : s.kpc i <;> cases hb : s.bdone i <;> cases hf : s.bfut i <;> simp [hk, hb, hf, kRank] at h ⊢

theorem allDone_of_total (c : Cfg) {s : State} (h : total c s = 0) : AllDone c s :=
  fun i hi => measure_zero (sumTo_zero h i hi)

/-- the leader's own steps (`wSpurious` is an environment step; membarrier IPIs to existing readers only) -/
def leaderLabel (c : Cfg) : Label → Prop
  | .w0 | .wbarRet | .w1All | .w2Sleep | .w2Ret | .w4 => True
  | .forced i | .w1Some i => i < c.n
  | _ => False

/-- own-step measure of the leader once all readers are done -/
def lrank (c : Cfg) (s : State) : Nat :=
  match s.wpc with
  | .wsleep => 6 + c.n | .w2 => 5 + c.n | .w0 => 4 + c.n
  | .wbar => 3 + sumTo c.n (fun i => if s.pend i then 1 else 0)
  | .w1 => 2 | .w4 => 1 | .wdone => 0

theorem pend_sum_all (n : Nat) : sumTo n (fun _ => 1) = n := by
  induction n with
  | zero => rfl
  | succ n ih => simp only [sumTo, ih]

theorem pend_sum_upd (n : Nat) (p : Nat → Bool) (i : Nat) (hi : i < n) (hp : p i = true) :
    sumTo n (fun j => if upd p i false j then 1 else 0) < sumTo n (fun j => if p j then 1 else 0) := by
  refine sumTo_lt i hi (by simp [upd, hp]) (fun j _ => ?_)
  simp only [upd]; split <;> simp

theorem pend_sum_upd_ge (n : Nat) (p : Nat → Bool) (i : Nat) (hi : n ≤ i) :
    sumTo n (fun j => if upd p i false j then 1 else 0) = sumTo n (fun j => if p j then 1 else 0) := by
  refine sumTo_congr (fun j hj => ?_)
  have : j ≠ i := by omega
  simp [upd, this]

/-- once all readers are done the leader cannot be (or go) asleep and the futex test at `w2` fails -/
theorem done_awake (c : Cfg) {s : State} (I : Inv c s) (hd : AllDone c s) :
    s.wpc ≠ .wsleep ∧ (s.wpc = .w2 → s.futex ≠ -1) ∧ (∀ i, i < c.n → s.mdone i = true) := by
  refine ⟨?_, ?_, ?_⟩
  · intro hs
    rcases I.fut_range with h0 | h1
    · obtain ⟨i, hi, hk⟩ := I.asleep_0 hs h0
      have := (hd i hi).1; rw [hk] at this; cases this
    · obtain ⟨i, hi, hk⟩ := I.asleep_m1 (Or.inr hs) h1
      have := hd i hi
      unfold willWake at hk; grind
  · intro hs h1
    obtain ⟨i, hi, hk⟩ := I.asleep_m1 (Or.inl hs) h1
    have := hd i hi
    unfold willWake at hk; grind
  · intro i hi
    have := hd i hi
    exact I.done_vis i (by rw [this.1]; decide) this.2.1

theorem leader_enabled (c : Cfg) {s : State} (I : Inv c s) (hd : AllDone c s) (hw : s.wpc ≠ .wdone) :
    Enabled (step c) (leaderLabel c) s := by
  obtain ⟨h1, h2, h3⟩ := done_awake c I hd
  cases hp : s.wpc with
  | wdone => exact absurd hp hw
  | wsleep => exact absurd hp h1
  | w0 => exact ⟨.w0, trivial, by simp [step, hp]⟩
  | w4 => exact ⟨.w4, trivial, by simp [step, hp]⟩
  | w2 => exact ⟨.w2Ret, trivial, by simp [step, hp]; exact h2 hp⟩
  | w1 => exact ⟨.w1All, trivial, by simp [step, hp]; exact h3⟩
  | wbar =>
    by_cases hm : c.membarrier = true ∧ ∃ i, i < c.n ∧ s.pend i = true
    · obtain ⟨hm, i, hi, hpi⟩ := hm
      exact ⟨.forced i, hi, by simp [step, hp, hpi, hm]⟩
    · refine ⟨.wbarRet, trivial, ?_⟩
      simp only [step, hp, true_and]
      rw [if_pos]; rfl
      intro hm' i hi
      cases hpi : s.pend i with
      | false => rfl
      | true => exact absurd ⟨hm', i, hi, hpi⟩ hm

theorem leader_dec (c : Cfg) {s s' : State} {l : Label} (I : Inv c s) (hd : AllDone c s) (hl : leaderLabel c l)
    (st : step c s l = some s') : lrank c s' < lrank c s := by
  obtain ⟨h1, h2, h3⟩ := done_awake c I hd
  cases l <;> simp only [leaderLabel] at hl <;> simp only [step] at st <;> split at st <;>
    simp only [Option.some.injEq, reduceCtorEq] at st <;> subst st <;> rename_i hg
  case w0 => simp only [lrank, hg]; simp [pend_sum_all]
  case forced i =>
    simp only [lrank, hg.1]
    have := pend_sum_upd c.n s.pend i hl hg.2.1
    omega
  case wbarRet => simp only [lrank, hg.1]; omega
  case w1All => simp only [lrank, hg.1]; omega
  case w1Some i => have := h3 i hg.2.1; rw [hg.2.2] at this; cases this
  case w2Sleep => exact absurd hg.2 (h2 hg.1)
  case w2Ret => simp only [lrank, hg.1]; omega
  case w4 => simp only [lrank, hg]; omega

theorem leader_other_le (c : Cfg) {s s' : State} {l : Label} (I : Inv c s) (hd : AllDone c s) (hl : ¬ leaderLabel c l)
    (st : step c s l = some s') : lrank c s' ≤ lrank c s := by
  obtain ⟨h1, h2, h3⟩ := done_awake c I hd
  cases l <;> simp only [leaderLabel, not_true_eq_false] at hl <;> simp only [step] at st <;> split at st <;>
    simp only [Option.some.injEq, reduceCtorEq] at st <;> subst st <;> rename_i hg
  case forced i =>
    simp only [lrank, hg.1]
    rw [pend_sum_upd_ge c.n s.pend i (by omega)]; exact Nat.le_refl _
  case w1Some i => exact absurd hg.2.1 hl
  case wSpurious => exact absurd hg h1
  case k3 i => have := (hd i hg.1).1; rw [hg.2.1] at this; cases this
  all_goals (simp only [lrank]; exact Nat.le_refl _)

end UrcuVerif.Handshake
