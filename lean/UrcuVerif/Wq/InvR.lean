import UrcuVerif.Wq.InvW
/-! Work queue — invariant group R: range of `workqueue->futex` in the parent process (and in a child, had
`urcu_workqueue_create_worker` reset it): `futex ∈ {0, -1}`, and 0 whenever the worker is about to decrement it. -/
set_option linter.unusedVariables false
set_option linter.unusedSimpArgs false
namespace UrcuVerif.Wq
open UrcuVerif

/-- worker program points at which the futex is 0 -/
def WPc.futZero : WPc → Bool
  | .start => true | .dec0 => true | .dec => true | .dead => true
  | .none => false | .top => false | .pausing => false | .paused => false | .unpausing => false | .splice => false
  | .inv => false | .run => false | .cSub => false | .cLd => false | .cSt => false | .cWake => false | .cPut => false
  | .sub => false | .stopchk => false | .emptychk => false | .rtchk => false | .waitLd => false | .waitFx => false
  | .asleep => false | .exitSt => false

structure InvR (c : Cfg) (s : State) : Prop where
  r_range : c.resetFutexOnCreate = true ∨ s.child = false → s.futex = 0 ∨ s.futex = -1
  r_zero : c.resetFutexOnCreate = true ∨ s.child = false → s.wpc.futZero = true → s.futex = 0

theorem invR_init (c : Cfg) : InvR c init := by
  constructor <;> simp [init, WPc.futZero]

set_option hygiene false in
macro "r_tac" : tactic => `(tactic| (
  have b12 := hB.b_childHold
  have w2 := hW.w_rt
  clear hB hW
  obtain ⟨h1, h2⟩ := h
  simp only [step] at st
  (repeat' split at st)
  all_goals (first | (simp at st; done) | skip)
  all_goals (simp only [Option.some.injEq] at st; subst st)
  all_goals (constructor <;> first | assumption | (simp only [upd, userCtx] at * <;> first | grind (splits := 25) [WPc.futZero, WPc.futexSide] | (cases hw : s.wpc <;> simp only [hw] at * <;> grind (splits := 25) [WPc.futZero, WPc.futexSide])))))

end UrcuVerif.Wq
