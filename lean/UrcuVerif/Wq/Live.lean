import UrcuVerif.Machine.Fair
import UrcuVerif.Props.Workqueue
/-! Step-level helper lemmas for the liveness theorems of the work queue (`Props/LiveWq.lean`): frame lemmas for a thread
on the wake path, the loop of `workqueue_thread`, the waiter of `urcu_workqueue_wait_completion`. -/
set_option linter.unusedSimpArgs false
set_option linter.unusedVariables false
namespace UrcuVerif.Wq
open UrcuVerif UrcuVerif.Fair

/-- labels of the worker thread itself (`workerLabel`), as a predicate -/
def wOwn : Label → Prop := fun l => workerLabel l = true

/-- the thread is on the wake path -/
def TPc.onWake : TPc → Bool
  | .inc _ => true | .ldFlags _ => true | .ldFutex _ => true | .stFutex _ => true | .wake _ => true
  | .enq _ _ => false
  | .idle => false | .qcInc _ => false
  | .wcDec _ => false | .wcLd _ => false | .wcWaitLd _ => false | .wcWaitFx _ => false | .wcAsleep _ => false
  | .pWait => false | .holding => false | .rWait => false | .childHold => false | .dJoin => false | .dChk => false

theorem willWake_onWake {s : State} {t : Nat} (hw : willWake s t) : (s.tpc t).onWake = true := by
  unfold willWake at hw
  cases hp : s.tpc t <;> simp_all [TPc.waker, TPc.isWake, TPc.onWake]

theorem isWake_onWake {s : State} {t : Nat} (hw : (s.tpc t).isWake = true) : (s.tpc t).onWake = true := by
  cases hp : s.tpc t <;> simp_all [TPc.isWake, TPc.onWake]

/-- nobody holds a pause when PAUSE is clear -/
theorem no_holder {s : State} (hB : InvB s) (hp : s.pause = false) (t : Nat) : s.tpc t ≠ .holding := by
  intro h
  have h1 := hB.b_side t (by rw [h]; rfl)
  have := hB.b_pause1 t h1 (by rw [h]; simp)
  rw [hp] at this; cases this

/-- a step that is not on `t`'s wake path does not move a thread that is on it (no fork while PAUSE is clear) -/
theorem tpc_frame (c : Cfg) {s s' : State} {l : Label} (hB : InvB s) (hp : s.pause = false) (t : Nat)
    (hk : (s.tpc t).onWake = true) (hl : l ∉ wakeLabels t) (st : step c s l = some s') :
    s'.tpc t = s.tpc t ∧ s'.bfut t = s.bfut t := by
  have hh := no_holder hB hp
  cases l <;> simp only [step] at st <;> (repeat' split at st) <;>
    (first | (simp at st; done) | skip) <;>
    simp only [Option.some.injEq] at st <;> subst st <;>
    simp only [wakeLabels, List.mem_cons, List.mem_nil_iff, or_false, Label.inc.injEq, Label.ldFlags.injEq,
      Label.ldFutex.injEq, Label.stFutex.injEq, Label.wake.injEq, Label.flush.injEq, reduceCtorEq, false_or, or_false,
      not_false_eq_true] at hl <;>
    simp only [upd] <;> grind [TPc.onWake]

/-- the futex of a sleeping worker is only changed by the commit of a waker's `futex := 0`; a sleeping worker is only moved
by `FUTEX_WAKE` or a spurious return -/
theorem asleep_frame (c : Cfg) {s s' : State} {l : Label} (hB : InvB s) (hp : s.pause = false) (hs : s.wpc = .asleep)
    (st : step c s l = some s') : (s'.futex = s.futex ∨ s'.futex = 0) ∧ (s'.wpc = .asleep ∨ s'.wpc = .waitLd) := by
  have hh := no_holder hB hp
  have hc := hB.b_childHold
  cases l <;> simp only [step] at st <;> (repeat' split at st) <;>
    (first | (simp at st; done) | skip) <;>
    simp only [Option.some.injEq] at st <;> subst st <;>
    simp only [upd] <;> grind

/-- phase A, own steps: a thread that is going to test the futex of the sleeping worker (which reads -1) goes on to reset it -/
theorem willWake_own (c : Cfg) {s s' : State} {l : Label} (hW : InvW c s) (t : Nat) (hw : willWake s t)
    (hf : s.futex = -1) (hl : l ∈ wakeLabels t) (st : step c s l = some s') :
    willWake s' t ∨ s'.futex ≠ -1 := by
  have hrt := hW.w_rt
  have hbf := hW.w_bfut t
  simp only [wakeLabels, List.mem_cons, List.mem_nil_iff, or_false] at hl
  unfold willWake at hw ⊢
  rcases hl with rfl | rfl | rfl | rfl | rfl | rfl <;>
    simp only [step] at st <;> (repeat' split at st) <;>
    (first | (simp at st; done) | skip) <;>
    simp only [Option.some.injEq] at st <;> subst st <;>
    simp_all [upd, TPc.waker, TPc.isWake, cont_waker, cont_isWake] <;> grind [TPc.waker, TPc.isWake]

/-- phase B, own steps: the `FUTEX_WAKE` wakes the worker (the commit of the buffered store keeps the thread there) -/
theorem waking_own (c : Cfg) {s s' : State} {l : Label} (t : Nat) (hw : (s.tpc t).isWake = true)
    (hs : s.wpc = .asleep) (hl : l ∈ wakeLabels t) (st : step c s l = some s') :
    s'.wpc ≠ .asleep ∨ ((s'.tpc t).isWake = true ∧ s'.wpc = .asleep) := by
  simp only [wakeLabels, List.mem_cons, List.mem_nil_iff, or_false] at hl
  rcases hl with rfl | rfl | rfl | rfl | rfl | rfl <;>
    simp only [step] at st <;> (repeat' split at st) <;>
    (first | (simp at st; done) | skip) <;>
    simp only [Option.some.injEq] at st <;> subst st <;>
    simp_all [upd, TPc.isWake]

/-! ### the worker's loop -/

/-- a step that is not the worker's own does not move the worker (except `FUTEX_WAKE` of a sleeping worker), nor touch its
private list, the work in hand, its store buffer (no fork while PAUSE is clear) -/
theorem w_frame (c : Cfg) {s s' : State} {l : Label} (hB : InvB s) (hp : s.pause = false) (hl : ¬ wOwn l)
    (st : step c s l = some s') :
    (s'.wpc = s.wpc ∨ (s.wpc = .asleep ∧ s'.wpc = .waitLd)) ∧ s'.batch = s.batch ∧ s'.cur = s.cur ∧ s'.cbuf = s.cbuf := by
  have hh := no_holder hB hp
  have hc := hB.b_childHold
  have hn := hB.b_none
  have hs := hB.b_side
  have hp1 := hB.b_pause1
  unfold wOwn at hl
  cases l <;> simp only [workerLabel, Bool.false_eq_true, not_false_eq_true, not_true_eq_false] at hl <;>
    simp only [step] at st <;> (repeat' split at st) <;>
    (first | (simp at st; done) | skip) <;>
    simp only [Option.some.injEq] at st <;> subst st <;>
    simp only [upd] <;> grind [TPc.pauseSide]

/-- the worker is between its splice and the end of the run of the private list -/
def busyRank : WPc → Nat
  | .run => 1 | .cSub => 7 | .cLd => 6 | .cSt => 5 | .cWake => 3 | .cPut => 2
  | .inv => 0
  | .none => 0 | .start => 0 | .dec0 => 0 | .top => 0 | .pausing => 0 | .paused => 0 | .unpausing => 0
  | .splice => 0 | .sub => 0 | .stopchk => 0 | .emptychk => 0 | .rtchk => 0 | .waitLd => 0 | .waitFx => 0
  | .asleep => 0 | .dec => 0 | .exitSt => 0 | .dead => 0

/-- remaining work on the current private list -/
def bMeasure (s : State) : Nat := 8 * s.batch.length + busyRank s.wpc + (if s.cbuf = true then 1 else 0)

theorem length_tail_of_head? {l : List Nat} {a : Nat} (h : l.head? = some a) : l.tail.length + 1 = l.length := by
  cases l <;> simp_all

theorem busy_own (c : Cfg) {s s' : State} {l : Label} (hH : InvH s) (hb : s.wpc.hasBatch = true) (hl : wOwn l)
    (st : step c s l = some s') :
    s'.wpc = .sub ∨ (s'.wpc.hasBatch = true ∧ bMeasure s' < bMeasure s) := by
  have hcb := hH.h_cbuf
  have hlen : ∀ a, s.batch.head? = some a → s.batch.tail.length + 1 = s.batch.length := fun a h => length_tail_of_head? h
  unfold wOwn at hl
  cases l <;> simp only [workerLabel, Bool.false_eq_true] at hl <;>
    simp only [step] at st <;> (repeat' split at st) <;>
    (first | (simp at st; done) | skip) <;>
    simp only [Option.some.injEq] at st <;> subst st <;>
    simp only [bMeasure, upd, curB] at * <;>
    (first | (simp_all [WPc.hasBatch, busyRank]; done) | (simp_all [WPc.hasBatch, busyRank] <;> (try (repeat' split)) <;> (try simp_all) <;> omega))

theorem busy_frame (c : Cfg) {s s' : State} {l : Label} (hB : InvB s) (hp : s.pause = false) (hb : s.wpc.hasBatch = true)
    (hl : ¬ wOwn l) (st : step c s l = some s') :
    s'.wpc = s.wpc ∧ s'.batch = s.batch ∧ s'.cur = s.cur ∧ s'.cbuf = s.cbuf := by
  have h := w_frame c hB hp hl st
  refine ⟨?_, h.2⟩
  rcases h.1 with h1 | ⟨h1, -⟩
  · exact h1
  · rw [h1] at hb; cases hb

theorem mem_head_or_tail {l : List Nat} {a x : Nat} (h : l.head? = some a) (hx : x ∈ l) : x = a ∨ x ∈ l.tail := by
  cases l <;> simp_all

/-- a work leaves the private list only by being started -/
theorem batch_remove (c : Cfg) {s s' : State} {l : Label} (hA : InvA s) (hB : InvB s) (id : Nat) (hb : id ∈ s.batch)
    (hn : id ∉ s'.batch) (st : step c s l = some s') : s'.cur = some id := by
  have a13 := hA.a_batch
  have b6 := hB.b_holding
  cases l <;> simp only [step] at st <;> (repeat' split at st) <;>
    (first | (simp at st; done) | skip) <;>
    simp only [Option.some.injEq] at st <;> subst st <;>
    simp only [upd] at * <;> grind [mem_head_or_tail, WPc.hasBatch]

/-- the work in hand changes only when it finishes -/
theorem cur_remove (c : Cfg) {s s' : State} {l : Label} (hA : InvA s) (hB : InvB s) (id : Nat) (hc : s.cur = some id)
    (hn : s'.cur ≠ some id) (st : step c s l = some s') : s'.fin id = true := by
  have a11 := hA.a_cur_pc (by rw [hc]; simp)
  have b6 := hB.b_holding
  cases l <;> simp only [step] at st <;> (repeat' split at st) <;>
    (first | (simp at st; done) | skip) <;>
    simp only [Option.some.injEq] at st <;> subst st <;>
    simp only [upd] at * <;> grind [WPc.running]

theorem fin_stable (c : Cfg) {s s' : State} {l : Label} (id : Nat) (hf : s.fin id = true) (st : step c s l = some s') :
    s'.fin id = true := by
  cases l <;> simp only [step] at st <;> (repeat' split at st) <;>
    (first | (simp at st; done) | skip) <;>
    simp only [Option.some.injEq] at st <;> subst st <;>
    simp only [upd] at * <;> grind

/-- a queued work stays in the queue until the worker splices it out -/
theorem queue_unless (c : Cfg) {s s' : State} {l : Label} (id : Nat) (hq : id ∈ s.queue) (st : step c s l = some s') :
    id ∈ s'.queue ∨ id ∈ s'.batch := by
  cases l <;> simp only [step] at st <;> (repeat' split at st) <;>
    (first | (simp at st; done) | skip) <;>
    simp only [Option.some.injEq] at st <;> subst st <;>
    simp only [upd] at * <;> grind

/-- the linear part of the loop: from the end of a batch (or the start, or a wake-up) to the splice -/
def WPc.lin : WPc → Bool
  | .start => true | .dec0 => true | .top => true | .paused => true | .unpausing => true | .splice => true | .sub => true
  | .stopchk => true | .emptychk => true | .rtchk => true | .dec => true
  | .none => false | .pausing => false | .inv => false | .run => false | .cSub => false | .cLd => false | .cSt => false
  | .cWake => false | .cPut => false | .waitLd => false | .waitFx => false | .asleep => false | .exitSt => false | .dead => false

def linRank : WPc → Nat
  | .sub => 12 | .stopchk => 11 | .emptychk => 10 | .rtchk => 10 | .start => 9 | .dec0 => 8 | .dec => 8 | .top => 7
  | .paused => 6 | .unpausing => 5 | .splice => 4
  | _ => 0

theorem lin_own (c : Cfg) {s s' : State} {l : Label} (hH : InvH s) (id : Nat) (hb : s.wpc.lin = true) (hs : s.stop = false)
    (hp : s.pause = false) (hq : id ∈ s.queue) (hl : wOwn l) (st : step c s l = some s') :
    id ∈ s'.batch ∨ (s'.wpc.lin = true ∧ linRank s'.wpc < linRank s.wpc) := by
  have hne : s.queue ≠ [] := by intro h; rw [h] at hq; simp at hq
  have hcb := hH.h_cbuf
  unfold wOwn at hl
  cases l <;> simp only [workerLabel, Bool.false_eq_true] at hl <;>
    simp only [step] at st <;> (repeat' split at st) <;>
    (first | (simp at st; done) | skip) <;>
    simp only [Option.some.injEq] at st <;> subst st <;>
    (first | (simp_all [WPc.lin, linRank]; done) | (simp_all [WPc.lin, linRank] <;> (try (repeat' split)) <;> (try simp_all [WPc.lin, linRank])))

theorem lin_frame (c : Cfg) {s s' : State} {l : Label} (hB : InvB s) (hp : s.pause = false) (hb : s.wpc.lin = true)
    (hl : ¬ wOwn l) (st : step c s l = some s') : s'.wpc = s.wpc := by
  rcases (w_frame c hB hp hl st).1 with h | ⟨h, -⟩
  · exact h
  · rw [h] at hb; cases hb

/-- `futex_wait` before the sleep -/
def WPc.wl : WPc → Bool
  | .waitLd => true | .waitFx => true
  | .start => false | .dec0 => false | .top => false | .paused => false | .unpausing => false | .splice => false | .sub => false
  | .stopchk => false | .emptychk => false | .rtchk => false | .dec => false
  | .none => false | .pausing => false | .inv => false | .run => false | .cSub => false | .cLd => false | .cSt => false
  | .cWake => false | .cPut => false | .asleep => false | .exitSt => false | .dead => false

def wlRank : WPc → Nat
  | .waitFx => 2 | .waitLd => 1
  | _ => 0

/-- `futex_wait` with a futex that no longer reads -1: every step keeps it so, the worker's own steps lead to the decrement -/
theorem wl0_step (c : Cfg) {s s' : State} {l : Label} (hB : InvB s) (hH : InvH s) (hp : s.pause = false) (hw : s.wpc.wl = true)
    (h0 : s.futex ≠ -1) (st : step c s l = some s') :
    s'.wpc = .dec ∨ (s'.wpc.wl = true ∧ s'.futex ≠ -1 ∧ (wOwn l → wlRank s'.wpc < wlRank s.wpc) ∧
      (¬ wOwn l → wlRank s'.wpc ≤ wlRank s.wpc)) := by
  have hh := no_holder hB hp
  have hc := hB.b_childHold
  have hcb := hH.h_cbuf
  unfold wOwn
  cases l <;> simp only [step] at st <;> (repeat' split at st) <;>
    (first | (simp at st; done) | skip) <;>
    simp only [Option.some.injEq] at st <;> subst st <;>
    simp only [upd, workerLabel] at * <;> (first | (simp_all [WPc.wl, wlRank]; done) | (simp_all [WPc.wl, wlRank] <;> grind [WPc.wl, wlRank]))

theorem wl0_enabled (c : Cfg) {s : State} (hw : s.wpc.wl = true) : Enabled (step c) wOwn s := by
  cases hp : s.wpc <;> simp [hp, WPc.wl] at hw
  · exact ⟨.wWaitLd, rfl, by simp [step, hp]⟩
  · exact ⟨.wWaitFx .eintr, rfl, by simp [step, hp]⟩

/-- the waiting cluster: `futex_wait` including the sleep -/
def WPc.cluster : WPc → Bool
  | .waitLd => true | .waitFx => true | .asleep => true
  | .start => false | .dec0 => false | .top => false | .paused => false | .unpausing => false | .splice => false | .sub => false
  | .stopchk => false | .emptychk => false | .rtchk => false | .dec => false
  | .none => false | .pausing => false | .inv => false | .run => false | .cSub => false | .cLd => false | .cSt => false
  | .cWake => false | .cPut => false | .exitSt => false | .dead => false

theorem cluster_cases {p : WPc} (h : p.cluster = true) : p = .asleep ∨ p.wl = true := by
  cases p <;> simp_all [WPc.cluster, WPc.wl]

/-- any step from the cluster stays in it or takes the worker to its decrement; the futex is only reset -/
theorem cluster_step (c : Cfg) {s s' : State} {l : Label} (hB : InvB s) (hp : s.pause = false) (hc : s.wpc.cluster = true)
    (st : step c s l = some s') :
    (s'.wpc.cluster = true ∨ s'.wpc = .dec) ∧ (s'.futex = s.futex ∨ s'.futex = 0) := by
  have hh := no_holder hB hp
  have hcc := hB.b_childHold
  cases l <;> simp only [step] at st <;> (repeat' split at st) <;>
    (first | (simp at st; done) | skip) <;>
    simp only [Option.some.injEq] at st <;> subst st <;>
    simp only [upd] at * <;> (first | (simp_all [WPc.cluster]; done) | (simp_all [WPc.cluster] <;> grind [WPc.cluster]))

/-- while the worker waits on `futex = -1`, a thread that is going to wake it stays so under steps that are not its own -/
theorem willWake_frame (c : Cfg) {s s' : State} {l : Label} (hB : InvB s) (hp : s.pause = false) (t : Nat)
    (hw : willWake s t) (hl : l ∉ wakeLabels t) (st : step c s l = some s') : willWake s' t := by
  have e := tpc_frame c hB hp t (willWake_onWake hw) hl st
  unfold willWake at hw ⊢
  rw [e.1, e.2]; exact hw

/-! ### the waiter of `urcu_workqueue_wait_completion` -/

/-- the waiter's own steps (a spurious return from the sleep is the environment's step) -/
def waitLabels (t : Nat) : Label → Prop
  | .wcDec u | .wcLd u | .wcWaitLd u | .wcWaitFx u _ => u = t
  | _ => False

def waitRank : TPc → Nat
  | .wcAsleep _ => 5 | .wcWaitFx _ => 4 | .wcWaitLd _ => 3 | .wcDec _ => 2 | .wcLd _ => 1
  | _ => 0

end UrcuVerif.Wq
