import UrcuVerif.Wq.InvAStep
import UrcuVerif.Wq.InvBStep
import UrcuVerif.Wq.InvWStep
import UrcuVerif.Wq.InvCStep
import UrcuVerif.Wq.InvHStep
import UrcuVerif.Wq.InvRStep
/-! Work queue — the inductive invariant (groups A placement / B pause-stop-fork / W worker futex / C completions /
H completion futex / R futex range) holds in every reachable state (helper lemmas; statements in `Props/Workqueue.lean`). -/
namespace UrcuVerif.Wq

structure Inv (c : Cfg) (s : State) : Prop where
  A : InvA s
  B : InvB s
  W : InvW c s
  C : InvC s
  H : InvH s
  R : InvR c s

theorem inv_init (c : Cfg) : Inv c init := ⟨invA_init, invB_init, invW_init c, invC_init, invH_init, invR_init c⟩

theorem inv_step (c : Cfg) {s s' : State} {l : Label} (h : Inv c s) (st : step c s l = some s') : Inv c s' :=
  ⟨inva_step c h.B h.A st, invb_step c h.B st, invw_step c h.B h.W st, invc_step c h.A h.B h.C st,
    invh_step c h.A h.B h.C h.H st, invr_step c h.B h.W h.R st⟩

theorem inv_reach (c : Cfg) {s : State} (h : Reach c s) : Inv c s := by
  induction h with
  | init => exact inv_init c
  | step _ st ih => exact inv_step c ih st

end UrcuVerif.Wq
