import UrcuVerif.Machine.Upd
/-!
# The internal work queue of the hash table (`src/workqueue.c`, `src/workqueue.h`) — C09 / C16

Abstract-algorithm level ("L2") executable model of ONE `struct urcu_workqueue` and its worker thread: one step
per shared-memory access of the C text that matters (linearisation points, flag updates, futex accesses, the
reference count and the count of a completion).  The event-level transliteration of the C functions in
`Driver/Wq.lean` ("L1") must match the event stream of the real code exactly and replays the labels below on `step`.

* work items are numbers `id` (the `struct urcu_work`); `queue` is `workqueue->cbs` as an abstract FIFO whose enqueue
  is atomic at the `xchg` of the tail and whose splice takes everything enqueued before the `xchg` of the tail
  (justified by C10; the delayed `old_tail->next` store and the dequeuer's busy-wait on it are checked at L1 only);
  `batch` is the worker's private list `cbs_tmp`, `cur` the work being executed, `cnt` = `cbcount`;
* threads `t : Nat`, any number: thread `0` is the worker's own thread – it may call `urcu_workqueue_queue_work`
  (re-queueing works) while it executes a user work (`userCtx`); every other id is an application thread;
* `urcu_workqueue_queue_work` = `qCall` (the caller's decision) ; `enq` (`cds_wfcq_enqueue`) ; `inc`
  (`uatomic_inc(&qlen)`) ; `wake_worker_thread`: `ldFlags` (RT?) ; `ldFutex` (`cmm_smp_mb(); uatomic_read(futex)`) ;
  `stFutex` (`uatomic_store(futex, 0)` – a PLAIN store: on x86-TSO it goes into the caller's store buffer `bfut t`) ;
  `flush` (the memory system commits it, any time) ; `wake` (`FUTEX_WAKE`, a system call: only once the buffer has
  drained).  The same wake path is used by `urcu_workqueue_pause_worker` and `urcu_workqueue_destroy` (continuation `K`);
* the worker `workqueue_thread` in program order: `wStart` (RT flag) `wDec0` (`uatomic_dec(&futex)`; mb) ; loop:
  `wTop` (PAUSE?) [`wPause` (`or PAUSED`) `wSeeResume` (PAUSE cleared) `wUnpause` (`and ~PAUSED`)] ; `wSplice` ;
  for each work in order `wRunBegin` … `wRunEnd` (user work: anything the application does on thread 0 in between) or, for
  a completion work item, `_urcu_workqueue_wait_complete`: `cSub` (`uatomic_sub_return(&barrier_count, 1)`) `cLd`
  (mb; load `completion->futex`) `cSt` (plain `futex := 0`, store buffer `cbuf`) `cFlush` `cWake` `cPut`
  (`urcu_ref_put`, `free(work)`) ; `wInvDone` `wSub` (`uatomic_sub(&qlen, cbcount)`) ; `wStopChk` (STOP → leave) ;
  not RT: `wEmptyChk` (`cds_wfcq_empty`) → `futex_wait`: `wWaitLd` (mb; `futex == -1`?) `wWaitFx o` (`FUTEX_WAIT(-1)`:
  sleeps only if the value still is -1, else EAGAIN; EINTR / spurious 0 re-check) `wSpurious` ; `wDec`
  (`uatomic_dec(&futex)`; mb) ; RT: `wRtChk` (`poll(10)` if empty) ; leaving: `wExitSt` (`futex := 0`);
* completions `b` (`struct urcu_workqueue_completion`), used in the shape of `urcu_workqueue_flush_queued_work`, the
  only shape the library uses: `ccCreate` (`ref := 1`, count 0) ; `qcGet` (`urcu_ref_get`) `qcInc`
  (`uatomic_inc(&barrier_count)`) then the `queue_work` steps for the completion work item (queued ONCE per
  completion) ; `wcCall` ; `urcu_workqueue_wait_completion`: loop `wcDec` (`uatomic_dec(&futex)`; mb) `wcLd`
  (`barrier_count == 0` → return) `wcWaitLd` / `wcWaitFx` / `wcSpurious` (`futex_wait`) ; `dcPut`
  (`urcu_workqueue_destroy_completion`).  The four API calls may be separated by other calls of the same thread;
* `urcu_workqueue_pause_worker`: `pOr` (`or PAUSE`) ; wake path ; `pSee` (PAUSED seen: returns – the caller is then
  `holding`) ; `urcu_workqueue_resume_worker`: `rAnd` (`and ~PAUSE`) ; `rSee` (PAUSED clear seen: returns);
* `fork t` (by the thread that holds the pause): the state becomes the CHILD's: same memory, only thread `t`, no
  worker thread (`wpc = none`), empty store buffers ; `createWorker` = `urcu_workqueue_create_worker`: PAUSE and PAUSED
  cleared, new worker thread; the completions of the threads that do not exist in the child become `orphan` (nobody holds a
  pointer to them).  As in the C text it does NOT reset `workqueue->futex` (`Cfg.resetFutexOnCreate = false`);
  the switch `true` is the hypothetical variant that stores 0, used only to state the observation
  `child_worker_never_sleeps_if_futex_inherited_negative` (`Props/Workqueue.lean`);
* `urcu_workqueue_destroy`: `dOr` (`or STOP`) ; wake path ; `dJoin` (worker thread has exited) ; `dChk`
  (`urcu_posix_assert(cds_wfcq_empty(...))`, recorded in `assertOk`; `free`).

Caller obligations of the API are guards of the entry labels: flush / wait / pause / destroy are not called from the
worker's own thread; one pause–resume / fork at a time; nothing is started once destroy has been called; a completion
is created, queued once, waited for once and destroyed by one thread.

Ghost: `reg`, `enqLog` (enqueue order), `doneLog` (order in which works were started), `runN`, `fin`, `snap b`
(`enqLog` when the completion was created = when `flush_queued_work` was called), `before b` (`enqLog` when its work item
was enqueued), `cwork`, `csub`, `workHolds`, `uaf` (some step touched a freed completion), `forkFutex`.
-/
namespace UrcuVerif.Wq

structure Cfg where
  /-- `URCU_WORKQUEUE_RT` was given to `urcu_workqueue_create` (the worker polls, nobody wakes it) -/
  rt : Bool := false
  /-- model switch (NOT the code): `urcu_workqueue_create_worker` also stores `futex := 0` -/
  resetFutexOnCreate : Bool := false
  deriving Repr

/-- continuation of `wake_worker_thread()` -/
inductive K | user | compl (b : Nat) | pause | stop
  deriving DecidableEq, Repr

/-- program counter of an application thread (and of the worker's thread while it runs a user work) -/
inductive TPc
  | idle
  | enq (id : Nat) (k : K) | inc (k : K) | ldFlags (k : K) | ldFutex (k : K) | stFutex (k : K) | wake (k : K)
  | qcInc (b : Nat)
  | wcDec (b : Nat) | wcLd (b : Nat) | wcWaitLd (b : Nat) | wcWaitFx (b : Nat) | wcAsleep (b : Nat)
  | pWait | holding | rWait | childHold
  | dJoin | dChk
  deriving DecidableEq, Repr

/-- program counter of the worker thread -/
inductive WPc
  | none | start | dec0 | top | pausing | paused | unpausing | splice | inv | run
  | cSub | cLd | cSt | cWake | cPut
  | sub | stopchk | emptychk | rtchk | waitLd | waitFx | asleep | dec | exitSt | dead
  deriving DecidableEq, Repr

inductive FOut | sleep | eagain | eintr | spurious
  deriving DecidableEq, Repr

inductive CPhase | none | created | queued | waiting | waited | destroyed
  deriving DecidableEq, Repr

structure State where
  -- the workqueue
  queue   : List Nat
  batch   : List Nat
  cur     : Option Nat
  cnt     : Nat
  pause   : Bool
  paused  : Bool
  stop    : Bool
  futex   : Int
  qlen    : Int
  -- the worker
  wpc     : WPc
  cbuf    : Bool                -- the worker's store buffer holds `completion->futex := 0`
  -- threads
  tpc     : Nat → TPc
  bfut    : Nat → Bool          -- thread's store buffer holds `workqueue->futex := 0`
  pauser  : Option Nat
  stopper : Option Nat
  child   : Bool
  destroyed : Bool
  assertOk : Bool
  -- completions
  nextB   : Nat
  ccnt    : Nat → Int           -- completion->barrier_count
  cfut    : Nat → Int           -- completion->futex
  cref    : Nat → Int           -- completion->ref
  cfreed  : Nat → Bool
  cphase  : Nat → CPhase
  cowner  : Nat → Nat
  orphan  : Nat → Bool          -- the completion belonged to a thread that does not exist in this (child) process
  cw      : Nat → Option Nat    -- work item ↦ its completion (`work->completion`)
  -- ghost
  uaf     : Bool
  reg     : Nat → Bool
  enqLog  : List Nat
  doneLog : List Nat
  runN    : Nat → Nat
  fin     : Nat → Bool
  snap    : Nat → List Nat
  before  : Nat → List Nat
  cwork   : Nat → Option Nat    -- completion ↦ its work item
  csub    : Nat → Bool          -- the work item has decremented barrier_count
  workHolds : Nat → Bool        -- the reference taken for the work item has not been dropped
  forkFutex : Option Int

/-- state right after `urcu_workqueue_create` -/
def init : State :=
  { queue := [], batch := [], cur := none, cnt := 0, pause := false, paused := false, stop := false, futex := 0, qlen := 0,
    wpc := .start, cbuf := false, tpc := fun _ => .idle, bfut := fun _ => false, pauser := none, stopper := none,
    child := false, destroyed := false, assertOk := true,
    nextB := 0, ccnt := fun _ => 0, cfut := fun _ => 0, cref := fun _ => 0, cfreed := fun _ => false,
    cphase := fun _ => .none, cowner := fun _ => 0, orphan := fun _ => false, cw := fun _ => none,
    uaf := false, reg := fun _ => false, enqLog := [], doneLog := [], runN := fun _ => 0, fin := fun _ => false,
    snap := fun _ => [], before := fun _ => [], cwork := fun _ => none, csub := fun _ => false,
    workHolds := fun _ => false, forkFutex := none }

inductive Label
  -- urcu_workqueue_queue_work
  | qCall (t id : Nat) | enq (t : Nat) | inc (t : Nat) | ldFlags (t : Nat) | ldFutex (t : Nat) | stFutex (t : Nat)
  | flush (t : Nat) | wake (t : Nat)
  -- completions
  | ccCreate (t : Nat) | qcGet (t b : Nat) | qcInc (t w : Nat) | wcCall (t b : Nat) | wcDec (t : Nat) | wcLd (t : Nat)
  | wcWaitLd (t : Nat) | wcWaitFx (t : Nat) (o : FOut) | wcSpurious (t : Nat) | dcPut (t b : Nat)
  -- pause / resume / fork
  | pOr (t : Nat) | pSee (t : Nat) | rAnd (t : Nat) | rSee (t : Nat) | fork (t : Nat) | createWorker (t : Nat)
  -- destroy
  | dOr (t : Nat) | dJoin (t : Nat) | dChk (t : Nat)
  -- worker
  | wStart | wDec0 | wTop | wPause | wSeeResume | wUnpause | wSplice | wRunBegin (id : Nat) | wRunEnd
  | cSub | cLd | cSt | cFlush | cWake | cPut
  | wInvDone | wSub | wStopChk | wEmptyChk | wRtChk | wWaitLd | wWaitFx (o : FOut) | wSpurious | wDec | wExitSt
  deriving DecidableEq, Repr

/-- where control goes after `wake_worker_thread()` -/
def K.cont : K → TPc
  | .user => .idle
  | .compl _ => .idle
  | .pause => .pWait
  | .stop => .dJoin

/-- a thread may call `urcu_workqueue_queue_work`: application threads always, the worker's thread only while it
executes a user work -/
def userCtx (s : State) (t : Nat) : Bool := decide (t ≠ 0) || decide (s.wpc = .run)

/-- the completion of the work item the worker is executing -/
def curB (s : State) : Option Nat :=
  match s.cur with
  | some w => s.cw w
  | none => none

/-- One step; `none` = not enabled. -/
def step (c : Cfg) (s : State) : Label → Option State
  -- ---------------------------------------------------------------- urcu_workqueue_queue_work
  | .qCall t id =>
    if userCtx s t = true ∧ s.tpc t = .idle ∧ s.reg id = false ∧ s.stopper = none then
      some { s with tpc := upd s.tpc t (.enq id .user), reg := upd s.reg id true }
    else none
  | .enq t =>
    match s.tpc t with
    | .enq id k =>
      some { s with tpc := upd s.tpc t (.inc k), queue := s.queue ++ [id], enqLog := s.enqLog ++ [id],
                    before := fun b => if s.cw id = some b then s.enqLog else s.before b }
    | _ => none
  | .inc t =>
    match s.tpc t with
    | .inc k => some { s with tpc := upd s.tpc t (.ldFlags k), qlen := s.qlen + 1 }
    | _ => none
  | .ldFlags t =>
    match s.tpc t with
    | .ldFlags k => some { s with tpc := upd s.tpc t (if c.rt = true then k.cont else .ldFutex k) }
    | _ => none
  | .ldFutex t =>
    match s.tpc t with
    | .ldFutex k => some { s with tpc := upd s.tpc t (if s.futex = -1 then .stFutex k else k.cont) }
    | _ => none
  | .stFutex t =>
    match s.tpc t with
    | .stFutex k => some { s with tpc := upd s.tpc t (.wake k), bfut := upd s.bfut t true }
    | _ => none
  | .flush t =>
    if s.bfut t = true then some { s with futex := 0, bfut := upd s.bfut t false } else none
  | .wake t =>
    match s.tpc t with
    | .wake k =>
      if s.bfut t = false then
        some { s with tpc := upd s.tpc t k.cont, wpc := if s.wpc = .asleep then .waitLd else s.wpc }
      else none
    | _ => none
  -- ---------------------------------------------------------------- completions
  | .ccCreate t =>
    if t ≠ 0 ∧ s.tpc t = .idle ∧ s.stopper = none then
      some { s with nextB := s.nextB + 1, cref := upd s.cref s.nextB 1, ccnt := upd s.ccnt s.nextB 0,
                    cfut := upd s.cfut s.nextB 0, cphase := upd s.cphase s.nextB .created,
                    cowner := upd s.cowner s.nextB t, orphan := upd s.orphan s.nextB false,
                    snap := upd s.snap s.nextB s.enqLog }
    else none
  | .qcGet t b =>
    if t ≠ 0 ∧ s.tpc t = .idle ∧ b < s.nextB ∧ s.cowner b = t ∧ s.orphan b = false ∧ s.cphase b = .created ∧ s.stopper = none then
      some { s with tpc := upd s.tpc t (.qcInc b), cref := upd s.cref b (s.cref b + 1), cphase := upd s.cphase b .queued,
                    workHolds := upd s.workHolds b true, uaf := s.uaf || s.cfreed b }
    else none
  | .qcInc t w =>
    match s.tpc t with
    | .qcInc b =>
      if s.reg w = false then
        some { s with tpc := upd s.tpc t (.enq w (.compl b)), ccnt := upd s.ccnt b (s.ccnt b + 1), reg := upd s.reg w true,
                      cw := upd s.cw w (some b), cwork := upd s.cwork b (some w), uaf := s.uaf || s.cfreed b }
      else none
    | _ => none
  | .wcCall t b =>
    if t ≠ 0 ∧ s.tpc t = .idle ∧ b < s.nextB ∧ s.cowner b = t ∧ s.orphan b = false ∧ s.cphase b = .queued then
      some { s with tpc := upd s.tpc t (.wcDec b), cphase := upd s.cphase b .waiting }
    else none
  | .wcDec t =>
    match s.tpc t with
    | .wcDec b => some { s with tpc := upd s.tpc t (.wcLd b), cfut := upd s.cfut b (s.cfut b - 1), uaf := s.uaf || s.cfreed b }
    | _ => none
  | .wcLd t =>
    match s.tpc t with
    | .wcLd b =>
      if s.ccnt b = 0 then
        some { s with tpc := upd s.tpc t .idle, cphase := upd s.cphase b .waited, uaf := s.uaf || s.cfreed b }
      else some { s with tpc := upd s.tpc t (.wcWaitLd b), uaf := s.uaf || s.cfreed b }
    | _ => none
  | .wcWaitLd t =>
    match s.tpc t with
    | .wcWaitLd b =>
      some { s with tpc := upd s.tpc t (if s.cfut b = -1 then .wcWaitFx b else .wcDec b), uaf := s.uaf || s.cfreed b }
    | _ => none
  | .wcWaitFx t o =>
    match s.tpc t with
    | .wcWaitFx b =>
      match o with
      | .sleep => if s.cfut b = -1 then some { s with tpc := upd s.tpc t (.wcAsleep b), uaf := s.uaf || s.cfreed b } else none
      | .eagain => if s.cfut b ≠ -1 then some { s with tpc := upd s.tpc t (.wcDec b), uaf := s.uaf || s.cfreed b } else none
      | .eintr => some { s with tpc := upd s.tpc t (.wcWaitLd b) }
      | .spurious => some { s with tpc := upd s.tpc t (.wcWaitLd b) }
    | _ => none
  | .wcSpurious t =>
    match s.tpc t with
    | .wcAsleep b => some { s with tpc := upd s.tpc t (.wcWaitLd b) }
    | _ => none
  | .dcPut t b =>
    if t ≠ 0 ∧ s.tpc t = .idle ∧ b < s.nextB ∧ s.cowner b = t ∧ s.orphan b = false ∧
        (s.cphase b = .created ∨ s.cphase b = .queued ∨ s.cphase b = .waited) then
      some { s with cref := upd s.cref b (s.cref b - 1), cphase := upd s.cphase b .destroyed,
                    cfreed := upd s.cfreed b (if s.cref b - 1 = 0 then true else s.cfreed b), uaf := s.uaf || s.cfreed b }
    else none
  -- ---------------------------------------------------------------- pause / resume / fork
  | .pOr t =>
    if t ≠ 0 ∧ s.tpc t = .idle ∧ s.pauser = none ∧ s.stopper = none ∧ s.wpc ≠ .none then
      some { s with tpc := upd s.tpc t (.ldFlags .pause), pause := true, pauser := some t }
    else none
  | .pSee t =>
    if s.tpc t = .pWait ∧ s.paused = true then some { s with tpc := upd s.tpc t .holding } else none
  | .rAnd t =>
    if s.tpc t = .holding then some { s with tpc := upd s.tpc t .rWait, pause := false } else none
  | .rSee t =>
    if s.tpc t = .rWait ∧ s.paused = false then some { s with tpc := upd s.tpc t .idle, pauser := none } else none
  | .fork t =>
    if s.tpc t = .holding then
      some { s with tpc := fun u => if u = t then .childHold else .idle, bfut := fun _ => false, wpc := .none, cbuf := false,
                    child := true, forkFutex := some s.futex,
                    orphan := fun b => s.orphan b || decide (s.cowner b ≠ t) }
    else none
  | .createWorker t =>
    if s.tpc t = .childHold then
      some { s with tpc := upd s.tpc t .idle, pause := false, paused := false, pauser := none, wpc := .start,
                    futex := if c.resetFutexOnCreate = true then 0 else s.futex }
    else none
  -- ---------------------------------------------------------------- destroy
  | .dOr t =>
    if t ≠ 0 ∧ s.tpc t = .idle ∧ s.pauser = none ∧ s.stopper = none ∧ s.wpc ≠ .none then
      some { s with tpc := upd s.tpc t (.ldFlags .stop), stop := true, stopper := some t }
    else none
  | .dJoin t =>
    if s.tpc t = .dJoin ∧ s.wpc = .dead then some { s with tpc := upd s.tpc t .dChk } else none
  | .dChk t =>
    if s.tpc t = .dChk then
      some { s with tpc := upd s.tpc t .idle, destroyed := true, assertOk := decide (s.queue = []) }
    else none
  -- ---------------------------------------------------------------- the worker
  | .wStart =>
    if s.wpc = .start then some { s with wpc := if c.rt = true then .top else .dec0 } else none
  | .wDec0 =>
    if s.wpc = .dec0 then some { s with wpc := .top, futex := s.futex - 1 } else none
  | .wTop =>
    if s.wpc = .top then some { s with wpc := if s.pause = true then .pausing else .splice } else none
  | .wPause =>
    if s.wpc = .pausing then some { s with wpc := .paused, paused := true } else none
  | .wSeeResume =>
    if s.wpc = .paused ∧ s.pause = false then some { s with wpc := .unpausing } else none
  | .wUnpause =>
    if s.wpc = .unpausing then some { s with wpc := .splice, paused := false } else none
  | .wSplice =>
    if s.wpc = .splice then
      if s.queue = [] then some { s with wpc := .stopchk }
      else some { s with wpc := .inv, batch := s.queue, queue := [], cnt := 0 }
    else none
  | .wRunBegin id =>
    -- `id` must be the first work of the private list (`__cds_wfcq_for_each_blocking_safe` order)
    if s.wpc = .inv ∧ s.batch.head? = some id then
      some { s with wpc := if (s.cw id).isSome = true then .cSub else .run, batch := s.batch.tail, cur := some id,
                    doneLog := s.doneLog ++ [id], runN := upd s.runN id (s.runN id + 1) }
    else none
  | .wRunEnd =>
    match s.cur with
    | some id =>
      if s.wpc = .run ∧ s.tpc 0 = .idle then
        some { s with wpc := .inv, cur := none, cnt := s.cnt + 1, fin := upd s.fin id true }
      else none
    | none => none
  | .cSub =>
    match s.cur with
    | some w =>
      match s.cw w with
      | some b =>
        if s.wpc = .cSub then
          some { s with wpc := if s.ccnt b - 1 = 0 then .cLd else .cPut, ccnt := upd s.ccnt b (s.ccnt b - 1),
                        csub := upd s.csub b true, uaf := s.uaf || s.cfreed b }
        else none
      | none => none
    | none => none
  | .cLd =>
    match curB s with
    | some b =>
      if s.wpc = .cLd then some { s with wpc := if s.cfut b = -1 then .cSt else .cPut, uaf := s.uaf || s.cfreed b } else none
    | none => none
  | .cSt =>
    match curB s with
    | some b => if s.wpc = .cSt then some { s with wpc := .cWake, cbuf := true, uaf := s.uaf || s.cfreed b } else none
    | none => none
  | .cFlush =>
    match curB s with
    | some b => if s.cbuf = true then some { s with cbuf := false, cfut := upd s.cfut b 0 } else none
    | none => none
  | .cWake =>
    match curB s with
    | some b =>
      if s.wpc = .cWake ∧ s.cbuf = false then
        some { s with wpc := .cPut,
                      tpc := upd s.tpc (s.cowner b) (if s.tpc (s.cowner b) = .wcAsleep b then .wcWaitLd b else s.tpc (s.cowner b)) }
      else none
    | none => none
  | .cPut =>
    match s.cur with
    | some w =>
      match s.cw w with
      | some b =>
        if s.wpc = .cPut then
          some { s with wpc := .inv, cur := none, cnt := s.cnt + 1, fin := upd s.fin w true,
                        cref := upd s.cref b (s.cref b - 1), workHolds := upd s.workHolds b false,
                        cfreed := upd s.cfreed b (if s.cref b - 1 = 0 then true else s.cfreed b), uaf := s.uaf || s.cfreed b }
        else none
      | none => none
    | none => none
  | .wInvDone =>
    if s.wpc = .inv ∧ s.batch = [] then some { s with wpc := .sub } else none
  | .wSub =>
    if s.wpc = .sub then some { s with wpc := .stopchk, qlen := s.qlen - s.cnt } else none
  | .wStopChk =>
    if s.wpc = .stopchk then
      some { s with wpc := if s.stop = true then (if c.rt = true then .dead else .exitSt)
                           else (if c.rt = true then .rtchk else .emptychk) }
    else none
  | .wEmptyChk =>
    if s.wpc = .emptychk then some { s with wpc := if s.queue = [] then .waitLd else .top } else none
  | .wRtChk =>
    if s.wpc = .rtchk then some { s with wpc := .top } else none
  | .wWaitLd =>
    if s.wpc = .waitLd then some { s with wpc := if s.futex = -1 then .waitFx else .dec } else none
  | .wWaitFx o =>
    if s.wpc = .waitFx then
      match o with
      | .sleep => if s.futex = -1 then some { s with wpc := .asleep } else none
      | .eagain => if s.futex ≠ -1 then some { s with wpc := .dec } else none
      | .eintr => some { s with wpc := .waitLd }
      | .spurious => some { s with wpc := .waitLd }
    else none
  | .wSpurious =>
    if s.wpc = .asleep then some { s with wpc := .waitLd } else none
  | .wDec =>
    if s.wpc = .dec then some { s with wpc := .top, futex := s.futex - 1 } else none
  | .wExitSt =>
    if s.wpc = .exitSt then some { s with wpc := .dead, futex := 0 } else none

inductive Reach (c : Cfg) : State → Prop
  | init : Reach c init
  | step {s s' l} : Reach c s → step c s l = some s' → Reach c s'

def run (c : Cfg) : State → List Label → Option State
  | s, [] => some s
  | s, l :: ls => match step c s l with
    | none => none
    | some s' => run c s' ls

/-- the works the worker still has to execute, in the order it will execute them -/
def pend (s : State) : List Nat :=
  (match s.cur with | some w => [w] | none => []) ++ s.batch ++ s.queue

end UrcuVerif.Wq
