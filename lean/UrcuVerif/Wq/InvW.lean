import UrcuVerif.Wq.InvB
/-!
# Work queue — invariant group W: the sleep / wake-up protocol between the worker and the threads that give it
something to do (helper lemmas; statements `worker_no_lost_wakeup`, … in `Props/Workqueue.lean`)

worker (not RT): `uatomic_dec(&futex)` ; mb ; PAUSE check ; splice, run the works ; STOP check ; `cds_wfcq_empty()` ; if
    empty `futex_wait`: mb ; while `futex == -1`: `FUTEX_WAIT(-1)` (sleeps only if the value still is -1) ;
    `uatomic_dec(&futex)` ; mb ; again.  The futex stays -1 from the decrement to the next wake-up.
waker (`urcu_workqueue_queue_work`, `pause_worker`, `destroy`): make the condition true (`xchg` of the queue tail / `lock or`
    on the flags – locked instructions, globally visible at once) ; load flags (RT?) ; mb ; load futex ; if -1: `futex := 0`
    (PLAIN store: it sits in the waker's store buffer `bfut t` until `flush t`) ; `FUTEX_WAKE` (only once it has drained).

`InvW`: whenever the worker is past its check of a condition (PAUSE at the top of the loop, STOP, queue non-empty) and
before the end of its sleep, with `futex = -1`, while that condition has become true, some thread is still on its way to
reset the futex and to wake it, or its reset sits in its store buffer; if the worker sleeps with `futex = 0`, some thread
is about to call `FUTEX_WAKE`.  No range for the futex is claimed: a child after `fork()` may inherit -1 (see the
observation in `Props/Workqueue.lean`).
-/
set_option linter.unusedVariables false
set_option linter.unusedSimpArgs false
namespace UrcuVerif.Wq
open UrcuVerif

structure InvW (c : Cfg) (s : State) : Prop where
  w_le : s.futex ≤ 0
  w_rt : c.rt = true → s.futex = 0 ∧ s.wpc.futexSide = false
  w_wait : s.wpc = .waitFx ∨ s.wpc = .asleep → s.futex = -1 ∨ s.futex = 0
  w_bfut : ∀ t, s.bfut t = true → (s.tpc t).isWake = true
  w_empty : s.wpc.afterEmpty = true → s.futex = -1 → s.queue ≠ [] → ∃ t, willWake s t
  w_stop : s.wpc.afterStop = true → s.futex = -1 → s.stop = true → ∃ t, willWake s t
  w_pause : s.wpc.afterPause = true → s.futex = -1 → s.pause = true → ∃ t, willWake s t
  w_0 : s.wpc = .asleep → s.futex = 0 → ∃ t, (s.tpc t).isWake = true

theorem invW_init (c : Cfg) : InvW c init := by
  constructor <;> simp [init, WPc.futexSide, WPc.afterEmpty, WPc.afterStop, WPc.afterPause]

theorem snoc_ne_nil' (l : List Nat) (a : Nat) : l ++ [a] ≠ [] := by simp

set_option hygiene false in
macro "w_tac" : tactic => `(tactic| (
  have b1 := hB.b_nopauser
  have b5 := hB.b_pause0
  have b6 := hB.b_holding
  have b10 := hB.b_unpausing
  have b12 := hB.b_childHold
  have b13 := hB.b_nostopper
  clear hB
  obtain ⟨h1, h2, h3, h4, h5, h6, h7, h8⟩ := h
  simp only [step] at st
  (repeat' split at st)
  all_goals (first | (simp at st; done) | skip)
  all_goals (simp only [Option.some.injEq] at st; subst st)
  all_goals (constructor <;> first | assumption | (simp only [upd, userCtx, willWake] at * <;> first | grind (splits := 25) [WPc.futexSide, WPc.afterEmpty, WPc.afterStop, WPc.afterPause, WPc.pauseHs, WPc.exiting, TPc.waker, TPc.isWake, cont_waker, cont_isWake, snoc_ne_nil'] | (cases hw : s.wpc <;> simp only [hw] at * <;> grind (splits := 25) [WPc.futexSide, WPc.afterEmpty, WPc.afterStop, WPc.afterPause, WPc.pauseHs, WPc.exiting, TPc.waker, TPc.isWake, cont_waker, cont_isWake, snoc_ne_nil'])))))

end UrcuVerif.Wq
