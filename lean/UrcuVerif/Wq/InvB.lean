import UrcuVerif.Wq.Defs
/-! Work queue — invariant group B: who is inside pause / resume / fork / destroy, the PAUSE / PAUSED / STOP flags
and the worker's program counter (helper lemmas; statements in `Props/Workqueue.lean`). -/
set_option linter.unusedVariables false
set_option linter.unusedSimpArgs false
namespace UrcuVerif.Wq
open UrcuVerif

structure InvB (s : State) : Prop where
  b_nopauser : s.pauser = none → s.pause = false ∧ s.paused = false ∧ s.wpc.pauseHs = false ∧ s.wpc ≠ .none
  b_side : ∀ t, (s.tpc t).pauseSide = true → s.pauser = some t
  b_pauser : ∀ t, s.pauser = some t → (s.tpc t).pauseSide = true
  b_pause1 : ∀ t, s.pauser = some t → s.tpc t ≠ .rWait → s.pause = true
  b_pause0 : ∀ t, s.tpc t = .rWait → s.pause = false
  b_holding : ∀ t, s.tpc t = .holding → s.paused = true ∧ s.wpc = .paused
  b_paused : s.paused = true → s.wpc = .paused ∨ s.wpc = .unpausing ∨ s.wpc = .none
  b_paused' : s.wpc = .paused ∨ s.wpc = .unpausing → s.paused = true
  b_pausing : s.wpc = .pausing → s.pause = true
  b_unpausing : s.wpc = .unpausing → s.pause = false
  b_none : s.wpc = .none → s.pauser ≠ none ∧ ∀ t, s.pauser = some t → s.tpc t = .childHold
  b_childHold : ∀ t, s.tpc t = .childHold → s.wpc = .none ∧ s.child = true
  b_nostopper : s.stopper = none → s.stop = false ∧ s.wpc.exiting = false ∧ s.destroyed = false
  b_exiting : s.wpc.exiting = true → s.stop = true
  b_stopside : ∀ t, (s.tpc t).stopSide = true → s.stopper = some t
  b_excl : s.pauser = none ∨ s.stopper = none
  b_dchk : ∀ t, s.tpc t = .dChk → s.wpc = .dead
  b_destroyed : s.destroyed = true → s.wpc = .dead
  b_zero : (s.tpc 0).userOnly = true
  b_zero_run : s.tpc 0 ≠ .idle → s.wpc = .run
  b_pauser_nz : s.pauser ≠ some 0

theorem invB_init : InvB init := by
  constructor <;> simp [init, WPc.pauseHs, WPc.exiting, TPc.pauseSide, TPc.stopSide, TPc.userOnly]

set_option hygiene false in
macro "b_tac" : tactic => `(tactic| (
  obtain ⟨h1, h2, h3, h4, h5, h6, h7, h8, h9, h10, h11, h12, h13, h14, h15, h16, h17, h18, h19, h20, h21⟩ := h
  simp only [step] at st
  (repeat' split at st)
  all_goals (first | (simp at st; done) | skip)
  all_goals (simp only [Option.some.injEq] at st; subst st)
  all_goals (constructor <;> first | assumption | (simp only [upd, userCtx] at * <;> first | grind (splits := 25) [WPc.pauseHs, WPc.exiting, TPc.pauseSide, TPc.stopSide, TPc.userOnly, K.isPause, K.isStop, K.isUser, cont_pauseSide, cont_stopSide, cont_userOnly, cont_ne_holding, cont_ne_childHold, cont_ne_rWait, cont_ne_dChk, cont_idle_of_user] | (cases hw : s.wpc <;> simp only [hw] at * <;> grind (splits := 25) [WPc.pauseHs, WPc.exiting, TPc.pauseSide, TPc.stopSide, TPc.userOnly, K.isPause, K.isStop, K.isUser, cont_pauseSide, cont_stopSide, cont_userOnly, cont_ne_holding, cont_ne_childHold, cont_ne_rWait, cont_ne_dChk, cont_idle_of_user])))))

end UrcuVerif.Wq
