import UrcuVerif.Wq.Model
/-! Classification of program counters and small list lemmas used by the invariants of the work-queue model
(`Wq/Model.lean`).  Every classifier lists every constructor, so that its equation lemmas are unconditional. -/
namespace UrcuVerif.Wq
open UrcuVerif

/-- the worker executes a work item (`cur ≠ none`) -/
def WPc.running : WPc → Bool
  | .run => true | .cSub => true | .cLd => true | .cSt => true | .cWake => true | .cPut => true
  | .none => false | .start => false | .dec0 => false | .top => false | .pausing => false | .paused => false
  | .unpausing => false | .splice => false | .inv => false | .sub => false | .stopchk => false | .emptychk => false
  | .rtchk => false | .waitLd => false | .waitFx => false | .asleep => false | .dec => false | .exitSt => false | .dead => false

/-- the worker is inside `_urcu_workqueue_wait_complete` -/
def WPc.inCompl : WPc → Bool
  | .cSub => true | .cLd => true | .cSt => true | .cWake => true | .cPut => true
  | .run => false
  | .none => false | .start => false | .dec0 => false | .top => false | .pausing => false | .paused => false
  | .unpausing => false | .splice => false | .inv => false | .sub => false | .stopchk => false | .emptychk => false
  | .rtchk => false | .waitLd => false | .waitFx => false | .asleep => false | .dec => false | .exitSt => false | .dead => false

/-- `_urcu_workqueue_wait_complete` after its `uatomic_sub_return` -/
def WPc.afterSub : WPc → Bool
  | .cLd => true | .cSt => true | .cWake => true | .cPut => true
  | .cSub => false | .run => false
  | .none => false | .start => false | .dec0 => false | .top => false | .pausing => false | .paused => false
  | .unpausing => false | .splice => false | .inv => false | .sub => false | .stopchk => false | .emptychk => false
  | .rtchk => false | .waitLd => false | .waitFx => false | .asleep => false | .dec => false | .exitSt => false | .dead => false

/-- the private list may be non-empty: between the splice and the end of the iteration -/
def WPc.hasBatch : WPc → Bool
  | .inv => true | .run => true | .cSub => true | .cLd => true | .cSt => true | .cWake => true | .cPut => true
  | .none => false | .start => false | .dec0 => false | .top => false | .pausing => false | .paused => false
  | .unpausing => false | .splice => false | .sub => false | .stopchk => false | .emptychk => false
  | .rtchk => false | .waitLd => false | .waitFx => false | .asleep => false | .dec => false | .exitSt => false | .dead => false

/-- the PAUSE / PAUSED handshake of the worker -/
def WPc.pauseHs : WPc → Bool
  | .pausing => true | .paused => true | .unpausing => true
  | .inv => false | .run => false | .cSub => false | .cLd => false | .cSt => false | .cWake => false | .cPut => false
  | .none => false | .start => false | .dec0 => false | .top => false
  | .splice => false | .sub => false | .stopchk => false | .emptychk => false
  | .rtchk => false | .waitLd => false | .waitFx => false | .asleep => false | .dec => false | .exitSt => false | .dead => false

def WPc.exiting : WPc → Bool
  | .exitSt => true | .dead => true
  | .pausing => false | .paused => false | .unpausing => false
  | .inv => false | .run => false | .cSub => false | .cLd => false | .cSt => false | .cWake => false | .cPut => false
  | .none => false | .start => false | .dec0 => false | .top => false
  | .splice => false | .sub => false | .stopchk => false | .emptychk => false
  | .rtchk => false | .waitLd => false | .waitFx => false | .asleep => false | .dec => false

/-- program points only a futex-woken (non-RT) worker reaches -/
def WPc.futexSide : WPc → Bool
  | .dec0 => true | .emptychk => true | .waitLd => true | .waitFx => true | .asleep => true | .dec => true | .exitSt => true
  | .pausing => false | .paused => false | .unpausing => false
  | .inv => false | .run => false | .cSub => false | .cLd => false | .cSt => false | .cWake => false | .cPut => false
  | .none => false | .start => false | .top => false
  | .splice => false | .sub => false | .stopchk => false | .rtchk => false | .dead => false

/-- from the emptiness check (which found the queue empty) to the end of the sleep -/
def WPc.afterEmpty : WPc → Bool
  | .waitLd => true | .waitFx => true | .asleep => true
  | .dec0 => false | .emptychk => false | .dec => false | .exitSt => false
  | .pausing => false | .paused => false | .unpausing => false
  | .inv => false | .run => false | .cSub => false | .cLd => false | .cSt => false | .cWake => false | .cPut => false
  | .none => false | .start => false | .top => false
  | .splice => false | .sub => false | .stopchk => false | .rtchk => false | .dead => false

/-- from the STOP check (which found it clear) to the end of the sleep -/
def WPc.afterStop : WPc → Bool
  | .emptychk => true | .waitLd => true | .waitFx => true | .asleep => true
  | .dec0 => false | .dec => false | .exitSt => false
  | .pausing => false | .paused => false | .unpausing => false
  | .inv => false | .run => false | .cSub => false | .cLd => false | .cSt => false | .cWake => false | .cPut => false
  | .none => false | .start => false | .top => false
  | .splice => false | .sub => false | .stopchk => false | .rtchk => false | .dead => false

/-- from the PAUSE check (which found it clear) to the end of the sleep -/
def WPc.afterPause : WPc → Bool
  | .splice => true | .inv => true | .run => true | .cSub => true | .cLd => true | .cSt => true | .cWake => true | .cPut => true
  | .sub => true | .stopchk => true | .emptychk => true | .waitLd => true | .waitFx => true | .asleep => true
  | .dec0 => false | .dec => false | .exitSt => false
  | .pausing => false | .paused => false | .unpausing => false
  | .none => false | .start => false | .top => false | .rtchk => false | .dead => false

/-- continuation of a thread inside `urcu_workqueue_queue_work` / `wake_worker_thread` -/
def TPc.kont : TPc → Option K
  | .enq _ k => some k | .inc k => some k | .ldFlags k => some k | .ldFutex k => some k | .stFutex k => some k | .wake k => some k
  | .idle => none | .qcInc _ => none
  | .wcDec _ => none | .wcLd _ => none | .wcWaitLd _ => none | .wcWaitFx _ => none | .wcAsleep _ => none
  | .pWait => none | .holding => none | .rWait => none | .childHold => none | .dJoin => none | .dChk => none

/-- on the wake path, the futex not yet tested / the reset not yet issued -/
def TPc.waker : TPc → Bool
  | .inc _ => true | .ldFlags _ => true | .ldFutex _ => true | .stFutex _ => true
  | .enq _ _ => false | .wake _ => false
  | .idle => false | .qcInc _ => false
  | .wcDec _ => false | .wcLd _ => false | .wcWaitLd _ => false | .wcWaitFx _ => false | .wcAsleep _ => false
  | .pWait => false | .holding => false | .rWait => false | .childHold => false | .dJoin => false | .dChk => false

/-- about to call `FUTEX_WAKE` -/
def TPc.isWake : TPc → Bool
  | .wake _ => true
  | .inc _ => false | .ldFlags _ => false | .ldFutex _ => false | .stFutex _ => false
  | .enq _ _ => false
  | .idle => false | .qcInc _ => false
  | .wcDec _ => false | .wcLd _ => false | .wcWaitLd _ => false | .wcWaitFx _ => false | .wcAsleep _ => false
  | .pWait => false | .holding => false | .rWait => false | .childHold => false | .dJoin => false | .dChk => false

def K.isPause : K → Bool
  | .pause => true | .user => false | .compl _ => false | .stop => false
def K.isStop : K → Bool
  | .stop => true | .user => false | .compl _ => false | .pause => false
def K.isUser : K → Bool
  | .user => true | .stop => false | .compl _ => false | .pause => false
def K.complOf : K → Option Nat
  | .compl b => some b | .user => none | .stop => none | .pause => none

/-- the thread is inside `urcu_workqueue_pause_worker`, holds the pause, or is inside `resume_worker` / the child's
`create_worker` -/
def TPc.pauseSide : TPc → Bool
  | .enq _ k => k.isPause | .inc k => k.isPause | .ldFlags k => k.isPause | .ldFutex k => k.isPause | .stFutex k => k.isPause
  | .wake k => k.isPause
  | .pWait => true | .holding => true | .rWait => true | .childHold => true
  | .idle => false | .qcInc _ => false
  | .wcDec _ => false | .wcLd _ => false | .wcWaitLd _ => false | .wcWaitFx _ => false | .wcAsleep _ => false
  | .dJoin => false | .dChk => false

/-- the thread is inside `urcu_workqueue_destroy` -/
def TPc.stopSide : TPc → Bool
  | .enq _ k => k.isStop | .inc k => k.isStop | .ldFlags k => k.isStop | .ldFutex k => k.isStop | .stFutex k => k.isStop
  | .wake k => k.isStop
  | .dJoin => true | .dChk => true
  | .pWait => false | .holding => false | .rWait => false | .childHold => false
  | .idle => false | .qcInc _ => false
  | .wcDec _ => false | .wcLd _ => false | .wcWaitLd _ => false | .wcWaitFx _ => false | .wcAsleep _ => false

/-- what the worker's own thread may be doing: nothing, or a `urcu_workqueue_queue_work` of a user work -/
def TPc.userOnly : TPc → Bool
  | .enq _ k => k.isUser | .inc k => k.isUser | .ldFlags k => k.isUser | .ldFutex k => k.isUser | .stFutex k => k.isUser
  | .wake k => k.isUser
  | .idle => true
  | .dJoin => false | .dChk => false
  | .pWait => false | .holding => false | .rWait => false | .childHold => false
  | .qcInc _ => false
  | .wcDec _ => false | .wcLd _ => false | .wcWaitLd _ => false | .wcWaitFx _ => false | .wcAsleep _ => false

/-- the completion a thread is operating on: inside `queue_completion` -/
def TPc.queuing : TPc → Option Nat
  | .enq _ k => k.complOf | .inc k => k.complOf | .ldFlags k => k.complOf | .ldFutex k => k.complOf | .stFutex k => k.complOf
  | .wake k => k.complOf
  | .qcInc _ => none
  | .idle => none | .dJoin => none | .dChk => none
  | .pWait => none | .holding => none | .rWait => none | .childHold => none
  | .wcDec _ => none | .wcLd _ => none | .wcWaitLd _ => none | .wcWaitFx _ => none | .wcAsleep _ => none

/-- inside `urcu_workqueue_wait_completion(b)` -/
def TPc.waitOf : TPc → Option Nat
  | .wcDec b => some b | .wcLd b => some b | .wcWaitLd b => some b | .wcWaitFx b => some b | .wcAsleep b => some b
  | .enq _ _ => none | .inc _ => none | .ldFlags _ => none | .ldFutex _ => none | .stFutex _ => none | .wake _ => none
  | .qcInc _ => none
  | .idle => none | .dJoin => none | .dChk => none
  | .pWait => none | .holding => none | .rWait => none | .childHold => none

/-- inside the `futex_wait` of `urcu_workqueue_wait_completion(b)` -/
def TPc.sleepOf : TPc → Option Nat
  | .wcWaitLd b => some b | .wcWaitFx b => some b | .wcAsleep b => some b
  | .wcDec _ => none | .wcLd _ => none
  | .enq _ _ => none | .inc _ => none | .ldFlags _ => none | .ldFutex _ => none | .stFutex _ => none | .wake _ => none
  | .qcInc _ => none
  | .idle => none | .dJoin => none | .dChk => none
  | .pWait => none | .holding => none | .rWait => none | .childHold => none

theorem cont_kont (k : K) : k.cont.kont = none := by cases k <;> rfl
theorem cont_waker (k : K) : k.cont.waker = false := by cases k <;> rfl
theorem cont_isWake (k : K) : k.cont.isWake = false := by cases k <;> rfl
theorem cont_queuing (k : K) : k.cont.queuing = none := by cases k <;> rfl
theorem cont_waitOf (k : K) : k.cont.waitOf = none := by cases k <;> rfl
theorem cont_sleepOf (k : K) : k.cont.sleepOf = none := by cases k <;> rfl
theorem cont_pauseSide (k : K) : k.cont.pauseSide = k.isPause := by cases k <;> rfl
theorem cont_stopSide (k : K) : k.cont.stopSide = k.isStop := by cases k <;> rfl
theorem cont_userOnly (k : K) (h : k.isUser = true) : k.cont.userOnly = true := by cases k <;> simp_all [K.isUser, K.cont, TPc.userOnly]
theorem cont_ne_enq (k : K) (id : Nat) (k' : K) : k.cont ≠ .enq id k' := by cases k <;> simp [K.cont]
theorem cont_ne_qcInc (k : K) (b : Nat) : k.cont ≠ .qcInc b := by cases k <;> simp [K.cont]
theorem cont_ne_holding (k : K) : k.cont ≠ .holding := by cases k <;> simp [K.cont]
theorem cont_ne_childHold (k : K) : k.cont ≠ .childHold := by cases k <;> simp [K.cont]
theorem cont_ne_rWait (k : K) : k.cont ≠ .rWait := by cases k <;> simp [K.cont]
theorem cont_ne_dChk (k : K) : k.cont ≠ .dChk := by cases k <;> simp [K.cont]
theorem cont_ne_wcDec (k : K) (b : Nat) : k.cont ≠ .wcDec b := by cases k <;> simp [K.cont]
theorem cont_ne_wcAsleep (k : K) (b : Nat) : k.cont ≠ .wcAsleep b := by cases k <;> simp [K.cont]
theorem cont_idle_of_user (k : K) (h : k.isUser = true) : k.cont = .idle := by cases k <;> simp_all [K.isUser, K.cont]

/-- `t` is going to test the futex of the work queue and, finding -1, to reset it and call `FUTEX_WAKE`; or its reset
is still in its store buffer -/
def willWake (s : State) (t : Nat) : Prop :=
  (s.tpc t).waker = true ∨ ((s.tpc t).isWake = true ∧ s.bfut t = true)

/-! ### list lemmas -/

theorem cons_tail_of_head? {l : List Nat} {a : Nat} (h : l.head? = some a) : l = a :: l.tail := by
  cases l <;> simp_all

theorem mem_of_head? {l : List Nat} {a : Nat} (h : l.head? = some a) : a ∈ l := by
  cases l <;> simp_all

theorem mem_tail {l : List Nat} {a : Nat} (h : a ∈ l.tail) : a ∈ l := by
  cases l <;> simp_all

theorem ne_nil_of_head? {l : List Nat} {a : Nat} (h : l.head? = some a) : l ≠ [] := by
  cases l <;> simp_all

theorem nodup_snoc {l : List Nat} {a : Nat} (h : l.Nodup) (ha : a ∉ l) : (l ++ [a]).Nodup := by
  rw [List.nodup_append]
  exact ⟨h, by simp, by intro x hx y hy; simp at hy; subst hy; intro e; subst e; exact ha hx⟩

theorem split_unique {a d1 z y : List Nat} {w : Nat} (h : a ++ w :: z = d1 ++ w :: y) (ha : w ∉ a) (hd : w ∉ d1) : a = d1 := by
  induction a generalizing d1 with
  | nil =>
    cases d1 with
    | nil => rfl
    | cons b d1 => simp at h; simp [h.1] at hd
  | cons x a ih =>
    cases d1 with
    | nil => simp at h; simp [h.1] at ha
    | cons b d1 =>
      simp only [List.cons_append, List.cons.injEq] at h
      simp only [List.mem_cons, not_or] at ha hd
      rw [h.1, ih h.2 ha.2 hd.2]

/-- in a duplicate-free list, if `a ++ [w]` is a prefix and `w` lies in the front part `d`, then all of `a` lies in `d`,
strictly before its last element -/
theorem prefix_in_front {a d r : List Nat} {w : Nat} (hp : a ++ [w] <+: d ++ r) (hnd : (d ++ r).Nodup) (hw : w ∈ d) :
    ∀ x, x ∈ a → x ∈ d ∧ d.getLast? ≠ some x := by
  obtain ⟨d1, d2, rfl⟩ := List.append_of_mem hw
  obtain ⟨z, hz⟩ := hp
  have hz' : a ++ w :: z = d1 ++ w :: (d2 ++ r) := by simpa [List.append_assoc] using hz
  have hnd' : (d1 ++ w :: (d2 ++ r)).Nodup := by simpa [List.append_assoc] using hnd
  have hwa : w ∉ a := by
    intro h
    have : (a ++ w :: z).Nodup := by rw [hz']; exact hnd'
    rw [List.nodup_append] at this
    exact this.2.2 w h w (by simp) rfl
  have hwd : w ∉ d1 := by
    intro h
    rw [List.nodup_append] at hnd'
    exact hnd'.2.2 w h w (by simp) rfl
  have hE : a = d1 := split_unique hz' hwa hwd
  subst hE
  intro x hx
  refine ⟨by simp [hx], ?_⟩
  intro hl
  have hlast : (a ++ w :: d2).getLast? = (w :: d2).getLast? := by
    rw [List.getLast?_append]
    cases h : (w :: d2).getLast? with
    | none => simp at h
    | some v => rfl
  rw [hlast] at hl
  have hxm : x ∈ w :: d2 := List.mem_of_getLast? hl
  rw [List.nodup_append] at hnd'
  refine hnd'.2.2 x hx x ?_ rfl
  simp only [List.mem_cons, List.mem_append] at hxm ⊢
  rcases hxm with h | h
  · exact Or.inl h
  · exact Or.inr (Or.inl h)

end UrcuVerif.Wq
