import UrcuVerif.Wq.InvA
/-! Work queue — invariant group C: completions (`urcu_workqueue_flush_queued_work` and the four calls it is made of):
one work item per completion, `barrier_count`, the reference count and the lifetime of the completion object, and the FIFO
position of the completion work item behind everything queued before it (helper lemmas; statements
`flush_waits_for_all_prior`, `completion_lifetime` in `Props/Workqueue.lean`). -/
set_option linter.unusedVariables false
set_option linter.unusedSimpArgs false
namespace UrcuVerif.Wq
open UrcuVerif

structure InvC (s : State) : Prop where
  c_fresh : ∀ b, s.nextB ≤ b → s.cphase b = .none
  c_none : ∀ b, s.cphase b = .none → s.cwork b = none ∧ s.csub b = false ∧ s.workHolds b = false ∧ s.cfreed b = false ∧ s.cref b = 0
  c_phase : ∀ b, b < s.nextB → s.cphase b ≠ .none
  c_cw : ∀ w b, s.cw w = some b → s.cwork b = some w
  c_cwork : ∀ b w, s.cwork b = some w → s.cw w = some b ∧ s.reg w = true
  c_created : ∀ b, s.cphase b = .created → s.cwork b = none ∧ s.workHolds b = false
  c_qcinc : ∀ t b, s.tpc t = .qcInc b → s.cowner b = t ∧ s.cphase b = .queued ∧ s.cwork b = none ∧ s.workHolds b = true
  c_queuing : ∀ t b, (s.tpc t).queuing = some b → s.cowner b = t ∧ s.cphase b = .queued ∧ s.cwork b ≠ none
  c_waitof : ∀ t b, (s.tpc t).waitOf = some b → s.cowner b = t ∧ s.cphase b = .waiting ∧ s.orphan b = false
  c_work_phase : ∀ b, s.cphase b = .waiting ∨ s.cphase b = .waited → s.cwork b ≠ none
  c_cnt0 : ∀ b, s.cwork b = none → s.ccnt b = 0 ∧ s.csub b = false
  c_cnt1 : ∀ b, s.cwork b ≠ none → s.csub b = false → s.ccnt b = 1
  c_cntS : ∀ b, s.csub b = true → s.ccnt b = 0
  c_sub_done : ∀ b w, s.csub b = true → s.cwork b = some w → w ∈ s.doneLog
  c_sub_pc : ∀ w b, s.cur = some w → s.cw w = some b → (s.csub b = true ↔ s.wpc.afterSub = true)
  c_before : ∀ b w, s.cwork b = some w → w ∈ s.enqLog → s.before b ++ [w] <+: s.enqLog
  c_snap : ∀ b, s.snap b <+: s.enqLog
  c_snap_before : ∀ b w, s.cwork b = some w → w ∈ s.enqLog → s.snap b <+: s.before b
  c_waited : ∀ b, s.cphase b = .waited → s.csub b = true
  c_ref1 : ∀ b, s.cphase b ≠ .destroyed → s.cphase b ≠ .none → s.cref b = 1 + (if s.workHolds b = true then 1 else 0)
  c_ref0 : ∀ b, s.cphase b = .destroyed → s.cref b = (if s.workHolds b = true then 1 else 0)
  c_queued : ∀ b, s.cphase b = .queued → s.orphan b = false → s.cwork b ≠ none ∨ s.tpc (s.cowner b) = .qcInc b
  c_freed : ∀ b, s.cfreed b = true → s.cphase b = .destroyed ∧ s.workHolds b = false
  c_holds : ∀ b w, s.cwork b = some w → s.fin w = false → s.workHolds b = true
  c_uaf : s.uaf = false
  c_enq : ∀ b w, s.cwork b = some w → s.orphan b = false → w ∈ s.enqLog ∨ s.tpc (s.cowner b) = .enq w (.compl b)
  c_fin_sub : ∀ b w, s.cwork b = some w → s.fin w = true → s.csub b = true

theorem invC_init : InvC init := by
  constructor <;> simp [init, TPc.queuing, TPc.waitOf]

theorem prefix_snoc {a l : List Nat} (x : Nat) (h : a <+: l) : a <+: l ++ [x] :=
  List.IsPrefix.trans h (List.prefix_append l [x])

theorem prefix_snoc_self (l : List Nat) (x : Nat) : l ++ [x] <+: l ++ [x] := List.prefix_refl _

set_option hygiene false in
macro "c_tac" : tactic => `(tactic| (
  have a4 := hA.a_pend
  have a8 := hA.a_fin
  have a11 := hA.a_cur_pc
  have a12 := hA.a_pc_cur
  have a14 := hA.a_compl
  have a15 := hA.a_run
  have a16 := hA.a_cw_reg
  have a17 := hA.a_kcompl
  have a3 := hA.a_reg
  have a2 := hA.a_fifo
  have a6 : ∀ id, s.cur = some id → id ∈ s.doneLog := fun id h => List.mem_of_getLast? (hA.a_cur_last id h)
  have b6 := hB.b_holding
  have b12 := hB.b_childHold
  clear hA hB
  obtain ⟨h1, h2, h3, h4, h5, h6, h7, h8, h9, h10, h11, h12, h13, h14, h15, h16, h17, h18, h19, h20, h21, h22, h23, h24, h25, h26, h27⟩ := h
  simp only [step] at st
  (repeat' split at st)
  all_goals (first | (simp at st; done) | skip)
  all_goals (simp only [Option.some.injEq] at st; subst st)
  all_goals (constructor <;> first | assumption | (simp only [upd, userCtx, curB] at * <;> first | grind (splits := 25) [WPc.afterSub, WPc.inCompl, WPc.running, TPc.queuing, TPc.waitOf, K.complOf, cont_queuing, cont_waitOf, cont_ne_qcInc] | (clear a2 a3 h14 h16 h17 h18; grind (splits := 25) [WPc.afterSub, WPc.inCompl, WPc.running, TPc.queuing, TPc.waitOf, K.complOf, cont_queuing, cont_waitOf, cont_ne_qcInc]) | (cases hw : s.wpc <;> simp only [hw] at * <;> grind (splits := 25) [WPc.afterSub, WPc.inCompl, WPc.running, TPc.queuing, TPc.waitOf, K.complOf, cont_queuing, cont_waitOf, cont_ne_qcInc])))))

theorem invc_enq (c : Cfg) {s s' : State} (hA : InvA s) (hB : InvB s) (h : InvC s) (t : Nat) (st : step c s (.enq t) = some s') : InvC s' := by
  c_tac

/-- the work at the head of the private list has not been started yet -/
theorem head_not_done {s : State} (hA : InvA s) {id : Nat} (hh : s.batch.head? = some id) : id ∉ s.doneLog := by
  intro hd
  have h1 := hA.a_nodup
  rw [← hA.a_fifo, cons_tail_of_head? hh] at h1
  simp only [List.append_assoc] at h1
  rw [List.nodup_append] at h1
  exact h1.2.2 id hd id (by simp) rfl

theorem invc_wRunBegin (c : Cfg) {s s' : State} (hA : InvA s) (hB : InvB s) (h : InvC s) (id : Nat) (st : step c s (.wRunBegin id) = some s') : InvC s' := by
  have hnd : s.wpc = .inv ∧ s.batch.head? = some id → id ∉ s.doneLog := fun hh => head_not_done hA hh.2
  c_tac

end UrcuVerif.Wq
