import UrcuVerif.Wq.Live
/-! Run-level lemmas for the liveness theorems of the work queue (`Props/LiveWq.lean`): runs with idle steps
(`Machine/Fair.lean`), every fairness / environment assumption a hypothesis. -/
set_option linter.unusedSimpArgs false
set_option linter.unusedVariables false
namespace UrcuVerif.Wq
open UrcuVerif UrcuVerif.Fair

/-- every state of a run from a reachable state is reachable -/
theorem reach_along (c : Cfg) {ρ : Nat → State} {ℓ : Nat → Option Label} (hrun : IsRun (step c) ρ ℓ)
    (hreach : Reach c (ρ 0)) (j : Nat) : Reach c (ρ j) :=
  inv_along hrun (Reach c) (fun _ _ _ h st => Reach.step h st) 0 hreach j (Nat.zero_le j)

/-- **worker_eventually_wakes** (any number of wakers, every placement of spurious / EINTR / EAGAIN returns, the waker's
`futex := 0` delayed arbitrarily in its store buffer; any reachable start state).  Hypothesis about the run: weak fairness
for every thread's *wake path* (`uatomic_inc(&qlen)`, flag load, futex load, `futex := 0`, its commit, `FUTEX_WAKE` – NOT
the decision to queue).  Then a worker asleep in `FUTEX_WAIT` although its queue is non-empty or STOP was requested
eventually leaves the sleep.  No fairness for the worker is needed.  (PAUSE is assumed clear along the run: a pending
pause is the fork handlers' business, C16.) -/
theorem worker_eventually_wakes (c : Cfg) {ρ : Nat → State} {ℓ : Nat → Option Label}
    (hrun : IsRun (step c) ρ ℓ) (hreach : Reach c (ρ 0))
    (hfair : ∀ t, WeakFair (step c) ρ ℓ (fun l => l ∈ wakeLabels t))
    (hpause : ∀ j, (ρ j).pause = false) :
    ∀ i, (ρ i).wpc = .asleep → ((ρ i).queue ≠ [] ∨ (ρ i).stop = true) → ∃ j, i ≤ j ∧ (ρ j).wpc ≠ .asleep := by
  have hR : ∀ j, Reach c (ρ j) := reach_along c hrun hreach
  let Inv' : State → Prop := fun s => Reach c s ∧ s.pause = false
  have hinv' : ∀ j, Inv' (ρ j) := fun j => ⟨hR j, hpause j⟩
  -- phase B: the futex has been reset; the thread that did it still owes the FUTEX_WAKE
  have phaseB : ∀ t, LeadsTo ρ (fun s => (s.tpc t).isWake = true) (fun s => s.wpc ≠ .asleep) := by
    intro t
    refine fair_measure_leadsTo hrun (fun l => l ∈ wakeLabels t) Inv' _ _ (fun s => wakeMeasure s t) hinv' (hfair t)
      ?_ ?_ ?_ ?_
    · intro s l s' I hp hg st
      have hs : s.wpc = .asleep := Classical.byContradiction (fun h => hg h)
      by_cases hl : l ∈ wakeLabels t
      · rcases waking_own c t hp hs hl st with h | h
        · exact Or.inr h
        · exact Or.inl h.1
      · exact Or.inl (by rw [(tpc_frame c (inv_reach c I.1).B I.2 t (isWake_onWake hp) hl st).1]; exact hp)
    · intro s I hp _
      exact waker_not_stuck c s t (Or.inr hp)
    · intro s l s' I hp _ hl st
      exact Or.inl (waker_measure c t hl st)
    · intro s l s' I hp _ hl st
      have e := tpc_frame c (inv_reach c I.1).B I.2 t (isWake_onWake hp) hl st
      exact Or.inl (by simp only [wakeMeasure, e.1, e.2]; exact Nat.le_refl _)
  -- phase A: the futex still reads -1; some thread is going to test and reset it
  have phaseA : ∀ t, LeadsTo ρ (fun s => willWake s t) (fun s => s.wpc ≠ .asleep ∨ s.futex ≠ -1) := by
    intro t
    refine fair_measure_leadsTo hrun (fun l => l ∈ wakeLabels t) Inv' _ _ (fun s => wakeMeasure s t) hinv' (hfair t)
      ?_ ?_ ?_ ?_
    · intro s l s' I hp hg st
      have hf : s.futex = -1 := Classical.byContradiction (fun h => hg (Or.inr h))
      by_cases hl : l ∈ wakeLabels t
      · rcases willWake_own c (inv_reach c I.1).W t hp hf hl st with h | h
        · exact Or.inl h
        · exact Or.inr (Or.inr h)
      · exact Or.inl (willWake_frame c (inv_reach c I.1).B I.2 t hp hl st)
    · intro s I hp _
      exact waker_not_stuck c s t (Or.inl hp)
    · intro s l s' I hp _ hl st
      exact Or.inl (waker_measure c t hl st)
    · intro s l s' I hp _ hl st
      have e := tpc_frame c (inv_reach c I.1).B I.2 t (willWake_onWake hp) hl st
      exact Or.inl (by simp only [wakeMeasure, e.1, e.2]; exact Nat.le_refl _)
  intro i0 hs hq
  have fromB : ∀ j, (ρ j).wpc = .asleep → (ρ j).futex = 0 → ∃ j', j ≤ j' ∧ (ρ j').wpc ≠ .asleep := by
    intro j hs h0
    obtain ⟨t, ht⟩ := (inv_reach c (hR j)).W.w_0 hs h0
    exact phaseB t j ht
  have W := (inv_reach c (hR i0)).W
  rcases W.w_wait (Or.inr hs) with h1 | h0
  · have : ∃ t, willWake (ρ i0) t := by
      rcases hq with hq | hst
      · exact W.w_empty (by rw [hs]; rfl) h1 hq
      · exact W.w_stop (by rw [hs]; rfl) h1 hst
    obtain ⟨t, hw⟩ := this
    obtain ⟨j, hj, hg⟩ := phaseA t i0 hw
    by_cases hsj : (ρ j).wpc = .asleep
    · have h0 : (ρ j).futex = 0 := by
        rcases (inv_reach c (hR j)).W.w_wait (Or.inr hsj) with h | h
        · rcases hg with hg | hg
          · exact absurd hsj hg
          · exact absurd h hg
        · exact h
      obtain ⟨j', hj', hg'⟩ := fromB j hsj h0
      exact ⟨j', Nat.le_trans hj hj', hg'⟩
    · exact ⟨j, hj, hsj⟩
  · exact fromB i0 hs h0

inductive BusyPh | own | run

/-- **the private list is eventually done**: a worker between its splice and the end of the iteration reaches the `qlen`
update (`sub`), provided it is scheduled fairly and the user works it runs terminate (completion work items terminate
by the worker's own steps). -/
theorem batch_eventually_done (c : Cfg) {ρ : Nat → State} {ℓ : Nat → Option Label} (hrun : IsRun (step c) ρ ℓ)
    (hR : ∀ j, Reach c (ρ j))
    (hfairW : WeakFair (step c) ρ ℓ wOwn)
    (hcb : ∀ j, (ρ j).wpc = .run → ∃ j', j ≤ j' ∧ (ρ j').wpc ≠ .run)
    (hpause : ∀ j, (ρ j).pause = false) :
    ∀ i, (ρ i).wpc.hasBatch = true → ∃ j, i ≤ j ∧ (ρ j).wpc = .sub := by
  intro i hb
  apply Classical.byContradiction
  intro hno
  have hns : ∀ j, i ≤ j → ¬ (ρ j).wpc = .sub := fun j hj h => hno ⟨j, hj, h⟩
  let Inv' : State → Prop := fun s => Reach c s ∧ s.pause = false
  have hbusy : ∀ j, i ≤ j → (ρ j).wpc.hasBatch = true :=
    unless_along hrun Inv' (fun s => s.wpc.hasBatch = true) (fun s => s.wpc = .sub) i (fun j _ => ⟨hR j, hpause j⟩)
      (fun s l s' I hp _ st => by
        by_cases hl : wOwn l
        · rcases busy_own c (inv_reach c I.1).H hp hl st with h | h
          · exact Or.inr h
          · exact Or.inl h.1
        · exact Or.inl (by rw [(busy_frame c (inv_reach c I.1).B I.2 hp hl st).1]; exact hp)) hb hns
  have hen_own : ∀ s, (Reach c s ∧ s.wpc.hasBatch = true ∧ s.wpc ≠ .run) → Enabled (step c) wOwn s := by
    intro s ⟨hr, hbz, hne⟩
    obtain ⟨l, hl, he⟩ := worker_no_stuck c hr (by
      refine ⟨?_, ?_, hne, ?_, ?_⟩ <;> (intro h; rw [h] at hbz; cases hbz))
    exact ⟨l, hl, he⟩
  refine hno (fair_measure_leadsto_family hrun (κ := BusyPh) (fun _ => wOwn)
    (fun k s => match k with | .own => Reach c s ∧ s.wpc.hasBatch = true ∧ s.wpc ≠ .run | .run => s.wpc = .run)
    (fun s => (Reach c s ∧ s.pause = false) ∧ s.wpc.hasBatch = true) (fun s => s.wpc = .sub) bMeasure i
    (fun j hj => ⟨⟨hR j, hpause j⟩, hbusy j hj⟩) ?_ ?_ ?_ ?_ ?_)
  · -- progress in each phase
    intro k
    cases k with
    | own => exact hfairW.progress _ hen_own
    | run =>
      intro j0 hen
      obtain ⟨j', hj', hne⟩ := hcb j0 (hen j0 (Nat.le_refl _))
      exact absurd (hen j' hj') hne
  · intro s I _
    by_cases h : s.wpc = .run
    · exact ⟨.run, h⟩
    · exact ⟨.own, I.1.1, I.2, h⟩
  · intro s l s' k I _ hl st
    rcases busy_own c (inv_reach c I.1.1).H I.2 hl st with h | h
    · exact Or.inr h
    · exact Or.inl h.2
  · intro s l s' I _ hl st
    have := busy_frame c (inv_reach c I.1.1).B I.1.2 I.2 (hl .own) st
    exact Or.inl (by simp only [bMeasure, this.1, this.2.1, this.2.2.2]; exact Nat.le_refl _)
  · intro s l s' k I _ hen hl st
    have e := (busy_frame c (inv_reach c I.1.1).B I.1.2 I.2 hl st).1
    cases k with
    | own => exact Or.inl ⟨Reach.step I.1.1 st, by rw [e]; exact hen.2.1, by rw [e]; exact hen.2.2⟩
    | run => exact Or.inl (by show s'.wpc = .run; rw [e]; exact hen)

/-- **a queued work is eventually spliced out** by the worker (no STOP, no PAUSE pending). -/
theorem queued_eventually_spliced (c : Cfg) {ρ : Nat → State} {ℓ : Nat → Option Label} (hrun : IsRun (step c) ρ ℓ)
    (hR : ∀ j, Reach c (ρ j))
    (hfairW : WeakFair (step c) ρ ℓ wOwn)
    (hfairK : ∀ t, WeakFair (step c) ρ ℓ (fun l => l ∈ wakeLabels t))
    (hcb : ∀ j, (ρ j).wpc = .run → ∃ j', j ≤ j' ∧ (ρ j').wpc ≠ .run)
    (hstop : ∀ j, (ρ j).stop = false) (hpause : ∀ j, (ρ j).pause = false) :
    ∀ id i, id ∈ (ρ i).queue → ∃ j, i ≤ j ∧ id ∈ (ρ j).batch := by
  intro id i hq
  apply Classical.byContradiction
  intro hno
  have hnb : ∀ j, i ≤ j → ¬ id ∈ (ρ j).batch := fun j hj h => hno ⟨j, hj, h⟩
  have hQ : ∀ j, i ≤ j → id ∈ (ρ j).queue :=
    unless_along hrun (fun _ => True) (fun s => id ∈ s.queue) (fun s => id ∈ s.batch) i (fun _ _ => trivial)
      (fun s l s' _ hp _ st => queue_unless c id hp st) hq hnb
  let Inv' : State → Prop := fun s => Reach c s ∧ s.stop = false ∧ s.pause = false ∧ id ∈ s.queue
  have hinv' : ∀ j, i ≤ j → Inv' (ρ j) := fun j hj => ⟨hR j, hstop j, hpause j, hQ j hj⟩
  -- from the linear part of the loop the worker's own steps lead to the splice
  have L_lin : ∀ k, i ≤ k → (ρ k).wpc.lin = true → False := by
    intro k hk hl
    obtain ⟨j, hj, hb⟩ := fair_measure_leadsTo_from hrun wOwn Inv' (fun s => s.wpc.lin = true) (fun s => id ∈ s.batch)
      (fun s => linRank s.wpc) i hinv' hfairW
      (fun s l s' I hp _ st => by
        by_cases ho : wOwn l
        · rcases lin_own c (inv_reach c I.1).H id hp I.2.1 I.2.2.1 I.2.2.2 ho st with h | h
          · exact Or.inr h
          · exact Or.inl h.1
        · exact Or.inl (by rw [lin_frame c (inv_reach c I.1).B I.2.2.1 hp ho st]; exact hp))
      (fun s I hp _ => by
        obtain ⟨l, hl, he⟩ := worker_no_stuck c I.1 (by
          refine ⟨?_, ?_, ?_, ?_, fun _ => I.2.2.1⟩ <;> (intro h; rw [h] at hp; cases hp))
        exact ⟨l, hl, he⟩)
      (fun s l s' I hp _ ho st => by
        rcases lin_own c (inv_reach c I.1).H id hp I.2.1 I.2.2.1 I.2.2.2 ho st with h | h
        · exact Or.inr h
        · exact Or.inl h.2)
      (fun s l s' I hp _ ho st => Or.inl (by rw [lin_frame c (inv_reach c I.1).B I.2.2.1 hp ho st]; exact Nat.le_refl _))
      k hk hl
    exact hnb j (by omega) hb
  -- `futex_wait` on a futex that no longer reads -1: the worker's own steps lead to the decrement
  have L_wl0 : ∀ k, i ≤ k → (ρ k).wpc.wl = true → (ρ k).futex ≠ -1 → False := by
    intro k hk hw h0
    obtain ⟨j, hj, hb⟩ := fair_measure_leadsTo_from hrun wOwn Inv' (fun s => s.wpc.wl = true ∧ s.futex ≠ -1)
      (fun s => s.wpc = .dec) (fun s => wlRank s.wpc) i hinv' hfairW
      (fun s l s' I hp _ st => by
        rcases wl0_step c (inv_reach c I.1).B (inv_reach c I.1).H I.2.2.1 hp.1 hp.2 st with h | h
        · exact Or.inr h
        · exact Or.inl ⟨h.1, h.2.1⟩)
      (fun s I hp _ => wl0_enabled c hp.1)
      (fun s l s' I hp _ ho st => by
        rcases wl0_step c (inv_reach c I.1).B (inv_reach c I.1).H I.2.2.1 hp.1 hp.2 st with h | h
        · exact Or.inr h
        · exact Or.inl (h.2.2.1 ho))
      (fun s l s' I hp _ ho st => by
        rcases wl0_step c (inv_reach c I.1).B (inv_reach c I.1).H I.2.2.1 hp.1 hp.2 st with h | h
        · exact Or.inr h
        · exact Or.inl (h.2.2.2 ho))
      k hk ⟨hw, h0⟩
    exact L_lin j (by omega) (by rw [hb]; rfl)
  -- asleep with the futex reset: the thread that reset it still owes the FUTEX_WAKE
  have L_B : ∀ t k, i ≤ k → ((ρ k).tpc t).isWake = true → (ρ k).wpc = .asleep → (ρ k).futex = 0 → False := by
    intro t k hk hw hs h0
    obtain ⟨j, hj, hb⟩ := fair_measure_leadsTo_from hrun (fun l => l ∈ wakeLabels t) Inv'
      (fun s => (s.tpc t).isWake = true ∧ s.wpc = .asleep ∧ s.futex = 0)
      (fun s => (s.wpc.wl = true ∧ s.futex ≠ -1) ∨ s.wpc = .dec) (fun s => wakeMeasure s t) i hinv' (hfairK t)
      (fun s l s' I hp _ st => by
        obtain ⟨h1, h2, h3⟩ := hp
        have hcs := cluster_step c (inv_reach c I.1).B I.2.2.1 (by rw [h2]; rfl) st
        have hf0 : s'.futex = 0 := by rcases hcs.2 with h | h; rw [h, h3]; exact h
        rcases hcs.1 with hc | hc
        · rcases cluster_cases hc with ha | hwl
          · by_cases hl : l ∈ wakeLabels t
            · rcases waking_own c t h1 h2 hl st with h | h
              · exact absurd ha h
              · exact Or.inl ⟨h.1, ha, hf0⟩
            · exact Or.inl ⟨by rw [(tpc_frame c (inv_reach c I.1).B I.2.2.1 t (isWake_onWake h1) hl st).1]; exact h1, ha, hf0⟩
          · exact Or.inr (Or.inl ⟨hwl, by rw [hf0]; decide⟩)
        · exact Or.inr (Or.inr hc))
      (fun s I hp _ => waker_not_stuck c s t (Or.inr hp.1))
      (fun s l s' I hp _ hl st => Or.inl (waker_measure c t hl st))
      (fun s l s' I hp _ hl st => by
        have e := tpc_frame c (inv_reach c I.1).B I.2.2.1 t (isWake_onWake hp.1) hl st
        exact Or.inl (by simp only [wakeMeasure, e.1, e.2]; exact Nat.le_refl _))
      k hk ⟨hw, hs, h0⟩
    rcases hb with hb | hb
    · exact L_wl0 j (by omega) hb.1 hb.2
    · exact L_lin j (by omega) (by rw [hb]; rfl)
  have fromC0 : ∀ k, i ≤ k → (ρ k).wpc.cluster = true → (ρ k).futex ≠ -1 → False := by
    intro k hk hc h0
    rcases cluster_cases hc with ha | hw
    · have W := (inv_reach c (hR k)).W
      have hz : (ρ k).futex = 0 := by
        rcases W.w_wait (Or.inr ha) with h | h
        · exact absurd h h0
        · exact h
      obtain ⟨t, ht⟩ := W.w_0 ha hz
      exact L_B t k hk ht ha hz
    · exact L_wl0 k hk hw h0
  -- waiting on futex = -1 with a non-empty queue: some thread is going to test and reset the futex
  have L_A : ∀ t k, i ≤ k → willWake (ρ k) t → (ρ k).wpc.cluster = true → (ρ k).futex = -1 → False := by
    intro t k hk hw hc h1
    obtain ⟨j, hj, hb⟩ := fair_measure_leadsTo_from hrun (fun l => l ∈ wakeLabels t) Inv'
      (fun s => willWake s t ∧ s.wpc.cluster = true ∧ s.futex = -1)
      (fun s => (s.wpc.cluster = true ∧ s.futex ≠ -1) ∨ s.wpc = .dec) (fun s => wakeMeasure s t) i hinv' (hfairK t)
      (fun s l s' I hp _ st => by
        obtain ⟨h1, h2, h3⟩ := hp
        have hcs := cluster_step c (inv_reach c I.1).B I.2.2.1 h2 st
        rcases hcs.1 with hc' | hc'
        · rcases hcs.2 with hf | hf
          · have hw' : willWake s' t := by
              by_cases hl : l ∈ wakeLabels t
              · rcases willWake_own c (inv_reach c I.1).W t h1 h3 hl st with h | h
                · exact h
                · rw [hf] at h; exact absurd h3 h
              · exact willWake_frame c (inv_reach c I.1).B I.2.2.1 t h1 hl st
            exact Or.inl ⟨hw', hc', by rw [hf]; exact h3⟩
          · exact Or.inr (Or.inl ⟨hc', by rw [hf]; decide⟩)
        · exact Or.inr (Or.inr hc'))
      (fun s I hp _ => waker_not_stuck c s t (Or.inl hp.1))
      (fun s l s' I hp _ hl st => Or.inl (waker_measure c t hl st))
      (fun s l s' I hp _ hl st => by
        have e := tpc_frame c (inv_reach c I.1).B I.2.2.1 t (willWake_onWake hp.1) hl st
        exact Or.inl (by simp only [wakeMeasure, e.1, e.2]; exact Nat.le_refl _))
      k hk ⟨hw, hc, h1⟩
    rcases hb with hb | hb
    · exact fromC0 j (by omega) hb.1 hb.2
    · exact L_lin j (by omega) (by rw [hb]; rfl)
  -- where is the worker now?
  have hne : (ρ i).queue ≠ [] := by intro h; rw [h] at hq; simp at hq
  have I := inv_reach c (hR i)
  have hnn : (ρ i).wpc ≠ .none := by
    intro h
    obtain ⟨h1, h2⟩ := I.B.b_none h
    cases hp : (ρ i).pauser with
    | none => exact h1 hp
    | some t =>
      have := I.B.b_pause1 t hp (by rw [h2 t hp]; simp)
      rw [hpause i] at this; cases this
  have hnex : (ρ i).wpc.exiting = false := by
    cases he : (ρ i).wpc.exiting with
    | false => rfl
    | true => have := I.B.b_exiting he; rw [hstop i] at this; cases this
  have hnp : (ρ i).wpc ≠ .pausing := by
    intro h
    have := I.B.b_pausing h
    rw [hpause i] at this; cases this
  by_cases hbz : (ρ i).wpc.hasBatch = true
  · obtain ⟨j, hj, hs⟩ := batch_eventually_done c hrun hR hfairW hcb hpause i hbz
    exact L_lin j hj (by rw [hs]; rfl)
  · by_cases hl : (ρ i).wpc.lin = true
    · exact L_lin i (Nat.le_refl i) hl
    · have hc : (ρ i).wpc.cluster = true := by
        cases hp : (ρ i).wpc <;> simp_all [WPc.hasBatch, WPc.lin, WPc.cluster, WPc.exiting]
      by_cases hf : (ρ i).futex = -1
      · obtain ⟨t, ht⟩ := I.W.w_empty (by cases hp : (ρ i).wpc <;> simp_all [WPc.cluster, WPc.afterEmpty]) hf hne
        exact L_A t i (Nat.le_refl i) ht hc hf
      · exact fromC0 i (Nat.le_refl i) hc hf

end UrcuVerif.Wq
