import UrcuVerif.Wq.InvB
/-! Work queue — invariant group A: where the work items are (enqueue log = started ++ private list ++ queue, no
duplicates), what has run and how often (helper lemmas; statements in `Props/Workqueue.lean`). -/
set_option linter.unusedVariables false
set_option linter.unusedSimpArgs false
namespace UrcuVerif.Wq
open UrcuVerif

structure InvA (s : State) : Prop where
  a_nodup : s.enqLog.Nodup
  a_fifo : s.doneLog ++ s.batch ++ s.queue = s.enqLog
  a_reg : ∀ id, id ∈ s.enqLog → s.reg id = true
  a_pend : ∀ t id k, s.tpc t = .enq id k → s.reg id = true ∧ id ∉ s.enqLog
  a_uniq : ∀ t t' id k k', s.tpc t = .enq id k → s.tpc t' = .enq id k' → t = t'
  a_cur_last : ∀ id, s.cur = some id → s.doneLog.getLast? = some id
  a_done : ∀ id, id ∈ s.doneLog → s.fin id = true ∨ s.cur = some id
  a_fin : ∀ id, s.fin id = true → id ∈ s.doneLog ∧ s.cur ≠ some id
  a_run1 : ∀ id, id ∈ s.doneLog → s.runN id = 1
  a_run0 : ∀ id, id ∉ s.doneLog → s.runN id = 0
  a_cur_pc : s.cur ≠ none → s.wpc.running = true
  a_pc_cur : s.wpc.running = true → s.cur ≠ none
  a_batch : s.batch ≠ [] → s.wpc.hasBatch = true
  a_compl : s.wpc.inCompl = true → ∀ w, s.cur = some w → s.cw w ≠ none
  a_run : s.wpc = .run → ∀ w, s.cur = some w → s.cw w = none
  a_cw_reg : ∀ w, s.reg w = false → s.cw w = none
  a_kcompl : ∀ t id b, s.tpc t = .enq id (.compl b) → s.cw id = some b
  a_kuser : ∀ t id k, s.tpc t = .enq id k → k.complOf = none → s.cw id = none

theorem invA_init : InvA init := by
  constructor <;> simp [init, WPc.running, WPc.hasBatch, WPc.inCompl]

set_option hygiene false in
macro "a_tac" : tactic => `(tactic| (
  have b6 := hB.b_holding
  have b12 := hB.b_childHold
  clear hB
  obtain ⟨h1, h2, h3, h4, h5, h6, h7, h8, h9, h10, h11, h12, h13, h14, h15, h16, h17, h18⟩ := h
  simp only [step] at st
  (repeat' split at st)
  all_goals (first | (simp at st; done) | skip)
  all_goals (simp only [Option.some.injEq] at st; subst st)
  all_goals (constructor <;> first | assumption | (simp only [upd, userCtx, curB] at * <;> first | grind (splits := 25) [WPc.running, WPc.hasBatch, WPc.inCompl, K.complOf, cont_ne_enq] | (clear h1 h2 h3 h6 h7 h8 h9 h10; grind (splits := 25) [WPc.running, WPc.hasBatch, WPc.inCompl, K.complOf, cont_ne_enq]) | (cases hw : s.wpc <;> simp only [hw] at * <;> grind (splits := 25) [WPc.running, WPc.hasBatch, WPc.inCompl, K.complOf, cont_ne_enq])))))

theorem inva_enq (c : Cfg) {s s' : State} (hB : InvB s) (h : InvA s) (t : Nat) (st : step c s (.enq t) = some s') : InvA s' := by
  obtain ⟨h1, h2, h3, h4, h5, h6, h7, h8, h9, h10, h11, h12, h13, h14, h15, h16, h17, h18⟩ := h
  simp only [step] at st
  split at st
  · rename_i id k hp
    simp only [Option.some.injEq] at st; subst st
    have hf := (h4 t id k hp)
    constructor <;> simp only [upd] at *
    · exact nodup_snoc h1 hf.2
    · rw [← h2]; simp [List.append_assoc]
    · intro x hx; simp only [List.mem_append, List.mem_cons, List.not_mem_nil, or_false] at hx
      rcases hx with hx | rfl
      · exact h3 x hx
      · exact hf.1
    · intro t' id' k' hp'
      split at hp'
      · cases hp'
      · have := h4 t' id' k' hp'
        refine ⟨this.1, ?_⟩
        simp only [List.mem_append, List.mem_cons, List.not_mem_nil, or_false, not_or]
        refine ⟨this.2, ?_⟩
        intro e; subst e
        have := h5 t t' id' k k' hp hp'
        omega
    · intro t1 t2 id' k1 k2 e1 e2
      split at e1
      · cases e1
      · split at e2
        · cases e2
        · exact h5 t1 t2 id' k1 k2 e1 e2
    · exact h6
    · exact h7
    · exact h8
    · exact h9
    · exact h10
    · exact h11
    · exact h12
    · exact h13
    · exact h14
    · exact h15
    · exact h16
    · intro t' id' b' hp'
      split at hp'
      · cases hp'
      · exact h17 t' id' b' hp'
    · intro t' id' k' hp'
      split at hp'
      · cases hp'
      · exact h18 t' id' k' hp'
  · simp at st

theorem inva_wSplice (c : Cfg) {s s' : State} (hB : InvB s) (h : InvA s) (st : step c s .wSplice = some s') : InvA s' := by
  obtain ⟨h1, h2, h3, h4, h5, h6, h7, h8, h9, h10, h11, h12, h13, h14, h15, h16, h17, h18⟩ := h
  simp only [step] at st
  split at st
  · rename_i hp
    have hb : s.batch = [] := by
      apply Classical.byContradiction
      intro hne
      have := h13 hne
      rw [hp] at this; cases this
    have hc : s.cur = none := by
      apply Classical.byContradiction
      intro hne
      have := h11 hne
      rw [hp] at this; cases this
    split at st
    · simp only [Option.some.injEq] at st; subst st
      constructor <;> first | assumption | (simp only [hp, hc] at * <;> simp_all [WPc.running, WPc.hasBatch, WPc.inCompl])
    · simp only [Option.some.injEq] at st; subst st
      constructor <;> first | assumption | (simp only [hp, hc] at * <;> simp_all [WPc.running, WPc.hasBatch, WPc.inCompl])
  · simp at st

theorem inva_wRunBegin (c : Cfg) {s s' : State} (hB : InvB s) (h : InvA s) (id : Nat) (st : step c s (.wRunBegin id) = some s') : InvA s' := by
  obtain ⟨h1, h2, h3, h4, h5, h6, h7, h8, h9, h10, h11, h12, h13, h14, h15, h16, h17, h18⟩ := h
  simp only [step] at st
  split at st
  · rename_i hg
    obtain ⟨hp, hh⟩ := hg
    simp only [Option.some.injEq] at st; subst st
    have hbt := cons_tail_of_head? hh
    have hc : s.cur = none := by
      apply Classical.byContradiction
      intro hne
      have := h11 hne
      rw [hp] at this; cases this
    have hmem : id ∈ s.enqLog := by rw [← h2, hbt]; simp
    have hnd : id ∉ s.doneLog := by
      intro hd
      have := h1
      rw [← h2, hbt] at this
      simp only [List.append_assoc] at this
      rw [List.nodup_append] at this
      exact this.2.2 id hd id (by simp) rfl
    have hnf : s.fin id = false := by
      cases hf : s.fin id with
      | false => rfl
      | true => exact absurd (h8 id hf).1 hnd
    constructor <;> simp only [upd] at *
    · exact h1
    · rw [← h2]; conv => rhs; rw [hbt]
      simp [List.append_assoc]
    · exact h3
    · exact h4
    · exact h5
    · intro x hx; cases hx; simp
    · intro x hx
      simp only [List.mem_append, List.mem_cons, List.not_mem_nil, or_false] at hx
      rcases hx with hx | rfl
      · rcases h7 x hx with h | h
        · exact Or.inl h
        · rw [hc] at h; cases h
      · exact Or.inr rfl
    · intro x hx
      have := h8 x hx
      refine ⟨by simp [this.1], ?_⟩
      intro e; cases e
      rw [hnf] at hx; cases hx
    · intro x hx
      simp only [List.mem_append, List.mem_cons, List.not_mem_nil, or_false] at hx
      by_cases e : x = id
      · subst e; simp [h10 x hnd]
      · simp only [e, ↓reduceIte]
        rcases hx with hx | hx
        · exact h9 x hx
        · exact absurd hx e
    · intro x hx
      simp only [List.mem_append, List.mem_cons, List.not_mem_nil, or_false, not_or] at hx
      simp only [hx.2, ↓reduceIte]
      exact h10 x hx.1
    · intro _; split <;> rfl
    · intro _; simp
    · intro _; split <;> rfl
    · intro hi w hw; cases hw
      split at hi
      · rename_i hs; intro e; rw [e] at hs; cases hs
      · cases hi
    · intro hi w hw; cases hw
      split at hi
      · cases hi
      · rename_i hs
        cases hcw : s.cw id with
        | none => rfl
        | some b => rw [hcw] at hs; simp at hs
    · exact h16
    · exact h17
    · exact h18
  · simp at st

end UrcuVerif.Wq
