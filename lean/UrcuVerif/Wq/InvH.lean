import UrcuVerif.Wq.InvC
/-!
# Work queue — invariant group H: the sleep / wake-up protocol between `urcu_workqueue_wait_completion` and the
completion work item `_urcu_workqueue_wait_complete` running on the worker (same shape as `rcu_barrier`)

waiter: loop `uatomic_dec(&completion->futex)` ; mb ; `barrier_count == 0` → return ; `futex_wait`: mb ; while
    `futex == -1`: `FUTEX_WAIT(-1)`.
work item: `uatomic_sub_return(&barrier_count, 1)` (locked) ; if 0: mb ; load futex ; if -1: `futex := 0` (PLAIN store: the
    worker's store buffer `cbuf`) ; `FUTEX_WAKE` (once it has drained).

`InvH`: `completion->futex ∈ {0, -1}`, 0 whenever the waiter is about to decrement it; whenever the waiter is inside
`futex_wait` with `futex = -1` although the work item has decremented the count, the worker is still going to test /
reset the futex (or its reset sits in its store buffer); if it sleeps with `futex = 0` the worker is about to call
`FUTEX_WAKE`.
-/
set_option linter.unusedVariables false
set_option linter.unusedSimpArgs false
namespace UrcuVerif.Wq
open UrcuVerif

structure InvH (s : State) : Prop where
  h_range : ∀ b, s.cfut b = 0 ∨ s.cfut b = -1
  h_early : ∀ b, s.cphase b = .none ∨ s.cphase b = .created ∨ s.cphase b = .queued → s.cfut b = 0
  h_dec : ∀ t b, s.tpc t = .wcDec b → s.cfut b = 0
  h_cbuf : s.cbuf = true → s.wpc = .cWake
  h_m1 : ∀ t b, (s.tpc t).sleepOf = some b → s.cfut b = -1 → s.csub b = true →
    curB s = some b ∧ (s.wpc = .cLd ∨ s.wpc = .cSt ∨ (s.wpc = .cWake ∧ s.cbuf = true))
  h_0 : ∀ t b, s.tpc t = .wcAsleep b → s.cfut b = 0 → curB s = some b ∧ s.wpc = .cWake

theorem invH_init : InvH init := by
  constructor <;> simp [init, TPc.sleepOf]

theorem sleepOf_waitOf {p : TPc} {b : Nat} (h : p.sleepOf = some b) : p.waitOf = some b := by
  cases p <;> simp_all [TPc.sleepOf, TPc.waitOf]

set_option hygiene false in
macro "h_tac" : tactic => `(tactic| (
  have a11 := hA.a_cur_pc
  have a12 := hA.a_pc_cur
  have a14 := hA.a_compl
  have a6r : ∀ id, s.cur = some id → s.reg id = true := fun id h => hA.a_reg id (by rw [← hA.a_fifo]; simp [List.mem_of_getLast? (hA.a_cur_last id h)])
  have b6 := hB.b_holding
  have b12 := hB.b_childHold
  have c3 := hC.c_fresh
  have c5 := hC.c_cw
  have c10 := hC.c_waitof
  have c11 := hC.c_work_phase
  have c13 := hC.c_cnt1
  have c14 := hC.c_cntS
  have c16 := hC.c_sub_pc
  clear hA hB hC
  obtain ⟨h1, h2, h3, h4, h5, h6⟩ := h
  simp only [step] at st
  (repeat' split at st)
  all_goals (first | (simp at st; done) | skip)
  all_goals (simp only [Option.some.injEq] at st; subst st)
  all_goals (constructor <;> first | assumption | (simp only [upd, userCtx, curB] at * <;> first | grind (splits := 25) [WPc.afterSub, WPc.inCompl, WPc.running, TPc.sleepOf, TPc.waitOf, cont_sleepOf, cont_waitOf, cont_ne_wcDec, cont_ne_wcAsleep, → sleepOf_waitOf] | (cases hw : s.wpc <;> simp only [hw] at * <;> grind (splits := 25) [WPc.afterSub, WPc.inCompl, WPc.running, TPc.sleepOf, TPc.waitOf, cont_sleepOf, cont_waitOf, cont_ne_wcDec, cont_ne_wcAsleep, → sleepOf_waitOf])))))

end UrcuVerif.Wq
