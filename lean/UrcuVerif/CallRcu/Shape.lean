import UrcuVerif.CallRcu.InvD
/-!
# C03/C04 — how one step of the call_rcu model changes the per-helper list of callbacks still to execute
(`pend x` = running callback, batch, queue – in execution order) (helper lemmas for `Props/C04.lean`)

Every step either leaves all `pend` lists alone, appends one callback to one list (`_call_rcu`: the `xchg` of the
tail), removes the head of one list (a callback finished), or appends the whole list of a stopped helper to the
default helper's (`call_rcu_data_free`: splice of the leftovers).  Splicing the queue into the batch and taking the
next callback of the batch do not change `pend`.
-/
set_option linter.unusedVariables false
namespace UrcuVerif.CallRcu

inductive PShape (l : Label) (s s' : State) : Prop
  | same (hl : ∀ t, l ≠ .enq t) (h : ∀ x, pend s' x = pend s x)
  | app (t id x : Nat) (k : K) (hl : l = .enq t) (hp : s.tpc t = .enq id x k) (h1 : pend s' x = pend s x ++ [id])
      (h2 : ∀ y, y ≠ x → pend s' y = pend s y)
  | pop (x cb : Nat) (hl : l = .hRunEnd x) (hc : s.cur x = some cb) (hf : s'.fin cb = true) (h1 : pend s x = cb :: pend s' x)
      (h2 : ∀ y, y ≠ x → pend s' y = pend s y)
  | spl (t h d : Nat) (hl : l = .fSplice t) (hp : s.tpc t = .fSplice h) (hd : d ≠ h) (h1 : pend s' d = pend s d ++ pend s h)
      (h0 : pend s' h = []) (h2 : ∀ y, y ≠ d → y ≠ h → pend s' y = pend s y)

theorem pshape_enq (c : Cfg) {s s' : State} (t : Nat) (st : step c s (.enq t) = some s') : PShape (.enq t) s s' := by
  simp only [step] at st
  split at st
  · rename_i id h k hp
    simp only [Option.some.injEq] at st; subst st
    refine .app t id h k rfl hp ?_ ?_
    · simp [pend, upd, List.append_assoc]
    · intro y hy; simp [pend, upd, hy]
  · simp at st

theorem pshape_hSplice (c : Cfg) {s s' : State} (hA : InvA c s) (x : Nat) (st : step c s (.hSplice x) = some s') :
    PShape (.hSplice x) s s' := by
  simp only [step] at st
  split at st
  · rename_i hp
    have hb : s.batch x = [] := by
      cases hbb : s.batch x with
      | nil => rfl
      | cons a r => have := hA.batch_pc x (by rw [hbb]; simp); rw [hp] at this; simp at this
    split at st
    · simp only [Option.some.injEq] at st; subst st; exact .same (fun _ => by simp) (fun y => rfl)
    · simp only [Option.some.injEq] at st; subst st
      refine .same (fun _ => by simp) (fun y => ?_)
      by_cases hy : y = x
      · subst hy; simp [pend, upd, hb]
      · simp [pend, upd, hy]
  · simp at st

theorem pshape_hRunBegin (c : Cfg) {s s' : State} (hA : InvA c s) (x cb : Nat)
    (st : step c s (.hRunBegin x cb) = some s') : PShape (.hRunBegin x cb) s s' := by
  simp only [step] at st
  split at st
  · rename_i hp
    have hc : s.cur x = none := by
      cases hcc : s.cur x with
      | none => rfl
      | some a => have := (hA.cur_run x).mp (by rw [hcc]; rfl); rw [hp.1] at this; simp at this
    simp only [Option.some.injEq] at st; subst st
    refine .same (fun _ => by simp) (fun y => ?_)
    by_cases hy : y = x
    · subst hy
      have : cb :: (s.batch y).tail = s.batch y := by
        cases hb : s.batch y with
        | nil => rw [hb] at hp; simp at hp
        | cons a r => rw [hb] at hp; simp at hp; simp [hp.2]
      simp only [pend, upd, ↓reduceIte, hc]
      conv => rhs; rw [← this]
      simp
    · simp [pend, upd, hy]
  · simp at st

theorem pshape_hRunEnd (c : Cfg) {s s' : State} (x : Nat) (st : step c s (.hRunEnd x) = some s') : PShape (.hRunEnd x) s s' := by
  simp only [step] at st
  split at st
  · rename_i cb hc
    split at st
    · simp only [Option.some.injEq] at st; subst st
      refine .pop x cb rfl hc (by simp [upd]) ?_ ?_
      · simp [pend, upd, hc]
      · intro y hy; simp [pend, upd, hy]
    · simp at st
  · simp at st

theorem pshape_fSplice (c : Cfg) {s s' : State} (hA : InvA c s) (hD : InvD c s) (t : Nat)
    (st : step c s (.fSplice t) = some s') : PShape (.fSplice t) s s' := by
  simp only [step] at st
  split at st
  · rename_i h d hp hdf
    have hdead : s.hpc h = .dead := by
      have := hD.f_ok t h 1 (by rw [hp]; rfl)
      exact hD.stopped_dead h (this.2.2.2.2.1 (by omega))
    have hb : s.batch h = [] := by
      cases hbb : s.batch h with
      | nil => rfl
      | cons a r => have := hA.batch_pc h (by rw [hbb]; simp); rw [hdead] at this; simp at this
    have hc : s.cur h = none := by
      cases hcc : s.cur h with
      | none => rfl
      | some a => have := (hA.cur_run h).mp (by rw [hcc]; rfl); rw [hdead] at this; simp at this
    split at st
    · rename_i hne
      simp only [Option.some.injEq] at st; subst st
      refine .spl t h d rfl hp hne ?_ ?_ ?_
      · simp [pend, upd, hne, hb, hc, List.append_assoc]
      · simp [pend, upd, hb, hc]
      · intro y h1 h2; simp [pend, upd, h1, h2]
    · simp at st
  · simp at st

theorem pend_shape (c : Cfg) {s s' : State} {l : Label} (hA : InvA c s) (hD : InvD c s)
    (st : step c s l = some s') : PShape l s s' := by
  cases l with
  | enq t => exact pshape_enq c t st
  | hSplice x => exact pshape_hSplice c hA x st
  | hRunBegin x cb => exact pshape_hRunBegin c hA x cb st
  | hRunEnd x => exact pshape_hRunEnd c x st
  | fSplice t => exact pshape_fSplice c hA hD t st
  | _ =>
    simp only [step] at st
    (repeat' split at st)
    all_goals (first | (simp at st; done) | skip)
    all_goals (simp only [Option.some.injEq] at st; subst st)
    all_goals (exact .same (fun _ => by simp) (fun x => rfl))

/-- no step other than the hook `extCall` changes the marker tags -/
theorem mark_same (c : Cfg) {s s' : State} {l : Label} (hl : ∀ t id b h, l ≠ .extCall t id b h)
    (st : step c s l = some s') : s'.mark = s.mark := by
  cases l with
  | extCall t id b h => exact absurd rfl (hl t id b h)
  | _ =>
    simp only [step] at st
    (repeat' split at st)
    all_goals (first | (simp at st; done) | skip)
    all_goals (simp only [Option.some.injEq] at st; subst st)
    all_goals rfl

/-- a thread about to exchange a queue tail stays there until it does -/
theorem enq_stable (c : Cfg) {s s' : State} {l : Label} (t id x : Nat) (k : K) (hp : s.tpc t = .enq id x k)
    (hl : l ≠ .enq t) (st : step c s l = some s') : s'.tpc t = .enq id x k := by
  cases l <;> simp only [step] at st <;> (repeat' split at st)
  all_goals (first | (simp at st; done) | skip)
  all_goals (simp only [Option.some.injEq] at st; subst st)
  all_goals ((try simp only [upd]); (try split))
  all_goals (first | exact hp | (simp_all; done) | grind [userCtx])

/-- a finished callback stays finished -/
theorem fin_mono (c : Cfg) {s s' : State} {l : Label} (id : Nat) (hf : s.fin id = true)
    (st : step c s l = some s') : s'.fin id = true := by
  cases l <;> simp only [step] at st <;> (repeat' split at st)
  all_goals (first | (simp at st; done) | skip)
  all_goals (simp only [Option.some.injEq] at st; subst st)
  all_goals (first | exact hf | (simp only [upd]; split <;> first | rfl | exact hf))

end UrcuVerif.CallRcu
