import UrcuVerif.CallRcu.LiveBar2
import UrcuVerif.Props.LiveC03E2E
/-! The projection of a run of the barrier layer to a run of the call_rcu layer, and the transfer of the fairness
hypotheses (`Props/LiveC04E2E.lean`). -/
set_option linter.unusedSimpArgs false
set_option linter.unusedVariables false
namespace UrcuVerif.CallRcu
open UrcuVerif UrcuVerif.Fair

/-- the call_rcu-layer step a barrier-layer step performs, if any -/
def projLabel (s : BState) : BLabel → Option Label
  | .base l => some l
  | .bCall t => some (.extBegin t)
  | .bLock t => some (.extLock t)
  | .bEnq t id h => (match s.bpc t with | .loop b => some (.extCall t id b h) | _ => none)
  | .bUnlock t => some (.extUnlock t)
  | .bPut t => some (.extEnd t)
  | .bRefused _ => none | .bInit _ => none | .bDec _ => none | .bLdCnt _ => none | .bWaitLd _ => none
  | .bWaitFx _ _ => none | .bSpurious _ => none
  | .mSub _ => none | .mLdFut _ => none | .mStFut _ => none | .mWake _ => none | .mPut _ => none

theorem proj_step (c : Cfg) {s s' : BState} {bl : BLabel} (st : bstep c s bl = some s') :
    (∀ l, projLabel s bl = some l → step c s.base l = some s'.base) ∧ (projLabel s bl = none → s'.base = s.base) := by
  cases bl with
  | base l => exact ⟨fun l' h => by simp only [projLabel, Option.some.injEq] at h; subst h; exact (bstep_base c st).1,
      fun h => by simp [projLabel] at h⟩
  | _ =>
    simp only [bstep] at st
    (repeat' split at st)
    all_goals (first | (simp at st; done) | skip)
    all_goals (simp only [Option.some.injEq] at st; subst st)
    all_goals (simp_all [projLabel])

theorem proj_isRun (c : Cfg) {ρ : Nat → BState} {ℓ : Nat → Option BLabel} (hrun : IsRun (bstep c) ρ ℓ) :
    IsRun (step c) (fun j => (ρ j).base) (fun j => (ℓ j).bind (projLabel (ρ j))) := by
  constructor
  · intro i l hl
    cases hb : ℓ i with
    | none => simp [hb] at hl
    | some bl =>
      simp only [hb, Option.bind_some] at hl
      exact (proj_step c (hrun.move i bl hb)).1 l hl
  · intro i hl
    cases hb : ℓ i with
    | none => show (ρ (i + 1)).base = (ρ i).base; rw [hrun.idle i hb]
    | some bl =>
      simp only [hb, Option.bind_some] at hl
      exact (proj_step c (hrun.move i bl hb)).2 hl

end UrcuVerif.CallRcu
