import UrcuVerif.CallRcu.InvE
import UrcuVerif.CallRcu.InvL
/-!
# C03 — consequences of the destruction invariants (helper lemmas; statements in `Props/C03.lean`, `Props/C04.lean`)

`tgt_live`: the helper a thread inside `_call_rcu()` / `wake_call_rcu_thread()` operates on is not freed, not
retired and still in `call_rcu_data_list`.  `retired_empty`: a retired helper holds no callback, for ever.
`holder_listed`: every helper that holds a callback is in `call_rcu_data_list`.
-/
set_option linter.unusedVariables false
namespace UrcuVerif.CallRcu

theorem reach_d (c : Cfg) {s : State} (h : Reach c s) :
    InvA c s ∧ InvB c s ∧ InvD c s ∧ InvE c s ∧ InvL c s := by
  induction h with
  | init => exact ⟨invA_init c, invB_init c, invD_init c, invE_init c, invL_init c⟩
  | step _ st ih =>
    obtain ⟨a, b, d, e, l⟩ := ih
    exact ⟨inva_step c a st, invb_step c a b st, invd_step c a d st, inve_step c a b d e st, invl_step c a d l st⟩

theorem tgt_live (c : Cfg) {s : State} (h : Reach c s) (t x : Nat) (k : K)
    (ht : (s.tpc t).tgt = some (x, k)) :
    s.freed x = false ∧ s.retired x = false ∧ x < s.nextH ∧ x ∈ s.list := by
  obtain ⟨A, B, D, E, L⟩ := reach_d c h
  have hlt := L.tgt_lt t x k ht
  have hfr := tgt_freeing ht
  have hho := tgt_holds ht
  have hic := tgt_inCall ht
  have key : s.retired x = false := by
    cases k with
    | user =>
      -- call_rcu()
      have hn := E.e_nest t (by rw [hic]; rfl)
      have hgp := B.gpd_open t hn
      cases hv : s.via t with
      | thr =>
        have h1 := E.e_thr t x ht hv
        cases hr : s.retired x with
        | false => rfl
        | true =>
          have h2 := D.red_ring x hr
          have h3 := E.e_ring_thr x t h2.1 h1
          have h4 := D.stopped_dead x h2.2
          have h5 := D.hthr_run t (by omega) (by intro h0; rw [h0] at ht; simp [TPc.tgt] at ht)
          have : t - c.n = x := by omega
          rw [this, h4] at h5
          exact absurd h5 (by decide)
      | cpu =>
        cases hr : s.retired x with
        | false => rfl
        | true =>
          have h2 := (D.red_ring x hr).1
          rcases E.e_cpu t x ht hv with ⟨cpu, hc, hp⟩ | hu
          · exact absurd hp (E.e_ring_cpu x cpu h2 hc)
          · rcases E.e_ring_gp x h2 with h0 | h0 <;> omega
      | dflt =>
        cases hr : s.retired x with
        | false => rfl
        | true =>
          have h2 := (D.red_ring x hr).1
          rcases E.e_dflt t x ht hv with hp | hu
          · exact absurd hp (E.e_ring_dflt x h2)
          · rcases E.e_ring_gp x h2 with h0 | h0 <;> omega
      | ext => exact absurd hv (E.e_via t x ht)
    | ext =>
      -- rcu_barrier(): the marker is enqueued under call_rcu_mutex on a helper of the list
      have hl := D.ext_list t x .ext ht rfl
      have hm := D.holds_mutex t (by rw [hho]; rfl)
      cases hr : s.retired x with
      | false => rfl
      | true =>
        have := D.red_owner x t hr hl hm
        rw [hfr] at this
        simp [K.fr] at this
    | fstop => exact (D.f_ok t x 0 (by rw [hfr]; rfl)).2.2.1 (by omega)
    | fdflt h0 =>
      have h2 := E.e_fd t x h0 ht
      cases hr : s.retired x with
      | false => rfl
      | true => exact absurd h2 (E.e_ring_dflt x (D.red_ring x hr).1)
  refine ⟨?_, key, hlt, ?_⟩
  · cases hf : s.freed x with
    | false => rfl
    | true =>
      have h1 := (D.freed_red x hf).1
      rw [key] at h1; exact absurd h1 (by decide)
  · cases hm : decide (x ∈ s.list) with
    | true => exact of_decide_eq_true hm
    | false =>
      have := L.delisted x hlt (of_decide_eq_false hm)
      rw [key] at this; exact absurd this (by decide)

/-- a retired helper holds no callback: its thread is dead (nothing in `batch`/`cur`) and nothing is
enqueued on it any more -/
theorem retired_empty (c : Cfg) {s : State} (h : Reach c s) (x : Nat) (hr : s.retired x = true) :
    s.queue x = [] ∧ s.batch x = [] ∧ s.cur x = none := by
  induction h generalizing x with
  | init => simp [init] at hr
  | @step s s' l hreach st ih =>
    obtain ⟨A, -, D, E, -⟩ := reach_d c hreach
    obtain ⟨A', -, D', -, -⟩ := reach_d c (Reach.step hreach st)
    have hdead := D'.stopped_dead x (D'.red_ring x hr).2
    have hb : s'.batch x = [] := by
      cases hbb : s'.batch x with
      | nil => rfl
      | cons a r =>
        have := A'.batch_pc x (by rw [hbb]; simp)
        rw [hdead] at this; simp at this
    have hc : s'.cur x = none := by
      cases hcc : s'.cur x with
      | none => rfl
      | some a =>
        have := (A'.cur_run x).mp (by rw [hcc]; rfl)
        rw [hdead] at this; simp at this
    refine ⟨?_, hb, hc⟩
    have live : ∀ t id k, s.tpc t = .enq id x k → s.retired x = false := fun t id k e =>
      (tgt_live c hreach t x k (by rw [e]; rfl)).2.1
    have hdf : s.dflt = some x → s.retired x = false := fun e => by
      cases hr0 : s.retired x with
      | false => rfl
      | true => exact absurd e (E.e_ring_dflt x (D.red_ring x hr0).1)
    have ihx := ih x
    clear hb hc hdead A' D' A D E ih hreach
    simp only [step] at st
    (repeat' split at st)
    all_goals (first | (simp at st; done) | skip)
    all_goals (simp only [Option.some.injEq] at st; subst st)
    all_goals (simp only [upd, lockS, unlockS, newHelper] at *)
    all_goals (first | (exact (ihx hr).1) | grind [upd])

/-- every helper that holds a callback is in `call_rcu_data_list` -/
theorem holder_listed (c : Cfg) {s : State} (h : Reach c s) (x : Nat)
    (hq : s.queue x ≠ [] ∨ s.batch x ≠ [] ∨ s.cur x ≠ none) : x ∈ s.list := by
  obtain ⟨A, -, -, -, L⟩ := reach_d c h
  have hlt : x < s.nextH := by
    cases hx : decide (x < s.nextH) with
    | true => exact of_decide_eq_true hx
    | false =>
      have := A.fresh x (by have := of_decide_eq_false hx; omega)
      rcases hq with hq | hq | hq
      · exact absurd this.2.1 hq
      · exact absurd this.2.2.1 hq
      · exact absurd this.2.2.2 hq
  cases hm : decide (x ∈ s.list) with
  | true => exact of_decide_eq_true hm
  | false =>
    have hr := L.delisted x hlt (of_decide_eq_false hm)
    have := retired_empty c h x hr
    rcases hq with hq | hq | hq
    · exact absurd this.1 hq
    · exact absurd this.2.1 hq
    · exact absurd this.2.2 hq

end UrcuVerif.CallRcu
