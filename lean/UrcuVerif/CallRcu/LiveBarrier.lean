import UrcuVerif.Machine.Fair
import UrcuVerif.CallRcu.LiveMutex
import UrcuVerif.Props.C04
/-! Helper lemmas for `barrier_eventually_returns` (`Props/LiveC04.lean`). -/
set_option linter.unusedSimpArgs false
set_option linter.unusedVariables false
namespace UrcuVerif.CallRcu
open UrcuVerif UrcuVerif.Fair

/-- the steps of the caller of `rcu_barrier()` in its wait loop (futex outcomes `sleep` / `eagain` are determined by
the futex value; `eintr` / `spurious` and `bSpurious` are environment steps) -/
def callerLabels (t : Nat) : List BLabel := [.bDec t, .bLdCnt t, .bWaitLd t, .bWaitFx t .sleep, .bWaitFx t .eagain, .bPut t]

/-- the steps of `_rcu_barrier_complete()` running on helper `x` -/
def markerLabels (x : Nat) : List BLabel := [.mSub x, .mLdFut x, .mStFut x, .mWake x, .mPut x]

/-- all invariants of the barrier layer -/
structure LInv (c : Cfg) (s : BState) : Prop where
  all : BAll c s
  m : BInvM s

theorem linv_reach (c : Cfg) {s : BState} (h : BReach c s) : LInv c s := by
  refine ⟨ball_reach c h, ?_⟩
  induction h with
  | init => exact binvM_init
  | step r st ih =>
    have A := ball_reach c r
    exact binvm_step c (invM0_reach c A.R) A.P ih st

/-- what a step of the call_rcu layer leaves alone in the barrier layer -/
theorem base_frame (c : Cfg) {s s' : BState} {l : Label} (st : bstep c s (.base l) = some s') :
    s'.bpc = s.bpc ∧ s'.cnt = s.cnt ∧ s'.fut = s.fut ∧ s'.mdone = s.mdone ∧ s'.inited = s.inited ∧ s'.hs = s.hs ∧
    s'.returned = s.returned ∧ s'.caller = s.caller ∧
    (∀ x, s.base.hpc x = .run → (s.mrun x).isSome = true → s.mpc x ≠ .fin → s'.mrun x = s.mrun x ∧ s'.mpc x = s.mpc x) := by
  simp only [bstep] at st
  split at st
  · simp at st
  · split at st
    · -- hRunBegin
      split at st
      · rename_i hb
        simp only [Option.some.injEq] at st; subst st
        refine ⟨rfl, rfl, rfl, rfl, rfl, rfl, rfl, rfl, ?_⟩
        intro x hx _ _
        simp only [step] at hb
        split at hb
        · rename_i hg
          simp only [upd]
          constructor
          · split
            · rename_i e; subst e; rw [hg.1] at hx; cases hx
            · rfl
          · trivial
        · simp at hb
      · simp at st
    · -- hRunEnd
      split at st
      · simp at st
      · rename_i hne
        split at st
        · simp only [Option.some.injEq] at st; subst st
          refine ⟨rfl, rfl, rfl, rfl, rfl, rfl, rfl, rfl, ?_⟩
          intro x _ h1 h2
          simp only [upd]
          constructor <;> (split; (rename_i e; subst e; exact absurd ⟨h1, h2⟩ hne); rfl)
        · simp at st
    · split at st
      · simp only [Option.some.injEq] at st; subst st
        exact ⟨rfl, rfl, rfl, rfl, rfl, rfl, rfl, rfl, fun _ _ _ _ => ⟨rfl, rfl⟩⟩
      · simp at st

set_option hygiene false in
macro "b_split" : tactic => `(tactic| (
  simp only [bstep, step] at st
  (repeat' split at st)
  all_goals (first | (simp at st; done) | skip)
  all_goals (simp only [Option.some.injEq] at st; subst st)
  all_goals (try (rename_i hb; (repeat' split at hb); all_goals (first | (simp at hb; done) | skip); all_goals (simp only [Option.some.injEq] at hb; subst hb)))
  all_goals (try (rename_i hb _; (repeat' split at hb); all_goals (first | (simp at hb; done) | skip); all_goals (simp only [Option.some.injEq] at hb; subst hb)))))

/-- a step that is not the marker's own does not touch a running marker -/
theorem marker_frame (c : Cfg) {s s' : BState} {l : BLabel} (H : BInvH c s) (x : Nat) (hm : (s.mrun x).isSome = true)
    (hf : s.mpc x ≠ .fin) (hl : l ∉ markerLabels x) (st : bstep c s l = some s') :
    s'.mrun x = s.mrun x ∧ s'.mpc x = s.mpc x := by
  have hrun : s.base.hpc x = .run := by
    apply Classical.byContradiction
    intro h
    have := (H.mpc_run x h).2
    rw [this] at hm; cases hm
  cases l with
  | base l => exact (base_frame c st).2.2.2.2.2.2.2.2 x hrun hm hf
  | _ =>
    simp only [markerLabels, List.mem_cons, List.mem_nil_iff, or_false, reduceCtorEq, false_or, BLabel.mSub.injEq,
      BLabel.mLdFut.injEq, BLabel.mStFut.injEq, BLabel.mWake.injEq, BLabel.mPut.injEq, not_false_eq_true] at hl
    b_split
    all_goals (simp only [upd]; grind)

theorem mdone_stable (c : Cfg) {s s' : BState} {l : BLabel} (b h' : Nat) (hd : s.mdone b h' = true)
    (st : bstep c s l = some s') : s'.mdone b h' = true := by
  cases l with
  | base l => rw [(base_frame c st).2.2.2.1]; exact hd
  | _ =>
    b_split
    all_goals (simp only [upd2]; grind)

theorem inited_frame (c : Cfg) {s s' : BState} {l : BLabel} (P : BInvP c s) (b : Nat) (hi : s.inited b = true)
    (st : bstep c s l = some s') : s'.inited b = true ∧ s'.hs b = s.hs b := by
  have p2 := P.k_early
  cases l with
  | base l => rw [(base_frame c st).2.2.2.2.1, (base_frame c st).2.2.2.2.2.1]; exact ⟨hi, rfl⟩
  | _ =>
    b_split
    all_goals (simp only [upd]; grind)

theorem returned_stable (c : Cfg) {s s' : BState} {l : BLabel} (b : Nat) (hr : s.returned b = true)
    (st : bstep c s l = some s') : s'.returned b = true := by
  cases l with
  | base l => rw [(base_frame c st).2.2.2.2.2.2.1]; exact hr
  | _ =>
    b_split
    all_goals (simp only [upd]; grind)

/-- the first step of a marker decrements `barrier_count` -/
theorem marker_sub (c : Cfg) {s s' : BState} {l : BLabel} (x b h' : Nat) (hm : s.mrun x = some (b, h')) (hp : s.mpc x = .idle)
    (hl : l ∈ markerLabels x) (st : bstep c s l = some s') : s'.mdone b h' = true := by
  simp only [markerLabels, List.mem_cons, List.mem_nil_iff, or_false] at hl
  rcases hl with rfl | rfl | rfl | rfl | rfl <;> simp only [bstep, hm, hp] at st <;>
    simp only [Option.some.injEq, reduceCtorEq, ↓reduceIte] at st
  subst st; simp [upd2]

/-- stage A, own steps: the marker that brought the count to 0 tests the futex (reads -1) and resets it; nothing else
changes in the barrier layer -/
theorem stageA_own (c : Cfg) {s s' : BState} {l : BLabel} (x b h' : Nat) (hm : s.mrun x = some (b, h'))
    (hp : s.mpc x = .ldFut ∨ s.mpc x = .stFut) (hf : s.fut b = -1) (hl : l ∈ markerLabels x) (st : bstep c s l = some s') :
    s'.bpc = s.bpc ∧ s'.mrun x = some (b, h') ∧
      ((s'.fut b = -1 ∧ (s'.mpc x = .ldFut ∨ s'.mpc x = .stFut)) ∨ s'.fut b = 0) := by
  simp only [markerLabels, List.mem_cons, List.mem_nil_iff, or_false] at hl
  rcases hp with hp | hp <;> rcases hl with rfl | rfl | rfl | rfl | rfl <;> simp only [bstep, hm, hp] at st <;>
    simp only [Option.some.injEq, reduceCtorEq, ↓reduceIte] at st <;> subst st <;> simp [upd, hf, hm]

/-- stage B, own steps: the marker's `FUTEX_WAKE` wakes the caller -/
theorem stageB_own (c : Cfg) {s s' : BState} {l : BLabel} (x b h' t : Nat) (hm : s.mrun x = some (b, h'))
    (hp : s.mpc x = .wake) (hc : s.caller b = t) (ht : s.bpc t = .asleep b) (hl : l ∈ markerLabels x)
    (st : bstep c s l = some s') : s'.bpc t = .waitLd b ∧ s'.fut = s.fut := by
  simp only [markerLabels, List.mem_cons, List.mem_nil_iff, or_false] at hl
  rcases hl with rfl | rfl | rfl | rfl | rfl <;> simp only [bstep, hm, hp] at st <;>
    simp only [Option.some.injEq, reduceCtorEq, ↓reduceIte] at st
  subst st; simp [upd, hc, ht]

/-- how a caller inside `call_rcu_completion_wait` and the completion's futex can move in one step -/
theorem cluster_step (c : Cfg) {s s' : BState} {l : BLabel} (H : BInvH c s) (t b : Nat) (hw : (s.bpc t).waiting = some b)
    (st : bstep c s l = some s') :
    ((s'.bpc t).waiting = some b ∨ (s'.bpc t = .dec b ∧ s.fut b ≠ -1)) ∧ (s'.fut b = s.fut b ∨ s'.fut b = 0) := by
  have g1 := H.bar_ok
  have hb0 := waiting_bar hw
  cases l with
  | base l => rw [(base_frame c st).1, (base_frame c st).2.2.1]; exact ⟨Or.inl hw, Or.inl rfl⟩
  | _ =>
    b_split
    all_goals (simp only [upd] at * <;> grind [BPc.waiting, BPc.bar])

/-- a caller in `{dec, ldCnt, put}` is moved only by its own steps -/
def BPc.decPhase (p : BPc) (b : Nat) : Prop := p = .dec b ∨ p = .ldCnt b ∨ p = .put b

theorem decPhase_frame (c : Cfg) {s s' : BState} {l : BLabel} (t b : Nat) (hp : (s.bpc t).decPhase b)
    (hl : l ∉ callerLabels t) (st : bstep c s l = some s') : s'.bpc t = s.bpc t := by
  unfold BPc.decPhase at hp
  cases l with
  | base l => rw [(base_frame c st).1]
  | _ =>
    simp only [callerLabels, List.mem_cons, List.mem_nil_iff, or_false, reduceCtorEq, false_or, BLabel.bDec.injEq,
      BLabel.bLdCnt.injEq, BLabel.bWaitLd.injEq, BLabel.bWaitFx.injEq, BLabel.bPut.injEq, not_false_eq_true] at hl
    b_split
    all_goals (simp only [upd] at * <;> grind)

/-- own steps of the caller in `{dec, ldCnt, put}` once the count is 0 -/
def decRank : BPc → Nat
  | .dec _ => 3 | .ldCnt _ => 2 | .put _ => 1
  | .idle => 0 | .lock _ => 0 | .init _ => 0 | .loop _ => 0 | .waitLd _ => 0 | .waitFx _ => 0 | .asleep _ => 0

theorem decPhase_own (c : Cfg) {s s' : BState} {l : BLabel} (t b : Nat) (hp : (s.bpc t).decPhase b) (h0 : s.cnt b = 0)
    (hl : l ∈ callerLabels t) (st : bstep c s l = some s') :
    s'.returned b = true ∨ ((s'.bpc t).decPhase b ∧ decRank (s'.bpc t) < decRank (s.bpc t)) := by
  unfold BPc.decPhase at hp ⊢
  simp only [callerLabels, List.mem_cons, List.mem_nil_iff, or_false] at hl
  rcases hl with rfl | rfl | rfl | rfl | rfl | rfl <;>
    (b_split) <;> all_goals (simp only [upd, decRank] at * <;> grind [decRank])

theorem decPhase_enabled (c : Cfg) {s : BState} (I : LInv c s) (t b : Nat) (hp : (s.bpc t).decPhase b) :
    Enabled (bstep c) (fun l => l ∈ callerLabels t) s := by
  unfold BPc.decPhase at hp
  rcases hp with hp | hp | hp
  · exact ⟨.bDec t, by simp [callerLabels], by simp [bstep, hp]⟩
  · exact ⟨.bLdCnt t, by simp [callerLabels], by simp [bstep, hp]⟩
  · refine ⟨.bPut t, by simp [callerLabels], ?_⟩
    have hext : s.base.tpc t = .ext := I.all.P.k_extpc t (by rw [hp]; simp) (by intro b'; rw [hp]; simp)
    have hmx : s.base.mutex ≠ some t := by
      intro hm
      have := I.m t hm (by rw [hext]; rfl)
      rw [hp] at this; exact this rfl
    simp [bstep, hp, step, hext, hmx]

/-- a caller at `waitLd` / `waitFx` with the futex reset: own steps lead to `dec` -/
def wlRank : BPc → Nat
  | .waitFx _ => 2 | .waitLd _ => 1
  | .idle => 0 | .lock _ => 0 | .init _ => 0 | .loop _ => 0 | .dec _ => 0 | .ldCnt _ => 0 | .asleep _ => 0 | .put _ => 0

def BPc.wl (p : BPc) (b : Nat) : Prop := p = .waitLd b ∨ p = .waitFx b

theorem wl_step (c : Cfg) {s s' : BState} {l : BLabel} (H : BInvH c s) (t b : Nat) (hp : (s.bpc t).wl b) (h0 : s.fut b = 0)
    (st : bstep c s l = some s') :
    s'.bpc t = .dec b ∨ ((s'.bpc t).wl b ∧ s'.fut b = 0 ∧
      (if l ∈ callerLabels t then wlRank (s'.bpc t) < wlRank (s.bpc t) else wlRank (s'.bpc t) ≤ wlRank (s.bpc t))) := by
  have g1 := H.bar_ok
  unfold BPc.wl at hp ⊢
  have hb0 : (s.bpc t).bar = some b := by rcases hp with hp | hp <;> rw [hp] <;> rfl
  cases l with
  | base l =>
    rw [(base_frame c st).1, (base_frame c st).2.2.1]
    exact Or.inr ⟨hp, h0, by simp [callerLabels]⟩
  | _ =>
    simp only [callerLabels, List.mem_cons, List.mem_nil_iff, or_false, reduceCtorEq, false_or, BLabel.bDec.injEq,
      BLabel.bLdCnt.injEq, BLabel.bWaitLd.injEq, BLabel.bWaitFx.injEq, BLabel.bPut.injEq]
    b_split
    all_goals (simp only [upd, wlRank] at * <;> grind [wlRank, BPc.bar])

theorem wl_enabled (c : Cfg) {s : BState} (t b : Nat) (hp : (s.bpc t).wl b) (h0 : s.fut b = 0) :
    Enabled (bstep c) (fun l => l ∈ callerLabels t) s := by
  unfold BPc.wl at hp
  rcases hp with hp | hp
  · exact ⟨.bWaitLd t, by simp [callerLabels], by simp [bstep, hp]⟩
  · exact ⟨.bWaitFx t .eagain, by simp [callerLabels], by simp [bstep, hp, h0]⟩

/-- the caller is past the enqueue loop of `rcu_barrier()` `b`: in its wait loop or about to return -/
def BPc.waitPhase (p : BPc) (b : Nat) : Prop := p.waiting = some b ∨ p.decPhase b

theorem waitPhase_step (c : Cfg) {s s' : BState} {l : BLabel} (H : BInvH c s) (t b : Nat) (hp : (s.bpc t).waitPhase b)
    (st : bstep c s l = some s') : (s'.bpc t).waitPhase b ∨ s'.returned b = true := by
  unfold BPc.waitPhase at hp ⊢
  rcases hp with hw | hd
  · rcases (cluster_step c H t b hw st).1 with h | h
    · exact Or.inl (Or.inl h)
    · exact Or.inl (Or.inr (Or.inl h.1))
  · by_cases hl : l ∈ callerLabels t
    · unfold BPc.decPhase at hd ⊢
      simp only [callerLabels, List.mem_cons, List.mem_nil_iff, or_false] at hl
      rcases hl with rfl | rfl | rfl | rfl | rfl | rfl <;>
        (b_split) <;> all_goals (simp only [upd] at * <;> grind [BPc.waiting])
    · left; right; rw [decPhase_frame c t b hd hl st]; exact hd

theorem cntU_all_done (f : Nat → Nat → Bool) (b : Nat) (l : List Nat) (h : ∀ h', h' ∈ l → f b h' = true) : cntU f b l = 0 := by
  induction l with
  | nil => rfl
  | cons a r ih =>
    simp only [cntU, h a (by simp)]
    simp [ih (fun h' hm => h h' (by simp [hm]))]

theorem cnt_zero (c : Cfg) {s : BState} (K : BInvK c s) (b : Nat) (hi : s.inited b = true)
    (hd : ∀ h', h' ∈ s.hs b → s.mdone b h' = true) : s.cnt b = 0 := by
  rw [K.k_cnt b hi]; exact cntU_all_done _ _ _ hd

theorem waitPhase_inited (c : Cfg) {s : BState} (P : BInvP c s) (t b : Nat) (hp : (s.bpc t).waitPhase b) :
    s.inited b = true := by
  refine P.k_past t b ?_
  unfold BPc.waitPhase BPc.decPhase at hp
  cases hq : s.bpc t <;> simp_all [BPc.waiting, BPc.past]

end UrcuVerif.CallRcu
