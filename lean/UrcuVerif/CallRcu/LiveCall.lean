import UrcuVerif.CallRcu.LiveHelperRun
import UrcuVerif.CallRcu.LiveMutex
/-! Step-level lemmas for the end-to-end liveness of `call_rcu()` (`Props/LiveC03E2E.lean`): the caller's way from the
call to the enqueue (helper selection, lazy creation of the default helper under `call_rcu_mutex`), and the release
of `call_rcu_mutex` by every holder. -/
set_option linter.unusedSimpArgs false
set_option linter.unusedVariables false
namespace UrcuVerif.CallRcu
open UrcuVerif UrcuVerif.Fair

/-- the continuing (library-internal) steps of thread `t` (`threadLabel` of `Props/C03.lean`) as a predicate -/
def tLabel (t : Nat) : Label → Prop := fun l => threadLabel t l = true

set_option hygiene false in
macro "c_bash" : tactic => `(tactic| (
  simp only [step] at st <;> (repeat' split at st) <;>
  (first | (simp at st; done) | skip) <;>
  simp only [Option.some.injEq] at st <;> subst st <;>
  simp only [upd, lockS, unlockS, newHelper, nestOn, csOn, nestOff]))

/-- a thread inside a library call is moved only by its own continuing steps -/
theorem thread_frame (c : Cfg) {s s' : State} {l : Label} (t : Nat) (h1 : s.tpc t ≠ .idle) (h2 : s.tpc t ≠ .ext)
    (hl : ¬ tLabel t l) (st : step c s l = some s') : s'.tpc t = s.tpc t := by
  unfold tLabel at hl
  cases l <;> simp only [threadLabel, beq_iff_eq, Bool.false_eq_true, not_false_eq_true] at hl <;> c_bash <;> grind

/-- the thread waits for `call_rcu_mutex` -/
def TPc.lockWait : TPc → Bool
  | .gdLock _ => true | .opLock _ => true | .fLock _ => true | .fLock2 _ => true
  | .idle => false | .ext => false | .sync => false | .sel _ => false
  | .gdLd _ => false | .gdCreate _ => false | .gdUnlock _ => false
  | .enq _ _ _ => false | .inc _ _ => false | .ldFlags _ _ => false | .ldFutex _ _ => false | .stFutex _ _ => false
  | .wake _ _ => false | .crRet => false | .opDo _ => false | .opUnlock _ => false
  | .fLdFlags _ => false | .fOrStop _ => false | .fWaitStopped _ => false | .fChk _ => false
  | .fUnlock1 _ => false | .fSplice _ => false | .fAddQ _ => false | .fDel _ => false
  | .fJoin _ => false | .fFree _ => false

theorem lockWait_enabled (c : Cfg) {s : State} (t : Nat) (hw : (s.tpc t).lockWait = true) (hm : s.mutex = none) :
    Enabled (step c) (tLabel t) s := by
  cases hp : s.tpc t <;> simp [hp, TPc.lockWait] at hw
  · exact ⟨.gdLock t, by simp [tLabel, threadLabel], by simp [step, hp, hm]⟩
  · exact ⟨.opLock t, by simp [tLabel, threadLabel], by simp [step, hp, hm]⟩
  · exact ⟨.fLock t, by simp [tLabel, threadLabel], by simp [step, hp, hm]⟩
  · exact ⟨.fLock2 t, by simp [tLabel, threadLabel], by simp [step, hp, hm]⟩

/-! ### every holder of `call_rcu_mutex` releases it -/

/-- the library destructor `urcu_call_rcu_exit()` (which may reset the default helper) is not running -/
def NoExit (s : State) : Prop := ∀ t, s.tpc t ≠ .opLock .unsetDflt ∧ s.tpc t ≠ .opDo .unsetDflt

/-- the default helper exists wherever the code is about to dereference `default_call_rcu_data` (true initially;
preserved as long as the library destructor does not run concurrently with other API calls – its documented
precondition) -/
def InvQ (s : State) : Prop :=
  (∀ t k, s.tpc t = .gdUnlock k → s.dflt ≠ none) ∧
  (∀ t h, (s.tpc t = .fLock2 h ∨ s.tpc t = .fSplice h ∨ s.tpc t = .fAddQ h) → s.dflt ≠ none)

theorem invQ_init : InvQ init := by constructor <;> simp [init]

theorem cont_ne_gdUnlock (k : K) (h : Nat) (g : GK) : k.cont h ≠ .gdUnlock g := by cases k <;> simp [K.cont]
theorem cont_ne_fLock2 (k : K) (h h2 : Nat) : k.cont h ≠ .fLock2 h2 := by cases k <;> simp [K.cont]
theorem cont_ne_fSplice (k : K) (h h2 : Nat) : k.cont h ≠ .fSplice h2 := by cases k <;> simp [K.cont]
theorem cont_ne_fAddQ (k : K) (h h2 : Nat) : k.cont h ≠ .fAddQ h2 := by cases k <;> simp [K.cont]

theorem invQ_step (c : Cfg) {s s' : State} {l : Label} (h : InvQ s) (hn : NoExit s) (st : step c s l = some s') : InvQ s' := by
  unfold InvQ NoExit at *
  obtain ⟨h1, h2⟩ := h
  cases l <;> c_bash <;> grind [cont_ne_gdUnlock, cont_ne_fLock2, cont_ne_fSplice, cont_ne_fAddQ]

/-- remaining own steps of a (call_rcu-layer) holder of the mutex until it unlocks -/
def mtxRank : TPc → Nat
  | .gdCreate _ => 2 | .gdUnlock _ => 1 | .opDo _ => 2 | .opUnlock _ => 1 | .fChk _ => 2 | .fUnlock1 _ => 1 | .fDel _ => 1
  | .fSplice _ => 9 | .fAddQ _ => 8 | .ldFlags _ _ => 7 | .ldFutex _ _ => 6 | .stFutex _ _ => 5 | .wake _ _ => 4
  | .enq _ _ _ => 11 | .inc _ _ => 10
  | .idle => 0 | .ext => 0 | .sync => 0 | .sel _ => 0 | .gdLd _ => 0 | .gdLock _ => 0 | .crRet => 0 | .opLock _ => 0
  | .fLdFlags _ => 0 | .fOrStop _ => 0 | .fWaitStopped _ => 0 | .fLock _ => 0 | .fLock2 _ => 0 | .fJoin _ => 0 | .fFree _ => 0

theorem cont_mtxRank (k : K) (h : Nat) (hk : k.holds = true) (he : k.isExt = false) : mtxRank (k.cont h) = 1 := by
  cases k <;> simp_all [K.holds, K.isExt, K.cont, mtxRank]

theorem fsplice_dflt (c : Cfg) {s : State} (hD : InvD c s) (hE : InvE c s) (t h : Nat) (ht : s.tpc t = .fSplice h) :
    s.dflt ≠ some h := by
  have h1 := hD.f_ok t h 1 (by rw [ht]; rfl)
  unfold FOk at h1
  exact hE.e_ring_dflt h h1.1

/-- a call_rcu-layer holder of the mutex always has an enabled step -/
theorem holder_enabled (c : Cfg) {s : State} (hD : InvD c s) (hE : InvE c s) (hQ : InvQ s) (u : Nat)
    (hm : s.mutex = some u) (hh : (s.tpc u).holds = true) (he : (s.tpc u).extMode = false) :
    Enabled (step c) (tLabel u) s := by
  obtain ⟨q1, q2⟩ := hQ
  cases hp : s.tpc u <;> simp [hp, TPc.holds, TPc.extMode] at hh he
  case gdCreate k => exact ⟨.gdCreate u, by simp [tLabel, threadLabel], by simp [step, hp]; split <;> simp⟩
  case gdUnlock k =>
    have := q1 u k hp
    cases hd : s.dflt with
    | none => exact absurd hd this
    | some d => exact ⟨.gdUnlock u, by simp [tLabel, threadLabel], by simp [step, hp, hd, hm]; cases k <;> simp⟩
  case enq id h k => exact ⟨.enq u, by simp [tLabel, threadLabel], by simp [step, hp]⟩
  case inc h k => exact ⟨.inc u, by simp [tLabel, threadLabel], by simp [step, hp]⟩
  case ldFlags h k => exact ⟨.ldFlags u, by simp [tLabel, threadLabel], by simp [step, hp]⟩
  case ldFutex h k => exact ⟨.ldFutex u, by simp [tLabel, threadLabel], by simp [step, hp]⟩
  case stFutex h k => exact ⟨.stFutex u, by simp [tLabel, threadLabel], by simp [step, hp]⟩
  case wake h k => exact ⟨.wake u, by simp [tLabel, threadLabel], by simp [step, hp]⟩
  case opDo op =>
    refine ⟨.opDo u, by simp [tLabel, threadLabel], ?_⟩
    cases op <;> simp [step, hp] <;> (repeat' split) <;> simp
  case opUnlock r => exact ⟨.opUnlock u, by simp [tLabel, threadLabel], by simp [step, hp, hm]⟩
  case fChk h => exact ⟨.fChk u, by simp [tLabel, threadLabel], by simp [step, hp]; split <;> simp⟩
  case fUnlock1 h => exact ⟨.fUnlock1 u, by simp [tLabel, threadLabel], by simp [step, hp, hm]⟩
  case fSplice h =>
    have := q2 u h (Or.inr (Or.inl hp))
    have hne := fsplice_dflt c hD hE u h hp
    cases hd : s.dflt with
    | none => exact absurd hd this
    | some d =>
      refine ⟨.fSplice u, by simp [tLabel, threadLabel], ?_⟩
      have : d ≠ h := by intro e; rw [hd, e] at hne; exact hne rfl
      simp [step, hp, hd, this]
  case fAddQ h =>
    have := q2 u h (Or.inr (Or.inr hp))
    cases hd : s.dflt with
    | none => exact absurd hd this
    | some d => exact ⟨.fAddQ u, by simp [tLabel, threadLabel], by simp [step, hp, hd]⟩
  case fDel h => exact ⟨.fDel u, by simp [tLabel, threadLabel], by simp [step, hp, hm]⟩

theorem cont_holder (k : K) (h : Nat) (hk : k.holds = true) (he : k.isExt = false) :
    (k.cont h).holds = true ∧ (k.cont h).extMode = false ∧ mtxRank (k.cont h) = 1 := by
  cases k <;> simp_all [K.holds, K.isExt, K.cont, mtxRank, TPc.holds, TPc.extMode]

/-- own steps of a call_rcu-layer holder: it unlocks or gets closer to unlocking -/
theorem holder_own (c : Cfg) {s s' : State} {l : Label} (u : Nat) (hm : s.mutex = some u) (hh : (s.tpc u).holds = true)
    (he : (s.tpc u).extMode = false) (hl : tLabel u l) (st : step c s l = some s') :
    s'.mutex = none ∨ (s'.mutex = some u ∧ (s'.tpc u).holds = true ∧ (s'.tpc u).extMode = false ∧
      mtxRank (s'.tpc u) < mtxRank (s.tpc u)) := by
  unfold tLabel at hl
  cases hp : s.tpc u <;> simp [hp, TPc.holds, TPc.extMode] at hh he <;>
    (try (rename_i k; cases k <;> simp [K.holds, K.isExt] at hh he)) <;>
    (cases l <;> simp only [threadLabel, beq_iff_eq, Bool.false_eq_true] at hl <;> subst hl <;>
      simp only [step, hp] at st <;> (repeat' split at st) <;>
      (first | (simp at st; done) | skip) <;>
      simp only [Option.some.injEq] at st <;> subst st <;>
      simp_all [upd, mtxRank, TPc.holds, TPc.extMode, K.cont, K.holds, K.isExt, newHelper] <;> (try (split <;> simp_all [mtxRank, TPc.holds, TPc.extMode, K.holds, K.isExt])))

/-- other steps leave the mutex and its holder alone -/
theorem holder_frame (c : Cfg) {s s' : State} {l : Label} (u : Nat) (hm : s.mutex = some u) (hh : (s.tpc u).holds = true)
    (he : (s.tpc u).extMode = false) (hl : ¬ tLabel u l) (st : step c s l = some s') :
    s'.mutex = some u ∧ s'.tpc u = s.tpc u := by
  unfold tLabel at hl
  cases l <;> simp only [threadLabel, beq_iff_eq, Bool.false_eq_true, not_false_eq_true] at hl <;> c_bash <;>
    grind [TPc.holds, TPc.extMode]

/-- the mutex is handed from one holder to the next only through "free" -/
theorem release_none (c : Cfg) {s s' : State} {l : Label} (u : Nat) (hm : s.mutex = some u)
    (st : step c s l = some s') : s'.mutex = some u ∨ s'.mutex = none := by
  cases l <;> c_bash <;> grind

end UrcuVerif.CallRcu
