import UrcuVerif.CallRcu.BInvJ
/-!
# C04 — when the caller of `rcu_barrier()` has read `barrier_count == 0`, every covered callback has finished
(helper lemmas; statement `barrier_complete` in `Props/C04.lean`)
-/
set_option linter.unusedVariables false
set_option linter.unusedSimpArgs false
namespace UrcuVerif.CallRcu

/-- the moment of truth: `barrier_count = 0` with all markers queued means no covered callback is left -/
theorem count_zero_all_done (c : Cfg) {s : BState} (hs : BAll c s) (hj : J2 s) (t b : Nat) (hpc : s.bpc t = .ldCnt b)
    (hz : s.cnt b = 0) (id : Nat) (hcv : s.cov b id = true) : s.base.fin id = true := by
  obtain ⟨A, -, -, -, -⟩ := reach_d c hs.R
  have hin := hs.P.k_past t b (by rw [hpc]; rfl)
  have hcb := (hs.H.bar_ok t b (by rw [hpc]; rfl)).2
  rcases hs.K.j1 b id hcv with hq | hf
  · -- still queued: it sits in some `pend x`, hence before a live marker of `b`
    exfalso
    have hlo := A.loc_ok id
    unfold LocOk at hlo
    have hmem : ∃ x, id ∈ pend s.base x := by
      cases hl : s.base.loc id with
      | none => rw [hl] at hq; simp [Loc.queued] at hq
      | pend u => rw [hl] at hq; simp [Loc.queued] at hq
      | done => rw [hl] at hq; simp [Loc.queued] at hq
      | queue x => exact ⟨x, by simp [pend, hlo.2.2.2.2.2.1 x hl]⟩
      | batch x => exact ⟨x, by simp [pend, hlo.2.2.2.2.2.2.1 x hl]⟩
      | run x => exact ⟨x, by simp [pend, hlo.2.2.2.2.2.2.2 x hl]⟩
    obtain ⟨x, hx⟩ := hmem
    obtain ⟨pre, post, hp⟩ := List.append_of_mem hx
    rcases hj b x pre id post hin hp hcv with ho | ⟨m, hm, ⟨h', e1, e2⟩⟩
    · -- the caller is past the marker loop
      have := owes_loop c hs.P ho
      rw [hcb, hpc] at this; simp at this
    · have hk := hs.K.k_mark m b h' e1
      have hpos := cntU_pos s.mdone b h' (s.hs b) hk.2.1 e2
      have := hs.K.k_cnt b hin
      omega
  · exact hf

structure BDone (c : Cfg) (s : BState) : Prop where
  d_fresh : ∀ b, s.nextB ≤ b → s.returned b = false
  d_put : ∀ t b, s.bpc t = .put b → ∀ id, s.cov b id = true → s.base.fin id = true
  d_ret : ∀ b, s.returned b = true → ∀ id, s.cov b id = true → s.base.fin id = true

theorem bdone_init (c) : BDone c binit := by constructor <;> simp [binit]

theorem bdone_base (c : Cfg) {s s' : BState} {l : Label} (h : BDone c s) (st : bstep c s (.base l) = some s') :
    BDone c s' := by
  obtain ⟨hb, -, -, hcov, -, hbpc, -, -, -, hret, hnb⟩ := bstep_base c st
  obtain ⟨h1, h2, h3⟩ := h
  refine ⟨?_, ?_, ?_⟩
  · intro b hb'; rw [hret]; exact h1 b (by rw [← hnb]; exact hb')
  · intro t b hp id hc; rw [hbpc] at hp; rw [hcov] at hc; exact fin_mono c id (h2 t b hp id hc) hb
  · intro b hr id hc; rw [hret] at hr; rw [hcov] at hc; exact fin_mono c id (h3 b hr id hc) hb

set_option hygiene false in
macro "bd_own" : tactic => `(tactic| (
  have g1 := hs.H.bar_ok
  have g2 : ∀ t b, s.bpc t = .put b → b < s.nextB := fun t b e => (g1 t b (by rw [e]; rfl)).1
  obtain ⟨h1, h2, h3⟩ := h
  own_pre
  all_goals (constructor <;> first | assumption | (simp only [upd] at * <;> grind [upd, BPc.bar]))))

theorem bdone_bRefused (c : Cfg) {s s' : BState} (hs : BAll c s) (h : BDone c s) (t : Nat) (st : bstep c s (.bRefused t) = some s') : BDone c s' := by bd_own
theorem bdone_bCall (c : Cfg) {s s' : BState} (hs : BAll c s) (h : BDone c s) (t : Nat) (st : bstep c s (.bCall t) = some s') : BDone c s' := by bd_own
theorem bdone_bLock (c : Cfg) {s s' : BState} (hs : BAll c s) (h : BDone c s) (t : Nat) (st : bstep c s (.bLock t) = some s') : BDone c s' := by bd_own
theorem bdone_bInit (c : Cfg) {s s' : BState} (hs : BAll c s) (h : BDone c s) (t : Nat) (st : bstep c s (.bInit t) = some s') : BDone c s' := by bd_own
theorem bdone_bEnq (c : Cfg) {s s' : BState} (hs : BAll c s) (h : BDone c s) (t id h0 : Nat) (st : bstep c s (.bEnq t id h0) = some s') : BDone c s' := by bd_own
theorem bdone_bUnlock (c : Cfg) {s s' : BState} (hs : BAll c s) (h : BDone c s) (t : Nat) (st : bstep c s (.bUnlock t) = some s') : BDone c s' := by bd_own
theorem bdone_bDec (c : Cfg) {s s' : BState} (hs : BAll c s) (h : BDone c s) (t : Nat) (st : bstep c s (.bDec t) = some s') : BDone c s' := by bd_own
theorem bdone_bWaitLd (c : Cfg) {s s' : BState} (hs : BAll c s) (h : BDone c s) (t : Nat) (st : bstep c s (.bWaitLd t) = some s') : BDone c s' := by bd_own
theorem bdone_bWaitFx (c : Cfg) {s s' : BState} (hs : BAll c s) (h : BDone c s) (t : Nat) (o : FOut) (st : bstep c s (.bWaitFx t o) = some s') : BDone c s' := by bd_own
theorem bdone_bSpurious (c : Cfg) {s s' : BState} (hs : BAll c s) (h : BDone c s) (t : Nat) (st : bstep c s (.bSpurious t) = some s') : BDone c s' := by bd_own
theorem bdone_bPut (c : Cfg) {s s' : BState} (hs : BAll c s) (h : BDone c s) (t : Nat) (st : bstep c s (.bPut t) = some s') : BDone c s' := by bd_own
theorem bdone_mSub (c : Cfg) {s s' : BState} (hs : BAll c s) (h : BDone c s) (x : Nat) (st : bstep c s (.mSub x) = some s') : BDone c s' := by bd_own
theorem bdone_mLdFut (c : Cfg) {s s' : BState} (hs : BAll c s) (h : BDone c s) (x : Nat) (st : bstep c s (.mLdFut x) = some s') : BDone c s' := by bd_own
theorem bdone_mStFut (c : Cfg) {s s' : BState} (hs : BAll c s) (h : BDone c s) (x : Nat) (st : bstep c s (.mStFut x) = some s') : BDone c s' := by bd_own
theorem bdone_mWake (c : Cfg) {s s' : BState} (hs : BAll c s) (h : BDone c s) (x : Nat) (st : bstep c s (.mWake x) = some s') : BDone c s' := by bd_own
theorem bdone_mPut (c : Cfg) {s s' : BState} (hs : BAll c s) (h : BDone c s) (x : Nat) (st : bstep c s (.mPut x) = some s') : BDone c s' := by bd_own

theorem bdone_bLdCnt (c : Cfg) {s s' : BState} (hs : BAll c s) (hj : J2 s) (h : BDone c s) (t : Nat)
    (st : bstep c s (.bLdCnt t) = some s') : BDone c s' := by
  have key := count_zero_all_done c hs hj t
  have g1 := hs.H.bar_ok
  have g2 : ∀ t b, s.bpc t = .put b → b < s.nextB := fun t b e => (g1 t b (by rw [e]; rfl)).1
  obtain ⟨h1, h2, h3⟩ := h
  own_pre
  all_goals (constructor <;> first | assumption | (simp only [upd] at * <;> grind [upd, BPc.bar]))

theorem bdone_reach (c : Cfg) {s : BState} (h : BReach c s) : BDone c s := by
  induction h with
  | init => exact bdone_init c
  | @step s s' l hr st ih =>
    have hs := ball_reach c hr
    cases l with
    | base l => exact bdone_base c ih st
    | bRefused t => exact bdone_bRefused c hs ih t st
    | bCall t => exact bdone_bCall c hs ih t st
    | bLock t => exact bdone_bLock c hs ih t st
    | bInit t => exact bdone_bInit c hs ih t st
    | bEnq t id h0 => exact bdone_bEnq c hs ih t id h0 st
    | bUnlock t => exact bdone_bUnlock c hs ih t st
    | bDec t => exact bdone_bDec c hs ih t st
    | bLdCnt t => exact bdone_bLdCnt c hs (j2_reach c hr) ih t st
    | bWaitLd t => exact bdone_bWaitLd c hs ih t st
    | bWaitFx t o => exact bdone_bWaitFx c hs ih t o st
    | bSpurious t => exact bdone_bSpurious c hs ih t st
    | bPut t => exact bdone_bPut c hs ih t st
    | mSub x => exact bdone_mSub c hs ih x st
    | mLdFut x => exact bdone_mLdFut c hs ih x st
    | mStFut x => exact bdone_mStFut c hs ih x st
    | mWake x => exact bdone_mWake c hs ih x st
    | mPut x => exact bdone_mPut c hs ih x st

end UrcuVerif.CallRcu
