import UrcuVerif.CallRcu.BInvK
import UrcuVerif.CallRcu.Shape
import UrcuVerif.CallRcu.Destroy
/-!
# C04 — the coverage invariant of `rcu_barrier()` (helper lemmas; statement `barrier_complete` in `Props/C04.lean`)

`J2`: for every initialised barrier `b` and every helper `x`: every callback covered by `b` (queued and not finished
when `rcu_barrier()` was called) that is still in `pend x` (running callback, batch, queue of `x`, in execution
order) is followed, later in the same list, by a marker of `b` that has not yet decremented `barrier_count` – unless
`x` is a helper the caller, still holding `call_rcu_mutex`, has yet to queue its marker on (`owes`).
Preserved by: enqueues (appended callbacks are not covered; an appended marker of `b` closes the debt of its helper),
the helper's splice and invocation loop (order kept, only the head leaves), the splice of a destroyed helper's
leftovers onto the default helper (whole list appended, cannot happen while the caller holds the mutex), and the
marker's decrement (it is the head of its list, so nothing depends on it any more).
-/
set_option linter.unusedVariables false
namespace UrcuVerif.CallRcu

/-- all invariants of a reachable state of the barrier layer -/
structure BAll (c : Cfg) (s : BState) : Prop where
  R : Reach c s.base
  H : BInvH c s
  P : BInvP c s
  K : BInvK c s

theorem bstep_reach (c : Cfg) {s s' : BState} {l : BLabel} (h : Reach c s.base) (st : bstep c s l = some s') :
    Reach c s'.base := by
  cases l <;> simp only [bstep] at st <;> (repeat' split at st) <;>
    first
    | (simp at st; done)
    | (simp only [Option.some.injEq] at st; subst st; first | exact h | (exact Reach.step h ‹_›))

theorem ball_reach (c : Cfg) {s : BState} (h : BReach c s) : BAll c s := by
  induction h with
  | init => exact ⟨Reach.init, binvH_init c, binvP_init c, binvK_init c⟩
  | step _ st ih =>
    obtain ⟨r, hh, p, k⟩ := ih
    obtain ⟨a, -, d, -, -⟩ := reach_d c r
    exact ⟨bstep_reach c r st, binvh_step c a hh st, binvp_step c hh p st, binvk_step c a d hh p k st⟩

/-- marker `m` of barrier `b` has not yet decremented `barrier_count` -/
def liveM (s : BState) (b m : Nat) : Prop := ∃ h', s.base.mark m = some (b, h') ∧ s.mdone b h' = false

/-- the caller of barrier `b` (holding `call_rcu_mutex`) still has to queue its marker on helper `x` -/
def owes (s : BState) (b x : Nat) : Prop :=
  x ∈ s.todo b ∨ ∃ id, s.bpc (s.caller b) = .loop b ∧ s.base.tpc (s.caller b) = .enq id x .ext

def J2 (s : BState) : Prop :=
  ∀ b x pre id post, s.inited b = true → pend s.base x = pre ++ id :: post → s.cov b id = true →
    owes s b x ∨ ∃ m, m ∈ post ∧ liveM s b m

theorem snoc_decomp {l pre post : List Nat} {a id : Nat} (h : l ++ [a] = pre ++ id :: post) :
    (post = [] ∧ id = a ∧ pre = l) ∨ ∃ post0, post = post0 ++ [a] ∧ l = pre ++ id :: post0 := by
  rcases List.append_eq_append_iff.mp h with ⟨a', h1, h2⟩ | ⟨c', h1, h2⟩
  · -- pre = l ++ a', [a] = a' ++ id :: post
    cases a' with
    | nil =>
      simp only [List.nil_append, List.cons.injEq] at h2
      exact Or.inl ⟨h2.2.symm, h2.1.symm, by simpa using h1⟩
    | cons x r =>
      simp only [List.cons_append, List.cons.injEq] at h2
      have := h2.2
      cases r <;> simp at this
  · -- l = pre ++ c', id :: post = c' ++ [a]
    cases c' with
    | nil =>
      simp only [List.nil_append, List.cons.injEq] at h2
      exact Or.inl ⟨h2.2, h2.1, by simpa using h1.symm⟩
    | cons x r =>
      simp only [List.cons_append, List.cons.injEq] at h2
      exact Or.inr ⟨r, h2.2, by rw [h1, h2.1]⟩

theorem app_decomp {l1 l2 pre post : List Nat} {id : Nat} (h : l1 ++ l2 = pre ++ id :: post) :
    (∃ post0, l1 = pre ++ id :: post0 ∧ post = post0 ++ l2) ∨ (∃ pre', l2 = pre' ++ id :: post ∧ pre = l1 ++ pre') := by
  rcases List.append_eq_append_iff.mp h with ⟨a', h1, h2⟩ | ⟨c', h1, h2⟩
  · exact Or.inr ⟨a', h2, h1⟩
  · cases c' with
    | nil =>
      simp only [List.nil_append] at h2
      exact Or.inr ⟨[], by simpa using h2.symm, by simpa using h1.symm⟩
    | cons x r =>
      simp only [List.cons_append, List.cons.injEq] at h2
      exact Or.inl ⟨r, by rw [h1, h2.1], h2.2⟩

/-- the places of the callbacks of `pend x` -/
theorem mem_pend_loc (c : Cfg) {s : State} (A : InvA c s) {x m : Nat} (h : m ∈ pend s x) :
    s.loc m = .run x ∨ s.loc m = .batch x ∨ s.loc m = .queue x := by
  simp only [pend, List.mem_append] at h
  rcases h with (h | h) | h
  · cases hc : s.cur x with
    | none => rw [hc] at h; simp at h
    | some a => rw [hc] at h; simp at h; subst h; exact Or.inl (A.c_loc x _ hc)
  · exact Or.inr (Or.inl (A.b_loc x m h))
  · exact Or.inr (Or.inr (A.q_loc x m h))

theorem mem_pend_reg (c : Cfg) {s : State} (A : InvA c s) {x m : Nat} (h : m ∈ pend s x) : s.reg m = true := by
  have hl := A.loc_ok m
  unfold LocOk at hl
  rcases mem_pend_loc c A h with h1 | h1 | h1 <;> exact hl.2.1 (by rw [h1]; simp)

/-- the callback a helper is running is the head of its list and occurs nowhere later -/
theorem cur_not_later (c : Cfg) {s : State} (A : InvA c s) {x y m id : Nat} {pre post : List Nat} (hc : s.cur x = some m)
    (hp : pend s y = pre ++ id :: post) : m ∉ post := by
  intro hm
  have hmem : m ∈ pend s y := by rw [hp]; simp [hm]
  have hl := A.c_loc x m hc
  have hxy : s.loc m = .run y := by
    rcases mem_pend_loc c A hmem with h1 | h1 | h1
    · exact h1
    · rw [hl] at h1; simp at h1
    · rw [hl] at h1; simp at h1
  have : y = x := by rw [hl] at hxy; simpa using hxy.symm
  subst this
  -- pend y = m :: batch ++ queue
  have hpd : pend s y = m :: (s.batch y ++ s.queue y) := by simp [pend, hc]
  rw [hpd] at hp
  have hin : m ∈ s.batch y ++ s.queue y := by
    cases pre with
    | nil => simp at hp; rw [hp.2]; exact hm
    | cons a r => simp at hp; rw [hp.2]; simp [hm]
  rcases List.mem_append.mp hin with h1 | h1
  · have := A.b_loc y m h1; rw [hl] at this; simp at this
  · have := A.q_loc y m h1; rw [hl] at this; simp at this

/-- frame rule: nothing the invariant looks at has changed -/
theorem j2_frame {s s' : BState} (h : J2 s) (hin : s'.inited = s.inited) (hcov : s'.cov = s.cov)
    (hpend : ∀ x, pend s'.base x = pend s.base x)
    (howes : ∀ b x, s.inited b = true → owes s b x → owes s' b x)
    (hlive : ∀ b m x, s.inited b = true → m ∈ pend s.base x → liveM s b m → liveM s' b m) : J2 s' := by
  intro b x pre id post hi hp hc
  rw [hin] at hi; rw [hpend] at hp; rw [hcov] at hc
  rcases h b x pre id post hi hp hc with ho | ⟨m, hm, hl⟩
  · exact Or.inl (howes b x hi ho)
  · exact Or.inr ⟨m, hm, hlive b m x hi (by rw [hp]; simp [hm]) hl⟩

/-- what a `.base l` step of the barrier layer does -/
theorem bstep_base (c : Cfg) {s s' : BState} {l : Label} (st : bstep c s (.base l) = some s') :
    step c s.base l = some s'.base ∧ l.isHook = false ∧ s'.inited = s.inited ∧ s'.cov = s.cov ∧ s'.todo = s.todo ∧
    s'.bpc = s.bpc ∧ s'.caller = s.caller ∧ s'.mdone = s.mdone ∧ s'.hs = s.hs ∧ s'.returned = s.returned ∧
    s'.nextB = s.nextB := by
  simp only [bstep] at st
  split at st
  · simp at st
  · rename_i hh
    have hh' : l.isHook = false := by simpa using hh
    (repeat' split at st)
    all_goals (first | (simp at st; done) | skip)
    all_goals (simp only [Option.some.injEq] at st; subst st)
    all_goals (simp_all)

theorem hook_not_extCall {l : Label} (h : l.isHook = false) : ∀ t id b x, l ≠ .extCall t id b x := by
  intro t id b x e; subst e; simp [Label.isHook] at h

/-- `owes` implies the caller is in its marker loop (holding the mutex, at a hook program point) -/
theorem owes_loop (c : Cfg) {s : BState} (P : BInvP c s) {b x : Nat} (h : owes s b x) : s.bpc (s.caller b) = .loop b := by
  rcases h with h | ⟨id, h, -⟩
  · exact P.k_todo_loop b (by intro h0; rw [h0] at h; simp at h)
  · exact h

theorem j2_base (c : Cfg) {s s' : BState} {l : Label} (hs : BAll c s) (h : J2 s)
    (st : bstep c s (.base l) = some s') : J2 s' := by
  obtain ⟨hb, hhook, hin, hcov, htodo, hbpc, hcaller, hmdone, hhs, -, -⟩ := bstep_base c st
  obtain ⟨A, -, D, -, -⟩ := reach_d c hs.R
  have hmark : s'.base.mark = s.base.mark := mark_same c (hook_not_extCall hhook) hb
  have hlive : ∀ b m, liveM s b m → liveM s' b m := by
    rintro b m ⟨h', h1, h2⟩; exact ⟨h', by rw [hmark]; exact h1, by rw [hmdone]; exact h2⟩
  have howes_ne : (∀ t, l ≠ .enq t) → ∀ b x, owes s b x → owes s' b x := by
    intro hne b x ho
    rcases ho with ho | ⟨id, h1, h2⟩
    · exact Or.inl (by rw [htodo]; exact ho)
    · exact Or.inr ⟨id, by rw [hbpc, hcaller]; exact h1, by rw [hcaller]; exact enq_stable c _ id x .ext h2 (hne _) hb⟩
  cases pend_shape c A D hb with
  | same hl hp =>
    exact j2_frame h hin hcov hp (fun b x _ => howes_ne hl b x) (fun b m x _ _ => hlive b m)
  | pop x cb hl hc hf h1 h2 =>
    have hne : ∀ t, l ≠ .enq t := by intro t e; rw [e] at hl; simp at hl
    intro b y pre id post hi hp hcv
    rw [hin] at hi; rw [hcov] at hcv
    by_cases hy : y = x
    · subst hy
      have hp' : pend s.base y = (cb :: pre) ++ id :: post := by rw [h1, hp]; simp
      rcases h b y (cb :: pre) id post hi hp' hcv with ho | ⟨m, hm, hl'⟩
      · exact Or.inl (howes_ne hne b y ho)
      · exact Or.inr ⟨m, hm, hlive b m hl'⟩
    · rw [h2 y hy] at hp
      rcases h b y pre id post hi hp hcv with ho | ⟨m, hm, hl'⟩
      · exact Or.inl (howes_ne hne b y ho)
      · exact Or.inr ⟨m, hm, hlive b m hl'⟩
  | spl t hh d hl hpc hd h1 h0 h2 =>
    have hne : ∀ t, l ≠ .enq t := by intro t' e; rw [e] at hl; simp at hl
    -- the destroyer holds the mutex, so no barrier is in its marker loop
    have hmut : s.base.mutex = some t := D.holds_mutex t (by rw [hpc]; rfl)
    have no_owes : ∀ b x, ¬ owes s b x := by
      intro b x ho
      have hloop := owes_loop c hs.P ho
      have hm2 := hs.P.k_lock (s.caller b) b (by rw [hloop]; rfl)
      rw [hmut] at hm2
      have hte : t = s.caller b := by simpa using hm2
      have hext := (hs.P.k_ext (s.caller b)).mp (by rw [hloop]; simp)
      rw [← hte, hpc] at hext
      simp [TPc.extMode] at hext
    intro b y pre id post hi hp hcv
    rw [hin] at hi; rw [hcov] at hcv
    by_cases hyd : y = d
    · subst hyd
      rw [h1] at hp
      rcases app_decomp hp with ⟨post0, e1, e2⟩ | ⟨pre', e1, e2⟩
      · rcases h b y pre id post0 hi e1 hcv with ho | ⟨m, hm, hl'⟩
        · exact absurd ho (no_owes b y)
        · exact Or.inr ⟨m, by rw [e2]; simp [hm], hlive b m hl'⟩
      · rcases h b hh pre' id post hi e1 hcv with ho | ⟨m, hm, hl'⟩
        · exact absurd ho (no_owes b hh)
        · exact Or.inr ⟨m, hm, hlive b m hl'⟩
    · by_cases hyh : y = hh
      · subst hyh; rw [h0] at hp; simp at hp
      · rw [h2 y hyd hyh] at hp
        rcases h b y pre id post hi hp hcv with ho | ⟨m, hm, hl'⟩
        · exact absurd ho (no_owes b y)
        · exact Or.inr ⟨m, hm, hlive b m hl'⟩
  | app t id0 x k hl hpc h1 h2 =>
    have htok := A.tpc_ok t
    unfold TOk at htok
    have hloc : s.base.loc id0 = .pend t := (htok.2.2.1 id0 x k hpc).1
    have hlo := A.loc_ok id0
    unfold LocOk at hlo
    have hnotcov : ∀ b, s.cov b id0 = false := by
      intro b
      cases hcv : s.cov b id0 with
      | false => rfl
      | true =>
        rcases hs.K.j1 b id0 hcv with hq | hf
        · rw [hloc] at hq; simp [Loc.queued] at hq
        · have := hlo.2.2.2.1 (by rw [hloc]; simp); rw [this] at hf; simp at hf
    have howes' : ∀ b y, owes s b y → (owes s' b y ∨ (y = x ∧ s.caller b = t ∧ k = .ext ∧ s.bpc t = .loop b)) := by
      intro b y ho
      rcases ho with ho | ⟨id, e1, e2⟩
      · exact Or.inl (Or.inl (by rw [htodo]; exact ho))
      · by_cases hct : s.caller b = t
        · rw [hct, hpc] at e2
          simp only [TPc.enq.injEq] at e2
          exact Or.inr ⟨e2.2.1.symm, hct, e2.2.2, by rw [← hct]; exact e1⟩
        · refine Or.inl (Or.inr ⟨id, by rw [hbpc, hcaller]; exact e1, ?_⟩)
          rw [hcaller]
          exact enq_stable c _ id y .ext e2 (by rw [hl]; intro e; simp at e; exact hct e.symm) hb
    intro b y pre id post hi hp hcv
    rw [hin] at hi; rw [hcov] at hcv
    by_cases hy : y = x
    · subst hy
      rw [h1] at hp
      rcases snoc_decomp hp with ⟨-, e2, -⟩ | ⟨post0, e1, e2⟩
      · subst e2; rw [hnotcov b] at hcv; simp at hcv
      · rcases h b y pre id post0 hi e2 hcv with ho | ⟨m, hm, hl'⟩
        · rcases howes' b y ho with ho' | ⟨-, hct, hk, hloop⟩
          · exact Or.inl ho'
          · -- the appended callback is the marker of `b` for this helper
            subst hk
            have hmk := hs.K.k_enq t b id0 y hloop hpc
            have hmid := (hs.K.k_mark id0 b y hmk).2.2.1
            have hnd : s.mdone b y = false := by
              cases hd : s.mdone b y with
              | false => rfl
              | true =>
                have := (hs.K.k_done b y hd).1
                rw [hmid, hloc] at this; simp [Loc.invoked] at this
            exact Or.inr ⟨id0, by rw [e1]; simp, ⟨y, by rw [hmark]; exact hmk, by rw [hmdone]; exact hnd⟩⟩
        · exact Or.inr ⟨m, by rw [e1]; simp [hm], hlive b m hl'⟩
    · rw [h2 y hy] at hp
      rcases h b y pre id post hi hp hcv with ho | ⟨m, hm, hl'⟩
      · rcases howes' b y ho with ho' | ⟨e, -⟩
        · exact Or.inl ho'
        · exact absurd e hy
      · exact Or.inr ⟨m, hm, hlive b m hl'⟩

/-- frame rule for steps that only move program counters outside the marker loop / touch the completion -/
theorem j2_pcframe {s s' : BState} (h : J2 s) (hin : s'.inited = s.inited) (hcov : s'.cov = s.cov)
    (hpend : ∀ x, pend s'.base x = pend s.base x) (hmark : s'.base.mark = s.base.mark) (hmdone : s'.mdone = s.mdone)
    (htodo : s'.todo = s.todo) (hcaller : s'.caller = s.caller)
    (hpc : ∀ u b, s.bpc u = .loop b → s'.bpc u = .loop b ∧ s'.base.tpc u = s.base.tpc u) : J2 s' := by
  refine j2_frame h hin hcov hpend ?_ ?_
  · intro b x _ ho
    rcases ho with ho | ⟨id, h1, h2⟩
    · exact Or.inl (by rw [htodo]; exact ho)
    · have := hpc _ _ h1
      exact Or.inr ⟨id, by rw [hcaller]; exact this.1, by rw [hcaller, this.2]; exact h2⟩
  · rintro b m x _ _ ⟨h', h1, h2⟩
    exact ⟨h', by rw [hmark]; exact h1, by rw [hmdone]; exact h2⟩

set_option hygiene false in
macro "own_pre" : tactic => `(tactic| (
  simp only [bstep, step] at st
  (repeat' split at st)
  all_goals (first | (simp at st; done) | skip)
  all_goals (simp only [Option.some.injEq] at st; subst st)
  all_goals (try (rename_i hb; (repeat' split at hb); all_goals (first | (simp at hb; done) | skip); all_goals (simp only [Option.some.injEq] at hb; subst hb)))
  all_goals (try (rename_i hb _; (repeat' split at hb); all_goals (first | (simp at hb; done) | skip); all_goals (simp only [Option.some.injEq] at hb; subst hb)))))

set_option hygiene false in
macro "pcframe_tac" : tactic => `(tactic| (
  own_pre
  all_goals (refine j2_pcframe h rfl rfl (fun x => rfl) rfl rfl rfl rfl ?_)
  all_goals (intro u b hu; simp only [upd]; grind)))

theorem j2_bRefused (c : Cfg) {s s' : BState} (h : J2 s) (t : Nat) (st : bstep c s (.bRefused t) = some s') : J2 s' := by
  pcframe_tac
theorem j2_bLock (c : Cfg) {s s' : BState} (h : J2 s) (t : Nat) (st : bstep c s (.bLock t) = some s') : J2 s' := by
  pcframe_tac
theorem j2_bDec (c : Cfg) {s s' : BState} (h : J2 s) (t : Nat) (st : bstep c s (.bDec t) = some s') : J2 s' := by
  pcframe_tac
theorem j2_bLdCnt (c : Cfg) {s s' : BState} (h : J2 s) (t : Nat) (st : bstep c s (.bLdCnt t) = some s') : J2 s' := by
  pcframe_tac
theorem j2_bWaitLd (c : Cfg) {s s' : BState} (h : J2 s) (t : Nat) (st : bstep c s (.bWaitLd t) = some s') : J2 s' := by
  pcframe_tac
theorem j2_bWaitFx (c : Cfg) {s s' : BState} (h : J2 s) (t : Nat) (o : FOut) (st : bstep c s (.bWaitFx t o) = some s') : J2 s' := by
  pcframe_tac
theorem j2_bSpurious (c : Cfg) {s s' : BState} (h : J2 s) (t : Nat) (st : bstep c s (.bSpurious t) = some s') : J2 s' := by
  pcframe_tac
theorem j2_bPut (c : Cfg) {s s' : BState} (h : J2 s) (t : Nat) (st : bstep c s (.bPut t) = some s') : J2 s' := by
  pcframe_tac
theorem j2_mLdFut (c : Cfg) {s s' : BState} (h : J2 s) (x : Nat) (st : bstep c s (.mLdFut x) = some s') : J2 s' := by
  pcframe_tac
theorem j2_mStFut (c : Cfg) {s s' : BState} (h : J2 s) (x : Nat) (st : bstep c s (.mStFut x) = some s') : J2 s' := by
  pcframe_tac
theorem j2_mWake (c : Cfg) {s s' : BState} (h : J2 s) (x : Nat) (st : bstep c s (.mWake x) = some s') : J2 s' := by
  pcframe_tac
theorem j2_mPut (c : Cfg) {s s' : BState} (h : J2 s) (x : Nat) (st : bstep c s (.mPut x) = some s') : J2 s' := by
  pcframe_tac

theorem j2_bCall (c : Cfg) {s s' : BState} (hs : BAll c s) (h : J2 s) (t : Nat) (st : bstep c s (.bCall t) = some s') :
    J2 s' := by
  have hfresh := hs.P.k_fresh
  have hbar := hs.H.bar_ok
  own_pre
  rename_i hg _ _
  intro b x pre id post hi hp hcv
  simp only [upd] at *
  by_cases hb : b = s.nextB
  · subst hb; rw [hfresh _ (Nat.le_refl _)] at hi; simp at hi
  · simp only [hb, ↓reduceIte] at hcv
    rcases h b x pre id post hi hp hcv with ho | ⟨m, hm, hl⟩
    · refine Or.inl ?_
      rcases ho with ho | ⟨id', h1, h2⟩
      · exact Or.inl ho
      · refine Or.inr ⟨id', ?_, ?_⟩
        · show upd s.bpc t (BPc.lock s.nextB) (upd s.caller s.nextB t b) = BPc.loop b
          simp only [upd, hb, ↓reduceIte]
          by_cases hct : s.caller b = t
          · rw [hct, hg.2.2] at h1; simp at h1
          · simp [hct, h1]
        · show upd s.base.tpc t TPc.ext (upd s.caller s.nextB t b) = TPc.enq id' x K.ext
          simp only [upd, hb, ↓reduceIte]
          by_cases hct : s.caller b = t
          · rw [hct, hg.2.2] at h1; simp at h1
          · simp [hct, h2]
    · exact Or.inr ⟨m, hm, hl⟩

theorem j2_bInit (c : Cfg) {s s' : BState} (hs : BAll c s) (h : J2 s) (t : Nat) (st : bstep c s (.bInit t) = some s') :
    J2 s' := by
  have hlisted := holder_listed c hs.R
  have hbar := hs.H.bar_ok
  own_pre
  rename_i b0 hpc
  intro b x pre id post hi hp hcv
  simp only [upd] at *
  by_cases hb : b = b0
  · subst hb
    refine Or.inl (Or.inl ?_)
    show x ∈ upd s.todo b s.base.list b
    simp only [upd, ↓reduceIte]
    apply hlisted x
    have hne : pend s.base x ≠ [] := by rw [hp]; simp
    simp only [pend] at hne
    cases hc : s.base.cur x with
    | some a => exact Or.inr (Or.inr (by simp))
    | none =>
      rw [hc] at hne
      cases hbt : s.base.batch x with
      | cons a r => exact Or.inr (Or.inl (by simp))
      | nil => rw [hbt] at hne; exact Or.inl (by simpa using hne)
  · simp only [hb, ↓reduceIte] at hi
    rcases h b x pre id post hi hp hcv with ho | ⟨m, hm, hl⟩
    · refine Or.inl ?_
      rcases ho with ho | ⟨id', h1, h2⟩
      · exact Or.inl (by show x ∈ upd s.todo b0 s.base.list b; simp only [upd, hb, ↓reduceIte]; exact ho)
      · refine Or.inr ⟨id', ?_, h2⟩
        show upd s.bpc t (BPc.loop b0) (s.caller b) = BPc.loop b
        by_cases hct : s.caller b = t
        · rw [hct, hpc] at h1; simp at h1
        · simp [upd, hct, h1]
    · exact Or.inr ⟨m, hm, hl⟩

theorem j2_bUnlock (c : Cfg) {s s' : BState} (hs : BAll c s) (h : J2 s) (t : Nat) (st : bstep c s (.bUnlock t) = some s') :
    J2 s' := by
  have hbar := hs.H.bar_ok
  own_pre
  rename_i b0 hpc htd _ hg
  intro b x pre id post hi hp hcv
  simp only [upd] at *
  rcases h b x pre id post hi hp hcv with ho | ⟨m, hm, hl⟩
  · refine Or.inl ?_
    rcases ho with ho | ⟨id', h1, h2⟩
    · exact Or.inl ho
    · refine Or.inr ⟨id', ?_, h2⟩
      by_cases hct : s.caller b = t
      · rw [hct, hg.1] at h2; simp at h2
      · simp [hct, h1]
  · exact Or.inr ⟨m, hm, hl⟩

theorem j2_mSub (c : Cfg) {s s' : BState} (hs : BAll c s) (h : J2 s) (x : Nat) (st : bstep c s (.mSub x) = some s') :
    J2 s' := by
  obtain ⟨A, -, -, -, -⟩ := reach_d c hs.R
  have hrun := hs.K.k_run
  have hmk := hs.K.k_mark
  simp only [bstep] at st
  split at st
  · rename_i b0 h0 hmr
    split at st
    · simp only [Option.some.injEq] at st; subst st
      intro b y pre id post hi hp hcv
      rcases h b y pre id post hi hp hcv with ho | ⟨m, hm, ⟨h1, e1, e2⟩⟩
      · exact Or.inl ho
      · refine Or.inr ⟨m, hm, ⟨h1, e1, ?_⟩⟩
        show upd2 s.mdone b0 h0 true b h1 = false
        simp only [upd2]
        by_cases hbh : b = b0 ∧ h1 = h0
        · obtain ⟨rfl, rfl⟩ := hbh
          -- `m` would be the running marker itself, which is the head of its list
          have hcur := (hrun x b h1 hmr).1
          have hmid := (hmk m b h1 e1).2.2.1
          rw [hmid] at hcur
          exact absurd hm (cur_not_later c A hcur hp)
        · simp [hbh, e2]
    · simp at st
  · simp at st

theorem mem_head_or_tail {l : List Nat} {a y : Nat} (h : l.head? = some a) (hy : y ∈ l) : y = a ∨ y ∈ l.tail := by
  cases l <;> simp_all

theorem j2_bEnq (c : Cfg) {s s' : BState} (hs : BAll c s) (h : J2 s) (t id h0 : Nat)
    (st : bstep c s (.bEnq t id h0) = some s') : J2 s' := by
  obtain ⟨A, -, -, -, -⟩ := reach_d c hs.R
  have hbar := hs.H.bar_ok
  simp only [bstep] at st
  split at st
  · rename_i b0 hpc
    split at st
    · rename_i hhd
      split at st
      · rename_i b' hstep
        simp only [Option.some.injEq] at st; subst st
        simp only [step] at hstep
        split at hstep
        · rename_i hg
          simp only [Option.some.injEq] at hstep; subst hstep
          have hcb : s.caller b0 = t := (hbar t b0 (by rw [hpc]; rfl)).2
          intro b y pre id' post hi hp hcv
          rcases h b y pre id' post hi hp hcv with ho | ⟨m, hm, ⟨h1, e1, e2⟩⟩
          · refine Or.inl ?_
            rcases ho with ho | ⟨id2, g1, g2⟩
            · by_cases hb : b = b0
              · subst hb
                rcases mem_head_or_tail hhd ho with rfl | htl
                · refine Or.inr ⟨id, ?_, ?_⟩
                  · show s.bpc (s.caller b) = _
                    rw [hcb]; exact hpc
                  · show upd s.base.tpc t _ (s.caller b) = _
                    simp [upd, hcb]
                · exact Or.inl (by show y ∈ upd s.todo b (s.todo b).tail b; simp [upd, htl])
              · exact Or.inl (by show y ∈ upd s.todo b0 (s.todo b0).tail b; simp [upd, hb, ho])
            · by_cases hct : s.caller b = t
              · rw [hct, hg.1] at g2; simp at g2
              · refine Or.inr ⟨id2, ?_, ?_⟩
                · exact g1
                · show upd s.base.tpc t _ (s.caller b) = _
                  simp [upd, hct, g2]
          · have hp0 : pend s.base y = pre ++ id' :: post := hp
            have hreg := mem_pend_reg c A (x := y) (m := m) (by rw [hp0]; simp [hm])
            have hne : m ≠ id := by intro e; rw [e, hg.2.2.2] at hreg; simp at hreg
            exact Or.inr ⟨m, hm, ⟨h1, by show upd s.base.mark id _ m = _; simp [upd, hne, e1], e2⟩⟩
        · simp at hstep
      · simp at st
    · simp at st
  · simp at st

/-- the coverage invariant holds in every reachable state of the barrier layer -/
theorem j2_reach (c : Cfg) {s : BState} (h : BReach c s) : J2 s := by
  induction h with
  | init => intro b x pre id post hi; simp [binit] at hi
  | @step s s' l hr st ih =>
    have hs := ball_reach c hr
    cases l with
    | base l => exact j2_base c hs ih st
    | bRefused t => exact j2_bRefused c ih t st
    | bCall t => exact j2_bCall c hs ih t st
    | bLock t => exact j2_bLock c ih t st
    | bInit t => exact j2_bInit c hs ih t st
    | bEnq t id h0 => exact j2_bEnq c hs ih t id h0 st
    | bUnlock t => exact j2_bUnlock c hs ih t st
    | bDec t => exact j2_bDec c ih t st
    | bLdCnt t => exact j2_bLdCnt c ih t st
    | bWaitLd t => exact j2_bWaitLd c ih t st
    | bWaitFx t o => exact j2_bWaitFx c ih t o st
    | bSpurious t => exact j2_bSpurious c ih t st
    | bPut t => exact j2_bPut c ih t st
    | mSub x => exact j2_mSub c hs ih x st
    | mLdFut x => exact j2_mLdFut c ih x st
    | mStFut x => exact j2_mStFut c ih x st
    | mWake x => exact j2_mWake c ih x st
    | mPut x => exact j2_mPut c ih x st

end UrcuVerif.CallRcu
