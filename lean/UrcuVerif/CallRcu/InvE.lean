import UrcuVerif.CallRcu.InvB
import UrcuVerif.CallRcu.InvD
/-!
# C03 — why `call_rcu()` never enqueues on a helper that is being / has been destroyed (helper lemmas;
statement `no_enqueue_to_freed_helper` in `Props/C03.lean`)

`InvE` records how a thread inside `call_rcu()` got hold of its helper and why that helper cannot be
retiring:
* per-thread pointer: it still is the thread's per-thread helper; `call_rcu_data_free(h)` requires that
  no thread but the helper's own has `h` as per-thread helper, and the helper's own thread only runs
  while `h` executes a callback, i.e. before `h` has stopped;
* per-CPU array / default pointer: the thread has been inside a read-side section since before it read
  the pointer, so either `h` is still published or it was unpublished after that section began
  (`cs t < unpubT h`); `call_rcu_data_free(h)` requires a grace period after the unpublication
  (`unpubT h < gpDone`), and every open section began at or after `gpDone` (`InvB.gpd_open`).
-/
set_option linter.unusedVariables false
set_option linter.unusedSimpArgs false
namespace UrcuVerif.CallRcu

def GK.inCall : GK → Bool
  | .call _ => true | .free _ => false | .ret => false

def K.isUser : K → Bool
  | .user => true | .ext => false | .fstop => false | .fdflt _ => false

/-- the thread is inside `call_rcu()`, between `_rcu_read_lock()` and `_rcu_read_unlock()` -/
def TPc.inCall : TPc → Bool
  | .sel _ => true | .crRet => true
  | .gdLd k => k.inCall | .gdLock k => k.inCall | .gdCreate k => k.inCall | .gdUnlock k => k.inCall
  | .enq _ _ k => k.isUser | .inc _ k => k.isUser | .ldFlags _ k => k.isUser | .ldFutex _ k => k.isUser
  | .stFutex _ k => k.isUser | .wake _ k => k.isUser
  | .idle => false | .ext => false | .sync => false
  | .opLock _ => false | .opDo _ => false | .opUnlock _ => false
  | .fLdFlags _ => false | .fOrStop _ => false | .fWaitStopped _ => false | .fLock _ => false | .fChk _ => false
  | .fUnlock1 _ => false | .fLock2 _ => false | .fSplice _ => false | .fAddQ _ => false | .fDel _ => false
  | .fJoin _ => false | .fFree _ => false

/-- `h` is published in the per-CPU array -/
def pubCpu (c : Cfg) (s : State) (h : Nat) : Prop := ∃ cpu, cpu < c.ncpu ∧ s.percpu cpu = some h

structure InvE (c : Cfg) (s : State) : Prop where
  e_nest : ∀ t, (s.tpc t).inCall = true → 0 < s.nest t
  e_thr : ∀ t h, (s.tpc t).tgt = some (h, .user) → s.via t = .thr → s.thr t = some h
  e_cpu : ∀ t h, (s.tpc t).tgt = some (h, .user) → s.via t = .cpu →
    (∃ cpu, cpu < c.ncpu ∧ s.percpu cpu = some h) ∨ s.cs t < s.unpubT h
  e_dflt : ∀ t h, (s.tpc t).tgt = some (h, .user) → s.via t = .dflt → s.dflt = some h ∨ s.cs t < s.unpubT h
  e_via : ∀ t h, (s.tpc t).tgt = some (h, .user) → s.via t ≠ .ext
  e_ring_cpu : ∀ h cpu, s.retiring h = true → cpu < c.ncpu → s.percpu cpu ≠ some h
  e_ring_dflt : ∀ h, s.retiring h = true → s.dflt ≠ some h
  e_ring_gp : ∀ h, s.retiring h = true → s.unpubT h = 0 ∨ s.unpubT h < s.gpDone
  e_ring_thr : ∀ h t, s.retiring h = true → s.thr t = some h → t = c.n + h
  e_thr_lt : ∀ t, nthr c s ≤ t → s.thr t = none
  e_fd : ∀ t d h0, (s.tpc t).tgt = some (d, .fdflt h0) → s.dflt = some d
  e_pub : ∀ t h, (s.tpc t).publishing = some h → s.retiring h = false

theorem invE_init (c) : InvE c init := by
  constructor <;> simp [init, TPc.inCall, TPc.tgt, TPc.publishing, nthr]

theorem tgt_inCall {p : TPc} {h : Nat} {k : K} (e : p.tgt = some (h, k)) : p.inCall = k.isUser := by
  cases p <;> simp [TPc.tgt] at e <;> obtain ⟨rfl, rfl⟩ := e <;> rfl
theorem cont_inCall (k : K) (h : Nat) : (k.cont h).inCall = k.isUser := by cases k <;> rfl
theorem cont_pub (k : K) (h : Nat) : (k.cont h).publishing = none := by cases k <;> rfl

set_option hygiene false in
macro "e_tac" : tactic => `(tactic| (
  have a11 := hA.fresh
  have a12 := hA.thr_lt
  have a5 := hA.tpc_ok
  have b3 := hB.clk_cs
  have b8 := hB.gpd_open
  have d1 := hD.ring_lt
  have d10 := hD.hthr_run
  have d11 := hD.holds_mutex
  clear hA hB hD
  obtain ⟨h1, h2, h3, h4, h5, h6, h7, h8, h9, h10, h11, h12⟩ := h
  simp only [step] at st
  (repeat' split at st)
  all_goals (first | (simp at st; done) | skip)
  all_goals (simp only [Option.some.injEq] at st; subst st)
  all_goals (constructor <;> first | assumption | (simp only [upd, lockS, unlockS, newHelper, relocate, nestOn, csOn, nestOff, FreeObl, SetObl, OpObl, userCtx, nthr, cont_tgt, cont_inCall, cont_pub] at * <;>
    grind [upd, TOk, TPc.inCall, TPc.holds, TPc.tgt, TPc.publishing, LOp.pub, K.isUser, GK.inCall, K.holds, cont_tgt, cont_inCall, cont_pub, → tgt_holds, → tgt_inCall]))))

theorem inve_rlock (c : Cfg) {s s' : State} (hA : InvA c s) (hB : InvB c s) (hD : InvD c s) (h : InvE c s) (t : _)
    (st : step c s (.rlock t) = some s') : InvE c s' := by
  e_tac

theorem inve_runlock (c : Cfg) {s s' : State} (hA : InvA c s) (hB : InvB c s) (hD : InvD c s) (h : InvE c s) (t : _)
    (st : step c s (.runlock t) = some s') : InvE c s' := by
  e_tac

theorem inve_syncStart (c : Cfg) {s s' : State} (hA : InvA c s) (hB : InvB c s) (hD : InvD c s) (h : InvE c s) (t : _)
    (st : step c s (.syncStart t) = some s') : InvE c s' := by
  e_tac

theorem inve_syncEnd (c : Cfg) {s s' : State} (hA : InvA c s) (hB : InvB c s) (hD : InvD c s) (h : InvE c s) (t : _)
    (st : step c s (.syncEnd t) = some s') : InvE c s' := by
  e_tac

theorem inve_crCall (c : Cfg) {s s' : State} (hA : InvA c s) (hB : InvB c s) (hD : InvD c s) (h : InvE c s) (t id : _)
    (st : step c s (.crCall t id) = some s') : InvE c s' := by
  e_tac

theorem inve_crSelThr (c : Cfg) {s s' : State} (hA : InvA c s) (hB : InvB c s) (hD : InvD c s) (h : InvE c s) (t : _)
    (st : step c s (.crSelThr t) = some s') : InvE c s' := by
  e_tac

theorem inve_crSelCpu (c : Cfg) {s s' : State} (hA : InvA c s) (hB : InvB c s) (hD : InvD c s) (h : InvE c s) (t cpu : _)
    (st : step c s (.crSelCpu t cpu) = some s') : InvE c s' := by
  e_tac

theorem inve_crSelNoCpu (c : Cfg) {s s' : State} (hA : InvA c s) (hB : InvB c s) (hD : InvD c s) (h : InvE c s) (t cpu : _)
    (st : step c s (.crSelNoCpu t cpu) = some s') : InvE c s' := by
  e_tac

theorem inve_gdCall (c : Cfg) {s s' : State} (hA : InvA c s) (hB : InvB c s) (hD : InvD c s) (h : InvE c s) (t : _)
    (st : step c s (.gdCall t) = some s') : InvE c s' := by
  e_tac

theorem inve_gdLd (c : Cfg) {s s' : State} (hA : InvA c s) (hB : InvB c s) (hD : InvD c s) (h : InvE c s) (t : _)
    (st : step c s (.gdLd t) = some s') : InvE c s' := by
  e_tac

theorem inve_gdLock (c : Cfg) {s s' : State} (hA : InvA c s) (hB : InvB c s) (hD : InvD c s) (h : InvE c s) (t : _)
    (st : step c s (.gdLock t) = some s') : InvE c s' := by
  e_tac

theorem inve_gdCreate (c : Cfg) {s s' : State} (hA : InvA c s) (hB : InvB c s) (hD : InvD c s) (h : InvE c s) (t : _)
    (st : step c s (.gdCreate t) = some s') : InvE c s' := by
  e_tac

theorem inve_gdUnlock (c : Cfg) {s s' : State} (hA : InvA c s) (hB : InvB c s) (hD : InvD c s) (h : InvE c s) (t : _)
    (st : step c s (.gdUnlock t) = some s') : InvE c s' := by
  e_tac

theorem inve_enq (c : Cfg) {s s' : State} (hA : InvA c s) (hB : InvB c s) (hD : InvD c s) (h : InvE c s) (t : _)
    (st : step c s (.enq t) = some s') : InvE c s' := by
  e_tac

theorem inve_inc (c : Cfg) {s s' : State} (hA : InvA c s) (hB : InvB c s) (hD : InvD c s) (h : InvE c s) (t : _)
    (st : step c s (.inc t) = some s') : InvE c s' := by
  e_tac

theorem inve_ldFlags (c : Cfg) {s s' : State} (hA : InvA c s) (hB : InvB c s) (hD : InvD c s) (h : InvE c s) (t : _)
    (st : step c s (.ldFlags t) = some s') : InvE c s' := by
  e_tac

theorem inve_ldFutex (c : Cfg) {s s' : State} (hA : InvA c s) (hB : InvB c s) (hD : InvD c s) (h : InvE c s) (t : _)
    (st : step c s (.ldFutex t) = some s') : InvE c s' := by
  e_tac

theorem inve_stFutex (c : Cfg) {s s' : State} (hA : InvA c s) (hB : InvB c s) (hD : InvD c s) (h : InvE c s) (t : _)
    (st : step c s (.stFutex t) = some s') : InvE c s' := by
  e_tac

theorem inve_wake (c : Cfg) {s s' : State} (hA : InvA c s) (hB : InvB c s) (hD : InvD c s) (h : InvE c s) (t : _)
    (st : step c s (.wake t) = some s') : InvE c s' := by
  e_tac

theorem inve_crRet (c : Cfg) {s s' : State} (hA : InvA c s) (hB : InvB c s) (hD : InvD c s) (h : InvE c s) (t : _)
    (st : step c s (.crRet t) = some s') : InvE c s' := by
  e_tac

theorem inve_opCall (c : Cfg) {s s' : State} (hA : InvA c s) (hB : InvB c s) (hD : InvD c s) (h : InvE c s) (t op : _)
    (st : step c s (.opCall t op) = some s') : InvE c s' := by
  cases op <;> e_tac

theorem inve_opLock (c : Cfg) {s s' : State} (hA : InvA c s) (hB : InvB c s) (hD : InvD c s) (h : InvE c s) (t : _)
    (st : step c s (.opLock t) = some s') : InvE c s' := by
  e_tac

set_option maxHeartbeats 1600000 in
theorem inve_opDo (c : Cfg) {s s' : State} (hA : InvA c s) (hB : InvB c s) (hD : InvD c s) (h : InvE c s) (t : _)
    (st : step c s (.opDo t) = some s') : InvE c s' := by
  e_tac

theorem inve_opUnlock (c : Cfg) {s s' : State} (hA : InvA c s) (hB : InvB c s) (hD : InvD c s) (h : InvE c s) (t : _)
    (st : step c s (.opUnlock t) = some s') : InvE c s' := by
  e_tac

theorem inve_setThr (c : Cfg) {s s' : State} (hA : InvA c s) (hB : InvB c s) (hD : InvD c s) (h : InvE c s) (t ho : _)
    (st : step c s (.setThr t ho) = some s') : InvE c s' := by
  e_tac

theorem inve_fCall (c : Cfg) {s s' : State} (hA : InvA c s) (hB : InvB c s) (hD : InvD c s) (h : InvE c s) (t h0 : _)
    (st : step c s (.fCall t h0) = some s') : InvE c s' := by
  e_tac

theorem inve_fLdFlags (c : Cfg) {s s' : State} (hA : InvA c s) (hB : InvB c s) (hD : InvD c s) (h : InvE c s) (t : _)
    (st : step c s (.fLdFlags t) = some s') : InvE c s' := by
  e_tac

theorem inve_fOrStop (c : Cfg) {s s' : State} (hA : InvA c s) (hB : InvB c s) (hD : InvD c s) (h : InvE c s) (t : _)
    (st : step c s (.fOrStop t) = some s') : InvE c s' := by
  e_tac

theorem inve_fSeeStopped (c : Cfg) {s s' : State} (hA : InvA c s) (hB : InvB c s) (hD : InvD c s) (h : InvE c s) (t : _)
    (st : step c s (.fSeeStopped t) = some s') : InvE c s' := by
  e_tac

theorem inve_fLock (c : Cfg) {s s' : State} (hA : InvA c s) (hB : InvB c s) (hD : InvD c s) (h : InvE c s) (t : _)
    (st : step c s (.fLock t) = some s') : InvE c s' := by
  e_tac

theorem inve_fChk (c : Cfg) {s s' : State} (hA : InvA c s) (hB : InvB c s) (hD : InvD c s) (h : InvE c s) (t : _)
    (st : step c s (.fChk t) = some s') : InvE c s' := by
  e_tac

theorem inve_fUnlock1 (c : Cfg) {s s' : State} (hA : InvA c s) (hB : InvB c s) (hD : InvD c s) (h : InvE c s) (t : _)
    (st : step c s (.fUnlock1 t) = some s') : InvE c s' := by
  e_tac

theorem inve_fLock2 (c : Cfg) {s s' : State} (hA : InvA c s) (hB : InvB c s) (hD : InvD c s) (h : InvE c s) (t : _)
    (st : step c s (.fLock2 t) = some s') : InvE c s' := by
  e_tac

theorem inve_fSplice (c : Cfg) {s s' : State} (hA : InvA c s) (hB : InvB c s) (hD : InvD c s) (h : InvE c s) (t : _)
    (st : step c s (.fSplice t) = some s') : InvE c s' := by
  e_tac

theorem inve_fAddQ (c : Cfg) {s s' : State} (hA : InvA c s) (hB : InvB c s) (hD : InvD c s) (h : InvE c s) (t : _)
    (st : step c s (.fAddQ t) = some s') : InvE c s' := by
  e_tac

theorem inve_fDel (c : Cfg) {s s' : State} (hA : InvA c s) (hB : InvB c s) (hD : InvD c s) (h : InvE c s) (t : _)
    (st : step c s (.fDel t) = some s') : InvE c s' := by
  e_tac

theorem inve_fJoin (c : Cfg) {s s' : State} (hA : InvA c s) (hB : InvB c s) (hD : InvD c s) (h : InvE c s) (t : _)
    (st : step c s (.fJoin t) = some s') : InvE c s' := by
  e_tac

theorem inve_fFree (c : Cfg) {s s' : State} (hA : InvA c s) (hB : InvB c s) (hD : InvD c s) (h : InvE c s) (t : _)
    (st : step c s (.fFree t) = some s') : InvE c s' := by
  e_tac

theorem inve_hStart (c : Cfg) {s s' : State} (hA : InvA c s) (hB : InvB c s) (hD : InvD c s) (h : InvE c s) (x : _)
    (st : step c s (.hStart x) = some s') : InvE c s' := by
  e_tac

theorem inve_hDec0 (c : Cfg) {s s' : State} (hA : InvA c s) (hB : InvB c s) (hD : InvD c s) (h : InvE c s) (x : _)
    (st : step c s (.hDec0 x) = some s') : InvE c s' := by
  e_tac

theorem inve_hTop (c : Cfg) {s s' : State} (hA : InvA c s) (hB : InvB c s) (hD : InvD c s) (h : InvE c s) (x : _)
    (st : step c s (.hTop x) = some s') : InvE c s' := by
  e_tac

theorem inve_hPause (c : Cfg) {s s' : State} (hA : InvA c s) (hB : InvB c s) (hD : InvD c s) (h : InvE c s) (x : _)
    (st : step c s (.hPause x) = some s') : InvE c s' := by
  e_tac

theorem inve_hUnpause (c : Cfg) {s s' : State} (hA : InvA c s) (hB : InvB c s) (hD : InvD c s) (h : InvE c s) (x : _)
    (st : step c s (.hUnpause x) = some s') : InvE c s' := by
  e_tac

theorem inve_hSplice (c : Cfg) {s s' : State} (hA : InvA c s) (hB : InvB c s) (hD : InvD c s) (h : InvE c s) (x : _)
    (st : step c s (.hSplice x) = some s') : InvE c s' := by
  e_tac

theorem inve_hGpEnd (c : Cfg) {s s' : State} (hA : InvA c s) (hB : InvB c s) (hD : InvD c s) (h : InvE c s) (x : _)
    (st : step c s (.hGpEnd x) = some s') : InvE c s' := by
  e_tac

theorem inve_hRunBegin (c : Cfg) {s s' : State} (hA : InvA c s) (hB : InvB c s) (hD : InvD c s) (h : InvE c s) (x cb : _)
    (st : step c s (.hRunBegin x cb) = some s') : InvE c s' := by
  e_tac

theorem inve_hRunEnd (c : Cfg) {s s' : State} (hA : InvA c s) (hB : InvB c s) (hD : InvD c s) (h : InvE c s) (x : _)
    (st : step c s (.hRunEnd x) = some s') : InvE c s' := by
  e_tac

theorem inve_hInvDone (c : Cfg) {s s' : State} (hA : InvA c s) (hB : InvB c s) (hD : InvD c s) (h : InvE c s) (x : _)
    (st : step c s (.hInvDone x) = some s') : InvE c s' := by
  e_tac

theorem inve_hSub (c : Cfg) {s s' : State} (hA : InvA c s) (hB : InvB c s) (hD : InvD c s) (h : InvE c s) (x : _)
    (st : step c s (.hSub x) = some s') : InvE c s' := by
  e_tac

theorem inve_hStopChk (c : Cfg) {s s' : State} (hA : InvA c s) (hB : InvB c s) (hD : InvD c s) (h : InvE c s) (x : _)
    (st : step c s (.hStopChk x) = some s') : InvE c s' := by
  e_tac

theorem inve_hEmptyChk (c : Cfg) {s s' : State} (hA : InvA c s) (hB : InvB c s) (hD : InvD c s) (h : InvE c s) (x : _)
    (st : step c s (.hEmptyChk x) = some s') : InvE c s' := by
  e_tac

theorem inve_hWaitLd (c : Cfg) {s s' : State} (hA : InvA c s) (hB : InvB c s) (hD : InvD c s) (h : InvE c s) (x : _)
    (st : step c s (.hWaitLd x) = some s') : InvE c s' := by
  e_tac

theorem inve_hWaitFx (c : Cfg) {s s' : State} (hA : InvA c s) (hB : InvB c s) (hD : InvD c s) (h : InvE c s) (x o : _)
    (st : step c s (.hWaitFx x o) = some s') : InvE c s' := by
  e_tac

theorem inve_hSpurious (c : Cfg) {s s' : State} (hA : InvA c s) (hB : InvB c s) (hD : InvD c s) (h : InvE c s) (x : _)
    (st : step c s (.hSpurious x) = some s') : InvE c s' := by
  e_tac

theorem inve_hPollW (c : Cfg) {s s' : State} (hA : InvA c s) (hB : InvB c s) (hD : InvD c s) (h : InvE c s) (x : _)
    (st : step c s (.hPollW x) = some s') : InvE c s' := by
  e_tac

theorem inve_hDec (c : Cfg) {s s' : State} (hA : InvA c s) (hB : InvB c s) (hD : InvD c s) (h : InvE c s) (x : _)
    (st : step c s (.hDec x) = some s') : InvE c s' := by
  e_tac

theorem inve_hPollN (c : Cfg) {s s' : State} (hA : InvA c s) (hB : InvB c s) (hD : InvD c s) (h : InvE c s) (x : _)
    (st : step c s (.hPollN x) = some s') : InvE c s' := by
  e_tac

theorem inve_hExitSt (c : Cfg) {s s' : State} (hA : InvA c s) (hB : InvB c s) (hD : InvD c s) (h : InvE c s) (x : _)
    (st : step c s (.hExitSt x) = some s') : InvE c s' := by
  e_tac

theorem inve_hExitOr (c : Cfg) {s s' : State} (hA : InvA c s) (hB : InvB c s) (hD : InvD c s) (h : InvE c s) (x : _)
    (st : step c s (.hExitOr x) = some s') : InvE c s' := by
  e_tac

theorem inve_extBegin (c : Cfg) {s s' : State} (hA : InvA c s) (hB : InvB c s) (hD : InvD c s) (h : InvE c s) (t : _)
    (st : step c s (.extBegin t) = some s') : InvE c s' := by
  e_tac

theorem inve_extEnd (c : Cfg) {s s' : State} (hA : InvA c s) (hB : InvB c s) (hD : InvD c s) (h : InvE c s) (t : _)
    (st : step c s (.extEnd t) = some s') : InvE c s' := by
  e_tac

theorem inve_extLock (c : Cfg) {s s' : State} (hA : InvA c s) (hB : InvB c s) (hD : InvD c s) (h : InvE c s) (t : _)
    (st : step c s (.extLock t) = some s') : InvE c s' := by
  e_tac

theorem inve_extUnlock (c : Cfg) {s s' : State} (hA : InvA c s) (hB : InvB c s) (hD : InvD c s) (h : InvE c s) (t : _)
    (st : step c s (.extUnlock t) = some s') : InvE c s' := by
  e_tac

theorem inve_extCall (c : Cfg) {s s' : State} (hA : InvA c s) (hB : InvB c s) (hD : InvD c s) (h : InvE c s) (t id b h0 : _)
    (st : step c s (.extCall t id b h0) = some s') : InvE c s' := by
  e_tac

theorem inve_envPause (c : Cfg) {s s' : State} (hA : InvA c s) (hB : InvB c s) (hD : InvD c s) (h : InvE c s) (x v : _)
    (st : step c s (.envPause x v) = some s') : InvE c s' := by
  e_tac

theorem inve_step (c : Cfg) {s s' : State} {l : Label} (hA : InvA c s) (hB : InvB c s) (hD : InvD c s) (h : InvE c s)
    (st : step c s l = some s') : InvE c s' := by
  cases l with
  | rlock t => exact inve_rlock c hA hB hD h t st
  | runlock t => exact inve_runlock c hA hB hD h t st
  | syncStart t => exact inve_syncStart c hA hB hD h t st
  | syncEnd t => exact inve_syncEnd c hA hB hD h t st
  | crCall t id => exact inve_crCall c hA hB hD h t id st
  | crSelThr t => exact inve_crSelThr c hA hB hD h t st
  | crSelCpu t cpu => exact inve_crSelCpu c hA hB hD h t cpu st
  | crSelNoCpu t cpu => exact inve_crSelNoCpu c hA hB hD h t cpu st
  | gdCall t => exact inve_gdCall c hA hB hD h t st
  | gdLd t => exact inve_gdLd c hA hB hD h t st
  | gdLock t => exact inve_gdLock c hA hB hD h t st
  | gdCreate t => exact inve_gdCreate c hA hB hD h t st
  | gdUnlock t => exact inve_gdUnlock c hA hB hD h t st
  | enq t => exact inve_enq c hA hB hD h t st
  | inc t => exact inve_inc c hA hB hD h t st
  | ldFlags t => exact inve_ldFlags c hA hB hD h t st
  | ldFutex t => exact inve_ldFutex c hA hB hD h t st
  | stFutex t => exact inve_stFutex c hA hB hD h t st
  | wake t => exact inve_wake c hA hB hD h t st
  | crRet t => exact inve_crRet c hA hB hD h t st
  | opCall t op => exact inve_opCall c hA hB hD h t op st
  | opLock t => exact inve_opLock c hA hB hD h t st
  | opDo t => exact inve_opDo c hA hB hD h t st
  | opUnlock t => exact inve_opUnlock c hA hB hD h t st
  | setThr t ho => exact inve_setThr c hA hB hD h t ho st
  | fCall t h0 => exact inve_fCall c hA hB hD h t h0 st
  | fLdFlags t => exact inve_fLdFlags c hA hB hD h t st
  | fOrStop t => exact inve_fOrStop c hA hB hD h t st
  | fSeeStopped t => exact inve_fSeeStopped c hA hB hD h t st
  | fLock t => exact inve_fLock c hA hB hD h t st
  | fChk t => exact inve_fChk c hA hB hD h t st
  | fUnlock1 t => exact inve_fUnlock1 c hA hB hD h t st
  | fLock2 t => exact inve_fLock2 c hA hB hD h t st
  | fSplice t => exact inve_fSplice c hA hB hD h t st
  | fAddQ t => exact inve_fAddQ c hA hB hD h t st
  | fDel t => exact inve_fDel c hA hB hD h t st
  | fJoin t => exact inve_fJoin c hA hB hD h t st
  | fFree t => exact inve_fFree c hA hB hD h t st
  | hStart x => exact inve_hStart c hA hB hD h x st
  | hDec0 x => exact inve_hDec0 c hA hB hD h x st
  | hTop x => exact inve_hTop c hA hB hD h x st
  | hPause x => exact inve_hPause c hA hB hD h x st
  | hUnpause x => exact inve_hUnpause c hA hB hD h x st
  | hSplice x => exact inve_hSplice c hA hB hD h x st
  | hGpEnd x => exact inve_hGpEnd c hA hB hD h x st
  | hRunBegin x cb => exact inve_hRunBegin c hA hB hD h x cb st
  | hRunEnd x => exact inve_hRunEnd c hA hB hD h x st
  | hInvDone x => exact inve_hInvDone c hA hB hD h x st
  | hSub x => exact inve_hSub c hA hB hD h x st
  | hStopChk x => exact inve_hStopChk c hA hB hD h x st
  | hEmptyChk x => exact inve_hEmptyChk c hA hB hD h x st
  | hWaitLd x => exact inve_hWaitLd c hA hB hD h x st
  | hWaitFx x o => exact inve_hWaitFx c hA hB hD h x o st
  | hSpurious x => exact inve_hSpurious c hA hB hD h x st
  | hPollW x => exact inve_hPollW c hA hB hD h x st
  | hDec x => exact inve_hDec c hA hB hD h x st
  | hPollN x => exact inve_hPollN c hA hB hD h x st
  | hExitSt x => exact inve_hExitSt c hA hB hD h x st
  | hExitOr x => exact inve_hExitOr c hA hB hD h x st
  | extBegin t => exact inve_extBegin c hA hB hD h t st
  | extEnd t => exact inve_extEnd c hA hB hD h t st
  | extLock t => exact inve_extLock c hA hB hD h t st
  | extUnlock t => exact inve_extUnlock c hA hB hD h t st
  | extCall t id b h0 => exact inve_extCall c hA hB hD h t id b h0 st
  | envPause x v => exact inve_envPause c hA hB hD h x v st

end UrcuVerif.CallRcu
