import UrcuVerif.Machine.Fair
import UrcuVerif.Props.C03
/-! Helper lemmas for `helper_eventually_wakes` (`Props/LiveC03.lean`) on the full call_rcu model: frame lemmas for a
thread on the wake path of `wake_call_rcu_thread()`. -/
set_option linter.unusedSimpArgs false
set_option linter.unusedVariables false
namespace UrcuVerif.CallRcu
open UrcuVerif UrcuVerif.Fair

/-- the steps of thread `t` on the wake path of `wake_call_rcu_thread()` (after the enqueue / the splice of
`call_rcu_data_free`): `uatomic_inc(&qlen)`, load flags, load futex, `futex := 0`, `FUTEX_WAKE` -/
def wakeLabels (t : Nat) : List Label := [.inc t, .ldFlags t, .ldFutex t, .stFutex t, .wake t, .fAddQ t]

/-- the thread is on the wake path (towards some helper) -/
def TPc.onWake : TPc → Bool
  | .inc _ _ => true | .ldFlags _ _ => true | .ldFutex _ _ => true | .stFutex _ _ => true | .wake _ _ => true
  | .fAddQ _ => true
  | .enq _ _ _ => false
  | .idle => false | .ext => false | .sync => false | .sel _ => false
  | .gdLd _ => false | .gdLock _ => false | .gdCreate _ => false | .gdUnlock _ => false
  | .crRet => false | .opLock _ => false | .opDo _ => false | .opUnlock _ => false
  | .fLdFlags _ => false | .fOrStop _ => false | .fWaitStopped _ => false | .fLock _ => false | .fChk _ => false
  | .fUnlock1 _ => false | .fLock2 _ => false | .fSplice _ => false | .fDel _ => false
  | .fJoin _ => false | .fFree _ => false

/-- a step that is not on `t`'s wake path does not move a thread that is on it -/
theorem tpc_frame (c : Cfg) {s s' : State} {l : Label} (t : Nat) (hk : (s.tpc t).onWake = true)
    (hl : l ∉ wakeLabels t) (st : step c s l = some s') : s'.tpc t = s.tpc t := by
  cases l <;> simp only [step] at st <;> (repeat' split at st) <;>
    (first | (simp at st; done) | skip) <;>
    simp only [Option.some.injEq] at st <;> subst st <;>
    simp only [wakeLabels, List.mem_cons, List.mem_nil_iff, or_false, Label.inc.injEq, Label.ldFlags.injEq,
      Label.ldFutex.injEq, Label.stFutex.injEq, Label.wake.injEq, Label.fAddQ.injEq, reduceCtorEq, false_or, or_false,
      not_false_eq_true] at hl <;>
    simp only [upd, lockS, unlockS, newHelper, nestOn, csOn, nestOff] <;> grind [TPc.onWake]

theorem willWake_onWake {s : State} {t x : Nat} (hw : willWake s t x) : (s.tpc t).onWake = true := by
  unfold willWake at hw
  cases hp : s.tpc t <;> simp_all [TPc.waker, TPc.isAddQ, TPc.onWake]

theorem waking_onWake {s : State} {t x : Nat} (hw : (s.tpc t).waking = some x) : (s.tpc t).onWake = true := by
  cases hp : s.tpc t <;> simp_all [TPc.waking, TPc.onWake]

/-- the default helper does not change while a thread is at the splice of `call_rcu_data_free` (it holds the mutex) -/
theorem dflt_frame (c : Cfg) {s s' : State} {l : Label} (hD : InvD c s) (t x : Nat) (ha : (s.tpc t).isAddQ = true)
    (hd : s.dflt = some x) (hl : l ∉ wakeLabels t) (st : step c s l = some s') : s'.dflt = some x := by
  have d11 := hD.holds_mutex
  have ht := d11 t (addq_holds ha)
  cases l <;> simp only [step] at st <;> (repeat' split at st) <;>
    (first | (simp at st; done) | skip) <;>
    simp only [Option.some.injEq] at st <;> subst st <;>
    simp only [lockS, unlockS, newHelper, nestOn, csOn, nestOff] <;> (first | exact hd | grind [TPc.holds, TPc.isAddQ])

theorem willWake_frame (c : Cfg) {s s' : State} {l : Label} (hD : InvD c s) (t x : Nat) (hw : willWake s t x)
    (hl : l ∉ wakeLabels t) (st : step c s l = some s') : willWake s' t x := by
  have e := tpc_frame c t (willWake_onWake hw) hl st
  unfold willWake at hw ⊢
  rw [e]
  rcases hw with h | ⟨h1, h2⟩
  · exact Or.inl h
  · exact Or.inr ⟨h1, dflt_frame c hD t x h1 h2 hl st⟩

/-- a helper that sleeps is only woken by `FUTEX_WAKE` or a spurious return; its futex is only changed by a waker's
`futex := 0` -/
theorem asleep_frame (c : Cfg) {s s' : State} {l : Label} (x : Nat) (hs : s.hpc x = .asleep) (st : step c s l = some s') :
    s'.futex x = s.futex x ∨ s'.futex x = 0 := by
  cases l <;> simp only [step] at st <;> (repeat' split at st) <;>
    (first | (simp at st; done) | skip) <;>
    simp only [Option.some.injEq] at st <;> subst st <;>
    simp only [upd, lockS, unlockS, newHelper, nestOn, csOn, nestOff] <;> grind

/-- phase A, own steps: a thread that is going to test the futex of the sleeping helper `x` (which reads -1) goes on
to reset it -/
theorem willWake_own (c : Cfg) {s s' : State} {l : Label} (hW : InvW c s) (t x : Nat) (hw : willWake s t x)
    (hf : s.futex x = -1) (hl : l ∈ wakeLabels t) (st : step c s l = some s') :
    willWake s' t x ∨ s'.futex x ≠ -1 := by
  have hrt := hW.w_rt x
  simp only [wakeLabels, List.mem_cons, List.mem_nil_iff, or_false] at hl
  unfold willWake at hw ⊢
  rcases hl with rfl | rfl | rfl | rfl | rfl | rfl <;>
    simp only [step] at st <;> (repeat' split at st) <;>
    (first | (simp at st; done) | skip) <;>
    simp only [Option.some.injEq] at st <;> subst st <;>
    simp_all [upd, TPc.waker, TPc.isAddQ, cont_waker, cont_isAddQ] <;> grind [TPc.waker, TPc.isAddQ]

/-- phase B, own steps: the `FUTEX_WAKE` wakes the helper -/
theorem waking_own (c : Cfg) {s s' : State} {l : Label} (t x : Nat) (hw : (s.tpc t).waking = some x)
    (hs : s.hpc x = .asleep) (hl : l ∈ wakeLabels t) (st : step c s l = some s') : s'.hpc x ≠ .asleep := by
  simp only [wakeLabels, List.mem_cons, List.mem_nil_iff, or_false] at hl
  rcases hl with rfl | rfl | rfl | rfl | rfl | rfl <;>
    simp only [step] at st <;> (repeat' split at st) <;>
    (first | (simp at st; done) | skip) <;>
    simp only [Option.some.injEq] at st <;> subst st <;>
    simp_all [upd, TPc.waking]

end UrcuVerif.CallRcu
