import UrcuVerif.CallRcu.Model
/-!
# C04 — `rcu_barrier()` on top of the C03 model

`BState` = the C03 state plus the completion objects.  A barrier step either leaves the C03 state
alone or performs exactly one C03 step through the hooks `extBegin / extLock / extCall / extUnlock /
extEnd` (so every C03 theorem holds for the C03 component of every reachable barrier state:
`base_reach`).  Every C03 label other than the hooks is also a label of this layer (`.base l`).

`rcu_barrier()` by thread `t` (any number concurrently):
`bRefused` (inside a read-side section: error message, return) |
`bCall` (allocate completion `b`) ; `bLock` ; `bInit` (count the helpers of `call_rcu_data_list`,
`ref := count + 1`, `barrier_count := count`) ; for each helper of the list `bEnq` = `_call_rcu(&work->head,
_rcu_barrier_complete, crdp)` (the C03 steps `enq inc ldFlags ldFutex stFutex wake` follow as `.base`
labels) ; `bUnlock` ; loop `bDec` (`uatomic_dec(&futex)`; mb) `bLdCnt` (`barrier_count == 0` → `bPut`)
`bWaitLd` / `bWaitFx` / `bSpurious` (`call_rcu_completion_wait`) ; `bPut` (`urcu_ref_put`, return).
`_rcu_barrier_complete()` running on helper `h` as the callback tagged `mark id = some (b, h')`:
`mSub` (`uatomic_sub_return(&barrier_count, 1)`) ; if zero `mLdFut` `mStFut` `mWake`
(`call_rcu_completion_wake_up`) ; `mPut` (`urcu_ref_put`, `free(work)`).

Ghost: `cov b id` = user callback `id` was queued and not finished when barrier `b` was called;
`mdone b h` / `mput b h` = the marker of `b` queued on `h` has decremented the count / dropped its
reference; `mrun h` = tag of the marker helper `h` is running (recorded when the helper invokes it; equals
`curMark`); `uaf` = some step touched a completion object after it was freed.
-/
namespace UrcuVerif.CallRcu

inductive BPc
  | idle | lock (b : Nat) | init (b : Nat) | loop (b : Nat) | dec (b : Nat) | ldCnt (b : Nat)
  | waitLd (b : Nat) | waitFx (b : Nat) | asleep (b : Nat) | put (b : Nat)
  deriving DecidableEq, Repr

inductive MPc | idle | ldFut | stFut | wake | put | fin
  deriving DecidableEq, Repr

structure BState where
  base    : State
  bpc     : Nat → BPc
  nextB   : Nat
  caller  : Nat → Nat
  cnt     : Nat → Int            -- completion->barrier_count
  fut     : Nat → Int            -- completion->futex
  ref     : Nat → Int            -- completion->ref
  bfreed  : Nat → Bool
  cov     : Nat → Nat → Bool     -- ghost
  hs      : Nat → List Nat       -- ghost: helpers that got / will get a marker
  todo    : Nat → List Nat       -- helpers still to be given a marker (list iteration)
  mid     : Nat → Nat → Nat      -- ghost: id of the marker of barrier b queued on helper h
  inited  : Nat → Bool
  mdone   : Nat → Nat → Bool
  mput    : Nat → Nat → Bool
  cput    : Nat → Bool           -- the caller dropped its reference
  mpc     : Nat → MPc
  mrun    : Nat → Option (Nat × Nat)   -- ghost: (barrier, helper) tag of the marker callback helper h is running (= `curMark`)
  returned : Nat → Bool
  uaf     : Bool
  refused : Nat

def binit : BState :=
  { base := init, bpc := fun _ => .idle, nextB := 0, caller := fun _ => 0, cnt := fun _ => 0, fut := fun _ => 0,
    ref := fun _ => 0, bfreed := fun _ => false, cov := fun _ _ => false, hs := fun _ => [], todo := fun _ => [], mid := fun _ _ => 0,
    inited := fun _ => false, mdone := fun _ _ => false, mput := fun _ _ => false, cput := fun _ => false,
    mpc := fun _ => .idle, mrun := fun _ => none, returned := fun _ => false, uaf := false, refused := 0 }

inductive BLabel
  | base (l : Label)
  | bRefused (t : Nat) | bCall (t : Nat) | bLock (t : Nat) | bInit (t : Nat) | bEnq (t id h : Nat) | bUnlock (t : Nat)
  | bDec (t : Nat) | bLdCnt (t : Nat) | bWaitLd (t : Nat) | bWaitFx (t : Nat) (o : FOut) | bSpurious (t : Nat) | bPut (t : Nat)
  | mSub (h : Nat) | mLdFut (h : Nat) | mStFut (h : Nat) | mWake (h : Nat) | mPut (h : Nat)
  deriving DecidableEq, Repr

/-- hooks are not available to the environment of this layer -/
def Label.isHook : Label → Bool
  | .extBegin _ | .extEnd _ | .extLock _ | .extUnlock _ | .extCall _ _ _ _ | .envPause _ _ => true
  | _ => false

def upd2 (f : Nat → Nat → Bool) (b h : Nat) (v : Bool) : Nat → Nat → Bool :=
  fun b' h' => if b' = b ∧ h' = h then v else f b' h'

/-- the marker callback running on helper `h`, if any -/
def curMark (s : State) (h : Nat) : Option (Nat × Nat) :=
  match s.cur h with
  | some id => if s.hpc h = .run then s.mark id else none
  | none => none

def bstep (c : Cfg) (s : BState) : BLabel → Option BState
  | .base l =>
    if l.isHook = true then none else
    match l with
    | .hRunBegin h cb =>
      match step c s.base l with
      | some b' => some { s with base := b', mrun := upd s.mrun h (s.base.mark cb) }
      | none => none
    | .hRunEnd h =>
      -- `_rcu_barrier_complete` has to be done before the helper goes on
      if (s.mrun h).isSome = true ∧ s.mpc h ≠ .fin then none else
      match step c s.base l with
      | some b' => some { s with base := b', mpc := upd s.mpc h .idle, mrun := upd s.mrun h none }
      | none => none
    | _ =>
      match step c s.base l with
      | some b' => some { s with base := b' }
      | none => none
  | .bRefused t =>
    if t < c.n ∧ s.base.tpc t = .idle ∧ 0 < s.base.nest t then some { s with refused := s.refused + 1 } else none
  | .bCall t =>
    if t < c.n ∧ s.base.nest t = 0 ∧ s.bpc t = .idle then
      match step c s.base (.extBegin t) with
      | some b' =>
        some { s with base := b', bpc := upd s.bpc t (.lock s.nextB), nextB := s.nextB + 1,
                      caller := upd s.caller s.nextB t,
                      cov := fun b id => if b = s.nextB then (s.base.loc id).queued else s.cov b id }
      | none => none
    else none
  | .bLock t =>
    match s.bpc t with
    | .lock b =>
      match step c s.base (.extLock t) with
      | some b' => some { s with base := b', bpc := upd s.bpc t (.init b) }
      | none => none
    | _ => none
  | .bInit t =>
    match s.bpc t with
    | .init b =>
      some { s with bpc := upd s.bpc t (.loop b), hs := upd s.hs b s.base.list, todo := upd s.todo b s.base.list,
                    inited := upd s.inited b true,
                    cnt := upd s.cnt b s.base.list.length, ref := upd s.ref b (s.base.list.length + 1),
                    uaf := s.uaf || s.bfreed b }
    | _ => none
  | .bEnq t id h =>
    match s.bpc t with
    | .loop b =>
      if (s.todo b).head? = some h then
        match step c s.base (.extCall t id b h) with
        | some b' => some { s with base := b', todo := upd s.todo b (s.todo b).tail, mid := fun b' h' => if b' = b ∧ h' = h then id else s.mid b' h' }
        | none => none
      else none
    | _ => none
  | .bUnlock t =>
    match s.bpc t with
    | .loop b =>
      if s.todo b = [] then
        match step c s.base (.extUnlock t) with
        | some b' => some { s with base := b', bpc := upd s.bpc t (.dec b) }
        | none => none
      else none
    | _ => none
  | .bDec t =>
    match s.bpc t with
    | .dec b => some { s with bpc := upd s.bpc t (.ldCnt b), fut := upd s.fut b (s.fut b - 1), uaf := s.uaf || s.bfreed b }
    | _ => none
  | .bLdCnt t =>
    match s.bpc t with
    | .ldCnt b => some { s with bpc := upd s.bpc t (if s.cnt b = 0 then .put b else .waitLd b), uaf := s.uaf || s.bfreed b }
    | _ => none
  | .bWaitLd t =>
    match s.bpc t with
    | .waitLd b => some { s with bpc := upd s.bpc t (if s.fut b = -1 then .waitFx b else .dec b), uaf := s.uaf || s.bfreed b }
    | _ => none
  | .bWaitFx t o =>
    match s.bpc t with
    | .waitFx b =>
      match o with
      | .sleep => if s.fut b = -1 then some { s with bpc := upd s.bpc t (.asleep b), uaf := s.uaf || s.bfreed b } else none
      | .eagain => if s.fut b ≠ -1 then some { s with bpc := upd s.bpc t (.dec b), uaf := s.uaf || s.bfreed b } else none
      | .eintr => some { s with bpc := upd s.bpc t (.waitLd b) }
      | .spurious => some { s with bpc := upd s.bpc t (.waitLd b) }
    | _ => none
  | .bSpurious t =>
    match s.bpc t with
    | .asleep b => some { s with bpc := upd s.bpc t (.waitLd b) }
    | _ => none
  | .bPut t =>
    match s.bpc t with
    | .put b =>
      match step c s.base (.extEnd t) with
      | some b' =>
        some { s with base := b', bpc := upd s.bpc t .idle, ref := upd s.ref b (s.ref b - 1), cput := upd s.cput b true,
                      bfreed := if s.ref b - 1 = 0 then upd s.bfreed b true else s.bfreed,
                      returned := upd s.returned b true, uaf := s.uaf || s.bfreed b }
      | none => none
    | _ => none
  -- ---------------------------------------------------------------- _rcu_barrier_complete on helper h
  | .mSub h =>
    match s.mrun h with
    | some (b, h') =>
      if s.mpc h = .idle then
        some { s with cnt := upd s.cnt b (s.cnt b - 1), mdone := upd2 s.mdone b h' true,
                      mpc := upd s.mpc h (if s.cnt b - 1 = 0 then .ldFut else .put), uaf := s.uaf || s.bfreed b }
      else none
    | none => none
  | .mLdFut h =>
    match s.mrun h with
    | some (b, _) =>
      if s.mpc h = .ldFut then
        some { s with mpc := upd s.mpc h (if s.fut b = -1 then .stFut else .put), uaf := s.uaf || s.bfreed b }
      else none
    | none => none
  | .mStFut h =>
    match s.mrun h with
    | some (b, _) =>
      if s.mpc h = .stFut then some { s with mpc := upd s.mpc h .wake, fut := upd s.fut b 0, uaf := s.uaf || s.bfreed b } else none
    | none => none
  | .mWake h =>
    match s.mrun h with
    | some (b, _) =>
      if s.mpc h = .wake then
        some { s with mpc := upd s.mpc h .put,
                      bpc := if s.bpc (s.caller b) = .asleep b then upd s.bpc (s.caller b) (.waitLd b) else s.bpc }
      else none
    | none => none
  | .mPut h =>
    match s.mrun h with
    | some (b, h') =>
      if s.mpc h = .put then
        some { s with mpc := upd s.mpc h .fin, ref := upd s.ref b (s.ref b - 1), mput := upd2 s.mput b h' true,
                      bfreed := if s.ref b - 1 = 0 then upd s.bfreed b true else s.bfreed, uaf := s.uaf || s.bfreed b }
      else none
    | none => none

inductive BReach (c : Cfg) : BState → Prop
  | init : BReach c binit
  | step {s s' l} : BReach c s → bstep c s l = some s' → BReach c s'

def brun (c : Cfg) : BState → List BLabel → Option BState
  | s, [] => some s
  | s, l :: ls => match bstep c s l with
    | none => none
    | some s' => brun c s' ls

end UrcuVerif.CallRcu
