import UrcuVerif.CallRcu.InvD
/-!
# C03 — the sleep / wake-up protocol between a call_rcu helper and the threads that give it work
(helper lemmas; statements `helper_no_lost_wakeup`, `helper_futex_range` in `Props/C03.lean`)

helper (`call_rcu_thread`, not RT):  `uatomic_dec(&futex)` (0 → -1) ; mb ; … splice, grace period, invoke … ;
    load flags (STOP?) ; `cds_wfcq_empty()` ; if empty: `call_rcu_wait`: mb ; while `futex == -1`: `FUTEX_WAIT(-1)`
    (sleeps only if the value still is -1) ; poll ; `uatomic_dec(&futex)` ; mb ; again.
waker (`_call_rcu` by `call_rcu()` / `rcu_barrier()`, the splice of `call_rcu_data_free`, the STOP request):
    make the condition true (`xchg` of the queue tail / `lock or` on the flags – locked instructions, globally
    visible at once) ; `uatomic_inc(&qlen)` ; load flags (RT?) ; mb ; load futex ; if -1: `futex := 0` ; `FUTEX_WAKE`.

The only plain store is the waker's `futex := 0`.  On x86-TSO it sits in the waker's store buffer until
it is flushed, at the latest by the `FUTEX_WAKE` system call; the waker performs no access in between.  In the
model the store takes effect at a separate step (`stFutex`) that the scheduler may delay arbitrarily up to the
`wake` step: this is exactly the set of TSO behaviours (commit time of the buffered store = time of `stFutex`).
The stand-alone model `CallRcu/Wake.lean` makes the store buffer explicit and shows the same invariant.

`InvW`: `futex ∈ {0, -1}`, it is 0 whenever the helper is about to decrement it; and whenever the helper is
between its emptiness check and the end of its sleep with `futex = -1` while there is work for it (non-empty
queue or STOP), some thread is still on its way to reset the futex and to wake it; if it sleeps with
`futex = 0`, some thread is about to call `FUTEX_WAKE`.
-/
set_option linter.unusedVariables false
set_option linter.unusedSimpArgs false
namespace UrcuVerif.CallRcu

/-- thread on the wake path towards helper `h` that has not yet tested / reset the futex -/
def TPc.waker : TPc → Option Nat
  | .inc h _ => some h | .ldFlags h _ => some h | .ldFutex h _ => some h | .stFutex h _ => some h
  | .enq _ _ _ => none | .wake _ _ => none
  | .idle => none | .ext => none | .sync => none | .sel _ => none
  | .gdLd _ => none | .gdLock _ => none | .gdCreate _ => none | .gdUnlock _ => none
  | .crRet => none | .opLock _ => none | .opDo _ => none | .opUnlock _ => none
  | .fLdFlags _ => none | .fOrStop _ => none | .fWaitStopped _ => none | .fLock _ => none | .fChk _ => none
  | .fUnlock1 _ => none | .fLock2 _ => none | .fSplice _ => none | .fAddQ _ => none | .fDel _ => none
  | .fJoin _ => none | .fFree _ => none

/-- thread that is about to call `FUTEX_WAKE` on helper `h`'s futex (its `futex := 0` is done / on its way) -/
def TPc.waking : TPc → Option Nat
  | .wake h _ => some h
  | .inc _ _ => none | .ldFlags _ _ => none | .ldFutex _ _ => none | .stFutex _ _ => none
  | .enq _ _ _ => none
  | .idle => none | .ext => none | .sync => none | .sel _ => none
  | .gdLd _ => none | .gdLock _ => none | .gdCreate _ => none | .gdUnlock _ => none
  | .crRet => none | .opLock _ => none | .opDo _ => none | .opUnlock _ => none
  | .fLdFlags _ => none | .fOrStop _ => none | .fWaitStopped _ => none | .fLock _ => none | .fChk _ => none
  | .fUnlock1 _ => none | .fLock2 _ => none | .fSplice _ => none | .fAddQ _ => none | .fDel _ => none
  | .fJoin _ => none | .fFree _ => none

def TPc.isAddQ : TPc → Bool
  | .fAddQ _ => true
  | .wake _ _ => false | .inc _ _ => false | .ldFlags _ _ => false | .ldFutex _ _ => false | .stFutex _ _ => false
  | .enq _ _ _ => false
  | .idle => false | .ext => false | .sync => false | .sel _ => false
  | .gdLd _ => false | .gdLock _ => false | .gdCreate _ => false | .gdUnlock _ => false
  | .crRet => false | .opLock _ => false | .opDo _ => false | .opUnlock _ => false
  | .fLdFlags _ => false | .fOrStop _ => false | .fWaitStopped _ => false | .fLock _ => false | .fChk _ => false
  | .fUnlock1 _ => false | .fLock2 _ => false | .fSplice _ => false | .fDel _ => false
  | .fJoin _ => false | .fFree _ => false

/-- `t` is going to test `h`'s futex and, finding -1, reset it and call `FUTEX_WAKE` -/
def willWake (s : State) (t h : Nat) : Prop :=
  (s.tpc t).waker = some h ∨ ((s.tpc t).isAddQ = true ∧ s.dflt = some h)

/-- helper program points at which `futex` is 0 -/
def HPc.futZero : HPc → Bool
  | .none => true | .start => true | .dec0 => true | .pollW => true | .dec => true | .exitOr => true | .dead => true
  | .top => false | .pausing => false | .paused => false | .splice => false | .gp => false | .inv => false | .run => false
  | .sub => false | .stopchk => false | .emptychk => false | .waitLd => false | .waitFx => false | .asleep => false
  | .pollN => false | .exitSt => false

/-- helper program points from the emptiness check to the end of the sleep -/
def HPc.waitRegion : HPc → Bool
  | .emptychk => true | .waitLd => true | .waitFx => true | .asleep => true
  | .none => false | .start => false | .dec0 => false | .pollW => false | .dec => false | .exitOr => false | .dead => false
  | .top => false | .pausing => false | .paused => false | .splice => false | .gp => false | .inv => false | .run => false
  | .sub => false | .stopchk => false | .pollN => false | .exitSt => false

structure InvW (c : Cfg) (s : State) : Prop where
  w_range : ∀ h, s.futex h = 0 ∨ s.futex h = -1
  w_zero : ∀ h, (s.hpc h).futZero = true → s.futex h = 0
  w_rt : ∀ h, s.rt h = true → s.futex h = 0 ∧ (s.hpc h).waitRegion = false ∧ s.hpc h ≠ .dec0 ∧ s.hpc h ≠ .dec ∧ s.hpc h ≠ .pollW
  w_m1 : ∀ h, (s.hpc h).waitRegion = true → s.futex h = -1 →
    (s.stop h = true ∨ (s.hpc h ≠ .emptychk ∧ s.queue h ≠ [])) → ∃ t, willWake s t h
  w_0 : ∀ h, s.hpc h = .asleep → s.futex h = 0 → ∃ t, (s.tpc t).waking = some h

theorem invW_init (c) : InvW c init := by
  constructor <;> simp [init, HPc.futZero, HPc.waitRegion]

theorem cont_waker (k : K) (h : Nat) : (k.cont h).waker = none := by cases k <;> rfl
theorem cont_waking (k : K) (h : Nat) : (k.cont h).waking = none := by cases k <;> rfl
theorem cont_isAddQ (k : K) (h : Nat) : (k.cont h).isAddQ = false := by cases k <;> rfl
theorem addq_holds {p : TPc} (h : p.isAddQ = true) : p.holds = true := by cases p <;> simp_all [TPc.isAddQ, TPc.holds]
theorem append_ne_nil_r {l m : List Nat} (h : m ≠ []) : l ++ m ≠ [] := by simp [h]

set_option hygiene false in
macro "w_tac" : tactic => `(tactic| (
  have a11 := hA.fresh
  have d2 := hD.f_ok
  have d9 := hD.stopped_dead
  have d11 := hD.holds_mutex
  clear hA hD
  obtain ⟨h1, h2, h3, h4, h5⟩ := h
  simp only [step] at st
  (repeat' split at st)
  all_goals (first | (simp at st; done) | skip)
  all_goals (simp only [Option.some.injEq] at st; subst st)
  all_goals (constructor <;> first | assumption | (simp only [upd, lockS, unlockS, newHelper, relocate, nestOn, csOn, nestOff, willWake, cont_waker, cont_waking, cont_isAddQ] at * <;>
    grind [upd, FOk, TPc.freeing, TPc.holds, TPc.waker, TPc.waking, TPc.isAddQ, HPc.futZero, HPc.waitRegion, K.fr, GK.fr, K.holds,
      cont_waker, cont_waking, cont_isAddQ, append_ne_nil_r, → addq_holds]))))

theorem invw_rlock (c : Cfg) {s s' : State} (hA : InvA c s) (hD : InvD c s) (h : InvW c s) (t : _)
    (st : step c s (.rlock t) = some s') : InvW c s' := by
  w_tac

theorem invw_runlock (c : Cfg) {s s' : State} (hA : InvA c s) (hD : InvD c s) (h : InvW c s) (t : _)
    (st : step c s (.runlock t) = some s') : InvW c s' := by
  w_tac

theorem invw_syncStart (c : Cfg) {s s' : State} (hA : InvA c s) (hD : InvD c s) (h : InvW c s) (t : _)
    (st : step c s (.syncStart t) = some s') : InvW c s' := by
  w_tac

theorem invw_syncEnd (c : Cfg) {s s' : State} (hA : InvA c s) (hD : InvD c s) (h : InvW c s) (t : _)
    (st : step c s (.syncEnd t) = some s') : InvW c s' := by
  w_tac

theorem invw_crCall (c : Cfg) {s s' : State} (hA : InvA c s) (hD : InvD c s) (h : InvW c s) (t id : _)
    (st : step c s (.crCall t id) = some s') : InvW c s' := by
  w_tac

theorem invw_crSelThr (c : Cfg) {s s' : State} (hA : InvA c s) (hD : InvD c s) (h : InvW c s) (t : _)
    (st : step c s (.crSelThr t) = some s') : InvW c s' := by
  w_tac

theorem invw_crSelCpu (c : Cfg) {s s' : State} (hA : InvA c s) (hD : InvD c s) (h : InvW c s) (t cpu : _)
    (st : step c s (.crSelCpu t cpu) = some s') : InvW c s' := by
  w_tac

theorem invw_crSelNoCpu (c : Cfg) {s s' : State} (hA : InvA c s) (hD : InvD c s) (h : InvW c s) (t cpu : _)
    (st : step c s (.crSelNoCpu t cpu) = some s') : InvW c s' := by
  w_tac

theorem invw_gdCall (c : Cfg) {s s' : State} (hA : InvA c s) (hD : InvD c s) (h : InvW c s) (t : _)
    (st : step c s (.gdCall t) = some s') : InvW c s' := by
  w_tac

theorem invw_gdLd (c : Cfg) {s s' : State} (hA : InvA c s) (hD : InvD c s) (h : InvW c s) (t : _)
    (st : step c s (.gdLd t) = some s') : InvW c s' := by
  w_tac

theorem invw_gdLock (c : Cfg) {s s' : State} (hA : InvA c s) (hD : InvD c s) (h : InvW c s) (t : _)
    (st : step c s (.gdLock t) = some s') : InvW c s' := by
  w_tac

theorem invw_gdCreate (c : Cfg) {s s' : State} (hA : InvA c s) (hD : InvD c s) (h : InvW c s) (t : _)
    (st : step c s (.gdCreate t) = some s') : InvW c s' := by
  w_tac

theorem invw_gdUnlock (c : Cfg) {s s' : State} (hA : InvA c s) (hD : InvD c s) (h : InvW c s) (t : _)
    (st : step c s (.gdUnlock t) = some s') : InvW c s' := by
  w_tac

theorem invw_enq (c : Cfg) {s s' : State} (hA : InvA c s) (hD : InvD c s) (h : InvW c s) (t : _)
    (st : step c s (.enq t) = some s') : InvW c s' := by
  w_tac

theorem invw_inc (c : Cfg) {s s' : State} (hA : InvA c s) (hD : InvD c s) (h : InvW c s) (t : _)
    (st : step c s (.inc t) = some s') : InvW c s' := by
  w_tac

theorem invw_ldFlags (c : Cfg) {s s' : State} (hA : InvA c s) (hD : InvD c s) (h : InvW c s) (t : _)
    (st : step c s (.ldFlags t) = some s') : InvW c s' := by
  w_tac

theorem invw_ldFutex (c : Cfg) {s s' : State} (hA : InvA c s) (hD : InvD c s) (h : InvW c s) (t : _)
    (st : step c s (.ldFutex t) = some s') : InvW c s' := by
  w_tac

theorem invw_stFutex (c : Cfg) {s s' : State} (hA : InvA c s) (hD : InvD c s) (h : InvW c s) (t : _)
    (st : step c s (.stFutex t) = some s') : InvW c s' := by
  w_tac

theorem invw_wake (c : Cfg) {s s' : State} (hA : InvA c s) (hD : InvD c s) (h : InvW c s) (t : _)
    (st : step c s (.wake t) = some s') : InvW c s' := by
  w_tac

theorem invw_crRet (c : Cfg) {s s' : State} (hA : InvA c s) (hD : InvD c s) (h : InvW c s) (t : _)
    (st : step c s (.crRet t) = some s') : InvW c s' := by
  w_tac

theorem invw_opCall (c : Cfg) {s s' : State} (hA : InvA c s) (hD : InvD c s) (h : InvW c s) (t op : _)
    (st : step c s (.opCall t op) = some s') : InvW c s' := by
  w_tac

theorem invw_opLock (c : Cfg) {s s' : State} (hA : InvA c s) (hD : InvD c s) (h : InvW c s) (t : _)
    (st : step c s (.opLock t) = some s') : InvW c s' := by
  w_tac

theorem invw_opDo (c : Cfg) {s s' : State} (hA : InvA c s) (hD : InvD c s) (h : InvW c s) (t : _)
    (st : step c s (.opDo t) = some s') : InvW c s' := by
  w_tac

theorem invw_opUnlock (c : Cfg) {s s' : State} (hA : InvA c s) (hD : InvD c s) (h : InvW c s) (t : _)
    (st : step c s (.opUnlock t) = some s') : InvW c s' := by
  w_tac

theorem invw_setThr (c : Cfg) {s s' : State} (hA : InvA c s) (hD : InvD c s) (h : InvW c s) (t ho : _)
    (st : step c s (.setThr t ho) = some s') : InvW c s' := by
  w_tac

theorem invw_fCall (c : Cfg) {s s' : State} (hA : InvA c s) (hD : InvD c s) (h : InvW c s) (t h0 : _)
    (st : step c s (.fCall t h0) = some s') : InvW c s' := by
  w_tac

theorem invw_fLdFlags (c : Cfg) {s s' : State} (hA : InvA c s) (hD : InvD c s) (h : InvW c s) (t : _)
    (st : step c s (.fLdFlags t) = some s') : InvW c s' := by
  w_tac

theorem invw_fOrStop (c : Cfg) {s s' : State} (hA : InvA c s) (hD : InvD c s) (h : InvW c s) (t : _)
    (st : step c s (.fOrStop t) = some s') : InvW c s' := by
  w_tac

theorem invw_fSeeStopped (c : Cfg) {s s' : State} (hA : InvA c s) (hD : InvD c s) (h : InvW c s) (t : _)
    (st : step c s (.fSeeStopped t) = some s') : InvW c s' := by
  w_tac

theorem invw_fLock (c : Cfg) {s s' : State} (hA : InvA c s) (hD : InvD c s) (h : InvW c s) (t : _)
    (st : step c s (.fLock t) = some s') : InvW c s' := by
  w_tac

theorem invw_fChk (c : Cfg) {s s' : State} (hA : InvA c s) (hD : InvD c s) (h : InvW c s) (t : _)
    (st : step c s (.fChk t) = some s') : InvW c s' := by
  w_tac

theorem invw_fUnlock1 (c : Cfg) {s s' : State} (hA : InvA c s) (hD : InvD c s) (h : InvW c s) (t : _)
    (st : step c s (.fUnlock1 t) = some s') : InvW c s' := by
  w_tac

theorem invw_fLock2 (c : Cfg) {s s' : State} (hA : InvA c s) (hD : InvD c s) (h : InvW c s) (t : _)
    (st : step c s (.fLock2 t) = some s') : InvW c s' := by
  w_tac

theorem invw_fSplice (c : Cfg) {s s' : State} (hA : InvA c s) (hD : InvD c s) (h : InvW c s) (t : _)
    (st : step c s (.fSplice t) = some s') : InvW c s' := by
  w_tac

theorem invw_fAddQ (c : Cfg) {s s' : State} (hA : InvA c s) (hD : InvD c s) (h : InvW c s) (t : _)
    (st : step c s (.fAddQ t) = some s') : InvW c s' := by
  w_tac

theorem invw_fDel (c : Cfg) {s s' : State} (hA : InvA c s) (hD : InvD c s) (h : InvW c s) (t : _)
    (st : step c s (.fDel t) = some s') : InvW c s' := by
  w_tac

theorem invw_fJoin (c : Cfg) {s s' : State} (hA : InvA c s) (hD : InvD c s) (h : InvW c s) (t : _)
    (st : step c s (.fJoin t) = some s') : InvW c s' := by
  w_tac

theorem invw_fFree (c : Cfg) {s s' : State} (hA : InvA c s) (hD : InvD c s) (h : InvW c s) (t : _)
    (st : step c s (.fFree t) = some s') : InvW c s' := by
  w_tac

theorem invw_hStart (c : Cfg) {s s' : State} (hA : InvA c s) (hD : InvD c s) (h : InvW c s) (x : _)
    (st : step c s (.hStart x) = some s') : InvW c s' := by
  w_tac

theorem invw_hDec0 (c : Cfg) {s s' : State} (hA : InvA c s) (hD : InvD c s) (h : InvW c s) (x : _)
    (st : step c s (.hDec0 x) = some s') : InvW c s' := by
  w_tac

theorem invw_hTop (c : Cfg) {s s' : State} (hA : InvA c s) (hD : InvD c s) (h : InvW c s) (x : _)
    (st : step c s (.hTop x) = some s') : InvW c s' := by
  w_tac

theorem invw_hPause (c : Cfg) {s s' : State} (hA : InvA c s) (hD : InvD c s) (h : InvW c s) (x : _)
    (st : step c s (.hPause x) = some s') : InvW c s' := by
  w_tac

theorem invw_hUnpause (c : Cfg) {s s' : State} (hA : InvA c s) (hD : InvD c s) (h : InvW c s) (x : _)
    (st : step c s (.hUnpause x) = some s') : InvW c s' := by
  w_tac

theorem invw_hSplice (c : Cfg) {s s' : State} (hA : InvA c s) (hD : InvD c s) (h : InvW c s) (x : _)
    (st : step c s (.hSplice x) = some s') : InvW c s' := by
  w_tac

theorem invw_hGpEnd (c : Cfg) {s s' : State} (hA : InvA c s) (hD : InvD c s) (h : InvW c s) (x : _)
    (st : step c s (.hGpEnd x) = some s') : InvW c s' := by
  w_tac

theorem invw_hRunBegin (c : Cfg) {s s' : State} (hA : InvA c s) (hD : InvD c s) (h : InvW c s) (x cb : _)
    (st : step c s (.hRunBegin x cb) = some s') : InvW c s' := by
  w_tac

theorem invw_hRunEnd (c : Cfg) {s s' : State} (hA : InvA c s) (hD : InvD c s) (h : InvW c s) (x : _)
    (st : step c s (.hRunEnd x) = some s') : InvW c s' := by
  w_tac

theorem invw_hInvDone (c : Cfg) {s s' : State} (hA : InvA c s) (hD : InvD c s) (h : InvW c s) (x : _)
    (st : step c s (.hInvDone x) = some s') : InvW c s' := by
  w_tac

theorem invw_hSub (c : Cfg) {s s' : State} (hA : InvA c s) (hD : InvD c s) (h : InvW c s) (x : _)
    (st : step c s (.hSub x) = some s') : InvW c s' := by
  w_tac

theorem invw_hStopChk (c : Cfg) {s s' : State} (hA : InvA c s) (hD : InvD c s) (h : InvW c s) (x : _)
    (st : step c s (.hStopChk x) = some s') : InvW c s' := by
  w_tac

theorem invw_hEmptyChk (c : Cfg) {s s' : State} (hA : InvA c s) (hD : InvD c s) (h : InvW c s) (x : _)
    (st : step c s (.hEmptyChk x) = some s') : InvW c s' := by
  w_tac

theorem invw_hWaitLd (c : Cfg) {s s' : State} (hA : InvA c s) (hD : InvD c s) (h : InvW c s) (x : _)
    (st : step c s (.hWaitLd x) = some s') : InvW c s' := by
  w_tac

theorem invw_hWaitFx (c : Cfg) {s s' : State} (hA : InvA c s) (hD : InvD c s) (h : InvW c s) (x o : _)
    (st : step c s (.hWaitFx x o) = some s') : InvW c s' := by
  w_tac

theorem invw_hSpurious (c : Cfg) {s s' : State} (hA : InvA c s) (hD : InvD c s) (h : InvW c s) (x : _)
    (st : step c s (.hSpurious x) = some s') : InvW c s' := by
  w_tac

theorem invw_hPollW (c : Cfg) {s s' : State} (hA : InvA c s) (hD : InvD c s) (h : InvW c s) (x : _)
    (st : step c s (.hPollW x) = some s') : InvW c s' := by
  w_tac

theorem invw_hDec (c : Cfg) {s s' : State} (hA : InvA c s) (hD : InvD c s) (h : InvW c s) (x : _)
    (st : step c s (.hDec x) = some s') : InvW c s' := by
  w_tac

theorem invw_hPollN (c : Cfg) {s s' : State} (hA : InvA c s) (hD : InvD c s) (h : InvW c s) (x : _)
    (st : step c s (.hPollN x) = some s') : InvW c s' := by
  w_tac

theorem invw_hExitSt (c : Cfg) {s s' : State} (hA : InvA c s) (hD : InvD c s) (h : InvW c s) (x : _)
    (st : step c s (.hExitSt x) = some s') : InvW c s' := by
  w_tac

theorem invw_hExitOr (c : Cfg) {s s' : State} (hA : InvA c s) (hD : InvD c s) (h : InvW c s) (x : _)
    (st : step c s (.hExitOr x) = some s') : InvW c s' := by
  w_tac

theorem invw_extBegin (c : Cfg) {s s' : State} (hA : InvA c s) (hD : InvD c s) (h : InvW c s) (t : _)
    (st : step c s (.extBegin t) = some s') : InvW c s' := by
  w_tac

theorem invw_extEnd (c : Cfg) {s s' : State} (hA : InvA c s) (hD : InvD c s) (h : InvW c s) (t : _)
    (st : step c s (.extEnd t) = some s') : InvW c s' := by
  w_tac

theorem invw_extLock (c : Cfg) {s s' : State} (hA : InvA c s) (hD : InvD c s) (h : InvW c s) (t : _)
    (st : step c s (.extLock t) = some s') : InvW c s' := by
  w_tac

theorem invw_extUnlock (c : Cfg) {s s' : State} (hA : InvA c s) (hD : InvD c s) (h : InvW c s) (t : _)
    (st : step c s (.extUnlock t) = some s') : InvW c s' := by
  w_tac

theorem invw_extCall (c : Cfg) {s s' : State} (hA : InvA c s) (hD : InvD c s) (h : InvW c s) (t id b h0 : _)
    (st : step c s (.extCall t id b h0) = some s') : InvW c s' := by
  w_tac

theorem invw_envPause (c : Cfg) {s s' : State} (hA : InvA c s) (hD : InvD c s) (h : InvW c s) (x v : _)
    (st : step c s (.envPause x v) = some s') : InvW c s' := by
  w_tac

theorem invw_step (c : Cfg) {s s' : State} {l : Label} (hA : InvA c s) (hD : InvD c s) (h : InvW c s)
    (st : step c s l = some s') : InvW c s' := by
  cases l with
  | rlock t => exact invw_rlock c hA hD h t st
  | runlock t => exact invw_runlock c hA hD h t st
  | syncStart t => exact invw_syncStart c hA hD h t st
  | syncEnd t => exact invw_syncEnd c hA hD h t st
  | crCall t id => exact invw_crCall c hA hD h t id st
  | crSelThr t => exact invw_crSelThr c hA hD h t st
  | crSelCpu t cpu => exact invw_crSelCpu c hA hD h t cpu st
  | crSelNoCpu t cpu => exact invw_crSelNoCpu c hA hD h t cpu st
  | gdCall t => exact invw_gdCall c hA hD h t st
  | gdLd t => exact invw_gdLd c hA hD h t st
  | gdLock t => exact invw_gdLock c hA hD h t st
  | gdCreate t => exact invw_gdCreate c hA hD h t st
  | gdUnlock t => exact invw_gdUnlock c hA hD h t st
  | enq t => exact invw_enq c hA hD h t st
  | inc t => exact invw_inc c hA hD h t st
  | ldFlags t => exact invw_ldFlags c hA hD h t st
  | ldFutex t => exact invw_ldFutex c hA hD h t st
  | stFutex t => exact invw_stFutex c hA hD h t st
  | wake t => exact invw_wake c hA hD h t st
  | crRet t => exact invw_crRet c hA hD h t st
  | opCall t op => exact invw_opCall c hA hD h t op st
  | opLock t => exact invw_opLock c hA hD h t st
  | opDo t => exact invw_opDo c hA hD h t st
  | opUnlock t => exact invw_opUnlock c hA hD h t st
  | setThr t ho => exact invw_setThr c hA hD h t ho st
  | fCall t h0 => exact invw_fCall c hA hD h t h0 st
  | fLdFlags t => exact invw_fLdFlags c hA hD h t st
  | fOrStop t => exact invw_fOrStop c hA hD h t st
  | fSeeStopped t => exact invw_fSeeStopped c hA hD h t st
  | fLock t => exact invw_fLock c hA hD h t st
  | fChk t => exact invw_fChk c hA hD h t st
  | fUnlock1 t => exact invw_fUnlock1 c hA hD h t st
  | fLock2 t => exact invw_fLock2 c hA hD h t st
  | fSplice t => exact invw_fSplice c hA hD h t st
  | fAddQ t => exact invw_fAddQ c hA hD h t st
  | fDel t => exact invw_fDel c hA hD h t st
  | fJoin t => exact invw_fJoin c hA hD h t st
  | fFree t => exact invw_fFree c hA hD h t st
  | hStart x => exact invw_hStart c hA hD h x st
  | hDec0 x => exact invw_hDec0 c hA hD h x st
  | hTop x => exact invw_hTop c hA hD h x st
  | hPause x => exact invw_hPause c hA hD h x st
  | hUnpause x => exact invw_hUnpause c hA hD h x st
  | hSplice x => exact invw_hSplice c hA hD h x st
  | hGpEnd x => exact invw_hGpEnd c hA hD h x st
  | hRunBegin x cb => exact invw_hRunBegin c hA hD h x cb st
  | hRunEnd x => exact invw_hRunEnd c hA hD h x st
  | hInvDone x => exact invw_hInvDone c hA hD h x st
  | hSub x => exact invw_hSub c hA hD h x st
  | hStopChk x => exact invw_hStopChk c hA hD h x st
  | hEmptyChk x => exact invw_hEmptyChk c hA hD h x st
  | hWaitLd x => exact invw_hWaitLd c hA hD h x st
  | hWaitFx x o => exact invw_hWaitFx c hA hD h x o st
  | hSpurious x => exact invw_hSpurious c hA hD h x st
  | hPollW x => exact invw_hPollW c hA hD h x st
  | hDec x => exact invw_hDec c hA hD h x st
  | hPollN x => exact invw_hPollN c hA hD h x st
  | hExitSt x => exact invw_hExitSt c hA hD h x st
  | hExitOr x => exact invw_hExitOr c hA hD h x st
  | extBegin t => exact invw_extBegin c hA hD h t st
  | extEnd t => exact invw_extEnd c hA hD h t st
  | extLock t => exact invw_extLock c hA hD h t st
  | extUnlock t => exact invw_extUnlock c hA hD h t st
  | extCall t id b h0 => exact invw_extCall c hA hD h t id b h0 st
  | envPause x v => exact invw_envPause c hA hD h x v st

end UrcuVerif.CallRcu
