import UrcuVerif.CallRcu.BInvR
import UrcuVerif.CallRcu.BInvJ
/-! C04 — the lifetime invariant holds in every reachable state of the barrier layer (helper lemma). -/
namespace UrcuVerif.CallRcu

theorem binvr_reach (c : Cfg) {s : BState} (h : BReach c s) : BInvR c s := by
  induction h with
  | init => exact binvR_init c
  | step hr st ih =>
    have hs := ball_reach c hr
    obtain ⟨A, -, -, -, -⟩ := reach_d c hs.R
    exact binvr_step c A hs.H hs.P hs.K ih st

end UrcuVerif.CallRcu
