import UrcuVerif.CallRcu.BInvP
import UrcuVerif.CallRcu.Destroy
/-! A small additional invariant needed for the liveness of `rcu_barrier()` (`Props/LiveC04.lean`): who can hold
`call_rcu_mutex`.  Base level: the holder is at a program point that holds the mutex or in the outer-layer mode. -/
set_option linter.unusedSimpArgs false
set_option linter.unusedVariables false
namespace UrcuVerif.CallRcu
open UrcuVerif

/-- the owner of `call_rcu_mutex` is inside a locked block of the call_rcu layer or in an outer-layer operation -/
def InvM0 (s : State) : Prop := ∀ t, s.mutex = some t → (s.tpc t).holds = true ∨ (s.tpc t).extMode = true

theorem invM0_init : InvM0 init := by intro t h; simp [init] at h

theorem cont_holds' (k : K) (h : Nat) : (k.cont h).holds = true ∨ (k.cont h).extMode = true ∨ k.holds = false := by
  cases k <;> simp [K.cont, TPc.holds, TPc.extMode, K.holds]

theorem invM0_step (c : Cfg) {s s' : State} {l : Label} (hD : InvD c s) (h : InvM0 s) (st : step c s l = some s') : InvM0 s' := by
  have d11 := hD.holds_mutex
  unfold InvM0 at *
  cases l <;> simp only [step] at st <;> (repeat' split at st) <;>
    (first | (simp at st; done) | skip) <;>
    simp only [Option.some.injEq] at st <;> subst st <;>
    simp only [upd, lockS, unlockS, newHelper, nestOn, csOn, nestOff] <;>
    grind [TPc.holds, TPc.extMode, K.holds, K.isExt, cont_holds', cont_extMode]

theorem invM0_reach (c : Cfg) {s : State} (h : Reach c s) : InvM0 s := by
  induction h with
  | init => exact invM0_init
  | step r st ih => exact invM0_step c (reach_d c r).2.2.1 ih st

/-- a base step that is not a hook of the outer layer does not create an outer-layer mutex holder -/
theorem base_ext_holder (c : Cfg) {s s' : State} {l : Label} (hl : l.isHook = false) (hM : InvM0 s)
    (st : step c s l = some s') (t : Nat) (hm : s'.mutex = some t) (he : (s'.tpc t).extMode = true) :
    s.mutex = some t ∧ (s.tpc t).extMode = true := by
  unfold InvM0 at hM
  cases l <;> simp only [Label.isHook, reduceCtorEq] at hl <;> simp only [step] at st <;> (repeat' split at st) <;>
    (first | (simp at st; done) | skip) <;>
    simp only [Option.some.injEq] at st <;> subst st <;>
    simp only [upd, lockS, unlockS, newHelper, nestOn, csOn, nestOff] at hm he <;>
    grind [TPc.holds, TPc.extMode, K.holds, K.isExt, cont_holds', cont_extMode]

/-- Barrier level: an outer-layer thread that owns `call_rcu_mutex` is inside the locked part of `rcu_barrier()` -/
def BInvM (s : BState) : Prop :=
  ∀ t, s.base.mutex = some t → (s.base.tpc t).extMode = true → (s.bpc t).locked ≠ none

theorem binvM_init : BInvM binit := by intro t h; simp [binit, init] at h

theorem binvm_step (c : Cfg) {s s' : BState} {l : BLabel} (hM0 : InvM0 s.base) (hP : BInvP c s) (h : BInvM s)
    (st : bstep c s l = some s') : BInvM s' := by
  have p4 := hP.k_ext
  unfold BInvM InvM0 at *
  cases l with
  | base l =>
    intro t hm he
    have key : ∃ b', step c s.base l = some b' ∧ s'.base = b' ∧ s'.bpc = s.bpc ∧ l.isHook = false := by
      simp only [bstep] at st
      (repeat' split at st) <;> (first | (simp at st; done) | skip) <;>
        simp only [Option.some.injEq] at st <;> subst st <;> simp_all
    obtain ⟨b', hb, e1, e2, hh⟩ := key
    rw [e1] at hm he
    have := base_ext_holder c hh hM0 hb t hm he
    rw [e2]; exact h t this.1 this.2
  | _ =>
    simp only [bstep, step] at st
    (repeat' split at st)
    all_goals (first | (simp at st; done) | skip)
    all_goals (simp only [Option.some.injEq] at st; subst st)
    all_goals (try (rename_i hb; (repeat' split at hb); all_goals (first | (simp at hb; done) | skip); all_goals (simp only [Option.some.injEq] at hb; subst hb)))
    all_goals (try (rename_i hb _; (repeat' split at hb); all_goals (first | (simp at hb; done) | skip); all_goals (simp only [Option.some.injEq] at hb; subst hb)))
    all_goals (simp only [upd] <;> grind [TPc.holds, TPc.extMode, BPc.locked])

end UrcuVerif.CallRcu
