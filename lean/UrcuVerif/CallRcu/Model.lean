import UrcuVerif.Machine.Upd
/-!
# C03 — `call_rcu()` and its helper threads (`src/urcu-call-rcu-impl.h`)

Abstract-algorithm level ("L2") executable model: one step per shared-memory access of the C text
that matters (linearisation points, flag updates, futex accesses, mutex operations).  The
event-level transliteration of the C functions in `Driver/CallRcu.lean` ("L1") must match the
event stream of the real code exactly and replays the labels below on `step`.

* helpers `h : Nat` (arbitrarily many, created dynamically: `h < nextH`), each with
  `queue h : List Nat` – the wait-free queue `crdp->cbs` as an abstract FIFO whose enqueue is atomic
  at the `xchg` of the tail (justified by C10; the delayed `old_tail->next` store and the
  dequeuer's busy-wait on it are checked at L1 only), `batch h` – the private list the helper
  spliced out and is going to invoke, `cur h` – the callback being executed, `futex`, the flag
  bits `rt / stop / stopped / pause / paused` of `crdp->flags`, `qlen`;
* threads `t : Nat`: user threads are `t < c.n`, the thread of helper `h` is `c.n + h`;
  per-thread helper pointer `thr t` (`URCU_TLS(thread_call_rcu_data)`), per-CPU array `percpu`
  (`arr` = allocated), `dflt` = `default_call_rcu_data`, `mutex` = `call_rcu_mutex`,
  `list` = `call_rcu_data_list` (same order as the C list: `cds_list_add` = cons);
* qsbr (`Cfg.qsbr`): the helper's thread is online – an open section – from the top of its loop to its
  `rcu_thread_offline()` after the STOP check, offline during its own `synchronize_rcu()`, while it
  sleeps / polls, while paused and after it has unregistered;
* the grace period is the abstract `GpSpec`: `hGpEnd`/`syncEnd` are enabled only when every
  read-side section that began before the corresponding start has ended;
* `call_rcu()` takes the read-side lock (`crCall`), selects the helper (`crSel*`, `gd*` =
  `get_default_call_rcu_data()` with lazy creation under the mutex), enqueues (`enq`), increments
  `qlen` (`inc`), runs `wake_call_rcu_thread()` (`ldFlags`, `ldFutex`, `stFutex`, `wake`) and
  unlocks (`crRet`).  The same `_call_rcu()` steps are used by the outer layers (`rcu_barrier`
  markers, continuation `K.ext`) and the wake path by `_call_rcu_data_free` (`K.fstop`, `K.fdflt`);
* callbacks run on the helper's thread between `hRunBegin` and `hRunEnd`; while one runs the
  helper's thread may execute any user operation (in particular `call_rcu` again);
* callbacks are identified by a number `id` (the `rcu_head`); `mark id = some (b, h)` tags the marker
  work items of `rcu_barrier` (outer layer), all other ids are user callbacks;
* ghost: logical clock, `loc id` (where callback `id` currently is), `enqT`, `invN` (number of
  invocations), `fin`, per-helper logs `enqLog`/`invLog`, `hgp` (start of the helper's grace
  period), `gpDone`, `unpubT` (time a helper was last removed from the per-CPU array), `via`.

User obligations that the API documentation puts on the caller are guards of the corresponding
entry labels and are collected in `FreeObl` / `SetObl` (see `Props/C03.lean`).
-/
namespace UrcuVerif.CallRcu

structure Cfg where
  n : Nat          -- user thread ids are `t < n`; helper `h` runs on thread `n + h`
  ncpu : Nat       -- length of the per-CPU array (`cpus_array_len`)
  /-- QSBR flavor: `rcu_register_thread` / `rcu_thread_online` / `rcu_thread_offline` of the helper threads are not
  no-ops: a registered online thread is an open read-side section since its last quiescent state (it blocks every
  grace period that starts later), so the helper's thread is "inside a section" exactly while it is online -/
  qsbr : Bool := false
  deriving Repr

/-- ghost: where a user callback is -/
inductive Loc | none | pend (t : Nat) | queue (h : Nat) | batch (h : Nat) | run (h : Nat) | done
  deriving DecidableEq, Repr

/-- the callback has been queued and has not finished -/
def Loc.queued : Loc → Bool
  | .queue _ | .batch _ | .run _ => true
  | _ => false

/-- the callback has been invoked -/
def Loc.invoked : Loc → Bool
  | .run _ | .done => true
  | _ => false

inductive Via | thr | cpu | dflt | ext
  deriving DecidableEq, Repr

/-- continuation of `_call_rcu()` / `wake_call_rcu_thread()` -/
inductive K | user | ext | fstop | fdflt (h0 : Nat)
  deriving DecidableEq, Repr

/-- continuation of `get_default_call_rcu_data()` -/
inductive GK | call (id : Nat) | free (h0 : Nat) | ret
  deriving DecidableEq, Repr

/-- operations that run under `call_rcu_mutex` as one block -/
inductive LOp
  | create (rt : Bool)                       -- create_call_rcu_data(flags, _)
  | createIfAbsent (cpu : Nat) (rt : Bool)   -- loop body of create_all_cpu_call_rcu_data
  | setCpu (cpu : Nat) (ho : Option Nat)     -- set_cpu_call_rcu_data(cpu, crdp)
  | allocArr                                 -- alloc_cpu_call_rcu_data()
  | unsetDflt                                -- urcu_call_rcu_exit(): drop the default helper if it is idle
  deriving DecidableEq, Repr

inductive Res | unit | helper (h : Nat) | absent | code (e : Nat)
  deriving DecidableEq, Repr

def EINVAL : Nat := 22
def EEXIST : Nat := 17

/-- user-thread program counter -/
inductive TPc
  | idle | ext | sync
  | sel (id : Nat)
  | gdLd (k : GK) | gdLock (k : GK) | gdCreate (k : GK) | gdUnlock (k : GK)
  | enq (id : Nat) (h : Nat) (k : K) | inc (h : Nat) (k : K)
  | ldFlags (h : Nat) (k : K) | ldFutex (h : Nat) (k : K) | stFutex (h : Nat) (k : K) | wake (h : Nat) (k : K)
  | crRet
  | opLock (op : LOp) | opDo (op : LOp) | opUnlock (r : Res)
  | fLdFlags (h : Nat) | fOrStop (h : Nat) | fWaitStopped (h : Nat) | fLock (h : Nat) | fChk (h : Nat)
  | fUnlock1 (h : Nat) | fLock2 (h : Nat) | fSplice (h : Nat) | fAddQ (h : Nat) | fDel (h : Nat)
  | fJoin (h : Nat) | fFree (h : Nat)
  deriving DecidableEq, Repr

/-- helper-thread program counter (`call_rcu_thread`) -/
inductive HPc
  | none | start | dec0 | top | pausing | paused | splice | gp | inv | run | sub | stopchk | emptychk
  | waitLd | waitFx | asleep | pollW | dec | pollN | exitSt | exitOr | dead
  deriving DecidableEq, Repr

/-- outcome of `futex(FUTEX_WAIT)` chosen by the environment -/
inductive FOut | sleep | eagain | eintr | spurious
  deriving DecidableEq, Repr

structure State where
  -- helpers
  hpc     : Nat → HPc
  queue   : Nat → List Nat
  batch   : Nat → List Nat
  cur     : Nat → Option Nat
  rt      : Nat → Bool
  stop    : Nat → Bool
  stopped : Nat → Bool
  pause   : Nat → Bool
  paused  : Nat → Bool
  futex   : Nat → Int
  qlen    : Nat → Int
  cnt     : Nat → Nat
  nextH   : Nat
  list    : List Nat
  retiring : Nat → Bool
  retired : Nat → Bool
  freed   : Nat → Bool
  -- helper selection
  dflt    : Option Nat
  arr     : Bool
  percpu  : Nat → Option Nat
  thr     : Nat → Option Nat
  mutex   : Option Nat
  -- threads
  tpc     : Nat → TPc
  nest    : Nat → Nat
  cs      : Nat → Nat          -- ghost: begin time of the thread's outermost section (meaningful while nest > 0)
  ugp     : Nat → Nat          -- ghost: start time of the thread's synchronize_rcu() (while at `sync`)
  via     : Nat → Via
  -- ghost
  clock   : Nat
  reg     : Nat → Bool
  loc     : Nat → Loc
  enqT    : Nat → Nat
  invN    : Nat → Nat
  fin     : Nat → Bool
  mark    : Nat → Option (Nat × Nat)   -- ghost: the callback is the marker of barrier b queued on helper h
  hgp     : Nat → Nat          -- start time of the helper's current / last grace period
  gpDone  : Nat
  unpubT  : Nat → Nat
  enqLog  : Nat → List Nat
  invLog  : Nat → List Nat

def init : State :=
  { hpc := fun _ => .none, queue := fun _ => [], batch := fun _ => [], cur := fun _ => none,
    rt := fun _ => false, stop := fun _ => false, stopped := fun _ => false, pause := fun _ => false,
    paused := fun _ => false, futex := fun _ => 0, qlen := fun _ => 0, cnt := fun _ => 0, nextH := 0,
    list := [], retiring := fun _ => false, retired := fun _ => false, freed := fun _ => false,
    dflt := none, arr := false, percpu := fun _ => none, thr := fun _ => none, mutex := none,
    tpc := fun _ => .idle, nest := fun _ => 0, cs := fun _ => 0, ugp := fun _ => 0, via := fun _ => .dflt,
    clock := 1, reg := fun _ => false, loc := fun _ => .none, enqT := fun _ => 0, invN := fun _ => 0,
    fin := fun _ => false, mark := fun _ => none, hgp := fun _ => 0, gpDone := 0, unpubT := fun _ => 0,
    enqLog := fun _ => [], invLog := fun _ => [] }

inductive Label
  -- read-side sections and synchronize_rcu() of any thread
  | rlock (t : Nat) | runlock (t : Nat) | syncStart (t : Nat) | syncEnd (t : Nat)
  -- call_rcu()
  | crCall (t id : Nat) | crSelThr (t : Nat) | crSelCpu (t cpu : Nat) | crSelNoCpu (t cpu : Nat)
  | gdCall (t : Nat) | gdLd (t : Nat) | gdLock (t : Nat) | gdCreate (t : Nat) | gdUnlock (t : Nat)
  | enq (t : Nat) | inc (t : Nat) | ldFlags (t : Nat) | ldFutex (t : Nat) | stFutex (t : Nat) | wake (t : Nat)
  | crRet (t : Nat)
  -- create_call_rcu_data / set_cpu_call_rcu_data / create_all_cpu_call_rcu_data
  | opCall (t : Nat) (op : LOp) | opLock (t : Nat) | opDo (t : Nat) | opUnlock (t : Nat)
  | setThr (t : Nat) (ho : Option Nat)
  -- call_rcu_data_free()
  | fCall (t h : Nat) | fLdFlags (t : Nat) | fOrStop (t : Nat) | fSeeStopped (t : Nat) | fLock (t : Nat)
  | fChk (t : Nat) | fUnlock1 (t : Nat) | fLock2 (t : Nat) | fSplice (t : Nat) | fAddQ (t : Nat)
  | fDel (t : Nat) | fJoin (t : Nat) | fFree (t : Nat)
  -- helper thread
  | hStart (h : Nat) | hDec0 (h : Nat) | hTop (h : Nat) | hPause (h : Nat) | hUnpause (h : Nat)
  | hSplice (h : Nat) | hGpEnd (h : Nat) | hRunBegin (h cb : Nat) | hRunEnd (h : Nat) | hInvDone (h : Nat)
  | hSub (h : Nat) | hStopChk (h : Nat) | hEmptyChk (h : Nat) | hWaitLd (h : Nat) | hWaitFx (h : Nat) (o : FOut)
  | hSpurious (h : Nat) | hPollW (h : Nat) | hDec (h : Nat) | hPollN (h : Nat) | hExitSt (h : Nat) | hExitOr (h : Nat)
  -- hooks for outer layers (rcu_barrier, fork handlers)
  | extBegin (t : Nat) | extEnd (t : Nat) | extLock (t : Nat) | extUnlock (t : Nat) | extCall (t id b h : Nat)
  | envPause (h : Nat) (v : Bool)
  deriving DecidableEq, Repr

/-- number of thread ids in use -/
def nthr (c : Cfg) (s : State) : Nat := c.n + s.nextH

/-- a thread may start a user operation: user threads always, a helper's thread only while it
executes a callback -/
def userCtx (c : Cfg) (s : State) (t : Nat) : Bool :=
  decide (t < c.n) || (decide (t < nthr c s) && decide (s.hpc (t - c.n) = .run))

/-- the helper a thread inside `_call_rcu()` / the wake path is operating on -/
def TPc.tgt : TPc → Option (Nat × K)
  | .enq _ h k => some (h, k) | .inc h k => some (h, k) | .ldFlags h k => some (h, k)
  | .ldFutex h k => some (h, k) | .stFutex h k => some (h, k) | .wake h k => some (h, k)
  | .idle => none | .ext => none | .sync => none | .sel _ => none
  | .gdLd _ => none | .gdLock _ => none | .gdCreate _ => none | .gdUnlock _ => none
  | .crRet => none | .opLock _ => none | .opDo _ => none | .opUnlock _ => none
  | .fLdFlags _ => none | .fOrStop _ => none | .fWaitStopped _ => none | .fLock _ => none | .fChk _ => none
  | .fUnlock1 _ => none | .fLock2 _ => none | .fSplice _ => none | .fAddQ _ => none | .fDel _ => none
  | .fJoin _ => none | .fFree _ => none

/-- the thread is inside a `call_rcu()` that operates on `h` -/
def TPc.tgtUser (p : TPc) (h : Nat) : Bool := p.tgt == some (h, K.user)

/-- the helper a locked operation is going to publish in the per-CPU array -/
def LOp.pub : LOp → Option Nat
  | .setCpu _ (some h) => some h
  | .setCpu _ none => none
  | .create _ => none | .createIfAbsent _ _ => none | .allocArr => none | .unsetDflt => none

/-- the helper a thread inside `set_cpu_call_rcu_data(cpu, h)` is about to publish -/
def TPc.publishing : TPc → Option Nat
  | .opLock op => op.pub
  | .opDo op => op.pub
  | .idle => none | .ext => none | .sync => none | .sel _ => none
  | .gdLd _ => none | .gdLock _ => none | .gdCreate _ => none | .gdUnlock _ => none
  | .enq _ _ _ => none | .inc _ _ => none | .ldFlags _ _ => none | .ldFutex _ _ => none | .stFutex _ _ => none
  | .wake _ _ => none | .crRet => none | .opUnlock _ => none
  | .fLdFlags _ => none | .fOrStop _ => none | .fWaitStopped _ => none | .fLock _ => none | .fChk _ => none
  | .fUnlock1 _ => none | .fLock2 _ => none | .fSplice _ => none | .fAddQ _ => none | .fDel _ => none
  | .fJoin _ => none | .fFree _ => none

/-- **Documented caller obligations of `call_rcu_data_free(h)`**: `h` has been removed from
per-thread use (no thread other than the helper's own has it as its per-thread helper, nor is
still inside a `call_rcu()` that picked it that way), it has been removed from the per-CPU array
and a grace period has elapsed since ("The caller must wait for a grace-period to pass between
return from set_cpu_call_rcu_data() and call to call_rcu_data_free()"), it is not freed twice, and no
thread is in the middle of a `set_cpu_call_rcu_data(cpu, h)` that would publish it again. -/
def FreeObl (c : Cfg) (s : State) (h : Nat) : Prop :=
  (∀ t', t' < nthr c s → t' ≠ c.n + h → s.thr t' ≠ some h ∧ ¬ ((s.tpc t').tgtUser h = true ∧ s.via t' = .thr)) ∧
  (∀ cpu, cpu < c.ncpu → s.percpu cpu ≠ some h) ∧
  (s.unpubT h = 0 ∨ s.unpubT h < s.gpDone) ∧ s.retiring h = false ∧
  (∀ t', t' < nthr c s → (s.tpc t').publishing ≠ some h)

instance (c s h) : Decidable (FreeObl c s h) := by unfold FreeObl; infer_instance

/-- obligation when publishing a helper (per-thread or per-CPU): it exists and
`call_rcu_data_free` has not been called on it -/
def SetObl (s : State) : Option Nat → Prop
  | none => True
  | some h => h < s.nextH ∧ s.retiring h = false

instance (s ho) : Decidable (SetObl s ho) := by unfold SetObl; cases ho <;> infer_instance

/-- obligation on the argument of a locked operation.  `urcu_call_rcu_exit()` is the library
destructor: it runs when every other thread is outside the call_rcu API. -/
def OpObl (c : Cfg) (s : State) (t : Nat) : LOp → Prop
  | .setCpu _ ho => SetObl s ho
  | .unsetDflt => ∀ t', t' < nthr c s → t' ≠ t → s.tpc t' = .idle
  | _ => True

instance (c s t op) : Decidable (OpObl c s t op) := by unfold OpObl; cases op <;> infer_instance

/-- `GpSpec`: a grace period that started at `a` may end only when every read-side section that
began before `a` has ended -/
def gpMayEnd (c : Cfg) (s : State) (a : Nat) : Prop :=
  ∀ t, t < nthr c s → 0 < s.nest t → a ≤ s.cs t

instance (c s a) : Decidable (gpMayEnd c s a) := by
  unfold gpMayEnd
  exact Nat.decidableBallLT _ _

/-- `rcu_read_lock()` of thread `t` -/
def lockS (s : State) (t : Nat) : State :=
  { s with nest := upd s.nest t (s.nest t + 1),
           cs := upd s.cs t (if s.nest t = 0 then s.clock else s.cs t),
           clock := s.clock + 1 }

/-- `rcu_read_unlock()` of thread `t` -/
def unlockS (s : State) (t : Nat) : State :=
  { s with nest := upd s.nest t (s.nest t - 1),
           clock := s.clock + 1 }

/-- qsbr: the thread of helper `h` goes online (`rcu_register_thread`, `rcu_thread_online`, return of its own
`synchronize_rcu`) – `nest` / `cs` of thread `c.n + h` as for `rcu_read_lock()`; an identity update in the other
flavors.  (Always an `upd` with a value computed once: a function-valued `if` would make the compiled `step`
re-evaluate the old function on every look-up.) -/
@[macro_inline] def nestOn (c : Cfg) (s : State) (h : Nat) : Nat → Nat :=
  upd s.nest (c.n + h) (if c.qsbr = true then s.nest (c.n + h) + 1 else s.nest (c.n + h))
@[macro_inline] def csOn (c : Cfg) (s : State) (h : Nat) : Nat → Nat :=
  upd s.cs (c.n + h) (if c.qsbr = true ∧ s.nest (c.n + h) = 0 then s.clock else s.cs (c.n + h))
/-- qsbr: the thread of helper `h` goes offline (`rcu_thread_offline`, `rcu_unregister_thread`, entry of its own
`synchronize_rcu`) -/
@[macro_inline] def nestOff (c : Cfg) (s : State) (h : Nat) : Nat → Nat :=
  upd s.nest (c.n + h) (if c.qsbr = true then s.nest (c.n + h) - 1 else s.nest (c.n + h))

/-- `call_rcu_data_init()`: new helper `nextH`, first in `call_rcu_data_list`, thread spawned -/
def newHelper (s : State) (rt : Bool) : State :=
  { s with hpc := upd s.hpc s.nextH .start, rt := upd s.rt s.nextH rt, list := s.nextH :: s.list,
           nextH := s.nextH + 1 }

/-- where control goes after `wake_call_rcu_thread(h)` -/
def K.cont (k : K) (h : Nat) : TPc :=
  match k with
  | .user => .crRet
  | .ext => .ext
  | .fstop => .fWaitStopped h
  | .fdflt h0 => .fDel h0

/-- every user callback of `l` is relocated to `to` -/
def relocate (loc : Nat → Loc) (frm to : Loc) : Nat → Loc :=
  fun id => if loc id = frm then to else loc id

/-- One step; `none` = not enabled. -/
def step (c : Cfg) (s : State) : Label → Option State
  | .rlock t =>
    if userCtx c s t = true ∧ s.tpc t = .idle then some (lockS s t) else none
  | .runlock t =>
    if userCtx c s t = true ∧ s.tpc t = .idle ∧ 0 < s.nest t then some (unlockS s t) else none
  | .syncStart t =>
    if userCtx c s t = true ∧ s.tpc t = .idle then
      some { s with tpc := upd s.tpc t .sync, ugp := upd s.ugp t s.clock, clock := s.clock + 1 }
    else none
  | .syncEnd t =>
    if s.tpc t = .sync ∧ gpMayEnd c s (s.ugp t) then
      some { s with tpc := upd s.tpc t .idle, gpDone := max s.gpDone (s.ugp t), clock := s.clock + 1 }
    else none
  -- ---------------------------------------------------------------- call_rcu()
  | .crCall t id =>
    if userCtx c s t = true ∧ s.tpc t = .idle ∧ s.reg id = false then
      let s1 := lockS s t
      some { s1 with tpc := upd s.tpc t (.sel id), reg := upd s.reg id true, loc := upd s.loc id (.pend t) }
    else none
  | .crSelThr t =>
    match s.tpc t, s.thr t with
    | .sel id, some h =>
      some { s with tpc := upd s.tpc t (.enq id h .user), via := upd s.via t .thr, clock := s.clock + 1 }
    | _, _ => none
  | .crSelCpu t cpu =>
    match s.tpc t, s.thr t, s.percpu cpu with
    | .sel id, none, some h =>
      if s.arr = true ∧ cpu < c.ncpu then
        some { s with tpc := upd s.tpc t (.enq id h .user), via := upd s.via t .cpu, clock := s.clock + 1 }
      else none
    | _, _, _ => none
  | .crSelNoCpu t cpu =>
    match s.tpc t, s.thr t with
    | .sel id, none =>
      if s.arr = false ∨ c.ncpu ≤ cpu ∨ s.percpu cpu = none then
        some { s with tpc := upd s.tpc t (.gdLd (.call id)), clock := s.clock + 1 }
      else none
    | _, _ => none
  | .gdCall t =>
    if userCtx c s t = true ∧ s.tpc t = .idle then some { s with tpc := upd s.tpc t (.gdLd .ret), clock := s.clock + 1 } else none
  | .gdLd t =>
    match s.tpc t with
    | .gdLd k =>
      match s.dflt with
      | some d =>
        match k with
        | .call id => some { s with tpc := upd s.tpc t (.enq id d .user), via := upd s.via t .dflt, clock := s.clock + 1 }
        | .free h0 => some { s with tpc := upd s.tpc t (.fLock2 h0), clock := s.clock + 1 }
        | .ret => some { s with tpc := upd s.tpc t .idle, clock := s.clock + 1 }
      | none => some { s with tpc := upd s.tpc t (.gdLock k), clock := s.clock + 1 }
    | _ => none
  | .gdLock t =>
    match s.tpc t with
    | .gdLock k =>
      if s.mutex = none then some { s with tpc := upd s.tpc t (.gdCreate k), mutex := some t, clock := s.clock + 1 } else none
    | _ => none
  | .gdCreate t =>
    match s.tpc t with
    | .gdCreate k =>
      match s.dflt with
      | some _ => some { s with tpc := upd s.tpc t (.gdUnlock k), clock := s.clock + 1 }
      | none =>
        let s1 := newHelper s false
        some { s1 with tpc := upd s.tpc t (.gdUnlock k), dflt := some s.nextH, clock := s.clock + 1 }
    | _ => none
  | .gdUnlock t =>
    match s.tpc t, s.dflt with
    | .gdUnlock k, some d =>
      if s.mutex = some t then
        match k with
        | .call id => some { s with mutex := none, tpc := upd s.tpc t (.enq id d .user), via := upd s.via t .dflt, clock := s.clock + 1 }
        | .free h0 => some { s with mutex := none, tpc := upd s.tpc t (.fLock2 h0), clock := s.clock + 1 }
        | .ret => some { s with mutex := none, tpc := upd s.tpc t .idle, clock := s.clock + 1 }
      else none
    | _, _ => none
  | .enq t =>
    match s.tpc t with
    | .enq id h k =>
      some { s with tpc := upd s.tpc t (.inc h k), queue := upd s.queue h (s.queue h ++ [id]),
                    enqLog := upd s.enqLog h (s.enqLog h ++ [id]),
                    loc := upd s.loc id (.queue h), enqT := upd s.enqT id s.clock, clock := s.clock + 1 }
    | _ => none
  | .inc t =>
    match s.tpc t with
    | .inc h k => some { s with tpc := upd s.tpc t (.ldFlags h k), qlen := upd s.qlen h (s.qlen h + 1), clock := s.clock + 1 }
    | _ => none
  | .ldFlags t =>
    match s.tpc t with
    | .ldFlags h k =>
      some { s with tpc := upd s.tpc t (if s.rt h then k.cont h else .ldFutex h k), clock := s.clock + 1 }
    | _ => none
  | .ldFutex t =>
    match s.tpc t with
    | .ldFutex h k =>
      some { s with tpc := upd s.tpc t (if s.futex h = -1 then .stFutex h k else k.cont h), clock := s.clock + 1 }
    | _ => none
  | .stFutex t =>
    match s.tpc t with
    | .stFutex h k => some { s with tpc := upd s.tpc t (.wake h k), futex := upd s.futex h 0, clock := s.clock + 1 }
    | _ => none
  | .wake t =>
    match s.tpc t with
    | .wake h k =>
      some { s with tpc := upd s.tpc t (k.cont h),
                    hpc := if s.hpc h = .asleep then upd s.hpc h .waitLd else s.hpc, clock := s.clock + 1 }
    | _ => none
  | .crRet t =>
    if s.tpc t = .crRet then
      let s1 := unlockS s t
      some { s1 with tpc := upd s.tpc t .idle }
    else none
  -- ---------------------------------------------------------------- operations under the mutex
  | .opCall t op =>
    if userCtx c s t = true ∧ s.tpc t = .idle ∧ OpObl c s t op then
      some { s with tpc := upd s.tpc t (.opLock op), clock := s.clock + 1 }
    else none
  | .opLock t =>
    match s.tpc t with
    | .opLock op =>
      if s.mutex = none then some { s with tpc := upd s.tpc t (.opDo op), mutex := some t, clock := s.clock + 1 } else none
    | _ => none
  | .opDo t =>
    match s.tpc t with
    | .opDo (.create rt) =>
      let s1 := newHelper s rt
      some { s1 with tpc := upd s.tpc t (.opUnlock (.helper s.nextH)), clock := s.clock + 1 }
    | .opDo (.createIfAbsent cpu rt) =>
      if s.arr = true ∧ cpu < c.ncpu ∧ s.percpu cpu ≠ none then
        some { s with tpc := upd s.tpc t (.opUnlock .absent), clock := s.clock + 1 }
      else
        let s1 := newHelper s rt
        some { s1 with tpc := upd s.tpc t (.opUnlock (.helper s.nextH)), clock := s.clock + 1 }
    | .opDo (.setCpu cpu ho) =>
      if c.ncpu ≤ cpu then
        some { s with arr := true, tpc := upd s.tpc t (.opUnlock (.code EINVAL)), clock := s.clock + 1 }
      else if s.percpu cpu ≠ none ∧ ho ≠ none then
        some { s with arr := true, tpc := upd s.tpc t (.opUnlock (.code EEXIST)), clock := s.clock + 1 }
      else
        some { s with arr := true, tpc := upd s.tpc t (.opUnlock (.code 0)), percpu := upd s.percpu cpu ho,
                      unpubT := (match s.percpu cpu with | some h => upd s.unpubT h s.clock | none => s.unpubT),
                      clock := s.clock + 1 }
    | .opDo .allocArr =>
      some { s with arr := true, tpc := upd s.tpc t (.opUnlock .unit), clock := s.clock + 1 }
    | .opDo .unsetDflt =>
      match s.dflt with
      | some d =>
        if s.queue d = [] then
          some { s with dflt := none, unpubT := upd s.unpubT d s.clock, tpc := upd s.tpc t (.opUnlock (.helper d)), clock := s.clock + 1 }
        else some { s with tpc := upd s.tpc t (.opUnlock .absent), clock := s.clock + 1 }
      | none => some { s with tpc := upd s.tpc t (.opUnlock .absent), clock := s.clock + 1 }
    | _ => none
  | .opUnlock t =>
    match s.tpc t with
    | .opUnlock _ =>
      if s.mutex = some t then some { s with tpc := upd s.tpc t .idle, mutex := none, clock := s.clock + 1 } else none
    | _ => none
  | .setThr t ho =>
    if userCtx c s t = true ∧ s.tpc t = .idle ∧ SetObl s ho then
      some { s with thr := upd s.thr t ho, clock := s.clock + 1 }
    else none
  -- ---------------------------------------------------------------- call_rcu_data_free(h)
  | .fCall t h =>
    if userCtx c s t = true ∧ s.tpc t = .idle ∧ s.nest t = 0 ∧ h < s.nextH ∧ FreeObl c s h then
      if s.dflt = some h then some { s with clock := s.clock + 1 }      -- silently refused
      else some { s with tpc := upd s.tpc t (.fLdFlags h), retiring := upd s.retiring h true, clock := s.clock + 1 }
    else none
  | .fLdFlags t =>
    match s.tpc t with
    | .fLdFlags h =>
      some { s with tpc := upd s.tpc t (if s.stopped h then .fLock h else .fOrStop h), clock := s.clock + 1 }
    | _ => none
  | .fOrStop t =>
    match s.tpc t with
    | .fOrStop h => some { s with tpc := upd s.tpc t (.ldFlags h .fstop), stop := upd s.stop h true, clock := s.clock + 1 }
    | _ => none
  | .fSeeStopped t =>
    match s.tpc t with
    | .fWaitStopped h =>
      if s.stopped h = true then some { s with tpc := upd s.tpc t (.fLock h), clock := s.clock + 1 } else none
    | _ => none
  | .fLock t =>
    match s.tpc t with
    | .fLock h =>
      if s.mutex = none then some { s with tpc := upd s.tpc t (.fChk h), mutex := some t, clock := s.clock + 1 } else none
    | _ => none
  | .fChk t =>
    match s.tpc t with
    | .fChk h =>
      if s.queue h = [] then
        some { s with tpc := upd s.tpc t (.fDel h), retired := upd s.retired h true, clock := s.clock + 1 }
      else some { s with tpc := upd s.tpc t (.fUnlock1 h), clock := s.clock + 1 }
    | _ => none
  | .fUnlock1 t =>
    match s.tpc t with
    | .fUnlock1 h =>
      if s.mutex = some t then some { s with tpc := upd s.tpc t (.gdLd (.free h)), mutex := none, clock := s.clock + 1 } else none
    | _ => none
  | .fLock2 t =>
    match s.tpc t with
    | .fLock2 h =>
      if s.mutex = none then some { s with tpc := upd s.tpc t (.fSplice h), mutex := some t, clock := s.clock + 1 } else none
    | _ => none
  | .fSplice t =>
    match s.tpc t, s.dflt with
    | .fSplice h, some d =>
      if d ≠ h then
        some { s with tpc := upd s.tpc t (.fAddQ h),
                      queue := upd (upd s.queue d (s.queue d ++ s.queue h)) h [],
                      enqLog := upd s.enqLog d (s.enqLog d ++ s.queue h),
                      loc := relocate s.loc (.queue h) (.queue d),
                      retired := upd s.retired h true, clock := s.clock + 1 }
      else none
    | _, _ => none
  | .fAddQ t =>
    match s.tpc t, s.dflt with
    | .fAddQ h, some d =>
      some { s with tpc := upd s.tpc t (.ldFlags d (.fdflt h)), qlen := upd s.qlen d (s.qlen d + s.qlen h), clock := s.clock + 1 }
    | _, _ => none
  | .fDel t =>
    match s.tpc t with
    | .fDel h =>
      if s.mutex = some t then
        some { s with tpc := upd s.tpc t (.fJoin h), list := s.list.erase h, mutex := none, clock := s.clock + 1 }
      else none
    | _ => none
  | .fJoin t =>
    match s.tpc t with
    | .fJoin h =>
      if s.hpc h = .dead then some { s with tpc := upd s.tpc t (.fFree h), clock := s.clock + 1 } else none
    | _ => none
  | .fFree t =>
    match s.tpc t with
    | .fFree h => some { s with tpc := upd s.tpc t .idle, freed := upd s.freed h true, clock := s.clock + 1 }
    | _ => none
  -- ---------------------------------------------------------------- helper thread
  | .hStart h =>
    if s.hpc h = .start then
      some { s with hpc := upd s.hpc h (if s.rt h then .top else .dec0), thr := upd s.thr (c.n + h) (some h), clock := s.clock + 1 }
    else none
  | .hDec0 h =>
    if s.hpc h = .dec0 then some { s with hpc := upd s.hpc h .top, futex := upd s.futex h (s.futex h - 1), clock := s.clock + 1 } else none
  | .hTop h =>
    -- top of the loop; qsbr: the helper is online here (after `rcu_register_thread()` / `rcu_thread_online()`)
    if s.hpc h = .top then
      some { s with hpc := upd s.hpc h (if s.pause h then .pausing else .splice),
                    nest := upd s.nest (c.n + h) (if c.qsbr = true ∧ s.nest (c.n + h) = 0 then 1 else s.nest (c.n + h)),
                    cs := csOn c s h, clock := s.clock + 1 }
    else none
  | .hPause h =>
    if s.hpc h = .pausing then
      some { s with hpc := upd s.hpc h .paused, paused := upd s.paused h true, nest := nestOff c s h, clock := s.clock + 1 }
    else none
  | .hUnpause h =>
    if s.hpc h = .paused ∧ s.pause h = false then
      some { s with hpc := upd s.hpc h .splice, paused := upd s.paused h false, nest := nestOn c s h, cs := csOn c s h,
                    clock := s.clock + 1 }
    else none
  | .hSplice h =>
    if s.hpc h = .splice then
      if s.queue h = [] then some { s with hpc := upd s.hpc h .stopchk, clock := s.clock + 1 }
      else
        some { s with hpc := upd s.hpc h .gp, batch := upd s.batch h (s.queue h), queue := upd s.queue h [],
                      loc := relocate s.loc (.queue h) (.batch h), hgp := upd s.hgp h s.clock,
                      cnt := upd s.cnt h 0, nest := nestOff c s h, clock := s.clock + 1 }
    else none
  | .hGpEnd h =>
    if s.hpc h = .gp ∧ gpMayEnd c s (s.hgp h) then
      some { s with hpc := upd s.hpc h .inv, gpDone := max s.gpDone (s.hgp h), nest := nestOn c s h, cs := csOn c s h,
                    clock := s.clock + 1 }
    else none
  | .hRunBegin h cb =>
    -- `cb` must be the first callback of the batch (`__cds_wfcq_for_each_blocking_safe` order)
    if s.hpc h = .inv ∧ (s.batch h).head? = some cb then
      some { s with hpc := upd s.hpc h .run, batch := upd s.batch h (s.batch h).tail, cur := upd s.cur h (some cb),
                    invLog := upd s.invLog h (s.invLog h ++ [cb]),
                    loc := upd s.loc cb (.run h), invN := upd s.invN cb (s.invN cb + 1), clock := s.clock + 1 }
    else none
  | .hRunEnd h =>
    match s.cur h with
    | some cb =>
      if s.hpc h = .run ∧ s.tpc (c.n + h) = .idle then
        some { s with hpc := upd s.hpc h .inv, cur := upd s.cur h none, cnt := upd s.cnt h (s.cnt h + 1),
                      loc := upd s.loc cb .done, fin := upd s.fin cb true, clock := s.clock + 1 }
      else none
    | none => none
  | .hInvDone h =>
    if s.hpc h = .inv ∧ s.batch h = [] then some { s with hpc := upd s.hpc h .sub, clock := s.clock + 1 } else none
  | .hSub h =>
    if s.hpc h = .sub then
      some { s with hpc := upd s.hpc h .stopchk, qlen := upd s.qlen h (s.qlen h - s.cnt h), clock := s.clock + 1 }
    else none
  | .hStopChk h =>
    if s.hpc h = .stopchk then
      -- not stopping: `rcu_thread_offline()` before the emptiness check / the sleep / the poll
      some { s with hpc := upd s.hpc h (if s.stop h then (if s.rt h then .exitOr else .exitSt)
                                         else (if s.rt h then .pollN else .emptychk)),
                    nest := upd s.nest (c.n + h) (if c.qsbr = true ∧ s.stop h = false then s.nest (c.n + h) - 1 else s.nest (c.n + h)),
                    clock := s.clock + 1 }
    else none
  | .hEmptyChk h =>
    if s.hpc h = .emptychk then
      some { s with hpc := upd s.hpc h (if s.queue h = [] then .waitLd else .pollN), clock := s.clock + 1 }
    else none
  | .hWaitLd h =>
    if s.hpc h = .waitLd then
      some { s with hpc := upd s.hpc h (if s.futex h = -1 then .waitFx else .pollW), clock := s.clock + 1 }
    else none
  | .hWaitFx h o =>
    if s.hpc h = .waitFx then
      match o with
      | .sleep => if s.futex h = -1 then some { s with hpc := upd s.hpc h .asleep, clock := s.clock + 1 } else none
      | .eagain => if s.futex h ≠ -1 then some { s with hpc := upd s.hpc h .pollW, clock := s.clock + 1 } else none
      | .eintr => some { s with hpc := upd s.hpc h .waitLd, clock := s.clock + 1 }
      | .spurious => some { s with hpc := upd s.hpc h .waitLd, clock := s.clock + 1 }
    else none
  | .hSpurious h =>
    if s.hpc h = .asleep then some { s with hpc := upd s.hpc h .waitLd, clock := s.clock + 1 } else none
  | .hPollW h =>
    if s.hpc h = .pollW then some { s with hpc := upd s.hpc h .dec, clock := s.clock + 1 } else none
  | .hDec h =>
    if s.hpc h = .dec then some { s with hpc := upd s.hpc h .top, futex := upd s.futex h (s.futex h - 1), clock := s.clock + 1 } else none
  | .hPollN h =>
    if s.hpc h = .pollN then some { s with hpc := upd s.hpc h .top, clock := s.clock + 1 } else none
  | .hExitSt h =>
    if s.hpc h = .exitSt then some { s with hpc := upd s.hpc h .exitOr, futex := upd s.futex h 0, clock := s.clock + 1 } else none
  | .hExitOr h =>
    if s.hpc h = .exitOr then
      some { s with hpc := upd s.hpc h .dead, stopped := upd s.stopped h true, nest := nestOff c s h, clock := s.clock + 1 }
    else none
  -- ---------------------------------------------------------------- hooks for outer layers
  | .extBegin t =>
    if userCtx c s t = true ∧ s.tpc t = .idle then some { s with tpc := upd s.tpc t .ext, clock := s.clock + 1 } else none
  | .extEnd t =>
    if s.tpc t = .ext ∧ s.mutex ≠ some t then some { s with tpc := upd s.tpc t .idle, clock := s.clock + 1 } else none
  | .extLock t =>
    if s.tpc t = .ext ∧ s.mutex = none then some { s with mutex := some t, clock := s.clock + 1 } else none
  | .extUnlock t =>
    if s.tpc t = .ext ∧ s.mutex = some t then some { s with mutex := none, clock := s.clock + 1 } else none
  | .extCall t id b h =>
    if s.tpc t = .ext ∧ s.mutex = some t ∧ h ∈ s.list ∧ s.reg id = false then
      some { s with tpc := upd s.tpc t (.enq id h .ext), via := upd s.via t .ext, reg := upd s.reg id true,
                    loc := upd s.loc id (.pend t), mark := upd s.mark id (some (b, h)), clock := s.clock + 1 }
    else none
  | .envPause h v =>
    -- fork handlers (C16): `call_rcu_before_fork` / `call_rcu_after_fork_parent` flip PAUSE under the mutex
    match s.mutex with
    | some t => if s.tpc t = .ext then some { s with pause := upd s.pause h v, clock := s.clock + 1 } else none
    | none => none

inductive Reach (c : Cfg) : State → Prop
  | init : Reach c init
  | step {s s' l} : Reach c s → step c s l = some s' → Reach c s'

def run (c : Cfg) : State → List Label → Option State
  | s, [] => some s
  | s, l :: ls => match step c s l with
    | none => none
    | some s' => run c s' ls

/-- the callbacks helper `h` still has to execute, in the order it will execute them -/
def pend (s : State) (h : Nat) : List Nat :=
  (match s.cur h with | some cb => [cb] | none => []) ++ s.batch h ++ s.queue h

end UrcuVerif.CallRcu
