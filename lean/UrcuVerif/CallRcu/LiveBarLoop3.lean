import UrcuVerif.CallRcu.LiveBarRun
/-! Step-level lemmas: the lock acquisition of `rcu_barrier()`, its wait loop, the stability of marker tags. -/
set_option linter.unusedSimpArgs false
set_option linter.unusedVariables false
namespace UrcuVerif.CallRcu
open UrcuVerif UrcuVerif.Fair

/-- the only step of its own a caller waiting for `call_rcu_mutex` can take is the acquisition -/
theorem lock_own (c : Cfg) {s s' : BState} {bl : BLabel} (P : BInvP c s) (t b : Nat) (hp : s.bpc t = .lock b)
    (hl : btLabel t bl) (st : bstep c s bl = some s') : s'.bpc t = .init b := by
  have hext : s.base.tpc t = .ext := P.k_extpc t (by rw [hp]; simp) (by intro b'; rw [hp]; simp)
  cases bl with
  | base l =>
    exfalso
    simp only [btLabel] at hl
    have hb := (bstep_base c st).1
    unfold tLabel at hl
    cases l <;> simp only [threadLabel, beq_iff_eq, Bool.false_eq_true] at hl <;> subst hl <;> simp [step, hext] at hb
  | _ =>
    simp only [btLabel] at hl
    all_goals (first | (exfalso; exact hl) | skip)
    all_goals (first | subst hl | (have h' := hl.1; subst h'))
    all_goals (simp only [bstep, hp] at st)
    all_goals (first | (simp at st; done) | skip)
    all_goals ((repeat' split at st) <;> simp_all [upd])
    all_goals (try (rw [← st]; simp [upd]))

theorem lock_frame (c : Cfg) {s s' : BState} {bl : BLabel} (H : BInvH c s) (t b : Nat) (hp : s.bpc t = .lock b)
    (hl : ¬ btLabel t bl) (st : bstep c s bl = some s') : s'.bpc t = .lock b := by
  have g1 := H.bar_ok
  cases bl with
  | base l => rw [(bstep_base c st).2.2.2.2.2.1]; exact hp
  | _ =>
    simp only [btLabel] at hl
    bb_split
    all_goals (simp only [upd] at * <;> grind [BPc.bar])

theorem lock_enabled (c : Cfg) {s : BState} (P : BInvP c s) (t b : Nat) (hp : s.bpc t = .lock b) (hm : s.base.mutex = none) :
    Enabled (bstep c) (btLabel t) s := by
  have hext : s.base.tpc t = .ext := P.k_extpc t (by rw [hp]; simp) (by intro b'; rw [hp]; simp)
  exact ⟨.bLock t, rfl, by simp [bstep, hp, step, hext, hm]⟩

/-- in the wait loop the steps of its own a caller can take are those of the wait loop -/
theorem wait_own_is_caller (c : Cfg) {s s' : BState} {bl : BLabel} (P : BInvP c s) (t : Nat)
    (he : Enabled (bstep c) (fun l => l ∈ callerLabels t) s) (hl : btLabel t bl) (st : bstep c s bl = some s') :
    bl ∈ callerLabels t := by
  obtain ⟨bl0, h0, e0⟩ := he
  have hne : s.bpc t ≠ .idle ∧ (∀ b, s.bpc t ≠ .lock b) ∧ (∀ b, s.bpc t ≠ .init b) ∧ (∀ b, s.bpc t ≠ .loop b) := by
    simp only [callerLabels, List.mem_cons, List.mem_nil_iff, or_false] at h0
    rcases h0 with rfl | rfl | rfl | rfl | rfl | rfl <;> simp only [bstep] at e0 <;> (repeat' split at e0) <;> simp_all
  have hext : s.base.tpc t = .ext := P.k_extpc t hne.1 hne.2.2.2
  cases bl with
  | base l =>
    exfalso
    simp only [btLabel] at hl
    have hb := (bstep_base c st).1
    unfold tLabel at hl
    cases l <;> simp only [threadLabel, beq_iff_eq, Bool.false_eq_true] at hl <;> subst hl <;> simp [step, hext] at hb
  | _ =>
    simp only [btLabel] at hl
    all_goals (first | (exfalso; exact hl) | skip)
    all_goals (first | subst hl | (obtain ⟨h', ho⟩ := hl; subst h'))
    all_goals (simp only [callerLabels, List.mem_cons, List.mem_nil_iff, or_false, reduceCtorEq, false_or, or_false, true_or, or_true,
      BLabel.bWaitFx.injEq, true_and])
    all_goals (first | done | (simp only [bstep] at st; (repeat' split at st) <;> simp_all) | skip)

/-- the tag of a registered marker never changes -/
theorem mark_stable_b (c : Cfg) {s s' : BState} {bl : BLabel} (K : BInvK c s) (m : Nat) (p : Nat × Nat)
    (hm : s.base.mark m = some p) (st : bstep c s bl = some s') : s'.base.mark m = some p := by
  have k1 := K.k_mark m p.1 p.2 hm
  cases bl with
  | base l =>
    obtain ⟨hb, hh, -⟩ := bstep_base c st
    rw [mark_frame c hh hb]; exact hm
  | _ =>
    bb_split
    all_goals (simp only [upd] at * <;> grind)

end UrcuVerif.CallRcu
