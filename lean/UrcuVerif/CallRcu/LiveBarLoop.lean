import UrcuVerif.CallRcu.LiveBarProj
/-! Step-level lemmas for the end-to-end liveness of `rcu_barrier()`: label sets of the barrier layer, transfer of
enabledness between the two layers, the caller's set-up phase (lock, init, one marker per helper, unlock). -/
set_option linter.unusedSimpArgs false
set_option linter.unusedVariables false
namespace UrcuVerif.CallRcu
open UrcuVerif UrcuVerif.Fair

/-- the library-internal steps of thread `t` in the barrier layer: its call_rcu-layer steps and the steps of its
`rcu_barrier()` (`eintr` / `spurious` futex outcomes and `bSpurious` are environment steps) -/
def btLabel (t : Nat) : BLabel → Prop
  | .base l => tLabel t l
  | .bLock u => u = t | .bInit u => u = t | .bEnq u _ _ => u = t | .bUnlock u => u = t
  | .bDec u => u = t | .bLdCnt u => u = t | .bWaitLd u => u = t | .bPut u => u = t
  | .bWaitFx u o => u = t ∧ (o = .sleep ∨ o = .eagain)
  | .bRefused _ => False | .bCall _ => False | .bSpurious _ => False
  | .mSub _ => False | .mLdFut _ => False | .mStFut _ => False | .mWake _ => False | .mPut _ => False

/-- the steps of helper `x`'s thread in the barrier layer: `call_rcu_thread` and `_rcu_barrier_complete` -/
def bhLabel (x : Nat) : BLabel → Prop
  | .base l => hOwn x l
  | .mSub y => y = x | .mLdFut y => y = x | .mStFut y => y = x | .mWake y => y = x | .mPut y => y = x
  | _ => False

theorem callerLabels_bt (t : Nat) (bl : BLabel) (h : bl ∈ callerLabels t) : btLabel t bl := by
  simp only [callerLabels, List.mem_cons, List.mem_nil_iff, or_false] at h
  rcases h with rfl | rfl | rfl | rfl | rfl | rfl <;> simp [btLabel]

theorem markerLabels_bh (x : Nat) (bl : BLabel) : bl ∈ markerLabels x ↔ (bhLabel x bl ∧ ∀ l, bl ≠ .base l) := by
  cases bl <;> simp [markerLabels, bhLabel, eq_comm]

/-- a continuing call_rcu-layer step of a thread is enabled in the barrier layer iff it is in the call_rcu layer -/
theorem bt_base_enabled (c : Cfg) (s : BState) (t : Nat) (l : Label) (hl : tLabel t l) :
    (bstep c s (.base l)).isSome = (step c s.base l).isSome := by
  unfold tLabel at hl
  cases l <;> simp only [threadLabel, beq_iff_eq, Bool.false_eq_true] at hl <;>
    simp only [bstep, Label.isHook, Bool.false_eq_true, ↓reduceIte] <;> (split <;> simp_all)

/-- a helper step is enabled in the barrier layer iff it is in the call_rcu layer – except the end of a marker callback,
which has to wait for `_rcu_barrier_complete` -/
theorem bh_base_enabled (c : Cfg) (s : BState) (x : Nat) (l : Label) (hl : hOwn x l)
    (hm : ¬ ((s.mrun x).isSome = true ∧ s.mpc x ≠ .fin)) :
    (bstep c s (.base l)).isSome = (step c s.base l).isSome := by
  unfold hOwn at hl
  cases l <;> simp only [helperLabel, beq_iff_eq, Bool.false_eq_true] at hl <;> (try subst hl) <;>
    simp only [bstep, Label.isHook, Bool.false_eq_true, ↓reduceIte] <;> (repeat' split) <;> simp_all

/-- while `_rcu_barrier_complete` runs, the helper's thread can only do marker steps -/
theorem marker_excl (c : Cfg) {s s' : BState} {bl : BLabel} (H : BInvH c s) (x : Nat) (hm : (s.mrun x).isSome = true)
    (hf : s.mpc x ≠ .fin) (hl : bhLabel x bl) (st : bstep c s bl = some s') : bl ∈ markerLabels x := by
  have hrun : s.base.hpc x = .run := by
    apply Classical.byContradiction
    intro h
    have := (H.mpc_run x h).2
    rw [this] at hm; cases hm
  cases bl <;> simp only [bhLabel] at hl <;> (try (subst hl; simp [markerLabels]))
  rename_i l
  exfalso
  unfold hOwn at hl
  cases l <;> simp only [helperLabel, beq_iff_eq, Bool.false_eq_true] at hl <;> subst hl <;>
    simp only [bstep, Label.isHook, Bool.false_eq_true, ↓reduceIte, step, hrun] at st <;>
    (repeat' split at st) <;> simp_all

/-- a step of `rcu_barrier()` itself needs its thread at the outer-layer program point -/
theorem caller_needs_ext (c : Cfg) {s : BState} (P : BInvP c s) (t : Nat) (bl : BLabel) (hl : btLabel t bl)
    (hnb : ∀ l, bl ≠ .base l) (he : (bstep c s bl).isSome = true) : s.base.tpc t = .ext := by
  have p5 := P.k_extpc t
  cases bl <;> simp only [btLabel] at hl <;> (try (exact absurd rfl (hnb _))) <;>
    (first | subst hl | (have h' := hl.1; subst h')) <;>
    simp only [bstep, step] at he <;> (repeat' split at he) <;> simp_all

/-- other barrier-layer steps do not move a thread that is in the middle of a call_rcu-layer operation -/
theorem bthread_frame (c : Cfg) {s s' : BState} {bl : BLabel} (t : Nat) (h1 : s.base.tpc t ≠ .idle) (h2 : s.base.tpc t ≠ .ext)
    (hl : ∀ l, bl = .base l → ¬ tLabel t l) (st : bstep c s bl = some s') : s'.base.tpc t = s.base.tpc t := by
  have hp := proj_step c st
  cases hq : projLabel s bl with
  | none => rw [hp.2 hq]
  | some l =>
    refine thread_frame c t h1 h2 ?_ (hp.1 l hq)
    intro htl
    cases bl <;> simp [projLabel] at hq
    case base l' => subst hq; exact hl _ rfl htl
    all_goals (try (subst hq; simp [tLabel, threadLabel] at htl))
    all_goals (split at hq <;> simp at hq; subst hq; simp [tLabel, threadLabel] at htl)

/-! ### the caller's set-up phase -/

/-- remaining steps of `_call_rcu()` + `wake_call_rcu_thread()` for one marker -/
def pathRank : TPc → Nat
  | .enq _ _ _ => 7 | .inc _ _ => 6 | .ldFlags _ _ => 5 | .ldFutex _ _ => 4 | .stFutex _ _ => 3 | .wake _ _ => 2
  | .ext => 0 | .idle => 0 | .sync => 0 | .sel _ => 0
  | .gdLd _ => 0 | .gdLock _ => 0 | .gdCreate _ => 0 | .gdUnlock _ => 0
  | .crRet => 0 | .opLock _ => 0 | .opDo _ => 0 | .opUnlock _ => 0
  | .fLdFlags _ => 0 | .fOrStop _ => 0 | .fWaitStopped _ => 0 | .fLock _ => 0 | .fChk _ => 0
  | .fUnlock1 _ => 0 | .fLock2 _ => 0 | .fSplice _ => 0 | .fAddQ _ => 0 | .fDel _ => 0
  | .fJoin _ => 0 | .fFree _ => 0

/-- own call_rcu-layer steps of a thread in outer-layer mode: towards the return to the outer layer -/
theorem path_own (c : Cfg) {s s' : State} {l : Label} (t : Nat) (he : (s.tpc t).extMode = true) (hl : tLabel t l)
    (st : step c s l = some s') : (s'.tpc t).extMode = true ∧ pathRank (s'.tpc t) < pathRank (s.tpc t) := by
  unfold tLabel at hl
  cases hq : s.tpc t <;> simp [hq, TPc.extMode] at he <;>
    (try (rename_i k; cases k <;> simp [K.isExt] at he)) <;>
    (cases l <;> simp only [threadLabel, beq_iff_eq, Bool.false_eq_true] at hl <;> subst hl <;>
      simp only [step, hq] at st <;> (repeat' split at st) <;>
      (first | (simp at st; done) | skip) <;>
      simp only [Option.some.injEq] at st <;> subst st <;>
      simp_all [upd, pathRank, TPc.extMode, K.isExt, K.cont] <;> (try (split <;> simp_all [pathRank, TPc.extMode, K.isExt])))

/-- a thread at the outer-layer program point is moved only by the hooks -/
theorem ext_frame (c : Cfg) {s s' : State} {l : Label} (t : Nat) (he : s.tpc t = .ext) (hl : l.isHook = false)
    (st : step c s l = some s') : s'.tpc t = .ext := by
  cases l <;> simp only [Label.isHook, reduceCtorEq] at hl <;> c_bash <;> grind

/-- while an outer-layer thread holds the mutex, `call_rcu_data_list` does not change -/
theorem list_frame_held (c : Cfg) {s s' : State} {l : Label} (hD : InvD c s) (t : Nat) (he : s.tpc t = .ext)
    (hm : s.mutex = some t) (st : step c s l = some s') : s'.list = s.list := by
  have d11 := hD.holds_mutex
  cases l <;> c_bash <;> grind [TPc.holds]

end UrcuVerif.CallRcu
