import UrcuVerif.CallRcu.LiveCall2
/-! Run-level lemmas for the end-to-end liveness of `call_rcu()`: progress of a library thread including lock
acquisition (strong fairness), release of `call_rcu_mutex`, the way from the call to the enqueue. -/
set_option linter.unusedSimpArgs false
set_option linter.unusedVariables false
namespace UrcuVerif.CallRcu
open UrcuVerif UrcuVerif.Fair

/-- **progress of one library thread**, lock acquisitions included.  `hsf`: the thread is scheduled *strongly* fairly
(if it is enabled again and again – e.g. blocked in `pthread_mutex_lock` on a mutex that is released again and again –
it eventually takes a step); `hfree`: `call_rcu_mutex` is free again and again.  If the thread's own steps decrease
`r` while `P` holds, other steps keep `P` and the thread's program counter, and outside lock acquisitions the thread
is enabled, then `P` leads to `Goal`. -/
theorem thread_progress (c : Cfg) {ρ : Nat → State} {ℓ : Nat → Option Label} (hrun : IsRun (step c) ρ ℓ) (t : Nat)
    (hsf : StrongFair (step c) ρ ℓ (tLabel t)) (hfree : ∀ j, ∃ j', j ≤ j' ∧ (ρ j').mutex = none)
    (Inv P Goal : State → Prop) (r : State → Nat) (i0 : Nat) (hinv : ∀ j, i0 ≤ j → Inv (ρ j))
    (hown : ∀ s l s', Inv s → P s → ¬ Goal s → tLabel t l → step c s l = some s' → (P s' ∧ r s' < r s) ∨ Goal s')
    (hoth : ∀ s l s', Inv s → P s → ¬ Goal s → ¬ tLabel t l → step c s l = some s' →
      (P s' ∧ r s' ≤ r s ∧ s'.tpc t = s.tpc t) ∨ Goal s')
    (hen : ∀ s, Inv s → P s → ¬ Goal s → (s.tpc t).lockWait = false → Enabled (step c) (tLabel t) s) :
    ∀ i, i0 ≤ i → P (ρ i) → ∃ j, i ≤ j ∧ Goal (ρ j) := by
  intro i hi hp
  apply Classical.byContradiction
  intro hno
  have hng : ∀ j, i ≤ j → ¬ Goal (ρ j) := fun j hj hg => hno ⟨j, hj, hg⟩
  have hPs : ∀ j, i ≤ j → P (ρ j) :=
    unless_along hrun Inv P Goal i (fun j hj => hinv j (by omega))
      (fun s l s' I p g st => by
        by_cases hl : tLabel t l
        · rcases hown s l s' I p g hl st with h | h
          · exact Or.inl h.1
          · exact Or.inr h
        · rcases hoth s l s' I p g hl st with h | h
          · exact Or.inl h.1
          · exact Or.inr h) hp hng
  refine hno (fair_measure_leadsto_family hrun (κ := Bool) (fun _ => tLabel t)
    (fun b s => P s ∧ (s.tpc t).lockWait = !b) (fun s => Inv s ∧ P s) Goal r i
    (fun j hj => ⟨hinv j (by omega), hPs j hj⟩) ?_ ?_ ?_ ?_ ?_)
  · intro b
    cases b with
    | true =>
      -- not waiting for the lock: weak fairness
      intro j0 hen'
      obtain ⟨j, hj, ht⟩ := hsf.weak (max j0 i) (fun j hj => by
        have h := hen' j (by omega)
        exact hen _ (hinv j (by omega)) h.1 (hng j (by omega)) (by simpa using h.2))
      exact ⟨j, by omega, ht⟩
    | false =>
      intro j0 hen'
      refine hsf j0 (fun j hj => ?_)
      obtain ⟨k, hk, hm⟩ := hfree j
      exact ⟨k, hk, lockWait_enabled c t (by simpa using (hen' k (by omega)).2) hm⟩
  · intro s I g
    cases hw : (s.tpc t).lockWait with
    | true => exact ⟨false, I.2, by simp [hw]⟩
    | false => exact ⟨true, I.2, by simp [hw]⟩
  · intro s l s' k I g hl st
    rcases hown s l s' I.1 I.2 g hl st with h | h
    · exact Or.inl h.2
    · exact Or.inr h
  · intro s l s' I g hl st
    rcases hoth s l s' I.1 I.2 g (hl true) st with h | h
    · exact Or.inl h.2.1
    · exact Or.inr h
  · intro s l s' k I g hen' hl st
    rcases hoth s l s' I.1 I.2 g hl st with h | h
    · exact Or.inl ⟨h.1, by rw [h.2.2]; exact hen'.2⟩
    · exact Or.inr (Or.inl h)

/-- fairness of a thread implies fairness of its wake path -/
theorem wakeFair_of_thread (c : Cfg) {ρ : Nat → State} {ℓ : Nat → Option Label} (hrun : IsRun (step c) ρ ℓ) (t : Nat)
    (hsf : StrongFair (step c) ρ ℓ (tLabel t)) : WeakFair (step c) ρ ℓ (fun l => l ∈ wakeLabels t) := by
  intro i he
  obtain ⟨j, hj, l, hl, ht⟩ := hsf.weak i (fun j hj => by
    obtain ⟨l, h1, h2⟩ := he j hj
    exact ⟨l, wake_sub_tLabel t l h1, h2⟩)
  exact ⟨j, hj, l, hl, own_is_wake c t (wake_enabled_onWake c t (he j hj)) ht (hrun.move j l hl)⟩

theorem invQ_along (c : Cfg) {ρ : Nat → State} {ℓ : Nat → Option Label} (hrun : IsRun (step c) ρ ℓ)
    (hq0 : InvQ (ρ 0)) (hne : ∀ j, NoExit (ρ j)) : ∀ j, InvQ (ρ j) := by
  intro j
  induction j with
  | zero => exact hq0
  | succ n ih =>
    cases hl : ℓ n with
    | none => rw [hrun.idle n hl]; exact ih
    | some l => exact invQ_step c ih (hne n) (hrun.move n l hl)

/-- **`call_rcu_mutex` is free again and again**: every call_rcu-layer holder runs its critical section to the unlock
(weak fairness of its thread suffices: nothing inside blocks), outer-layer holders release it by hypothesis `hext`. -/
theorem mutex_free_inf_often (c : Cfg) {ρ : Nat → State} {ℓ : Nat → Option Label} (hrun : IsRun (step c) ρ ℓ)
    (hR : ∀ j, Reach c (ρ j)) (hQ : ∀ j, InvQ (ρ j))
    (hthreads : ∀ t, WeakFair (step c) ρ ℓ (tLabel t))
    (hext : ∀ j u, (ρ j).mutex = some u → ((ρ j).tpc u).extMode = true → ∃ j', j ≤ j' ∧ (ρ j').mutex ≠ some u) :
    ∀ j, ∃ j', j ≤ j' ∧ (ρ j').mutex = none := by
  intro j
  cases hm : (ρ j).mutex with
  | none => exact ⟨j, Nat.le_refl j, hm⟩
  | some u =>
    -- the holder eventually gives it up …
    have hrel : ∃ j', j ≤ j' ∧ (ρ j').mutex ≠ some u := by
      by_cases he : ((ρ j).tpc u).extMode = true
      · exact hext j u hm he
      · have he : ((ρ j).tpc u).extMode = false := by simpa using he
        have hh : ((ρ j).tpc u).holds = true := by
          rcases invM0_reach c (hR j) u hm with h | h
          · exact h
          · rw [he] at h; cases h
        obtain ⟨j', hj', hg⟩ := fair_measure_leadsTo_from hrun (tLabel u) (fun s => Reach c s ∧ InvQ s)
          (fun s => s.mutex = some u ∧ (s.tpc u).holds = true ∧ (s.tpc u).extMode = false) (fun s => s.mutex = none)
          (fun s => mtxRank (s.tpc u)) 0 (fun j _ => ⟨hR j, hQ j⟩) (hthreads u)
          (fun s l s' I p _ st => by
            by_cases hl : tLabel u l
            · rcases holder_own c u p.1 p.2.1 p.2.2 hl st with h | h
              · exact Or.inr h
              · exact Or.inl ⟨h.1, h.2.1, h.2.2.1⟩
            · have := holder_frame c u p.1 p.2.1 p.2.2 hl st
              exact Or.inl ⟨this.1, by rw [this.2]; exact p.2.1, by rw [this.2]; exact p.2.2⟩)
          (fun s I p _ => by
            obtain ⟨-, -, D, E, -, -⟩ := inv_reach_d c I.1
            exact holder_enabled c D E I.2 u p.1 p.2.1 p.2.2)
          (fun s l s' I p _ hl st => by
            rcases holder_own c u p.1 p.2.1 p.2.2 hl st with h | h
            · exact Or.inr h
            · exact Or.inl h.2.2.2)
          (fun s l s' I p _ hl st => by
            have := holder_frame c u p.1 p.2.1 p.2.2 hl st
            exact Or.inl (by rw [this.2]; exact Nat.le_refl _))
          j (Nat.zero_le j) ⟨hm, hh, he⟩
        exact ⟨j', hj', by rw [hg]; simp⟩
    -- … and at that moment the mutex is free
    obtain ⟨j', hj', hne⟩ := hrel
    obtain ⟨m, hm1, hm2, hin, hout⟩ := change_step (ρ := ρ) (fun s => s.mutex = some u) hj' hm hne
    refine ⟨m + 1, by omega, ?_⟩
    cases hl : ℓ m with
    | none => rw [hrun.idle m hl] at hout; exact absurd hin hout
    | some l =>
      rcases release_none c u hin (hrun.move m l hl) with h | h
      · exact absurd h hout
      · exact h

/-- **from the call to the enqueue**: a thread inside `call_rcu()` that has not yet enqueued its callback `id`
(helper selection per thread / per CPU / default, lazy creation of the default helper under the mutex) eventually
enqueues it. -/
theorem call_eventually_queued (c : Cfg) {ρ : Nat → State} {ℓ : Nat → Option Label} (hrun : IsRun (step c) ρ ℓ)
    (hR : ∀ j, Reach c (ρ j)) (hQ : ∀ j, InvQ (ρ j)) (t : Nat)
    (hsf : StrongFair (step c) ρ ℓ (tLabel t)) (hfree : ∀ j, ∃ j', j ≤ j' ∧ (ρ j').mutex = none) :
    ∀ id i, ((ρ i).tpc t).pendId = some id → ∃ j, i ≤ j ∧ ((ρ j).loc id).queued = true := by
  intro id i hp
  refine thread_progress c hrun t hsf hfree (fun s => Reach c s ∧ InvQ s) (fun s => (s.tpc t).pendId = some id)
    (fun s => (s.loc id).queued = true) (fun s => callRank (s.tpc t)) 0 (fun j _ => ⟨hR j, hQ j⟩)
    ?_ ?_ ?_ i (Nat.zero_le i) hp
  · intro s l s' I p _ hl st
    rcases call_own c t id p hl st with h | h
    · exact Or.inr h
    · exact Or.inl h
  · intro s l s' I p _ hl st
    have hne := pendId_ne _ id p
    have := thread_frame c t hne.1 hne.2 hl st
    exact Or.inl ⟨by rw [this]; exact p, by rw [this]; exact Nat.le_refl _, this⟩
  · intro s I p _ hw
    obtain ⟨-, -, D, -, -, -⟩ := inv_reach_d c I.1
    exact call_enabled c D I.2 t id p hw

end UrcuVerif.CallRcu
