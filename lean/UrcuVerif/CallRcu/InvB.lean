import UrcuVerif.CallRcu.Inv
/-!
# C03 — timing invariant: callbacks are invoked only after a grace period that started after
their enqueue (helper lemmas; statements in `Props/C03.lean`).

`InvB` relates the ghost clock values: every queued callback was enqueued in the past; while helper
`h` holds a batch, every callback of the batch was enqueued before the start `hgp h` of the helper's
grace period (`batch_enq`); once the helper is past `synchronize_rcu()` every open read-side section
began at or after that start (`gp_done`); every open section began at or after the start of the
latest completed grace period (`gpd_open`).
-/
set_option linter.unusedVariables false
set_option linter.unusedSimpArgs false
namespace UrcuVerif.CallRcu

structure InvB (c : Cfg) (s : State) : Prop where
  clk_enq : ∀ id, (s.loc id).queued = true → s.enqT id < s.clock
  clk_hgp : ∀ h, s.hgp h < s.clock
  clk_cs : ∀ t, s.cs t < s.clock
  clk_ugp : ∀ t, s.ugp t < s.clock
  clk_gpd : s.gpDone < s.clock
  batch_enq : ∀ h id, s.loc id = .batch h ∨ s.loc id = .run h → s.enqT id < s.hgp h
  gp_done : ∀ h t, s.hpc h = .inv ∨ s.hpc h = .run → 0 < s.nest t → s.hgp h ≤ s.cs t
  gpd_open : ∀ t, 0 < s.nest t → s.gpDone ≤ s.cs t
  inert : ∀ t, nthr c s ≤ t → s.nest t = 0

theorem userCtx_lt {c : Cfg} {s : State} {t : Nat} (h : userCtx c s t = true) : t < c.n + s.nextH := by
  unfold userCtx nthr at h
  simp only [Bool.or_eq_true, Bool.and_eq_true, decide_eq_true_eq] at h
  rcases h with h | ⟨h, _⟩
  · omega
  · exact h

theorem invB_init (c) : InvB c init := by
  constructor <;> simp [init, Loc.queued]

set_option hygiene false in
macro "b_tac" : tactic => `(tactic| (
  have a2 := hA.b_loc
  have a11 := hA.fresh
  clear hA
  obtain ⟨h1, h2, h3, h4, h5, h6, h7, h8, h9⟩ := h
  simp only [step] at st
  (repeat' split at st)
  all_goals (first | (simp at st; done) | skip)
  all_goals (simp only [Option.some.injEq] at st; subst st)
  all_goals (constructor <;> first | assumption | (simp only [upd, lockS, unlockS, newHelper, relocate, nestOn, csOn, nestOff, K.cont, gpMayEnd, nthr] at * <;>
    grind [upd, relocate, Loc.queued, → mem_of_head?, → userCtx_lt]))))

theorem invb_rlock (c : Cfg) {s s' : State} (hA : InvA c s) (h : InvB c s) (t : _)
    (st : step c s (.rlock t) = some s') : InvB c s' := by
  b_tac

theorem invb_runlock (c : Cfg) {s s' : State} (hA : InvA c s) (h : InvB c s) (t : _)
    (st : step c s (.runlock t) = some s') : InvB c s' := by
  b_tac

theorem invb_syncStart (c : Cfg) {s s' : State} (hA : InvA c s) (h : InvB c s) (t : _)
    (st : step c s (.syncStart t) = some s') : InvB c s' := by
  b_tac

theorem invb_syncEnd (c : Cfg) {s s' : State} (hA : InvA c s) (h : InvB c s) (t : _)
    (st : step c s (.syncEnd t) = some s') : InvB c s' := by
  b_tac

theorem invb_crCall (c : Cfg) {s s' : State} (hA : InvA c s) (h : InvB c s) (t id : _)
    (st : step c s (.crCall t id) = some s') : InvB c s' := by
  b_tac

theorem invb_crSelThr (c : Cfg) {s s' : State} (hA : InvA c s) (h : InvB c s) (t : _)
    (st : step c s (.crSelThr t) = some s') : InvB c s' := by
  b_tac

theorem invb_crSelCpu (c : Cfg) {s s' : State} (hA : InvA c s) (h : InvB c s) (t cpu : _)
    (st : step c s (.crSelCpu t cpu) = some s') : InvB c s' := by
  b_tac

theorem invb_crSelNoCpu (c : Cfg) {s s' : State} (hA : InvA c s) (h : InvB c s) (t cpu : _)
    (st : step c s (.crSelNoCpu t cpu) = some s') : InvB c s' := by
  b_tac

theorem invb_gdCall (c : Cfg) {s s' : State} (hA : InvA c s) (h : InvB c s) (t : _)
    (st : step c s (.gdCall t) = some s') : InvB c s' := by
  b_tac

theorem invb_gdLd (c : Cfg) {s s' : State} (hA : InvA c s) (h : InvB c s) (t : _)
    (st : step c s (.gdLd t) = some s') : InvB c s' := by
  b_tac

theorem invb_gdLock (c : Cfg) {s s' : State} (hA : InvA c s) (h : InvB c s) (t : _)
    (st : step c s (.gdLock t) = some s') : InvB c s' := by
  b_tac

theorem invb_gdCreate (c : Cfg) {s s' : State} (hA : InvA c s) (h : InvB c s) (t : _)
    (st : step c s (.gdCreate t) = some s') : InvB c s' := by
  b_tac

theorem invb_gdUnlock (c : Cfg) {s s' : State} (hA : InvA c s) (h : InvB c s) (t : _)
    (st : step c s (.gdUnlock t) = some s') : InvB c s' := by
  b_tac

theorem invb_enq (c : Cfg) {s s' : State} (hA : InvA c s) (h : InvB c s) (t : _)
    (st : step c s (.enq t) = some s') : InvB c s' := by
  b_tac

theorem invb_inc (c : Cfg) {s s' : State} (hA : InvA c s) (h : InvB c s) (t : _)
    (st : step c s (.inc t) = some s') : InvB c s' := by
  b_tac

theorem invb_ldFlags (c : Cfg) {s s' : State} (hA : InvA c s) (h : InvB c s) (t : _)
    (st : step c s (.ldFlags t) = some s') : InvB c s' := by
  b_tac

theorem invb_ldFutex (c : Cfg) {s s' : State} (hA : InvA c s) (h : InvB c s) (t : _)
    (st : step c s (.ldFutex t) = some s') : InvB c s' := by
  b_tac

theorem invb_stFutex (c : Cfg) {s s' : State} (hA : InvA c s) (h : InvB c s) (t : _)
    (st : step c s (.stFutex t) = some s') : InvB c s' := by
  b_tac

theorem invb_wake (c : Cfg) {s s' : State} (hA : InvA c s) (h : InvB c s) (t : _)
    (st : step c s (.wake t) = some s') : InvB c s' := by
  b_tac

theorem invb_crRet (c : Cfg) {s s' : State} (hA : InvA c s) (h : InvB c s) (t : _)
    (st : step c s (.crRet t) = some s') : InvB c s' := by
  b_tac

theorem invb_opCall (c : Cfg) {s s' : State} (hA : InvA c s) (h : InvB c s) (t op : _)
    (st : step c s (.opCall t op) = some s') : InvB c s' := by
  b_tac

theorem invb_opLock (c : Cfg) {s s' : State} (hA : InvA c s) (h : InvB c s) (t : _)
    (st : step c s (.opLock t) = some s') : InvB c s' := by
  b_tac

theorem invb_opDo (c : Cfg) {s s' : State} (hA : InvA c s) (h : InvB c s) (t : _)
    (st : step c s (.opDo t) = some s') : InvB c s' := by
  b_tac

theorem invb_opUnlock (c : Cfg) {s s' : State} (hA : InvA c s) (h : InvB c s) (t : _)
    (st : step c s (.opUnlock t) = some s') : InvB c s' := by
  b_tac

theorem invb_setThr (c : Cfg) {s s' : State} (hA : InvA c s) (h : InvB c s) (t ho : _)
    (st : step c s (.setThr t ho) = some s') : InvB c s' := by
  b_tac

theorem invb_fCall (c : Cfg) {s s' : State} (hA : InvA c s) (h : InvB c s) (t h0 : _)
    (st : step c s (.fCall t h0) = some s') : InvB c s' := by
  b_tac

theorem invb_fLdFlags (c : Cfg) {s s' : State} (hA : InvA c s) (h : InvB c s) (t : _)
    (st : step c s (.fLdFlags t) = some s') : InvB c s' := by
  b_tac

theorem invb_fOrStop (c : Cfg) {s s' : State} (hA : InvA c s) (h : InvB c s) (t : _)
    (st : step c s (.fOrStop t) = some s') : InvB c s' := by
  b_tac

theorem invb_fSeeStopped (c : Cfg) {s s' : State} (hA : InvA c s) (h : InvB c s) (t : _)
    (st : step c s (.fSeeStopped t) = some s') : InvB c s' := by
  b_tac

theorem invb_fLock (c : Cfg) {s s' : State} (hA : InvA c s) (h : InvB c s) (t : _)
    (st : step c s (.fLock t) = some s') : InvB c s' := by
  b_tac

theorem invb_fChk (c : Cfg) {s s' : State} (hA : InvA c s) (h : InvB c s) (t : _)
    (st : step c s (.fChk t) = some s') : InvB c s' := by
  b_tac

theorem invb_fUnlock1 (c : Cfg) {s s' : State} (hA : InvA c s) (h : InvB c s) (t : _)
    (st : step c s (.fUnlock1 t) = some s') : InvB c s' := by
  b_tac

theorem invb_fLock2 (c : Cfg) {s s' : State} (hA : InvA c s) (h : InvB c s) (t : _)
    (st : step c s (.fLock2 t) = some s') : InvB c s' := by
  b_tac

theorem invb_fSplice (c : Cfg) {s s' : State} (hA : InvA c s) (h : InvB c s) (t : _)
    (st : step c s (.fSplice t) = some s') : InvB c s' := by
  b_tac

theorem invb_fAddQ (c : Cfg) {s s' : State} (hA : InvA c s) (h : InvB c s) (t : _)
    (st : step c s (.fAddQ t) = some s') : InvB c s' := by
  b_tac

theorem invb_fDel (c : Cfg) {s s' : State} (hA : InvA c s) (h : InvB c s) (t : _)
    (st : step c s (.fDel t) = some s') : InvB c s' := by
  b_tac

theorem invb_fJoin (c : Cfg) {s s' : State} (hA : InvA c s) (h : InvB c s) (t : _)
    (st : step c s (.fJoin t) = some s') : InvB c s' := by
  b_tac

theorem invb_fFree (c : Cfg) {s s' : State} (hA : InvA c s) (h : InvB c s) (t : _)
    (st : step c s (.fFree t) = some s') : InvB c s' := by
  b_tac

theorem invb_hStart (c : Cfg) {s s' : State} (hA : InvA c s) (h : InvB c s) (x : _)
    (st : step c s (.hStart x) = some s') : InvB c s' := by
  b_tac

theorem invb_hDec0 (c : Cfg) {s s' : State} (hA : InvA c s) (h : InvB c s) (x : _)
    (st : step c s (.hDec0 x) = some s') : InvB c s' := by
  b_tac

theorem invb_hTop (c : Cfg) {s s' : State} (hA : InvA c s) (h : InvB c s) (x : _)
    (st : step c s (.hTop x) = some s') : InvB c s' := by
  b_tac

theorem invb_hPause (c : Cfg) {s s' : State} (hA : InvA c s) (h : InvB c s) (x : _)
    (st : step c s (.hPause x) = some s') : InvB c s' := by
  b_tac

theorem invb_hUnpause (c : Cfg) {s s' : State} (hA : InvA c s) (h : InvB c s) (x : _)
    (st : step c s (.hUnpause x) = some s') : InvB c s' := by
  b_tac

theorem invb_hSplice (c : Cfg) {s s' : State} (hA : InvA c s) (h : InvB c s) (x : _)
    (st : step c s (.hSplice x) = some s') : InvB c s' := by
  b_tac

theorem invb_hGpEnd (c : Cfg) {s s' : State} (hA : InvA c s) (h : InvB c s) (x : _)
    (st : step c s (.hGpEnd x) = some s') : InvB c s' := by
  b_tac

theorem invb_hRunBegin (c : Cfg) {s s' : State} (hA : InvA c s) (h : InvB c s) (x cb : _)
    (st : step c s (.hRunBegin x cb) = some s') : InvB c s' := by
  b_tac

theorem invb_hRunEnd (c : Cfg) {s s' : State} (hA : InvA c s) (h : InvB c s) (x : _)
    (st : step c s (.hRunEnd x) = some s') : InvB c s' := by
  b_tac

theorem invb_hInvDone (c : Cfg) {s s' : State} (hA : InvA c s) (h : InvB c s) (x : _)
    (st : step c s (.hInvDone x) = some s') : InvB c s' := by
  b_tac

theorem invb_hSub (c : Cfg) {s s' : State} (hA : InvA c s) (h : InvB c s) (x : _)
    (st : step c s (.hSub x) = some s') : InvB c s' := by
  b_tac

theorem invb_hStopChk (c : Cfg) {s s' : State} (hA : InvA c s) (h : InvB c s) (x : _)
    (st : step c s (.hStopChk x) = some s') : InvB c s' := by
  b_tac

theorem invb_hEmptyChk (c : Cfg) {s s' : State} (hA : InvA c s) (h : InvB c s) (x : _)
    (st : step c s (.hEmptyChk x) = some s') : InvB c s' := by
  b_tac

theorem invb_hWaitLd (c : Cfg) {s s' : State} (hA : InvA c s) (h : InvB c s) (x : _)
    (st : step c s (.hWaitLd x) = some s') : InvB c s' := by
  b_tac

theorem invb_hWaitFx (c : Cfg) {s s' : State} (hA : InvA c s) (h : InvB c s) (x o : _)
    (st : step c s (.hWaitFx x o) = some s') : InvB c s' := by
  b_tac

theorem invb_hSpurious (c : Cfg) {s s' : State} (hA : InvA c s) (h : InvB c s) (x : _)
    (st : step c s (.hSpurious x) = some s') : InvB c s' := by
  b_tac

theorem invb_hPollW (c : Cfg) {s s' : State} (hA : InvA c s) (h : InvB c s) (x : _)
    (st : step c s (.hPollW x) = some s') : InvB c s' := by
  b_tac

theorem invb_hDec (c : Cfg) {s s' : State} (hA : InvA c s) (h : InvB c s) (x : _)
    (st : step c s (.hDec x) = some s') : InvB c s' := by
  b_tac

theorem invb_hPollN (c : Cfg) {s s' : State} (hA : InvA c s) (h : InvB c s) (x : _)
    (st : step c s (.hPollN x) = some s') : InvB c s' := by
  b_tac

theorem invb_hExitSt (c : Cfg) {s s' : State} (hA : InvA c s) (h : InvB c s) (x : _)
    (st : step c s (.hExitSt x) = some s') : InvB c s' := by
  b_tac

theorem invb_hExitOr (c : Cfg) {s s' : State} (hA : InvA c s) (h : InvB c s) (x : _)
    (st : step c s (.hExitOr x) = some s') : InvB c s' := by
  b_tac

theorem invb_extBegin (c : Cfg) {s s' : State} (hA : InvA c s) (h : InvB c s) (t : _)
    (st : step c s (.extBegin t) = some s') : InvB c s' := by
  b_tac

theorem invb_extEnd (c : Cfg) {s s' : State} (hA : InvA c s) (h : InvB c s) (t : _)
    (st : step c s (.extEnd t) = some s') : InvB c s' := by
  b_tac

theorem invb_extLock (c : Cfg) {s s' : State} (hA : InvA c s) (h : InvB c s) (t : _)
    (st : step c s (.extLock t) = some s') : InvB c s' := by
  b_tac

theorem invb_extUnlock (c : Cfg) {s s' : State} (hA : InvA c s) (h : InvB c s) (t : _)
    (st : step c s (.extUnlock t) = some s') : InvB c s' := by
  b_tac

theorem invb_extCall (c : Cfg) {s s' : State} (hA : InvA c s) (h : InvB c s) (t id b h0 : _)
    (st : step c s (.extCall t id b h0) = some s') : InvB c s' := by
  b_tac

theorem invb_envPause (c : Cfg) {s s' : State} (hA : InvA c s) (h : InvB c s) (x v : _)
    (st : step c s (.envPause x v) = some s') : InvB c s' := by
  b_tac

theorem invb_step (c : Cfg) {s s' : State} {l : Label} (hA : InvA c s) (h : InvB c s)
    (st : step c s l = some s') : InvB c s' := by
  cases l with
  | rlock t => exact invb_rlock c hA h t st
  | runlock t => exact invb_runlock c hA h t st
  | syncStart t => exact invb_syncStart c hA h t st
  | syncEnd t => exact invb_syncEnd c hA h t st
  | crCall t id => exact invb_crCall c hA h t id st
  | crSelThr t => exact invb_crSelThr c hA h t st
  | crSelCpu t cpu => exact invb_crSelCpu c hA h t cpu st
  | crSelNoCpu t cpu => exact invb_crSelNoCpu c hA h t cpu st
  | gdCall t => exact invb_gdCall c hA h t st
  | gdLd t => exact invb_gdLd c hA h t st
  | gdLock t => exact invb_gdLock c hA h t st
  | gdCreate t => exact invb_gdCreate c hA h t st
  | gdUnlock t => exact invb_gdUnlock c hA h t st
  | enq t => exact invb_enq c hA h t st
  | inc t => exact invb_inc c hA h t st
  | ldFlags t => exact invb_ldFlags c hA h t st
  | ldFutex t => exact invb_ldFutex c hA h t st
  | stFutex t => exact invb_stFutex c hA h t st
  | wake t => exact invb_wake c hA h t st
  | crRet t => exact invb_crRet c hA h t st
  | opCall t op => exact invb_opCall c hA h t op st
  | opLock t => exact invb_opLock c hA h t st
  | opDo t => exact invb_opDo c hA h t st
  | opUnlock t => exact invb_opUnlock c hA h t st
  | setThr t ho => exact invb_setThr c hA h t ho st
  | fCall t h0 => exact invb_fCall c hA h t h0 st
  | fLdFlags t => exact invb_fLdFlags c hA h t st
  | fOrStop t => exact invb_fOrStop c hA h t st
  | fSeeStopped t => exact invb_fSeeStopped c hA h t st
  | fLock t => exact invb_fLock c hA h t st
  | fChk t => exact invb_fChk c hA h t st
  | fUnlock1 t => exact invb_fUnlock1 c hA h t st
  | fLock2 t => exact invb_fLock2 c hA h t st
  | fSplice t => exact invb_fSplice c hA h t st
  | fAddQ t => exact invb_fAddQ c hA h t st
  | fDel t => exact invb_fDel c hA h t st
  | fJoin t => exact invb_fJoin c hA h t st
  | fFree t => exact invb_fFree c hA h t st
  | hStart x => exact invb_hStart c hA h x st
  | hDec0 x => exact invb_hDec0 c hA h x st
  | hTop x => exact invb_hTop c hA h x st
  | hPause x => exact invb_hPause c hA h x st
  | hUnpause x => exact invb_hUnpause c hA h x st
  | hSplice x => exact invb_hSplice c hA h x st
  | hGpEnd x => exact invb_hGpEnd c hA h x st
  | hRunBegin x cb => exact invb_hRunBegin c hA h x cb st
  | hRunEnd x => exact invb_hRunEnd c hA h x st
  | hInvDone x => exact invb_hInvDone c hA h x st
  | hSub x => exact invb_hSub c hA h x st
  | hStopChk x => exact invb_hStopChk c hA h x st
  | hEmptyChk x => exact invb_hEmptyChk c hA h x st
  | hWaitLd x => exact invb_hWaitLd c hA h x st
  | hWaitFx x o => exact invb_hWaitFx c hA h x o st
  | hSpurious x => exact invb_hSpurious c hA h x st
  | hPollW x => exact invb_hPollW c hA h x st
  | hDec x => exact invb_hDec c hA h x st
  | hPollN x => exact invb_hPollN c hA h x st
  | hExitSt x => exact invb_hExitSt c hA h x st
  | hExitOr x => exact invb_hExitOr c hA h x st
  | extBegin t => exact invb_extBegin c hA h t st
  | extEnd t => exact invb_extEnd c hA h t st
  | extLock t => exact invb_extLock c hA h t st
  | extUnlock t => exact invb_extUnlock c hA h t st
  | extCall t id b h0 => exact invb_extCall c hA h t id b h0 st
  | envPause x v => exact invb_envPause c hA h x v st

end UrcuVerif.CallRcu
