import UrcuVerif.CallRcu.InvD
/-!
# C03 — two more facts about the helper list (helper lemmas): a helper that has left
`call_rcu_data_list` is retired, and every helper a thread operates on exists.
-/
set_option linter.unusedVariables false
set_option linter.unusedSimpArgs false
namespace UrcuVerif.CallRcu

structure InvL (c : Cfg) (s : State) : Prop where
  delisted : ∀ h, h < s.nextH → h ∉ s.list → s.retired h = true
  tgt_lt : ∀ t h k, (s.tpc t).tgt = some (h, k) → h < s.nextH

theorem invL_init (c) : InvL c init := by
  constructor <;> simp [init, TPc.tgt]

set_option hygiene false in
macro "l_tac" : tactic => `(tactic| (
  have a5 := hA.tpc_ok
  have a12 := hA.thr_lt
  have a13 := hA.cpu_lt
  have a14 := hA.dflt_lt
  have a15 := hA.list_lt
  have d1 := hD.ring_lt
  have d2 := hD.f_ok
  have d8 := hD.list_nd
  clear hA hD
  obtain ⟨h1, h2⟩ := h
  simp only [step] at st
  (repeat' split at st)
  all_goals (first | (simp at st; done) | skip)
  all_goals (simp only [Option.some.injEq] at st; subst st)
  all_goals (constructor <;> first | assumption | (simp only [upd, lockS, unlockS, newHelper, relocate, nestOn, csOn, nestOff, cont_tgt] at * <;>
    grind [upd, TOk, FOk, TPc.freeing, TPc.tgt, K.fr, GK.fr, mem_erase_nd, cont_tgt]))))

theorem invl_rlock (c : Cfg) {s s' : State} (hA : InvA c s) (hD : InvD c s) (h : InvL c s) (t : _)
    (st : step c s (.rlock t) = some s') : InvL c s' := by
  l_tac

theorem invl_runlock (c : Cfg) {s s' : State} (hA : InvA c s) (hD : InvD c s) (h : InvL c s) (t : _)
    (st : step c s (.runlock t) = some s') : InvL c s' := by
  l_tac

theorem invl_syncStart (c : Cfg) {s s' : State} (hA : InvA c s) (hD : InvD c s) (h : InvL c s) (t : _)
    (st : step c s (.syncStart t) = some s') : InvL c s' := by
  l_tac

theorem invl_syncEnd (c : Cfg) {s s' : State} (hA : InvA c s) (hD : InvD c s) (h : InvL c s) (t : _)
    (st : step c s (.syncEnd t) = some s') : InvL c s' := by
  l_tac

theorem invl_crCall (c : Cfg) {s s' : State} (hA : InvA c s) (hD : InvD c s) (h : InvL c s) (t id : _)
    (st : step c s (.crCall t id) = some s') : InvL c s' := by
  l_tac

theorem invl_crSelThr (c : Cfg) {s s' : State} (hA : InvA c s) (hD : InvD c s) (h : InvL c s) (t : _)
    (st : step c s (.crSelThr t) = some s') : InvL c s' := by
  l_tac

theorem invl_crSelCpu (c : Cfg) {s s' : State} (hA : InvA c s) (hD : InvD c s) (h : InvL c s) (t cpu : _)
    (st : step c s (.crSelCpu t cpu) = some s') : InvL c s' := by
  l_tac

theorem invl_crSelNoCpu (c : Cfg) {s s' : State} (hA : InvA c s) (hD : InvD c s) (h : InvL c s) (t cpu : _)
    (st : step c s (.crSelNoCpu t cpu) = some s') : InvL c s' := by
  l_tac

theorem invl_gdCall (c : Cfg) {s s' : State} (hA : InvA c s) (hD : InvD c s) (h : InvL c s) (t : _)
    (st : step c s (.gdCall t) = some s') : InvL c s' := by
  l_tac

theorem invl_gdLd (c : Cfg) {s s' : State} (hA : InvA c s) (hD : InvD c s) (h : InvL c s) (t : _)
    (st : step c s (.gdLd t) = some s') : InvL c s' := by
  l_tac

theorem invl_gdLock (c : Cfg) {s s' : State} (hA : InvA c s) (hD : InvD c s) (h : InvL c s) (t : _)
    (st : step c s (.gdLock t) = some s') : InvL c s' := by
  l_tac

theorem invl_gdCreate (c : Cfg) {s s' : State} (hA : InvA c s) (hD : InvD c s) (h : InvL c s) (t : _)
    (st : step c s (.gdCreate t) = some s') : InvL c s' := by
  l_tac

theorem invl_gdUnlock (c : Cfg) {s s' : State} (hA : InvA c s) (hD : InvD c s) (h : InvL c s) (t : _)
    (st : step c s (.gdUnlock t) = some s') : InvL c s' := by
  l_tac

theorem invl_enq (c : Cfg) {s s' : State} (hA : InvA c s) (hD : InvD c s) (h : InvL c s) (t : _)
    (st : step c s (.enq t) = some s') : InvL c s' := by
  l_tac

theorem invl_inc (c : Cfg) {s s' : State} (hA : InvA c s) (hD : InvD c s) (h : InvL c s) (t : _)
    (st : step c s (.inc t) = some s') : InvL c s' := by
  l_tac

theorem invl_ldFlags (c : Cfg) {s s' : State} (hA : InvA c s) (hD : InvD c s) (h : InvL c s) (t : _)
    (st : step c s (.ldFlags t) = some s') : InvL c s' := by
  l_tac

theorem invl_ldFutex (c : Cfg) {s s' : State} (hA : InvA c s) (hD : InvD c s) (h : InvL c s) (t : _)
    (st : step c s (.ldFutex t) = some s') : InvL c s' := by
  l_tac

theorem invl_stFutex (c : Cfg) {s s' : State} (hA : InvA c s) (hD : InvD c s) (h : InvL c s) (t : _)
    (st : step c s (.stFutex t) = some s') : InvL c s' := by
  l_tac

theorem invl_wake (c : Cfg) {s s' : State} (hA : InvA c s) (hD : InvD c s) (h : InvL c s) (t : _)
    (st : step c s (.wake t) = some s') : InvL c s' := by
  l_tac

theorem invl_crRet (c : Cfg) {s s' : State} (hA : InvA c s) (hD : InvD c s) (h : InvL c s) (t : _)
    (st : step c s (.crRet t) = some s') : InvL c s' := by
  l_tac

theorem invl_opCall (c : Cfg) {s s' : State} (hA : InvA c s) (hD : InvD c s) (h : InvL c s) (t op : _)
    (st : step c s (.opCall t op) = some s') : InvL c s' := by
  l_tac

theorem invl_opLock (c : Cfg) {s s' : State} (hA : InvA c s) (hD : InvD c s) (h : InvL c s) (t : _)
    (st : step c s (.opLock t) = some s') : InvL c s' := by
  l_tac

theorem invl_opDo (c : Cfg) {s s' : State} (hA : InvA c s) (hD : InvD c s) (h : InvL c s) (t : _)
    (st : step c s (.opDo t) = some s') : InvL c s' := by
  l_tac

theorem invl_opUnlock (c : Cfg) {s s' : State} (hA : InvA c s) (hD : InvD c s) (h : InvL c s) (t : _)
    (st : step c s (.opUnlock t) = some s') : InvL c s' := by
  l_tac

theorem invl_setThr (c : Cfg) {s s' : State} (hA : InvA c s) (hD : InvD c s) (h : InvL c s) (t ho : _)
    (st : step c s (.setThr t ho) = some s') : InvL c s' := by
  l_tac

theorem invl_fCall (c : Cfg) {s s' : State} (hA : InvA c s) (hD : InvD c s) (h : InvL c s) (t h0 : _)
    (st : step c s (.fCall t h0) = some s') : InvL c s' := by
  l_tac

theorem invl_fLdFlags (c : Cfg) {s s' : State} (hA : InvA c s) (hD : InvD c s) (h : InvL c s) (t : _)
    (st : step c s (.fLdFlags t) = some s') : InvL c s' := by
  l_tac

theorem invl_fOrStop (c : Cfg) {s s' : State} (hA : InvA c s) (hD : InvD c s) (h : InvL c s) (t : _)
    (st : step c s (.fOrStop t) = some s') : InvL c s' := by
  obtain ⟨o, ho⟩ : ∃ o, (s.tpc t).freeing = o := ⟨_, rfl⟩
  l_tac

theorem invl_fSeeStopped (c : Cfg) {s s' : State} (hA : InvA c s) (hD : InvD c s) (h : InvL c s) (t : _)
    (st : step c s (.fSeeStopped t) = some s') : InvL c s' := by
  l_tac

theorem invl_fLock (c : Cfg) {s s' : State} (hA : InvA c s) (hD : InvD c s) (h : InvL c s) (t : _)
    (st : step c s (.fLock t) = some s') : InvL c s' := by
  l_tac

theorem invl_fChk (c : Cfg) {s s' : State} (hA : InvA c s) (hD : InvD c s) (h : InvL c s) (t : _)
    (st : step c s (.fChk t) = some s') : InvL c s' := by
  l_tac

theorem invl_fUnlock1 (c : Cfg) {s s' : State} (hA : InvA c s) (hD : InvD c s) (h : InvL c s) (t : _)
    (st : step c s (.fUnlock1 t) = some s') : InvL c s' := by
  l_tac

theorem invl_fLock2 (c : Cfg) {s s' : State} (hA : InvA c s) (hD : InvD c s) (h : InvL c s) (t : _)
    (st : step c s (.fLock2 t) = some s') : InvL c s' := by
  l_tac

theorem invl_fSplice (c : Cfg) {s s' : State} (hA : InvA c s) (hD : InvD c s) (h : InvL c s) (t : _)
    (st : step c s (.fSplice t) = some s') : InvL c s' := by
  l_tac

theorem invl_fAddQ (c : Cfg) {s s' : State} (hA : InvA c s) (hD : InvD c s) (h : InvL c s) (t : _)
    (st : step c s (.fAddQ t) = some s') : InvL c s' := by
  l_tac

theorem invl_fDel (c : Cfg) {s s' : State} (hA : InvA c s) (hD : InvD c s) (h : InvL c s) (t : _)
    (st : step c s (.fDel t) = some s') : InvL c s' := by
  obtain ⟨o, ho⟩ : ∃ o, (s.tpc t).freeing = o := ⟨_, rfl⟩
  l_tac

theorem invl_fJoin (c : Cfg) {s s' : State} (hA : InvA c s) (hD : InvD c s) (h : InvL c s) (t : _)
    (st : step c s (.fJoin t) = some s') : InvL c s' := by
  l_tac

theorem invl_fFree (c : Cfg) {s s' : State} (hA : InvA c s) (hD : InvD c s) (h : InvL c s) (t : _)
    (st : step c s (.fFree t) = some s') : InvL c s' := by
  l_tac

theorem invl_hStart (c : Cfg) {s s' : State} (hA : InvA c s) (hD : InvD c s) (h : InvL c s) (x : _)
    (st : step c s (.hStart x) = some s') : InvL c s' := by
  l_tac

theorem invl_hDec0 (c : Cfg) {s s' : State} (hA : InvA c s) (hD : InvD c s) (h : InvL c s) (x : _)
    (st : step c s (.hDec0 x) = some s') : InvL c s' := by
  l_tac

theorem invl_hTop (c : Cfg) {s s' : State} (hA : InvA c s) (hD : InvD c s) (h : InvL c s) (x : _)
    (st : step c s (.hTop x) = some s') : InvL c s' := by
  l_tac

theorem invl_hPause (c : Cfg) {s s' : State} (hA : InvA c s) (hD : InvD c s) (h : InvL c s) (x : _)
    (st : step c s (.hPause x) = some s') : InvL c s' := by
  l_tac

theorem invl_hUnpause (c : Cfg) {s s' : State} (hA : InvA c s) (hD : InvD c s) (h : InvL c s) (x : _)
    (st : step c s (.hUnpause x) = some s') : InvL c s' := by
  l_tac

theorem invl_hSplice (c : Cfg) {s s' : State} (hA : InvA c s) (hD : InvD c s) (h : InvL c s) (x : _)
    (st : step c s (.hSplice x) = some s') : InvL c s' := by
  l_tac

theorem invl_hGpEnd (c : Cfg) {s s' : State} (hA : InvA c s) (hD : InvD c s) (h : InvL c s) (x : _)
    (st : step c s (.hGpEnd x) = some s') : InvL c s' := by
  l_tac

theorem invl_hRunBegin (c : Cfg) {s s' : State} (hA : InvA c s) (hD : InvD c s) (h : InvL c s) (x cb : _)
    (st : step c s (.hRunBegin x cb) = some s') : InvL c s' := by
  l_tac

theorem invl_hRunEnd (c : Cfg) {s s' : State} (hA : InvA c s) (hD : InvD c s) (h : InvL c s) (x : _)
    (st : step c s (.hRunEnd x) = some s') : InvL c s' := by
  l_tac

theorem invl_hInvDone (c : Cfg) {s s' : State} (hA : InvA c s) (hD : InvD c s) (h : InvL c s) (x : _)
    (st : step c s (.hInvDone x) = some s') : InvL c s' := by
  l_tac

theorem invl_hSub (c : Cfg) {s s' : State} (hA : InvA c s) (hD : InvD c s) (h : InvL c s) (x : _)
    (st : step c s (.hSub x) = some s') : InvL c s' := by
  l_tac

theorem invl_hStopChk (c : Cfg) {s s' : State} (hA : InvA c s) (hD : InvD c s) (h : InvL c s) (x : _)
    (st : step c s (.hStopChk x) = some s') : InvL c s' := by
  l_tac

theorem invl_hEmptyChk (c : Cfg) {s s' : State} (hA : InvA c s) (hD : InvD c s) (h : InvL c s) (x : _)
    (st : step c s (.hEmptyChk x) = some s') : InvL c s' := by
  l_tac

theorem invl_hWaitLd (c : Cfg) {s s' : State} (hA : InvA c s) (hD : InvD c s) (h : InvL c s) (x : _)
    (st : step c s (.hWaitLd x) = some s') : InvL c s' := by
  l_tac

theorem invl_hWaitFx (c : Cfg) {s s' : State} (hA : InvA c s) (hD : InvD c s) (h : InvL c s) (x o : _)
    (st : step c s (.hWaitFx x o) = some s') : InvL c s' := by
  l_tac

theorem invl_hSpurious (c : Cfg) {s s' : State} (hA : InvA c s) (hD : InvD c s) (h : InvL c s) (x : _)
    (st : step c s (.hSpurious x) = some s') : InvL c s' := by
  l_tac

theorem invl_hPollW (c : Cfg) {s s' : State} (hA : InvA c s) (hD : InvD c s) (h : InvL c s) (x : _)
    (st : step c s (.hPollW x) = some s') : InvL c s' := by
  l_tac

theorem invl_hDec (c : Cfg) {s s' : State} (hA : InvA c s) (hD : InvD c s) (h : InvL c s) (x : _)
    (st : step c s (.hDec x) = some s') : InvL c s' := by
  l_tac

theorem invl_hPollN (c : Cfg) {s s' : State} (hA : InvA c s) (hD : InvD c s) (h : InvL c s) (x : _)
    (st : step c s (.hPollN x) = some s') : InvL c s' := by
  l_tac

theorem invl_hExitSt (c : Cfg) {s s' : State} (hA : InvA c s) (hD : InvD c s) (h : InvL c s) (x : _)
    (st : step c s (.hExitSt x) = some s') : InvL c s' := by
  l_tac

theorem invl_hExitOr (c : Cfg) {s s' : State} (hA : InvA c s) (hD : InvD c s) (h : InvL c s) (x : _)
    (st : step c s (.hExitOr x) = some s') : InvL c s' := by
  l_tac

theorem invl_extBegin (c : Cfg) {s s' : State} (hA : InvA c s) (hD : InvD c s) (h : InvL c s) (t : _)
    (st : step c s (.extBegin t) = some s') : InvL c s' := by
  l_tac

theorem invl_extEnd (c : Cfg) {s s' : State} (hA : InvA c s) (hD : InvD c s) (h : InvL c s) (t : _)
    (st : step c s (.extEnd t) = some s') : InvL c s' := by
  l_tac

theorem invl_extLock (c : Cfg) {s s' : State} (hA : InvA c s) (hD : InvD c s) (h : InvL c s) (t : _)
    (st : step c s (.extLock t) = some s') : InvL c s' := by
  l_tac

theorem invl_extUnlock (c : Cfg) {s s' : State} (hA : InvA c s) (hD : InvD c s) (h : InvL c s) (t : _)
    (st : step c s (.extUnlock t) = some s') : InvL c s' := by
  l_tac

theorem invl_extCall (c : Cfg) {s s' : State} (hA : InvA c s) (hD : InvD c s) (h : InvL c s) (t id b h0 : _)
    (st : step c s (.extCall t id b h0) = some s') : InvL c s' := by
  l_tac

theorem invl_envPause (c : Cfg) {s s' : State} (hA : InvA c s) (hD : InvD c s) (h : InvL c s) (x v : _)
    (st : step c s (.envPause x v) = some s') : InvL c s' := by
  l_tac

theorem invl_step (c : Cfg) {s s' : State} {l : Label} (hA : InvA c s) (hD : InvD c s) (h : InvL c s)
    (st : step c s l = some s') : InvL c s' := by
  cases l with
  | rlock t => exact invl_rlock c hA hD h t st
  | runlock t => exact invl_runlock c hA hD h t st
  | syncStart t => exact invl_syncStart c hA hD h t st
  | syncEnd t => exact invl_syncEnd c hA hD h t st
  | crCall t id => exact invl_crCall c hA hD h t id st
  | crSelThr t => exact invl_crSelThr c hA hD h t st
  | crSelCpu t cpu => exact invl_crSelCpu c hA hD h t cpu st
  | crSelNoCpu t cpu => exact invl_crSelNoCpu c hA hD h t cpu st
  | gdCall t => exact invl_gdCall c hA hD h t st
  | gdLd t => exact invl_gdLd c hA hD h t st
  | gdLock t => exact invl_gdLock c hA hD h t st
  | gdCreate t => exact invl_gdCreate c hA hD h t st
  | gdUnlock t => exact invl_gdUnlock c hA hD h t st
  | enq t => exact invl_enq c hA hD h t st
  | inc t => exact invl_inc c hA hD h t st
  | ldFlags t => exact invl_ldFlags c hA hD h t st
  | ldFutex t => exact invl_ldFutex c hA hD h t st
  | stFutex t => exact invl_stFutex c hA hD h t st
  | wake t => exact invl_wake c hA hD h t st
  | crRet t => exact invl_crRet c hA hD h t st
  | opCall t op => exact invl_opCall c hA hD h t op st
  | opLock t => exact invl_opLock c hA hD h t st
  | opDo t => exact invl_opDo c hA hD h t st
  | opUnlock t => exact invl_opUnlock c hA hD h t st
  | setThr t ho => exact invl_setThr c hA hD h t ho st
  | fCall t h0 => exact invl_fCall c hA hD h t h0 st
  | fLdFlags t => exact invl_fLdFlags c hA hD h t st
  | fOrStop t => exact invl_fOrStop c hA hD h t st
  | fSeeStopped t => exact invl_fSeeStopped c hA hD h t st
  | fLock t => exact invl_fLock c hA hD h t st
  | fChk t => exact invl_fChk c hA hD h t st
  | fUnlock1 t => exact invl_fUnlock1 c hA hD h t st
  | fLock2 t => exact invl_fLock2 c hA hD h t st
  | fSplice t => exact invl_fSplice c hA hD h t st
  | fAddQ t => exact invl_fAddQ c hA hD h t st
  | fDel t => exact invl_fDel c hA hD h t st
  | fJoin t => exact invl_fJoin c hA hD h t st
  | fFree t => exact invl_fFree c hA hD h t st
  | hStart x => exact invl_hStart c hA hD h x st
  | hDec0 x => exact invl_hDec0 c hA hD h x st
  | hTop x => exact invl_hTop c hA hD h x st
  | hPause x => exact invl_hPause c hA hD h x st
  | hUnpause x => exact invl_hUnpause c hA hD h x st
  | hSplice x => exact invl_hSplice c hA hD h x st
  | hGpEnd x => exact invl_hGpEnd c hA hD h x st
  | hRunBegin x cb => exact invl_hRunBegin c hA hD h x cb st
  | hRunEnd x => exact invl_hRunEnd c hA hD h x st
  | hInvDone x => exact invl_hInvDone c hA hD h x st
  | hSub x => exact invl_hSub c hA hD h x st
  | hStopChk x => exact invl_hStopChk c hA hD h x st
  | hEmptyChk x => exact invl_hEmptyChk c hA hD h x st
  | hWaitLd x => exact invl_hWaitLd c hA hD h x st
  | hWaitFx x o => exact invl_hWaitFx c hA hD h x o st
  | hSpurious x => exact invl_hSpurious c hA hD h x st
  | hPollW x => exact invl_hPollW c hA hD h x st
  | hDec x => exact invl_hDec c hA hD h x st
  | hPollN x => exact invl_hPollN c hA hD h x st
  | hExitSt x => exact invl_hExitSt c hA hD h x st
  | hExitOr x => exact invl_hExitOr c hA hD h x st
  | extBegin t => exact invl_extBegin c hA hD h t st
  | extEnd t => exact invl_extEnd c hA hD h t st
  | extLock t => exact invl_extLock c hA hD h t st
  | extUnlock t => exact invl_extUnlock c hA hD h t st
  | extCall t id b h0 => exact invl_extCall c hA hD h t id b h0 st
  | envPause x v => exact invl_envPause c hA hD h x v st

end UrcuVerif.CallRcu
