import UrcuVerif.CallRcu.Model
/-!
# C03 — inductive invariants of the call_rcu model (helper lemmas; statements in `Props/C03.lean`)

`InvA`: placement of callbacks and well-formedness.  The ghost map `loc` agrees with the concrete
queues, batches and running slots in both directions (`q_loc b_loc c_loc` / `loc_ok`), queues and
batches are duplicate free, every registered callback is somewhere, a thread inside `call_rcu()`
owns its callback (`tpc_ok`), `invN` counts invocations, `fin` = done, helper ids `≥ nextH` are
unused.  One lemma per label (generated text, identical proof script).
-/
set_option linter.unusedVariables false
set_option linter.unusedSimpArgs false
namespace UrcuVerif.CallRcu

def GK.id? : GK → Option Nat
  | .call id => some id
  | _ => none

/-- the callback a thread inside `call_rcu()` is about to enqueue -/
def TPc.pendId : TPc → Option Nat
  | .sel id => some id
  | .gdLd k | .gdLock k | .gdCreate k | .gdUnlock k => k.id?
  | .enq id _ _ => some id
  | _ => none

/-- what the program counter `p` of thread `t` promises -/
def TOk (s : State) (t : Nat) (p : TPc) : Prop :=
  (∀ id, p = .sel id → s.loc id = .pend t) ∧
  (∀ k id, p = .gdLd k ∨ p = .gdLock k ∨ p = .gdCreate k ∨ p = .gdUnlock k → k.id? = some id → s.loc id = .pend t) ∧
  (∀ id h k, p = .enq id h k → s.loc id = .pend t ∧ h < s.nextH) ∧
  (∀ cpu h, p = .opLock (.setCpu cpu (some h)) ∨ p = .opDo (.setCpu cpu (some h)) → h < s.nextH)

/-- what the ghost location of callback `id` promises -/
def LocOk (s : State) (id : Nat) (l : Loc) : Prop :=
  (l = .none → s.reg id = false) ∧ (l ≠ .none → s.reg id = true) ∧
  (l = .done → s.fin id = true) ∧ (l ≠ .done → s.fin id = false) ∧
  (∀ t, l = .pend t → (s.tpc t).pendId = some id) ∧
  (∀ h, l = .queue h → id ∈ s.queue h) ∧ (∀ h, l = .batch h → id ∈ s.batch h) ∧
  (∀ h, l = .run h → s.cur h = some id)

structure InvA (c : Cfg) (s : State) : Prop where
  q_loc : ∀ h id, id ∈ s.queue h → s.loc id = .queue h
  b_loc : ∀ h id, id ∈ s.batch h → s.loc id = .batch h
  c_loc : ∀ h id, s.cur h = some id → s.loc id = .run h
  loc_ok : ∀ id, LocOk s id (s.loc id)
  tpc_ok : ∀ t, TOk s t (s.tpc t)
  q_nodup : ∀ h, (s.queue h).Nodup
  b_nodup : ∀ h, (s.batch h).Nodup
  inv_cnt : ∀ id, s.invN id = if (s.loc id).invoked then 1 else 0
  cur_run : ∀ h, (s.cur h).isSome = true ↔ s.hpc h = .run
  batch_pc : ∀ h, s.batch h ≠ [] → s.hpc h = .gp ∨ s.hpc h = .inv ∨ s.hpc h = .run
  fresh : ∀ h, s.nextH ≤ h → s.hpc h = .none ∧ s.queue h = [] ∧ s.batch h = [] ∧ s.cur h = none
  thr_lt : ∀ t h, s.thr t = some h → h < s.nextH
  cpu_lt : ∀ cpu h, s.percpu cpu = some h → h < s.nextH
  dflt_lt : ∀ h, s.dflt = some h → h < s.nextH
  list_lt : ∀ h, h ∈ s.list → h < s.nextH

theorem mem_of_head? {l : List Nat} {a : Nat} (h : l.head? = some a) : a ∈ l := by
  cases l <;> simp_all
theorem mem_of_mem_tail' {l : List Nat} {x : Nat} (h : x ∈ l.tail) : x ∈ l := List.mem_of_mem_tail h
theorem nodup_tail' {l : List Nat} (h : l.Nodup) : l.tail.Nodup := by
  cases l <;> simp_all
theorem head?_notin_tail {l : List Nat} {a : Nat} (hn : l.Nodup) (h : l.head? = some a) : a ∉ l.tail := by
  cases l <;> simp_all
theorem ne_nil_of_head? {l : List Nat} {a : Nat} (h : l.head? = some a) : l ≠ [] := by
  cases l <;> simp_all
theorem mem_tail_or_head {l : List Nat} {a x : Nat} (h : l.head? = some a) (hx : x ∈ l) : x = a ∨ x ∈ l.tail := by
  cases l <;> simp_all

theorem invA_init (c) : InvA c init := by
  constructor <;> simp [init, TPc.pendId, Loc.invoked, GK.id?, TOk, LocOk]

set_option hygiene false in
macro "a_tac" : tactic => `(tactic| (
  obtain ⟨h1, h2, h3, h4, h5, h6, h7, h8, h9, h10, h11, h12, h13, h14, h15⟩ := h
  simp only [step] at st
  (repeat' split at st)
  all_goals (first | (simp at st; done) | skip)
  all_goals (simp only [Option.some.injEq] at st; subst st)
  all_goals (constructor <;> first | assumption | (simp only [upd, lockS, unlockS, newHelper, relocate, nestOn, csOn, nestOff, K.cont, SetObl, OpObl] at * <;>
    grind [upd, relocate, TOk, LocOk, TPc.pendId, GK.id?, Loc.invoked, → mem_of_head?, → mem_of_mem_tail', nodup_tail', head?_notin_tail, → ne_nil_of_head?, mem_tail_or_head]))))

theorem inva_rlock (c : Cfg) {s s' : State} (h : InvA c s) (t : _)
    (st : step c s (.rlock t) = some s') : InvA c s' := by
  a_tac

theorem inva_runlock (c : Cfg) {s s' : State} (h : InvA c s) (t : _)
    (st : step c s (.runlock t) = some s') : InvA c s' := by
  a_tac

theorem inva_syncStart (c : Cfg) {s s' : State} (h : InvA c s) (t : _)
    (st : step c s (.syncStart t) = some s') : InvA c s' := by
  a_tac

theorem inva_syncEnd (c : Cfg) {s s' : State} (h : InvA c s) (t : _)
    (st : step c s (.syncEnd t) = some s') : InvA c s' := by
  a_tac

theorem inva_crCall (c : Cfg) {s s' : State} (h : InvA c s) (t id : _)
    (st : step c s (.crCall t id) = some s') : InvA c s' := by
  a_tac

theorem inva_crSelThr (c : Cfg) {s s' : State} (h : InvA c s) (t : _)
    (st : step c s (.crSelThr t) = some s') : InvA c s' := by
  a_tac

theorem inva_crSelCpu (c : Cfg) {s s' : State} (h : InvA c s) (t cpu : _)
    (st : step c s (.crSelCpu t cpu) = some s') : InvA c s' := by
  a_tac

theorem inva_crSelNoCpu (c : Cfg) {s s' : State} (h : InvA c s) (t cpu : _)
    (st : step c s (.crSelNoCpu t cpu) = some s') : InvA c s' := by
  a_tac

theorem inva_gdCall (c : Cfg) {s s' : State} (h : InvA c s) (t : _)
    (st : step c s (.gdCall t) = some s') : InvA c s' := by
  a_tac

theorem inva_gdLd (c : Cfg) {s s' : State} (h : InvA c s) (t : _)
    (st : step c s (.gdLd t) = some s') : InvA c s' := by
  a_tac

theorem inva_gdLock (c : Cfg) {s s' : State} (h : InvA c s) (t : _)
    (st : step c s (.gdLock t) = some s') : InvA c s' := by
  a_tac

theorem inva_gdCreate (c : Cfg) {s s' : State} (h : InvA c s) (t : _)
    (st : step c s (.gdCreate t) = some s') : InvA c s' := by
  a_tac

theorem inva_gdUnlock (c : Cfg) {s s' : State} (h : InvA c s) (t : _)
    (st : step c s (.gdUnlock t) = some s') : InvA c s' := by
  a_tac

theorem inva_enq (c : Cfg) {s s' : State} (h : InvA c s) (t : _)
    (st : step c s (.enq t) = some s') : InvA c s' := by
  a_tac

theorem inva_inc (c : Cfg) {s s' : State} (h : InvA c s) (t : _)
    (st : step c s (.inc t) = some s') : InvA c s' := by
  a_tac

theorem inva_ldFlags (c : Cfg) {s s' : State} (h : InvA c s) (t : _)
    (st : step c s (.ldFlags t) = some s') : InvA c s' := by
  a_tac

theorem inva_ldFutex (c : Cfg) {s s' : State} (h : InvA c s) (t : _)
    (st : step c s (.ldFutex t) = some s') : InvA c s' := by
  a_tac

theorem inva_stFutex (c : Cfg) {s s' : State} (h : InvA c s) (t : _)
    (st : step c s (.stFutex t) = some s') : InvA c s' := by
  a_tac

theorem inva_wake (c : Cfg) {s s' : State} (h : InvA c s) (t : _)
    (st : step c s (.wake t) = some s') : InvA c s' := by
  a_tac

theorem inva_crRet (c : Cfg) {s s' : State} (h : InvA c s) (t : _)
    (st : step c s (.crRet t) = some s') : InvA c s' := by
  a_tac

theorem inva_opCall (c : Cfg) {s s' : State} (h : InvA c s) (t op : _)
    (st : step c s (.opCall t op) = some s') : InvA c s' := by
  a_tac

theorem inva_opLock (c : Cfg) {s s' : State} (h : InvA c s) (t : _)
    (st : step c s (.opLock t) = some s') : InvA c s' := by
  a_tac

set_option maxHeartbeats 1600000 in
theorem inva_opDo (c : Cfg) {s s' : State} (h : InvA c s) (t : _)
    (st : step c s (.opDo t) = some s') : InvA c s' := by
  a_tac

theorem inva_opUnlock (c : Cfg) {s s' : State} (h : InvA c s) (t : _)
    (st : step c s (.opUnlock t) = some s') : InvA c s' := by
  a_tac

theorem inva_setThr (c : Cfg) {s s' : State} (h : InvA c s) (t ho : _)
    (st : step c s (.setThr t ho) = some s') : InvA c s' := by
  a_tac

theorem inva_fCall (c : Cfg) {s s' : State} (h : InvA c s) (t h0 : _)
    (st : step c s (.fCall t h0) = some s') : InvA c s' := by
  a_tac

theorem inva_fLdFlags (c : Cfg) {s s' : State} (h : InvA c s) (t : _)
    (st : step c s (.fLdFlags t) = some s') : InvA c s' := by
  a_tac

theorem inva_fOrStop (c : Cfg) {s s' : State} (h : InvA c s) (t : _)
    (st : step c s (.fOrStop t) = some s') : InvA c s' := by
  a_tac

theorem inva_fSeeStopped (c : Cfg) {s s' : State} (h : InvA c s) (t : _)
    (st : step c s (.fSeeStopped t) = some s') : InvA c s' := by
  a_tac

theorem inva_fLock (c : Cfg) {s s' : State} (h : InvA c s) (t : _)
    (st : step c s (.fLock t) = some s') : InvA c s' := by
  a_tac

theorem inva_fChk (c : Cfg) {s s' : State} (h : InvA c s) (t : _)
    (st : step c s (.fChk t) = some s') : InvA c s' := by
  a_tac

theorem inva_fUnlock1 (c : Cfg) {s s' : State} (h : InvA c s) (t : _)
    (st : step c s (.fUnlock1 t) = some s') : InvA c s' := by
  a_tac

theorem inva_fLock2 (c : Cfg) {s s' : State} (h : InvA c s) (t : _)
    (st : step c s (.fLock2 t) = some s') : InvA c s' := by
  a_tac

theorem inva_fSplice (c : Cfg) {s s' : State} (h : InvA c s) (t : _)
    (st : step c s (.fSplice t) = some s') : InvA c s' := by
  a_tac

theorem inva_fAddQ (c : Cfg) {s s' : State} (h : InvA c s) (t : _)
    (st : step c s (.fAddQ t) = some s') : InvA c s' := by
  a_tac

theorem inva_fDel (c : Cfg) {s s' : State} (h : InvA c s) (t : _)
    (st : step c s (.fDel t) = some s') : InvA c s' := by
  a_tac

theorem inva_fJoin (c : Cfg) {s s' : State} (h : InvA c s) (t : _)
    (st : step c s (.fJoin t) = some s') : InvA c s' := by
  a_tac

theorem inva_fFree (c : Cfg) {s s' : State} (h : InvA c s) (t : _)
    (st : step c s (.fFree t) = some s') : InvA c s' := by
  a_tac

theorem inva_hStart (c : Cfg) {s s' : State} (h : InvA c s) (x : _)
    (st : step c s (.hStart x) = some s') : InvA c s' := by
  a_tac

theorem inva_hDec0 (c : Cfg) {s s' : State} (h : InvA c s) (x : _)
    (st : step c s (.hDec0 x) = some s') : InvA c s' := by
  a_tac

theorem inva_hTop (c : Cfg) {s s' : State} (h : InvA c s) (x : _)
    (st : step c s (.hTop x) = some s') : InvA c s' := by
  a_tac

theorem inva_hPause (c : Cfg) {s s' : State} (h : InvA c s) (x : _)
    (st : step c s (.hPause x) = some s') : InvA c s' := by
  a_tac

theorem inva_hUnpause (c : Cfg) {s s' : State} (h : InvA c s) (x : _)
    (st : step c s (.hUnpause x) = some s') : InvA c s' := by
  a_tac

theorem inva_hSplice (c : Cfg) {s s' : State} (h : InvA c s) (x : _)
    (st : step c s (.hSplice x) = some s') : InvA c s' := by
  a_tac

theorem inva_hGpEnd (c : Cfg) {s s' : State} (h : InvA c s) (x : _)
    (st : step c s (.hGpEnd x) = some s') : InvA c s' := by
  a_tac

theorem inva_hRunBegin (c : Cfg) {s s' : State} (h : InvA c s) (x cb : _)
    (st : step c s (.hRunBegin x cb) = some s') : InvA c s' := by
  a_tac

theorem inva_hRunEnd (c : Cfg) {s s' : State} (h : InvA c s) (x : _)
    (st : step c s (.hRunEnd x) = some s') : InvA c s' := by
  a_tac

theorem inva_hInvDone (c : Cfg) {s s' : State} (h : InvA c s) (x : _)
    (st : step c s (.hInvDone x) = some s') : InvA c s' := by
  a_tac

theorem inva_hSub (c : Cfg) {s s' : State} (h : InvA c s) (x : _)
    (st : step c s (.hSub x) = some s') : InvA c s' := by
  a_tac

theorem inva_hStopChk (c : Cfg) {s s' : State} (h : InvA c s) (x : _)
    (st : step c s (.hStopChk x) = some s') : InvA c s' := by
  a_tac

theorem inva_hEmptyChk (c : Cfg) {s s' : State} (h : InvA c s) (x : _)
    (st : step c s (.hEmptyChk x) = some s') : InvA c s' := by
  a_tac

theorem inva_hWaitLd (c : Cfg) {s s' : State} (h : InvA c s) (x : _)
    (st : step c s (.hWaitLd x) = some s') : InvA c s' := by
  a_tac

theorem inva_hWaitFx (c : Cfg) {s s' : State} (h : InvA c s) (x o : _)
    (st : step c s (.hWaitFx x o) = some s') : InvA c s' := by
  a_tac

theorem inva_hSpurious (c : Cfg) {s s' : State} (h : InvA c s) (x : _)
    (st : step c s (.hSpurious x) = some s') : InvA c s' := by
  a_tac

theorem inva_hPollW (c : Cfg) {s s' : State} (h : InvA c s) (x : _)
    (st : step c s (.hPollW x) = some s') : InvA c s' := by
  a_tac

theorem inva_hDec (c : Cfg) {s s' : State} (h : InvA c s) (x : _)
    (st : step c s (.hDec x) = some s') : InvA c s' := by
  a_tac

theorem inva_hPollN (c : Cfg) {s s' : State} (h : InvA c s) (x : _)
    (st : step c s (.hPollN x) = some s') : InvA c s' := by
  a_tac

theorem inva_hExitSt (c : Cfg) {s s' : State} (h : InvA c s) (x : _)
    (st : step c s (.hExitSt x) = some s') : InvA c s' := by
  a_tac

theorem inva_hExitOr (c : Cfg) {s s' : State} (h : InvA c s) (x : _)
    (st : step c s (.hExitOr x) = some s') : InvA c s' := by
  a_tac

theorem inva_extBegin (c : Cfg) {s s' : State} (h : InvA c s) (t : _)
    (st : step c s (.extBegin t) = some s') : InvA c s' := by
  a_tac

theorem inva_extEnd (c : Cfg) {s s' : State} (h : InvA c s) (t : _)
    (st : step c s (.extEnd t) = some s') : InvA c s' := by
  a_tac

theorem inva_extLock (c : Cfg) {s s' : State} (h : InvA c s) (t : _)
    (st : step c s (.extLock t) = some s') : InvA c s' := by
  a_tac

theorem inva_extUnlock (c : Cfg) {s s' : State} (h : InvA c s) (t : _)
    (st : step c s (.extUnlock t) = some s') : InvA c s' := by
  a_tac

theorem inva_extCall (c : Cfg) {s s' : State} (h : InvA c s) (t id b h0 : _)
    (st : step c s (.extCall t id b h0) = some s') : InvA c s' := by
  a_tac

theorem inva_envPause (c : Cfg) {s s' : State} (h : InvA c s) (x v : _)
    (st : step c s (.envPause x v) = some s') : InvA c s' := by
  a_tac

theorem inva_step (c : Cfg) {s s' : State} {l : Label} (h : InvA c s)
    (st : step c s l = some s') : InvA c s' := by
  cases l with
  | rlock t => exact inva_rlock c h t st
  | runlock t => exact inva_runlock c h t st
  | syncStart t => exact inva_syncStart c h t st
  | syncEnd t => exact inva_syncEnd c h t st
  | crCall t id => exact inva_crCall c h t id st
  | crSelThr t => exact inva_crSelThr c h t st
  | crSelCpu t cpu => exact inva_crSelCpu c h t cpu st
  | crSelNoCpu t cpu => exact inva_crSelNoCpu c h t cpu st
  | gdCall t => exact inva_gdCall c h t st
  | gdLd t => exact inva_gdLd c h t st
  | gdLock t => exact inva_gdLock c h t st
  | gdCreate t => exact inva_gdCreate c h t st
  | gdUnlock t => exact inva_gdUnlock c h t st
  | enq t => exact inva_enq c h t st
  | inc t => exact inva_inc c h t st
  | ldFlags t => exact inva_ldFlags c h t st
  | ldFutex t => exact inva_ldFutex c h t st
  | stFutex t => exact inva_stFutex c h t st
  | wake t => exact inva_wake c h t st
  | crRet t => exact inva_crRet c h t st
  | opCall t op => exact inva_opCall c h t op st
  | opLock t => exact inva_opLock c h t st
  | opDo t => exact inva_opDo c h t st
  | opUnlock t => exact inva_opUnlock c h t st
  | setThr t ho => exact inva_setThr c h t ho st
  | fCall t h0 => exact inva_fCall c h t h0 st
  | fLdFlags t => exact inva_fLdFlags c h t st
  | fOrStop t => exact inva_fOrStop c h t st
  | fSeeStopped t => exact inva_fSeeStopped c h t st
  | fLock t => exact inva_fLock c h t st
  | fChk t => exact inva_fChk c h t st
  | fUnlock1 t => exact inva_fUnlock1 c h t st
  | fLock2 t => exact inva_fLock2 c h t st
  | fSplice t => exact inva_fSplice c h t st
  | fAddQ t => exact inva_fAddQ c h t st
  | fDel t => exact inva_fDel c h t st
  | fJoin t => exact inva_fJoin c h t st
  | fFree t => exact inva_fFree c h t st
  | hStart x => exact inva_hStart c h x st
  | hDec0 x => exact inva_hDec0 c h x st
  | hTop x => exact inva_hTop c h x st
  | hPause x => exact inva_hPause c h x st
  | hUnpause x => exact inva_hUnpause c h x st
  | hSplice x => exact inva_hSplice c h x st
  | hGpEnd x => exact inva_hGpEnd c h x st
  | hRunBegin x cb => exact inva_hRunBegin c h x cb st
  | hRunEnd x => exact inva_hRunEnd c h x st
  | hInvDone x => exact inva_hInvDone c h x st
  | hSub x => exact inva_hSub c h x st
  | hStopChk x => exact inva_hStopChk c h x st
  | hEmptyChk x => exact inva_hEmptyChk c h x st
  | hWaitLd x => exact inva_hWaitLd c h x st
  | hWaitFx x o => exact inva_hWaitFx c h x o st
  | hSpurious x => exact inva_hSpurious c h x st
  | hPollW x => exact inva_hPollW c h x st
  | hDec x => exact inva_hDec c h x st
  | hPollN x => exact inva_hPollN c h x st
  | hExitSt x => exact inva_hExitSt c h x st
  | hExitOr x => exact inva_hExitOr c h x st
  | extBegin t => exact inva_extBegin c h t st
  | extEnd t => exact inva_extEnd c h t st
  | extLock t => exact inva_extLock c h t st
  | extUnlock t => exact inva_extUnlock c h t st
  | extCall t id b h0 => exact inva_extCall c h t id b h0 st
  | envPause x v => exact inva_envPause c h x v st

end UrcuVerif.CallRcu
