import UrcuVerif.CallRcu.LiveCall2
/-! Step-level lemmas for the hand-over of the callbacks of a helper that is being destroyed
(`call_rcu_data_free`): the helper exits, the freeing thread splices the leftovers onto the default helper. -/
set_option linter.unusedSimpArgs false
set_option linter.unusedVariables false
namespace UrcuVerif.CallRcu
open UrcuVerif UrcuVerif.Fair

def GK.freeH : GK → Option Nat
  | .free h => some h | .call _ => none | .ret => none
def K.stopH (k : K) (h : Nat) : Option Nat :=
  match k with
  | .fstop => some h | .user => none | .ext => none | .fdflt _ => none

/-- the helper a thread is destroying, while it has not yet dealt with the leftovers -/
def TPc.early : TPc → Option Nat
  | .fLdFlags h => some h | .fOrStop h => some h | .fWaitStopped h => some h
  | .enq _ h k => k.stopH h | .inc h k => k.stopH h | .ldFlags h k => k.stopH h | .ldFutex h k => k.stopH h
  | .stFutex h k => k.stopH h | .wake h k => k.stopH h
  | .fLock h => some h | .fChk h => some h | .fUnlock1 h => some h | .fLock2 h => some h | .fSplice h => some h
  | .gdLd k => k.freeH | .gdLock k => k.freeH | .gdCreate k => k.freeH | .gdUnlock k => k.freeH
  | .fAddQ _ => none | .fDel _ => none | .fJoin _ => none | .fFree _ => none
  | .idle => none | .ext => none | .sync => none | .sel _ => none | .crRet => none
  | .opLock _ => none | .opDo _ => none | .opUnlock _ => none

theorem cont_early (k : K) (h : Nat) : (k.cont h).early = k.stopH h := by
  cases k <;> rfl

/-- **the destroyer exists**: a helper that was asked to stop and whose leftovers have not been dealt with is being
destroyed by some thread that is still before the splice -/
def InvS (s : State) : Prop := ∀ h, s.stop h = true → s.retired h = false → ∃ t, (s.tpc t).early = some h

theorem invS_init : InvS init := by intro h hs; simp [init] at hs

theorem invS_step (c : Cfg) {s s' : State} {l : Label} (h : InvS s) (st : step c s l = some s') : InvS s' := by
  unfold InvS at *
  cases l <;> c_bash <;> grind [TPc.early, cont_early, GK.freeH, K.stopH]

theorem invS_reach (c : Cfg) {s : State} (h : Reach c s) : InvS s := by
  induction h with
  | init => exact invS_init
  | step _ st ih => exact invS_step c ih st

/-- STOP is only ever requested by `call_rcu_data_free` -/
def InvS2 (s : State) : Prop := ∀ h, s.stop h = true → s.retiring h = true

theorem invS2_init : InvS2 init := by intro h hs; simp [init] at hs

theorem invS2_step (c : Cfg) {s s' : State} {l : Label} (hD : InvD c s) (h : InvS2 s) (st : step c s l = some s') : InvS2 s' := by
  have key : ∀ t h, s.tpc t = .fOrStop h → s.retiring h = true := by
    intro t h ht
    have h1 := hD.f_ok t h 0 (by rw [ht]; rfl)
    unfold FOk at h1
    exact h1.1
  unfold InvS2 at *
  cases l <;> c_bash <;> grind

theorem invS2_reach (c : Cfg) {s : State} (h : Reach c s) : InvS2 s := by
  induction h with
  | init => exact invS2_init
  | step r st ih => exact invS2_step c (inv_reach_d c r).2.2.1 ih st

/-- own steps of the helper in the linear part of its loop, STOP allowed: towards the splice or the exit -/
theorem lin_own' (c : Cfg) {s s' : State} {l : Label} (x id : Nat) (hl : (s.hpc x).lin = true)
    (hp : s.pause x = false) (hq : id ∈ s.queue x) (ho : hOwn x l) (st : step c s l = some s') :
    id ∈ s'.batch x ∨ (s'.hpc x).exiting = true ∨ ((s'.hpc x).lin = true ∧ linRank (s'.hpc x) < linRank (s.hpc x)) := by
  have hne : s.queue x ≠ [] := by intro h; rw [h] at hq; simp at hq
  unfold hOwn at ho
  cases l <;> simp only [helperLabel, beq_iff_eq, Bool.false_eq_true] at ho <;> subst ho <;>
    simp only [step] at st <;> (repeat' split at st) <;>
    (first | (simp at st; done) | skip) <;>
    simp only [Option.some.injEq] at st <;> subst st <;>
    simp only [upd, ↓reduceIte] <;> simp_all [HPc.lin, linRank, HPc.exiting] <;> (repeat' split) <;>
    simp_all [HPc.lin, linRank, HPc.exiting]

/-- a queued callback stays in the queue of a helper that has not exited until the helper splices it out -/
theorem queue_unless' (c : Cfg) {s s' : State} {l : Label} (hD : InvD c s) (x id : Nat)
    (hne : (s.hpc x).exiting = false) (hq : id ∈ s.queue x) (st : step c s l = some s') :
    id ∈ s'.queue x ∨ id ∈ s'.batch x := by
  have key : ∀ t h, s.tpc t = .fSplice h → (s.hpc h).exiting = true := by
    intro t h ht
    have h1 := hD.f_ok t h 1 (by rw [ht]; rfl)
    unfold FOk at h1
    rw [hD.stopped_dead h (h1.2.2.2.2.1 (Nat.le_refl 1))]; rfl
  cases l <;> simp only [step] at st <;> (repeat' split at st) <;>
    (first | (simp at st; done) | skip) <;>
    simp only [Option.some.injEq] at st <;> subst st <;>
    simp only [upd, lockS, unlockS, newHelper, nestOn, csOn, nestOff] at * <;> grind

/-- the helper's exit: `exitSt → exitOr → dead` -/
def exitRank : HPc → Nat
  | .exitSt => 2 | .exitOr => 1
  | .dead => 0 | .none => 0 | .start => 0 | .dec0 => 0 | .top => 0 | .pausing => 0 | .paused => 0
  | .splice => 0 | .gp => 0 | .inv => 0 | .run => 0 | .sub => 0 | .stopchk => 0
  | .emptychk => 0 | .waitLd => 0 | .waitFx => 0 | .asleep => 0 | .pollW => 0 | .dec => 0 | .pollN => 0

/-- any step from a state in which `x` is exiting with `id` still in its queue -/
theorem exit_step (c : Cfg) {s s' : State} {l : Label} (hA : InvA c s) (hD : InvD c s) (x id : Nat)
    (he : (s.hpc x).exiting = true) (hnd : s.hpc x ≠ .dead) (hq : id ∈ s.queue x) (st : step c s l = some s') :
    (s'.hpc x).exiting = true ∧ id ∈ s'.queue x ∧
      (hOwn x l → exitRank (s'.hpc x) < exitRank (s.hpc x)) ∧ (¬ hOwn x l → s'.hpc x = s.hpc x) := by
  have a11 := hA.fresh x
  have key : ∀ t h, s.tpc t = .fSplice h → s.hpc h = .dead := by
    intro t h ht
    have h1 := hD.f_ok t h 1 (by rw [ht]; rfl)
    unfold FOk at h1
    exact hD.stopped_dead h (h1.2.2.2.2.1 (Nat.le_refl 1))
  unfold hOwn
  cases l <;> simp only [helperLabel, beq_iff_eq, Bool.false_eq_true] <;>
    simp only [step] at st <;> (repeat' split at st) <;>
    (first | (simp at st; done) | skip) <;>
    simp only [Option.some.injEq] at st <;> subst st <;>
    simp only [upd, lockS, unlockS, newHelper, nestOn, csOn, nestOff] at * <;> grind [HPc.exiting, exitRank]

theorem exit_enabled (c : Cfg) {s : State} (x : Nat) (he : (s.hpc x).exiting = true) (hnd : s.hpc x ≠ .dead) :
    Enabled (step c) (hOwn x) s := by
  obtain ⟨l, h1, h2⟩ := helper_no_stuck c s x (by
    refine ⟨?_, hnd, ?_, ?_, ?_, ?_⟩ <;> (intro h; rw [h] at he; cases he))
  exact ⟨l, h1, h2⟩

end UrcuVerif.CallRcu
