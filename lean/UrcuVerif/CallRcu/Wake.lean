import UrcuVerif.Machine.Upd
/-!
# C03 — the sleep / wake-up handshake of a call_rcu helper on x86-TSO with explicit store buffers
(stand-alone model; instance of the pattern of `Handshake/Tso.lean`; statements in `Props/C03.lean`)

helper (`call_rcu_thread`, futex-woken):
    `hDec`   `uatomic_dec(&crdp->futex)` – locked RMW, 0 → -1 ; `cmm_smp_mb()`
    `hTake`  splice the whole queue, grace period, invoke (abstracted: the queue becomes empty)
    `hChk`   `cds_wfcq_empty()`: non-empty → poll, take again ; empty → `call_rcu_wait()`:
    `hWaitLd` load futex: ≠ -1 → return ; = -1 → `hWaitFx` `FUTEX_WAIT(&futex, -1)` – sleeps only if the value
             still is -1 (else EAGAIN → return); leaves the sleep by `FUTEX_WAKE`, spuriously or by EINTR and
             re-checks the value ; after the return: poll, `hDec` again.
waker `i` (`_call_rcu()` – any number of wakers, each any number of times):
    `kEnq`   `cds_wfcq_enqueue`: `xchg` of the tail – locked, drains the store buffer, globally visible at once
             (+ `uatomic_inc(&qlen)`, locked; load of `flags`) ; `cmm_smp_mb()`
    `kLd`    `r := futex`
    `kSt`    `r = -1`: `futex := 0` – a plain store: it goes into the waker's store buffer (`bfut i`)
    `kWake`  `FUTEX_WAKE` – a system call: enabled only once the store buffer has drained
    `flush`  the memory system commits the buffered store (any time)
`Cfg.decAfter = true` is the broken variant in which the helper decrements the futex only after the
emptiness check (necessity witness `lost_wakeup_if_dec_after_check`).
-/
namespace UrcuVerif.CallRcuWake

structure Cfg where
  n : Nat
  decAfter : Bool := false

inductive HPc | dec | take | chk | waitLd | waitFx | asleep
  deriving DecidableEq, Repr
inductive KPc | k0 | kmb | k2 | k3
  deriving DecidableEq, Repr

structure State where
  futex : Int
  q     : Nat               -- number of callbacks in the queue
  hpc   : HPc
  kpc   : Nat → KPc
  r     : Nat → Int
  bfut  : Nat → Bool        -- waker i's store buffer holds `futex := 0`
  taken : Nat               -- ghost: callbacks the helper has taken

def init (c : Cfg) : State :=
  { futex := 0, q := 0, hpc := if c.decAfter then .take else .dec, kpc := fun _ => .k0, r := fun _ => 0,
    bfut := fun _ => false, taken := 0 }

inductive FOut | sleep | eagain | eintr | spurious
  deriving DecidableEq, Repr

inductive Label
  | hDec | hTake | hChk | hWaitLd | hWaitFx (o : FOut) | hSpurious
  | kEnq (i : Nat) | kLd (i : Nat) | kSt (i : Nat) | kSkip (i : Nat) | kWake (i : Nat) | flush (i : Nat)
  deriving DecidableEq, Repr

open UrcuVerif in
def step (c : Cfg) (s : State) : Label → Option State
  | .hDec => if s.hpc = .dec then some { s with futex := s.futex - 1, hpc := if c.decAfter then .waitLd else .take } else none
  | .hTake => if s.hpc = .take then some { s with q := 0, taken := s.taken + s.q, hpc := .chk } else none
  | .hChk =>
    if s.hpc = .chk then
      some { s with hpc := if s.q = 0 then (if c.decAfter then .dec else .waitLd) else .take }
    else none
  | .hWaitLd =>
    if s.hpc = .waitLd then
      some { s with hpc := if s.futex = -1 then .waitFx else (if c.decAfter then .take else .dec) }
    else none
  | .hWaitFx o =>
    if s.hpc = .waitFx then
      match o with
      | .sleep => if s.futex = -1 then some { s with hpc := .asleep } else none
      | .eagain => if s.futex ≠ -1 then some { s with hpc := if c.decAfter then .take else .dec } else none
      | .eintr => some { s with hpc := .waitLd }
      | .spurious => some { s with hpc := .waitLd }
    else none
  | .hSpurious => if s.hpc = .asleep then some { s with hpc := .waitLd } else none
  | .kEnq i =>
    if i < c.n ∧ s.kpc i = .k0 ∧ s.bfut i = false then some { s with q := s.q + 1, kpc := upd s.kpc i .kmb } else none
  | .kLd i =>
    if i < c.n ∧ s.kpc i = .kmb then
      some { s with r := upd s.r i (if s.bfut i then 0 else s.futex), kpc := upd s.kpc i .k2 }
    else none
  | .kSt i =>
    if i < c.n ∧ s.kpc i = .k2 ∧ s.r i = -1 then some { s with bfut := upd s.bfut i true, kpc := upd s.kpc i .k3 } else none
  | .kSkip i =>
    if i < c.n ∧ s.kpc i = .k2 ∧ s.r i ≠ -1 then some { s with kpc := upd s.kpc i .k0 } else none
  | .kWake i =>
    if i < c.n ∧ s.kpc i = .k3 ∧ s.bfut i = false then
      some { s with kpc := upd s.kpc i .k0, hpc := if s.hpc = .asleep then .waitLd else s.hpc }
    else none
  | .flush i =>
    if s.bfut i = true then some { s with futex := 0, bfut := upd s.bfut i false } else none

inductive Reach (c : Cfg) : State → Prop
  | init : Reach c (init c)
  | step {s s' l} : Reach c s → step c s l = some s' → Reach c s'

def run (c : Cfg) : State → List Label → Option State
  | s, [] => some s
  | s, l :: ls => match step c s l with
    | none => none
    | some s' => run c s' ls

end UrcuVerif.CallRcuWake
