import UrcuVerif.Machine.Fair
import UrcuVerif.CallRcu.WakeInv
/-! Helper lemmas for `tso_helper_eventually_wakes` (`Props/LiveC03.lean`): the sleep / wake-up handshake of a
call_rcu helper with explicit store buffers (`CallRcu/Wake.lean`). -/
set_option linter.unusedSimpArgs false
namespace UrcuVerif.CallRcuWake
open UrcuVerif UrcuVerif.Fair

/-- the steps of waker `i` on its wake path (after the enqueue `kEnq i`, which is the application's decision):
futex test, `futex := 0`, `FUTEX_WAKE`, and the commit of its store buffer -/
def wakeLabels (i : Nat) : List Label := [.kLd i, .kSt i, .kSkip i, .kWake i, .flush i]

def kRank : KPc → Nat
  | .kmb => 3 | .k2 => 2 | .k3 => 1 | .k0 => 0

/-- own-step measure of waker `i`'s wake path -/
def measure (s : State) (i : Nat) : Nat := 2 * kRank (s.kpc i) + (if s.bfut i then 1 else 0)

/-- a waker on its wake path has an enabled step of its own -/
theorem waker_enabled (c : Cfg) {s : State} (i : Nat) (hi : i < c.n) (hk : s.kpc i ≠ .k0) :
    Enabled (step c) (fun l => l ∈ wakeLabels i) s := by
  by_cases hf : s.bfut i = true
  · exact ⟨.flush i, by simp [wakeLabels], by simp [step, hf]⟩
  · have hf : s.bfut i = false := by simpa using hf
    cases hp : s.kpc i with
    | k0 => exact absurd hp hk
    | kmb => exact ⟨.kLd i, by simp [wakeLabels], by simp [step, hi, hp]⟩
    | k2 =>
      by_cases hr : s.r i = -1
      · exact ⟨.kSt i, by simp [wakeLabels], by simp [step, hi, hp, hr]⟩
      · exact ⟨.kSkip i, by simp [wakeLabels], by simp [step, hi, hp, hr]⟩
    | k3 => exact ⟨.kWake i, by simp [wakeLabels], by simp [step, hi, hp, hf]⟩

theorem waker_dec (c : Cfg) {s s' : State} (i : Nat) {l : Label} (hl : l ∈ wakeLabels i)
    (st : step c s l = some s') : measure s' i < measure s i := by
  simp only [wakeLabels, List.mem_cons, List.mem_nil_iff, or_false] at hl
  rcases hl with rfl | rfl | rfl | rfl | rfl <;>
    simp only [step] at st <;> split at st <;> simp only [Option.some.injEq, reduceCtorEq] at st <;>
    subst st <;> simp_all [measure, kRank, upd] <;> (try split) <;> omega

/-- while the helper sleeps, a step that is not on waker `i`'s wake path leaves `i` alone (a waker on its wake path
cannot enqueue) – or wakes the helper -/
theorem sleep_frame (c : Cfg) {s s' : State} {l : Label} (i : Nat) (hs : s.hpc = .asleep) (hk : s.kpc i ≠ .k0)
    (hl : l ∉ wakeLabels i) (st : step c s l = some s') :
    s'.hpc ≠ .asleep ∨ (s'.hpc = .asleep ∧ s'.kpc i = s.kpc i ∧ s'.bfut i = s.bfut i ∧ s'.r i = s.r i) := by
  cases l <;> simp only [step] at st <;> (repeat' split at st) <;> simp only [Option.some.injEq, reduceCtorEq] at st <;>
    subst st <;> simp_all [wakeLabels, upd] <;> grind

/-- the futex of a sleeping helper is only changed by the commit of a waker's `futex := 0` -/
theorem sleep_futex (c : Cfg) {s s' : State} {l : Label} (hs : s.hpc = .asleep) (st : step c s l = some s') :
    s'.futex = s.futex ∨ s'.futex = 0 := by
  cases l <;> simp only [step] at st <;> (repeat' split at st) <;> simp only [Option.some.injEq, reduceCtorEq] at st <;>
    subst st <;> simp_all

/-- while the helper sleeps on `futex = -1`, a waker that is going to wake it stays so – until the futex is reset or
the helper leaves the sleep -/
theorem willWake_unless (c : Cfg) {s s' : State} {l : Label} (I : Inv c s) (i : Nat) (hw : willWake s i)
    (hs : s.hpc = .asleep) (hf : s.futex = -1) (st : step c s l = some s') :
    willWake s' i ∨ s'.hpc ≠ .asleep ∨ s'.futex ≠ -1 := by
  have hb := I.bfut_k3 i
  by_cases hl : l ∈ wakeLabels i
  · simp only [wakeLabels, List.mem_cons, List.mem_nil_iff, or_false] at hl
    unfold willWake at hw ⊢
    rcases hl with rfl | rfl | rfl | rfl | rfl <;>
      simp only [step] at st <;> split at st <;> simp only [Option.some.injEq, reduceCtorEq] at st <;>
      subst st <;> simp_all [upd] <;> grind
  · have hk : s.kpc i ≠ .k0 := by unfold willWake at hw; grind
    rcases sleep_frame c i hs hk hl st with h | ⟨-, h1, h2, h3⟩
    · exact Or.inr (Or.inl h)
    · left; unfold willWake at hw ⊢; rw [h1, h2, h3]; exact hw

end UrcuVerif.CallRcuWake
