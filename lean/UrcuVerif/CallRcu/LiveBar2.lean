import UrcuVerif.CallRcu.LiveBarrier
/-! Additional invariants of the barrier layer needed for the end-to-end liveness of `rcu_barrier()`
(`Props/LiveC04E2E.lean`): the ghost `mrun` is accurate, a finished marker has decremented the count, every helper of
the barrier has its marker or is still to get one, the helpers still to be given a marker are in the list. -/
set_option linter.unusedSimpArgs false
set_option linter.unusedVariables false
namespace UrcuVerif.CallRcu
open UrcuVerif

/-- `mrun` is the tag of the callback the helper is running -/
def BInvC (s : BState) : Prop := ∀ x cb, s.base.cur x = some cb → s.mrun x = s.base.mark cb

theorem binvC_init : BInvC binit := by intro x cb h; simp [binit, init] at h

set_option hygiene false in
macro "bb_split" : tactic => `(tactic| (
  simp only [bstep, step] at st
  (repeat' split at st)
  all_goals (first | (simp at st; done) | skip)
  all_goals (simp only [Option.some.injEq] at st; subst st)
  all_goals (try (rename_i hb; (repeat' split at hb); all_goals (first | (simp at hb; done) | skip); all_goals (simp only [Option.some.injEq] at hb; subst hb)))
  all_goals (try (rename_i hb _; (repeat' split at hb); all_goals (first | (simp at hb; done) | skip); all_goals (simp only [Option.some.injEq] at hb; subst hb)))))

/-- base steps other than the hooks do not touch `mark` -/
theorem mark_frame (c : Cfg) {s s' : State} {l : Label} (hl : l.isHook = false) (st : step c s l = some s') :
    s'.mark = s.mark := by
  cases l <;> simp only [Label.isHook, reduceCtorEq] at hl <;> simp only [step] at st <;> (repeat' split at st) <;>
    (first | (simp at st; done) | skip) <;>
    simp only [Option.some.injEq] at st <;> subst st <;> rfl

/-- base steps other than the begin / end of a callback do not touch `cur` -/
theorem cur_frame (c : Cfg) {s s' : State} {l : Label} (h1 : ∀ h cb, l ≠ .hRunBegin h cb) (h2 : ∀ h, l ≠ .hRunEnd h)
    (st : step c s l = some s') : s'.cur = s.cur := by
  cases l <;> simp only [step] at st <;> (repeat' split at st) <;>
    (first | (simp at st; done) | skip) <;>
    simp only [Option.some.injEq] at st <;> subst st <;> (first | rfl | (exfalso; first | exact h1 _ _ rfl | exact h2 _ rfl))

theorem binvc_step (c : Cfg) {s s' : BState} {l : BLabel} (hA : InvA c s.base) (h : BInvC s)
    (st : bstep c s l = some s') : BInvC s' := by
  have a3 := hA.c_loc
  have a4 := hA.loc_ok
  unfold BInvC at *
  cases l with
  | base l =>
    simp only [bstep] at st
    split at st
    · simp at st
    · rename_i hh
      have hh' : l.isHook = false := by simpa using hh
      split at st
      · -- hRunBegin
        split at st
        · rename_i hb
          simp only [Option.some.injEq] at st; subst st
          have hm := mark_frame c hh' hb
          simp only [step] at hb
          split at hb
          · simp only [Option.some.injEq] at hb; subst hb
            intro x cb hc
            simp only [upd] at hc ⊢
            grind
          · simp at hb
        · simp at st
      · split at st
        · simp at st
        · split at st
          · rename_i hb
            simp only [Option.some.injEq] at st; subst st
            simp only [step] at hb
            (repeat' split at hb) <;> (first | (simp at hb; done) | skip)
            simp only [Option.some.injEq] at hb; subst hb
            intro x cb hc
            simp only [upd] at hc ⊢
            grind
          · simp at st
      · split at st
        · rename_i hb
          simp only [Option.some.injEq] at st; subst st
          intro x cb hc
          have hm := mark_frame c hh' hb
          have hcur := cur_frame c (by intro h cb e; exact (by assumption : ∀ h cb, l = Label.hRunBegin h cb → False) h cb e)
            (by intro h e; exact (by assumption : ∀ h, l = Label.hRunEnd h → False) h e) hb
          rw [hm]; rw [hcur] at hc; exact h x cb hc
        · simp at st
  | _ =>
    bb_split
    all_goals (simp only [upd] at * <;> grind [LocOk])

theorem binvC_reach (c : Cfg) {s : BState} (h : BReach c s) : BInvC s := by
  induction h with
  | init => exact binvC_init
  | step r st ih => exact binvc_step c (reach_d c (ball_reach c r).R).1 ih st

/-- what a `.base l` step leaves alone (beyond `bstep_base`) -/
theorem bstep_base2 (c : Cfg) {s s' : BState} {l : Label} (st : bstep c s (.base l) = some s') :
    s'.mid = s.mid ∧ s'.cnt = s.cnt ∧ s'.fut = s.fut ∧ s'.ref = s.ref := by
  simp only [bstep] at st
  (repeat' split at st)
  all_goals (first | (simp at st; done) | skip)
  all_goals (simp only [Option.some.injEq] at st; subst st)
  all_goals (simp_all)

/-- every helper of an initialised barrier has its marker, or is still to be given one -/
def BInvG (s : BState) : Prop :=
  ∀ b h', s.inited b = true → h' ∈ s.hs b → h' ∈ s.todo b ∨ s.base.mark (s.mid b h') = some (b, h')

theorem binvG_init : BInvG binit := by intro b h' hi; simp [binit] at hi

theorem binvg_step (c : Cfg) {s s' : BState} {l : BLabel} (hP : BInvP c s) (hK : BInvK c s) (h : BInvG s)
    (st : bstep c s l = some s') : BInvG s' := by
  have p2 := hP.k_early
  have k1 := hK.k_mark
  unfold BInvG at *
  cases l with
  | base l =>
    obtain ⟨hb, hh, e1, -, e2, -, -, -, e3, -, -⟩ := bstep_base c st
    have e4 := (bstep_base2 c st).1
    have hm := mark_frame c hh hb
    intro b h' hi hm'
    rw [e1] at hi; rw [e3] at hm'
    rw [e2, e4, hm]; exact h b h' hi hm'
  | _ =>
    bb_split
    all_goals (simp only [upd] at * <;> grind [→ mem_of_head?', → mem_of_tail', mem_tail_or_head])

/-- `fin` changes only at the end of a callback -/
theorem fin_frame (c : Cfg) {s s' : State} {l : Label} (h2 : ∀ h, l ≠ .hRunEnd h) (st : step c s l = some s') :
    s'.fin = s.fin := by
  cases l <;> simp only [step] at st <;> (repeat' split at st) <;>
    (first | (simp at st; done) | skip) <;>
    simp only [Option.some.injEq] at st <;> subst st <;> (first | rfl | (exfalso; exact h2 _ rfl))

/-- a marker that has finished has decremented `barrier_count` -/
def BInvF (s : BState) : Prop :=
  ∀ id b h', s.base.mark id = some (b, h') → s.base.fin id = true → s.mdone b h' = true

theorem binvF_init : BInvF binit := by intro id b h' hm; simp [binit, init] at hm

theorem binvf_step (c : Cfg) {s s' : BState} {l : BLabel} (hA : InvA c s.base) (hK : BInvK c s) (hC : BInvC s) (h : BInvF s)
    (st : bstep c s l = some s') : BInvF s' := by
  have a4 := hA.loc_ok
  have k2 := hK.k_run
  have key : ∀ id, s.base.reg id = false → s.base.fin id = false := by
    intro id hr
    have := a4 id
    unfold LocOk at this
    cases hl : s.base.loc id <;> simp_all
  unfold BInvF BInvC at *
  cases l with
  | base l =>
    obtain ⟨hb, hh, -, -, -, -, -, e5, -, -, -⟩ := bstep_base c st
    have hm := mark_frame c hh hb
    intro id b h' h1 h2
    rw [hm] at h1; rw [e5]
    by_cases hre : ∃ x, l = .hRunEnd x
    · obtain ⟨x, rfl⟩ := hre
      simp only [bstep, Label.isHook, Bool.false_eq_true, ↓reduceIte] at st
      split at st
      · simp at st
      · rename_i hne
        simp only [step] at hb
        (repeat' split at hb) <;> (first | (simp at hb; done) | skip)
        simp only [Option.some.injEq] at hb
        rw [← hb] at h2
        simp only [upd] at h2
        rename_i cb hcur _
        by_cases hid : id = cb
        · subst hid
          have hmr := hC x id hcur
          rw [h1] at hmr
          have := (k2 x b h' hmr).2.2
          have hfin : s.mpc x = .fin := by
            apply Classical.byContradiction
            intro hf
            exact hne ⟨by rw [hmr]; rfl, hf⟩
          cases hd : s.mdone b h' with
          | true => rfl
          | false => have := this.mpr hd; rw [hfin] at this; cases this
        · simp [hid] at h2
          exact h id b h' h1 h2
    · have := fin_frame c (fun x e => hre ⟨x, e⟩) hb
      rw [this] at h2
      exact h id b h' h1 h2
  | _ =>
    bb_split
    all_goals (simp only [upd, upd2] at * <;> grind [LocOk])

/-- the helpers still to be given a marker are in `call_rcu_data_list` (the caller holds the mutex) -/
def BInvT (s : BState) : Prop := ∀ b h, h ∈ s.todo b → h ∈ s.base.list

theorem binvT_init : BInvT binit := by intro b h hm; simp [binit] at hm

theorem list_mem_frame (c : Cfg) {s s' : State} {l : Label} (x : Nat) (hx : x ∈ s.list) (st : step c s l = some s') :
    x ∈ s'.list ∨ ∃ t h0, s.tpc t = .fDel h0 ∧ s.mutex = some t := by
  cases l <;> simp only [step] at st <;> (repeat' split at st) <;>
    (first | (simp at st; done) | skip) <;>
    simp only [Option.some.injEq] at st <;> subst st <;>
    simp only [newHelper, lockS, unlockS] <;> (first | exact Or.inl hx | exact Or.inl (by simp [hx]) | skip)
  rename_i t _ h0 hp hm
  exact Or.inr ⟨t, h0, hp, hm⟩

theorem binvt_step (c : Cfg) {s s' : BState} {l : BLabel} (hP : BInvP c s) (h : BInvT s)
    (st : bstep c s l = some s') : BInvT s' := by
  have p1 := hP.k_lock
  have p4 := hP.k_ext
  have p9 := hP.k_todo_loop
  unfold BInvT at *
  cases l with
  | base l =>
    obtain ⟨hb, hh, -, -, e2, -, -, -, -, -, -⟩ := bstep_base c st
    intro b x hm
    rw [e2] at hm
    rcases list_mem_frame c x (h b x hm) hb with h1 | ⟨t, h0, ht, hmx⟩
    · exact h1
    · exfalso
      have hl := p9 b (by intro e; rw [e] at hm; simp at hm)
      have hmc := p1 (s.caller b) b (by rw [hl]; rfl)
      rw [hmx] at hmc
      have : t = s.caller b := by injection hmc
      subst this
      have := (p4 (s.caller b)).mp (by rw [hl]; simp)
      rw [ht] at this; cases this
  | _ =>
    bb_split
    all_goals (simp only [upd] at * <;> grind [→ mem_of_tail'])

/-- the call_rcu layer has only registered finitely many callbacks: fresh `rcu_head`s exist -/
def InvFresh (s : State) : Prop := ∃ N, ∀ id, N ≤ id → s.reg id = false

theorem invFresh_init : InvFresh init := ⟨0, fun _ _ => rfl⟩

theorem reg_frame (c : Cfg) {s s' : State} {l : Label} (st : step c s l = some s') :
    s'.reg = s.reg ∨ ∃ id, s'.reg = upd s.reg id true := by
  cases l <;> simp only [step] at st <;> (repeat' split at st) <;>
    (first | (simp at st; done) | skip) <;>
    simp only [Option.some.injEq] at st <;> subst st <;>
    (try simp only [newHelper, lockS, unlockS]) <;> (first | exact Or.inl rfl | exact Or.inl trivial | exact Or.inr ⟨_, rfl⟩)

theorem invFresh_step (c : Cfg) {s s' : State} {l : Label} (h : InvFresh s) (st : step c s l = some s') : InvFresh s' := by
  obtain ⟨N, hN⟩ := h
  rcases reg_frame c st with e | ⟨id, e⟩
  · exact ⟨N, fun i hi => by rw [e]; exact hN i hi⟩
  · refine ⟨max N (id + 1), fun i hi => ?_⟩
    rw [e]; simp only [upd]
    rw [if_neg (by omega)]; exact hN i (by omega)

theorem invFresh_reach (c : Cfg) {s : State} (h : Reach c s) : InvFresh s := by
  induction h with
  | init => exact invFresh_init
  | step _ st ih => exact invFresh_step c ih st

/-- all additional invariants of the barrier layer -/
structure LInv2 (c : Cfg) (s : BState) : Prop where
  l : LInv c s
  C : BInvC s
  G : BInvG s
  F : BInvF s
  T : BInvT s

theorem linv2_reach (c : Cfg) {s : BState} (h : BReach c s) : LInv2 c s := by
  induction h with
  | init => exact ⟨linv_reach c BReach.init, binvC_init, binvG_init, binvF_init, binvT_init⟩
  | step r st ih =>
    have A := ball_reach c r
    have a := (reach_d c A.R).1
    exact ⟨linv_reach c (BReach.step r st), binvc_step c a ih.C st, binvg_step c A.P A.K ih.G st,
      binvf_step c a A.K ih.C ih.F st, binvt_step c A.P ih.T st⟩

end UrcuVerif.CallRcu
