import UrcuVerif.CallRcu.LiveHandover
/-! Step-level lemmas: the freeing thread's way to the splice of the leftovers onto the default helper. -/
set_option linter.unusedSimpArgs false
set_option linter.unusedVariables false
namespace UrcuVerif.CallRcu
open UrcuVerif UrcuVerif.Fair

/-- a dead helper has set STOPPED -/
def InvDS (s : State) : Prop := ∀ h, s.hpc h = .dead → s.stopped h = true

theorem invDS_init : InvDS init := by intro h hs; simp [init] at hs

theorem invDS_step (c : Cfg) {s s' : State} {l : Label} (hA : InvA c s) (h : InvDS s) (st : step c s l = some s') : InvDS s' := by
  have a11 := hA.fresh
  unfold InvDS at *
  cases l <;> c_bash <;> grind

theorem invDS_reach (c : Cfg) {s : State} (h : Reach c s) : InvDS s := by
  induction h with
  | init => exact invDS_init
  | step r st ih => exact invDS_step c (inv_reach c r).1 ih st

/-- remaining own steps of the freeing thread until the splice of the leftovers -/
def freeRank : TPc → Nat
  | .enq _ _ _ => 22 | .inc _ _ => 21
  | .fLdFlags _ => 20 | .fOrStop _ => 19 | .ldFlags _ _ => 18 | .ldFutex _ _ => 17 | .stFutex _ _ => 16 | .wake _ _ => 15
  | .fWaitStopped _ => 14 | .fLock _ => 13 | .fChk _ => 12 | .fUnlock1 _ => 11 | .gdLd _ => 10 | .gdLock _ => 9
  | .gdCreate _ => 8 | .gdUnlock _ => 7 | .fLock2 _ => 6 | .fSplice _ => 5
  | .fAddQ _ => 0 | .fDel _ => 0 | .fJoin _ => 0 | .fFree _ => 0
  | .idle => 0 | .ext => 0 | .sync => 0 | .sel _ => 0 | .crRet => 0
  | .opLock _ => 0 | .opDo _ => 0 | .opUnlock _ => 0

/-- callback `id` is in the queue of the default helper -/
def onDflt (s : State) (id : Nat) : Prop := ∃ d, s.dflt = some d ∧ id ∈ s.queue d

/-- helper `x` is dead with `id` left in its queue -/
def DQ (s : State) (x id : Nat) : Prop := s.hpc x = .dead ∧ s.stopped x = true ∧ id ∈ s.queue x

theorem early_freeing {p : TPc} {x : Nat} (h : p.early = some x) : ∃ g, p.freeing = some (x, g) ∧ g ≤ 1 := by
  cases p <;> simp [TPc.early] at h <;> (try subst h) <;> (try (exact ⟨0, rfl, by omega⟩)) <;> (try (exact ⟨1, rfl, by omega⟩)) <;>
    (rename_i k; cases k <;> simp [K.stopH, GK.freeH] at h <;> subst h) <;>
    first | exact ⟨0, rfl, by omega⟩ | exact ⟨1, rfl, by omega⟩

theorem early_ne {p : TPc} {x : Nat} (h : p.early = some x) : p ≠ .idle ∧ p ≠ .ext := by
  cases p <;> simp_all [TPc.early]

/-- own steps of the freeing thread once the helper is dead with leftovers: towards the splice -/
theorem free_own (c : Cfg) {s s' : State} {l : Label} (hA : InvA c s) (t x id : Nat) (he : (s.tpc t).early = some x) (hd : DQ s x id)
    (hl : tLabel t l) (st : step c s l = some s') :
    onDflt s' id ∨ ((s'.tpc t).early = some x ∧ freeRank (s'.tpc t) < freeRank (s.tpc t) ∧ DQ s' x id) := by
  obtain ⟨d1, d2, d3⟩ := hd
  have hne : s.queue x ≠ [] := by intro h; rw [h] at d3; simp at d3
  have hxn : x ≠ s.nextH := by
    intro e; have := (hA.fresh x (by omega)).1; rw [d1] at this; cases this
  unfold tLabel at hl
  unfold DQ onDflt
  cases hq : s.tpc t <;> simp [hq, TPc.early] at he <;>
    (try (rename_i k; cases k <;> simp [K.stopH, GK.freeH] at he)) <;> (try subst he) <;>
    (cases l <;> simp only [threadLabel, beq_iff_eq, Bool.false_eq_true] at hl <;> subst hl <;>
      simp only [step, hq] at st <;> (repeat' split at st) <;>
      (first | (simp at st; done) | skip) <;>
      simp only [Option.some.injEq] at st <;> subst st <;>
      simp_all [upd, freeRank, TPc.early, K.stopH, GK.freeH, K.cont, newHelper] <;>
      (try (split <;> simp_all [freeRank, TPc.early, K.stopH, GK.freeH])))

/-- outside lock acquisitions the freeing thread always has an enabled step -/
theorem free_enabled (c : Cfg) {s : State} (hD : InvD c s) (hE : InvE c s) (hQ : InvQ s) (t x id : Nat)
    (he : (s.tpc t).early = some x) (hd : DQ s x id) (hw : (s.tpc t).lockWait = false) : Enabled (step c) (tLabel t) s := by
  obtain ⟨d1, d2, d3⟩ := hd
  obtain ⟨q1, q2⟩ := hQ
  cases hq : s.tpc t <;> simp [hq, TPc.early, TPc.lockWait] at he hw <;>
    (try (rename_i k; cases k <;> simp [K.stopH, GK.freeH] at he)) <;> (try subst he)
  case fLdFlags => exact ⟨.fLdFlags t, by simp [tLabel, threadLabel], by simp [step, hq]⟩
  case fOrStop => exact ⟨.fOrStop t, by simp [tLabel, threadLabel], by simp [step, hq]⟩
  case fWaitStopped => exact ⟨.fSeeStopped t, by simp [tLabel, threadLabel], by simp [step, hq, d2]⟩
  case enq.fstop => exact ⟨.enq t, by simp [tLabel, threadLabel], by simp [step, hq]⟩
  case inc.fstop => exact ⟨.inc t, by simp [tLabel, threadLabel], by simp [step, hq]⟩
  case ldFlags.fstop => exact ⟨.ldFlags t, by simp [tLabel, threadLabel], by simp [step, hq]⟩
  case ldFutex.fstop => exact ⟨.ldFutex t, by simp [tLabel, threadLabel], by simp [step, hq]⟩
  case stFutex.fstop => exact ⟨.stFutex t, by simp [tLabel, threadLabel], by simp [step, hq]⟩
  case wake.fstop => exact ⟨.wake t, by simp [tLabel, threadLabel], by simp [step, hq]⟩
  case fChk => exact ⟨.fChk t, by simp [tLabel, threadLabel], by simp [step, hq]; split <;> simp⟩
  case fUnlock1 =>
    have hm := hD.holds_mutex t (by rw [hq]; rfl)
    exact ⟨.fUnlock1 t, by simp [tLabel, threadLabel], by simp [step, hq, hm]⟩
  case fSplice h =>
    have := q2 t h (Or.inr (Or.inl hq))
    have hne := fsplice_dflt c hD hE t h hq
    cases hdf : s.dflt with
    | none => exact absurd hdf this
    | some d =>
      have : d ≠ h := by intro e; rw [hdf, e] at hne; exact hne rfl
      exact ⟨.fSplice t, by simp [tLabel, threadLabel], by simp [step, hq, hdf, this]⟩
  case gdLd.free => exact ⟨.gdLd t, by simp [tLabel, threadLabel], by simp [step, hq]; (repeat' split) <;> simp⟩
  case gdCreate.free => exact ⟨.gdCreate t, by simp [tLabel, threadLabel], by simp [step, hq]; split <;> simp⟩
  case gdUnlock.free =>
    have hm := hD.holds_mutex t (by rw [hq]; rfl)
    have := q1 t _ hq
    cases hdf : s.dflt with
    | none => exact absurd hdf this
    | some d => exact ⟨.gdUnlock t, by simp [tLabel, threadLabel], by simp [step, hq, hdf, hm]⟩

/-- other steps leave the freeing thread and the dead helper's leftovers alone -/
theorem free_frame (c : Cfg) {s s' : State} {l : Label} (hA : InvA c s) (hD : InvD c s) (t x id : Nat)
    (he : (s.tpc t).early = some x) (hd : DQ s x id) (hl : ¬ tLabel t l) (st : step c s l = some s') :
    s'.tpc t = s.tpc t ∧ DQ s' x id := by
  have hne := early_ne he
  refine ⟨thread_frame c t hne.1 hne.2 hl st, ?_⟩
  obtain ⟨d1, d2, d3⟩ := hd
  obtain ⟨g, hg, -⟩ := early_freeing he
  have key : ∀ t', s.tpc t' = .fSplice x → t' = t := by
    intro t' ht'
    exact hD.f_uniq t' t x 1 g (by rw [ht']; rfl) hg
  have a11 := hA.fresh x
  unfold DQ
  unfold tLabel at hl
  cases l <;> simp only [threadLabel, beq_iff_eq, Bool.false_eq_true, not_false_eq_true] at hl <;>
    simp only [step] at st <;> (repeat' split at st) <;>
    (first | (simp at st; done) | skip) <;>
    simp only [Option.some.injEq] at st <;> subst st <;>
    simp only [upd, lockS, unlockS, newHelper, nestOn, csOn, nestOff] at * <;> grind

/-- a callback in the queue of the default helper stays there (and the helper stays the default one) until the helper
splices it out -/
theorem dflt_queue_unless (c : Cfg) {s s' : State} {l : Label} (hD : InvD c s) (hE : InvE c s) (d id : Nat)
    (hdf : s.dflt = some d) (hq : id ∈ s.queue d) (st : step c s l = some s') :
    (s'.dflt = some d ∧ id ∈ s'.queue d) ∨ id ∈ s'.batch d := by
  have key : ∀ t h, s.tpc t = .fSplice h → h ≠ d := by
    intro t h ht e
    exact fsplice_dflt c hD hE t h ht (by rw [hdf, e])
  cases l <;> simp only [step] at st <;> (repeat' split at st) <;>
    (first | (simp at st; done) | skip) <;>
    simp only [Option.some.injEq] at st <;> subst st <;>
    simp only [upd, lockS, unlockS, newHelper, nestOn, csOn, nestOff] at * <;> grind

end UrcuVerif.CallRcu
