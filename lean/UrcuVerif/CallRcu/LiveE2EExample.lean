import UrcuVerif.CallRcu.LiveHandoverRun
/-! Non-vacuity of `FairEnv` / `callback_eventually_invoked`: helper lemmas to show that a finite prefix followed by
idling satisfies all provisos. -/
set_option linter.unusedSimpArgs false
set_option linter.unusedVariables false
namespace UrcuVerif.CallRcu
open UrcuVerif UrcuVerif.Fair

/-- a run that ends in a state where no step of `A` is enabled is strongly fair for `A` -/
theorem strongFair_of_final {σ L : Type} {step : σ → L → Option σ} {ρ : Nat → σ} {ℓ : Nat → Option L} (A : L → Prop)
    (N : Nat) (sf : σ) (hfin : ∀ i, N ≤ i → ρ i = sf) (hdis : ¬ Enabled step A sf) : StrongFair step ρ ℓ A := by
  intro i he
  obtain ⟨k, hk, hen⟩ := he (i + N) (by omega)
  rw [hfin k (by omega)] at hen
  exact absurd hen hdis

theorem idle_no_tlabel (c : Cfg) {s : State} {t : Nat} (hi : s.tpc t = .idle) : ¬ Enabled (step c) (tLabel t) s := by
  rintro ⟨l, hl, he⟩
  unfold tLabel at hl
  cases l <;> simp only [threadLabel, beq_iff_eq, Bool.false_eq_true] at hl <;> subst hl <;> simp [step, hi] at he

theorem none_no_hlabel (c : Cfg) {s : State} {x : Nat} (hp : s.hpc x = .none) : ¬ Enabled (step c) (hOwn x) s := by
  rintro ⟨l, hl, he⟩
  unfold hOwn at hl
  cases l <;> simp only [helperLabel, beq_iff_eq, Bool.false_eq_true] at hl <;> subst hl <;> simp [step, hp] at he <;>
    (split at he <;> simp at he)

/-- labels that belong neither to the outer layers, nor to the fork handlers, nor to the library destructor -/
def Label.plain : Label → Bool
  | .extBegin _ | .extEnd _ | .extLock _ | .extUnlock _ | .extCall _ _ _ _ | .envPause _ _ => false
  | .opCall _ .unsetDflt => false
  | _ => true

/-- nobody is paused, the destructor does not run, no thread is in an outer-layer operation -/
def Plain (s : State) : Prop := (∀ x, s.pause x = false) ∧ NoExit s ∧ (∀ t, (s.tpc t).extMode = false)

theorem plain_init : Plain init := by
  refine ⟨fun x => rfl, fun t => ⟨by simp [init], by simp [init]⟩, fun t => rfl⟩

theorem cont_ne_opLock (k : K) (h : Nat) (op : LOp) : k.cont h ≠ .opLock op := by cases k <;> simp [K.cont]
theorem cont_ne_opDo (k : K) (h : Nat) (op : LOp) : k.cont h ≠ .opDo op := by cases k <;> simp [K.cont]

theorem plain_step (c : Cfg) {s s' : State} {l : Label} (h : Plain s) (hl : l.plain = true) (st : step c s l = some s') :
    Plain s' := by
  obtain ⟨h1, h2, h3⟩ := h
  unfold Plain NoExit at *
  cases l <;> simp only [Label.plain, Bool.false_eq_true] at hl <;> c_bash <;>
    grind [TPc.extMode, K.isExt, cont_extMode, Label.plain, cont_ne_opLock, cont_ne_opDo]

theorem plain_prefix (c : Cfg) (ls : List Label) (hl : ∀ l, l ∈ ls → l.plain = true) (s : State) (h : Plain s) :
    ∀ j, Plain (prefixState (step c) s ls j) := by
  induction ls generalizing s with
  | nil => intro j; exact h
  | cons a r ih =>
    intro j
    cases j with
    | zero => exact h
    | succ j =>
      simp only [prefixState]
      cases hs : step c s a with
      | none => exact h
      | some s1 => exact ih (fun l hm => hl l (by simp [hm])) s1 (plain_step c h (hl a (by simp)) hs) j

end UrcuVerif.CallRcu
