import UrcuVerif.CallRcu.BInvK
/-!
# C04 — lifetime of the completion object (helper lemmas; statement `completion_lifetime` in `Props/C04.lean`)

`BInvR`: `completion->ref` = the caller's reference (until its `urcu_ref_put`) + one per helper of the barrier whose
marker has not yet dropped its own; the object is freed exactly when the count reaches 0; every thread that accesses
the object holds one of these references (the caller until `bPut`; a marker from its invocation until `mPut`), so no
access happens after the free (`uaf = false`).
-/
set_option linter.unusedVariables false
set_option linter.unusedSimpArgs false
namespace UrcuVerif.CallRcu

structure BInvR (c : Cfg) (s : BState) : Prop where
  r_ref : ∀ b, s.inited b = true → s.ref b = (if s.cput b then 0 else 1) + cntU s.mput b (s.hs b)
  r_freed : ∀ b, s.bfreed b = true → s.inited b = true ∧ s.ref b = 0
  r_caller : ∀ t b, (s.bpc t).bar = some b → s.cput b = false
  r_marker : ∀ x b h', s.mrun x = some (b, h') → s.mpc x ≠ .fin → s.mput b h' = false
  r_mput : ∀ b h', s.mput b h' = true → s.mdone b h' = true
  r_fresh : ∀ b, s.inited b = false → s.bfreed b = false ∧ s.cput b = false
  r_fresh2 : ∀ b h, s.inited b = false → s.mput b h = false
  r_new : ∀ b, s.nextB ≤ b → s.bfreed b = false ∧ s.cput b = false
  r_uaf : s.uaf = false

theorem binvR_init (c) : BInvR c binit := by
  constructor <;> simp [binit, init, cntU, BPc.bar]

/-- the caller of a barrier in progress holds a reference: its completion is not freed -/
theorem no_free_caller {c : Cfg} {s : BState} (h : BInvR c s) {t b : Nat} (hb : (s.bpc t).bar = some b) : s.bfreed b = false := by
  cases hf : s.bfreed b with
  | false => rfl
  | true =>
    have h1 := h.r_freed b hf
    have h2 := h.r_ref b h1.1
    have h3 := h.r_caller t b hb
    have := cntU_nonneg s.mput b (s.hs b)
    rw [h3] at h2; simp at h2; omega

/-- a marker that has not yet dropped its reference holds one: its completion is not freed -/
theorem no_free_marker {c : Cfg} {s : BState} (hK : BInvK c s) (h : BInvR c s) {x b h' : Nat} (hm : s.mrun x = some (b, h'))
    (hp : s.mpc x ≠ .fin) : s.bfreed b = false := by
  cases hf : s.bfreed b with
  | false => rfl
  | true =>
    have h1 := h.r_freed b hf
    have h2 := h.r_ref b h1.1
    have h3 := h.r_marker x b h' hm hp
    have h4 := (hK.k_mark _ b h' (hK.k_run x b h' hm).2.1).2.1
    have := cntU_pos s.mput b h' (s.hs b) h4 h3
    split at h2 <;> omega

set_option hygiene false in
macro "br_post" : tactic => `(tactic| (
  all_goals (constructor <;> first | assumption | (simp only [upd, upd2, lockS, unlockS, newHelper, relocate, nestOn, csOn, nestOff, nestOn, csOn, nestOff] at * <;> grind [upd, upd2, BPc.bar, BPc.past, BPc.locked, Loc.invoked, → past_bar, → locked_bar, cntU_other, cntU_same, cntU_false, cntU_notin, cntU_pos, cntU_nonneg, → mem_of_head?]))))

set_option hygiene false in
macro "br_pre" : tactic => `(tactic| (
  have a3 := hA.c_loc
  have a2 := hA.b_loc
  have g1 := hH.bar_ok
  have g2 := hH.mpc_run
  have p2 := hP.k_early
  have p3 := hP.k_past
  have p6 := hP.k_fresh
  have k1 := hK.k_mark
  have k2 := hK.k_run
  have k3 := hK.k_done
  have k4 := hK.k_initd
  have k7 := hK.k_hs
  have q1 := fun t b => @no_free_caller c s h t b
  have q2 := fun x b h' => @no_free_marker c s hK h x b h'
  clear hA hH hP hK
  obtain ⟨h1, h2, h3, h4, h5, h6, h6b, h6c, h7⟩ := h))

set_option hygiene false in
macro "br_base" : tactic => `(tactic| (
  br_pre
  simp only [bstep, Label.isHook, Bool.false_eq_true, ↓reduceIte] at st
  (repeat' split at st)
  all_goals (first | (simp at st; done) | skip)
  all_goals (simp only [Option.some.injEq] at st; subst st)
  all_goals (rename_i hb; simp only [step] at hb; (repeat' split at hb))
  all_goals (first | (simp at hb; done) | skip)
  all_goals (simp only [Option.some.injEq] at hb; subst hb)
  br_post))

set_option hygiene false in
macro "br_own" : tactic => `(tactic| (
  br_pre
  simp only [bstep, step] at st
  (repeat' split at st)
  all_goals (first | (simp at st; done) | skip)
  all_goals (simp only [Option.some.injEq] at st; subst st)
  all_goals (try (rename_i hb; (repeat' split at hb); all_goals (first | (simp at hb; done) | skip); all_goals (simp only [Option.some.injEq] at hb; subst hb)))
  all_goals (try (rename_i hb _; (repeat' split at hb); all_goals (first | (simp at hb; done) | skip); all_goals (simp only [Option.some.injEq] at hb; subst hb)))
  br_post))

theorem binvr_base_rlock (c : Cfg) {s s' : BState} (hA : InvA c s.base) (hH : BInvH c s) (hP : BInvP c s) (hK : BInvK c s) (h : BInvR c s) (t : _)
    (st : bstep c s (.base (.rlock t)) = some s') : BInvR c s' := by
  br_base

theorem binvr_base_runlock (c : Cfg) {s s' : BState} (hA : InvA c s.base) (hH : BInvH c s) (hP : BInvP c s) (hK : BInvK c s) (h : BInvR c s) (t : _)
    (st : bstep c s (.base (.runlock t)) = some s') : BInvR c s' := by
  br_base

theorem binvr_base_syncStart (c : Cfg) {s s' : BState} (hA : InvA c s.base) (hH : BInvH c s) (hP : BInvP c s) (hK : BInvK c s) (h : BInvR c s) (t : _)
    (st : bstep c s (.base (.syncStart t)) = some s') : BInvR c s' := by
  br_base

theorem binvr_base_syncEnd (c : Cfg) {s s' : BState} (hA : InvA c s.base) (hH : BInvH c s) (hP : BInvP c s) (hK : BInvK c s) (h : BInvR c s) (t : _)
    (st : bstep c s (.base (.syncEnd t)) = some s') : BInvR c s' := by
  br_base

theorem binvr_base_crCall (c : Cfg) {s s' : BState} (hA : InvA c s.base) (hH : BInvH c s) (hP : BInvP c s) (hK : BInvK c s) (h : BInvR c s) (t id : _)
    (st : bstep c s (.base (.crCall t id)) = some s') : BInvR c s' := by
  br_base

theorem binvr_base_crSelThr (c : Cfg) {s s' : BState} (hA : InvA c s.base) (hH : BInvH c s) (hP : BInvP c s) (hK : BInvK c s) (h : BInvR c s) (t : _)
    (st : bstep c s (.base (.crSelThr t)) = some s') : BInvR c s' := by
  br_base

theorem binvr_base_crSelCpu (c : Cfg) {s s' : BState} (hA : InvA c s.base) (hH : BInvH c s) (hP : BInvP c s) (hK : BInvK c s) (h : BInvR c s) (t cpu : _)
    (st : bstep c s (.base (.crSelCpu t cpu)) = some s') : BInvR c s' := by
  br_base

theorem binvr_base_crSelNoCpu (c : Cfg) {s s' : BState} (hA : InvA c s.base) (hH : BInvH c s) (hP : BInvP c s) (hK : BInvK c s) (h : BInvR c s) (t cpu : _)
    (st : bstep c s (.base (.crSelNoCpu t cpu)) = some s') : BInvR c s' := by
  br_base

theorem binvr_base_gdCall (c : Cfg) {s s' : BState} (hA : InvA c s.base) (hH : BInvH c s) (hP : BInvP c s) (hK : BInvK c s) (h : BInvR c s) (t : _)
    (st : bstep c s (.base (.gdCall t)) = some s') : BInvR c s' := by
  br_base

theorem binvr_base_gdLd (c : Cfg) {s s' : BState} (hA : InvA c s.base) (hH : BInvH c s) (hP : BInvP c s) (hK : BInvK c s) (h : BInvR c s) (t : _)
    (st : bstep c s (.base (.gdLd t)) = some s') : BInvR c s' := by
  br_base

theorem binvr_base_gdLock (c : Cfg) {s s' : BState} (hA : InvA c s.base) (hH : BInvH c s) (hP : BInvP c s) (hK : BInvK c s) (h : BInvR c s) (t : _)
    (st : bstep c s (.base (.gdLock t)) = some s') : BInvR c s' := by
  br_base

theorem binvr_base_gdCreate (c : Cfg) {s s' : BState} (hA : InvA c s.base) (hH : BInvH c s) (hP : BInvP c s) (hK : BInvK c s) (h : BInvR c s) (t : _)
    (st : bstep c s (.base (.gdCreate t)) = some s') : BInvR c s' := by
  br_base

theorem binvr_base_gdUnlock (c : Cfg) {s s' : BState} (hA : InvA c s.base) (hH : BInvH c s) (hP : BInvP c s) (hK : BInvK c s) (h : BInvR c s) (t : _)
    (st : bstep c s (.base (.gdUnlock t)) = some s') : BInvR c s' := by
  br_base

theorem binvr_base_enq (c : Cfg) {s s' : BState} (hA : InvA c s.base) (hH : BInvH c s) (hP : BInvP c s) (hK : BInvK c s) (h : BInvR c s) (t : _)
    (st : bstep c s (.base (.enq t)) = some s') : BInvR c s' := by
  br_base

theorem binvr_base_inc (c : Cfg) {s s' : BState} (hA : InvA c s.base) (hH : BInvH c s) (hP : BInvP c s) (hK : BInvK c s) (h : BInvR c s) (t : _)
    (st : bstep c s (.base (.inc t)) = some s') : BInvR c s' := by
  br_base

theorem binvr_base_ldFlags (c : Cfg) {s s' : BState} (hA : InvA c s.base) (hH : BInvH c s) (hP : BInvP c s) (hK : BInvK c s) (h : BInvR c s) (t : _)
    (st : bstep c s (.base (.ldFlags t)) = some s') : BInvR c s' := by
  br_base

theorem binvr_base_ldFutex (c : Cfg) {s s' : BState} (hA : InvA c s.base) (hH : BInvH c s) (hP : BInvP c s) (hK : BInvK c s) (h : BInvR c s) (t : _)
    (st : bstep c s (.base (.ldFutex t)) = some s') : BInvR c s' := by
  br_base

theorem binvr_base_stFutex (c : Cfg) {s s' : BState} (hA : InvA c s.base) (hH : BInvH c s) (hP : BInvP c s) (hK : BInvK c s) (h : BInvR c s) (t : _)
    (st : bstep c s (.base (.stFutex t)) = some s') : BInvR c s' := by
  br_base

theorem binvr_base_wake (c : Cfg) {s s' : BState} (hA : InvA c s.base) (hH : BInvH c s) (hP : BInvP c s) (hK : BInvK c s) (h : BInvR c s) (t : _)
    (st : bstep c s (.base (.wake t)) = some s') : BInvR c s' := by
  br_base

theorem binvr_base_crRet (c : Cfg) {s s' : BState} (hA : InvA c s.base) (hH : BInvH c s) (hP : BInvP c s) (hK : BInvK c s) (h : BInvR c s) (t : _)
    (st : bstep c s (.base (.crRet t)) = some s') : BInvR c s' := by
  br_base

theorem binvr_base_opCall (c : Cfg) {s s' : BState} (hA : InvA c s.base) (hH : BInvH c s) (hP : BInvP c s) (hK : BInvK c s) (h : BInvR c s) (t op : _)
    (st : bstep c s (.base (.opCall t op)) = some s') : BInvR c s' := by
  br_base

theorem binvr_base_opLock (c : Cfg) {s s' : BState} (hA : InvA c s.base) (hH : BInvH c s) (hP : BInvP c s) (hK : BInvK c s) (h : BInvR c s) (t : _)
    (st : bstep c s (.base (.opLock t)) = some s') : BInvR c s' := by
  br_base

theorem binvr_base_opDo (c : Cfg) {s s' : BState} (hA : InvA c s.base) (hH : BInvH c s) (hP : BInvP c s) (hK : BInvK c s) (h : BInvR c s) (t : _)
    (st : bstep c s (.base (.opDo t)) = some s') : BInvR c s' := by
  br_base

theorem binvr_base_opUnlock (c : Cfg) {s s' : BState} (hA : InvA c s.base) (hH : BInvH c s) (hP : BInvP c s) (hK : BInvK c s) (h : BInvR c s) (t : _)
    (st : bstep c s (.base (.opUnlock t)) = some s') : BInvR c s' := by
  br_base

theorem binvr_base_setThr (c : Cfg) {s s' : BState} (hA : InvA c s.base) (hH : BInvH c s) (hP : BInvP c s) (hK : BInvK c s) (h : BInvR c s) (t ho : _)
    (st : bstep c s (.base (.setThr t ho)) = some s') : BInvR c s' := by
  br_base

theorem binvr_base_fCall (c : Cfg) {s s' : BState} (hA : InvA c s.base) (hH : BInvH c s) (hP : BInvP c s) (hK : BInvK c s) (h : BInvR c s) (t h0 : _)
    (st : bstep c s (.base (.fCall t h0)) = some s') : BInvR c s' := by
  br_base

theorem binvr_base_fLdFlags (c : Cfg) {s s' : BState} (hA : InvA c s.base) (hH : BInvH c s) (hP : BInvP c s) (hK : BInvK c s) (h : BInvR c s) (t : _)
    (st : bstep c s (.base (.fLdFlags t)) = some s') : BInvR c s' := by
  br_base

theorem binvr_base_fOrStop (c : Cfg) {s s' : BState} (hA : InvA c s.base) (hH : BInvH c s) (hP : BInvP c s) (hK : BInvK c s) (h : BInvR c s) (t : _)
    (st : bstep c s (.base (.fOrStop t)) = some s') : BInvR c s' := by
  br_base

theorem binvr_base_fSeeStopped (c : Cfg) {s s' : BState} (hA : InvA c s.base) (hH : BInvH c s) (hP : BInvP c s) (hK : BInvK c s) (h : BInvR c s) (t : _)
    (st : bstep c s (.base (.fSeeStopped t)) = some s') : BInvR c s' := by
  br_base

theorem binvr_base_fLock (c : Cfg) {s s' : BState} (hA : InvA c s.base) (hH : BInvH c s) (hP : BInvP c s) (hK : BInvK c s) (h : BInvR c s) (t : _)
    (st : bstep c s (.base (.fLock t)) = some s') : BInvR c s' := by
  br_base

theorem binvr_base_fChk (c : Cfg) {s s' : BState} (hA : InvA c s.base) (hH : BInvH c s) (hP : BInvP c s) (hK : BInvK c s) (h : BInvR c s) (t : _)
    (st : bstep c s (.base (.fChk t)) = some s') : BInvR c s' := by
  br_base

theorem binvr_base_fUnlock1 (c : Cfg) {s s' : BState} (hA : InvA c s.base) (hH : BInvH c s) (hP : BInvP c s) (hK : BInvK c s) (h : BInvR c s) (t : _)
    (st : bstep c s (.base (.fUnlock1 t)) = some s') : BInvR c s' := by
  br_base

theorem binvr_base_fLock2 (c : Cfg) {s s' : BState} (hA : InvA c s.base) (hH : BInvH c s) (hP : BInvP c s) (hK : BInvK c s) (h : BInvR c s) (t : _)
    (st : bstep c s (.base (.fLock2 t)) = some s') : BInvR c s' := by
  br_base

theorem binvr_base_fSplice (c : Cfg) {s s' : BState} (hA : InvA c s.base) (hH : BInvH c s) (hP : BInvP c s) (hK : BInvK c s) (h : BInvR c s) (t : _)
    (st : bstep c s (.base (.fSplice t)) = some s') : BInvR c s' := by
  br_base

theorem binvr_base_fAddQ (c : Cfg) {s s' : BState} (hA : InvA c s.base) (hH : BInvH c s) (hP : BInvP c s) (hK : BInvK c s) (h : BInvR c s) (t : _)
    (st : bstep c s (.base (.fAddQ t)) = some s') : BInvR c s' := by
  br_base

theorem binvr_base_fDel (c : Cfg) {s s' : BState} (hA : InvA c s.base) (hH : BInvH c s) (hP : BInvP c s) (hK : BInvK c s) (h : BInvR c s) (t : _)
    (st : bstep c s (.base (.fDel t)) = some s') : BInvR c s' := by
  br_base

theorem binvr_base_fJoin (c : Cfg) {s s' : BState} (hA : InvA c s.base) (hH : BInvH c s) (hP : BInvP c s) (hK : BInvK c s) (h : BInvR c s) (t : _)
    (st : bstep c s (.base (.fJoin t)) = some s') : BInvR c s' := by
  br_base

theorem binvr_base_fFree (c : Cfg) {s s' : BState} (hA : InvA c s.base) (hH : BInvH c s) (hP : BInvP c s) (hK : BInvK c s) (h : BInvR c s) (t : _)
    (st : bstep c s (.base (.fFree t)) = some s') : BInvR c s' := by
  br_base

theorem binvr_base_hStart (c : Cfg) {s s' : BState} (hA : InvA c s.base) (hH : BInvH c s) (hP : BInvP c s) (hK : BInvK c s) (h : BInvR c s) (x : _)
    (st : bstep c s (.base (.hStart x)) = some s') : BInvR c s' := by
  br_base

theorem binvr_base_hDec0 (c : Cfg) {s s' : BState} (hA : InvA c s.base) (hH : BInvH c s) (hP : BInvP c s) (hK : BInvK c s) (h : BInvR c s) (x : _)
    (st : bstep c s (.base (.hDec0 x)) = some s') : BInvR c s' := by
  br_base

theorem binvr_base_hTop (c : Cfg) {s s' : BState} (hA : InvA c s.base) (hH : BInvH c s) (hP : BInvP c s) (hK : BInvK c s) (h : BInvR c s) (x : _)
    (st : bstep c s (.base (.hTop x)) = some s') : BInvR c s' := by
  br_base

theorem binvr_base_hPause (c : Cfg) {s s' : BState} (hA : InvA c s.base) (hH : BInvH c s) (hP : BInvP c s) (hK : BInvK c s) (h : BInvR c s) (x : _)
    (st : bstep c s (.base (.hPause x)) = some s') : BInvR c s' := by
  br_base

theorem binvr_base_hUnpause (c : Cfg) {s s' : BState} (hA : InvA c s.base) (hH : BInvH c s) (hP : BInvP c s) (hK : BInvK c s) (h : BInvR c s) (x : _)
    (st : bstep c s (.base (.hUnpause x)) = some s') : BInvR c s' := by
  br_base

theorem binvr_base_hSplice (c : Cfg) {s s' : BState} (hA : InvA c s.base) (hH : BInvH c s) (hP : BInvP c s) (hK : BInvK c s) (h : BInvR c s) (x : _)
    (st : bstep c s (.base (.hSplice x)) = some s') : BInvR c s' := by
  br_base

theorem binvr_base_hGpEnd (c : Cfg) {s s' : BState} (hA : InvA c s.base) (hH : BInvH c s) (hP : BInvP c s) (hK : BInvK c s) (h : BInvR c s) (x : _)
    (st : bstep c s (.base (.hGpEnd x)) = some s') : BInvR c s' := by
  br_base

theorem binvr_base_hRunBegin (c : Cfg) {s s' : BState} (hA : InvA c s.base) (hH : BInvH c s) (hP : BInvP c s) (hK : BInvK c s) (h : BInvR c s) (x cb : _)
    (st : bstep c s (.base (.hRunBegin x cb)) = some s') : BInvR c s' := by
  br_base

theorem binvr_base_hRunEnd (c : Cfg) {s s' : BState} (hA : InvA c s.base) (hH : BInvH c s) (hP : BInvP c s) (hK : BInvK c s) (h : BInvR c s) (x : _)
    (st : bstep c s (.base (.hRunEnd x)) = some s') : BInvR c s' := by
  br_base

theorem binvr_base_hInvDone (c : Cfg) {s s' : BState} (hA : InvA c s.base) (hH : BInvH c s) (hP : BInvP c s) (hK : BInvK c s) (h : BInvR c s) (x : _)
    (st : bstep c s (.base (.hInvDone x)) = some s') : BInvR c s' := by
  br_base

theorem binvr_base_hSub (c : Cfg) {s s' : BState} (hA : InvA c s.base) (hH : BInvH c s) (hP : BInvP c s) (hK : BInvK c s) (h : BInvR c s) (x : _)
    (st : bstep c s (.base (.hSub x)) = some s') : BInvR c s' := by
  br_base

theorem binvr_base_hStopChk (c : Cfg) {s s' : BState} (hA : InvA c s.base) (hH : BInvH c s) (hP : BInvP c s) (hK : BInvK c s) (h : BInvR c s) (x : _)
    (st : bstep c s (.base (.hStopChk x)) = some s') : BInvR c s' := by
  br_base

theorem binvr_base_hEmptyChk (c : Cfg) {s s' : BState} (hA : InvA c s.base) (hH : BInvH c s) (hP : BInvP c s) (hK : BInvK c s) (h : BInvR c s) (x : _)
    (st : bstep c s (.base (.hEmptyChk x)) = some s') : BInvR c s' := by
  br_base

theorem binvr_base_hWaitLd (c : Cfg) {s s' : BState} (hA : InvA c s.base) (hH : BInvH c s) (hP : BInvP c s) (hK : BInvK c s) (h : BInvR c s) (x : _)
    (st : bstep c s (.base (.hWaitLd x)) = some s') : BInvR c s' := by
  br_base

theorem binvr_base_hWaitFx (c : Cfg) {s s' : BState} (hA : InvA c s.base) (hH : BInvH c s) (hP : BInvP c s) (hK : BInvK c s) (h : BInvR c s) (x o : _)
    (st : bstep c s (.base (.hWaitFx x o)) = some s') : BInvR c s' := by
  br_base

theorem binvr_base_hSpurious (c : Cfg) {s s' : BState} (hA : InvA c s.base) (hH : BInvH c s) (hP : BInvP c s) (hK : BInvK c s) (h : BInvR c s) (x : _)
    (st : bstep c s (.base (.hSpurious x)) = some s') : BInvR c s' := by
  br_base

theorem binvr_base_hPollW (c : Cfg) {s s' : BState} (hA : InvA c s.base) (hH : BInvH c s) (hP : BInvP c s) (hK : BInvK c s) (h : BInvR c s) (x : _)
    (st : bstep c s (.base (.hPollW x)) = some s') : BInvR c s' := by
  br_base

theorem binvr_base_hDec (c : Cfg) {s s' : BState} (hA : InvA c s.base) (hH : BInvH c s) (hP : BInvP c s) (hK : BInvK c s) (h : BInvR c s) (x : _)
    (st : bstep c s (.base (.hDec x)) = some s') : BInvR c s' := by
  br_base

theorem binvr_base_hPollN (c : Cfg) {s s' : BState} (hA : InvA c s.base) (hH : BInvH c s) (hP : BInvP c s) (hK : BInvK c s) (h : BInvR c s) (x : _)
    (st : bstep c s (.base (.hPollN x)) = some s') : BInvR c s' := by
  br_base

theorem binvr_base_hExitSt (c : Cfg) {s s' : BState} (hA : InvA c s.base) (hH : BInvH c s) (hP : BInvP c s) (hK : BInvK c s) (h : BInvR c s) (x : _)
    (st : bstep c s (.base (.hExitSt x)) = some s') : BInvR c s' := by
  br_base

theorem binvr_base_hExitOr (c : Cfg) {s s' : BState} (hA : InvA c s.base) (hH : BInvH c s) (hP : BInvP c s) (hK : BInvK c s) (h : BInvR c s) (x : _)
    (st : bstep c s (.base (.hExitOr x)) = some s') : BInvR c s' := by
  br_base

theorem binvr_bRefused (c : Cfg) {s s' : BState} (hA : InvA c s.base) (hH : BInvH c s) (hP : BInvP c s) (hK : BInvK c s) (h : BInvR c s) (t : _)
    (st : bstep c s (.bRefused t) = some s') : BInvR c s' := by
  br_own

theorem binvr_bCall (c : Cfg) {s s' : BState} (hA : InvA c s.base) (hH : BInvH c s) (hP : BInvP c s) (hK : BInvK c s) (h : BInvR c s) (t : _)
    (st : bstep c s (.bCall t) = some s') : BInvR c s' := by
  obtain ⟨o, ho⟩ : ∃ o, (s.bpc t).bar = o := ⟨_, rfl⟩
  br_own

theorem binvr_bLock (c : Cfg) {s s' : BState} (hA : InvA c s.base) (hH : BInvH c s) (hP : BInvP c s) (hK : BInvK c s) (h : BInvR c s) (t : _)
    (st : bstep c s (.bLock t) = some s') : BInvR c s' := by
  obtain ⟨o, ho⟩ : ∃ o, (s.bpc t).bar = o := ⟨_, rfl⟩
  br_own

theorem binvr_bInit (c : Cfg) {s s' : BState} (hA : InvA c s.base) (hH : BInvH c s) (hP : BInvP c s) (hK : BInvK c s) (h : BInvR c s) (t : _)
    (st : bstep c s (.bInit t) = some s') : BInvR c s' := by
  obtain ⟨o, ho⟩ : ∃ o, (s.bpc t).bar = o := ⟨_, rfl⟩
  br_own

theorem binvr_bEnq (c : Cfg) {s s' : BState} (hA : InvA c s.base) (hH : BInvH c s) (hP : BInvP c s) (hK : BInvK c s) (h : BInvR c s) (t id h0 : _)
    (st : bstep c s (.bEnq t id h0) = some s') : BInvR c s' := by
  obtain ⟨o, ho⟩ : ∃ o, (s.bpc t).bar = o := ⟨_, rfl⟩
  br_own

theorem binvr_bUnlock (c : Cfg) {s s' : BState} (hA : InvA c s.base) (hH : BInvH c s) (hP : BInvP c s) (hK : BInvK c s) (h : BInvR c s) (t : _)
    (st : bstep c s (.bUnlock t) = some s') : BInvR c s' := by
  obtain ⟨o, ho⟩ : ∃ o, (s.bpc t).bar = o := ⟨_, rfl⟩
  br_own

theorem binvr_bDec (c : Cfg) {s s' : BState} (hA : InvA c s.base) (hH : BInvH c s) (hP : BInvP c s) (hK : BInvK c s) (h : BInvR c s) (t : _)
    (st : bstep c s (.bDec t) = some s') : BInvR c s' := by
  obtain ⟨o, ho⟩ : ∃ o, (s.bpc t).bar = o := ⟨_, rfl⟩
  br_own

theorem binvr_bLdCnt (c : Cfg) {s s' : BState} (hA : InvA c s.base) (hH : BInvH c s) (hP : BInvP c s) (hK : BInvK c s) (h : BInvR c s) (t : _)
    (st : bstep c s (.bLdCnt t) = some s') : BInvR c s' := by
  obtain ⟨o, ho⟩ : ∃ o, (s.bpc t).bar = o := ⟨_, rfl⟩
  br_own

theorem binvr_bWaitLd (c : Cfg) {s s' : BState} (hA : InvA c s.base) (hH : BInvH c s) (hP : BInvP c s) (hK : BInvK c s) (h : BInvR c s) (t : _)
    (st : bstep c s (.bWaitLd t) = some s') : BInvR c s' := by
  obtain ⟨o, ho⟩ : ∃ o, (s.bpc t).bar = o := ⟨_, rfl⟩
  br_own

theorem binvr_bWaitFx (c : Cfg) {s s' : BState} (hA : InvA c s.base) (hH : BInvH c s) (hP : BInvP c s) (hK : BInvK c s) (h : BInvR c s) (t o : _)
    (st : bstep c s (.bWaitFx t o) = some s') : BInvR c s' := by
  obtain ⟨o, ho⟩ : ∃ o, (s.bpc t).bar = o := ⟨_, rfl⟩
  br_own

theorem binvr_bSpurious (c : Cfg) {s s' : BState} (hA : InvA c s.base) (hH : BInvH c s) (hP : BInvP c s) (hK : BInvK c s) (h : BInvR c s) (t : _)
    (st : bstep c s (.bSpurious t) = some s') : BInvR c s' := by
  obtain ⟨o, ho⟩ : ∃ o, (s.bpc t).bar = o := ⟨_, rfl⟩
  br_own

theorem binvr_bPut (c : Cfg) {s s' : BState} (hA : InvA c s.base) (hH : BInvH c s) (hP : BInvP c s) (hK : BInvK c s) (h : BInvR c s) (t : _)
    (st : bstep c s (.bPut t) = some s') : BInvR c s' := by
  obtain ⟨o, ho⟩ : ∃ o, (s.bpc t).bar = o := ⟨_, rfl⟩
  br_own

theorem binvr_mSub (c : Cfg) {s s' : BState} (hA : InvA c s.base) (hH : BInvH c s) (hP : BInvP c s) (hK : BInvK c s) (h : BInvR c s) (x : _)
    (st : bstep c s (.mSub x) = some s') : BInvR c s' := by
  br_own

theorem binvr_mLdFut (c : Cfg) {s s' : BState} (hA : InvA c s.base) (hH : BInvH c s) (hP : BInvP c s) (hK : BInvK c s) (h : BInvR c s) (x : _)
    (st : bstep c s (.mLdFut x) = some s') : BInvR c s' := by
  br_own

theorem binvr_mStFut (c : Cfg) {s s' : BState} (hA : InvA c s.base) (hH : BInvH c s) (hP : BInvP c s) (hK : BInvK c s) (h : BInvR c s) (x : _)
    (st : bstep c s (.mStFut x) = some s') : BInvR c s' := by
  br_own

theorem binvr_mWake (c : Cfg) {s s' : BState} (hA : InvA c s.base) (hH : BInvH c s) (hP : BInvP c s) (hK : BInvK c s) (h : BInvR c s) (x : _)
    (st : bstep c s (.mWake x) = some s') : BInvR c s' := by
  br_own

theorem binvr_mPut (c : Cfg) {s s' : BState} (hA : InvA c s.base) (hH : BInvH c s) (hP : BInvP c s) (hK : BInvK c s) (h : BInvR c s) (x : _)
    (st : bstep c s (.mPut x) = some s') : BInvR c s' := by
  br_own

theorem binvr_step (c : Cfg) {s s' : BState} {l : BLabel} (hA : InvA c s.base) (hH : BInvH c s) (hP : BInvP c s) (hK : BInvK c s) (h : BInvR c s)
    (st : bstep c s l = some s') : BInvR c s' := by
  cases l with
  | base l =>
    cases l with
    | rlock t => exact binvr_base_rlock c hA hH hP hK h t st
    | runlock t => exact binvr_base_runlock c hA hH hP hK h t st
    | syncStart t => exact binvr_base_syncStart c hA hH hP hK h t st
    | syncEnd t => exact binvr_base_syncEnd c hA hH hP hK h t st
    | crCall t id => exact binvr_base_crCall c hA hH hP hK h t id st
    | crSelThr t => exact binvr_base_crSelThr c hA hH hP hK h t st
    | crSelCpu t cpu => exact binvr_base_crSelCpu c hA hH hP hK h t cpu st
    | crSelNoCpu t cpu => exact binvr_base_crSelNoCpu c hA hH hP hK h t cpu st
    | gdCall t => exact binvr_base_gdCall c hA hH hP hK h t st
    | gdLd t => exact binvr_base_gdLd c hA hH hP hK h t st
    | gdLock t => exact binvr_base_gdLock c hA hH hP hK h t st
    | gdCreate t => exact binvr_base_gdCreate c hA hH hP hK h t st
    | gdUnlock t => exact binvr_base_gdUnlock c hA hH hP hK h t st
    | enq t => exact binvr_base_enq c hA hH hP hK h t st
    | inc t => exact binvr_base_inc c hA hH hP hK h t st
    | ldFlags t => exact binvr_base_ldFlags c hA hH hP hK h t st
    | ldFutex t => exact binvr_base_ldFutex c hA hH hP hK h t st
    | stFutex t => exact binvr_base_stFutex c hA hH hP hK h t st
    | wake t => exact binvr_base_wake c hA hH hP hK h t st
    | crRet t => exact binvr_base_crRet c hA hH hP hK h t st
    | opCall t op => exact binvr_base_opCall c hA hH hP hK h t op st
    | opLock t => exact binvr_base_opLock c hA hH hP hK h t st
    | opDo t => exact binvr_base_opDo c hA hH hP hK h t st
    | opUnlock t => exact binvr_base_opUnlock c hA hH hP hK h t st
    | setThr t ho => exact binvr_base_setThr c hA hH hP hK h t ho st
    | fCall t h0 => exact binvr_base_fCall c hA hH hP hK h t h0 st
    | fLdFlags t => exact binvr_base_fLdFlags c hA hH hP hK h t st
    | fOrStop t => exact binvr_base_fOrStop c hA hH hP hK h t st
    | fSeeStopped t => exact binvr_base_fSeeStopped c hA hH hP hK h t st
    | fLock t => exact binvr_base_fLock c hA hH hP hK h t st
    | fChk t => exact binvr_base_fChk c hA hH hP hK h t st
    | fUnlock1 t => exact binvr_base_fUnlock1 c hA hH hP hK h t st
    | fLock2 t => exact binvr_base_fLock2 c hA hH hP hK h t st
    | fSplice t => exact binvr_base_fSplice c hA hH hP hK h t st
    | fAddQ t => exact binvr_base_fAddQ c hA hH hP hK h t st
    | fDel t => exact binvr_base_fDel c hA hH hP hK h t st
    | fJoin t => exact binvr_base_fJoin c hA hH hP hK h t st
    | fFree t => exact binvr_base_fFree c hA hH hP hK h t st
    | hStart x => exact binvr_base_hStart c hA hH hP hK h x st
    | hDec0 x => exact binvr_base_hDec0 c hA hH hP hK h x st
    | hTop x => exact binvr_base_hTop c hA hH hP hK h x st
    | hPause x => exact binvr_base_hPause c hA hH hP hK h x st
    | hUnpause x => exact binvr_base_hUnpause c hA hH hP hK h x st
    | hSplice x => exact binvr_base_hSplice c hA hH hP hK h x st
    | hGpEnd x => exact binvr_base_hGpEnd c hA hH hP hK h x st
    | hRunBegin x cb => exact binvr_base_hRunBegin c hA hH hP hK h x cb st
    | hRunEnd x => exact binvr_base_hRunEnd c hA hH hP hK h x st
    | hInvDone x => exact binvr_base_hInvDone c hA hH hP hK h x st
    | hSub x => exact binvr_base_hSub c hA hH hP hK h x st
    | hStopChk x => exact binvr_base_hStopChk c hA hH hP hK h x st
    | hEmptyChk x => exact binvr_base_hEmptyChk c hA hH hP hK h x st
    | hWaitLd x => exact binvr_base_hWaitLd c hA hH hP hK h x st
    | hWaitFx x o => exact binvr_base_hWaitFx c hA hH hP hK h x o st
    | hSpurious x => exact binvr_base_hSpurious c hA hH hP hK h x st
    | hPollW x => exact binvr_base_hPollW c hA hH hP hK h x st
    | hDec x => exact binvr_base_hDec c hA hH hP hK h x st
    | hPollN x => exact binvr_base_hPollN c hA hH hP hK h x st
    | hExitSt x => exact binvr_base_hExitSt c hA hH hP hK h x st
    | hExitOr x => exact binvr_base_hExitOr c hA hH hP hK h x st
    | extBegin t => simp [bstep, Label.isHook] at st
    | extEnd t => simp [bstep, Label.isHook] at st
    | extLock t => simp [bstep, Label.isHook] at st
    | extUnlock t => simp [bstep, Label.isHook] at st
    | extCall t id b h0 => simp [bstep, Label.isHook] at st
    | envPause x v => simp [bstep, Label.isHook] at st
  | bRefused t => exact binvr_bRefused c hA hH hP hK h t st
  | bCall t => exact binvr_bCall c hA hH hP hK h t st
  | bLock t => exact binvr_bLock c hA hH hP hK h t st
  | bInit t => exact binvr_bInit c hA hH hP hK h t st
  | bEnq t id h0 => exact binvr_bEnq c hA hH hP hK h t id h0 st
  | bUnlock t => exact binvr_bUnlock c hA hH hP hK h t st
  | bDec t => exact binvr_bDec c hA hH hP hK h t st
  | bLdCnt t => exact binvr_bLdCnt c hA hH hP hK h t st
  | bWaitLd t => exact binvr_bWaitLd c hA hH hP hK h t st
  | bWaitFx t o => exact binvr_bWaitFx c hA hH hP hK h t o st
  | bSpurious t => exact binvr_bSpurious c hA hH hP hK h t st
  | bPut t => exact binvr_bPut c hA hH hP hK h t st
  | mSub x => exact binvr_mSub c hA hH hP hK h x st
  | mLdFut x => exact binvr_mLdFut c hA hH hP hK h x st
  | mStFut x => exact binvr_mStFut c hA hH hP hK h x st
  | mWake x => exact binvr_mWake c hA hH hP hK h x st
  | mPut x => exact binvr_mPut c hA hH hP hK h x st

end UrcuVerif.CallRcu
