import UrcuVerif.CallRcu.Inv
/-!
# C03 — per-helper FIFO order (helper lemmas; statement in `Props/C03.lean`)

`enqLog h` = every callback ever appended to helper `h`'s queue, in order (by `call_rcu`, by a
barrier, or by the splice of a destroyed helper's leftovers); `invLog h` = the callbacks `h` has
invoked, in order.  Invariant: `invLog h ++ batch h ++ queue h = enqLog h` as long as `h` has not been
retired, i.e. a helper invokes exactly a prefix of what was appended to it, in the same order.
-/
set_option linter.unusedVariables false
set_option linter.unusedSimpArgs false
namespace UrcuVerif.CallRcu

structure InvF (c : Cfg) (s : State) : Prop where
  fifo : ∀ h, s.retired h = false → s.invLog h ++ (s.batch h ++ s.queue h) = s.enqLog h
  fresh_log : ∀ h, s.nextH ≤ h → s.enqLog h = [] ∧ s.invLog h = []

theorem invF_init (c) : InvF c init := by
  constructor <;> simp [init]

theorem cons_tail_of_head? {l : List Nat} {a : Nat} (h : l.head? = some a) : a :: l.tail = l := by
  cases l <;> simp_all

set_option hygiene false in
macro "f_tac" : tactic => `(tactic| (
  have a10 := hA.batch_pc
  have a11 := hA.fresh
  have a5 := hA.tpc_ok
  have a14 := hA.dflt_lt
  clear hA
  obtain ⟨h1, h2⟩ := h
  simp only [step] at st
  (repeat' split at st)
  all_goals (first | (simp at st; done) | skip)
  all_goals (simp only [Option.some.injEq] at st; subst st)
  all_goals (constructor <;> first | assumption | (simp only [upd, lockS, unlockS, newHelper, relocate, nestOn, csOn, nestOff, K.cont, List.append_assoc, List.cons_append, List.nil_append] at * <;>
    grind [upd, TOk, → cons_tail_of_head?]))))

theorem invf_rlock (c : Cfg) {s s' : State} (hA : InvA c s) (h : InvF c s) (t : _)
    (st : step c s (.rlock t) = some s') : InvF c s' := by
  f_tac

theorem invf_runlock (c : Cfg) {s s' : State} (hA : InvA c s) (h : InvF c s) (t : _)
    (st : step c s (.runlock t) = some s') : InvF c s' := by
  f_tac

theorem invf_syncStart (c : Cfg) {s s' : State} (hA : InvA c s) (h : InvF c s) (t : _)
    (st : step c s (.syncStart t) = some s') : InvF c s' := by
  f_tac

theorem invf_syncEnd (c : Cfg) {s s' : State} (hA : InvA c s) (h : InvF c s) (t : _)
    (st : step c s (.syncEnd t) = some s') : InvF c s' := by
  f_tac

theorem invf_crCall (c : Cfg) {s s' : State} (hA : InvA c s) (h : InvF c s) (t id : _)
    (st : step c s (.crCall t id) = some s') : InvF c s' := by
  f_tac

theorem invf_crSelThr (c : Cfg) {s s' : State} (hA : InvA c s) (h : InvF c s) (t : _)
    (st : step c s (.crSelThr t) = some s') : InvF c s' := by
  f_tac

theorem invf_crSelCpu (c : Cfg) {s s' : State} (hA : InvA c s) (h : InvF c s) (t cpu : _)
    (st : step c s (.crSelCpu t cpu) = some s') : InvF c s' := by
  f_tac

theorem invf_crSelNoCpu (c : Cfg) {s s' : State} (hA : InvA c s) (h : InvF c s) (t cpu : _)
    (st : step c s (.crSelNoCpu t cpu) = some s') : InvF c s' := by
  f_tac

theorem invf_gdCall (c : Cfg) {s s' : State} (hA : InvA c s) (h : InvF c s) (t : _)
    (st : step c s (.gdCall t) = some s') : InvF c s' := by
  f_tac

theorem invf_gdLd (c : Cfg) {s s' : State} (hA : InvA c s) (h : InvF c s) (t : _)
    (st : step c s (.gdLd t) = some s') : InvF c s' := by
  f_tac

theorem invf_gdLock (c : Cfg) {s s' : State} (hA : InvA c s) (h : InvF c s) (t : _)
    (st : step c s (.gdLock t) = some s') : InvF c s' := by
  f_tac

theorem invf_gdCreate (c : Cfg) {s s' : State} (hA : InvA c s) (h : InvF c s) (t : _)
    (st : step c s (.gdCreate t) = some s') : InvF c s' := by
  f_tac

theorem invf_gdUnlock (c : Cfg) {s s' : State} (hA : InvA c s) (h : InvF c s) (t : _)
    (st : step c s (.gdUnlock t) = some s') : InvF c s' := by
  f_tac

theorem invf_enq (c : Cfg) {s s' : State} (hA : InvA c s) (h : InvF c s) (t : _)
    (st : step c s (.enq t) = some s') : InvF c s' := by
  f_tac

theorem invf_inc (c : Cfg) {s s' : State} (hA : InvA c s) (h : InvF c s) (t : _)
    (st : step c s (.inc t) = some s') : InvF c s' := by
  f_tac

theorem invf_ldFlags (c : Cfg) {s s' : State} (hA : InvA c s) (h : InvF c s) (t : _)
    (st : step c s (.ldFlags t) = some s') : InvF c s' := by
  f_tac

theorem invf_ldFutex (c : Cfg) {s s' : State} (hA : InvA c s) (h : InvF c s) (t : _)
    (st : step c s (.ldFutex t) = some s') : InvF c s' := by
  f_tac

theorem invf_stFutex (c : Cfg) {s s' : State} (hA : InvA c s) (h : InvF c s) (t : _)
    (st : step c s (.stFutex t) = some s') : InvF c s' := by
  f_tac

theorem invf_wake (c : Cfg) {s s' : State} (hA : InvA c s) (h : InvF c s) (t : _)
    (st : step c s (.wake t) = some s') : InvF c s' := by
  f_tac

theorem invf_crRet (c : Cfg) {s s' : State} (hA : InvA c s) (h : InvF c s) (t : _)
    (st : step c s (.crRet t) = some s') : InvF c s' := by
  f_tac

theorem invf_opCall (c : Cfg) {s s' : State} (hA : InvA c s) (h : InvF c s) (t op : _)
    (st : step c s (.opCall t op) = some s') : InvF c s' := by
  f_tac

theorem invf_opLock (c : Cfg) {s s' : State} (hA : InvA c s) (h : InvF c s) (t : _)
    (st : step c s (.opLock t) = some s') : InvF c s' := by
  f_tac

theorem invf_opDo (c : Cfg) {s s' : State} (hA : InvA c s) (h : InvF c s) (t : _)
    (st : step c s (.opDo t) = some s') : InvF c s' := by
  f_tac

theorem invf_opUnlock (c : Cfg) {s s' : State} (hA : InvA c s) (h : InvF c s) (t : _)
    (st : step c s (.opUnlock t) = some s') : InvF c s' := by
  f_tac

theorem invf_setThr (c : Cfg) {s s' : State} (hA : InvA c s) (h : InvF c s) (t ho : _)
    (st : step c s (.setThr t ho) = some s') : InvF c s' := by
  f_tac

theorem invf_fCall (c : Cfg) {s s' : State} (hA : InvA c s) (h : InvF c s) (t h0 : _)
    (st : step c s (.fCall t h0) = some s') : InvF c s' := by
  f_tac

theorem invf_fLdFlags (c : Cfg) {s s' : State} (hA : InvA c s) (h : InvF c s) (t : _)
    (st : step c s (.fLdFlags t) = some s') : InvF c s' := by
  f_tac

theorem invf_fOrStop (c : Cfg) {s s' : State} (hA : InvA c s) (h : InvF c s) (t : _)
    (st : step c s (.fOrStop t) = some s') : InvF c s' := by
  f_tac

theorem invf_fSeeStopped (c : Cfg) {s s' : State} (hA : InvA c s) (h : InvF c s) (t : _)
    (st : step c s (.fSeeStopped t) = some s') : InvF c s' := by
  f_tac

theorem invf_fLock (c : Cfg) {s s' : State} (hA : InvA c s) (h : InvF c s) (t : _)
    (st : step c s (.fLock t) = some s') : InvF c s' := by
  f_tac

theorem invf_fChk (c : Cfg) {s s' : State} (hA : InvA c s) (h : InvF c s) (t : _)
    (st : step c s (.fChk t) = some s') : InvF c s' := by
  f_tac

theorem invf_fUnlock1 (c : Cfg) {s s' : State} (hA : InvA c s) (h : InvF c s) (t : _)
    (st : step c s (.fUnlock1 t) = some s') : InvF c s' := by
  f_tac

theorem invf_fLock2 (c : Cfg) {s s' : State} (hA : InvA c s) (h : InvF c s) (t : _)
    (st : step c s (.fLock2 t) = some s') : InvF c s' := by
  f_tac

theorem invf_fSplice (c : Cfg) {s s' : State} (hA : InvA c s) (h : InvF c s) (t : _)
    (st : step c s (.fSplice t) = some s') : InvF c s' := by
  f_tac

theorem invf_fAddQ (c : Cfg) {s s' : State} (hA : InvA c s) (h : InvF c s) (t : _)
    (st : step c s (.fAddQ t) = some s') : InvF c s' := by
  f_tac

theorem invf_fDel (c : Cfg) {s s' : State} (hA : InvA c s) (h : InvF c s) (t : _)
    (st : step c s (.fDel t) = some s') : InvF c s' := by
  f_tac

theorem invf_fJoin (c : Cfg) {s s' : State} (hA : InvA c s) (h : InvF c s) (t : _)
    (st : step c s (.fJoin t) = some s') : InvF c s' := by
  f_tac

theorem invf_fFree (c : Cfg) {s s' : State} (hA : InvA c s) (h : InvF c s) (t : _)
    (st : step c s (.fFree t) = some s') : InvF c s' := by
  f_tac

theorem invf_hStart (c : Cfg) {s s' : State} (hA : InvA c s) (h : InvF c s) (x : _)
    (st : step c s (.hStart x) = some s') : InvF c s' := by
  f_tac

theorem invf_hDec0 (c : Cfg) {s s' : State} (hA : InvA c s) (h : InvF c s) (x : _)
    (st : step c s (.hDec0 x) = some s') : InvF c s' := by
  f_tac

theorem invf_hTop (c : Cfg) {s s' : State} (hA : InvA c s) (h : InvF c s) (x : _)
    (st : step c s (.hTop x) = some s') : InvF c s' := by
  f_tac

theorem invf_hPause (c : Cfg) {s s' : State} (hA : InvA c s) (h : InvF c s) (x : _)
    (st : step c s (.hPause x) = some s') : InvF c s' := by
  f_tac

theorem invf_hUnpause (c : Cfg) {s s' : State} (hA : InvA c s) (h : InvF c s) (x : _)
    (st : step c s (.hUnpause x) = some s') : InvF c s' := by
  f_tac

theorem invf_hSplice (c : Cfg) {s s' : State} (hA : InvA c s) (h : InvF c s) (x : _)
    (st : step c s (.hSplice x) = some s') : InvF c s' := by
  f_tac

theorem invf_hGpEnd (c : Cfg) {s s' : State} (hA : InvA c s) (h : InvF c s) (x : _)
    (st : step c s (.hGpEnd x) = some s') : InvF c s' := by
  f_tac

theorem invf_hRunBegin (c : Cfg) {s s' : State} (hA : InvA c s) (h : InvF c s) (x cb : _)
    (st : step c s (.hRunBegin x cb) = some s') : InvF c s' := by
  f_tac

theorem invf_hRunEnd (c : Cfg) {s s' : State} (hA : InvA c s) (h : InvF c s) (x : _)
    (st : step c s (.hRunEnd x) = some s') : InvF c s' := by
  f_tac

theorem invf_hInvDone (c : Cfg) {s s' : State} (hA : InvA c s) (h : InvF c s) (x : _)
    (st : step c s (.hInvDone x) = some s') : InvF c s' := by
  f_tac

theorem invf_hSub (c : Cfg) {s s' : State} (hA : InvA c s) (h : InvF c s) (x : _)
    (st : step c s (.hSub x) = some s') : InvF c s' := by
  f_tac

theorem invf_hStopChk (c : Cfg) {s s' : State} (hA : InvA c s) (h : InvF c s) (x : _)
    (st : step c s (.hStopChk x) = some s') : InvF c s' := by
  f_tac

theorem invf_hEmptyChk (c : Cfg) {s s' : State} (hA : InvA c s) (h : InvF c s) (x : _)
    (st : step c s (.hEmptyChk x) = some s') : InvF c s' := by
  f_tac

theorem invf_hWaitLd (c : Cfg) {s s' : State} (hA : InvA c s) (h : InvF c s) (x : _)
    (st : step c s (.hWaitLd x) = some s') : InvF c s' := by
  f_tac

theorem invf_hWaitFx (c : Cfg) {s s' : State} (hA : InvA c s) (h : InvF c s) (x o : _)
    (st : step c s (.hWaitFx x o) = some s') : InvF c s' := by
  f_tac

theorem invf_hSpurious (c : Cfg) {s s' : State} (hA : InvA c s) (h : InvF c s) (x : _)
    (st : step c s (.hSpurious x) = some s') : InvF c s' := by
  f_tac

theorem invf_hPollW (c : Cfg) {s s' : State} (hA : InvA c s) (h : InvF c s) (x : _)
    (st : step c s (.hPollW x) = some s') : InvF c s' := by
  f_tac

theorem invf_hDec (c : Cfg) {s s' : State} (hA : InvA c s) (h : InvF c s) (x : _)
    (st : step c s (.hDec x) = some s') : InvF c s' := by
  f_tac

theorem invf_hPollN (c : Cfg) {s s' : State} (hA : InvA c s) (h : InvF c s) (x : _)
    (st : step c s (.hPollN x) = some s') : InvF c s' := by
  f_tac

theorem invf_hExitSt (c : Cfg) {s s' : State} (hA : InvA c s) (h : InvF c s) (x : _)
    (st : step c s (.hExitSt x) = some s') : InvF c s' := by
  f_tac

theorem invf_hExitOr (c : Cfg) {s s' : State} (hA : InvA c s) (h : InvF c s) (x : _)
    (st : step c s (.hExitOr x) = some s') : InvF c s' := by
  f_tac

theorem invf_extBegin (c : Cfg) {s s' : State} (hA : InvA c s) (h : InvF c s) (t : _)
    (st : step c s (.extBegin t) = some s') : InvF c s' := by
  f_tac

theorem invf_extEnd (c : Cfg) {s s' : State} (hA : InvA c s) (h : InvF c s) (t : _)
    (st : step c s (.extEnd t) = some s') : InvF c s' := by
  f_tac

theorem invf_extLock (c : Cfg) {s s' : State} (hA : InvA c s) (h : InvF c s) (t : _)
    (st : step c s (.extLock t) = some s') : InvF c s' := by
  f_tac

theorem invf_extUnlock (c : Cfg) {s s' : State} (hA : InvA c s) (h : InvF c s) (t : _)
    (st : step c s (.extUnlock t) = some s') : InvF c s' := by
  f_tac

theorem invf_extCall (c : Cfg) {s s' : State} (hA : InvA c s) (h : InvF c s) (t id b h0 : _)
    (st : step c s (.extCall t id b h0) = some s') : InvF c s' := by
  f_tac

theorem invf_envPause (c : Cfg) {s s' : State} (hA : InvA c s) (h : InvF c s) (x v : _)
    (st : step c s (.envPause x v) = some s') : InvF c s' := by
  f_tac

theorem invf_step (c : Cfg) {s s' : State} {l : Label} (hA : InvA c s) (h : InvF c s)
    (st : step c s l = some s') : InvF c s' := by
  cases l with
  | rlock t => exact invf_rlock c hA h t st
  | runlock t => exact invf_runlock c hA h t st
  | syncStart t => exact invf_syncStart c hA h t st
  | syncEnd t => exact invf_syncEnd c hA h t st
  | crCall t id => exact invf_crCall c hA h t id st
  | crSelThr t => exact invf_crSelThr c hA h t st
  | crSelCpu t cpu => exact invf_crSelCpu c hA h t cpu st
  | crSelNoCpu t cpu => exact invf_crSelNoCpu c hA h t cpu st
  | gdCall t => exact invf_gdCall c hA h t st
  | gdLd t => exact invf_gdLd c hA h t st
  | gdLock t => exact invf_gdLock c hA h t st
  | gdCreate t => exact invf_gdCreate c hA h t st
  | gdUnlock t => exact invf_gdUnlock c hA h t st
  | enq t => exact invf_enq c hA h t st
  | inc t => exact invf_inc c hA h t st
  | ldFlags t => exact invf_ldFlags c hA h t st
  | ldFutex t => exact invf_ldFutex c hA h t st
  | stFutex t => exact invf_stFutex c hA h t st
  | wake t => exact invf_wake c hA h t st
  | crRet t => exact invf_crRet c hA h t st
  | opCall t op => exact invf_opCall c hA h t op st
  | opLock t => exact invf_opLock c hA h t st
  | opDo t => exact invf_opDo c hA h t st
  | opUnlock t => exact invf_opUnlock c hA h t st
  | setThr t ho => exact invf_setThr c hA h t ho st
  | fCall t h0 => exact invf_fCall c hA h t h0 st
  | fLdFlags t => exact invf_fLdFlags c hA h t st
  | fOrStop t => exact invf_fOrStop c hA h t st
  | fSeeStopped t => exact invf_fSeeStopped c hA h t st
  | fLock t => exact invf_fLock c hA h t st
  | fChk t => exact invf_fChk c hA h t st
  | fUnlock1 t => exact invf_fUnlock1 c hA h t st
  | fLock2 t => exact invf_fLock2 c hA h t st
  | fSplice t => exact invf_fSplice c hA h t st
  | fAddQ t => exact invf_fAddQ c hA h t st
  | fDel t => exact invf_fDel c hA h t st
  | fJoin t => exact invf_fJoin c hA h t st
  | fFree t => exact invf_fFree c hA h t st
  | hStart x => exact invf_hStart c hA h x st
  | hDec0 x => exact invf_hDec0 c hA h x st
  | hTop x => exact invf_hTop c hA h x st
  | hPause x => exact invf_hPause c hA h x st
  | hUnpause x => exact invf_hUnpause c hA h x st
  | hSplice x => exact invf_hSplice c hA h x st
  | hGpEnd x => exact invf_hGpEnd c hA h x st
  | hRunBegin x cb => exact invf_hRunBegin c hA h x cb st
  | hRunEnd x => exact invf_hRunEnd c hA h x st
  | hInvDone x => exact invf_hInvDone c hA h x st
  | hSub x => exact invf_hSub c hA h x st
  | hStopChk x => exact invf_hStopChk c hA h x st
  | hEmptyChk x => exact invf_hEmptyChk c hA h x st
  | hWaitLd x => exact invf_hWaitLd c hA h x st
  | hWaitFx x o => exact invf_hWaitFx c hA h x o st
  | hSpurious x => exact invf_hSpurious c hA h x st
  | hPollW x => exact invf_hPollW c hA h x st
  | hDec x => exact invf_hDec c hA h x st
  | hPollN x => exact invf_hPollN c hA h x st
  | hExitSt x => exact invf_hExitSt c hA h x st
  | hExitOr x => exact invf_hExitOr c hA h x st
  | extBegin t => exact invf_extBegin c hA h t st
  | extEnd t => exact invf_extEnd c hA h t st
  | extLock t => exact invf_extLock c hA h t st
  | extUnlock t => exact invf_extUnlock c hA h t st
  | extCall t id b h0 => exact invf_extCall c hA h t id b h0 st
  | envPause x v => exact invf_envPause c hA h x v st

end UrcuVerif.CallRcu
