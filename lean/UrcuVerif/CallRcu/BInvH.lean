import UrcuVerif.CallRcu.Barrier
import UrcuVerif.CallRcu.Inv
/-!
# C04 — structure of the barrier layer and the sleep / wake-up handshake between `rcu_barrier()` and the last
marker (`_rcu_barrier_complete`) (helper lemmas; statements in `Props/C04.lean`)

caller:  loop: `uatomic_dec(&completion->futex)` (0 → -1, locked) ; mb ; `barrier_count == 0` → done ;
         `call_rcu_completion_wait`: mb ; while `futex == -1`: `FUTEX_WAIT(-1)` ; again.
marker:  `uatomic_sub_return(&barrier_count, 1)` (locked) ; if 0: mb ; load futex ; if -1: `futex := 0` (plain store,
         delayed at most up to the system call) ; `FUTEX_WAKE`.
`BInvH`: `futex ∈ {0,-1}`; the caller decrements it only from 0; while the caller is in its wait path with
`futex = -1`, either markers are still outstanding (`barrier_count ≠ 0`) or the marker that brought the count to 0 is
on its way to reset the futex and wake; if the caller sleeps with `futex = 0` that marker is about to call `FUTEX_WAKE`.
-/
set_option linter.unusedVariables false
set_option linter.unusedSimpArgs false
namespace UrcuVerif.CallRcu

/-- the barrier a thread is executing -/
def BPc.bar : BPc → Option Nat
  | .idle => none | .lock b => some b | .init b => some b | .loop b => some b | .dec b => some b | .ldCnt b => some b
  | .waitLd b => some b | .waitFx b => some b | .asleep b => some b | .put b => some b

/-- the caller is inside `call_rcu_completion_wait` -/
def BPc.waiting : BPc → Option Nat
  | .waitLd b => some b | .waitFx b => some b | .asleep b => some b
  | .idle => none | .lock _ => none | .init _ => none | .loop _ => none | .dec _ => none | .ldCnt _ => none | .put _ => none

/-- the caller has not yet touched the futex, or is about to decrement it -/
def BPc.futZero : BPc → Option Nat
  | .lock b => some b | .init b => some b | .loop b => some b | .dec b => some b
  | .idle => none | .ldCnt _ => none | .waitLd _ => none | .waitFx _ => none | .asleep _ => none | .put _ => none

structure BInvH (c : Cfg) (s : BState) : Prop where
  bar_ok : ∀ t b, (s.bpc t).bar = some b → b < s.nextB ∧ s.caller b = t
  mpc_run : ∀ x, s.base.hpc x ≠ .run → s.mpc x = .idle ∧ s.mrun x = none
  mrun_lt : ∀ x b h', s.mrun x = some (b, h') → b < s.nextB
  mark_lt : ∀ m b h', s.base.mark m = some (b, h') → b < s.nextB
  fut_range : ∀ b, s.fut b = 0 ∨ s.fut b = -1
  fut_zero : ∀ t b, (s.bpc t).futZero = some b → s.fut b = 0
  fut_fresh : ∀ b, s.nextB ≤ b → s.fut b = 0
  wait_m1 : ∀ t b, (s.bpc t).waiting = some b → s.fut b = -1 →
    s.cnt b ≠ 0 ∨ ∃ x h', s.mrun x = some (b, h') ∧ (s.mpc x = .ldFut ∨ s.mpc x = .stFut)
  asleep_0 : ∀ t b, s.bpc t = .asleep b → s.fut b = 0 → ∃ x h', s.mrun x = some (b, h') ∧ s.mpc x = .wake

theorem futZero_bar {p : BPc} {b : Nat} (h : p.futZero = some b) : p.bar = some b := by
  cases p <;> simp_all [BPc.futZero, BPc.bar]
theorem waiting_bar {p : BPc} {b : Nat} (h : p.waiting = some b) : p.bar = some b := by
  cases p <;> simp_all [BPc.waiting, BPc.bar]

theorem binvH_init (c) : BInvH c binit := by
  constructor <;> simp [binit, init, BPc.bar, BPc.waiting, BPc.futZero]

set_option hygiene false in
macro "bh_post" : tactic => `(tactic| (
  all_goals (constructor <;> first | assumption | (simp only [upd, upd2, lockS, unlockS, newHelper, nestOn, csOn, nestOff] at * <;>
    grind [upd, BPc.bar, BPc.waiting, BPc.futZero, → futZero_bar, → waiting_bar]))))

set_option hygiene false in
macro "bh_base" : tactic => `(tactic| (
  have a11 := hA.fresh
  clear hA
  obtain ⟨h1, h2, h3, h4, h5, h6, h7, h8, h9⟩ := h
  simp only [bstep, Label.isHook, Bool.false_eq_true, ↓reduceIte] at st
  (repeat' split at st)
  all_goals (first | (simp at st; done) | skip)
  all_goals (simp only [Option.some.injEq] at st; subst st)
  all_goals (rename_i hb; simp only [step] at hb; (repeat' split at hb))
  all_goals (first | (simp at hb; done) | skip)
  all_goals (simp only [Option.some.injEq] at hb; subst hb)
  bh_post))

set_option hygiene false in
macro "bh_own" : tactic => `(tactic| (
  have a11 := hA.fresh
  clear hA
  obtain ⟨h1, h2, h3, h4, h5, h6, h7, h8, h9⟩ := h
  simp only [bstep, step] at st
  (repeat' split at st)
  all_goals (first | (simp at st; done) | skip)
  all_goals (simp only [Option.some.injEq] at st; subst st)
  all_goals (try (rename_i hb; (repeat' split at hb); all_goals (first | (simp at hb; done) | skip); all_goals (simp only [Option.some.injEq] at hb; subst hb)))
  all_goals (try (rename_i hb _; (repeat' split at hb); all_goals (first | (simp at hb; done) | skip); all_goals (simp only [Option.some.injEq] at hb; subst hb)))
  bh_post))

theorem binvh_base_rlock (c : Cfg) {s s' : BState} (hA : InvA c s.base) (h : BInvH c s) (t : _)
    (st : bstep c s (.base (.rlock t)) = some s') : BInvH c s' := by
  bh_base

theorem binvh_base_runlock (c : Cfg) {s s' : BState} (hA : InvA c s.base) (h : BInvH c s) (t : _)
    (st : bstep c s (.base (.runlock t)) = some s') : BInvH c s' := by
  bh_base

theorem binvh_base_syncStart (c : Cfg) {s s' : BState} (hA : InvA c s.base) (h : BInvH c s) (t : _)
    (st : bstep c s (.base (.syncStart t)) = some s') : BInvH c s' := by
  bh_base

theorem binvh_base_syncEnd (c : Cfg) {s s' : BState} (hA : InvA c s.base) (h : BInvH c s) (t : _)
    (st : bstep c s (.base (.syncEnd t)) = some s') : BInvH c s' := by
  bh_base

theorem binvh_base_crCall (c : Cfg) {s s' : BState} (hA : InvA c s.base) (h : BInvH c s) (t id : _)
    (st : bstep c s (.base (.crCall t id)) = some s') : BInvH c s' := by
  bh_base

theorem binvh_base_crSelThr (c : Cfg) {s s' : BState} (hA : InvA c s.base) (h : BInvH c s) (t : _)
    (st : bstep c s (.base (.crSelThr t)) = some s') : BInvH c s' := by
  bh_base

theorem binvh_base_crSelCpu (c : Cfg) {s s' : BState} (hA : InvA c s.base) (h : BInvH c s) (t cpu : _)
    (st : bstep c s (.base (.crSelCpu t cpu)) = some s') : BInvH c s' := by
  bh_base

theorem binvh_base_crSelNoCpu (c : Cfg) {s s' : BState} (hA : InvA c s.base) (h : BInvH c s) (t cpu : _)
    (st : bstep c s (.base (.crSelNoCpu t cpu)) = some s') : BInvH c s' := by
  bh_base

theorem binvh_base_gdCall (c : Cfg) {s s' : BState} (hA : InvA c s.base) (h : BInvH c s) (t : _)
    (st : bstep c s (.base (.gdCall t)) = some s') : BInvH c s' := by
  bh_base

theorem binvh_base_gdLd (c : Cfg) {s s' : BState} (hA : InvA c s.base) (h : BInvH c s) (t : _)
    (st : bstep c s (.base (.gdLd t)) = some s') : BInvH c s' := by
  bh_base

theorem binvh_base_gdLock (c : Cfg) {s s' : BState} (hA : InvA c s.base) (h : BInvH c s) (t : _)
    (st : bstep c s (.base (.gdLock t)) = some s') : BInvH c s' := by
  bh_base

theorem binvh_base_gdCreate (c : Cfg) {s s' : BState} (hA : InvA c s.base) (h : BInvH c s) (t : _)
    (st : bstep c s (.base (.gdCreate t)) = some s') : BInvH c s' := by
  bh_base

theorem binvh_base_gdUnlock (c : Cfg) {s s' : BState} (hA : InvA c s.base) (h : BInvH c s) (t : _)
    (st : bstep c s (.base (.gdUnlock t)) = some s') : BInvH c s' := by
  bh_base

theorem binvh_base_enq (c : Cfg) {s s' : BState} (hA : InvA c s.base) (h : BInvH c s) (t : _)
    (st : bstep c s (.base (.enq t)) = some s') : BInvH c s' := by
  bh_base

theorem binvh_base_inc (c : Cfg) {s s' : BState} (hA : InvA c s.base) (h : BInvH c s) (t : _)
    (st : bstep c s (.base (.inc t)) = some s') : BInvH c s' := by
  bh_base

theorem binvh_base_ldFlags (c : Cfg) {s s' : BState} (hA : InvA c s.base) (h : BInvH c s) (t : _)
    (st : bstep c s (.base (.ldFlags t)) = some s') : BInvH c s' := by
  bh_base

theorem binvh_base_ldFutex (c : Cfg) {s s' : BState} (hA : InvA c s.base) (h : BInvH c s) (t : _)
    (st : bstep c s (.base (.ldFutex t)) = some s') : BInvH c s' := by
  bh_base

theorem binvh_base_stFutex (c : Cfg) {s s' : BState} (hA : InvA c s.base) (h : BInvH c s) (t : _)
    (st : bstep c s (.base (.stFutex t)) = some s') : BInvH c s' := by
  bh_base

theorem binvh_base_wake (c : Cfg) {s s' : BState} (hA : InvA c s.base) (h : BInvH c s) (t : _)
    (st : bstep c s (.base (.wake t)) = some s') : BInvH c s' := by
  bh_base

theorem binvh_base_crRet (c : Cfg) {s s' : BState} (hA : InvA c s.base) (h : BInvH c s) (t : _)
    (st : bstep c s (.base (.crRet t)) = some s') : BInvH c s' := by
  bh_base

theorem binvh_base_opCall (c : Cfg) {s s' : BState} (hA : InvA c s.base) (h : BInvH c s) (t op : _)
    (st : bstep c s (.base (.opCall t op)) = some s') : BInvH c s' := by
  bh_base

theorem binvh_base_opLock (c : Cfg) {s s' : BState} (hA : InvA c s.base) (h : BInvH c s) (t : _)
    (st : bstep c s (.base (.opLock t)) = some s') : BInvH c s' := by
  bh_base

theorem binvh_base_opDo (c : Cfg) {s s' : BState} (hA : InvA c s.base) (h : BInvH c s) (t : _)
    (st : bstep c s (.base (.opDo t)) = some s') : BInvH c s' := by
  bh_base

theorem binvh_base_opUnlock (c : Cfg) {s s' : BState} (hA : InvA c s.base) (h : BInvH c s) (t : _)
    (st : bstep c s (.base (.opUnlock t)) = some s') : BInvH c s' := by
  bh_base

theorem binvh_base_setThr (c : Cfg) {s s' : BState} (hA : InvA c s.base) (h : BInvH c s) (t ho : _)
    (st : bstep c s (.base (.setThr t ho)) = some s') : BInvH c s' := by
  bh_base

theorem binvh_base_fCall (c : Cfg) {s s' : BState} (hA : InvA c s.base) (h : BInvH c s) (t h0 : _)
    (st : bstep c s (.base (.fCall t h0)) = some s') : BInvH c s' := by
  bh_base

theorem binvh_base_fLdFlags (c : Cfg) {s s' : BState} (hA : InvA c s.base) (h : BInvH c s) (t : _)
    (st : bstep c s (.base (.fLdFlags t)) = some s') : BInvH c s' := by
  bh_base

theorem binvh_base_fOrStop (c : Cfg) {s s' : BState} (hA : InvA c s.base) (h : BInvH c s) (t : _)
    (st : bstep c s (.base (.fOrStop t)) = some s') : BInvH c s' := by
  bh_base

theorem binvh_base_fSeeStopped (c : Cfg) {s s' : BState} (hA : InvA c s.base) (h : BInvH c s) (t : _)
    (st : bstep c s (.base (.fSeeStopped t)) = some s') : BInvH c s' := by
  bh_base

theorem binvh_base_fLock (c : Cfg) {s s' : BState} (hA : InvA c s.base) (h : BInvH c s) (t : _)
    (st : bstep c s (.base (.fLock t)) = some s') : BInvH c s' := by
  bh_base

theorem binvh_base_fChk (c : Cfg) {s s' : BState} (hA : InvA c s.base) (h : BInvH c s) (t : _)
    (st : bstep c s (.base (.fChk t)) = some s') : BInvH c s' := by
  bh_base

theorem binvh_base_fUnlock1 (c : Cfg) {s s' : BState} (hA : InvA c s.base) (h : BInvH c s) (t : _)
    (st : bstep c s (.base (.fUnlock1 t)) = some s') : BInvH c s' := by
  bh_base

theorem binvh_base_fLock2 (c : Cfg) {s s' : BState} (hA : InvA c s.base) (h : BInvH c s) (t : _)
    (st : bstep c s (.base (.fLock2 t)) = some s') : BInvH c s' := by
  bh_base

theorem binvh_base_fSplice (c : Cfg) {s s' : BState} (hA : InvA c s.base) (h : BInvH c s) (t : _)
    (st : bstep c s (.base (.fSplice t)) = some s') : BInvH c s' := by
  bh_base

theorem binvh_base_fAddQ (c : Cfg) {s s' : BState} (hA : InvA c s.base) (h : BInvH c s) (t : _)
    (st : bstep c s (.base (.fAddQ t)) = some s') : BInvH c s' := by
  bh_base

theorem binvh_base_fDel (c : Cfg) {s s' : BState} (hA : InvA c s.base) (h : BInvH c s) (t : _)
    (st : bstep c s (.base (.fDel t)) = some s') : BInvH c s' := by
  bh_base

theorem binvh_base_fJoin (c : Cfg) {s s' : BState} (hA : InvA c s.base) (h : BInvH c s) (t : _)
    (st : bstep c s (.base (.fJoin t)) = some s') : BInvH c s' := by
  bh_base

theorem binvh_base_fFree (c : Cfg) {s s' : BState} (hA : InvA c s.base) (h : BInvH c s) (t : _)
    (st : bstep c s (.base (.fFree t)) = some s') : BInvH c s' := by
  bh_base

theorem binvh_base_hStart (c : Cfg) {s s' : BState} (hA : InvA c s.base) (h : BInvH c s) (x : _)
    (st : bstep c s (.base (.hStart x)) = some s') : BInvH c s' := by
  bh_base

theorem binvh_base_hDec0 (c : Cfg) {s s' : BState} (hA : InvA c s.base) (h : BInvH c s) (x : _)
    (st : bstep c s (.base (.hDec0 x)) = some s') : BInvH c s' := by
  bh_base

theorem binvh_base_hTop (c : Cfg) {s s' : BState} (hA : InvA c s.base) (h : BInvH c s) (x : _)
    (st : bstep c s (.base (.hTop x)) = some s') : BInvH c s' := by
  bh_base

theorem binvh_base_hPause (c : Cfg) {s s' : BState} (hA : InvA c s.base) (h : BInvH c s) (x : _)
    (st : bstep c s (.base (.hPause x)) = some s') : BInvH c s' := by
  bh_base

theorem binvh_base_hUnpause (c : Cfg) {s s' : BState} (hA : InvA c s.base) (h : BInvH c s) (x : _)
    (st : bstep c s (.base (.hUnpause x)) = some s') : BInvH c s' := by
  bh_base

theorem binvh_base_hSplice (c : Cfg) {s s' : BState} (hA : InvA c s.base) (h : BInvH c s) (x : _)
    (st : bstep c s (.base (.hSplice x)) = some s') : BInvH c s' := by
  bh_base

theorem binvh_base_hGpEnd (c : Cfg) {s s' : BState} (hA : InvA c s.base) (h : BInvH c s) (x : _)
    (st : bstep c s (.base (.hGpEnd x)) = some s') : BInvH c s' := by
  bh_base

theorem binvh_base_hRunBegin (c : Cfg) {s s' : BState} (hA : InvA c s.base) (h : BInvH c s) (x cb : _)
    (st : bstep c s (.base (.hRunBegin x cb)) = some s') : BInvH c s' := by
  bh_base

theorem binvh_base_hRunEnd (c : Cfg) {s s' : BState} (hA : InvA c s.base) (h : BInvH c s) (x : _)
    (st : bstep c s (.base (.hRunEnd x)) = some s') : BInvH c s' := by
  bh_base

theorem binvh_base_hInvDone (c : Cfg) {s s' : BState} (hA : InvA c s.base) (h : BInvH c s) (x : _)
    (st : bstep c s (.base (.hInvDone x)) = some s') : BInvH c s' := by
  bh_base

theorem binvh_base_hSub (c : Cfg) {s s' : BState} (hA : InvA c s.base) (h : BInvH c s) (x : _)
    (st : bstep c s (.base (.hSub x)) = some s') : BInvH c s' := by
  bh_base

theorem binvh_base_hStopChk (c : Cfg) {s s' : BState} (hA : InvA c s.base) (h : BInvH c s) (x : _)
    (st : bstep c s (.base (.hStopChk x)) = some s') : BInvH c s' := by
  bh_base

theorem binvh_base_hEmptyChk (c : Cfg) {s s' : BState} (hA : InvA c s.base) (h : BInvH c s) (x : _)
    (st : bstep c s (.base (.hEmptyChk x)) = some s') : BInvH c s' := by
  bh_base

theorem binvh_base_hWaitLd (c : Cfg) {s s' : BState} (hA : InvA c s.base) (h : BInvH c s) (x : _)
    (st : bstep c s (.base (.hWaitLd x)) = some s') : BInvH c s' := by
  bh_base

theorem binvh_base_hWaitFx (c : Cfg) {s s' : BState} (hA : InvA c s.base) (h : BInvH c s) (x o : _)
    (st : bstep c s (.base (.hWaitFx x o)) = some s') : BInvH c s' := by
  bh_base

theorem binvh_base_hSpurious (c : Cfg) {s s' : BState} (hA : InvA c s.base) (h : BInvH c s) (x : _)
    (st : bstep c s (.base (.hSpurious x)) = some s') : BInvH c s' := by
  bh_base

theorem binvh_base_hPollW (c : Cfg) {s s' : BState} (hA : InvA c s.base) (h : BInvH c s) (x : _)
    (st : bstep c s (.base (.hPollW x)) = some s') : BInvH c s' := by
  bh_base

theorem binvh_base_hDec (c : Cfg) {s s' : BState} (hA : InvA c s.base) (h : BInvH c s) (x : _)
    (st : bstep c s (.base (.hDec x)) = some s') : BInvH c s' := by
  bh_base

theorem binvh_base_hPollN (c : Cfg) {s s' : BState} (hA : InvA c s.base) (h : BInvH c s) (x : _)
    (st : bstep c s (.base (.hPollN x)) = some s') : BInvH c s' := by
  bh_base

theorem binvh_base_hExitSt (c : Cfg) {s s' : BState} (hA : InvA c s.base) (h : BInvH c s) (x : _)
    (st : bstep c s (.base (.hExitSt x)) = some s') : BInvH c s' := by
  bh_base

theorem binvh_base_hExitOr (c : Cfg) {s s' : BState} (hA : InvA c s.base) (h : BInvH c s) (x : _)
    (st : bstep c s (.base (.hExitOr x)) = some s') : BInvH c s' := by
  bh_base

theorem binvh_bRefused (c : Cfg) {s s' : BState} (hA : InvA c s.base) (h : BInvH c s) (t : _)
    (st : bstep c s (.bRefused t) = some s') : BInvH c s' := by
  bh_own

theorem binvh_bCall (c : Cfg) {s s' : BState} (hA : InvA c s.base) (h : BInvH c s) (t : _)
    (st : bstep c s (.bCall t) = some s') : BInvH c s' := by
  bh_own

theorem binvh_bLock (c : Cfg) {s s' : BState} (hA : InvA c s.base) (h : BInvH c s) (t : _)
    (st : bstep c s (.bLock t) = some s') : BInvH c s' := by
  bh_own

theorem binvh_bInit (c : Cfg) {s s' : BState} (hA : InvA c s.base) (h : BInvH c s) (t : _)
    (st : bstep c s (.bInit t) = some s') : BInvH c s' := by
  bh_own

theorem binvh_bEnq (c : Cfg) {s s' : BState} (hA : InvA c s.base) (h : BInvH c s) (t id h0 : _)
    (st : bstep c s (.bEnq t id h0) = some s') : BInvH c s' := by
  bh_own

theorem binvh_bUnlock (c : Cfg) {s s' : BState} (hA : InvA c s.base) (h : BInvH c s) (t : _)
    (st : bstep c s (.bUnlock t) = some s') : BInvH c s' := by
  bh_own

theorem binvh_bDec (c : Cfg) {s s' : BState} (hA : InvA c s.base) (h : BInvH c s) (t : _)
    (st : bstep c s (.bDec t) = some s') : BInvH c s' := by
  bh_own

theorem binvh_bLdCnt (c : Cfg) {s s' : BState} (hA : InvA c s.base) (h : BInvH c s) (t : _)
    (st : bstep c s (.bLdCnt t) = some s') : BInvH c s' := by
  bh_own

theorem binvh_bWaitLd (c : Cfg) {s s' : BState} (hA : InvA c s.base) (h : BInvH c s) (t : _)
    (st : bstep c s (.bWaitLd t) = some s') : BInvH c s' := by
  bh_own

theorem binvh_bWaitFx (c : Cfg) {s s' : BState} (hA : InvA c s.base) (h : BInvH c s) (t o : _)
    (st : bstep c s (.bWaitFx t o) = some s') : BInvH c s' := by
  bh_own

theorem binvh_bSpurious (c : Cfg) {s s' : BState} (hA : InvA c s.base) (h : BInvH c s) (t : _)
    (st : bstep c s (.bSpurious t) = some s') : BInvH c s' := by
  bh_own

theorem binvh_bPut (c : Cfg) {s s' : BState} (hA : InvA c s.base) (h : BInvH c s) (t : _)
    (st : bstep c s (.bPut t) = some s') : BInvH c s' := by
  bh_own

theorem binvh_mSub (c : Cfg) {s s' : BState} (hA : InvA c s.base) (h : BInvH c s) (x : _)
    (st : bstep c s (.mSub x) = some s') : BInvH c s' := by
  bh_own

theorem binvh_mLdFut (c : Cfg) {s s' : BState} (hA : InvA c s.base) (h : BInvH c s) (x : _)
    (st : bstep c s (.mLdFut x) = some s') : BInvH c s' := by
  bh_own

theorem binvh_mStFut (c : Cfg) {s s' : BState} (hA : InvA c s.base) (h : BInvH c s) (x : _)
    (st : bstep c s (.mStFut x) = some s') : BInvH c s' := by
  bh_own

theorem binvh_mWake (c : Cfg) {s s' : BState} (hA : InvA c s.base) (h : BInvH c s) (x : _)
    (st : bstep c s (.mWake x) = some s') : BInvH c s' := by
  bh_own

theorem binvh_mPut (c : Cfg) {s s' : BState} (hA : InvA c s.base) (h : BInvH c s) (x : _)
    (st : bstep c s (.mPut x) = some s') : BInvH c s' := by
  bh_own

theorem binvh_step (c : Cfg) {s s' : BState} {l : BLabel} (hA : InvA c s.base) (h : BInvH c s)
    (st : bstep c s l = some s') : BInvH c s' := by
  cases l with
  | base l =>
    cases l with
    | rlock t => exact binvh_base_rlock c hA h t st
    | runlock t => exact binvh_base_runlock c hA h t st
    | syncStart t => exact binvh_base_syncStart c hA h t st
    | syncEnd t => exact binvh_base_syncEnd c hA h t st
    | crCall t id => exact binvh_base_crCall c hA h t id st
    | crSelThr t => exact binvh_base_crSelThr c hA h t st
    | crSelCpu t cpu => exact binvh_base_crSelCpu c hA h t cpu st
    | crSelNoCpu t cpu => exact binvh_base_crSelNoCpu c hA h t cpu st
    | gdCall t => exact binvh_base_gdCall c hA h t st
    | gdLd t => exact binvh_base_gdLd c hA h t st
    | gdLock t => exact binvh_base_gdLock c hA h t st
    | gdCreate t => exact binvh_base_gdCreate c hA h t st
    | gdUnlock t => exact binvh_base_gdUnlock c hA h t st
    | enq t => exact binvh_base_enq c hA h t st
    | inc t => exact binvh_base_inc c hA h t st
    | ldFlags t => exact binvh_base_ldFlags c hA h t st
    | ldFutex t => exact binvh_base_ldFutex c hA h t st
    | stFutex t => exact binvh_base_stFutex c hA h t st
    | wake t => exact binvh_base_wake c hA h t st
    | crRet t => exact binvh_base_crRet c hA h t st
    | opCall t op => exact binvh_base_opCall c hA h t op st
    | opLock t => exact binvh_base_opLock c hA h t st
    | opDo t => exact binvh_base_opDo c hA h t st
    | opUnlock t => exact binvh_base_opUnlock c hA h t st
    | setThr t ho => exact binvh_base_setThr c hA h t ho st
    | fCall t h0 => exact binvh_base_fCall c hA h t h0 st
    | fLdFlags t => exact binvh_base_fLdFlags c hA h t st
    | fOrStop t => exact binvh_base_fOrStop c hA h t st
    | fSeeStopped t => exact binvh_base_fSeeStopped c hA h t st
    | fLock t => exact binvh_base_fLock c hA h t st
    | fChk t => exact binvh_base_fChk c hA h t st
    | fUnlock1 t => exact binvh_base_fUnlock1 c hA h t st
    | fLock2 t => exact binvh_base_fLock2 c hA h t st
    | fSplice t => exact binvh_base_fSplice c hA h t st
    | fAddQ t => exact binvh_base_fAddQ c hA h t st
    | fDel t => exact binvh_base_fDel c hA h t st
    | fJoin t => exact binvh_base_fJoin c hA h t st
    | fFree t => exact binvh_base_fFree c hA h t st
    | hStart x => exact binvh_base_hStart c hA h x st
    | hDec0 x => exact binvh_base_hDec0 c hA h x st
    | hTop x => exact binvh_base_hTop c hA h x st
    | hPause x => exact binvh_base_hPause c hA h x st
    | hUnpause x => exact binvh_base_hUnpause c hA h x st
    | hSplice x => exact binvh_base_hSplice c hA h x st
    | hGpEnd x => exact binvh_base_hGpEnd c hA h x st
    | hRunBegin x cb => exact binvh_base_hRunBegin c hA h x cb st
    | hRunEnd x => exact binvh_base_hRunEnd c hA h x st
    | hInvDone x => exact binvh_base_hInvDone c hA h x st
    | hSub x => exact binvh_base_hSub c hA h x st
    | hStopChk x => exact binvh_base_hStopChk c hA h x st
    | hEmptyChk x => exact binvh_base_hEmptyChk c hA h x st
    | hWaitLd x => exact binvh_base_hWaitLd c hA h x st
    | hWaitFx x o => exact binvh_base_hWaitFx c hA h x o st
    | hSpurious x => exact binvh_base_hSpurious c hA h x st
    | hPollW x => exact binvh_base_hPollW c hA h x st
    | hDec x => exact binvh_base_hDec c hA h x st
    | hPollN x => exact binvh_base_hPollN c hA h x st
    | hExitSt x => exact binvh_base_hExitSt c hA h x st
    | hExitOr x => exact binvh_base_hExitOr c hA h x st
    | extBegin t => simp [bstep, Label.isHook] at st
    | extEnd t => simp [bstep, Label.isHook] at st
    | extLock t => simp [bstep, Label.isHook] at st
    | extUnlock t => simp [bstep, Label.isHook] at st
    | extCall t id b h0 => simp [bstep, Label.isHook] at st
    | envPause x v => simp [bstep, Label.isHook] at st
  | bRefused t => exact binvh_bRefused c hA h t st
  | bCall t => exact binvh_bCall c hA h t st
  | bLock t => exact binvh_bLock c hA h t st
  | bInit t => exact binvh_bInit c hA h t st
  | bEnq t id h0 => exact binvh_bEnq c hA h t id h0 st
  | bUnlock t => exact binvh_bUnlock c hA h t st
  | bDec t => exact binvh_bDec c hA h t st
  | bLdCnt t => exact binvh_bLdCnt c hA h t st
  | bWaitLd t => exact binvh_bWaitLd c hA h t st
  | bWaitFx t o => exact binvh_bWaitFx c hA h t o st
  | bSpurious t => exact binvh_bSpurious c hA h t st
  | bPut t => exact binvh_bPut c hA h t st
  | mSub x => exact binvh_mSub c hA h x st
  | mLdFut x => exact binvh_mLdFut c hA h x st
  | mStFut x => exact binvh_mStFut c hA h x st
  | mWake x => exact binvh_mWake c hA h x st
  | mPut x => exact binvh_mPut c hA h x st

end UrcuVerif.CallRcu
