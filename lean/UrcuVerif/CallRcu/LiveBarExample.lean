import UrcuVerif.CallRcu.LiveBarLoop3
import UrcuVerif.CallRcu.LiveE2EExample
/-! Helper lemmas for the non-vacuity example of `BFairEnv` (`Props/LiveC04E2E.lean`). -/
set_option linter.unusedSimpArgs false
set_option linter.unusedVariables false
namespace UrcuVerif.CallRcu
open UrcuVerif UrcuVerif.Fair

/-- an invariant preserved by the steps of a label list holds along the prefix run -/
theorem prefix_inv {σ L : Type} (step : σ → L → Option σ) (Inv : σ → Prop) (ok : L → Prop)
    (hstep : ∀ s l s', Inv s → ok l → step s l = some s' → Inv s') (ls : List L) (hl : ∀ l, l ∈ ls → ok l) (s : σ) (h : Inv s) :
    ∀ j, Inv (prefixState step s ls j) := by
  induction ls generalizing s with
  | nil => intro j; exact h
  | cons a r ih =>
    intro j
    cases j with
    | zero => exact h
    | succ j =>
      simp only [prefixState]
      cases hs : step s a with
      | none => exact h
      | some s1 => exact ih (fun l hm => hl l (by simp [hm])) s1 (hstep s a s1 h (hl a (by simp)) hs) j

theorem idle_no_btlabel (c : Cfg) {s : BState} {t : Nat} (h1 : s.base.tpc t = .idle) (h2 : s.bpc t = .idle) :
    ¬ Enabled (bstep c) (btLabel t) s := by
  rintro ⟨bl, hl, he⟩
  cases bl with
  | base l =>
    simp only [btLabel] at hl
    rw [bt_base_enabled c s t l hl] at he
    exact idle_no_tlabel c h1 ⟨l, hl, he⟩
  | _ =>
    simp only [btLabel] at hl
    all_goals (first | (exfalso; exact hl) | skip)
    all_goals (first | subst hl | (have h' := hl.1; subst h'))
    all_goals (simp [bstep, h2] at he)

theorem no_bhlabel (c : Cfg) {s : BState} {x : Nat} (h1 : s.base.hpc x = .asleep ∨ s.base.hpc x = .none) (h2 : s.mrun x = none) :
    ¬ Enabled (bstep c) (bhLabel x) s := by
  rintro ⟨bl, hl, he⟩
  cases bl with
  | base l =>
    simp only [bhLabel] at hl
    rw [bh_base_enabled c s x l hl (by rw [h2]; simp)] at he
    unfold hOwn at hl
    rcases h1 with h1 | h1 <;>
      (cases l <;> simp only [helperLabel, beq_iff_eq, Bool.false_eq_true] at hl <;> subst hl <;> simp [step, h1] at he <;>
        (try (split at he <;> simp at he)))
  | _ =>
    simp only [bhLabel] at hl
    all_goals (first | (exfalso; exact hl) | skip)
    all_goals (subst hl; simp [bstep, h2] at he)

/-- nobody is paused and the library destructor does not run -/
def Plain2 (s : State) : Prop := (∀ x, s.pause x = false) ∧ NoExit s

def Label.ok2 : Label → Bool
  | .envPause _ _ => false
  | .opCall _ .unsetDflt => false
  | _ => true

theorem plain2_step (c : Cfg) {s s' : State} {l : Label} (h : Plain2 s) (hl : l.ok2 = true) (st : step c s l = some s') :
    Plain2 s' := by
  obtain ⟨h1, h2⟩ := h
  unfold Plain2 NoExit at *
  cases l <;> simp only [Label.ok2, Bool.false_eq_true] at hl <;> c_bash <;>
    grind [Label.ok2, cont_ne_opLock, cont_ne_opDo]

def BLabel.ok2 : BLabel → Bool
  | .base l => l.ok2
  | _ => true

theorem plain2_bstep (c : Cfg) {s s' : BState} {bl : BLabel} (h : Plain2 s.base) (hl : bl.ok2 = true)
    (st : bstep c s bl = some s') : Plain2 s'.base := by
  have hp := proj_step c st
  cases hq : projLabel s bl with
  | none => rw [hp.2 hq]; exact h
  | some l =>
    refine plain2_step c h ?_ (hp.1 l hq)
    cases bl <;> simp [projLabel] at hq <;> (try (subst hq)) <;> (try (simpa [BLabel.ok2] using hl)) <;> (try rfl)
    split at hq <;> simp at hq
    subst hq; rfl

end UrcuVerif.CallRcu
