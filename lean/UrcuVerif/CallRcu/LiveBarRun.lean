import UrcuVerif.CallRcu.LiveBarLoop2
/-! Run-level lemmas for the end-to-end liveness of `rcu_barrier()`: from the provisos about a run of the barrier layer
to the provisos (`FairEnv`) about its projection to the call_rcu layer. -/
set_option linter.unusedSimpArgs false
set_option linter.unusedVariables false
namespace UrcuVerif.CallRcu
open UrcuVerif UrcuVerif.Fair

/-- **The provisos of the property for the barrier layer, as hypotheses about a run.** -/
structure BFairEnv (c : Cfg) (ρ : Nat → BState) (ℓ : Nat → Option BLabel) : Prop where
  /-- an infinite run of the barrier layer (idle steps allowed) from a reachable state -/
  run : IsRun (bstep c) ρ ℓ
  reach : BReach c (ρ 0)
  /-- application threads are scheduled fairly inside library calls (`call_rcu`, `call_rcu_data_free`, the operations
  under the mutex, `rcu_barrier`), lock acquisition included (strong fairness) -/
  threads : ∀ t, StrongFair (bstep c) ρ ℓ (btLabel t)
  /-- helper threads (`call_rcu_thread` and the `_rcu_barrier_complete` callbacks they run) are scheduled fairly -/
  helpers : ∀ x, WeakFair (bstep c) ρ ℓ (bhLabel x)
  /-- every read-side section eventually ends -/
  sections_end : ∀ t j, 0 < (ρ j).base.nest t → ∃ j', j ≤ j' ∧ (ρ j').base.nest t = 0
  /-- user callbacks terminate -/
  user_callbacks_terminate : ∀ x j, (ρ j).base.hpc x = .run → (ρ j).mrun x = none → ∃ j', j ≤ j' ∧ (ρ j').base.hpc x ≠ .run
  /-- `_rcu_barrier_complete` does not call back into the library: while a helper runs a marker its thread performs no
  other operation (a freedom of the model that the code does not have) -/
  markers_quiet : ∀ x j, ((ρ j).mrun x).isSome = true → (ρ j).base.tpc (c.n + x) = .idle
  /-- no `call_rcu_before_fork` in progress -/
  no_pause : ∀ x j, (ρ j).base.pause x = false
  /-- the library destructor does not run concurrently with other API calls -/
  no_exit : ∀ j, NoExit (ρ j).base
  dflt_ok : InvQ (ρ 0).base

namespace BFairEnv
variable {c : Cfg} {ρ : Nat → BState} {ℓ : Nat → Option BLabel}

/-- the projected run -/
def ρb (ρ : Nat → BState) : Nat → State := fun j => (ρ j).base
def ℓb (ρ : Nat → BState) (ℓ : Nat → Option BLabel) : Nat → Option Label := fun j => (ℓ j).bind (projLabel (ρ j))

theorem breach (E : BFairEnv c ρ ℓ) (j : Nat) : BReach c (ρ j) :=
  inv_along E.run (BReach c) (fun _ _ _ h st => BReach.step h st) 0 E.reach j (Nat.zero_le j)
theorem inv (E : BFairEnv c ρ ℓ) (j : Nat) : LInv2 c (ρ j) := linv2_reach c (E.breach j)
theorem brun (E : BFairEnv c ρ ℓ) : IsRun (step c) (ρb ρ) (ℓb ρ ℓ) := proj_isRun c E.run

/-- a base label taken in the projection is the base label taken in the barrier layer, for non-hook labels -/
theorem took_base (ρ : Nat → BState) (ℓ : Nat → Option BLabel) (j : Nat) (l : Label) (h : ℓ j = some (.base l)) :
    ℓb ρ ℓ j = some l := by simp [ℓb, h, projLabel]

/-- marker steps are scheduled fairly -/
theorem markers (E : BFairEnv c ρ ℓ) (x : Nat) : WeakFair (bstep c) ρ ℓ (fun bl => bl ∈ markerLabels x) := by
  intro i he
  obtain ⟨j, hj, bl, hl, hb⟩ := E.helpers x i (fun j hj => by
    obtain ⟨bl, h1, h2⟩ := he j hj
    exact ⟨bl, ((markerLabels_bh x bl).mp h1).1, h2⟩)
  refine ⟨j, hj, bl, hl, ?_⟩
  obtain ⟨bl', h1, h2⟩ := he j hj
  -- a marker step is enabled at `j`: the marker is unfinished, so the step taken is a marker step
  have hm : ((ρ j).mrun x).isSome = true ∧ (ρ j).mpc x ≠ .fin := by
    simp only [markerLabels, List.mem_cons, List.mem_nil_iff, or_false] at h1
    rcases h1 with rfl | rfl | rfl | rfl | rfl <;> simp only [bstep] at h2 <;> (repeat' split at h2) <;> simp_all
  exact marker_excl c (E.inv j).l.all.H x hm.1 hm.2 hb (E.run.move j bl hl)

/-- a running `_rcu_barrier_complete` finishes -/
theorem marker_eventually_fin (E : BFairEnv c ρ ℓ) (x b h' : Nat) :
    ∀ j, (ρ j).mrun x = some (b, h') → ∃ j', j ≤ j' ∧ (ρ j').mrun x = some (b, h') ∧ (ρ j').mpc x = .fin := by
  intro j hm
  have key := fair_measure_leadsTo_from E.run (fun bl => bl ∈ markerLabels x) (LInv2 c) (fun s => s.mrun x = some (b, h'))
    (fun s => s.mrun x = some (b, h') ∧ s.mpc x = .fin) (fun s => mRank (s.mpc x)) 0 (fun j _ => E.inv j) (E.markers x)
    (fun s bl s' I p g st => by
      have hf : s.mpc x ≠ .fin := fun h => g ⟨p, h⟩
      by_cases hl : bl ∈ markerLabels x
      · left
        simp only [markerLabels, List.mem_cons, List.mem_nil_iff, or_false] at hl
        rcases hl with rfl | rfl | rfl | rfl | rfl <;> simp only [bstep, p] at st <;> (repeat' split at st) <;>
          simp only [Option.some.injEq, reduceCtorEq] at st <;> subst st <;> exact p
      · have := marker_frame c I.l.all.H x (by rw [p]; rfl) hf hl st
        exact Or.inl (by rw [this.1]; exact p))
    (fun s I p g => marker_not_stuck c s x b h' p (fun h => g ⟨p, h⟩))
    (fun s bl s' I p g hl st => Or.inl (marker_measure c x hl st))
    (fun s bl s' I p g hl st => by
      have := marker_frame c I.l.all.H x (by rw [p]; rfl) (fun h => g ⟨p, h⟩) hl st
      exact Or.inl (by rw [this.2]; exact Nat.le_refl _))
    j (Nat.zero_le j) hm
  exact key

/-- call_rcu-layer fairness of the application threads (strong), for the projected run -/
theorem threads_base (E : BFairEnv c ρ ℓ) (t : Nat) : StrongFair (step c) (ρb ρ) (ℓb ρ ℓ) (tLabel t) := by
  intro i he
  apply Classical.byContradiction
  intro hno
  have hnt : ∀ j, i ≤ j → ∀ l, ℓ j = some (.base l) → ¬ tLabel t l := by
    intro j hj l hl ht
    exact hno ⟨j, hj, l, took_base ρ ℓ j l hl, ht⟩
  -- a position at which the thread is in the middle of a call_rcu-layer operation
  obtain ⟨k, hk, l0, hl0, he0⟩ := he i (Nat.le_refl i)
  have hmid : (ρ k).base.tpc t ≠ .idle ∧ (ρ k).base.tpc t ≠ .ext := by
    change (step c (ρ k).base l0).isSome = true at he0
    unfold tLabel at hl0
    constructor <;> intro hp <;>
      (cases l0 <;> simp only [threadLabel, beq_iff_eq, Bool.false_eq_true] at hl0 <;> subst hl0 <;> simp [step, hp] at he0)
  -- it stays there as long as it takes no call_rcu-layer step
  have hstay : ∀ d, (ρ (k + d)).base.tpc t = (ρ k).base.tpc t := by
    intro d
    induction d with
    | zero => rfl
    | succ d ih =>
      cases hl : ℓ (k + d) with
      | none => rw [show k + (d + 1) = k + d + 1 by omega, E.run.idle _ hl]; exact ih
      | some bl =>
        have := bthread_frame c t (by rw [ih]; exact hmid.1) (by rw [ih]; exact hmid.2)
          (fun l e => hnt (k + d) (by omega) l (by rw [hl, e])) (E.run.move _ bl hl)
        rw [show k + (d + 1) = k + d + 1 by omega, this]; exact ih
  -- strong fairness in the barrier layer: the step taken can only be a call_rcu-layer step
  obtain ⟨j, hj, bl, hl, hb⟩ := E.threads t k (fun j hj => by
    obtain ⟨k', hk', l, h1, h2⟩ := he j (by omega)
    exact ⟨k', hk', .base l, h1, by rw [bt_base_enabled c _ t l h1]; exact h2⟩)
  by_cases hbase : ∃ l, bl = .base l
  · obtain ⟨l, rfl⟩ := hbase
    exact hnt j (by omega) l hl hb
  · have hen : (bstep c (ρ j) bl).isSome = true := by rw [E.run.move j _ hl]; rfl
    have := caller_needs_ext c (E.inv j).l.all.P t bl hb (fun l e => hbase ⟨l, e⟩) hen
    have h2 := hstay (j - k)
    rw [show k + (j - k) = j by omega] at h2
    rw [h2] at this
    exact hmid.2 this

/-- call_rcu-layer fairness of the helper threads, for the projected run: the end of a marker callback waits for
`_rcu_barrier_complete`, which finishes -/
theorem helpers_base (E : BFairEnv c ρ ℓ) (x : Nat) : WeakFair (step c) (ρb ρ) (ℓb ρ ℓ) (hOwn x) := by
  intro i he
  apply Classical.byContradiction
  intro hno
  have hnt : ∀ j, i ≤ j → ∀ l, ℓ j = some (.base l) → ¬ hOwn x l := by
    intro j hj l hl ht
    exact hno ⟨j, hj, l, took_base ρ ℓ j l hl, ht⟩
  -- from some position on the helper is not in the middle of a marker
  have hJ : ∃ J, i ≤ J ∧ ¬ MBusy (ρ J) x := by
    by_cases hb : MBusy (ρ i) x
    · obtain ⟨⟨b, h'⟩, hm⟩ := Option.isSome_iff_exists.mp hb.1
      obtain ⟨j', hj', -, hf⟩ := E.marker_eventually_fin x b h' i hm
      exact ⟨j', hj', fun h => h.2 hf⟩
    · exact ⟨i, Nat.le_refl i, hb⟩
  obtain ⟨J, hJ, hnb⟩ := hJ
  have hstay : ∀ d, ¬ MBusy (ρ (J + d)) x := by
    intro d
    induction d with
    | zero => exact hnb
    | succ d ih =>
      cases hl : ℓ (J + d) with
      | none => rw [show J + (d + 1) = J + d + 1 by omega, E.run.idle _ hl]; exact ih
      | some bl =>
        rw [show J + (d + 1) = J + d + 1 by omega]
        exact mbusy_frame c x ih (fun l e => hnt (J + d) (by omega) l (by rw [hl, e])) (E.run.move _ bl hl)
  obtain ⟨j, hj, bl, hl, hb⟩ := E.helpers x J (fun j hj => by
    obtain ⟨l, h1, h2⟩ := he j (by omega)
    have hnbj : ¬ MBusy (ρ j) x := by
      have := hstay (j - J); rwa [show J + (j - J) = j by omega] at this
    exact ⟨.base l, h1, by rw [bh_base_enabled c _ x l h1 hnbj]; exact h2⟩)
  by_cases hbase : ∃ l, bl = .base l
  · obtain ⟨l, rfl⟩ := hbase
    exact hnt j (by omega) l hl hb
  · have hm : bl ∈ markerLabels x := (markerLabels_bh x bl).mpr ⟨hb, fun l e => hbase ⟨l, e⟩⟩
    have hen : (bstep c (ρ j) bl).isSome = true := by rw [E.run.move j _ hl]; rfl
    have := hstay (j - J); rw [show J + (j - J) = j by omega] at this
    exact this (marker_enabled_busy c x bl hm hen)

/-- all callbacks terminate, markers included -/
theorem callbacks_base (E : BFairEnv c ρ ℓ) (x j : Nat) (hr : (ρ j).base.hpc x = .run) :
    ∃ j', j ≤ j' ∧ (ρ j').base.hpc x ≠ .run := by
  cases hm : (ρ j).mrun x with
  | none => exact E.user_callbacks_terminate x j hr hm
  | some p =>
    obtain ⟨b, h'⟩ := p
    obtain ⟨j1, hj1, hm1, hf1⟩ := E.marker_eventually_fin x b h' j hm
    apply Classical.byContradiction
    intro hno
    have hrun : ∀ k, j ≤ k → (ρ k).base.hpc x = .run := fun k hk =>
      Classical.byContradiction (fun h => hno ⟨k, hk, h⟩)
    have hnt : ∀ k, j1 ≤ k → ∀ l, ℓ k = some (.base l) → ¬ hOwn x l := by
      intro k hk l hl ho
      exact run_own_ends c x (hrun k (by omega)) ho (E.run.move k _ hl) (hrun (k + 1) (by omega))
    have hstay : ∀ d, (ρ (j1 + d)).mrun x = some (b, h') ∧ (ρ (j1 + d)).mpc x = .fin := by
      intro d
      induction d with
      | zero => exact ⟨hm1, hf1⟩
      | succ d ih =>
        cases hl : ℓ (j1 + d) with
        | none => rw [show j1 + (d + 1) = j1 + d + 1 by omega, E.run.idle _ hl]; exact ih
        | some bl =>
          rw [show j1 + (d + 1) = j1 + d + 1 by omega]
          exact mfin_frame c x b h' ih.1 ih.2 (fun l e => hnt (j1 + d) (by omega) l (by rw [hl, e])) (E.run.move _ bl hl)
    have hst : ∀ k, j1 ≤ k → (ρ k).mrun x = some (b, h') ∧ (ρ k).mpc x = .fin := by
      intro k hk
      have := hstay (k - j1); rwa [show j1 + (k - j1) = k by omega] at this
    obtain ⟨k, hk, bl, hl, hb⟩ := E.helpers x j1 (fun k hk => by
      have h1 := hst k hk
      refine ⟨.base (.hRunEnd x), by simp [bhLabel, hOwn, helperLabel], ?_⟩
      exact run_end_enabled c (reach_d c (E.inv k).l.all.R).1 x (hrun k (by omega))
        (E.markers_quiet x k (by rw [h1.1]; rfl)) (fun hb => hb.2 h1.2))
    by_cases hbase : ∃ l, bl = .base l
    · obtain ⟨l, rfl⟩ := hbase
      exact hnt k hk l hl hb
    · have hmk : bl ∈ markerLabels x := (markerLabels_bh x bl).mpr ⟨hb, fun l e => hbase ⟨l, e⟩⟩
      have hen : (bstep c (ρ k) bl).isSome = true := by rw [E.run.move k _ hl]; rfl
      exact (marker_enabled_busy c x bl hmk hen).2 (hst k hk).2

/-- **the set-up phase of `rcu_barrier()` terminates**: the caller initialises the completion, queues one marker per
helper of `call_rcu_data_list` and releases `call_rcu_mutex` -/
theorem setup_terminates (E : BFairEnv c ρ ℓ) (t b : Nat) :
    ∀ j, ((ρ j).bpc t).setup b → ∃ j', j ≤ j' ∧ (ρ j').bpc t = .dec b := by
  intro j hp
  exact fair_measure_leadsTo_from E.run (btLabel t) (LInv2 c) (fun s => (s.bpc t).setup b) (fun s => s.bpc t = .dec b)
    (fun s => setupRank s t) 0 (fun j _ => E.inv j) (E.threads t).weak
    (fun s bl s' I p _ st => by
      by_cases hl : btLabel t bl
      · rcases setup_own c I.l.all.P t b p hl st with h | h
        · exact Or.inr h
        · exact Or.inl h.1
      · exact Or.inl (by rw [(setup_frame c I t b p hl st).1]; exact p))
    (fun s I p _ => setup_enabled c I t b p)
    (fun s bl s' I p _ hl st => by
      rcases setup_own c I.l.all.P t b p hl st with h | h
      · exact Or.inr h
      · exact Or.inl h.2)
    (fun s bl s' I p _ hl st => Or.inl (Nat.le_of_eq (setup_frame c I t b p hl st).2))
    j (Nat.zero_le j) hp

/-- `rcu_barrier()` releases `call_rcu_mutex` -/
theorem outer_release_base (E : BFairEnv c ρ ℓ) (j u : Nat) (hm : (ρ j).base.mutex = some u)
    (he : ((ρ j).base.tpc u).extMode = true) : ∃ j', j ≤ j' ∧ (ρ j').base.mutex ≠ some u := by
  have hl := (E.inv j).l.m u hm he
  have hs : ∃ b, ((ρ j).bpc u).setup b := by
    cases hq : (ρ j).bpc u <;> simp [hq, BPc.locked] at hl
    · exact ⟨_, Or.inl rfl⟩
    · exact ⟨_, Or.inr rfl⟩
  obtain ⟨b, hs⟩ := hs
  obtain ⟨j', hj', hd⟩ := E.setup_terminates u b j hs
  refine ⟨j', hj', fun hm' => ?_⟩
  have hext : (ρ j').base.tpc u = .ext := (E.inv j').l.all.P.k_extpc u (by rw [hd]; simp) (by intro b'; rw [hd]; simp)
  have := (E.inv j').l.m u hm' (by rw [hext]; rfl)
  rw [hd] at this; exact this rfl

/-- **the projected run satisfies the provisos of the call_rcu layer** -/
theorem base_env (E : BFairEnv c ρ ℓ) : FairEnv c (ρb ρ) (ℓb ρ ℓ) where
  run := E.brun
  reach := base_reach c E.reach
  threads := E.threads_base
  helpers := E.helpers_base
  sections_end := E.sections_end
  callbacks_terminate := E.callbacks_base
  no_pause := E.no_pause
  outer_release := E.outer_release_base
  no_exit := E.no_exit
  dflt_ok := E.dflt_ok

end BFairEnv

end UrcuVerif.CallRcu
