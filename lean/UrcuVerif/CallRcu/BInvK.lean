import UrcuVerif.CallRcu.BInvP
/-!
# C04 — bookkeeping of the marker callbacks of `rcu_barrier()` and of the countdown (helper lemmas;
statements in `Props/C04.lean`)

`BInvK`: every marker `m` carries the tag `(b, h')` of its barrier and of the helper it was queued on; there is
exactly one marker per tag (`mid b h' = m`); a helper of `todo b` has no marker yet; `mdone b h'` holds only once
the marker has been invoked; `mrun x` is the tag of the marker helper `x` is executing (`cur x`);
`barrier_count` = number of helpers of `hs b` whose marker has not yet decremented it (`k_cnt`); a callback covered
by barrier `b` stays queued until it has finished (`j1`).
-/
set_option linter.unusedVariables false
set_option linter.unusedSimpArgs false
namespace UrcuVerif.CallRcu

/-- number of helpers `h ∈ l` with `f b h = false` -/
def cntU (f : Nat → Nat → Bool) (b : Nat) : List Nat → Int
  | [] => 0
  | h :: r => (if f b h then 0 else 1) + cntU f b r

theorem cntU_nonneg (f b) (l : List Nat) : 0 ≤ cntU f b l := by
  induction l with
  | nil => simp [cntU]
  | cons a r ih => simp only [cntU]; split <;> omega

theorem cntU_other (f : Nat → Nat → Bool) (b b' h : Nat) (v : Bool) (l : List Nat) (hb : b' ≠ b) :
    cntU (upd2 f b h v) b' l = cntU f b' l := by
  induction l with
  | nil => rfl
  | cons a r ih => simp only [cntU, upd2, ih]; simp [hb]

theorem cntU_notin (f : Nat → Nat → Bool) (b h : Nat) (v : Bool) (l : List Nat) (hn : h ∉ l) :
    cntU (upd2 f b h v) b l = cntU f b l := by
  induction l with
  | nil => rfl
  | cons a r ih =>
    simp only [List.mem_cons, not_or] at hn
    simp only [cntU, upd2, ih hn.2]
    have : a ≠ h := fun e => hn.1 e.symm
    simp [this]

theorem cntU_same (f : Nat → Nat → Bool) (b h : Nat) (l : List Nat) (hnd : l.Nodup) (hm : h ∈ l) (hf : f b h = false) :
    cntU (upd2 f b h true) b l = cntU f b l - 1 := by
  induction l with
  | nil => simp at hm
  | cons a r ih =>
    simp only [List.nodup_cons] at hnd
    simp only [List.mem_cons] at hm
    rcases hm with rfl | hm
    · simp only [cntU, cntU_notin f b h true r hnd.1, upd2, hf]
      simp
      omega
    · have : a ≠ h := fun e => hnd.1 (e ▸ hm)
      simp only [cntU, ih hnd.2 hm, upd2]
      simp [this]
      omega

theorem cntU_false (f : Nat → Nat → Bool) (b : Nat) (l : List Nat) (hf : ∀ h, f b h = false) :
    cntU f b l = l.length := by
  induction l with
  | nil => rfl
  | cons a r ih => simp only [cntU, hf a, ih]; simp; omega

theorem cntU_pos (f : Nat → Nat → Bool) (b h : Nat) (l : List Nat) (hm : h ∈ l) (hf : f b h = false) : 0 < cntU f b l := by
  induction l with
  | nil => simp at hm
  | cons a r ih =>
    simp only [List.mem_cons] at hm
    simp only [cntU]
    have := cntU_nonneg f b r
    rcases hm with rfl | hm
    · simp [hf]; omega
    · have := ih hm; split <;> omega

structure BInvK (c : Cfg) (s : BState) : Prop where
  k_mark : ∀ m b h', s.base.mark m = some (b, h') →
    s.inited b = true ∧ h' ∈ s.hs b ∧ s.mid b h' = m ∧ h' ∉ s.todo b ∧ s.base.reg m = true
  k_run : ∀ x b h', s.mrun x = some (b, h') →
    s.base.cur x = some (s.mid b h') ∧ s.base.mark (s.mid b h') = some (b, h') ∧ (s.mpc x = .idle ↔ s.mdone b h' = false)
  k_done : ∀ b h', s.mdone b h' = true → (s.base.loc (s.mid b h')).invoked = true ∧ s.base.mark (s.mid b h') = some (b, h')
  k_initd : ∀ b h, s.inited b = false → s.mdone b h = false
  k_todo : ∀ b, (s.todo b).Nodup ∧ ∀ h, h ∈ s.todo b → h ∈ s.hs b
  k_hs : ∀ b, (s.hs b).Nodup
  k_cnt : ∀ b, s.inited b = true → s.cnt b = cntU s.mdone b (s.hs b)
  k_enq : ∀ t b id h, s.bpc t = .loop b → s.base.tpc t = .enq id h .ext → s.base.mark id = some (b, h)
  j1 : ∀ b id, s.cov b id = true → (s.base.loc id).queued = true ∨ s.base.fin id = true

theorem binvK_init (c) : BInvK c binit := by
  constructor <;> simp [binit, init, cntU]

theorem nodup_tail'' {l : List Nat} (h : l.Nodup) : l.tail.Nodup := by cases l <;> simp_all
theorem head_notin_tail {l : List Nat} {a : Nat} (hn : l.Nodup) (h : l.head? = some a) : a ∉ l.tail := by
  cases l <;> simp_all
theorem mem_of_head?' {l : List Nat} {a : Nat} (h : l.head? = some a) : a ∈ l := by cases l <;> simp_all
theorem mem_of_tail' {l : List Nat} {a : Nat} (h : a ∈ l.tail) : a ∈ l := List.mem_of_mem_tail h

set_option hygiene false in
macro "bk_post" : tactic => `(tactic| (
  all_goals (constructor <;> first | assumption | (simp only [upd, upd2, lockS, unlockS, newHelper, relocate, nestOn, csOn, nestOff, cont_extMode] at * <;> grind [upd, upd2, TOk, TPc.extMode, K.isExt, cont_extMode, cont_ne_enq, BPc.bar, BPc.locked, BPc.past, LocOk, Loc.queued, Loc.invoked, → locked_bar, → past_bar, nodup_tail'', head_notin_tail, → mem_of_head?', → mem_of_tail', cntU_other, cntU_same, cntU_false, cntU_notin, → mem_of_head?]))))

set_option hygiene false in
macro "bk_pre" : tactic => `(tactic| (
  have a3 := hA.c_loc
  have a4 := hA.loc_ok
  have a2 := hA.b_loc
  have a5 := hA.tpc_ok
  have d8 := hD.list_nd
  have g1 := hH.bar_ok
  have g2 := hH.mpc_run
  have p2 := hP.k_early
  have p3 := hP.k_past
  have p4 := hP.k_ext
  have p5 := hP.k_extpc
  have p6 := hP.k_fresh
  have p7 := hP.k_todo0
  have p8 := hP.k_init_todo
  clear hA hD hH hP
  obtain ⟨h1, h2, h3, h4, h5, h6, h7, h8, h9⟩ := h))

set_option hygiene false in
macro "bk_base" : tactic => `(tactic| (
  bk_pre
  simp only [bstep, Label.isHook, Bool.false_eq_true, ↓reduceIte] at st
  (repeat' split at st)
  all_goals (first | (simp at st; done) | skip)
  all_goals (simp only [Option.some.injEq] at st; subst st)
  all_goals (rename_i hb; simp only [step] at hb; (repeat' split at hb))
  all_goals (first | (simp at hb; done) | skip)
  all_goals (simp only [Option.some.injEq] at hb; subst hb)
  bk_post))

set_option hygiene false in
macro "bk_own" : tactic => `(tactic| (
  bk_pre
  simp only [bstep, step] at st
  (repeat' split at st)
  all_goals (first | (simp at st; done) | skip)
  all_goals (simp only [Option.some.injEq] at st; subst st)
  all_goals (try (rename_i hb; (repeat' split at hb); all_goals (first | (simp at hb; done) | skip); all_goals (simp only [Option.some.injEq] at hb; subst hb)))
  all_goals (try (rename_i hb _; (repeat' split at hb); all_goals (first | (simp at hb; done) | skip); all_goals (simp only [Option.some.injEq] at hb; subst hb)))
  bk_post))

theorem binvk_base_rlock (c : Cfg) {s s' : BState} (hA : InvA c s.base) (hD : InvD c s.base) (hH : BInvH c s) (hP : BInvP c s) (h : BInvK c s) (t : _)
    (st : bstep c s (.base (.rlock t)) = some s') : BInvK c s' := by
  bk_base

theorem binvk_base_runlock (c : Cfg) {s s' : BState} (hA : InvA c s.base) (hD : InvD c s.base) (hH : BInvH c s) (hP : BInvP c s) (h : BInvK c s) (t : _)
    (st : bstep c s (.base (.runlock t)) = some s') : BInvK c s' := by
  bk_base

theorem binvk_base_syncStart (c : Cfg) {s s' : BState} (hA : InvA c s.base) (hD : InvD c s.base) (hH : BInvH c s) (hP : BInvP c s) (h : BInvK c s) (t : _)
    (st : bstep c s (.base (.syncStart t)) = some s') : BInvK c s' := by
  bk_base

theorem binvk_base_syncEnd (c : Cfg) {s s' : BState} (hA : InvA c s.base) (hD : InvD c s.base) (hH : BInvH c s) (hP : BInvP c s) (h : BInvK c s) (t : _)
    (st : bstep c s (.base (.syncEnd t)) = some s') : BInvK c s' := by
  bk_base

theorem binvk_base_crCall (c : Cfg) {s s' : BState} (hA : InvA c s.base) (hD : InvD c s.base) (hH : BInvH c s) (hP : BInvP c s) (h : BInvK c s) (t id : _)
    (st : bstep c s (.base (.crCall t id)) = some s') : BInvK c s' := by
  bk_base

theorem binvk_base_crSelThr (c : Cfg) {s s' : BState} (hA : InvA c s.base) (hD : InvD c s.base) (hH : BInvH c s) (hP : BInvP c s) (h : BInvK c s) (t : _)
    (st : bstep c s (.base (.crSelThr t)) = some s') : BInvK c s' := by
  bk_base

theorem binvk_base_crSelCpu (c : Cfg) {s s' : BState} (hA : InvA c s.base) (hD : InvD c s.base) (hH : BInvH c s) (hP : BInvP c s) (h : BInvK c s) (t cpu : _)
    (st : bstep c s (.base (.crSelCpu t cpu)) = some s') : BInvK c s' := by
  bk_base

theorem binvk_base_crSelNoCpu (c : Cfg) {s s' : BState} (hA : InvA c s.base) (hD : InvD c s.base) (hH : BInvH c s) (hP : BInvP c s) (h : BInvK c s) (t cpu : _)
    (st : bstep c s (.base (.crSelNoCpu t cpu)) = some s') : BInvK c s' := by
  bk_base

theorem binvk_base_gdCall (c : Cfg) {s s' : BState} (hA : InvA c s.base) (hD : InvD c s.base) (hH : BInvH c s) (hP : BInvP c s) (h : BInvK c s) (t : _)
    (st : bstep c s (.base (.gdCall t)) = some s') : BInvK c s' := by
  bk_base

theorem binvk_base_gdLd (c : Cfg) {s s' : BState} (hA : InvA c s.base) (hD : InvD c s.base) (hH : BInvH c s) (hP : BInvP c s) (h : BInvK c s) (t : _)
    (st : bstep c s (.base (.gdLd t)) = some s') : BInvK c s' := by
  bk_base

theorem binvk_base_gdLock (c : Cfg) {s s' : BState} (hA : InvA c s.base) (hD : InvD c s.base) (hH : BInvH c s) (hP : BInvP c s) (h : BInvK c s) (t : _)
    (st : bstep c s (.base (.gdLock t)) = some s') : BInvK c s' := by
  bk_base

theorem binvk_base_gdCreate (c : Cfg) {s s' : BState} (hA : InvA c s.base) (hD : InvD c s.base) (hH : BInvH c s) (hP : BInvP c s) (h : BInvK c s) (t : _)
    (st : bstep c s (.base (.gdCreate t)) = some s') : BInvK c s' := by
  bk_base

theorem binvk_base_gdUnlock (c : Cfg) {s s' : BState} (hA : InvA c s.base) (hD : InvD c s.base) (hH : BInvH c s) (hP : BInvP c s) (h : BInvK c s) (t : _)
    (st : bstep c s (.base (.gdUnlock t)) = some s') : BInvK c s' := by
  bk_base

theorem binvk_base_enq (c : Cfg) {s s' : BState} (hA : InvA c s.base) (hD : InvD c s.base) (hH : BInvH c s) (hP : BInvP c s) (h : BInvK c s) (t : _)
    (st : bstep c s (.base (.enq t)) = some s') : BInvK c s' := by
  bk_base

theorem binvk_base_inc (c : Cfg) {s s' : BState} (hA : InvA c s.base) (hD : InvD c s.base) (hH : BInvH c s) (hP : BInvP c s) (h : BInvK c s) (t : _)
    (st : bstep c s (.base (.inc t)) = some s') : BInvK c s' := by
  bk_base

theorem binvk_base_ldFlags (c : Cfg) {s s' : BState} (hA : InvA c s.base) (hD : InvD c s.base) (hH : BInvH c s) (hP : BInvP c s) (h : BInvK c s) (t : _)
    (st : bstep c s (.base (.ldFlags t)) = some s') : BInvK c s' := by
  bk_base

theorem binvk_base_ldFutex (c : Cfg) {s s' : BState} (hA : InvA c s.base) (hD : InvD c s.base) (hH : BInvH c s) (hP : BInvP c s) (h : BInvK c s) (t : _)
    (st : bstep c s (.base (.ldFutex t)) = some s') : BInvK c s' := by
  bk_base

theorem binvk_base_stFutex (c : Cfg) {s s' : BState} (hA : InvA c s.base) (hD : InvD c s.base) (hH : BInvH c s) (hP : BInvP c s) (h : BInvK c s) (t : _)
    (st : bstep c s (.base (.stFutex t)) = some s') : BInvK c s' := by
  bk_base

theorem binvk_base_wake (c : Cfg) {s s' : BState} (hA : InvA c s.base) (hD : InvD c s.base) (hH : BInvH c s) (hP : BInvP c s) (h : BInvK c s) (t : _)
    (st : bstep c s (.base (.wake t)) = some s') : BInvK c s' := by
  bk_base

theorem binvk_base_crRet (c : Cfg) {s s' : BState} (hA : InvA c s.base) (hD : InvD c s.base) (hH : BInvH c s) (hP : BInvP c s) (h : BInvK c s) (t : _)
    (st : bstep c s (.base (.crRet t)) = some s') : BInvK c s' := by
  bk_base

theorem binvk_base_opCall (c : Cfg) {s s' : BState} (hA : InvA c s.base) (hD : InvD c s.base) (hH : BInvH c s) (hP : BInvP c s) (h : BInvK c s) (t op : _)
    (st : bstep c s (.base (.opCall t op)) = some s') : BInvK c s' := by
  bk_base

theorem binvk_base_opLock (c : Cfg) {s s' : BState} (hA : InvA c s.base) (hD : InvD c s.base) (hH : BInvH c s) (hP : BInvP c s) (h : BInvK c s) (t : _)
    (st : bstep c s (.base (.opLock t)) = some s') : BInvK c s' := by
  bk_base

theorem binvk_base_opDo (c : Cfg) {s s' : BState} (hA : InvA c s.base) (hD : InvD c s.base) (hH : BInvH c s) (hP : BInvP c s) (h : BInvK c s) (t : _)
    (st : bstep c s (.base (.opDo t)) = some s') : BInvK c s' := by
  bk_base

theorem binvk_base_opUnlock (c : Cfg) {s s' : BState} (hA : InvA c s.base) (hD : InvD c s.base) (hH : BInvH c s) (hP : BInvP c s) (h : BInvK c s) (t : _)
    (st : bstep c s (.base (.opUnlock t)) = some s') : BInvK c s' := by
  bk_base

theorem binvk_base_setThr (c : Cfg) {s s' : BState} (hA : InvA c s.base) (hD : InvD c s.base) (hH : BInvH c s) (hP : BInvP c s) (h : BInvK c s) (t ho : _)
    (st : bstep c s (.base (.setThr t ho)) = some s') : BInvK c s' := by
  bk_base

theorem binvk_base_fCall (c : Cfg) {s s' : BState} (hA : InvA c s.base) (hD : InvD c s.base) (hH : BInvH c s) (hP : BInvP c s) (h : BInvK c s) (t h0 : _)
    (st : bstep c s (.base (.fCall t h0)) = some s') : BInvK c s' := by
  bk_base

theorem binvk_base_fLdFlags (c : Cfg) {s s' : BState} (hA : InvA c s.base) (hD : InvD c s.base) (hH : BInvH c s) (hP : BInvP c s) (h : BInvK c s) (t : _)
    (st : bstep c s (.base (.fLdFlags t)) = some s') : BInvK c s' := by
  bk_base

theorem binvk_base_fOrStop (c : Cfg) {s s' : BState} (hA : InvA c s.base) (hD : InvD c s.base) (hH : BInvH c s) (hP : BInvP c s) (h : BInvK c s) (t : _)
    (st : bstep c s (.base (.fOrStop t)) = some s') : BInvK c s' := by
  bk_base

theorem binvk_base_fSeeStopped (c : Cfg) {s s' : BState} (hA : InvA c s.base) (hD : InvD c s.base) (hH : BInvH c s) (hP : BInvP c s) (h : BInvK c s) (t : _)
    (st : bstep c s (.base (.fSeeStopped t)) = some s') : BInvK c s' := by
  bk_base

theorem binvk_base_fLock (c : Cfg) {s s' : BState} (hA : InvA c s.base) (hD : InvD c s.base) (hH : BInvH c s) (hP : BInvP c s) (h : BInvK c s) (t : _)
    (st : bstep c s (.base (.fLock t)) = some s') : BInvK c s' := by
  bk_base

theorem binvk_base_fChk (c : Cfg) {s s' : BState} (hA : InvA c s.base) (hD : InvD c s.base) (hH : BInvH c s) (hP : BInvP c s) (h : BInvK c s) (t : _)
    (st : bstep c s (.base (.fChk t)) = some s') : BInvK c s' := by
  bk_base

theorem binvk_base_fUnlock1 (c : Cfg) {s s' : BState} (hA : InvA c s.base) (hD : InvD c s.base) (hH : BInvH c s) (hP : BInvP c s) (h : BInvK c s) (t : _)
    (st : bstep c s (.base (.fUnlock1 t)) = some s') : BInvK c s' := by
  bk_base

theorem binvk_base_fLock2 (c : Cfg) {s s' : BState} (hA : InvA c s.base) (hD : InvD c s.base) (hH : BInvH c s) (hP : BInvP c s) (h : BInvK c s) (t : _)
    (st : bstep c s (.base (.fLock2 t)) = some s') : BInvK c s' := by
  bk_base

theorem binvk_base_fSplice (c : Cfg) {s s' : BState} (hA : InvA c s.base) (hD : InvD c s.base) (hH : BInvH c s) (hP : BInvP c s) (h : BInvK c s) (t : _)
    (st : bstep c s (.base (.fSplice t)) = some s') : BInvK c s' := by
  bk_base

theorem binvk_base_fAddQ (c : Cfg) {s s' : BState} (hA : InvA c s.base) (hD : InvD c s.base) (hH : BInvH c s) (hP : BInvP c s) (h : BInvK c s) (t : _)
    (st : bstep c s (.base (.fAddQ t)) = some s') : BInvK c s' := by
  bk_base

theorem binvk_base_fDel (c : Cfg) {s s' : BState} (hA : InvA c s.base) (hD : InvD c s.base) (hH : BInvH c s) (hP : BInvP c s) (h : BInvK c s) (t : _)
    (st : bstep c s (.base (.fDel t)) = some s') : BInvK c s' := by
  bk_base

theorem binvk_base_fJoin (c : Cfg) {s s' : BState} (hA : InvA c s.base) (hD : InvD c s.base) (hH : BInvH c s) (hP : BInvP c s) (h : BInvK c s) (t : _)
    (st : bstep c s (.base (.fJoin t)) = some s') : BInvK c s' := by
  bk_base

theorem binvk_base_fFree (c : Cfg) {s s' : BState} (hA : InvA c s.base) (hD : InvD c s.base) (hH : BInvH c s) (hP : BInvP c s) (h : BInvK c s) (t : _)
    (st : bstep c s (.base (.fFree t)) = some s') : BInvK c s' := by
  bk_base

theorem binvk_base_hStart (c : Cfg) {s s' : BState} (hA : InvA c s.base) (hD : InvD c s.base) (hH : BInvH c s) (hP : BInvP c s) (h : BInvK c s) (x : _)
    (st : bstep c s (.base (.hStart x)) = some s') : BInvK c s' := by
  bk_base

theorem binvk_base_hDec0 (c : Cfg) {s s' : BState} (hA : InvA c s.base) (hD : InvD c s.base) (hH : BInvH c s) (hP : BInvP c s) (h : BInvK c s) (x : _)
    (st : bstep c s (.base (.hDec0 x)) = some s') : BInvK c s' := by
  bk_base

theorem binvk_base_hTop (c : Cfg) {s s' : BState} (hA : InvA c s.base) (hD : InvD c s.base) (hH : BInvH c s) (hP : BInvP c s) (h : BInvK c s) (x : _)
    (st : bstep c s (.base (.hTop x)) = some s') : BInvK c s' := by
  bk_base

theorem binvk_base_hPause (c : Cfg) {s s' : BState} (hA : InvA c s.base) (hD : InvD c s.base) (hH : BInvH c s) (hP : BInvP c s) (h : BInvK c s) (x : _)
    (st : bstep c s (.base (.hPause x)) = some s') : BInvK c s' := by
  bk_base

theorem binvk_base_hUnpause (c : Cfg) {s s' : BState} (hA : InvA c s.base) (hD : InvD c s.base) (hH : BInvH c s) (hP : BInvP c s) (h : BInvK c s) (x : _)
    (st : bstep c s (.base (.hUnpause x)) = some s') : BInvK c s' := by
  bk_base

theorem binvk_base_hSplice (c : Cfg) {s s' : BState} (hA : InvA c s.base) (hD : InvD c s.base) (hH : BInvH c s) (hP : BInvP c s) (h : BInvK c s) (x : _)
    (st : bstep c s (.base (.hSplice x)) = some s') : BInvK c s' := by
  bk_base

theorem binvk_base_hGpEnd (c : Cfg) {s s' : BState} (hA : InvA c s.base) (hD : InvD c s.base) (hH : BInvH c s) (hP : BInvP c s) (h : BInvK c s) (x : _)
    (st : bstep c s (.base (.hGpEnd x)) = some s') : BInvK c s' := by
  bk_base

theorem binvk_base_hRunBegin (c : Cfg) {s s' : BState} (hA : InvA c s.base) (hD : InvD c s.base) (hH : BInvH c s) (hP : BInvP c s) (h : BInvK c s) (x cb : _)
    (st : bstep c s (.base (.hRunBegin x cb)) = some s') : BInvK c s' := by
  bk_base

theorem binvk_base_hRunEnd (c : Cfg) {s s' : BState} (hA : InvA c s.base) (hD : InvD c s.base) (hH : BInvH c s) (hP : BInvP c s) (h : BInvK c s) (x : _)
    (st : bstep c s (.base (.hRunEnd x)) = some s') : BInvK c s' := by
  bk_base

theorem binvk_base_hInvDone (c : Cfg) {s s' : BState} (hA : InvA c s.base) (hD : InvD c s.base) (hH : BInvH c s) (hP : BInvP c s) (h : BInvK c s) (x : _)
    (st : bstep c s (.base (.hInvDone x)) = some s') : BInvK c s' := by
  bk_base

theorem binvk_base_hSub (c : Cfg) {s s' : BState} (hA : InvA c s.base) (hD : InvD c s.base) (hH : BInvH c s) (hP : BInvP c s) (h : BInvK c s) (x : _)
    (st : bstep c s (.base (.hSub x)) = some s') : BInvK c s' := by
  bk_base

theorem binvk_base_hStopChk (c : Cfg) {s s' : BState} (hA : InvA c s.base) (hD : InvD c s.base) (hH : BInvH c s) (hP : BInvP c s) (h : BInvK c s) (x : _)
    (st : bstep c s (.base (.hStopChk x)) = some s') : BInvK c s' := by
  bk_base

theorem binvk_base_hEmptyChk (c : Cfg) {s s' : BState} (hA : InvA c s.base) (hD : InvD c s.base) (hH : BInvH c s) (hP : BInvP c s) (h : BInvK c s) (x : _)
    (st : bstep c s (.base (.hEmptyChk x)) = some s') : BInvK c s' := by
  bk_base

theorem binvk_base_hWaitLd (c : Cfg) {s s' : BState} (hA : InvA c s.base) (hD : InvD c s.base) (hH : BInvH c s) (hP : BInvP c s) (h : BInvK c s) (x : _)
    (st : bstep c s (.base (.hWaitLd x)) = some s') : BInvK c s' := by
  bk_base

theorem binvk_base_hWaitFx (c : Cfg) {s s' : BState} (hA : InvA c s.base) (hD : InvD c s.base) (hH : BInvH c s) (hP : BInvP c s) (h : BInvK c s) (x o : _)
    (st : bstep c s (.base (.hWaitFx x o)) = some s') : BInvK c s' := by
  bk_base

theorem binvk_base_hSpurious (c : Cfg) {s s' : BState} (hA : InvA c s.base) (hD : InvD c s.base) (hH : BInvH c s) (hP : BInvP c s) (h : BInvK c s) (x : _)
    (st : bstep c s (.base (.hSpurious x)) = some s') : BInvK c s' := by
  bk_base

theorem binvk_base_hPollW (c : Cfg) {s s' : BState} (hA : InvA c s.base) (hD : InvD c s.base) (hH : BInvH c s) (hP : BInvP c s) (h : BInvK c s) (x : _)
    (st : bstep c s (.base (.hPollW x)) = some s') : BInvK c s' := by
  bk_base

theorem binvk_base_hDec (c : Cfg) {s s' : BState} (hA : InvA c s.base) (hD : InvD c s.base) (hH : BInvH c s) (hP : BInvP c s) (h : BInvK c s) (x : _)
    (st : bstep c s (.base (.hDec x)) = some s') : BInvK c s' := by
  bk_base

theorem binvk_base_hPollN (c : Cfg) {s s' : BState} (hA : InvA c s.base) (hD : InvD c s.base) (hH : BInvH c s) (hP : BInvP c s) (h : BInvK c s) (x : _)
    (st : bstep c s (.base (.hPollN x)) = some s') : BInvK c s' := by
  bk_base

theorem binvk_base_hExitSt (c : Cfg) {s s' : BState} (hA : InvA c s.base) (hD : InvD c s.base) (hH : BInvH c s) (hP : BInvP c s) (h : BInvK c s) (x : _)
    (st : bstep c s (.base (.hExitSt x)) = some s') : BInvK c s' := by
  bk_base

theorem binvk_base_hExitOr (c : Cfg) {s s' : BState} (hA : InvA c s.base) (hD : InvD c s.base) (hH : BInvH c s) (hP : BInvP c s) (h : BInvK c s) (x : _)
    (st : bstep c s (.base (.hExitOr x)) = some s') : BInvK c s' := by
  bk_base

theorem binvk_bRefused (c : Cfg) {s s' : BState} (hA : InvA c s.base) (hD : InvD c s.base) (hH : BInvH c s) (hP : BInvP c s) (h : BInvK c s) (t : _)
    (st : bstep c s (.bRefused t) = some s') : BInvK c s' := by
  bk_own

theorem binvk_bCall (c : Cfg) {s s' : BState} (hA : InvA c s.base) (hD : InvD c s.base) (hH : BInvH c s) (hP : BInvP c s) (h : BInvK c s) (t : _)
    (st : bstep c s (.bCall t) = some s') : BInvK c s' := by
  bk_own

theorem binvk_bLock (c : Cfg) {s s' : BState} (hA : InvA c s.base) (hD : InvD c s.base) (hH : BInvH c s) (hP : BInvP c s) (h : BInvK c s) (t : _)
    (st : bstep c s (.bLock t) = some s') : BInvK c s' := by
  bk_own

theorem binvk_bInit (c : Cfg) {s s' : BState} (hA : InvA c s.base) (hD : InvD c s.base) (hH : BInvH c s) (hP : BInvP c s) (h : BInvK c s) (t : _)
    (st : bstep c s (.bInit t) = some s') : BInvK c s' := by
  bk_own

theorem binvk_bEnq (c : Cfg) {s s' : BState} (hA : InvA c s.base) (hD : InvD c s.base) (hH : BInvH c s) (hP : BInvP c s) (h : BInvK c s) (t id h0 : _)
    (st : bstep c s (.bEnq t id h0) = some s') : BInvK c s' := by
  bk_pre
  simp only [bstep, step] at st
  (repeat' split at st)
  all_goals (first | (simp at st; done) | skip)
  all_goals (simp only [Option.some.injEq] at st; subst st)
  all_goals (try (rename_i hb; (repeat' split at hb); all_goals (first | (simp at hb; done) | skip); all_goals (simp only [Option.some.injEq] at hb; subst hb)))
  rename_i b _ hhd _ hg
  constructor
  case k_mark =>
    simp only [upd] at *
    intro m b1 h' hm
    have hnd := (h5 b).1
    have hsub := (h5 b).2
    have hin := p3 t b (by rw [‹s.bpc t = BPc.loop b›]; rfl)
    by_cases hmid : m = id
    · subst hmid
      simp only [↓reduceIte, Option.some.injEq, Prod.mk.injEq] at hm
      obtain ⟨rfl, rfl⟩ := hm
      exact ⟨hin, hsub _ (mem_of_head?' hhd), by simp, by simpa using head_notin_tail hnd hhd, by simp⟩
    · simp only [hmid, ↓reduceIte] at hm
      obtain ⟨k1, k2, k3, k4, k5⟩ := h1 m b1 h' hm
      refine ⟨k1, k2, ?_, ?_, by simp [hmid, k5]⟩
      · by_cases hbh : b1 = b ∧ h' = h0
        · obtain ⟨rfl, rfl⟩ := hbh
          exact absurd (mem_of_head?' hhd) k4
        · simp [hbh, k3]
      · by_cases hb1 : b1 = b
        · subst hb1; simp only [↓reduceIte]; intro hx; exact k4 (mem_of_tail' hx)
        · simp [hb1, k4]
  all_goals (first | assumption | (simp only [upd, upd2, lockS, unlockS, newHelper, relocate, nestOn, csOn, nestOff, cont_extMode] at * <;> grind [upd, upd2, TOk, TPc.extMode, K.isExt, cont_extMode, cont_ne_enq, BPc.bar, BPc.locked, BPc.past, LocOk, Loc.queued, Loc.invoked, → locked_bar, → past_bar, nodup_tail'', head_notin_tail, → mem_of_head?', → mem_of_tail', cntU_other, cntU_same, cntU_false, cntU_notin, → mem_of_head?]))

theorem binvk_bUnlock (c : Cfg) {s s' : BState} (hA : InvA c s.base) (hD : InvD c s.base) (hH : BInvH c s) (hP : BInvP c s) (h : BInvK c s) (t : _)
    (st : bstep c s (.bUnlock t) = some s') : BInvK c s' := by
  bk_own

theorem binvk_bDec (c : Cfg) {s s' : BState} (hA : InvA c s.base) (hD : InvD c s.base) (hH : BInvH c s) (hP : BInvP c s) (h : BInvK c s) (t : _)
    (st : bstep c s (.bDec t) = some s') : BInvK c s' := by
  bk_own

theorem binvk_bLdCnt (c : Cfg) {s s' : BState} (hA : InvA c s.base) (hD : InvD c s.base) (hH : BInvH c s) (hP : BInvP c s) (h : BInvK c s) (t : _)
    (st : bstep c s (.bLdCnt t) = some s') : BInvK c s' := by
  bk_own

theorem binvk_bWaitLd (c : Cfg) {s s' : BState} (hA : InvA c s.base) (hD : InvD c s.base) (hH : BInvH c s) (hP : BInvP c s) (h : BInvK c s) (t : _)
    (st : bstep c s (.bWaitLd t) = some s') : BInvK c s' := by
  bk_own

theorem binvk_bWaitFx (c : Cfg) {s s' : BState} (hA : InvA c s.base) (hD : InvD c s.base) (hH : BInvH c s) (hP : BInvP c s) (h : BInvK c s) (t o : _)
    (st : bstep c s (.bWaitFx t o) = some s') : BInvK c s' := by
  bk_own

theorem binvk_bSpurious (c : Cfg) {s s' : BState} (hA : InvA c s.base) (hD : InvD c s.base) (hH : BInvH c s) (hP : BInvP c s) (h : BInvK c s) (t : _)
    (st : bstep c s (.bSpurious t) = some s') : BInvK c s' := by
  bk_own

theorem binvk_bPut (c : Cfg) {s s' : BState} (hA : InvA c s.base) (hD : InvD c s.base) (hH : BInvH c s) (hP : BInvP c s) (h : BInvK c s) (t : _)
    (st : bstep c s (.bPut t) = some s') : BInvK c s' := by
  bk_own

theorem binvk_mSub (c : Cfg) {s s' : BState} (hA : InvA c s.base) (hD : InvD c s.base) (hH : BInvH c s) (hP : BInvP c s) (h : BInvK c s) (x : _)
    (st : bstep c s (.mSub x) = some s') : BInvK c s' := by
  bk_own

theorem binvk_mLdFut (c : Cfg) {s s' : BState} (hA : InvA c s.base) (hD : InvD c s.base) (hH : BInvH c s) (hP : BInvP c s) (h : BInvK c s) (x : _)
    (st : bstep c s (.mLdFut x) = some s') : BInvK c s' := by
  bk_own

theorem binvk_mStFut (c : Cfg) {s s' : BState} (hA : InvA c s.base) (hD : InvD c s.base) (hH : BInvH c s) (hP : BInvP c s) (h : BInvK c s) (x : _)
    (st : bstep c s (.mStFut x) = some s') : BInvK c s' := by
  bk_own

theorem binvk_mWake (c : Cfg) {s s' : BState} (hA : InvA c s.base) (hD : InvD c s.base) (hH : BInvH c s) (hP : BInvP c s) (h : BInvK c s) (x : _)
    (st : bstep c s (.mWake x) = some s') : BInvK c s' := by
  bk_own

theorem binvk_mPut (c : Cfg) {s s' : BState} (hA : InvA c s.base) (hD : InvD c s.base) (hH : BInvH c s) (hP : BInvP c s) (h : BInvK c s) (x : _)
    (st : bstep c s (.mPut x) = some s') : BInvK c s' := by
  bk_own

theorem binvk_step (c : Cfg) {s s' : BState} {l : BLabel} (hA : InvA c s.base) (hD : InvD c s.base) (hH : BInvH c s) (hP : BInvP c s) (h : BInvK c s)
    (st : bstep c s l = some s') : BInvK c s' := by
  cases l with
  | base l =>
    cases l with
    | rlock t => exact binvk_base_rlock c hA hD hH hP h t st
    | runlock t => exact binvk_base_runlock c hA hD hH hP h t st
    | syncStart t => exact binvk_base_syncStart c hA hD hH hP h t st
    | syncEnd t => exact binvk_base_syncEnd c hA hD hH hP h t st
    | crCall t id => exact binvk_base_crCall c hA hD hH hP h t id st
    | crSelThr t => exact binvk_base_crSelThr c hA hD hH hP h t st
    | crSelCpu t cpu => exact binvk_base_crSelCpu c hA hD hH hP h t cpu st
    | crSelNoCpu t cpu => exact binvk_base_crSelNoCpu c hA hD hH hP h t cpu st
    | gdCall t => exact binvk_base_gdCall c hA hD hH hP h t st
    | gdLd t => exact binvk_base_gdLd c hA hD hH hP h t st
    | gdLock t => exact binvk_base_gdLock c hA hD hH hP h t st
    | gdCreate t => exact binvk_base_gdCreate c hA hD hH hP h t st
    | gdUnlock t => exact binvk_base_gdUnlock c hA hD hH hP h t st
    | enq t => exact binvk_base_enq c hA hD hH hP h t st
    | inc t => exact binvk_base_inc c hA hD hH hP h t st
    | ldFlags t => exact binvk_base_ldFlags c hA hD hH hP h t st
    | ldFutex t => exact binvk_base_ldFutex c hA hD hH hP h t st
    | stFutex t => exact binvk_base_stFutex c hA hD hH hP h t st
    | wake t => exact binvk_base_wake c hA hD hH hP h t st
    | crRet t => exact binvk_base_crRet c hA hD hH hP h t st
    | opCall t op => exact binvk_base_opCall c hA hD hH hP h t op st
    | opLock t => exact binvk_base_opLock c hA hD hH hP h t st
    | opDo t => exact binvk_base_opDo c hA hD hH hP h t st
    | opUnlock t => exact binvk_base_opUnlock c hA hD hH hP h t st
    | setThr t ho => exact binvk_base_setThr c hA hD hH hP h t ho st
    | fCall t h0 => exact binvk_base_fCall c hA hD hH hP h t h0 st
    | fLdFlags t => exact binvk_base_fLdFlags c hA hD hH hP h t st
    | fOrStop t => exact binvk_base_fOrStop c hA hD hH hP h t st
    | fSeeStopped t => exact binvk_base_fSeeStopped c hA hD hH hP h t st
    | fLock t => exact binvk_base_fLock c hA hD hH hP h t st
    | fChk t => exact binvk_base_fChk c hA hD hH hP h t st
    | fUnlock1 t => exact binvk_base_fUnlock1 c hA hD hH hP h t st
    | fLock2 t => exact binvk_base_fLock2 c hA hD hH hP h t st
    | fSplice t => exact binvk_base_fSplice c hA hD hH hP h t st
    | fAddQ t => exact binvk_base_fAddQ c hA hD hH hP h t st
    | fDel t => exact binvk_base_fDel c hA hD hH hP h t st
    | fJoin t => exact binvk_base_fJoin c hA hD hH hP h t st
    | fFree t => exact binvk_base_fFree c hA hD hH hP h t st
    | hStart x => exact binvk_base_hStart c hA hD hH hP h x st
    | hDec0 x => exact binvk_base_hDec0 c hA hD hH hP h x st
    | hTop x => exact binvk_base_hTop c hA hD hH hP h x st
    | hPause x => exact binvk_base_hPause c hA hD hH hP h x st
    | hUnpause x => exact binvk_base_hUnpause c hA hD hH hP h x st
    | hSplice x => exact binvk_base_hSplice c hA hD hH hP h x st
    | hGpEnd x => exact binvk_base_hGpEnd c hA hD hH hP h x st
    | hRunBegin x cb => exact binvk_base_hRunBegin c hA hD hH hP h x cb st
    | hRunEnd x => exact binvk_base_hRunEnd c hA hD hH hP h x st
    | hInvDone x => exact binvk_base_hInvDone c hA hD hH hP h x st
    | hSub x => exact binvk_base_hSub c hA hD hH hP h x st
    | hStopChk x => exact binvk_base_hStopChk c hA hD hH hP h x st
    | hEmptyChk x => exact binvk_base_hEmptyChk c hA hD hH hP h x st
    | hWaitLd x => exact binvk_base_hWaitLd c hA hD hH hP h x st
    | hWaitFx x o => exact binvk_base_hWaitFx c hA hD hH hP h x o st
    | hSpurious x => exact binvk_base_hSpurious c hA hD hH hP h x st
    | hPollW x => exact binvk_base_hPollW c hA hD hH hP h x st
    | hDec x => exact binvk_base_hDec c hA hD hH hP h x st
    | hPollN x => exact binvk_base_hPollN c hA hD hH hP h x st
    | hExitSt x => exact binvk_base_hExitSt c hA hD hH hP h x st
    | hExitOr x => exact binvk_base_hExitOr c hA hD hH hP h x st
    | extBegin t => simp [bstep, Label.isHook] at st
    | extEnd t => simp [bstep, Label.isHook] at st
    | extLock t => simp [bstep, Label.isHook] at st
    | extUnlock t => simp [bstep, Label.isHook] at st
    | extCall t id b h0 => simp [bstep, Label.isHook] at st
    | envPause x v => simp [bstep, Label.isHook] at st
  | bRefused t => exact binvk_bRefused c hA hD hH hP h t st
  | bCall t => exact binvk_bCall c hA hD hH hP h t st
  | bLock t => exact binvk_bLock c hA hD hH hP h t st
  | bInit t => exact binvk_bInit c hA hD hH hP h t st
  | bEnq t id h0 => exact binvk_bEnq c hA hD hH hP h t id h0 st
  | bUnlock t => exact binvk_bUnlock c hA hD hH hP h t st
  | bDec t => exact binvk_bDec c hA hD hH hP h t st
  | bLdCnt t => exact binvk_bLdCnt c hA hD hH hP h t st
  | bWaitLd t => exact binvk_bWaitLd c hA hD hH hP h t st
  | bWaitFx t o => exact binvk_bWaitFx c hA hD hH hP h t o st
  | bSpurious t => exact binvk_bSpurious c hA hD hH hP h t st
  | bPut t => exact binvk_bPut c hA hD hH hP h t st
  | mSub x => exact binvk_mSub c hA hD hH hP h x st
  | mLdFut x => exact binvk_mLdFut c hA hD hH hP h x st
  | mStFut x => exact binvk_mStFut c hA hD hH hP h x st
  | mWake x => exact binvk_mWake c hA hD hH hP h x st
  | mPut x => exact binvk_mPut c hA hD hH hP h x st

end UrcuVerif.CallRcu
