import UrcuVerif.CallRcu.LiveHelper
/-! Step-level lemmas for the way of a helper back to its splice point (`Props/LiveC03.lean`). -/
set_option linter.unusedSimpArgs false
set_option linter.unusedVariables false
namespace UrcuVerif.CallRcu
open UrcuVerif UrcuVerif.Fair

/-- program points from which the helper's own steps lead straight to the splice (given work, no STOP, no PAUSE) -/
def HPc.lin : HPc → Bool
  | .start => true | .dec0 => true | .top => true | .pausing => true | .paused => true | .splice => true
  | .sub => true | .stopchk => true | .emptychk => true | .pollN => true | .pollW => true | .dec => true
  | .none => false | .gp => false | .inv => false | .run => false | .waitLd => false | .waitFx => false | .asleep => false
  | .exitSt => false | .exitOr => false | .dead => false

def linRank : HPc → Nat
  | .start => 12 | .dec0 => 11 | .sub => 10 | .stopchk => 9 | .emptychk => 8 | .pollW => 8 | .pollN => 7 | .dec => 7
  | .top => 6 | .pausing => 5 | .paused => 4 | .splice => 1
  | .none => 0 | .gp => 0 | .inv => 0 | .run => 0 | .waitLd => 0 | .waitFx => 0 | .asleep => 0
  | .exitSt => 0 | .exitOr => 0 | .dead => 0

theorem lin_own (c : Cfg) {s s' : State} {l : Label} (x id : Nat) (hl : (s.hpc x).lin = true) (hs : s.stop x = false)
    (hp : s.pause x = false) (hq : id ∈ s.queue x) (ho : hOwn x l) (st : step c s l = some s') :
    id ∈ s'.batch x ∨ ((s'.hpc x).lin = true ∧ linRank (s'.hpc x) < linRank (s.hpc x)) := by
  have hne : s.queue x ≠ [] := by intro h; rw [h] at hq; simp at hq
  unfold hOwn at ho
  cases l <;> simp only [helperLabel, beq_iff_eq, Bool.false_eq_true] at ho <;> subst ho <;>
    simp only [step] at st <;> (repeat' split at st) <;>
    (first | (simp at st; done) | skip) <;>
    simp only [Option.some.injEq] at st <;> subst st <;>
    simp only [upd, ↓reduceIte] <;> simp_all [HPc.lin, linRank] <;> (repeat' split) <;> simp_all [HPc.lin, linRank]

theorem lin_enabled (c : Cfg) {s : State} (x : Nat) (hl : (s.hpc x).lin = true) (hp : s.pause x = false) :
    Enabled (step c) (hOwn x) s := by
  by_cases hpd : s.hpc x = .paused
  · exact ⟨.hUnpause x, by simp [hOwn, helperLabel], by simp [step, hpd, hp]⟩
  · obtain ⟨l, h1, h2⟩ := helper_no_stuck c s x (by
      refine ⟨?_, ?_, ?_, ?_, hpd, ?_⟩ <;> (intro h; rw [h] at hl; cases hl))
    exact ⟨l, h1, h2⟩

theorem lin_frame (c : Cfg) {s s' : State} {l : Label} (hA : InvA c s) (x : Nat) (hl : (s.hpc x).lin = true)
    (ho : ¬ hOwn x l) (st : step c s l = some s') : s'.hpc x = s.hpc x := by
  rcases hpc_frame c hA x (by intro h; rw [h] at hl; cases hl) ho st with h | ⟨h, -⟩
  · exact h
  · rw [h] at hl; cases hl

/-- the helper is inside `call_rcu_wait()` -/
def HPc.cluster : HPc → Bool
  | .waitLd => true | .waitFx => true | .asleep => true
  | .start => false | .dec0 => false | .top => false | .pausing => false | .paused => false | .splice => false
  | .sub => false | .stopchk => false | .emptychk => false | .pollN => false | .pollW => false | .dec => false
  | .none => false | .gp => false | .inv => false | .run => false
  | .exitSt => false | .exitOr => false | .dead => false

def HPc.wl : HPc → Bool
  | .waitLd => true | .waitFx => true
  | .asleep => false
  | .start => false | .dec0 => false | .top => false | .pausing => false | .paused => false | .splice => false
  | .sub => false | .stopchk => false | .emptychk => false | .pollN => false | .pollW => false | .dec => false
  | .none => false | .gp => false | .inv => false | .run => false
  | .exitSt => false | .exitOr => false | .dead => false

def wlRankH : HPc → Nat
  | .waitFx => 2 | .waitLd => 1
  | .asleep => 0
  | .start => 0 | .dec0 => 0 | .top => 0 | .pausing => 0 | .paused => 0 | .splice => 0
  | .sub => 0 | .stopchk => 0 | .emptychk => 0 | .pollN => 0 | .pollW => 0 | .dec => 0
  | .none => 0 | .gp => 0 | .inv => 0 | .run => 0
  | .exitSt => 0 | .exitOr => 0 | .dead => 0

/-- how a helper inside `call_rcu_wait()` and its futex can move in one step -/
theorem cluster_step_h (c : Cfg) {s s' : State} {l : Label} (hA : InvA c s) (x : Nat) (hc : (s.hpc x).cluster = true)
    (st : step c s l = some s') :
    ((s'.hpc x).cluster = true ∨ (s'.hpc x = .pollW ∧ s.futex x ≠ -1)) ∧ (s'.futex x = s.futex x ∨ s'.futex x = 0) := by
  have a11 := hA.fresh x
  cases l <;> simp only [step] at st <;> (repeat' split at st) <;>
    (first | (simp at st; done) | skip) <;>
    simp only [Option.some.injEq] at st <;> subst st <;>
    simp only [upd, lockS, unlockS, newHelper, nestOn, csOn, nestOff] at * <;> grind [HPc.cluster]

/-- a helper at the futex load / `FUTEX_WAIT` entry with the futex reset: every step of its own leads towards `pollW` -/
theorem wl0_step (c : Cfg) {s s' : State} {l : Label} (hA : InvA c s) (x : Nat) (hw : (s.hpc x).wl = true) (h0 : s.futex x = 0)
    (st : step c s l = some s') :
    s'.hpc x = .pollW ∨ ((s'.hpc x).wl = true ∧ s'.futex x = 0 ∧
      (hOwn x l → wlRankH (s'.hpc x) < wlRankH (s.hpc x)) ∧ (¬ hOwn x l → wlRankH (s'.hpc x) ≤ wlRankH (s.hpc x))) := by
  have a11 := hA.fresh x
  unfold hOwn
  cases l <;> simp only [helperLabel, beq_iff_eq, Bool.false_eq_true] <;>
    simp only [step] at st <;> (repeat' split at st) <;>
    (first | (simp at st; done) | skip) <;>
    simp only [Option.some.injEq] at st <;> subst st <;>
    simp only [upd, lockS, unlockS, newHelper, nestOn, csOn, nestOff] at * <;> grind [HPc.wl, wlRankH]

theorem wl0_enabled (c : Cfg) {s : State} (x : Nat) (hw : (s.hpc x).wl = true) : Enabled (step c) (hOwn x) s := by
  obtain ⟨l, h1, h2⟩ := helper_no_stuck c s x (by
    refine ⟨?_, ?_, ?_, ?_, ?_, ?_⟩ <;> (intro h; rw [h] at hw; cases hw))
  exact ⟨l, h1, h2⟩

/-- stage B, own step: the `FUTEX_WAKE` moves the sleeping helper to the futex re-check -/
theorem waking_own' (c : Cfg) {s s' : State} {l : Label} (t x : Nat) (hw : (s.tpc t).waking = some x)
    (hs : s.hpc x = .asleep) (hl : l ∈ wakeLabels t) (st : step c s l = some s') :
    s'.hpc x = .waitLd ∧ s'.futex x = s.futex x := by
  simp only [wakeLabels, List.mem_cons, List.mem_nil_iff, or_false] at hl
  rcases hl with rfl | rfl | rfl | rfl | rfl | rfl <;>
    simp only [step] at st <;> (repeat' split at st) <;>
    (first | (simp at st; done) | skip) <;>
    simp only [Option.some.injEq] at st <;> subst st <;>
    simp_all [upd, TPc.waking]

end UrcuVerif.CallRcu
