import UrcuVerif.CallRcu.LiveBarLoop
/-! Step-level lemmas: the set-up phase of `rcu_barrier()` (init, one marker per helper, unlock) terminates. -/
set_option linter.unusedSimpArgs false
set_option linter.unusedVariables false
namespace UrcuVerif.CallRcu
open UrcuVerif UrcuVerif.Fair

/-- the caller holds `call_rcu_mutex` and is initialising the completion / queueing the markers -/
def BPc.setup (p : BPc) (b : Nat) : Prop := p = .init b ∨ p = .loop b

def setupRank (s : BState) (t : Nat) : Nat :=
  match s.bpc t with
  | .init _ => 8 * s.base.list.length + 9
  | .loop b => 8 * (s.todo b).length + pathRank (s.base.tpc t)
  | .idle => 0 | .lock _ => 0 | .dec _ => 0 | .ldCnt _ => 0 | .waitLd _ => 0 | .waitFx _ => 0 | .asleep _ => 0 | .put _ => 0

theorem setup_ext (c : Cfg) {s : BState} (P : BInvP c s) (t b : Nat) (hp : (s.bpc t).setup b) :
    (s.base.tpc t).extMode = true ∧ s.base.mutex = some t := by
  unfold BPc.setup at hp
  refine ⟨(P.k_ext t).mp (by rcases hp with h | h <;> rw [h] <;> simp), P.k_lock t b (by rcases hp with h | h <;> rw [h] <;> rfl)⟩

/-- own steps in the set-up phase: towards the unlock -/
theorem setup_own (c : Cfg) {s s' : BState} {bl : BLabel} (P : BInvP c s) (t b : Nat) (hp : (s.bpc t).setup b)
    (hl : btLabel t bl) (st : bstep c s bl = some s') :
    s'.bpc t = .dec b ∨ ((s'.bpc t).setup b ∧ setupRank s' t < setupRank s t) := by
  have hext := setup_ext c P t b hp
  have p5 := P.k_extpc t
  unfold BPc.setup at hp ⊢
  cases bl with
  | base l =>
    simp only [btLabel] at hl
    obtain ⟨hb, hh, -, -, e2, e3, -, -, -, -, -⟩ := bstep_base c st
    have hpo := path_own c t hext.1 hl hb
    right
    rw [e3]
    refine ⟨hp, ?_⟩
    rcases hp with h | h
    · -- at `init` the thread is at the hook point: no call_rcu-layer step of its own is enabled
      exfalso
      have := p5 (by rw [h]; simp) (by intro b'; rw [h]; simp)
      unfold tLabel at hl
      cases l <;> simp only [threadLabel, beq_iff_eq, Bool.false_eq_true] at hl <;> subst hl <;> simp [step, this] at hb
    · simp only [setupRank, e3, h, e2]
      omega
  | _ =>
    simp only [btLabel] at hl
    all_goals (first | (exfalso; exact hl) | skip)
    all_goals (first | subst hl | (have h' := hl.1; subst h'))
    all_goals (
      simp only [bstep, step] at st
      (repeat' split at st)
      all_goals (first | (simp at st; done) | skip)
      all_goals (simp only [Option.some.injEq] at st; subst st)
      all_goals (try (rename_i hb; (repeat' split at hb); all_goals (first | (simp at hb; done) | skip); all_goals (simp only [Option.some.injEq] at hb; subst hb)))
      all_goals (try (rename_i hb _; (repeat' split at hb); all_goals (first | (simp at hb; done) | skip); all_goals (simp only [Option.some.injEq] at hb; subst hb))))
    all_goals (simp only [setupRank, upd] at * <;> (try (have := length_tail_of_head? ‹_›)) <;> simp_all [pathRank] <;> (try omega))

/-- in the set-up phase the caller always has an enabled step (it holds the mutex; fresh work items exist) -/
theorem setup_enabled (c : Cfg) {s : BState} (I : LInv2 c s) (t b : Nat) (hp : (s.bpc t).setup b) :
    Enabled (bstep c) (btLabel t) s := by
  have P := I.l.all.P
  have hext := setup_ext c P t b hp
  unfold BPc.setup at hp
  rcases hp with h | h
  · exact ⟨.bInit t, rfl, by simp [bstep, h]⟩
  · by_cases he : s.base.tpc t = .ext
    · cases htd : s.todo b with
      | nil => exact ⟨.bUnlock t, rfl, by simp [bstep, h, htd, step, he, hext.2]⟩
      | cons x r =>
        obtain ⟨N, hN⟩ := invFresh_reach c I.l.all.R
        have hx : x ∈ s.base.list := I.T b x (by rw [htd]; simp)
        exact ⟨.bEnq t N x, rfl, by simp [bstep, h, htd, step, he, hext.2, hx, hN N (Nat.le_refl N)]⟩
    · -- inside `_call_rcu()` / `wake_call_rcu_thread()` for one marker
      cases hq : s.base.tpc t <;> simp [hq, TPc.extMode] at hext he
      case enq id x k => exact ⟨.base (.enq t), by simp [btLabel, tLabel, threadLabel], by simp [bstep, Label.isHook, step, hq]⟩
      case inc x k => exact ⟨.base (.inc t), by simp [btLabel, tLabel, threadLabel], by simp [bstep, Label.isHook, step, hq]⟩
      case ldFlags x k => exact ⟨.base (.ldFlags t), by simp [btLabel, tLabel, threadLabel], by simp [bstep, Label.isHook, step, hq]⟩
      case ldFutex x k => exact ⟨.base (.ldFutex t), by simp [btLabel, tLabel, threadLabel], by simp [bstep, Label.isHook, step, hq]⟩
      case stFutex x k => exact ⟨.base (.stFutex t), by simp [btLabel, tLabel, threadLabel], by simp [bstep, Label.isHook, step, hq]⟩
      case wake x k => exact ⟨.base (.wake t), by simp [btLabel, tLabel, threadLabel], by simp [bstep, Label.isHook, step, hq]⟩

/-- other steps leave the set-up phase of the caller alone -/
theorem setup_frame (c : Cfg) {s s' : BState} {bl : BLabel} (I : LInv2 c s) (t b : Nat) (hp : (s.bpc t).setup b)
    (hl : ¬ btLabel t bl) (st : bstep c s bl = some s') :
    s'.bpc t = s.bpc t ∧ setupRank s' t = setupRank s t := by
  have P := I.l.all.P
  have H := I.l.all.H
  have hext := setup_ext c P t b hp
  have g1 := H.bar_ok
  have p5 := P.k_extpc t
  unfold BPc.setup at hp
  cases bl with
  | base l =>
    simp only [btLabel] at hl
    obtain ⟨hb, hh, -, -, e2, e3, -, -, -, -, -⟩ := bstep_base c st
    obtain ⟨-, -, D, -, -⟩ := reach_d c I.l.all.R
    have htpc : s'.base.tpc t = s.base.tpc t := by
      by_cases he : s.base.tpc t = .ext
      · rw [ext_frame c t he hh hb, he]
      · exact thread_frame c t (by intro h; rw [h] at hext; simp [TPc.extMode] at hext) he hl hb
    refine ⟨by rw [e3], ?_⟩
    rcases hp with h | h
    · have he : s.base.tpc t = .ext := p5 (by rw [h]; simp) (by intro b'; rw [h]; simp)
      simp only [setupRank, e3, h, list_frame_held c D t he hext.2 hb]
    · simp only [setupRank, e3, h, e2, htpc]
  | _ =>
    simp only [btLabel] at hl
    bb_split
    all_goals (simp only [setupRank, upd] at * <;> grind [BPc.bar])

/-- helper `x` is in the middle of `_rcu_barrier_complete` -/
def MBusy (s : BState) (x : Nat) : Prop := (s.mrun x).isSome = true ∧ s.mpc x ≠ .fin

/-- only the helper's own call_rcu-layer steps start a marker callback -/
theorem mbusy_frame (c : Cfg) {s s' : BState} {bl : BLabel} (x : Nat) (hn : ¬ MBusy s x)
    (hl : ∀ l, bl = .base l → ¬ hOwn x l) (st : bstep c s bl = some s') : ¬ MBusy s' x := by
  unfold MBusy at *
  cases bl with
  | base l =>
    have hl' := hl l rfl
    unfold hOwn at hl'
    simp only [bstep] at st
    (repeat' split at st)
    all_goals (first | (simp at st; done) | skip)
    all_goals (simp only [Option.some.injEq] at st; subst st)
    all_goals (simp only [upd, helperLabel, beq_iff_eq] at * <;> grind)
  | _ =>
    bb_split
    all_goals (simp only [upd] at * <;> grind)

/-- an enabled marker step means the marker is unfinished -/
theorem marker_enabled_busy (c : Cfg) {s : BState} (x : Nat) (bl : BLabel) (h1 : bl ∈ markerLabels x)
    (h2 : (bstep c s bl).isSome = true) : MBusy s x := by
  unfold MBusy
  simp only [markerLabels, List.mem_cons, List.mem_nil_iff, or_false] at h1
  rcases h1 with rfl | rfl | rfl | rfl | rfl <;> simp only [bstep] at h2 <;> (repeat' split at h2) <;> simp_all

/-- a finished marker stays finished while the helper has not ended the callback -/
theorem mfin_frame (c : Cfg) {s s' : BState} {bl : BLabel} (x b h' : Nat) (hm : s.mrun x = some (b, h')) (hf : s.mpc x = .fin)
    (hl : ∀ l, bl = .base l → ¬ hOwn x l) (st : bstep c s bl = some s') : s'.mrun x = some (b, h') ∧ s'.mpc x = .fin := by
  cases bl with
  | base l =>
    have hl' := hl l rfl
    unfold hOwn at hl'
    simp only [bstep] at st
    (repeat' split at st)
    all_goals (first | (simp at st; done) | skip)
    all_goals (simp only [Option.some.injEq] at st; subst st)
    all_goals (simp only [upd, helperLabel, beq_iff_eq] at * <;> grind)
  | _ =>
    bb_split
    all_goals (simp only [upd] at * <;> grind)

/-- the only step of its own a helper can take while it runs a callback ends the callback -/
theorem run_own_ends (c : Cfg) {s s' : BState} {l : Label} (x : Nat) (hr : s.base.hpc x = .run) (hl : hOwn x l)
    (st : bstep c s (.base l) = some s') : s'.base.hpc x ≠ .run := by
  have hb := (bstep_base c st).1
  unfold hOwn at hl
  cases l <;> simp only [helperLabel, beq_iff_eq, Bool.false_eq_true] at hl <;> subst hl <;>
    simp only [step, hr] at hb <;> (repeat' split at hb) <;> simp_all [upd]
  all_goals (rw [← hb]; simp [upd])

/-- the end of a finished marker callback is enabled -/
theorem run_end_enabled (c : Cfg) {s : BState} (hA : InvA c s.base) (x : Nat) (hr : s.base.hpc x = .run)
    (hq : s.base.tpc (c.n + x) = .idle) (hnb : ¬ MBusy s x) : (bstep c s (.base (.hRunEnd x))).isSome = true := by
  have hc := (hA.cur_run x).mpr hr
  obtain ⟨cb, hcb⟩ := Option.isSome_iff_exists.mp hc
  unfold MBusy at hnb
  simp only [bstep, Label.isHook, Bool.false_eq_true, ↓reduceIte, step, hcb, hr, hq]
  rw [if_neg hnb]; simp

end UrcuVerif.CallRcu
