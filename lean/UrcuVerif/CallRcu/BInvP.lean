import UrcuVerif.CallRcu.BInvH
import UrcuVerif.CallRcu.InvD
/-!
# C04 — program-counter facts of the barrier layer (helper lemmas; statements in `Props/C04.lean`)

`BInvP`: the caller of `rcu_barrier()` holds `call_rcu_mutex` from `bLock` to `bUnlock`; the completion is
initialised exactly from `bInit` on; a thread is inside `rcu_barrier()` iff its C03 program counter is one of the
hook points; outside the marker loop the list of helpers still to be served is empty.
-/
set_option linter.unusedVariables false
set_option linter.unusedSimpArgs false
namespace UrcuVerif.CallRcu

/-- the caller is between `bLock` and `bUnlock` -/
def BPc.locked : BPc → Option Nat
  | .init b => some b | .loop b => some b
  | .idle => none | .lock _ => none | .dec _ => none | .ldCnt _ => none | .waitLd _ => none | .waitFx _ => none
  | .asleep _ => none | .put _ => none

/-- the completion has been initialised -/
def BPc.past : BPc → Option Nat
  | .loop b => some b | .dec b => some b | .ldCnt b => some b | .waitLd b => some b | .waitFx b => some b
  | .asleep b => some b | .put b => some b
  | .idle => none | .lock _ => none | .init _ => none

def K.isExt : K → Bool
  | .ext => true | .user => false | .fstop => false | .fdflt _ => false

/-- program points of a thread inside `rcu_barrier()` (hooks of the C03 model) -/
def TPc.extMode : TPc → Bool
  | .ext => true
  | .enq _ _ k => k.isExt | .inc _ k => k.isExt | .ldFlags _ k => k.isExt | .ldFutex _ k => k.isExt
  | .stFutex _ k => k.isExt | .wake _ k => k.isExt
  | .idle => false | .sync => false | .sel _ => false
  | .gdLd _ => false | .gdLock _ => false | .gdCreate _ => false | .gdUnlock _ => false
  | .crRet => false | .opLock _ => false | .opDo _ => false | .opUnlock _ => false
  | .fLdFlags _ => false | .fOrStop _ => false | .fWaitStopped _ => false | .fLock _ => false | .fChk _ => false
  | .fUnlock1 _ => false | .fLock2 _ => false | .fSplice _ => false | .fAddQ _ => false | .fDel _ => false
  | .fJoin _ => false | .fFree _ => false

theorem cont_ne_enq (k : K) (h id h2 : Nat) (k2 : K) : k.cont h ≠ .enq id h2 k2 := by cases k <;> simp [K.cont]
theorem cont_extMode (k : K) (h : Nat) : (k.cont h).extMode = k.isExt := by cases k <;> rfl

structure BInvP (c : Cfg) (s : BState) : Prop where
  k_lock : ∀ t b, (s.bpc t).locked = some b → s.base.mutex = some t
  k_early : ∀ t b, (s.bpc t = .lock b ∨ s.bpc t = .init b) → s.inited b = false
  k_past : ∀ t b, (s.bpc t).past = some b → s.inited b = true
  k_ext : ∀ t, s.bpc t ≠ .idle ↔ (s.base.tpc t).extMode = true
  k_extpc : ∀ t, s.bpc t ≠ .idle → (∀ b, s.bpc t ≠ .loop b) → s.base.tpc t = .ext
  k_fresh : ∀ b, s.nextB ≤ b → s.inited b = false
  k_todo0 : ∀ t b, (s.bpc t).bar = some b → s.bpc t ≠ .loop b → s.todo b = []
  k_init_todo : ∀ b, s.inited b = false → s.todo b = []
  k_todo_loop : ∀ b, s.todo b ≠ [] → s.bpc (s.caller b) = .loop b

theorem binvP_init (c) : BInvP c binit := by
  constructor <;> simp [binit, init, BPc.bar, BPc.locked, BPc.past, TPc.extMode]

theorem locked_bar {p : BPc} {b : Nat} (h : p.locked = some b) : p.bar = some b := by
  cases p <;> simp_all [BPc.locked, BPc.bar]
theorem past_bar {p : BPc} {b : Nat} (h : p.past = some b) : p.bar = some b := by
  cases p <;> simp_all [BPc.past, BPc.bar]

set_option hygiene false in
macro "bp_post" : tactic => `(tactic| (
  all_goals (constructor <;> first | assumption | (simp only [upd, upd2, lockS, unlockS, newHelper, relocate, nestOn, csOn, nestOff, cont_extMode] at * <;> grind [upd, upd2, TPc.extMode, K.isExt, cont_extMode, cont_ne_enq, BPc.bar, BPc.locked, BPc.past, → locked_bar, → past_bar]))))

set_option hygiene false in
macro "bp_pre" : tactic => `(tactic| (
  have g1 := hH.bar_ok
  clear hH
  obtain ⟨h1, h2, h3, h4, h5, h6, h7, h8, h9⟩ := h))

set_option hygiene false in
macro "bp_base" : tactic => `(tactic| (
  bp_pre
  simp only [bstep, Label.isHook, Bool.false_eq_true, ↓reduceIte] at st
  (repeat' split at st)
  all_goals (first | (simp at st; done) | skip)
  all_goals (simp only [Option.some.injEq] at st; subst st)
  all_goals (rename_i hb; simp only [step] at hb; (repeat' split at hb))
  all_goals (first | (simp at hb; done) | skip)
  all_goals (simp only [Option.some.injEq] at hb; subst hb)
  bp_post))

set_option hygiene false in
macro "bp_own" : tactic => `(tactic| (
  bp_pre
  simp only [bstep, step] at st
  (repeat' split at st)
  all_goals (first | (simp at st; done) | skip)
  all_goals (simp only [Option.some.injEq] at st; subst st)
  all_goals (try (rename_i hb; (repeat' split at hb); all_goals (first | (simp at hb; done) | skip); all_goals (simp only [Option.some.injEq] at hb; subst hb)))
  all_goals (try (rename_i hb _; (repeat' split at hb); all_goals (first | (simp at hb; done) | skip); all_goals (simp only [Option.some.injEq] at hb; subst hb)))
  bp_post))

theorem binvp_base_rlock (c : Cfg) {s s' : BState} (hH : BInvH c s) (h : BInvP c s) (t : _)
    (st : bstep c s (.base (.rlock t)) = some s') : BInvP c s' := by
  bp_base

theorem binvp_base_runlock (c : Cfg) {s s' : BState} (hH : BInvH c s) (h : BInvP c s) (t : _)
    (st : bstep c s (.base (.runlock t)) = some s') : BInvP c s' := by
  bp_base

theorem binvp_base_syncStart (c : Cfg) {s s' : BState} (hH : BInvH c s) (h : BInvP c s) (t : _)
    (st : bstep c s (.base (.syncStart t)) = some s') : BInvP c s' := by
  bp_base

theorem binvp_base_syncEnd (c : Cfg) {s s' : BState} (hH : BInvH c s) (h : BInvP c s) (t : _)
    (st : bstep c s (.base (.syncEnd t)) = some s') : BInvP c s' := by
  bp_base

theorem binvp_base_crCall (c : Cfg) {s s' : BState} (hH : BInvH c s) (h : BInvP c s) (t id : _)
    (st : bstep c s (.base (.crCall t id)) = some s') : BInvP c s' := by
  bp_base

theorem binvp_base_crSelThr (c : Cfg) {s s' : BState} (hH : BInvH c s) (h : BInvP c s) (t : _)
    (st : bstep c s (.base (.crSelThr t)) = some s') : BInvP c s' := by
  bp_base

theorem binvp_base_crSelCpu (c : Cfg) {s s' : BState} (hH : BInvH c s) (h : BInvP c s) (t cpu : _)
    (st : bstep c s (.base (.crSelCpu t cpu)) = some s') : BInvP c s' := by
  bp_base

theorem binvp_base_crSelNoCpu (c : Cfg) {s s' : BState} (hH : BInvH c s) (h : BInvP c s) (t cpu : _)
    (st : bstep c s (.base (.crSelNoCpu t cpu)) = some s') : BInvP c s' := by
  bp_base

theorem binvp_base_gdCall (c : Cfg) {s s' : BState} (hH : BInvH c s) (h : BInvP c s) (t : _)
    (st : bstep c s (.base (.gdCall t)) = some s') : BInvP c s' := by
  bp_base

theorem binvp_base_gdLd (c : Cfg) {s s' : BState} (hH : BInvH c s) (h : BInvP c s) (t : _)
    (st : bstep c s (.base (.gdLd t)) = some s') : BInvP c s' := by
  bp_base

theorem binvp_base_gdLock (c : Cfg) {s s' : BState} (hH : BInvH c s) (h : BInvP c s) (t : _)
    (st : bstep c s (.base (.gdLock t)) = some s') : BInvP c s' := by
  bp_base

theorem binvp_base_gdCreate (c : Cfg) {s s' : BState} (hH : BInvH c s) (h : BInvP c s) (t : _)
    (st : bstep c s (.base (.gdCreate t)) = some s') : BInvP c s' := by
  bp_base

theorem binvp_base_gdUnlock (c : Cfg) {s s' : BState} (hH : BInvH c s) (h : BInvP c s) (t : _)
    (st : bstep c s (.base (.gdUnlock t)) = some s') : BInvP c s' := by
  bp_base

theorem binvp_base_enq (c : Cfg) {s s' : BState} (hH : BInvH c s) (h : BInvP c s) (t : _)
    (st : bstep c s (.base (.enq t)) = some s') : BInvP c s' := by
  bp_base

theorem binvp_base_inc (c : Cfg) {s s' : BState} (hH : BInvH c s) (h : BInvP c s) (t : _)
    (st : bstep c s (.base (.inc t)) = some s') : BInvP c s' := by
  bp_base

theorem binvp_base_ldFlags (c : Cfg) {s s' : BState} (hH : BInvH c s) (h : BInvP c s) (t : _)
    (st : bstep c s (.base (.ldFlags t)) = some s') : BInvP c s' := by
  bp_base

theorem binvp_base_ldFutex (c : Cfg) {s s' : BState} (hH : BInvH c s) (h : BInvP c s) (t : _)
    (st : bstep c s (.base (.ldFutex t)) = some s') : BInvP c s' := by
  bp_base

theorem binvp_base_stFutex (c : Cfg) {s s' : BState} (hH : BInvH c s) (h : BInvP c s) (t : _)
    (st : bstep c s (.base (.stFutex t)) = some s') : BInvP c s' := by
  bp_base

theorem binvp_base_wake (c : Cfg) {s s' : BState} (hH : BInvH c s) (h : BInvP c s) (t : _)
    (st : bstep c s (.base (.wake t)) = some s') : BInvP c s' := by
  bp_base

theorem binvp_base_crRet (c : Cfg) {s s' : BState} (hH : BInvH c s) (h : BInvP c s) (t : _)
    (st : bstep c s (.base (.crRet t)) = some s') : BInvP c s' := by
  bp_base

theorem binvp_base_opCall (c : Cfg) {s s' : BState} (hH : BInvH c s) (h : BInvP c s) (t op : _)
    (st : bstep c s (.base (.opCall t op)) = some s') : BInvP c s' := by
  bp_base

theorem binvp_base_opLock (c : Cfg) {s s' : BState} (hH : BInvH c s) (h : BInvP c s) (t : _)
    (st : bstep c s (.base (.opLock t)) = some s') : BInvP c s' := by
  bp_base

theorem binvp_base_opDo (c : Cfg) {s s' : BState} (hH : BInvH c s) (h : BInvP c s) (t : _)
    (st : bstep c s (.base (.opDo t)) = some s') : BInvP c s' := by
  bp_base

theorem binvp_base_opUnlock (c : Cfg) {s s' : BState} (hH : BInvH c s) (h : BInvP c s) (t : _)
    (st : bstep c s (.base (.opUnlock t)) = some s') : BInvP c s' := by
  bp_base

theorem binvp_base_setThr (c : Cfg) {s s' : BState} (hH : BInvH c s) (h : BInvP c s) (t ho : _)
    (st : bstep c s (.base (.setThr t ho)) = some s') : BInvP c s' := by
  bp_base

theorem binvp_base_fCall (c : Cfg) {s s' : BState} (hH : BInvH c s) (h : BInvP c s) (t h0 : _)
    (st : bstep c s (.base (.fCall t h0)) = some s') : BInvP c s' := by
  bp_base

theorem binvp_base_fLdFlags (c : Cfg) {s s' : BState} (hH : BInvH c s) (h : BInvP c s) (t : _)
    (st : bstep c s (.base (.fLdFlags t)) = some s') : BInvP c s' := by
  bp_base

theorem binvp_base_fOrStop (c : Cfg) {s s' : BState} (hH : BInvH c s) (h : BInvP c s) (t : _)
    (st : bstep c s (.base (.fOrStop t)) = some s') : BInvP c s' := by
  bp_base

theorem binvp_base_fSeeStopped (c : Cfg) {s s' : BState} (hH : BInvH c s) (h : BInvP c s) (t : _)
    (st : bstep c s (.base (.fSeeStopped t)) = some s') : BInvP c s' := by
  bp_base

theorem binvp_base_fLock (c : Cfg) {s s' : BState} (hH : BInvH c s) (h : BInvP c s) (t : _)
    (st : bstep c s (.base (.fLock t)) = some s') : BInvP c s' := by
  bp_base

theorem binvp_base_fChk (c : Cfg) {s s' : BState} (hH : BInvH c s) (h : BInvP c s) (t : _)
    (st : bstep c s (.base (.fChk t)) = some s') : BInvP c s' := by
  bp_base

theorem binvp_base_fUnlock1 (c : Cfg) {s s' : BState} (hH : BInvH c s) (h : BInvP c s) (t : _)
    (st : bstep c s (.base (.fUnlock1 t)) = some s') : BInvP c s' := by
  bp_base

theorem binvp_base_fLock2 (c : Cfg) {s s' : BState} (hH : BInvH c s) (h : BInvP c s) (t : _)
    (st : bstep c s (.base (.fLock2 t)) = some s') : BInvP c s' := by
  bp_base

theorem binvp_base_fSplice (c : Cfg) {s s' : BState} (hH : BInvH c s) (h : BInvP c s) (t : _)
    (st : bstep c s (.base (.fSplice t)) = some s') : BInvP c s' := by
  bp_base

theorem binvp_base_fAddQ (c : Cfg) {s s' : BState} (hH : BInvH c s) (h : BInvP c s) (t : _)
    (st : bstep c s (.base (.fAddQ t)) = some s') : BInvP c s' := by
  bp_base

theorem binvp_base_fDel (c : Cfg) {s s' : BState} (hH : BInvH c s) (h : BInvP c s) (t : _)
    (st : bstep c s (.base (.fDel t)) = some s') : BInvP c s' := by
  bp_base

theorem binvp_base_fJoin (c : Cfg) {s s' : BState} (hH : BInvH c s) (h : BInvP c s) (t : _)
    (st : bstep c s (.base (.fJoin t)) = some s') : BInvP c s' := by
  bp_base

theorem binvp_base_fFree (c : Cfg) {s s' : BState} (hH : BInvH c s) (h : BInvP c s) (t : _)
    (st : bstep c s (.base (.fFree t)) = some s') : BInvP c s' := by
  bp_base

theorem binvp_base_hStart (c : Cfg) {s s' : BState} (hH : BInvH c s) (h : BInvP c s) (x : _)
    (st : bstep c s (.base (.hStart x)) = some s') : BInvP c s' := by
  bp_base

theorem binvp_base_hDec0 (c : Cfg) {s s' : BState} (hH : BInvH c s) (h : BInvP c s) (x : _)
    (st : bstep c s (.base (.hDec0 x)) = some s') : BInvP c s' := by
  bp_base

theorem binvp_base_hTop (c : Cfg) {s s' : BState} (hH : BInvH c s) (h : BInvP c s) (x : _)
    (st : bstep c s (.base (.hTop x)) = some s') : BInvP c s' := by
  bp_base

theorem binvp_base_hPause (c : Cfg) {s s' : BState} (hH : BInvH c s) (h : BInvP c s) (x : _)
    (st : bstep c s (.base (.hPause x)) = some s') : BInvP c s' := by
  bp_base

theorem binvp_base_hUnpause (c : Cfg) {s s' : BState} (hH : BInvH c s) (h : BInvP c s) (x : _)
    (st : bstep c s (.base (.hUnpause x)) = some s') : BInvP c s' := by
  bp_base

theorem binvp_base_hSplice (c : Cfg) {s s' : BState} (hH : BInvH c s) (h : BInvP c s) (x : _)
    (st : bstep c s (.base (.hSplice x)) = some s') : BInvP c s' := by
  bp_base

theorem binvp_base_hGpEnd (c : Cfg) {s s' : BState} (hH : BInvH c s) (h : BInvP c s) (x : _)
    (st : bstep c s (.base (.hGpEnd x)) = some s') : BInvP c s' := by
  bp_base

theorem binvp_base_hRunBegin (c : Cfg) {s s' : BState} (hH : BInvH c s) (h : BInvP c s) (x cb : _)
    (st : bstep c s (.base (.hRunBegin x cb)) = some s') : BInvP c s' := by
  bp_base

theorem binvp_base_hRunEnd (c : Cfg) {s s' : BState} (hH : BInvH c s) (h : BInvP c s) (x : _)
    (st : bstep c s (.base (.hRunEnd x)) = some s') : BInvP c s' := by
  bp_base

theorem binvp_base_hInvDone (c : Cfg) {s s' : BState} (hH : BInvH c s) (h : BInvP c s) (x : _)
    (st : bstep c s (.base (.hInvDone x)) = some s') : BInvP c s' := by
  bp_base

theorem binvp_base_hSub (c : Cfg) {s s' : BState} (hH : BInvH c s) (h : BInvP c s) (x : _)
    (st : bstep c s (.base (.hSub x)) = some s') : BInvP c s' := by
  bp_base

theorem binvp_base_hStopChk (c : Cfg) {s s' : BState} (hH : BInvH c s) (h : BInvP c s) (x : _)
    (st : bstep c s (.base (.hStopChk x)) = some s') : BInvP c s' := by
  bp_base

theorem binvp_base_hEmptyChk (c : Cfg) {s s' : BState} (hH : BInvH c s) (h : BInvP c s) (x : _)
    (st : bstep c s (.base (.hEmptyChk x)) = some s') : BInvP c s' := by
  bp_base

theorem binvp_base_hWaitLd (c : Cfg) {s s' : BState} (hH : BInvH c s) (h : BInvP c s) (x : _)
    (st : bstep c s (.base (.hWaitLd x)) = some s') : BInvP c s' := by
  bp_base

theorem binvp_base_hWaitFx (c : Cfg) {s s' : BState} (hH : BInvH c s) (h : BInvP c s) (x o : _)
    (st : bstep c s (.base (.hWaitFx x o)) = some s') : BInvP c s' := by
  bp_base

theorem binvp_base_hSpurious (c : Cfg) {s s' : BState} (hH : BInvH c s) (h : BInvP c s) (x : _)
    (st : bstep c s (.base (.hSpurious x)) = some s') : BInvP c s' := by
  bp_base

theorem binvp_base_hPollW (c : Cfg) {s s' : BState} (hH : BInvH c s) (h : BInvP c s) (x : _)
    (st : bstep c s (.base (.hPollW x)) = some s') : BInvP c s' := by
  bp_base

theorem binvp_base_hDec (c : Cfg) {s s' : BState} (hH : BInvH c s) (h : BInvP c s) (x : _)
    (st : bstep c s (.base (.hDec x)) = some s') : BInvP c s' := by
  bp_base

theorem binvp_base_hPollN (c : Cfg) {s s' : BState} (hH : BInvH c s) (h : BInvP c s) (x : _)
    (st : bstep c s (.base (.hPollN x)) = some s') : BInvP c s' := by
  bp_base

theorem binvp_base_hExitSt (c : Cfg) {s s' : BState} (hH : BInvH c s) (h : BInvP c s) (x : _)
    (st : bstep c s (.base (.hExitSt x)) = some s') : BInvP c s' := by
  bp_base

theorem binvp_base_hExitOr (c : Cfg) {s s' : BState} (hH : BInvH c s) (h : BInvP c s) (x : _)
    (st : bstep c s (.base (.hExitOr x)) = some s') : BInvP c s' := by
  bp_base

theorem binvp_bRefused (c : Cfg) {s s' : BState} (hH : BInvH c s) (h : BInvP c s) (t : _)
    (st : bstep c s (.bRefused t) = some s') : BInvP c s' := by
  bp_own

theorem binvp_bCall (c : Cfg) {s s' : BState} (hH : BInvH c s) (h : BInvP c s) (t : _)
    (st : bstep c s (.bCall t) = some s') : BInvP c s' := by
  bp_own

theorem binvp_bLock (c : Cfg) {s s' : BState} (hH : BInvH c s) (h : BInvP c s) (t : _)
    (st : bstep c s (.bLock t) = some s') : BInvP c s' := by
  bp_own

theorem binvp_bInit (c : Cfg) {s s' : BState} (hH : BInvH c s) (h : BInvP c s) (t : _)
    (st : bstep c s (.bInit t) = some s') : BInvP c s' := by
  bp_own

theorem binvp_bEnq (c : Cfg) {s s' : BState} (hH : BInvH c s) (h : BInvP c s) (t id h0 : _)
    (st : bstep c s (.bEnq t id h0) = some s') : BInvP c s' := by
  bp_own

theorem binvp_bUnlock (c : Cfg) {s s' : BState} (hH : BInvH c s) (h : BInvP c s) (t : _)
    (st : bstep c s (.bUnlock t) = some s') : BInvP c s' := by
  bp_own

theorem binvp_bDec (c : Cfg) {s s' : BState} (hH : BInvH c s) (h : BInvP c s) (t : _)
    (st : bstep c s (.bDec t) = some s') : BInvP c s' := by
  bp_own

theorem binvp_bLdCnt (c : Cfg) {s s' : BState} (hH : BInvH c s) (h : BInvP c s) (t : _)
    (st : bstep c s (.bLdCnt t) = some s') : BInvP c s' := by
  bp_own

theorem binvp_bWaitLd (c : Cfg) {s s' : BState} (hH : BInvH c s) (h : BInvP c s) (t : _)
    (st : bstep c s (.bWaitLd t) = some s') : BInvP c s' := by
  bp_own

theorem binvp_bWaitFx (c : Cfg) {s s' : BState} (hH : BInvH c s) (h : BInvP c s) (t o : _)
    (st : bstep c s (.bWaitFx t o) = some s') : BInvP c s' := by
  bp_own

theorem binvp_bSpurious (c : Cfg) {s s' : BState} (hH : BInvH c s) (h : BInvP c s) (t : _)
    (st : bstep c s (.bSpurious t) = some s') : BInvP c s' := by
  bp_own

theorem binvp_bPut (c : Cfg) {s s' : BState} (hH : BInvH c s) (h : BInvP c s) (t : _)
    (st : bstep c s (.bPut t) = some s') : BInvP c s' := by
  bp_own

theorem binvp_mSub (c : Cfg) {s s' : BState} (hH : BInvH c s) (h : BInvP c s) (x : _)
    (st : bstep c s (.mSub x) = some s') : BInvP c s' := by
  bp_own

theorem binvp_mLdFut (c : Cfg) {s s' : BState} (hH : BInvH c s) (h : BInvP c s) (x : _)
    (st : bstep c s (.mLdFut x) = some s') : BInvP c s' := by
  bp_own

theorem binvp_mStFut (c : Cfg) {s s' : BState} (hH : BInvH c s) (h : BInvP c s) (x : _)
    (st : bstep c s (.mStFut x) = some s') : BInvP c s' := by
  bp_own

theorem binvp_mWake (c : Cfg) {s s' : BState} (hH : BInvH c s) (h : BInvP c s) (x : _)
    (st : bstep c s (.mWake x) = some s') : BInvP c s' := by
  bp_own

theorem binvp_mPut (c : Cfg) {s s' : BState} (hH : BInvH c s) (h : BInvP c s) (x : _)
    (st : bstep c s (.mPut x) = some s') : BInvP c s' := by
  bp_own

theorem binvp_step (c : Cfg) {s s' : BState} {l : BLabel} (hH : BInvH c s) (h : BInvP c s)
    (st : bstep c s l = some s') : BInvP c s' := by
  cases l with
  | base l =>
    cases l with
    | rlock t => exact binvp_base_rlock c hH h t st
    | runlock t => exact binvp_base_runlock c hH h t st
    | syncStart t => exact binvp_base_syncStart c hH h t st
    | syncEnd t => exact binvp_base_syncEnd c hH h t st
    | crCall t id => exact binvp_base_crCall c hH h t id st
    | crSelThr t => exact binvp_base_crSelThr c hH h t st
    | crSelCpu t cpu => exact binvp_base_crSelCpu c hH h t cpu st
    | crSelNoCpu t cpu => exact binvp_base_crSelNoCpu c hH h t cpu st
    | gdCall t => exact binvp_base_gdCall c hH h t st
    | gdLd t => exact binvp_base_gdLd c hH h t st
    | gdLock t => exact binvp_base_gdLock c hH h t st
    | gdCreate t => exact binvp_base_gdCreate c hH h t st
    | gdUnlock t => exact binvp_base_gdUnlock c hH h t st
    | enq t => exact binvp_base_enq c hH h t st
    | inc t => exact binvp_base_inc c hH h t st
    | ldFlags t => exact binvp_base_ldFlags c hH h t st
    | ldFutex t => exact binvp_base_ldFutex c hH h t st
    | stFutex t => exact binvp_base_stFutex c hH h t st
    | wake t => exact binvp_base_wake c hH h t st
    | crRet t => exact binvp_base_crRet c hH h t st
    | opCall t op => exact binvp_base_opCall c hH h t op st
    | opLock t => exact binvp_base_opLock c hH h t st
    | opDo t => exact binvp_base_opDo c hH h t st
    | opUnlock t => exact binvp_base_opUnlock c hH h t st
    | setThr t ho => exact binvp_base_setThr c hH h t ho st
    | fCall t h0 => exact binvp_base_fCall c hH h t h0 st
    | fLdFlags t => exact binvp_base_fLdFlags c hH h t st
    | fOrStop t => exact binvp_base_fOrStop c hH h t st
    | fSeeStopped t => exact binvp_base_fSeeStopped c hH h t st
    | fLock t => exact binvp_base_fLock c hH h t st
    | fChk t => exact binvp_base_fChk c hH h t st
    | fUnlock1 t => exact binvp_base_fUnlock1 c hH h t st
    | fLock2 t => exact binvp_base_fLock2 c hH h t st
    | fSplice t => exact binvp_base_fSplice c hH h t st
    | fAddQ t => exact binvp_base_fAddQ c hH h t st
    | fDel t => exact binvp_base_fDel c hH h t st
    | fJoin t => exact binvp_base_fJoin c hH h t st
    | fFree t => exact binvp_base_fFree c hH h t st
    | hStart x => exact binvp_base_hStart c hH h x st
    | hDec0 x => exact binvp_base_hDec0 c hH h x st
    | hTop x => exact binvp_base_hTop c hH h x st
    | hPause x => exact binvp_base_hPause c hH h x st
    | hUnpause x => exact binvp_base_hUnpause c hH h x st
    | hSplice x => exact binvp_base_hSplice c hH h x st
    | hGpEnd x => exact binvp_base_hGpEnd c hH h x st
    | hRunBegin x cb => exact binvp_base_hRunBegin c hH h x cb st
    | hRunEnd x => exact binvp_base_hRunEnd c hH h x st
    | hInvDone x => exact binvp_base_hInvDone c hH h x st
    | hSub x => exact binvp_base_hSub c hH h x st
    | hStopChk x => exact binvp_base_hStopChk c hH h x st
    | hEmptyChk x => exact binvp_base_hEmptyChk c hH h x st
    | hWaitLd x => exact binvp_base_hWaitLd c hH h x st
    | hWaitFx x o => exact binvp_base_hWaitFx c hH h x o st
    | hSpurious x => exact binvp_base_hSpurious c hH h x st
    | hPollW x => exact binvp_base_hPollW c hH h x st
    | hDec x => exact binvp_base_hDec c hH h x st
    | hPollN x => exact binvp_base_hPollN c hH h x st
    | hExitSt x => exact binvp_base_hExitSt c hH h x st
    | hExitOr x => exact binvp_base_hExitOr c hH h x st
    | extBegin t => simp [bstep, Label.isHook] at st
    | extEnd t => simp [bstep, Label.isHook] at st
    | extLock t => simp [bstep, Label.isHook] at st
    | extUnlock t => simp [bstep, Label.isHook] at st
    | extCall t id b h0 => simp [bstep, Label.isHook] at st
    | envPause x v => simp [bstep, Label.isHook] at st
  | bRefused t => exact binvp_bRefused c hH h t st
  | bCall t => exact binvp_bCall c hH h t st
  | bLock t => exact binvp_bLock c hH h t st
  | bInit t => exact binvp_bInit c hH h t st
  | bEnq t id h0 => exact binvp_bEnq c hH h t id h0 st
  | bUnlock t => exact binvp_bUnlock c hH h t st
  | bDec t => exact binvp_bDec c hH h t st
  | bLdCnt t => exact binvp_bLdCnt c hH h t st
  | bWaitLd t => exact binvp_bWaitLd c hH h t st
  | bWaitFx t o => exact binvp_bWaitFx c hH h t o st
  | bSpurious t => exact binvp_bSpurious c hH h t st
  | bPut t => exact binvp_bPut c hH h t st
  | mSub x => exact binvp_mSub c hH h x st
  | mLdFut x => exact binvp_mLdFut c hH h x st
  | mStFut x => exact binvp_mStFut c hH h x st
  | mWake x => exact binvp_mWake c hH h x st
  | mPut x => exact binvp_mPut c hH h x st

end UrcuVerif.CallRcu
