import UrcuVerif.CallRcu.Wake
/-! Inductive invariant of the TSO sleep / wake-up handshake of a call_rcu helper (helper lemmas;
statements in `Props/C03.lean`). -/
set_option linter.unusedSimpArgs false
set_option linter.unusedVariables false
namespace UrcuVerif.CallRcuWake
open UrcuVerif

/-- waker `i` has enqueued and has not yet tested the futex with a stale value: it will reset the
futex and call `FUTEX_WAKE` -/
def willWake (s : State) (i : Nat) : Prop :=
  s.kpc i = .kmb ∨ (s.kpc i = .k2 ∧ s.r i = -1) ∨ (s.kpc i = .k3 ∧ s.bfut i = true)

def HPc.waiting : HPc → Bool
  | .waitLd => true | .waitFx => true | .asleep => true
  | .dec => false | .take => false | .chk => false

structure Inv (c : Cfg) (s : State) : Prop where
  fut_range : s.futex = 0 ∨ s.futex = -1
  dec_zero : s.hpc = .dec → s.futex = 0
  bfut_k3 : ∀ i, s.bfut i = true → s.kpc i = .k3
  kpc_bound : ∀ i, s.kpc i ≠ .k0 → i < c.n
  r_range : ∀ i, s.r i = 0 ∨ s.r i = -1
  asleep_m1 : s.hpc.waiting = true → s.futex = -1 → s.q ≠ 0 → ∃ i, i < c.n ∧ willWake s i
  asleep_0 : s.hpc = .asleep → s.futex = 0 → ∃ i, i < c.n ∧ s.kpc i = .k3

theorem inv_init (c) (hc : c.decAfter = false) : Inv c (init c) := by
  constructor <;> simp [init, willWake, hc, HPc.waiting]

set_option hygiene false in
macro "wk_tac" : tactic => `(tactic| (
  obtain ⟨h1, h2, h3, h4, h5, h6, h7⟩ := h
  simp only [step] at st
  (repeat' split at st)
  all_goals (first | (simp at st; done) | skip)
  all_goals (simp only [Option.some.injEq] at st; subst st)
  all_goals (constructor <;> simp only [upd, willWake, hc] at * <;> grind [HPc.waiting])))

theorem inv_hDec (c : Cfg) (hc : c.decAfter = false) {s s' : State} (h : Inv c s)
    (st : step c s .hDec = some s') : Inv c s' := by wk_tac
theorem inv_hTake (c : Cfg) (hc : c.decAfter = false) {s s' : State} (h : Inv c s)
    (st : step c s .hTake = some s') : Inv c s' := by wk_tac
theorem inv_hChk (c : Cfg) (hc : c.decAfter = false) {s s' : State} (h : Inv c s)
    (st : step c s .hChk = some s') : Inv c s' := by wk_tac
theorem inv_hWaitLd (c : Cfg) (hc : c.decAfter = false) {s s' : State} (h : Inv c s)
    (st : step c s .hWaitLd = some s') : Inv c s' := by wk_tac
theorem inv_hWaitFx (c : Cfg) (hc : c.decAfter = false) {s s' : State} (h : Inv c s) (o : FOut)
    (st : step c s (.hWaitFx o) = some s') : Inv c s' := by wk_tac
theorem inv_hSpurious (c : Cfg) (hc : c.decAfter = false) {s s' : State} (h : Inv c s)
    (st : step c s .hSpurious = some s') : Inv c s' := by wk_tac
theorem inv_kEnq (c : Cfg) (hc : c.decAfter = false) {s s' : State} (h : Inv c s) (i : Nat)
    (st : step c s (.kEnq i) = some s') : Inv c s' := by wk_tac
theorem inv_kLd (c : Cfg) (hc : c.decAfter = false) {s s' : State} (h : Inv c s) (i : Nat)
    (st : step c s (.kLd i) = some s') : Inv c s' := by wk_tac
theorem inv_kSt (c : Cfg) (hc : c.decAfter = false) {s s' : State} (h : Inv c s) (i : Nat)
    (st : step c s (.kSt i) = some s') : Inv c s' := by wk_tac
theorem inv_kSkip (c : Cfg) (hc : c.decAfter = false) {s s' : State} (h : Inv c s) (i : Nat)
    (st : step c s (.kSkip i) = some s') : Inv c s' := by wk_tac
theorem inv_kWake (c : Cfg) (hc : c.decAfter = false) {s s' : State} (h : Inv c s) (i : Nat)
    (st : step c s (.kWake i) = some s') : Inv c s' := by wk_tac
theorem inv_flush (c : Cfg) (hc : c.decAfter = false) {s s' : State} (h : Inv c s) (i : Nat)
    (st : step c s (.flush i) = some s') : Inv c s' := by wk_tac

theorem inv_step (c : Cfg) (hc : c.decAfter = false) {s s' : State} {l : Label} (h : Inv c s)
    (st : step c s l = some s') : Inv c s' := by
  cases l with
  | hDec => exact inv_hDec c hc h st
  | hTake => exact inv_hTake c hc h st
  | hChk => exact inv_hChk c hc h st
  | hWaitLd => exact inv_hWaitLd c hc h st
  | hWaitFx o => exact inv_hWaitFx c hc h o st
  | hSpurious => exact inv_hSpurious c hc h st
  | kEnq i => exact inv_kEnq c hc h i st
  | kLd i => exact inv_kLd c hc h i st
  | kSt i => exact inv_kSt c hc h i st
  | kSkip i => exact inv_kSkip c hc h i st
  | kWake i => exact inv_kWake c hc h i st
  | flush i => exact inv_flush c hc h i st

theorem inv_reach (c : Cfg) (hc : c.decAfter = false) {s : State} (h : Reach c s) : Inv c s := by
  induction h with
  | init => exact inv_init c hc
  | step _ st ih => exact inv_step c hc ih st

end UrcuVerif.CallRcuWake
