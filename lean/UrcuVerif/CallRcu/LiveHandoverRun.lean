import UrcuVerif.CallRcu.LiveHandover2
import UrcuVerif.CallRcu.LiveCallRun
/-! Run-level lemmas for the end-to-end liveness of `call_rcu()` (`Props/LiveC03E2E.lean`): a queued callback is spliced
out by its helper or handed over to the default helper when its helper is destroyed. -/
set_option linter.unusedSimpArgs false
set_option linter.unusedVariables false
namespace UrcuVerif.CallRcu
open UrcuVerif UrcuVerif.Fair

/-- **a queued callback is eventually spliced out by its helper, or the helper exits** (STOP allowed; not paused). -/
theorem queued_spliced_or_exiting (c : Cfg) {ρ : Nat → State} {ℓ : Nat → Option Label} (hrun : IsRun (step c) ρ ℓ)
    (hR : ∀ j, Reach c (ρ j)) (x : Nat)
    (hfairH : WeakFair (step c) ρ ℓ (hOwn x))
    (hfairW : ∀ t, WeakFair (step c) ρ ℓ (fun l => l ∈ wakeLabels t))
    (hsec : ∀ t j, 0 < (ρ j).nest t → ∃ j', j ≤ j' ∧ (ρ j').nest t = 0)
    (hcb : ∀ j, (ρ j).hpc x = .run → ∃ j', j ≤ j' ∧ (ρ j').hpc x ≠ .run)
    (hpause : ∀ j, (ρ j).pause x = false) :
    ∀ id i, id ∈ (ρ i).queue x →
      ∃ j, i ≤ j ∧ (id ∈ (ρ j).batch x ∨ (((ρ j).hpc x).exiting = true ∧ id ∈ (ρ j).queue x)) := by
  intro id i hq
  apply Classical.byContradiction
  intro hno
  have hA : ∀ j, InvA c (ρ j) := fun j => (inv_reach c (hR j)).1
  -- neither spliced nor exiting, ever: then `id` stays in the queue
  have hnb : ∀ j, i ≤ j → ¬ id ∈ (ρ j).batch x := fun j hj h => hno ⟨j, hj, Or.inl h⟩
  have hQE : ∀ j, i ≤ j → id ∈ (ρ j).queue x ∧ ((ρ j).hpc x).exiting = false := by
    intro j hj
    induction j with
    | zero =>
      have : i = 0 := by omega
      subst this
      refine ⟨hq, ?_⟩
      cases he : ((ρ 0).hpc x).exiting with
      | false => rfl
      | true => exact absurd ⟨0, Nat.le_refl 0, Or.inr ⟨he, hq⟩⟩ hno
    | succ n ih =>
      have hqn : id ∈ (ρ (n + 1)).queue x := by
        by_cases h : i = n + 1
        · subst h; exact hq
        · have ihn := ih (by omega)
          cases hl : ℓ n with
          | none => rw [hrun.idle n hl]; exact ihn.1
          | some l =>
            obtain ⟨-, -, D, -, -, -⟩ := inv_reach_d c (hR n)
            rcases queue_unless' c D x id ihn.2 ihn.1 (hrun.move n l hl) with h1 | h1
            · exact h1
            · exact absurd h1 (hnb (n + 1) hj)
      refine ⟨hqn, ?_⟩
      cases he : ((ρ (n + 1)).hpc x).exiting with
      | false => rfl
      | true => exact absurd ⟨n + 1, hj, Or.inr ⟨he, hqn⟩⟩ hno
  have hQ : ∀ j, i ≤ j → id ∈ (ρ j).queue x := fun j hj => (hQE j hj).1
  let Inv' : State → Prop := fun s => Reach c s ∧ (s.hpc x).exiting = false ∧ s.pause x = false ∧ id ∈ s.queue x
  have hinv' : ∀ j, i ≤ j → Inv' (ρ j) := fun j hj => ⟨hR j, (hQE j hj).2, hpause j, hQ j hj⟩
  -- from the linear part of the loop the helper's own steps lead to the splice
  have L_lin : ∀ k, i ≤ k → ((ρ k).hpc x).lin = true → False := by
    intro k hk hl
    obtain ⟨j, hj, hb⟩ := fair_measure_leadsTo_from hrun (hOwn x) Inv' (fun s => (s.hpc x).lin = true)
      (fun s => id ∈ s.batch x ∨ (s.hpc x).exiting = true) (fun s => linRank (s.hpc x)) i hinv' hfairH
      (fun s l s' I hp _ st => by
        by_cases ho : hOwn x l
        · rcases lin_own' c x id hp I.2.2.1 I.2.2.2 ho st with h | h | h
          · exact Or.inr (Or.inl h)
          · exact Or.inr (Or.inr h)
          · exact Or.inl h.1
        · exact Or.inl (by rw [lin_frame c (inv_reach c I.1).1 x hp ho st]; exact hp))
      (fun s I hp _ => lin_enabled c x hp I.2.2.1)
      (fun s l s' I hp _ ho st => by
        rcases lin_own' c x id hp I.2.2.1 I.2.2.2 ho st with h | h | h
        · exact Or.inr (Or.inl h)
        · exact Or.inr (Or.inr h)
        · exact Or.inl h.2)
      (fun s l s' I hp _ ho st => Or.inl (by rw [lin_frame c (inv_reach c I.1).1 x hp ho st]; exact Nat.le_refl _))
      k hk hl
    rcases hb with hb | hb
    · exact hnb j (by omega) hb
    · rw [(hQE j (by omega)).2] at hb; cases hb
  have L_wl0 : ∀ k, i ≤ k → ((ρ k).hpc x).wl = true → (ρ k).futex x = 0 → False := by
    intro k hk hw h0
    obtain ⟨j, hj, hb⟩ := fair_measure_leadsTo_from hrun (hOwn x) Inv' (fun s => (s.hpc x).wl = true ∧ s.futex x = 0)
      (fun s => s.hpc x = .pollW) (fun s => wlRankH (s.hpc x)) i hinv' hfairH
      (fun s l s' I hp _ st => by
        rcases wl0_step c (inv_reach c I.1).1 x hp.1 hp.2 st with h | h
        · exact Or.inr h
        · exact Or.inl ⟨h.1, h.2.1⟩)
      (fun s I hp _ => wl0_enabled c x hp.1)
      (fun s l s' I hp _ ho st => by
        rcases wl0_step c (inv_reach c I.1).1 x hp.1 hp.2 st with h | h
        · exact Or.inr h
        · exact Or.inl (h.2.2.1 ho))
      (fun s l s' I hp _ ho st => by
        rcases wl0_step c (inv_reach c I.1).1 x hp.1 hp.2 st with h | h
        · exact Or.inr h
        · exact Or.inl (h.2.2.2 ho))
      k hk ⟨hw, h0⟩
    exact L_lin j (by omega) (by rw [hb]; rfl)
  have L_B : ∀ t k, i ≤ k → ((ρ k).tpc t).waking = some x → (ρ k).hpc x = .asleep → (ρ k).futex x = 0 → False := by
    intro t k hk hw hs h0
    obtain ⟨j, hj, hb⟩ := fair_measure_leadsTo_from hrun (fun l => l ∈ wakeLabels t) Inv'
      (fun s => (s.tpc t).waking = some x ∧ s.hpc x = .asleep ∧ s.futex x = 0)
      (fun s => ((s.hpc x).wl = true ∧ s.futex x = 0) ∨ s.hpc x = .pollW) (fun s => wakeRank (s.tpc t)) i hinv' (hfairW t)
      (fun s l s' I hp _ st => by
        obtain ⟨h1, h2, h3⟩ := hp
        by_cases hl : l ∈ wakeLabels t
        · have := waking_own' c t x h1 h2 hl st
          exact Or.inr (Or.inl ⟨by rw [this.1]; rfl, by rw [this.2]; exact h3⟩)
        · have hcs := cluster_step_h c (inv_reach c I.1).1 x (by rw [h2]; rfl) st
          have hf0 : s'.futex x = 0 := by rcases hcs.2 with h | h; rw [h, h3]; exact h
          rcases hcs.1 with hc | hc
          · rcases cluster_cases hc with ha | hw
            · exact Or.inl ⟨by rw [tpc_frame c t (waking_onWake h1) hl st]; exact h1, ha, hf0⟩
            · exact Or.inr (Or.inl ⟨hw, hf0⟩)
          · exact Or.inr (Or.inr hc.1))
      (fun s I hp _ => waker_not_stuck c t x (Or.inr hp.1))
      (fun s l s' I hp _ hl st => Or.inl (waker_measure c t hl st))
      (fun s l s' I hp _ hl st => Or.inl (by rw [tpc_frame c t (waking_onWake hp.1) hl st]; exact Nat.le_refl _))
      k hk ⟨hw, hs, h0⟩
    rcases hb with hb | hb
    · exact L_wl0 j (by omega) hb.1 hb.2
    · exact L_lin j (by omega) (by rw [hb]; rfl)
  have fromC0 : ∀ k, i ≤ k → ((ρ k).hpc x).cluster = true → (ρ k).futex x = 0 → False := by
    intro k hk hc h0
    rcases cluster_cases hc with ha | hw
    · obtain ⟨-, -, -, -, -, W⟩ := inv_reach_d c (hR k)
      obtain ⟨t, ht⟩ := W.w_0 x ha h0
      exact L_B t k hk ht ha h0
    · exact L_wl0 k hk hw h0
  have L_A : ∀ t k, i ≤ k → willWake (ρ k) t x → ((ρ k).hpc x).cluster = true → (ρ k).futex x = -1 → False := by
    intro t k hk hw hc h1
    obtain ⟨j, hj, hb⟩ := fair_measure_leadsTo_from hrun (fun l => l ∈ wakeLabels t) Inv'
      (fun s => willWake s t x ∧ (s.hpc x).cluster = true ∧ s.futex x = -1)
      (fun s => (s.hpc x).cluster = true ∧ s.futex x = 0) (fun s => wakeRank (s.tpc t)) i hinv' (hfairW t)
      (fun s l s' I hp _ st => by
        obtain ⟨h1, h2, h3⟩ := hp
        obtain ⟨-, -, D, -, -, W⟩ := inv_reach_d c I.1
        have hcs := cluster_step_h c (inv_reach c I.1).1 x h2 st
        have hc' : (s'.hpc x).cluster = true := by
          rcases hcs.1 with h | h
          · exact h
          · exact absurd h3 h.2
        rcases hcs.2 with hf | hf
        · have hw' : willWake s' t x := by
            by_cases hl : l ∈ wakeLabels t
            · rcases willWake_own c W t x h1 h3 hl st with h | h
              · exact h
              · rw [hf] at h; exact absurd h3 h
            · exact willWake_frame c D t x h1 hl st
          exact Or.inl ⟨hw', hc', by rw [hf]; exact h3⟩
        · exact Or.inr ⟨hc', hf⟩)
      (fun s I hp _ => waker_not_stuck c t x (Or.inl hp.1))
      (fun s l s' I hp _ hl st => Or.inl (waker_measure c t hl st))
      (fun s l s' I hp _ hl st => Or.inl (by rw [tpc_frame c t (willWake_onWake hp.1) hl st]; exact Nat.le_refl _))
      k hk ⟨hw, hc, h1⟩
    exact fromC0 j (by omega) hb.1 hb.2
  -- where is the helper now?
  have hne : (ρ i).queue x ≠ [] := by intro h; rw [h] at hq; simp at hq
  have hxlt : x < (ρ i).nextH := by
    apply Classical.byContradiction
    intro h
    exact hne ((hA i).fresh x (by omega)).2.1
  have hnn : (ρ i).hpc x ≠ .none := invN_reach c (hR i) x hxlt
  have hnex : ((ρ i).hpc x).exiting = false := (hQE i (Nat.le_refl i)).2
  by_cases hbz : ((ρ i).hpc x).busy = true
  · obtain ⟨j, hj, hs⟩ := batch_eventually_done c hrun hR x hfairH hsec hcb i hbz
    exact L_lin j hj (by rw [hs]; rfl)
  · by_cases hl : ((ρ i).hpc x).lin = true
    · exact L_lin i (Nat.le_refl i) hl
    · have hc : ((ρ i).hpc x).cluster = true := by
        cases hp : (ρ i).hpc x <;> simp_all [HPc.busy, HPc.lin, HPc.cluster, HPc.exiting]
      obtain ⟨-, -, -, -, -, W⟩ := inv_reach_d c (hR i)
      rcases W.w_range x with h0 | h1
      · exact fromC0 i (Nat.le_refl i) hc h0
      · obtain ⟨t, ht⟩ := W.w_m1 x (by cases hp : (ρ i).hpc x <;> simp_all [HPc.cluster, HPc.waitRegion]) h1
          (Or.inr ⟨(by intro h; rw [h] at hc; cases hc), hne⟩)
        exact L_A t i (Nat.le_refl i) ht hc h1

/-- **an exiting helper dies** (`exitSt → exitOr → dead`, STOPPED set), its leftovers stay in its queue -/
theorem exiting_eventually_dead (c : Cfg) {ρ : Nat → State} {ℓ : Nat → Option Label} (hrun : IsRun (step c) ρ ℓ)
    (hR : ∀ j, Reach c (ρ j)) (x : Nat) (hfairH : WeakFair (step c) ρ ℓ (hOwn x)) :
    ∀ id i, ((ρ i).hpc x).exiting = true → id ∈ (ρ i).queue x → ∃ j, i ≤ j ∧ DQ (ρ j) x id := by
  intro id i he hq
  have key := fair_measure_leadsTo_from hrun (hOwn x) (Reach c)
    (fun s => (s.hpc x).exiting = true ∧ id ∈ s.queue x) (fun s => s.hpc x = .dead ∧ id ∈ s.queue x)
    (fun s => exitRank (s.hpc x)) 0 (fun j _ => hR j) hfairH
    (fun s l s' R p g st => by
      obtain ⟨A, -, D, -, -, -⟩ := inv_reach_d c R
      have hnd : s.hpc x ≠ .dead := fun h => g ⟨h, p.2⟩
      have := exit_step c A D x id p.1 hnd p.2 st
      exact Or.inl ⟨this.1, this.2.1⟩)
    (fun s R p g => exit_enabled c x p.1 (fun h => g ⟨h, p.2⟩))
    (fun s l s' R p g ho st => by
      obtain ⟨A, -, D, -, -, -⟩ := inv_reach_d c R
      exact Or.inl ((exit_step c A D x id p.1 (fun h => g ⟨h, p.2⟩) p.2 st).2.2.1 ho))
    (fun s l s' R p g ho st => by
      obtain ⟨A, -, D, -, -, -⟩ := inv_reach_d c R
      exact Or.inl (by rw [(exit_step c A D x id p.1 (fun h => g ⟨h, p.2⟩) p.2 st).2.2.2 ho]; exact Nat.le_refl _))
    i (Nat.zero_le i) ⟨he, hq⟩
  obtain ⟨j, hj, hd, hqj⟩ := key
  exact ⟨j, hj, hd, invDS_reach c (hR j) x hd, hqj⟩

/-- **the leftovers of a dead helper are handed over**: the thread that destroys the helper (it exists: `InvS`) reaches
the splice onto the default helper – taking `call_rcu_mutex` twice and creating the default helper if need be. -/
theorem leftover_eventually_handed_over (c : Cfg) {ρ : Nat → State} {ℓ : Nat → Option Label} (hrun : IsRun (step c) ρ ℓ)
    (hR : ∀ j, Reach c (ρ j)) (hQ : ∀ j, InvQ (ρ j))
    (hthreads : ∀ t, StrongFair (step c) ρ ℓ (tLabel t)) (hfree : ∀ j, ∃ j', j ≤ j' ∧ (ρ j').mutex = none) :
    ∀ x id i, DQ (ρ i) x id → ∃ j, i ≤ j ∧ onDflt (ρ j) id := by
  intro x id i hd
  -- the destroyer
  have hstop : (ρ i).stop x = true := invX_reach c (hR i) x (by rw [hd.1]; rfl)
  have hnr : (ρ i).retired x = false := by
    cases hr : (ρ i).retired x with
    | false => rfl
    | true =>
      have := (retired_empty c (hR i) x hr).1
      have h3 := hd.2.2; rw [this] at h3; simp at h3
  obtain ⟨t, ht⟩ := invS_reach c (hR i) x hstop hnr
  refine thread_progress c hrun t (hthreads t) hfree (fun s => Reach c s ∧ InvQ s)
    (fun s => (s.tpc t).early = some x ∧ DQ s x id) (fun s => onDflt s id) (fun s => freeRank (s.tpc t)) 0
    (fun j _ => ⟨hR j, hQ j⟩) ?_ ?_ ?_ i (Nat.zero_le i) ⟨ht, hd⟩
  · intro s l s' I p _ hl st
    rcases free_own c (inv_reach c I.1).1 t x id p.1 p.2 hl st with h | h
    · exact Or.inr h
    · exact Or.inl ⟨⟨h.1, h.2.2⟩, h.2.1⟩
  · intro s l s' I p _ hl st
    obtain ⟨A, -, D, -, -, -⟩ := inv_reach_d c I.1
    have := free_frame c A D t x id p.1 p.2 hl st
    exact Or.inl ⟨⟨by rw [this.1]; exact p.1, this.2⟩, by rw [this.1]; exact Nat.le_refl _, this.1⟩
  · intro s I p _ hw
    obtain ⟨-, -, D, E, -, -⟩ := inv_reach_d c I.1
    exact free_enabled c D E I.2 t x id p.1 p.2 hw

end UrcuVerif.CallRcu
