import UrcuVerif.CallRcu.Inv
/-!
# C03 — destruction of helpers: the protocol of `call_rcu_data_free()` (helper lemmas; statements in
`Props/C03.lean`)

`InvD`: at most one thread destroys a given helper; it goes through the stages
0 (STOP requested, waiting for STOPPED) → 1 (STOPPED seen; leftovers not yet dealt with) →
2 (queue found empty / leftovers spliced onto the default helper, `call_rcu_mutex` still held) →
3 (removed from `call_rcu_data_list`, joining, `free`).  `retired` (nothing may be enqueued any more) is
set only at 1 → 2, only after the helper's thread has set STOPPED (its last access to the structure
is that store), and `freed` only after the removal from the list.  While a retired helper is still in
the list the destroyer holds the mutex (so `rcu_barrier()`, which enqueues on the helpers of the list
under the mutex, never sees it).  Threads of helpers only act while their helper executes a callback.
-/
set_option linter.unusedVariables false
set_option linter.unusedSimpArgs false
namespace UrcuVerif.CallRcu

/-- destruction stage promised by a continuation of `_call_rcu()` / the wake path on helper `h` -/
def K.fr (k : K) (h : Nat) : Option (Nat × Nat) :=
  match k with
  | .user => none | .ext => none | .fstop => some (h, 0) | .fdflt h0 => some (h0, 2)

def GK.fr : GK → Option (Nat × Nat)
  | .free h => some (h, 1) | .call _ => none | .ret => none

/-- thread inside `call_rcu_data_free(h)`: `some (h, stage)` -/
def TPc.freeing : TPc → Option (Nat × Nat)
  | .fLdFlags h => some (h, 0) | .fOrStop h => some (h, 0) | .fWaitStopped h => some (h, 0)
  | .enq _ h k => k.fr h | .inc h k => k.fr h | .ldFlags h k => k.fr h | .ldFutex h k => k.fr h
  | .stFutex h k => k.fr h | .wake h k => k.fr h
  | .fLock h => some (h, 1) | .fChk h => some (h, 1) | .fUnlock1 h => some (h, 1) | .fLock2 h => some (h, 1)
  | .fSplice h => some (h, 1)
  | .gdLd k => k.fr | .gdLock k => k.fr | .gdCreate k => k.fr | .gdUnlock k => k.fr
  | .fAddQ h => some (h, 2) | .fDel h => some (h, 2)
  | .fJoin h => some (h, 3) | .fFree h => some (h, 3)
  | .idle => none | .ext => none | .sync => none | .sel _ => none | .crRet => none
  | .opLock _ => none | .opDo _ => none | .opUnlock _ => none

def K.holds : K → Bool
  | .user => false | .ext => true | .fstop => false | .fdflt _ => true

/-- program points at which the thread holds `call_rcu_mutex` -/
def TPc.holds : TPc → Bool
  | .gdCreate _ => true | .gdUnlock _ => true | .opDo _ => true | .opUnlock _ => true | .fChk _ => true
  | .fUnlock1 _ => true | .fSplice _ => true | .fAddQ _ => true | .fDel _ => true
  | .enq _ _ k => k.holds | .inc _ k => k.holds | .ldFlags _ k => k.holds | .ldFutex _ k => k.holds
  | .stFutex _ k => k.holds | .wake _ k => k.holds
  | .idle => false | .ext => false | .sync => false | .sel _ => false | .crRet => false
  | .gdLd _ => false | .gdLock _ => false | .opLock _ => false
  | .fLdFlags _ => false | .fOrStop _ => false | .fWaitStopped _ => false | .fLock _ => false | .fLock2 _ => false
  | .fJoin _ => false | .fFree _ => false

/-- what being at stage `g` of the destruction of `h` promises -/
def FOk (s : State) (t h g : Nat) : Prop :=
  s.retiring h = true ∧ s.freed h = false ∧ (g ≤ 1 → s.retired h = false) ∧ (2 ≤ g → s.retired h = true) ∧ (1 ≤ g → s.stopped h = true) ∧
  (g ≤ 2 → h ∈ s.list) ∧ (g = 3 → h ∉ s.list)

structure InvD (c : Cfg) (s : State) : Prop where
  ring_lt : ∀ h, s.retiring h = true → h < s.nextH
  f_ok : ∀ t h g, (s.tpc t).freeing = some (h, g) → FOk s t h g
  f_uniq : ∀ t1 t2 h g1 g2, (s.tpc t1).freeing = some (h, g1) → (s.tpc t2).freeing = some (h, g2) → t1 = t2
  red_ring : ∀ h, s.retired h = true → s.retiring h = true ∧ s.stopped h = true
  freed_red : ∀ h, s.freed h = true → s.retired h = true ∧ h ∉ s.list
  red_lock : ∀ h, s.retired h = true → h ∈ s.list → s.mutex ≠ none
  red_owner : ∀ h t, s.retired h = true → h ∈ s.list → s.mutex = some t → (s.tpc t).freeing = some (h, 2)
  list_nd : s.list.Nodup
  stopped_dead : ∀ h, s.stopped h = true → s.hpc h = .dead
  hthr_run : ∀ t, c.n ≤ t → s.tpc t ≠ .idle → s.hpc (t - c.n) = .run
  holds_mutex : ∀ t, (s.tpc t).holds = true → s.mutex = some t
  ext_list : ∀ t h k, (s.tpc t).tgt = some (h, k) → k = .ext → h ∈ s.list
  live_list : ∀ h, h < s.nextH → s.retiring h = false → h ∈ s.list

theorem cont_freeing (k : K) (h : Nat) : (k.cont h).freeing = k.fr h := by cases k <;> rfl
theorem cont_holds (k : K) (h : Nat) : (k.cont h).holds = true → k.holds = true := by cases k <;> simp [K.cont, TPc.holds, K.holds]
theorem cont_tgt (k : K) (h : Nat) : (k.cont h).tgt = none := by cases k <;> rfl
theorem cont_ne_idle (k : K) (h : Nat) : k.cont h ≠ .idle := by cases k <;> simp [K.cont]

theorem tgt_holds {p : TPc} {h : Nat} {k : K} (e : p.tgt = some (h, k)) : p.holds = k.holds := by
  cases p <;> simp [TPc.tgt] at e <;> obtain ⟨rfl, rfl⟩ := e <;> rfl
theorem tgt_freeing {p : TPc} {h : Nat} {k : K} (e : p.tgt = some (h, k)) : p.freeing = k.fr h := by
  cases p <;> simp [TPc.tgt] at e <;> obtain ⟨rfl, rfl⟩ := e <;> rfl

theorem invD_init (c) : InvD c init := by
  constructor <;> simp [init, TPc.freeing, TPc.holds, TPc.tgt, FOk]

theorem mem_erase_nd {l : List Nat} {a b : Nat} (h : l.Nodup) : a ∈ l.erase b ↔ a ≠ b ∧ a ∈ l := h.mem_erase_iff
theorem nd_erase {l : List Nat} (b : Nat) (h : l.Nodup) : (l.erase b).Nodup := h.erase b

set_option hygiene false in
macro "d_tac" : tactic => `(tactic| (
  have a11 := hA.fresh
  have a15 := hA.list_lt
  have a5 := hA.tpc_ok
  clear hA
  obtain ⟨h1, h2, h3, h4, h5, h6, h7, h8, h9, h10, h11, h12, h13⟩ := h
  simp only [step] at st
  (repeat' split at st)
  all_goals (first | (simp at st; done) | skip)
  all_goals (simp only [Option.some.injEq] at st; subst st)
  all_goals (constructor <;> first | assumption | (simp only [upd, lockS, unlockS, newHelper, relocate, nestOn, csOn, nestOff, FreeObl, userCtx, nthr, cont_freeing, cont_tgt] at * <;>
    grind [upd, TOk, FOk, TPc.freeing, TPc.holds, TPc.tgt, K.fr, GK.fr, K.holds, mem_erase_nd, nd_erase, cont_freeing, cont_tgt, cont_ne_idle, → cont_holds, → tgt_holds]))))

theorem invd_rlock (c : Cfg) {s s' : State} (hA : InvA c s) (h : InvD c s) (t : _)
    (st : step c s (.rlock t) = some s') : InvD c s' := by
  d_tac

theorem invd_runlock (c : Cfg) {s s' : State} (hA : InvA c s) (h : InvD c s) (t : _)
    (st : step c s (.runlock t) = some s') : InvD c s' := by
  d_tac

theorem invd_syncStart (c : Cfg) {s s' : State} (hA : InvA c s) (h : InvD c s) (t : _)
    (st : step c s (.syncStart t) = some s') : InvD c s' := by
  d_tac

theorem invd_syncEnd (c : Cfg) {s s' : State} (hA : InvA c s) (h : InvD c s) (t : _)
    (st : step c s (.syncEnd t) = some s') : InvD c s' := by
  d_tac

theorem invd_crCall (c : Cfg) {s s' : State} (hA : InvA c s) (h : InvD c s) (t id : _)
    (st : step c s (.crCall t id) = some s') : InvD c s' := by
  d_tac

theorem invd_crSelThr (c : Cfg) {s s' : State} (hA : InvA c s) (h : InvD c s) (t : _)
    (st : step c s (.crSelThr t) = some s') : InvD c s' := by
  d_tac

theorem invd_crSelCpu (c : Cfg) {s s' : State} (hA : InvA c s) (h : InvD c s) (t cpu : _)
    (st : step c s (.crSelCpu t cpu) = some s') : InvD c s' := by
  d_tac

theorem invd_crSelNoCpu (c : Cfg) {s s' : State} (hA : InvA c s) (h : InvD c s) (t cpu : _)
    (st : step c s (.crSelNoCpu t cpu) = some s') : InvD c s' := by
  d_tac

theorem invd_gdCall (c : Cfg) {s s' : State} (hA : InvA c s) (h : InvD c s) (t : _)
    (st : step c s (.gdCall t) = some s') : InvD c s' := by
  d_tac

theorem invd_gdLd (c : Cfg) {s s' : State} (hA : InvA c s) (h : InvD c s) (t : _)
    (st : step c s (.gdLd t) = some s') : InvD c s' := by
  d_tac

theorem invd_gdLock (c : Cfg) {s s' : State} (hA : InvA c s) (h : InvD c s) (t : _)
    (st : step c s (.gdLock t) = some s') : InvD c s' := by
  d_tac

theorem invd_gdCreate (c : Cfg) {s s' : State} (hA : InvA c s) (h : InvD c s) (t : _)
    (st : step c s (.gdCreate t) = some s') : InvD c s' := by
  d_tac

theorem invd_gdUnlock (c : Cfg) {s s' : State} (hA : InvA c s) (h : InvD c s) (t : _)
    (st : step c s (.gdUnlock t) = some s') : InvD c s' := by
  d_tac

theorem invd_enq (c : Cfg) {s s' : State} (hA : InvA c s) (h : InvD c s) (t : _)
    (st : step c s (.enq t) = some s') : InvD c s' := by
  d_tac

theorem invd_inc (c : Cfg) {s s' : State} (hA : InvA c s) (h : InvD c s) (t : _)
    (st : step c s (.inc t) = some s') : InvD c s' := by
  d_tac

theorem invd_ldFlags (c : Cfg) {s s' : State} (hA : InvA c s) (h : InvD c s) (t : _)
    (st : step c s (.ldFlags t) = some s') : InvD c s' := by
  d_tac

theorem invd_ldFutex (c : Cfg) {s s' : State} (hA : InvA c s) (h : InvD c s) (t : _)
    (st : step c s (.ldFutex t) = some s') : InvD c s' := by
  d_tac

theorem invd_stFutex (c : Cfg) {s s' : State} (hA : InvA c s) (h : InvD c s) (t : _)
    (st : step c s (.stFutex t) = some s') : InvD c s' := by
  d_tac

theorem invd_wake (c : Cfg) {s s' : State} (hA : InvA c s) (h : InvD c s) (t : _)
    (st : step c s (.wake t) = some s') : InvD c s' := by
  d_tac

theorem invd_crRet (c : Cfg) {s s' : State} (hA : InvA c s) (h : InvD c s) (t : _)
    (st : step c s (.crRet t) = some s') : InvD c s' := by
  d_tac

theorem invd_opCall (c : Cfg) {s s' : State} (hA : InvA c s) (h : InvD c s) (t op : _)
    (st : step c s (.opCall t op) = some s') : InvD c s' := by
  d_tac

theorem invd_opLock (c : Cfg) {s s' : State} (hA : InvA c s) (h : InvD c s) (t : _)
    (st : step c s (.opLock t) = some s') : InvD c s' := by
  d_tac

set_option maxHeartbeats 1600000 in
theorem invd_opDo (c : Cfg) {s s' : State} (hA : InvA c s) (h : InvD c s) (t : _)
    (st : step c s (.opDo t) = some s') : InvD c s' := by
  d_tac

theorem invd_opUnlock (c : Cfg) {s s' : State} (hA : InvA c s) (h : InvD c s) (t : _)
    (st : step c s (.opUnlock t) = some s') : InvD c s' := by
  d_tac

theorem invd_setThr (c : Cfg) {s s' : State} (hA : InvA c s) (h : InvD c s) (t ho : _)
    (st : step c s (.setThr t ho) = some s') : InvD c s' := by
  d_tac

theorem invd_fCall (c : Cfg) {s s' : State} (hA : InvA c s) (h : InvD c s) (t h0 : _)
    (st : step c s (.fCall t h0) = some s') : InvD c s' := by
  d_tac

theorem invd_fLdFlags (c : Cfg) {s s' : State} (hA : InvA c s) (h : InvD c s) (t : _)
    (st : step c s (.fLdFlags t) = some s') : InvD c s' := by
  d_tac

theorem invd_fOrStop (c : Cfg) {s s' : State} (hA : InvA c s) (h : InvD c s) (t : _)
    (st : step c s (.fOrStop t) = some s') : InvD c s' := by
  d_tac

theorem invd_fSeeStopped (c : Cfg) {s s' : State} (hA : InvA c s) (h : InvD c s) (t : _)
    (st : step c s (.fSeeStopped t) = some s') : InvD c s' := by
  d_tac

theorem invd_fLock (c : Cfg) {s s' : State} (hA : InvA c s) (h : InvD c s) (t : _)
    (st : step c s (.fLock t) = some s') : InvD c s' := by
  d_tac

theorem invd_fChk (c : Cfg) {s s' : State} (hA : InvA c s) (h : InvD c s) (t : _)
    (st : step c s (.fChk t) = some s') : InvD c s' := by
  d_tac

theorem invd_fUnlock1 (c : Cfg) {s s' : State} (hA : InvA c s) (h : InvD c s) (t : _)
    (st : step c s (.fUnlock1 t) = some s') : InvD c s' := by
  d_tac

theorem invd_fLock2 (c : Cfg) {s s' : State} (hA : InvA c s) (h : InvD c s) (t : _)
    (st : step c s (.fLock2 t) = some s') : InvD c s' := by
  d_tac

theorem invd_fSplice (c : Cfg) {s s' : State} (hA : InvA c s) (h : InvD c s) (t : _)
    (st : step c s (.fSplice t) = some s') : InvD c s' := by
  d_tac

theorem invd_fAddQ (c : Cfg) {s s' : State} (hA : InvA c s) (h : InvD c s) (t : _)
    (st : step c s (.fAddQ t) = some s') : InvD c s' := by
  d_tac

theorem invd_fDel (c : Cfg) {s s' : State} (hA : InvA c s) (h : InvD c s) (t : _)
    (st : step c s (.fDel t) = some s') : InvD c s' := by
  d_tac

theorem invd_fJoin (c : Cfg) {s s' : State} (hA : InvA c s) (h : InvD c s) (t : _)
    (st : step c s (.fJoin t) = some s') : InvD c s' := by
  d_tac

theorem invd_fFree (c : Cfg) {s s' : State} (hA : InvA c s) (h : InvD c s) (t : _)
    (st : step c s (.fFree t) = some s') : InvD c s' := by
  d_tac

theorem invd_hStart (c : Cfg) {s s' : State} (hA : InvA c s) (h : InvD c s) (x : _)
    (st : step c s (.hStart x) = some s') : InvD c s' := by
  d_tac

theorem invd_hDec0 (c : Cfg) {s s' : State} (hA : InvA c s) (h : InvD c s) (x : _)
    (st : step c s (.hDec0 x) = some s') : InvD c s' := by
  d_tac

theorem invd_hTop (c : Cfg) {s s' : State} (hA : InvA c s) (h : InvD c s) (x : _)
    (st : step c s (.hTop x) = some s') : InvD c s' := by
  d_tac

theorem invd_hPause (c : Cfg) {s s' : State} (hA : InvA c s) (h : InvD c s) (x : _)
    (st : step c s (.hPause x) = some s') : InvD c s' := by
  d_tac

theorem invd_hUnpause (c : Cfg) {s s' : State} (hA : InvA c s) (h : InvD c s) (x : _)
    (st : step c s (.hUnpause x) = some s') : InvD c s' := by
  d_tac

theorem invd_hSplice (c : Cfg) {s s' : State} (hA : InvA c s) (h : InvD c s) (x : _)
    (st : step c s (.hSplice x) = some s') : InvD c s' := by
  d_tac

theorem invd_hGpEnd (c : Cfg) {s s' : State} (hA : InvA c s) (h : InvD c s) (x : _)
    (st : step c s (.hGpEnd x) = some s') : InvD c s' := by
  d_tac

theorem invd_hRunBegin (c : Cfg) {s s' : State} (hA : InvA c s) (h : InvD c s) (x cb : _)
    (st : step c s (.hRunBegin x cb) = some s') : InvD c s' := by
  d_tac

theorem invd_hRunEnd (c : Cfg) {s s' : State} (hA : InvA c s) (h : InvD c s) (x : _)
    (st : step c s (.hRunEnd x) = some s') : InvD c s' := by
  d_tac

theorem invd_hInvDone (c : Cfg) {s s' : State} (hA : InvA c s) (h : InvD c s) (x : _)
    (st : step c s (.hInvDone x) = some s') : InvD c s' := by
  d_tac

theorem invd_hSub (c : Cfg) {s s' : State} (hA : InvA c s) (h : InvD c s) (x : _)
    (st : step c s (.hSub x) = some s') : InvD c s' := by
  d_tac

theorem invd_hStopChk (c : Cfg) {s s' : State} (hA : InvA c s) (h : InvD c s) (x : _)
    (st : step c s (.hStopChk x) = some s') : InvD c s' := by
  d_tac

theorem invd_hEmptyChk (c : Cfg) {s s' : State} (hA : InvA c s) (h : InvD c s) (x : _)
    (st : step c s (.hEmptyChk x) = some s') : InvD c s' := by
  d_tac

theorem invd_hWaitLd (c : Cfg) {s s' : State} (hA : InvA c s) (h : InvD c s) (x : _)
    (st : step c s (.hWaitLd x) = some s') : InvD c s' := by
  d_tac

theorem invd_hWaitFx (c : Cfg) {s s' : State} (hA : InvA c s) (h : InvD c s) (x o : _)
    (st : step c s (.hWaitFx x o) = some s') : InvD c s' := by
  d_tac

theorem invd_hSpurious (c : Cfg) {s s' : State} (hA : InvA c s) (h : InvD c s) (x : _)
    (st : step c s (.hSpurious x) = some s') : InvD c s' := by
  d_tac

theorem invd_hPollW (c : Cfg) {s s' : State} (hA : InvA c s) (h : InvD c s) (x : _)
    (st : step c s (.hPollW x) = some s') : InvD c s' := by
  d_tac

theorem invd_hDec (c : Cfg) {s s' : State} (hA : InvA c s) (h : InvD c s) (x : _)
    (st : step c s (.hDec x) = some s') : InvD c s' := by
  d_tac

theorem invd_hPollN (c : Cfg) {s s' : State} (hA : InvA c s) (h : InvD c s) (x : _)
    (st : step c s (.hPollN x) = some s') : InvD c s' := by
  d_tac

theorem invd_hExitSt (c : Cfg) {s s' : State} (hA : InvA c s) (h : InvD c s) (x : _)
    (st : step c s (.hExitSt x) = some s') : InvD c s' := by
  d_tac

theorem invd_hExitOr (c : Cfg) {s s' : State} (hA : InvA c s) (h : InvD c s) (x : _)
    (st : step c s (.hExitOr x) = some s') : InvD c s' := by
  d_tac

theorem invd_extBegin (c : Cfg) {s s' : State} (hA : InvA c s) (h : InvD c s) (t : _)
    (st : step c s (.extBegin t) = some s') : InvD c s' := by
  d_tac

theorem invd_extEnd (c : Cfg) {s s' : State} (hA : InvA c s) (h : InvD c s) (t : _)
    (st : step c s (.extEnd t) = some s') : InvD c s' := by
  d_tac

theorem invd_extLock (c : Cfg) {s s' : State} (hA : InvA c s) (h : InvD c s) (t : _)
    (st : step c s (.extLock t) = some s') : InvD c s' := by
  d_tac

theorem invd_extUnlock (c : Cfg) {s s' : State} (hA : InvA c s) (h : InvD c s) (t : _)
    (st : step c s (.extUnlock t) = some s') : InvD c s' := by
  d_tac

theorem invd_extCall (c : Cfg) {s s' : State} (hA : InvA c s) (h : InvD c s) (t id b h0 : _)
    (st : step c s (.extCall t id b h0) = some s') : InvD c s' := by
  d_tac

theorem invd_envPause (c : Cfg) {s s' : State} (hA : InvA c s) (h : InvD c s) (x v : _)
    (st : step c s (.envPause x v) = some s') : InvD c s' := by
  d_tac

theorem invd_step (c : Cfg) {s s' : State} {l : Label} (hA : InvA c s) (h : InvD c s)
    (st : step c s l = some s') : InvD c s' := by
  cases l with
  | rlock t => exact invd_rlock c hA h t st
  | runlock t => exact invd_runlock c hA h t st
  | syncStart t => exact invd_syncStart c hA h t st
  | syncEnd t => exact invd_syncEnd c hA h t st
  | crCall t id => exact invd_crCall c hA h t id st
  | crSelThr t => exact invd_crSelThr c hA h t st
  | crSelCpu t cpu => exact invd_crSelCpu c hA h t cpu st
  | crSelNoCpu t cpu => exact invd_crSelNoCpu c hA h t cpu st
  | gdCall t => exact invd_gdCall c hA h t st
  | gdLd t => exact invd_gdLd c hA h t st
  | gdLock t => exact invd_gdLock c hA h t st
  | gdCreate t => exact invd_gdCreate c hA h t st
  | gdUnlock t => exact invd_gdUnlock c hA h t st
  | enq t => exact invd_enq c hA h t st
  | inc t => exact invd_inc c hA h t st
  | ldFlags t => exact invd_ldFlags c hA h t st
  | ldFutex t => exact invd_ldFutex c hA h t st
  | stFutex t => exact invd_stFutex c hA h t st
  | wake t => exact invd_wake c hA h t st
  | crRet t => exact invd_crRet c hA h t st
  | opCall t op => exact invd_opCall c hA h t op st
  | opLock t => exact invd_opLock c hA h t st
  | opDo t => exact invd_opDo c hA h t st
  | opUnlock t => exact invd_opUnlock c hA h t st
  | setThr t ho => exact invd_setThr c hA h t ho st
  | fCall t h0 => exact invd_fCall c hA h t h0 st
  | fLdFlags t => exact invd_fLdFlags c hA h t st
  | fOrStop t => exact invd_fOrStop c hA h t st
  | fSeeStopped t => exact invd_fSeeStopped c hA h t st
  | fLock t => exact invd_fLock c hA h t st
  | fChk t => exact invd_fChk c hA h t st
  | fUnlock1 t => exact invd_fUnlock1 c hA h t st
  | fLock2 t => exact invd_fLock2 c hA h t st
  | fSplice t => exact invd_fSplice c hA h t st
  | fAddQ t => exact invd_fAddQ c hA h t st
  | fDel t => exact invd_fDel c hA h t st
  | fJoin t => exact invd_fJoin c hA h t st
  | fFree t => exact invd_fFree c hA h t st
  | hStart x => exact invd_hStart c hA h x st
  | hDec0 x => exact invd_hDec0 c hA h x st
  | hTop x => exact invd_hTop c hA h x st
  | hPause x => exact invd_hPause c hA h x st
  | hUnpause x => exact invd_hUnpause c hA h x st
  | hSplice x => exact invd_hSplice c hA h x st
  | hGpEnd x => exact invd_hGpEnd c hA h x st
  | hRunBegin x cb => exact invd_hRunBegin c hA h x cb st
  | hRunEnd x => exact invd_hRunEnd c hA h x st
  | hInvDone x => exact invd_hInvDone c hA h x st
  | hSub x => exact invd_hSub c hA h x st
  | hStopChk x => exact invd_hStopChk c hA h x st
  | hEmptyChk x => exact invd_hEmptyChk c hA h x st
  | hWaitLd x => exact invd_hWaitLd c hA h x st
  | hWaitFx x o => exact invd_hWaitFx c hA h x o st
  | hSpurious x => exact invd_hSpurious c hA h x st
  | hPollW x => exact invd_hPollW c hA h x st
  | hDec x => exact invd_hDec c hA h x st
  | hPollN x => exact invd_hPollN c hA h x st
  | hExitSt x => exact invd_hExitSt c hA h x st
  | hExitOr x => exact invd_hExitOr c hA h x st
  | extBegin t => exact invd_extBegin c hA h t st
  | extEnd t => exact invd_extEnd c hA h t st
  | extLock t => exact invd_extLock c hA h t st
  | extUnlock t => exact invd_extUnlock c hA h t st
  | extCall t id b h0 => exact invd_extCall c hA h t id b h0 st
  | envPause x v => exact invd_envPause c hA h x v st

end UrcuVerif.CallRcu
