import UrcuVerif.Machine.Fair
import UrcuVerif.CallRcu.LiveWake
/-! Helper lemmas for `queued_callback_eventually_invoked` (`Props/LiveC03.lean`): the loop of `call_rcu_thread`. -/
set_option linter.unusedSimpArgs false
set_option linter.unusedVariables false
namespace UrcuVerif.CallRcu
open UrcuVerif UrcuVerif.Fair

/-- a helper leaves its loop only when STOP was requested -/
def HPc.exiting : HPc → Bool
  | .exitSt => true | .exitOr => true | .dead => true
  | .none => false | .start => false | .dec0 => false | .top => false | .pausing => false | .paused => false
  | .splice => false | .gp => false | .inv => false | .run => false | .sub => false | .stopchk => false
  | .emptychk => false | .waitLd => false | .waitFx => false | .asleep => false | .pollW => false | .dec => false
  | .pollN => false

def InvX (s : State) : Prop := ∀ h, (s.hpc h).exiting = true → s.stop h = true

theorem invX_init : InvX init := by intro h; simp [init, HPc.exiting]

theorem invX_step (c : Cfg) {s s' : State} {l : Label} (hA : InvA c s) (h : InvX s) (st : step c s l = some s') : InvX s' := by
  have a11 := hA.fresh
  unfold InvX at *
  cases l <;> simp only [step] at st <;> (repeat' split at st) <;>
    (first | (simp at st; done) | skip) <;>
    simp only [Option.some.injEq] at st <;> subst st <;>
    simp only [upd, lockS, unlockS, newHelper, nestOn, csOn, nestOff] <;> grind [HPc.exiting]

theorem invX_reach (c : Cfg) {s : State} (h : Reach c s) : InvX s := by
  induction h with
  | init => exact invX_init
  | step r st ih => exact invX_step c (inv_reach c r).1 ih st

/-- a helper that has been created has a thread (its program counter is never `none` again) -/
def InvN (s : State) : Prop := ∀ h, h < s.nextH → s.hpc h ≠ .none

theorem invN_init : InvN init := by intro h hh; simp [init] at hh

theorem invN_step (c : Cfg) {s s' : State} {l : Label} (h : InvN s) (st : step c s l = some s') : InvN s' := by
  unfold InvN at *
  cases l <;> simp only [step] at st <;> (repeat' split at st) <;>
    (first | (simp at st; done) | skip) <;>
    simp only [Option.some.injEq] at st <;> subst st <;>
    simp only [upd, lockS, unlockS, newHelper, nestOn, csOn, nestOff] <;> grind

theorem invN_reach (c : Cfg) {s : State} (h : Reach c s) : InvN s := by
  induction h with
  | init => exact invN_init
  | step r st ih => exact invN_step c ih st

/-- labels of helper `x`'s own thread (`helperLabel`), as a predicate -/
def hOwn (x : Nat) : Label → Prop := fun l => helperLabel x l = true

/-- a step that is not helper `x`'s own, nor a `FUTEX_WAKE` / spurious wake-up of `x`, does not move `x` -/
theorem hpc_frame (c : Cfg) {s s' : State} {l : Label} (hA : InvA c s) (x : Nat) (hx : s.hpc x ≠ .none) (hl : ¬ hOwn x l)
    (st : step c s l = some s') : s'.hpc x = s.hpc x ∨ (s.hpc x = .asleep ∧ s'.hpc x = .waitLd) := by
  have a11 := hA.fresh x
  unfold hOwn at hl
  cases l <;> simp only [helperLabel, beq_iff_eq, Bool.false_eq_true, not_false_eq_true] at hl <;>
    simp only [step] at st <;> (repeat' split at st) <;>
    (first | (simp at st; done) | skip) <;>
    simp only [Option.some.injEq] at st <;> subst st <;>
    simp only [upd, lockS, unlockS, newHelper, nestOn, csOn, nestOff] <;> grind

/-- only helper `x` itself touches its private batch, the callback it runs, and the start time of its grace period -/
theorem priv_frame (c : Cfg) {s s' : State} {l : Label} (x : Nat) (hl : ¬ hOwn x l)
    (st : step c s l = some s') : s'.batch x = s.batch x ∧ s'.cur x = s.cur x ∧ s'.hgp x = s.hgp x := by
  unfold hOwn at hl
  cases l <;> simp only [helperLabel, beq_iff_eq, Bool.false_eq_true, not_false_eq_true] at hl <;>
    simp only [step] at st <;> (repeat' split at st) <;>
    (first | (simp at st; done) | skip) <;>
    simp only [Option.some.injEq] at st <;> subst st <;>
    simp only [upd, lockS, unlockS, newHelper, nestOn, csOn, nestOff] <;> grind

/-- the helper is between its splice and the end of the invocation of the batch -/
def HPc.busy : HPc → Bool
  | .gp => true | .inv => true | .run => true
  | .none => false | .start => false | .dec0 => false | .top => false | .pausing => false | .paused => false
  | .splice => false | .sub => false | .stopchk => false
  | .emptychk => false | .waitLd => false | .waitFx => false | .asleep => false | .pollW => false | .dec => false
  | .pollN => false | .exitSt => false | .exitOr => false | .dead => false

def busyRank : HPc → Nat
  | .gp => 2 | .run => 1
  | .inv => 0
  | .none => 0 | .start => 0 | .dec0 => 0 | .top => 0 | .pausing => 0 | .paused => 0
  | .splice => 0 | .sub => 0 | .stopchk => 0
  | .emptychk => 0 | .waitLd => 0 | .waitFx => 0 | .asleep => 0 | .pollW => 0 | .dec => 0
  | .pollN => 0 | .exitSt => 0 | .exitOr => 0 | .dead => 0

/-- remaining work on the current batch -/
def bMeasure (s : State) (x : Nat) : Nat := 2 * (s.batch x).length + busyRank (s.hpc x)

theorem busy_own (c : Cfg) {s s' : State} {l : Label} (x : Nat) (hb : (s.hpc x).busy = true) (hl : hOwn x l)
    (st : step c s l = some s') :
    s'.hpc x = .sub ∨ ((s'.hpc x).busy = true ∧ bMeasure s' x < bMeasure s x) := by
  unfold hOwn at hl
  cases l <;> simp only [helperLabel, beq_iff_eq, Bool.false_eq_true] at hl <;> subst hl <;>
    simp only [step] at st <;> (repeat' split at st) <;>
    (first | (simp at st; done) | skip) <;>
    simp only [Option.some.injEq] at st <;> subst st <;>
    simp only [bMeasure, upd, ↓reduceIte] <;>
    (try (rename_i hg; have hlen := length_tail_of_head? hg.2)) <;>
    simp_all [HPc.busy, busyRank] <;> (try omega)

theorem busy_frame (c : Cfg) {s s' : State} {l : Label} (hA : InvA c s) (x : Nat) (hb : (s.hpc x).busy = true)
    (hl : ¬ hOwn x l) (st : step c s l = some s') :
    s'.hpc x = s.hpc x ∧ s'.batch x = s.batch x ∧ s'.cur x = s.cur x ∧ s'.hgp x = s.hgp x := by
  have h1 := hpc_frame c hA x (by intro h; rw [h] at hb; cases hb) hl st
  have h2 := priv_frame c x hl st
  refine ⟨?_, h2⟩
  rcases h1 with h | ⟨h, -⟩
  · exact h
  · rw [h] at hb; cases hb

theorem inv_enabled (c : Cfg) {s : State} (x : Nat) (h : s.hpc x = .inv) : Enabled (step c) (hOwn x) s := by
  obtain ⟨l, hl, he⟩ := helper_no_stuck c s x (by rw [h]; simp)
  exact ⟨l, hl, he⟩

theorem gp_enabled (c : Cfg) {s : State} (x : Nat) (h : s.hpc x = .gp) (hg : gpMayEnd c s (s.hgp x)) :
    Enabled (step c) (hOwn x) s :=
  ⟨.hGpEnd x, by simp [hOwn, helperLabel], by simp [step, h, hg]⟩

/-- the helper's own step out of the grace-period wait is `hGpEnd` -/
theorem gp_own_leaves (c : Cfg) {s s' : State} {l : Label} (x : Nat) (hg : s.hpc x = .gp) (hl : hOwn x l)
    (st : step c s l = some s') : s'.hpc x ≠ .gp := by
  unfold hOwn at hl
  cases l <;> simp only [helperLabel, beq_iff_eq, Bool.false_eq_true] at hl <;> subst hl <;>
    simp only [step] at st <;> (repeat' split at st) <;>
    (first | (simp at st; done) | skip) <;>
    simp only [Option.some.injEq] at st <;> subst st <;> simp_all [upd]

/-! ### grace periods end if read-side sections end -/

/-- thread `t` is inside a read-side section that began before time `G` -/
def OldSec (G : Nat) (s : State) (t : Nat) : Prop := 0 < s.nest t ∧ s.cs t < G

/-- once a thread has no section older than `G ≤ now`, it never has one again -/
theorem old_step (c : Cfg) {s s' : State} {l : Label} (G t : Nat) (hG : G < s.clock) (h : ¬ OldSec G s t)
    (st : step c s l = some s') : ¬ OldSec G s' t ∧ G < s'.clock := by
  unfold OldSec at *
  cases l <;> simp only [step] at st <;> (repeat' split at st) <;>
    (first | (simp at st; done) | skip) <;>
    simp only [Option.some.injEq] at st <;> subst st <;>
    simp only [upd, lockS, unlockS, newHelper, nestOn, csOn, nestOff] <;> grind

theorem gp_may_end_eventually (c : Cfg) {ρ : Nat → State} {ℓ : Nat → Option Label} (hrun : IsRun (step c) ρ ℓ)
    (hR : ∀ j, Reach c (ρ j))
    (hsec : ∀ t j, 0 < (ρ j).nest t → ∃ j', j ≤ j' ∧ (ρ j').nest t = 0)
    (G i : Nat) (hG : G < (ρ i).clock) : ∃ J, i ≤ J ∧ ∀ j, J ≤ j → gpMayEnd c (ρ j) G := by
  -- not old now ⟹ never old again
  have stab : ∀ t j0, i ≤ j0 → ¬ OldSec G (ρ j0) t → ∀ j, j0 ≤ j → ¬ OldSec G (ρ j) t := by
    intro t j0 hj0 hn j hj
    have hclk : ∀ j, i ≤ j → G < (ρ j).clock ∧ True := by
      intro j hj
      refine stable_along hrun (fun _ => True) (fun s => G < s.clock ∧ True) i (fun _ _ => trivial) ?_ ⟨hG, trivial⟩ j hj
      intro s l s' _ h st
      obtain ⟨B⟩ : Nonempty (s.clock ≤ s'.clock) := by
        refine ⟨?_⟩
        cases l <;> simp only [step] at st <;> (repeat' split at st) <;>
          (first | (simp at st; done) | skip) <;>
          simp only [Option.some.injEq] at st <;> subst st <;>
          simp only [lockS, unlockS, newHelper, nestOn, csOn, nestOff] <;> omega
      exact ⟨by omega, trivial⟩
    have := stable_along hrun (fun _ => True) (fun s => ¬ OldSec G s t ∧ G < s.clock) j0 (fun _ _ => trivial)
      (fun s l s' _ h st => old_step c G t h.2 h.1 st) ⟨hn, (hclk j0 hj0).1⟩ j hj
    exact this.1
  have each : ∀ t, ∃ J, i ≤ J ∧ ∀ j, J ≤ j → ¬ OldSec G (ρ j) t := by
    intro t
    by_cases h0 : 0 < (ρ i).nest t
    · obtain ⟨j', hj', hz⟩ := hsec t i h0
      exact ⟨j', hj', stab t j' hj' (by unfold OldSec; omega)⟩
    · exact ⟨i, Nat.le_refl i, stab t i (Nat.le_refl i) (by unfold OldSec; omega)⟩
  obtain ⟨J, hJ, hall⟩ := eventually_all ρ (fun t s => ¬ OldSec G s t) (List.range (nthr c (ρ i))) i (fun t _ => each t)
  refine ⟨J, hJ, fun j hj t _ hn => ?_⟩
  have hno : ¬ OldSec G (ρ j) t := by
    by_cases ht : t < nthr c (ρ i)
    · exact hall j hj t (List.mem_range.mpr ht)
    · have hz : (ρ i).nest t = 0 := (inv_reach c (hR i)).2.1.inert t (by omega)
      exact stab t i (Nat.le_refl i) (by unfold OldSec; omega) j (by omega)
  unfold OldSec at hno
  omega

/-! ### what happens to one callback -/

/-- a callback leaves the batch only by being invoked -/
theorem batch_remove (c : Cfg) {s s' : State} {l : Label} (hA : InvA c s) (x id : Nat) (hb : id ∈ s.batch x)
    (hn : id ∉ s'.batch x) (st : step c s l = some s') : s'.cur x = some id := by
  have a10 := hA.batch_pc x
  cases l <;> simp only [step] at st <;> (repeat' split at st) <;>
    (first | (simp at st; done) | skip) <;>
    simp only [Option.some.injEq] at st <;> subst st <;>
    simp only [upd, lockS, unlockS, newHelper, nestOn, csOn, nestOff] at * <;> grind [mem_tail_or_head]

/-- the running callback changes only when it finishes -/
theorem cur_remove (c : Cfg) {s s' : State} {l : Label} (hA : InvA c s) (x id : Nat) (hc : s.cur x = some id)
    (hn : s'.cur x ≠ some id) (st : step c s l = some s') : s'.fin id = true := by
  have a9 := (hA.cur_run x).mp (by rw [hc]; rfl)
  cases l <;> simp only [step] at st <;> (repeat' split at st) <;>
    (first | (simp at st; done) | skip) <;>
    simp only [Option.some.injEq] at st <;> subst st <;>
    simp only [upd, lockS, unlockS, newHelper, nestOn, csOn, nestOff] at * <;> grind

theorem fin_stable (c : Cfg) {s s' : State} {l : Label} (id : Nat) (hf : s.fin id = true) (st : step c s l = some s') :
    s'.fin id = true := by
  cases l <;> simp only [step] at st <;> (repeat' split at st) <;>
    (first | (simp at st; done) | skip) <;>
    simp only [Option.some.injEq] at st <;> subst st <;>
    simp only [upd, lockS, unlockS, newHelper, nestOn, csOn, nestOff] at * <;> grind

/-- a queued callback stays in the queue of a helper that is not being stopped until the helper splices it out -/
theorem queue_unless (c : Cfg) {s s' : State} {l : Label} (hA : InvA c s) (hD : InvD c s) (hX : InvX s) (x id : Nat)
    (hs : s.stop x = false) (hq : id ∈ s.queue x) (st : step c s l = some s') : id ∈ s'.queue x ∨ id ∈ s'.batch x := by
  have key : ∀ t h, s.tpc t = .fSplice h → (s.hpc h).exiting = true := by
    intro t h ht
    have h1 := hD.f_ok t h 1 (by rw [ht]; rfl)
    unfold FOk at h1
    rw [hD.stopped_dead h (h1.2.2.2.2.1 (Nat.le_refl 1))]; rfl
  have hx := hX x
  cases l <;> simp only [step] at st <;> (repeat' split at st) <;>
    (first | (simp at st; done) | skip) <;>
    simp only [Option.some.injEq] at st <;> subst st <;>
    simp only [upd, lockS, unlockS, newHelper, nestOn, csOn, nestOff] at * <;> grind

end UrcuVerif.CallRcu
