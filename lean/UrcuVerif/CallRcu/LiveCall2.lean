import UrcuVerif.CallRcu.LiveCall
/-! Step-level lemmas: the way of `call_rcu()` from the call to the enqueue. -/
set_option linter.unusedSimpArgs false
set_option linter.unusedVariables false
namespace UrcuVerif.CallRcu
open UrcuVerif UrcuVerif.Fair

/-- remaining own steps of `call_rcu()` until the enqueue -/
def callRank : TPc → Nat
  | .sel _ => 7 | .gdLd _ => 6 | .gdLock _ => 5 | .gdCreate _ => 4 | .gdUnlock _ => 3 | .enq _ _ _ => 1
  | .idle => 0 | .ext => 0 | .sync => 0
  | .inc _ _ => 0 | .ldFlags _ _ => 0 | .ldFutex _ _ => 0 | .stFutex _ _ => 0
  | .wake _ _ => 0 | .crRet => 0 | .opLock _ => 0 | .opDo _ => 0 | .opUnlock _ => 0
  | .fLdFlags _ => 0 | .fOrStop _ => 0 | .fWaitStopped _ => 0 | .fLock _ => 0 | .fChk _ => 0
  | .fUnlock1 _ => 0 | .fLock2 _ => 0 | .fSplice _ => 0 | .fAddQ _ => 0 | .fDel _ => 0
  | .fJoin _ => 0 | .fFree _ => 0

theorem pendId_ne (p : TPc) (id : Nat) (h : p.pendId = some id) : p ≠ .idle ∧ p ≠ .ext := by
  cases p <;> simp_all [TPc.pendId]

/-- own steps of a thread that is about to enqueue callback `id`: it enqueues it or gets closer -/
theorem call_own (c : Cfg) {s s' : State} {l : Label} (t id : Nat) (hp : (s.tpc t).pendId = some id) (hl : tLabel t l)
    (st : step c s l = some s') :
    (s'.loc id).queued = true ∨ ((s'.tpc t).pendId = some id ∧ callRank (s'.tpc t) < callRank (s.tpc t)) := by
  unfold tLabel at hl
  cases hq : s.tpc t <;> simp [hq, TPc.pendId] at hp <;>
    (try (rename_i k; cases k <;> simp [GK.id?] at hp)) <;>
    (cases l <;> simp only [threadLabel, beq_iff_eq, Bool.false_eq_true] at hl <;> subst hl <;>
      simp only [step, hq] at st <;> (repeat' split at st) <;>
      (first | (simp at st; done) | skip) <;>
      simp only [Option.some.injEq] at st <;> subst st <;>
      simp_all [upd, callRank, TPc.pendId, GK.id?, Loc.queued, newHelper])

theorem call_enabled (c : Cfg) {s : State} (hD : InvD c s) (hQ : InvQ s) (t id : Nat) (hp : (s.tpc t).pendId = some id)
    (hw : (s.tpc t).lockWait = false) : Enabled (step c) (tLabel t) s := by
  cases hq : s.tpc t <;> simp [hq, TPc.pendId, TPc.lockWait] at hp hw
  case sel id' =>
    cases ht : s.thr t with
    | some h => exact ⟨.crSelThr t, by simp [tLabel, threadLabel], by simp [step, hq, ht]⟩
    | none =>
      by_cases hc : s.arr = false ∨ c.ncpu ≤ 0 ∨ s.percpu 0 = none
      · exact ⟨.crSelNoCpu t 0, by simp [tLabel, threadLabel], by simp only [step, hq, ht]; rw [if_pos hc]; rfl⟩
      · have h1 : s.arr = true := by cases ha : s.arr <;> simp_all
        have h2 : 0 < c.ncpu := by omega
        cases hpc : s.percpu 0 with
        | none => exact absurd (Or.inr (Or.inr hpc)) hc
        | some h => exact ⟨.crSelCpu t 0, by simp [tLabel, threadLabel], by simp [step, hq, ht, hpc, h1, h2]⟩
  case gdLd k => exact ⟨.gdLd t, by simp [tLabel, threadLabel], by simp [step, hq]; (repeat' split) <;> simp⟩
  case gdCreate k => exact ⟨.gdCreate t, by simp [tLabel, threadLabel], by simp [step, hq]; split <;> simp⟩
  case gdUnlock k =>
    have hm := hD.holds_mutex t (by rw [hq]; rfl)
    have := hQ.1 t k hq
    cases hd : s.dflt with
    | none => exact absurd hd this
    | some d => exact ⟨.gdUnlock t, by simp [tLabel, threadLabel], by simp [step, hq, hd, hm]; cases k <;> simp⟩
  case enq id' h k => exact ⟨.enq t, by simp [tLabel, threadLabel], by simp [step, hq]⟩

/-- an enabled wake-path step means the thread is on the wake path -/
theorem wake_enabled_onWake (c : Cfg) {s : State} (t : Nat) (h : Enabled (step c) (fun l => l ∈ wakeLabels t) s) :
    (s.tpc t).onWake = true := by
  obtain ⟨l, hl, he⟩ := h
  simp only [wakeLabels, List.mem_cons, List.mem_nil_iff, or_false] at hl
  rcases hl with rfl | rfl | rfl | rfl | rfl | rfl <;> simp only [step] at he <;> (repeat' split at he) <;>
    simp_all [TPc.onWake]

/-- the continuing step a thread on the wake path takes is a wake-path step -/
theorem own_is_wake (c : Cfg) {s s' : State} {l : Label} (t : Nat) (h : (s.tpc t).onWake = true) (hl : tLabel t l)
    (st : step c s l = some s') : l ∈ wakeLabels t := by
  unfold tLabel at hl
  cases l <;> simp only [threadLabel, beq_iff_eq, Bool.false_eq_true] at hl <;> subst hl <;>
    simp only [step] at st <;> (repeat' split at st) <;> simp_all [TPc.onWake, wakeLabels]

theorem wake_sub_tLabel (t : Nat) (l : Label) (h : l ∈ wakeLabels t) : tLabel t l := by
  simp only [wakeLabels, List.mem_cons, List.mem_nil_iff, or_false] at h
  rcases h with rfl | rfl | rfl | rfl | rfl | rfl <;> simp [tLabel, threadLabel]

end UrcuVerif.CallRcu
