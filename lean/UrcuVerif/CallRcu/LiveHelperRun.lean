import UrcuVerif.CallRcu.LiveHelper
import UrcuVerif.CallRcu.LiveHelper2
/-! Run-level lemmas for `queued_callback_eventually_invoked` (`Props/LiveC03.lean`). -/
set_option linter.unusedSimpArgs false
set_option linter.unusedVariables false
namespace UrcuVerif.CallRcu
open UrcuVerif UrcuVerif.Fair

inductive BusyPh | inv | run | gp

def BusyPh.pc : BusyPh → HPc
  | .inv => .inv | .run => .run | .gp => .gp

theorem reach_along' (c : Cfg) {ρ : Nat → State} {ℓ : Nat → Option Label} (hrun : IsRun (step c) ρ ℓ)
    (hreach : Reach c (ρ 0)) (j : Nat) : Reach c (ρ j) :=
  inv_along hrun (Reach c) (fun _ _ _ h st => Reach.step h st) 0 hreach j (Nat.zero_le j)

/-- **the batch is eventually done**: a helper between its splice and the end of the invocations reaches the `qlen`
update (`sub`), provided it is scheduled fairly, read-side sections end, and the callbacks it runs terminate. -/
theorem batch_eventually_done (c : Cfg) {ρ : Nat → State} {ℓ : Nat → Option Label} (hrun : IsRun (step c) ρ ℓ)
    (hR : ∀ j, Reach c (ρ j)) (x : Nat)
    (hfairH : WeakFair (step c) ρ ℓ (hOwn x))
    (hsec : ∀ t j, 0 < (ρ j).nest t → ∃ j', j ≤ j' ∧ (ρ j').nest t = 0)
    (hcb : ∀ j, (ρ j).hpc x = .run → ∃ j', j ≤ j' ∧ (ρ j').hpc x ≠ .run) :
    ∀ i, ((ρ i).hpc x).busy = true → ∃ j, i ≤ j ∧ (ρ j).hpc x = .sub := by
  intro i hb
  apply Classical.byContradiction
  intro hno
  have hns : ∀ j, i ≤ j → ¬ (ρ j).hpc x = .sub := fun j hj h => hno ⟨j, hj, h⟩
  have hA : ∀ j, InvA c (ρ j) := fun j => (inv_reach c (hR j)).1
  have hbusy : ∀ j, i ≤ j → ((ρ j).hpc x).busy = true :=
    unless_along hrun (Reach c) (fun s => (s.hpc x).busy = true) (fun s => s.hpc x = .sub) i (fun j _ => hR j)
      (fun s l s' R hp _ st => by
        by_cases hl : hOwn x l
        · rcases busy_own c x hp hl st with h | h
          · exact Or.inr h
          · exact Or.inl h.1
        · exact Or.inl (by rw [(busy_frame c (inv_reach c R).1 x hp hl st).1]; exact hp)) hb hns
  refine hno (fair_measure_leadsto_family hrun (κ := BusyPh) (fun _ => hOwn x) (fun k s => s.hpc x = k.pc)
    (fun s => Reach c s ∧ (s.hpc x).busy = true) (fun s => s.hpc x = .sub) (fun s => bMeasure s x) i
    (fun j hj => ⟨hR j, hbusy j hj⟩) ?_ ?_ ?_ ?_ ?_)
  · -- progress in each phase
    intro k
    cases k with
    | inv => exact hfairH.progress _ (fun s h => inv_enabled c x h)
    | run =>
      intro j0 hen
      obtain ⟨j', hj', hne⟩ := hcb j0 (hen j0 (Nat.le_refl _))
      exact absurd (hen j' hj') hne
    | gp =>
      intro j0 hen
      -- the start time of the grace period does not change while the helper waits
      have hconst : ∀ j, j0 ≤ j → (ρ j).hgp x = (ρ j0).hgp x := by
        intro j hj
        induction j with
        | zero => have : j0 = 0 := by omega
                  subst this; rfl
        | succ n ih =>
          by_cases h : j0 = n + 1
          · subst h; rfl
          · have ihn := ih (by omega)
            cases hl : ℓ n with
            | none => rw [hrun.idle n hl]; exact ihn
            | some l =>
              have st := hrun.move n l hl
              have hgn : (ρ n).hpc x = .gp := hen n (by omega)
              by_cases ho : hOwn x l
              · have h3 : (ρ (n + 1)).hpc x = .gp := hen (n + 1) (by omega)
                exact absurd h3 (gp_own_leaves c x hgn ho st)
              · rw [(busy_frame c (hA n) x (by rw [hgn]; rfl) ho st).2.2.2]; exact ihn
      have hG : (ρ j0).hgp x < (ρ j0).clock := (inv_reach c (hR j0)).2.1.clk_hgp x
      obtain ⟨J, hJ, hmay⟩ := gp_may_end_eventually c hrun hR hsec ((ρ j0).hgp x) j0 hG
      obtain ⟨j, hj, ht⟩ := hfairH J (fun j hj =>
        gp_enabled c x (hen j (by omega)) (by rw [hconst j (by omega)]; exact hmay j hj))
      exact ⟨j, by omega, ht⟩
  · intro s I _
    have hb := I.2
    cases hp : s.hpc x <;> simp [hp, HPc.busy] at hb
    · exact ⟨.gp, rfl⟩
    · exact ⟨.inv, rfl⟩
    · exact ⟨.run, rfl⟩
  · intro s l s' k I _ hl st
    rcases busy_own c x I.2 hl st with h | h
    · exact Or.inr h
    · exact Or.inl h.2
  · intro s l s' I _ hl st
    have := busy_frame c (inv_reach c I.1).1 x I.2 (hl .inv) st
    exact Or.inl (by simp only [bMeasure, this.1, this.2.1]; exact Nat.le_refl _)
  · intro s l s' k I _ hen hl st
    exact Or.inl (by rw [(busy_frame c (inv_reach c I.1).1 x I.2 hl st).1]; exact hen)

theorem cluster_cases {p : HPc} (h : p.cluster = true) : p = .asleep ∨ p.wl = true := by
  cases p <;> simp_all [HPc.cluster, HPc.wl]

/-- **a queued callback is eventually spliced out** by its helper (helper not being stopped, not paused). -/
theorem queued_eventually_spliced (c : Cfg) {ρ : Nat → State} {ℓ : Nat → Option Label} (hrun : IsRun (step c) ρ ℓ)
    (hR : ∀ j, Reach c (ρ j)) (x : Nat)
    (hfairH : WeakFair (step c) ρ ℓ (hOwn x))
    (hfairW : ∀ t, WeakFair (step c) ρ ℓ (fun l => l ∈ wakeLabels t))
    (hsec : ∀ t j, 0 < (ρ j).nest t → ∃ j', j ≤ j' ∧ (ρ j').nest t = 0)
    (hcb : ∀ j, (ρ j).hpc x = .run → ∃ j', j ≤ j' ∧ (ρ j').hpc x ≠ .run)
    (hstop : ∀ j, (ρ j).stop x = false) (hpause : ∀ j, (ρ j).pause x = false) :
    ∀ id i, id ∈ (ρ i).queue x → ∃ j, i ≤ j ∧ id ∈ (ρ j).batch x := by
  intro id i hq
  apply Classical.byContradiction
  intro hno
  have hnb : ∀ j, i ≤ j → ¬ id ∈ (ρ j).batch x := fun j hj h => hno ⟨j, hj, h⟩
  have hA : ∀ j, InvA c (ρ j) := fun j => (inv_reach c (hR j)).1
  have hQ : ∀ j, i ≤ j → id ∈ (ρ j).queue x :=
    unless_along hrun (fun s => Reach c s ∧ s.stop x = false) (fun s => id ∈ s.queue x) (fun s => id ∈ s.batch x) i
      (fun j _ => ⟨hR j, hstop j⟩)
      (fun s l s' I hp _ st => by
        obtain ⟨A, -, D, -, -, -⟩ := inv_reach_d c I.1
        exact queue_unless c A D (invX_reach c I.1) x id I.2 hp st) hq hnb
  let Inv' : State → Prop := fun s => Reach c s ∧ s.stop x = false ∧ s.pause x = false ∧ id ∈ s.queue x
  have hinv' : ∀ j, i ≤ j → Inv' (ρ j) := fun j hj => ⟨hR j, hstop j, hpause j, hQ j hj⟩
  -- from the linear part of the loop the helper's own steps lead to the splice
  have L_lin : ∀ k, i ≤ k → ((ρ k).hpc x).lin = true → False := by
    intro k hk hl
    obtain ⟨j, hj, hb⟩ := fair_measure_leadsTo_from hrun (hOwn x) Inv' (fun s => (s.hpc x).lin = true) (fun s => id ∈ s.batch x)
      (fun s => linRank (s.hpc x)) i hinv' hfairH
      (fun s l s' I hp _ st => by
        by_cases ho : hOwn x l
        · rcases lin_own c x id hp I.2.1 I.2.2.1 I.2.2.2 ho st with h | h
          · exact Or.inr h
          · exact Or.inl h.1
        · exact Or.inl (by rw [lin_frame c (inv_reach c I.1).1 x hp ho st]; exact hp))
      (fun s I hp _ => lin_enabled c x hp I.2.2.1)
      (fun s l s' I hp _ ho st => by
        rcases lin_own c x id hp I.2.1 I.2.2.1 I.2.2.2 ho st with h | h
        · exact Or.inr h
        · exact Or.inl h.2)
      (fun s l s' I hp _ ho st => Or.inl (by rw [lin_frame c (inv_reach c I.1).1 x hp ho st]; exact Nat.le_refl _))
      k hk hl
    exact hnb j (by omega) hb
  have L_wl0 : ∀ k, i ≤ k → ((ρ k).hpc x).wl = true → (ρ k).futex x = 0 → False := by
    intro k hk hw h0
    obtain ⟨j, hj, hb⟩ := fair_measure_leadsTo_from hrun (hOwn x) Inv' (fun s => (s.hpc x).wl = true ∧ s.futex x = 0)
      (fun s => s.hpc x = .pollW) (fun s => wlRankH (s.hpc x)) i hinv' hfairH
      (fun s l s' I hp _ st => by
        rcases wl0_step c (inv_reach c I.1).1 x hp.1 hp.2 st with h | h
        · exact Or.inr h
        · exact Or.inl ⟨h.1, h.2.1⟩)
      (fun s I hp _ => wl0_enabled c x hp.1)
      (fun s l s' I hp _ ho st => by
        rcases wl0_step c (inv_reach c I.1).1 x hp.1 hp.2 st with h | h
        · exact Or.inr h
        · exact Or.inl (h.2.2.1 ho))
      (fun s l s' I hp _ ho st => by
        rcases wl0_step c (inv_reach c I.1).1 x hp.1 hp.2 st with h | h
        · exact Or.inr h
        · exact Or.inl (h.2.2.2 ho))
      k hk ⟨hw, h0⟩
    exact L_lin j (by omega) (by rw [hb]; rfl)
  have L_B : ∀ t k, i ≤ k → ((ρ k).tpc t).waking = some x → (ρ k).hpc x = .asleep → (ρ k).futex x = 0 → False := by
    intro t k hk hw hs h0
    obtain ⟨j, hj, hb⟩ := fair_measure_leadsTo_from hrun (fun l => l ∈ wakeLabels t) Inv'
      (fun s => (s.tpc t).waking = some x ∧ s.hpc x = .asleep ∧ s.futex x = 0)
      (fun s => ((s.hpc x).wl = true ∧ s.futex x = 0) ∨ s.hpc x = .pollW) (fun s => wakeRank (s.tpc t)) i hinv' (hfairW t)
      (fun s l s' I hp _ st => by
        obtain ⟨h1, h2, h3⟩ := hp
        by_cases hl : l ∈ wakeLabels t
        · have := waking_own' c t x h1 h2 hl st
          exact Or.inr (Or.inl ⟨by rw [this.1]; rfl, by rw [this.2]; exact h3⟩)
        · have hcs := cluster_step_h c (inv_reach c I.1).1 x (by rw [h2]; rfl) st
          have hf0 : s'.futex x = 0 := by rcases hcs.2 with h | h; rw [h, h3]; exact h
          rcases hcs.1 with hc | hc
          · rcases cluster_cases hc with ha | hw
            · exact Or.inl ⟨by rw [tpc_frame c t (waking_onWake h1) hl st]; exact h1, ha, hf0⟩
            · exact Or.inr (Or.inl ⟨hw, hf0⟩)
          · exact Or.inr (Or.inr hc.1))
      (fun s I hp _ => waker_not_stuck c t x (Or.inr hp.1))
      (fun s l s' I hp _ hl st => Or.inl (waker_measure c t hl st))
      (fun s l s' I hp _ hl st => Or.inl (by rw [tpc_frame c t (waking_onWake hp.1) hl st]; exact Nat.le_refl _))
      k hk ⟨hw, hs, h0⟩
    rcases hb with hb | hb
    · exact L_wl0 j (by omega) hb.1 hb.2
    · exact L_lin j (by omega) (by rw [hb]; rfl)
  have fromC0 : ∀ k, i ≤ k → ((ρ k).hpc x).cluster = true → (ρ k).futex x = 0 → False := by
    intro k hk hc h0
    rcases cluster_cases hc with ha | hw
    · obtain ⟨-, -, -, -, -, W⟩ := inv_reach_d c (hR k)
      obtain ⟨t, ht⟩ := W.w_0 x ha h0
      exact L_B t k hk ht ha h0
    · exact L_wl0 k hk hw h0
  have L_A : ∀ t k, i ≤ k → willWake (ρ k) t x → ((ρ k).hpc x).cluster = true → (ρ k).futex x = -1 → False := by
    intro t k hk hw hc h1
    obtain ⟨j, hj, hb⟩ := fair_measure_leadsTo_from hrun (fun l => l ∈ wakeLabels t) Inv'
      (fun s => willWake s t x ∧ (s.hpc x).cluster = true ∧ s.futex x = -1)
      (fun s => (s.hpc x).cluster = true ∧ s.futex x = 0) (fun s => wakeRank (s.tpc t)) i hinv' (hfairW t)
      (fun s l s' I hp _ st => by
        obtain ⟨h1, h2, h3⟩ := hp
        obtain ⟨-, -, D, -, -, W⟩ := inv_reach_d c I.1
        have hcs := cluster_step_h c (inv_reach c I.1).1 x h2 st
        have hc' : (s'.hpc x).cluster = true := by
          rcases hcs.1 with h | h
          · exact h
          · exact absurd h3 h.2
        rcases hcs.2 with hf | hf
        · have hw' : willWake s' t x := by
            by_cases hl : l ∈ wakeLabels t
            · rcases willWake_own c W t x h1 h3 hl st with h | h
              · exact h
              · rw [hf] at h; exact absurd h3 h
            · exact willWake_frame c D t x h1 hl st
          exact Or.inl ⟨hw', hc', by rw [hf]; exact h3⟩
        · exact Or.inr ⟨hc', hf⟩)
      (fun s I hp _ => waker_not_stuck c t x (Or.inl hp.1))
      (fun s l s' I hp _ hl st => Or.inl (waker_measure c t hl st))
      (fun s l s' I hp _ hl st => Or.inl (by rw [tpc_frame c t (willWake_onWake hp.1) hl st]; exact Nat.le_refl _))
      k hk ⟨hw, hc, h1⟩
    exact fromC0 j (by omega) hb.1 hb.2
  -- where is the helper now?
  have hne : (ρ i).queue x ≠ [] := by intro h; rw [h] at hq; simp at hq
  have hxlt : x < (ρ i).nextH := by
    apply Classical.byContradiction
    intro h
    exact hne ((hA i).fresh x (by omega)).2.1
  have hnn : (ρ i).hpc x ≠ .none := invN_reach c (hR i) x hxlt
  have hnex : ((ρ i).hpc x).exiting = false := by
    cases he : ((ρ i).hpc x).exiting with
    | false => rfl
    | true => have := invX_reach c (hR i) x he; rw [hstop i] at this; cases this
  by_cases hbz : ((ρ i).hpc x).busy = true
  · obtain ⟨j, hj, hs⟩ := batch_eventually_done c hrun hR x hfairH hsec hcb i hbz
    exact L_lin j hj (by rw [hs]; rfl)
  · by_cases hl : ((ρ i).hpc x).lin = true
    · exact L_lin i (Nat.le_refl i) hl
    · have hc : ((ρ i).hpc x).cluster = true := by
        cases hp : (ρ i).hpc x <;> simp_all [HPc.busy, HPc.lin, HPc.cluster, HPc.exiting]
      obtain ⟨-, -, -, -, -, W⟩ := inv_reach_d c (hR i)
      rcases W.w_range x with h0 | h1
      · exact fromC0 i (Nat.le_refl i) hc h0
      · obtain ⟨t, ht⟩ := W.w_m1 x (by cases hp : (ρ i).hpc x <;> simp_all [HPc.cluster, HPc.waitRegion]) h1
          (Or.inr ⟨(by intro h; rw [h] at hc; cases hc), hne⟩)
        exact L_A t i (Nat.le_refl i) ht hc h1

end UrcuVerif.CallRcu
