import UrcuVerif.Machine.Upd
/-!
# C01/C15 — two-pass phase-flip grace period (`src/urcu.c`: memb with sys_membarrier, memb
fallback, mb) on an explicit x86-TSO machine.

Abstract-algorithm level model (DESIGN §4 C01; "L2" in DESIGN §10): one step per shared-memory
access that matters for the grace-period guarantee.  `Driver/Gp.lean` checks, event by event,
that the real `synchronize_rcu` / `rcu_read_lock` / `rcu_read_unlock` / `rcu_(un)register_thread`
emit exactly the access sequence of these steps and replays the induced labels on `step`.

* any number `n` of reader threads, unbounded nesting, readers (un)register at any time outside
  a section; any number of grace periods, one of which is *tracked* (ghost) – by symmetry the
  theorems hold for every call;
* x86-TSO: every reader store to its own word goes through a FIFO store buffer (`buf i`, oldest
  first) and reaches memory at an arbitrary later `flush` step; the reader reads its own word
  from the buffer (`lnest/lph` = newest value);
* configuration `slaveFence` (memb fallback and mb: the reader executes `mfence` after the
  activating store, i.e. `rEnter` waits for an empty buffer) and `membarrier` (the master barrier
  is `sys_membarrier`: between its call and return every reader undergoes a forced fence);
* ghost: `inD i` = reader i's current outermost section began before the tracked grace period
  started; `xset`/`yset` = the tracked updater's store before the call / after the return are in
  memory; `sawX0/sawY1` = what the current section of reader i has read.
-/
namespace UrcuVerif.Gp

structure Cfg where
  n : Nat
  membarrier : Bool
  slaveFence : Bool
  deriving Repr

inductive RPc | out | ld (g : Bool) | fence | cs
  deriving DecidableEq, Repr
inductive UPc | idle | mbar1 | p1 | p2 | mbar2
  deriving DecidableEq, Repr

structure State where
  gp    : Bool
  reg   : Nat → Bool             -- reader is in one of the registry lists
  mnest : Nat → Nat              -- memory copy of reader word: nesting count
  mph   : Nat → Bool             --                              phase bit
  lnest : Nat → Nat              -- reader's own view (newest buffered value)
  lph   : Nat → Bool
  buf   : Nat → List (Nat × Bool)   -- store buffer, oldest first
  rpc   : Nat → RPc
  held  : Nat → List Bool      -- C19: snapshots loaded by interrupted rcu_read_lock() frames of reader i
  inD   : Nat → Bool
  sawX0 : Nat → Bool
  sawY1 : Nat → Bool
  xset  : Bool
  yset  : Bool
  tracked : Bool
  trackedDone : Bool
  upc   : UPc
  pend  : Nat → Bool             -- membarrier: reader not yet force-fenced
  inp   : Nat → Bool             -- input list of the current pass
  snap  : Nat → Bool             -- cur_snap_readers
  qs    : Nat → Bool             -- qsreaders

def init : State :=
  { gp := false, reg := fun _ => false, mnest := fun _ => 0, mph := fun _ => false,
    lnest := fun _ => 0, lph := fun _ => false, buf := fun _ => [], rpc := fun _ => .out, held := fun _ => [],
    inD := fun _ => false, sawX0 := fun _ => false, sawY1 := fun _ => false,
    xset := false, yset := false, tracked := false, trackedDone := false,
    upc := .idle, pend := fun _ => false, inp := fun _ => false, snap := fun _ => false,
    qs := fun _ => false }

inductive Label
  | reg (i : Nat) | unreg (i : Nat)
  | rLd (i : Nat)            -- outermost lock: load rcu_gp.ctr
  | rSt (i : Nat)            -- outermost lock: store own word := loaded value (nest 1)
  | rEnter (i : Nat)         -- slave barrier done, rcu_read_lock returns
  | rInc (i : Nat) | rDec (i : Nat)   -- nested lock / unlock
  | rUnlock (i : Nat)        -- outermost unlock store
  | rRead (i : Nat)          -- data loads inside the section (X then Y or Y then X, any number)
  | flush (i : Nat)          -- environment: oldest buffered store of reader i reaches memory
  | uStart (trk : Bool)      -- leader holds both locks, registry non-empty: first master barrier begins
  | uStartEmpty (trk : Bool) -- registry empty: grace period trivially complete
  | forced (i : Nat)         -- sys_membarrier's forced fence on reader i
  | uMbarRet                 -- master barrier returns
  | uScan1Inactive (j : Nat) | uScan1Current (j : Nat)
  | uFlip
  | uScan2 (j : Nat)
  | uP2Done                  -- pass 2 input list empty: second master barrier begins
  | uEnd
  | setY                     -- tracked updater's store after synchronize_rcu() returned
  | sigPush (i : Nat)        -- C19: a signal handler interrupts rcu_read_lock() between its load of rcu_gp.ctr and its store
  | sigPop (i : Nat)         -- C19: that handler returns (its own sections are balanced)
  deriving Repr, DecidableEq

/-- One step; `none` = not enabled. -/
def step (c : Cfg) (s : State) : Label → Option State
  | .reg i =>
    if i < c.n ∧ s.reg i = false ∧ s.rpc i = .out then
      some { s with reg := upd s.reg i true,
                    inp := if s.upc = .mbar1 ∨ s.upc = .p1 then upd s.inp i true else s.inp }
    else none
  | .unreg i =>
    if i < c.n ∧ s.reg i = true ∧ s.rpc i = .out ∧ s.held i = [] then
      some { s with reg := upd s.reg i false, inp := upd s.inp i false,
                    snap := upd s.snap i false, qs := upd s.qs i false }
    else none
  | .rLd i =>
    if i < c.n ∧ s.reg i = true ∧ s.rpc i = .out then some { s with rpc := upd s.rpc i (.ld s.gp) } else none
  | .rSt i =>
    match s.rpc i with
    | .ld g =>
      if i < c.n then
        some { s with lnest := upd s.lnest i 1, lph := upd s.lph i g,
                      buf := upd s.buf i (s.buf i ++ [(1, g)]), rpc := upd s.rpc i .fence }
      else none
    | _ => none
  | .rEnter i =>
    if i < c.n ∧ s.rpc i = .fence ∧ (c.slaveFence = true → s.buf i = []) then
      some { s with rpc := upd s.rpc i .cs, inD := upd s.inD i (!s.xset),
                    sawX0 := upd s.sawX0 i false, sawY1 := upd s.sawY1 i false }
    else none
  | .rInc i =>
    -- (also from a handler that interrupts rcu_read_lock() after its activating store: pc `fence`)
    if i < c.n ∧ (s.rpc i = .cs ∨ s.rpc i = .fence) then
      some { s with lnest := upd s.lnest i (s.lnest i + 1),
                    buf := upd s.buf i (s.buf i ++ [(s.lnest i + 1, s.lph i)]) }
    else none
  | .rDec i =>
    if i < c.n ∧ (s.rpc i = .cs ∨ s.rpc i = .fence) ∧ 2 ≤ s.lnest i then
      some { s with lnest := upd s.lnest i (s.lnest i - 1),
                    buf := upd s.buf i (s.buf i ++ [(s.lnest i - 1, s.lph i)]) }
    else none
  | .rUnlock i =>
    if i < c.n ∧ s.rpc i = .cs ∧ s.lnest i = 1 then
      some { s with lnest := upd s.lnest i 0, buf := upd s.buf i (s.buf i ++ [(0, s.lph i)]),
                    rpc := upd s.rpc i .out, inD := upd s.inD i false }
    else none
  | .rRead i =>
    if i < c.n ∧ s.rpc i = .cs then
      some { s with sawX0 := upd s.sawX0 i (s.sawX0 i || !s.xset),
                    sawY1 := upd s.sawY1 i (s.sawY1 i || s.yset) }
    else none
  | .flush i =>
    match s.buf i with
    | e :: rest => some { s with mnest := upd s.mnest i e.1, mph := upd s.mph i e.2, buf := upd s.buf i rest }
    | [] => none
  | .uStart trk =>
    if s.upc = .idle ∧ (trk = true → s.xset = false) ∧ (∃ i, i < c.n ∧ s.reg i = true) then
      some { s with upc := .mbar1, pend := fun _ => true, inp := s.reg, snap := fun _ => false,
                    qs := fun _ => false, xset := s.xset || trk, tracked := trk }
    else none
  | .uStartEmpty trk =>
    if s.upc = .idle ∧ (trk = true → s.xset = false) ∧ (∀ i, i < c.n → s.reg i = false) then
      some { s with xset := s.xset || trk, trackedDone := s.trackedDone || trk }
    else none
  | .forced i =>
    if (s.upc = .mbar1 ∨ s.upc = .mbar2) ∧ s.pend i = true ∧ c.membarrier = true then
      some { s with mnest := upd s.mnest i (s.lnest i), mph := upd s.mph i (s.lph i),
                    buf := upd s.buf i [], pend := upd s.pend i false }
    else none
  | .uMbarRet =>
    if s.upc = .mbar1 ∧ (c.membarrier = true → ∀ i, i < c.n → s.pend i = false) then
      some { s with upc := .p1 }
    else none
  | .uScan1Inactive j =>
    if s.upc = .p1 ∧ j < c.n ∧ s.inp j = true ∧ s.mnest j = 0 then
      some { s with inp := upd s.inp j false, qs := upd s.qs j true }
    else none
  | .uScan1Current j =>
    if s.upc = .p1 ∧ j < c.n ∧ s.inp j = true ∧ 0 < s.mnest j ∧ s.mph j = s.gp then
      some { s with inp := upd s.inp j false, snap := upd s.snap j true }
    else none
  | .uFlip =>
    if s.upc = .p1 ∧ (∀ j, j < c.n → s.inp j = false) then some { s with gp := !s.gp, upc := .p2 } else none
  | .uScan2 j =>
    if s.upc = .p2 ∧ j < c.n ∧ s.snap j = true ∧ (s.mnest j = 0 ∨ s.mph j = s.gp) then
      some { s with snap := upd s.snap j false, qs := upd s.qs j true }
    else none
  | .uP2Done =>
    if s.upc = .p2 ∧ (∀ j, j < c.n → s.snap j = false) then
      some { s with upc := .mbar2, pend := fun _ => true }
    else none
  | .uEnd =>
    if s.upc = .mbar2 ∧ (c.membarrier = true → ∀ i, i < c.n → s.pend i = false) then
      some { s with upc := .idle, trackedDone := s.trackedDone || s.tracked, tracked := false }
    else none
  | .setY =>
    if s.trackedDone = true then some { s with yset := true } else none
  | .sigPush i =>
    match s.rpc i with
    | .ld g => if i < c.n then some { s with rpc := upd s.rpc i .out, held := upd s.held i (g :: s.held i) } else none
    | _ => none
  | .sigPop i =>
    match s.held i with
    | g :: rest =>
      if i < c.n ∧ s.rpc i = .out then some { s with rpc := upd s.rpc i (.ld g), held := upd s.held i rest } else none
    | [] => none

end UrcuVerif.Gp
