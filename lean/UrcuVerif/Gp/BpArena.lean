import UrcuVerif.Machine.Upd
import UrcuVerif.Gen.Constants
/-!
# C15 (bp part) — the reader registry of the "bulletproof" flavor (`src/urcu-bp.c`)

Two executable models (core Lean only; the compiled driver `drv_bparena` imports this file).

## 1. `BpArena` — the registry arena, operation-sequence level

Every operation below is one critical section of the C code (`rcu_registry_lock` or `init_lock`
held, all signals blocked), so it is one atomic step; the quantifier of the property is the set of
all sequences of such sections, any number of threads, any sequence of `mremap` outcomes.

* `struct registry_chunk {capacity, used, readers[]}`  ↦  `Chunk {cap, used, slots}`;
  a slot is `none` (`alloc = 0`, `tid = 0`) or `some t` (`alloc = 1`, `tid = t`).
* `registry_arena.chunk_list` ↦ `State.chunks` in list order (`cds_list_add_tail` = append).
  Chunks are never unlinked one by one, so a chunk's position in the list is its identity;
  a slot's identity – hence the address `&chunk->readers[i]` – is the pair `(k, i)`.
* `registry` ↦ `State.registry`, same order as the C list (`cds_list_add` = cons,
  `cds_list_del` = erase).
* `URCU_TLS(urcu_bp_reader)` of thread `t` ↦ `State.tls t`.
* `urcu_bp_refcount` ↦ `State.refcount` (`_urcu_bp_init` increments on every registration and in
  the constructor, `urcu_bp_exit` decrements on every unregistration and in the destructor and
  unmaps every chunk when it reaches zero).
* the outcome of `mremap(last, old, new, 0)` is an *input* of the step (`Growth`).

## 2. `BpArena.Sig` — one thread, its signal mask and its stack of signal-handler frames

`_urcu_bp_read_lock()` → `urcu_bp_register()` (mask, re-check, `_urcu_bp_init`, lock, `add_thread`,
unlock, restore mask) and the thread-exit path `urcu_bp_unregister()` (mask, lock, `remove_thread`,
unlock, `urcu_bp_exit()`, restore mask), one step
per library call that the harness interposes; a `signal` label pushes a handler frame that itself
executes `urcu_bp_read_lock()` and is enabled exactly when signals are not blocked.
-/
namespace UrcuVerif.BpArena
open UrcuVerif.Gen (INIT_READER_COUNT)

/-! ### 1. arena -/

structure Chunk where
  cap   : Nat                    -- chunk->capacity
  used  : Nat                    -- chunk->used
  slots : List (Option Nat)      -- chunk->readers[0 .. capacity): owner tid when alloc
  deriving Repr, DecidableEq

/-- `mmap` + `memset 0` + `capacity = n` -/
def Chunk.fresh (n : Nat) : Chunk := { cap := n, used := 0, slots := List.replicate n none }

/-- successful in-place `mremap`: zero the new tail, `capacity = new_capacity` -/
def Chunk.grow (c : Chunk) : Chunk :=
  { c with cap := c.cap * 2, slots := c.slots ++ List.replicate (c.cap * 2 - c.cap) none }

/-- outcome of `mremap(last_chunk, old, new, 0)` -/
inductive Growth | inPlace | newChunk
  deriving Repr, DecidableEq

/-- what `expand_arena` did during one `arena_alloc` -/
inductive Grew | no | first | inPlace | newChunk
  deriving Repr, DecidableEq

structure State where
  chunks   : List Chunk
  registry : List (Nat × Nat)
  tls      : Nat → Option (Nat × Nat)
  refcount : Nat
  nexp     : Nat       -- ghost: expand_arena calls since the chunk list was last empty

def init : State := { chunks := [], registry := [], tls := fun _ => none, refcount := 0, nexp := 0 }

/-- content of slot `(k, i)`: `some t` iff the slot exists, is allocated and owned by `t` -/
def slotAt (cs : List Chunk) (k i : Nat) : Option Nat :=
  match cs[k]? with
  | none => none
  | some c => c.slots[i]?.join

/-- the chunk loop of `arena_alloc`: skip chunks with `used == capacity`, else first `!alloc` -/
def scan : List Chunk → Nat → Option (Nat × Nat)
  | [], _ => none
  | c :: cs, k =>
    if c.used = c.cap then scan cs (k + 1)
    else
      match c.slots.findIdx? (·.isNone) with
      | some i => some (k, i)
      | none => scan cs (k + 1)

/-- `expand_arena` -/
def expand (cs : List Chunk) (g : Growth) : List Chunk × Grew :=
  match cs.getLast? with
  | none => ([Chunk.fresh INIT_READER_COUNT], .first)
  | some last =>
    match g with
    | .inPlace => (cs.modify (cs.length - 1) Chunk.grow, .inPlace)
    | .newChunk => (cs ++ [Chunk.fresh (last.cap * 2)], .newChunk)

/-- `arena_alloc` up to (not including) the marking of the slot: at most one expansion;
`none` = the C function returns NULL (`add_thread` then aborts). -/
def arenaAlloc (cs : List Chunk) (g : Growth) : Option (List Chunk × (Nat × Nat) × Grew) :=
  match scan cs 0 with
  | some sl => some (cs, sl, .no)
  | none =>
    let (cs', gr) := expand cs g
    match scan cs' 0 with
    | some sl => some (cs', sl, gr)
    | none => none

/-- `readers[i].alloc = 1; used++` (arena_alloc) and `tid = pthread_self()` (add_thread) -/
def mark (cs : List Chunk) (k i t : Nat) : List Chunk :=
  cs.modify k fun c => { c with used := c.used + 1, slots := c.slots.set i (some t) }

/-- `cleanup_thread(chunk k, &readers[i])` on the chunk data: `tid = 0; alloc = 0; used--` -/
def clear (cs : List Chunk) (k i : Nat) : List Chunk :=
  cs.modify k fun c => { c with used := c.used - 1, slots := c.slots.set i none }

/-- `urcu_bp_prune_registry` on one chunk: every allocated slot whose tid differs from the
forking thread is cleaned (`used--` each) -/
def pruneChunk (t : Nat) (c : Chunk) : Chunk :=
  { c with used := c.used - c.slots.countP (fun x => x.isSome && x != some t),
           slots := c.slots.map fun x => if x = some t then x else none }

inductive Op
  | register (t : Nat) (g : Growth)   -- add_thread() of a thread whose TLS pointer is NULL
  | unregister (t : Nat)              -- remove_thread() (exit notifier → urcu_bp_unregister)
  | prune (t : Nat)                   -- urcu_bp_after_fork_child() run by thread t
  | libInit                           -- _urcu_bp_init()  (constructor, and first half of urcu_bp_register)
  | libExit                           -- urcu_bp_exit()   (destructor, and second half of urcu_bp_unregister)
  deriving Repr, DecidableEq

inductive Out
  | slot (k i : Nat) (g : Grew)       -- register: slot given, what expand_arena did
  | freed (k i : Nat)                 -- unregister: slot released
  | pruned (n : Nat)                  -- number of registry entries removed
  | unit (unmapped : Bool)            -- libInit / libExit: were the chunks unmapped?
  deriving Repr, DecidableEq

/-- One atomic section.  `urcu_bp_register()` is `libInit` (its `_urcu_bp_init()` call, under
`init_lock`) followed by `register` (`add_thread()` under `rcu_registry_lock`); thread exit is
`unregister` (`remove_thread()` under `rcu_registry_lock`) followed by `libExit` (`urcu_bp_exit()`
under `init_lock`).  The two halves are separate steps because the locks are different: other
threads may run in between (and, in the code before 760a93b, a signal handler of the same thread
between `unregister` and `libExit`).  The guards
`registry.length < refcount` express the calling discipline of the C code: `add_thread` runs only
after the caller's own `_urcu_bp_init`, `urcu_bp_exit` only after the caller's own
`remove_thread` (or, in the destructor, balancing the constructor's `_urcu_bp_init`). -/
def step (s : State) : Op → Option (State × Out)
  | .register t g =>
    match s.tls t with
    | some _ => none
    | none =>
      if s.registry.length < s.refcount then
        match arenaAlloc s.chunks g with
        | none => none
        | some (cs, (k, i), gr) =>
          some ({ s with chunks := mark cs k i t,
                         registry := (k, i) :: s.registry,
                         tls := upd s.tls t (some (k, i)),
                         nexp := if gr = .no then s.nexp else s.nexp + 1 }, .slot k i gr)
      else none
  | .unregister t =>
    match s.tls t with
    | none => none
    | some (k, i) =>
      some ({ s with chunks := clear s.chunks k i,
                     registry := s.registry.erase (k, i),
                     tls := upd s.tls t none }, .freed k i)
  | .prune t =>
    let keep := s.registry.filter fun (k, i) => slotAt s.chunks k i == some t
    some ({ s with chunks := s.chunks.map (pruneChunk t),
                   registry := keep,
                   tls := fun u => if u = t then s.tls t else none },
          .pruned (s.registry.length - keep.length))
  | .libInit => some ({ s with refcount := s.refcount + 1 }, .unit false)
  | .libExit =>
    if s.registry.length < s.refcount then
      -- `if (!--urcu_bp_refcount)` munmap every chunk, re-initialise the chunk list
      if s.refcount - 1 = 0 then some ({ s with refcount := 0, chunks := [], nexp := 0 }, .unit true)
      else some ({ s with refcount := s.refcount - 1 }, .unit false)
    else none

/-- `find_chunk(reader)` on addresses: `layout` lists, per chunk in list order, the address of
`readers[0]` and the capacity; `sz = sizeof(struct urcu_bp_reader)`.  Returns the position of the
first chunk whose `[&readers[0], &readers[capacity])` contains the address `a` (`k` = position of
the head of `layout`).  The arena `step` identifies a reader by its slot id `(chunk, index)`;
`find_chunk_correct` (Props/C15Bp) shows that this is what `find_chunk` computes from the
address when the mappings do not overlap. -/
def findChunk (sz : Nat) : List (Nat × Nat) → Nat → Nat → Option Nat
  | [], _, _ => none
  | (base, cap) :: rest, a, k =>
    if a < base then findChunk sz rest a (k + 1)
    else if a ≥ base + cap * sz then findChunk sz rest a (k + 1)
    else some k

/-- run a list of operations, collecting outputs -/
def runOps : State → List Op → Option (State × List Out)
  | s, [] => some (s, [])
  | s, op :: ops =>
    match step s op with
    | none => none
    | some (s', o) => (runOps s' ops).map fun (s'', os) => (s'', o :: os)

/-! ### 2. registration versus signals (one thread) -/
namespace Sig

/-- program counter of one frame (the thread's normal code or a signal handler) -/
inductive Pc
  | idle        -- between API calls (main frame) / handler finished, about to return
  | chk         -- _urcu_bp_read_lock: `if (!URCU_TLS(urcu_bp_reader))`
  | mask        -- urcu_bp_register: pthread_sigmask(SIG_BLOCK, all)
  | recheck     -- `if (URCU_TLS(urcu_bp_reader)) goto end`
  | initLock    -- _urcu_bp_init: mutex_lock(&init_lock)
  | initInc     --   refcount++ (pthread_key_create when it was 0)
  | initUnlock  --   mutex_unlock(&init_lock)
  | lock        -- mutex_lock(&rcu_registry_lock)
  | add         -- add_thread()
  | unlock      -- mutex_unlock(&rcu_registry_lock)
  | unmask      -- pthread_sigmask(SIG_SETMASK, &oldmask)
  | cs          -- the read-side section proper: dereferences URCU_TLS(urcu_bp_reader)
  | xmask       -- urcu_bp_unregister: pthread_sigmask(SIG_BLOCK, all)
  | xlock       -- mutex_lock(&rcu_registry_lock)
  | xremove     -- remove_thread()
  | xunlock     -- mutex_unlock(&rcu_registry_lock)
  | xinitLock   -- urcu_bp_exit: mutex_lock(&init_lock)
  | xdec        --   --refcount
  | xinitUnlock --   mutex_unlock(&init_lock)
  | xunmask     -- pthread_sigmask(SIG_SETMASK, &oldmask)  (before urcu_bp_exit() in the unfixed code)
  deriving Repr, DecidableEq

/-- variants of the code: the real one and the mutants the re-check / mask order protect against -/
structure Cfg where
  recheck : Bool := true        -- the TLS re-check after blocking signals exists
  unmaskEarly : Bool := false   -- mutant: mask restored before the registry lock is released
  exitRefMasked : Bool := true  -- urcu_bp_unregister calls urcu_bp_exit() BEFORE restoring the mask
                                -- (the code since commit 760a93b); false = the order before that repair
  deriving Repr, DecidableEq

/-- the code as it is -/
def real : Cfg := {}
/-- the code before 760a93b: mask restored, then `urcu_bp_exit()` takes `init_lock` with signals open -/
def unfixed : Cfg := { exitRefMasked := false }

structure State where
  top      : Pc               -- running frame
  below    : List Pc          -- interrupted frames, innermost first; the last one is the thread's normal code
  blocked  : Bool             -- all signals blocked
  tls      : Bool             -- URCU_TLS(urcu_bp_reader) != NULL
  regs     : Nat              -- number of registry nodes of this thread (add_thread − remove_thread)
  regHeld  : Bool             -- this thread holds rcu_registry_lock
  initHeld : Bool             -- this thread holds init_lock
  refs     : Nat              -- this thread's contribution to urcu_bp_refcount
  deriving Repr, DecidableEq

def init : State :=
  { top := .idle, below := [], blocked := false, tls := false, regs := 0, regHeld := false,
    initHeld := false, refs := 0 }

inductive Lbl
  | run        -- the running frame executes its next call
  | signal     -- a signal is delivered: push a handler frame that calls urcu_bp_read_lock()
  | readLock   -- normal code calls urcu_bp_read_lock()
  | exit       -- the thread exits: key destructor → urcu_bp_thread_exit_notifier
  deriving Repr, DecidableEq

/-- `none` = not enabled.  A `run` that is not enabled at `lock`/`xlock`/`initLock`/`xinitLock`
is a self-deadlock (the thread waits for a non-recursive mutex that one of its own interrupted
frames holds); at `cs` it is a NULL dereference. -/
def step (c : Cfg) (s : State) : Lbl → Option State
  | .signal => if s.blocked then none else some { s with top := .chk, below := s.top :: s.below }
  | .readLock => if s.top = .idle ∧ s.below = [] then some { s with top := .chk } else none
  | .exit =>
    -- pthread runs the destructor only while the key's value (= the reader pointer) is non-NULL
    if s.top = .idle ∧ s.below = [] ∧ s.tls then some { s with top := .xmask } else none
  | .run =>
    match s.top with
    | .idle =>
      match s.below with
      | [] => none
      | p :: rest => some { s with top := p, below := rest }      -- sigreturn
    | .chk => some { s with top := if s.tls then .cs else .mask }
    | .mask => some { s with blocked := true, top := if c.recheck then .recheck else .initLock }
    | .recheck => some { s with top := if s.tls then .unmask else .initLock }
    | .initLock => if s.initHeld then none else some { s with initHeld := true, top := .initInc }
    | .initInc => some { s with refs := s.refs + 1, top := .initUnlock }
    | .initUnlock => some { s with initHeld := false, top := .lock }
    | .lock => if s.regHeld then none else some { s with regHeld := true, top := .add }
    | .add => some { s with tls := true, regs := s.regs + 1,
                            top := if c.unmaskEarly then .unmask else .unlock }
    | .unlock => some { s with regHeld := false, top := if c.unmaskEarly then .cs else .unmask }
    | .unmask =>
      some { s with blocked := false, top := if c.unmaskEarly ∧ s.regHeld then .unlock else .cs }
    | .cs => if s.tls then some { s with top := .idle } else none
    | .xmask => some { s with blocked := true, top := .xlock }
    | .xlock => if s.regHeld then none else some { s with regHeld := true, top := .xremove }
    | .xremove => some { s with tls := false, regs := s.regs - 1,
                                top := if c.unmaskEarly then .xunmask else .xunlock }
    | .xunlock =>
      some { s with regHeld := false,
                    top := if c.unmaskEarly ∨ c.exitRefMasked then .xinitLock else .xunmask }
    | .xinitLock => if s.initHeld then none else some { s with initHeld := true, top := .xdec }
    | .xdec => some { s with refs := s.refs - 1, top := .xinitUnlock }
    | .xinitUnlock =>
      some { s with initHeld := false, top := if c.exitRefMasked ∧ ¬ c.unmaskEarly then .xunmask else .idle }
    | .xunmask =>
      some { s with blocked := false,
                    top := if c.unmaskEarly ∧ s.regHeld then .xunlock
                           else if c.exitRefMasked then .idle else .xinitLock }

def runLbls (c : Cfg) : State → List Lbl → Option State
  | s, [] => some s
  | s, l :: ls => match step c s l with
    | none => none
    | some s' => runLbls c s' ls

/-- pcs strictly between `pthread_sigmask(SIG_BLOCK)` and the matching `SIG_SETMASK` (code as it is) -/
def Pc.inWindow : Pc → Bool
  | .recheck | .initLock | .initInc | .initUnlock | .lock | .add | .unlock | .unmask
  | .xlock | .xremove | .xunlock | .xinitLock | .xdec | .xinitUnlock | .xunmask => true
  | _ => false

/-- the same window in the code before 760a93b: `urcu_bp_exit()` ran outside it -/
def Pc.inWindowUnfixed : Pc → Bool
  | .recheck | .initLock | .initInc | .initUnlock | .lock | .add | .unlock | .unmask
  | .xlock | .xremove | .xunlock | .xunmask => true
  | _ => false

end Sig
end UrcuVerif.BpArena
