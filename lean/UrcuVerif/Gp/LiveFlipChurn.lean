import UrcuVerif.Gp.LiveFlipRun
import UrcuVerif.Props.C01
/-! Necessity of hypothesis (e) of `Props/LiveC02Gp.lean`: a thread that registers and unregisters for ever keeps pass 1
of `wait_for_readers()` busy for ever, although the updater, the store buffers and the readers satisfy all the other
hypotheses.  (`rcu_register_thread()` adds the thread to the registry, which IS the input list of pass 1.) -/
set_option linter.unusedSimpArgs false
set_option linter.unusedVariables false
namespace UrcuVerif.Gp
open UrcuVerif UrcuVerif.Fair

namespace Churn

def c : Cfg := cfgMb

def lab : Nat → Label
  | 0 => .reg 0
  | 1 => .uStart false
  | 2 => .uMbarRet
  | 3 => .uScan1Inactive 0
  | n + 4 => if n % 3 = 0 then .reg 1 else if n % 3 = 1 then .uScan1Inactive 1 else .unreg 1

def st : Nat → State
  | 0 => init
  | i + 1 => match step c (st i) (lab i) with
    | some s => s
    | none => st i

/-- what holds at every position from 4 on; `r1`, `i1` = `reg 1`, `inp 1` -/
structure J (r1 i1 : Bool) (s : State) : Prop where
  p1 : s.upc = .p1
  quiet : ∀ j, s.buf j = [] ∧ s.lnest j = 0 ∧ s.rpc j = .out ∧ s.held j = [] ∧ s.mnest j = 0
  inp0 : s.inp 0 = false
  reg1 : s.reg 1 = r1
  inp1 : s.inp 1 = i1

theorem j_reg {s : State} (h : J false false s) : ∃ s', step c s (.reg 1) = some s' ∧ J true true s' := by
  obtain ⟨h1, h2, h3, h4, h5⟩ := h
  cases hst : step c s (.reg 1) with
  | none => simp [step, h4, (h2 1).2.2.1, c, cfgMb] at hst
  | some s' =>
    refine ⟨s', rfl, ?_⟩
    simp only [step, h4, (h2 1).2.2.1, c, cfgMb] at hst
    simp at hst; subst hst
    constructor <;> simp_all [upd]

theorem j_scan {s : State} (h : J true true s) : ∃ s', step c s (.uScan1Inactive 1) = some s' ∧ J true false s' := by
  obtain ⟨h1, h2, h3, h4, h5⟩ := h
  cases hst : step c s (.uScan1Inactive 1) with
  | none => simp [step, h1, h5, (h2 1).2.2.2.2, c, cfgMb] at hst
  | some s' =>
    refine ⟨s', rfl, ?_⟩
    simp only [step, h1, h5, (h2 1).2.2.2.2, c, cfgMb] at hst
    simp at hst; subst hst
    constructor <;> simp_all [upd]

theorem j_unreg {s : State} (h : J true false s) : ∃ s', step c s (.unreg 1) = some s' ∧ J false false s' := by
  obtain ⟨h1, h2, h3, h4, h5⟩ := h
  cases hst : step c s (.unreg 1) with
  | none => simp [step, h4, (h2 1).2.2.1, (h2 1).2.2.2.1, c, cfgMb] at hst
  | some s' =>
    refine ⟨s', rfl, ?_⟩
    simp only [step, h4, (h2 1).2.2.1, (h2 1).2.2.2.1, c, cfgMb] at hst
    simp at hst; subst hst
    constructor <;> simp_all [upd]

theorem st_succ (i : Nat) {s' : State} (h : step c (st i) (lab i) = some s') : st (i + 1) = s' := by
  simp only [st, h]

def s1 : State := { init with reg := upd init.reg 0 true }
def s2 : State := { s1 with upc := .mbar1, pend := fun _ => true, inp := s1.reg, snap := fun _ => false, qs := fun _ => false,
                             xset := s1.xset || false, tracked := false }
def s3 : State := { s2 with upc := .p1 }
def s4 : State := { s3 with inp := upd s3.inp 0 false, qs := upd s3.qs 0 true }

theorem step0 : step c init (.reg 0) = some s1 := by simp [step, init, c, cfgMb, s1]
theorem step1 : step c s1 (.uStart false) = some s2 := by
  simp only [step, s1, init, c, cfgMb]
  rw [if_pos (by refine ⟨trivial, by simp, ⟨0, by decide, by simp [upd]⟩⟩)]; rfl
theorem step2 : step c s2 .uMbarRet = some s3 := by simp [step, s2, s3, c, cfgMb]
theorem step3 : step c s3 (.uScan1Inactive 0) = some s4 := by simp [step, s3, s2, s1, s4, init, upd, c, cfgMb]

theorem st_1 : st 1 = s1 := st_succ 0 step0
theorem st_2 : st 2 = s2 := st_succ 1 (by rw [st_1]; exact step1)
theorem st_3 : st 3 = s3 := st_succ 2 (by rw [st_2]; exact step2)
theorem st_4 : st 4 = s4 := st_succ 3 (by rw [st_3]; exact step3)

theorem j4 : J false false s4 := by
  constructor <;> simp [s4, s3, s2, s1, init, upd]

theorem lab0 (k : Nat) : lab (3 * k + 4) = .reg 1 := by simp [lab]
theorem lab1 (k : Nat) : lab (3 * k + 1 + 4) = .uScan1Inactive 1 := by
  simp only [lab]; rw [if_neg (by omega), if_pos (by omega)]
theorem lab2 (k : Nat) : lab (3 * k + 2 + 4) = .unreg 1 := by
  simp only [lab]; rw [if_neg (by omega), if_neg (by omega)]

theorem block (k : Nat) :
    J false false (st (3 * k + 4)) ∧ J true true (st (3 * k + 1 + 4)) ∧ J true false (st (3 * k + 2 + 4)) ∧
    step c (st (3 * k + 4)) (lab (3 * k + 4)) = some (st (3 * k + 4 + 1)) ∧
    step c (st (3 * k + 1 + 4)) (lab (3 * k + 1 + 4)) = some (st (3 * k + 1 + 4 + 1)) ∧
    step c (st (3 * k + 2 + 4)) (lab (3 * k + 2 + 4)) = some (st (3 * k + 2 + 4 + 1)) ∧
    J false false (st (3 * (k + 1) + 4)) := by
  have go : ∀ k, J false false (st (3 * k + 4)) →
      J true true (st (3 * k + 1 + 4)) ∧ J true false (st (3 * k + 2 + 4)) ∧
      step c (st (3 * k + 4)) (lab (3 * k + 4)) = some (st (3 * k + 4 + 1)) ∧
      step c (st (3 * k + 1 + 4)) (lab (3 * k + 1 + 4)) = some (st (3 * k + 1 + 4 + 1)) ∧
      step c (st (3 * k + 2 + 4)) (lab (3 * k + 2 + 4)) = some (st (3 * k + 2 + 4 + 1)) ∧
      J false false (st (3 * (k + 1) + 4)) := by
    intro k h0
    obtain ⟨a1, e1, h1⟩ := j_reg h0
    rw [← lab0 k] at e1
    have q1 := st_succ _ e1
    rw [show 3 * k + 4 + 1 = 3 * k + 1 + 4 by omega] at q1
    rw [← q1] at h1
    obtain ⟨a2, e2, h2⟩ := j_scan h1
    rw [← lab1 k] at e2
    have q2 := st_succ _ e2
    rw [show 3 * k + 1 + 4 + 1 = 3 * k + 2 + 4 by omega] at q2
    rw [← q2] at h2
    obtain ⟨a3, e3, h3⟩ := j_unreg h2
    rw [← lab2 k] at e3
    have q3 := st_succ _ e3
    rw [show 3 * k + 2 + 4 + 1 = 3 * (k + 1) + 4 by omega] at q3
    rw [← q3] at h3
    refine ⟨h1, h2, ?_, ?_, ?_, h3⟩
    · rw [e1, show 3 * k + 4 + 1 = 3 * k + 1 + 4 by omega]; congr 1; exact q1.symm
    · rw [e2, show 3 * k + 1 + 4 + 1 = 3 * k + 2 + 4 by omega]; congr 1; exact q2.symm
    · rw [e3, show 3 * k + 2 + 4 + 1 = 3 * (k + 1) + 4 by omega]; congr 1; exact q3.symm
  induction k with
  | zero =>
    have h0 : J false false (st (3 * 0 + 4)) := by rw [show 3 * 0 + 4 = 4 from rfl, st_4]; exact j4
    exact ⟨h0, go 0 h0⟩
  | succ k ih =>
    have h0 := ih.2.2.2.2.2.2
    exact ⟨h0, go (k + 1) h0⟩

theorem next (i : Nat) : step c (st i) (lab i) = some (st (i + 1)) := by
  by_cases h0 : i = 0
  · subst h0; rw [st_1]; exact step0
  by_cases h1 : i = 1
  · subst h1; rw [st_1, st_2]; exact step1
  by_cases h2 : i = 2
  · subst h2; rw [st_2, st_3]; exact step2
  by_cases h3 : i = 3
  · subst h3; rw [st_3, st_4]; exact step3
  obtain ⟨-, -, -, n0, n1, n2, -⟩ := block ((i - 4) / 3)
  by_cases r0 : (i - 4) % 3 = 0
  · rw [show i = 3 * ((i - 4) / 3) + 4 by omega]; exact n0
  by_cases r1 : (i - 4) % 3 = 1
  · rw [show i = 3 * ((i - 4) / 3) + 1 + 4 by omega]; exact n1
  · rw [show i = 3 * ((i - 4) / 3) + 2 + 4 by omega]; exact n2

/-- from position 3 on the updater is in pass 1 and every reader is quiet -/
theorem late (i : Nat) (hi : 4 ≤ i) : (st i).upc = .p1 ∧ ∀ j, (st i).buf j = [] ∧ (st i).lnest j = 0 := by
  obtain ⟨b0, b1, b2, -⟩ := block ((i - 4) / 3)
  by_cases r0 : (i - 4) % 3 = 0
  · rw [show i = 3 * ((i - 4) / 3) + 4 by omega]; exact ⟨b0.p1, fun j => ⟨(b0.quiet j).1, (b0.quiet j).2.1⟩⟩
  by_cases r1 : (i - 4) % 3 = 1
  · rw [show i = 3 * ((i - 4) / 3) + 1 + 4 by omega]; exact ⟨b1.p1, fun j => ⟨(b1.quiet j).1, (b1.quiet j).2.1⟩⟩
  · rw [show i = 3 * ((i - 4) / 3) + 2 + 4 by omega]; exact ⟨b2.p1, fun j => ⟨(b2.quiet j).1, (b2.quiet j).2.1⟩⟩

theorem early (i : Nat) (hi : i < 4) : ∀ j, (st i).buf j = [] ∧ (st i).lnest j = 0 := by
  match i, hi with
  | 0, _ => intro j; simp [st, init]
  | 1, _ => rw [st_1]; intro j; simp [s1, init]
  | 2, _ => rw [st_2]; intro j; simp [s2, s1, init]
  | 3, _ => rw [st_3]; intro j; simp [s3, s2, s1, init]

theorem quietAll (i j : Nat) : (st i).buf j = [] ∧ (st i).lnest j = 0 := by
  by_cases hi : i < 4
  · exact early i hi j
  · exact (late i (by omega)).2 j

end Churn

/-- **registration churn can starve pass 1**: a run of the model on which the updater is scheduled fairly, all store
buffers drain, every read-side section ends, (vacuously) the IPIs are delivered – and the grace period that started
at position 1 never completes, because thread 1 registers and unregisters for ever.  Hence hypothesis (e) of
`synchronize_rcu_eventually_returns` cannot be dropped. -/
theorem churn_starves_pass1 :
    ∃ (ρ : Nat → State) (ℓ : Nat → Option Label), IsRun (step cfgMb) ρ ℓ ∧ Reach cfgMb (ρ 0) ∧
      WeakFair (step cfgMb) ρ ℓ uLabel ∧
      (∀ j, j < cfgMb.n → WeakFair (step cfgMb) ρ ℓ (fun l => l = .flush j)) ∧
      (cfgMb.membarrier = true → ∀ j, j < cfgMb.n → WeakFair (step cfgMb) ρ ℓ (fun l => l = .forced j)) ∧
      (∀ j, j < cfgMb.n → ∀ t, 0 < (ρ t).lnest j → ∃ t', t ≤ t' ∧ (ρ t').lnest j = 0) ∧
      (ρ 2).upc = .mbar1 ∧ ∀ t, 2 ≤ t → (ρ t).upc ≠ .idle := by
  refine ⟨Churn.st, fun i => some (Churn.lab i), ⟨fun i l hl => ?_, fun i hl => by simp at hl⟩, Reach.init, ?_, ?_, ?_, ?_, ?_, ?_⟩
  · simp only [Option.some.injEq] at hl; subst hl; exact Churn.next i
  · -- the updater scans thread 1 again and again
    intro i _
    exact ⟨3 * i + 1 + 4, by omega, _, rfl, by rw [Churn.lab1]; trivial⟩
  · intro j _ i he
    exfalso
    obtain ⟨l, rfl, hen⟩ := he i (Nat.le_refl i)
    simp [step, (Churn.quietAll i j).1] at hen
  · intro h; simp [cfgMb] at h
  · intro j _ t ht
    rw [(Churn.quietAll t j).2] at ht; omega
  · rw [Churn.st_2]; rfl
  · intro t ht
    by_cases h4 : 4 ≤ t
    · rw [(Churn.late t h4).1]; decide
    · have : t = 2 ∨ t = 3 := by omega
      rcases this with rfl | rfl
      · rw [Churn.st_2]; simp [Churn.s2]
      · rw [Churn.st_3]; simp [Churn.s3]

end UrcuVerif.Gp
