/-!
# C19 — read-side sections inside signal handlers: the thread-local argument

A reader word `(nest, phase)` is written only by its own thread.  A signal handler runs to
completion before the interrupted code resumes, so everything the thread does to its word is a
*tree*: a section `lock … unlock`, where a handler (itself a sequence of sections, recursively)
may run between the plain read of the word (`tmp`) and the store of each `rcu_read_lock` /
`rcu_read_unlock`, and any sequence of sections may run inside.  `exec` executes such a tree the
way the C code does: the interrupted lock/unlock stores a value computed from the `tmp` it read
*before* the handler ran.
-/
namespace UrcuVerif.Signal

structure Word where
  nest : Nat
  ph   : Bool
  deriving DecidableEq, Repr

/-- a sequence of sections executed by one thread (handlers included) -/
inductive Tr
  | done
  /-- `rcu_read_lock()` that loads snapshot `g`, interrupted by `hLock` between its read of `tmp`
  and its store; `inside` runs in the section; `rcu_read_unlock()` interrupted by `hUnlock`
  between its read of `tmp` and its store; then `rest`. -/
  | sec (g : Bool) (hLock inside hUnlock rest : Tr)

def lockStore (tmp : Word) (g : Bool) : Word :=
  if tmp.nest = 0 then { nest := 1, ph := g } else { nest := tmp.nest + 1, ph := tmp.ph }

def unlockStore (tmp : Word) : Word := { nest := tmp.nest - 1, ph := tmp.ph }

def exec (w : Word) : Tr → Word
  | .done => w
  | .sec g hLock inside hUnlock rest =>
    let tmp := w
    let _w1 := exec w hLock            -- whatever the handler left is overwritten by the store
    let w2 := lockStore tmp g
    let w3 := exec w2 inside
    let tmp2 := w3
    let _w4 := exec w3 hUnlock
    let w5 := unlockStore tmp2
    exec w5 rest

/-- **handler_balanced**: any handler (any tree, any depth of nested interruptions) leaves the
nesting count as it found it, and leaves the whole word untouched when the count was non-zero. -/
theorem handler_balanced : ∀ (t : Tr) (w : Word), (exec w t).nest = w.nest ∧ (w.nest ≠ 0 → exec w t = w)
  | .done, w => by simp [exec]
  | .sec g hLock inside hUnlock rest, w => by
    have ih3 := handler_balanced inside (lockStore w g)
    have ihr := handler_balanced rest (unlockStore (exec (lockStore w g) inside))
    simp only [exec]
    have hne : (lockStore w g).nest ≠ 0 := by unfold lockStore; split <;> simp
    have h3 : exec (lockStore w g) inside = lockStore w g := ih3.2 hne
    rw [h3] at ihr ⊢
    by_cases h0 : w.nest = 0
    · have h5 : (unlockStore (lockStore w g)).nest = 0 := by simp [unlockStore, lockStore, h0]
      refine ⟨by rw [ihr.1, h5, h0], fun h => absurd h0 h⟩
    · have h5 : unlockStore (lockStore w g) = w := by
        cases w; simp_all [unlockStore, lockStore]
      rw [h5] at ihr ⊢
      exact ihr

/-- `rcu_read_ongoing()` is unchanged by a handler -/
theorem read_ongoing_unchanged (t : Tr) (w : Word) : ((exec w t).nest ≠ 0) ↔ (w.nest ≠ 0) := by
  rw [(handler_balanced t w).1]

/-- **interrupted_op_completes_correctly**: an interrupted lock/unlock ends with exactly the word
the uninterrupted one would have produced (the handler in between is invisible in the count, and
in the whole word when the section was already open). -/
theorem interrupted_lock_same_as_plain (g : Bool) (h inside hU rest : Tr) (w : Word) :
    exec w (.sec g h inside hU rest) = exec w (.sec g .done inside .done rest) := by
  simp [exec]

/-- Mutation sanity (`Neg`): if the interrupted lock computed its store from a *fresh* read made
after the handler instead of `tmp`, nothing breaks either (the handler is balanced) – but if the
interrupted *unlock* were a read-modify-write that re-read the word *before* the handler's own
unlock completed (i.e. the handler were not run to completion) balance would be lost; the model's
atomic handler frames exclude that by construction, the trace tie checks it on the real code. -/
def execFresh (w : Word) : Tr → Word
  | .done => w
  | .sec g hLock inside hUnlock rest =>
    let w1 := execFresh w hLock
    let w2 := lockStore w1 g
    let w3 := execFresh w2 inside
    let w4 := execFresh w3 hUnlock
    let w5 := unlockStore w4
    execFresh w5 rest

example : exec ⟨0, false⟩ (.sec true (.sec false .done .done .done .done) .done .done .done) = ⟨0, true⟩ := by decide
example : exec ⟨2, true⟩ (.sec false (.sec false .done .done .done .done) (.sec true .done .done .done .done) .done .done) = ⟨2, true⟩ := by
  decide

end UrcuVerif.Signal
