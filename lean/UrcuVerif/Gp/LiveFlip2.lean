import UrcuVerif.Gp.LiveFlip
/-! Step-level lemmas for `Props/LiveC02Gp.lean`: the updater's side of the two-pass grace period. -/
set_option linter.unusedSimpArgs false
set_option linter.unusedVariables false
namespace UrcuVerif.Gp
open UrcuVerif UrcuVerif.Fair

/-- the steps of the grace-period leader inside `synchronize_rcu()` (after the start) -/
def uLabel : Label → Prop
  | .uMbarRet | .uScan1Inactive _ | .uScan1Current _ | .uFlip | .uScan2 _ | .uP2Done | .uEnd => True
  | _ => False

/-- a thread registers as a reader -/
def isReg : Label → Bool
  | .reg _ => true
  | _ => false

/-- number of readers `j < n` in a list of the updater -/
def cnt (c : Cfg) (f : Nat → Bool) : Nat := sumTo c.n (fun j => if f j then 1 else 0)

theorem cnt_le (c : Cfg) {f f' : Nat → Bool} (h : ∀ j, j < c.n → f' j = true → f j = true) : cnt c f' ≤ cnt c f := by
  refine sumTo_le (fun j hj => ?_)
  cases hf : f' j with
  | false => simp
  | true => simp [h j hj hf]

theorem cnt_lt (c : Cfg) {f f' : Nat → Bool} (h : ∀ j, j < c.n → f' j = true → f j = true) (k : Nat) (hk : k < c.n)
    (h1 : f k = true) (h2 : f' k = false) : cnt c f' < cnt c f := by
  refine sumTo_lt k hk (by simp [h1, h2]) (fun j hj => ?_)
  cases hf : f' j with
  | false => simp
  | true => simp [h j hj hf]

/-! ### pass 1 -/

theorem p1_own (c : Cfg) {s s' : State} {l : Label} (hp : s.upc = .p1) (hl : uLabel l) (st : step c s l = some s') :
    s'.upc = .p2 ∨ (s'.upc = .p1 ∧ s'.gp = s.gp ∧ (∀ k, s'.inp k = true → s.inp k = true) ∧ cnt c s'.inp < cnt c s.inp) := by
  cases l <;> simp only [uLabel] at hl <;> g_bash <;> simp_all
  all_goals (rename_i j hg
             have hm : ∀ k, upd s.inp j false k = true → s.inp k = true := by
               intro k hk; simp only [upd] at hk; split at hk <;> simp_all
             exact ⟨hm, cnt_lt c (fun k _ hk => hm k hk) j hg.2.1 hg.2.2.1 (by simp [upd])⟩)

theorem p1_other (c : Cfg) {s s' : State} {l : Label} (hp : s.upc = .p1) (hl : ¬ uLabel l) (hr : isReg l = false)
    (st : step c s l = some s') :
    s'.upc = .p1 ∧ s'.gp = s.gp ∧ (∀ j, s'.inp j = true → s.inp j = true) := by
  cases l <;> simp only [uLabel, not_true_eq_false, not_false_eq_true] at hl <;> simp only [isReg, Bool.true_eq_false] at hr <;>
    g_bash <;> simp_all [upd] <;> grind

theorem p1_exit_enabled (c : Cfg) {s : State} (hp : s.upc = .p1) (h : ∀ j, j < c.n → s.inp j = false) :
    Enabled (step c) uLabel s := ⟨.uFlip, trivial, by simp [step, hp]; exact h⟩

theorem p1_scan_enabled (c : Cfg) {s : State} (hp : s.upc = .p1) (j : Nat) (hj : j < c.n) (hi : s.inp j = true)
    (hg : MemGood j s.gp s) : Enabled (step c) uLabel s := by
  by_cases h0 : s.mnest j = 0
  · exact ⟨.uScan1Inactive j, trivial, by simp [step, hp, hj, hi, h0]⟩
  · have : s.mph j = s.gp := by rcases hg with h | h; exact absurd h h0; exact h
    exact ⟨.uScan1Current j, trivial, by simp [step, hp, hj, hi, this]; omega⟩

/-! ### pass 2 -/

theorem p2_own (c : Cfg) {s s' : State} {l : Label} (hp : s.upc = .p2) (hl : uLabel l) (st : step c s l = some s') :
    s'.upc = .mbar2 ∨ (s'.upc = .p2 ∧ s'.gp = s.gp ∧ (∀ k, s'.snap k = true → s.snap k = true) ∧ cnt c s'.snap < cnt c s.snap) := by
  cases l <;> simp only [uLabel] at hl <;> g_bash <;> simp_all
  all_goals (rename_i j hg
             have hm : ∀ k, upd s.snap j false k = true → s.snap k = true := by
               intro k hk; simp only [upd] at hk; split at hk <;> simp_all
             exact ⟨hm, cnt_lt c (fun k _ hk => hm k hk) j hg.2.1 hg.2.2.1 (by simp [upd])⟩)

theorem p2_other (c : Cfg) {s s' : State} {l : Label} (hp : s.upc = .p2) (hl : ¬ uLabel l)
    (st : step c s l = some s') :
    s'.upc = .p2 ∧ s'.gp = s.gp ∧ (∀ j, s'.snap j = true → s.snap j = true) := by
  cases l <;> simp only [uLabel, not_true_eq_false, not_false_eq_true] at hl <;>
    g_bash <;> simp_all [upd] <;> grind

theorem p2_exit_enabled (c : Cfg) {s : State} (hp : s.upc = .p2) (h : ∀ j, j < c.n → s.snap j = false) :
    Enabled (step c) uLabel s := ⟨.uP2Done, trivial, by simp [step, hp]; exact h⟩

theorem p2_scan_enabled (c : Cfg) {s : State} (hp : s.upc = .p2) (j : Nat) (hj : j < c.n) (hi : s.snap j = true)
    (hg : MemGood j s.gp s) : Enabled (step c) uLabel s :=
  ⟨.uScan2 j, trivial, by simp [step, hp, hj, hi]; exact hg⟩

/-! ### the master barriers -/

/-- the updater is inside a master barrier -/
def UPc.mbar : UPc → Bool
  | .mbar1 => true | .mbar2 => true
  | .idle => false | .p1 => false | .p2 => false

def UPc.afterMbar : UPc → UPc
  | .mbar1 => .p1 | .mbar2 => .idle
  | .idle => .idle | .p1 => .p1 | .p2 => .p2

theorem mb_own (c : Cfg) {s s' : State} {l : Label} (hp : s.upc.mbar = true) (hl : uLabel l) (st : step c s l = some s') :
    s'.upc = s.upc.afterMbar := by
  cases l <;> simp only [uLabel] at hl <;> g_bash <;> simp_all [UPc.mbar, UPc.afterMbar]

theorem mb_forced (c : Cfg) {s s' : State} (j : Nat) (hj : j < c.n) (st : step c s (.forced j) = some s') :
    s'.upc = s.upc ∧ cnt c s'.pend < cnt c s.pend := by
  g_bash
  rename_i hg
  refine ⟨rfl, cnt_lt c (fun k _ hk => ?_) j hj hg.2.1 (by simp [upd])⟩
  simp only [upd] at hk; split at hk <;> simp_all

theorem mb_other (c : Cfg) {s s' : State} {l : Label} (hp : s.upc.mbar = true) (hl : ¬ uLabel l)
    (st : step c s l = some s') : s'.upc = s.upc ∧ (∀ j, s'.pend j = true → s.pend j = true) := by
  cases l <;> simp only [uLabel, not_true_eq_false, not_false_eq_true] at hl <;>
    g_bash <;> simp_all [upd, UPc.mbar] <;> grind

theorem mb_exit_enabled (c : Cfg) {s : State} (hp : s.upc.mbar = true)
    (h : c.membarrier = true → ∀ j, j < c.n → s.pend j = false) : Enabled (step c) uLabel s := by
  cases hq : s.upc <;> simp [hq, UPc.mbar] at hp
  · exact ⟨.uMbarRet, trivial, by simp [step, hq]; exact h⟩
  · exact ⟨.uEnd, trivial, by simp [step, hq]; exact h⟩

theorem mb_forced_enabled (c : Cfg) {s : State} (hp : s.upc.mbar = true) (j : Nat) (hpj : s.pend j = true)
    (hm : c.membarrier = true) : (step c s (.forced j)).isSome = true := by
  cases hq : s.upc <;> simp [hq, UPc.mbar] at hp <;> simp [step, hq, hpj, hm]

/-- the updater becomes idle only by returning from `synchronize_rcu()` -/
theorem idle_by_uEnd (c : Cfg) {s s' : State} {l : Label} (h1 : s.upc ≠ .idle) (h2 : s'.upc = .idle)
    (st : step c s l = some s') : l = .uEnd := by
  cases l <;> g_bash <;> simp_all

/-- the tracked grace period stays tracked until it is done -/
theorem tracked_unless (c : Cfg) {s s' : State} {l : Label} (h1 : s.tracked = true) (h2 : s.upc ≠ .idle)
    (st : step c s l = some s') : (s'.tracked = true ∧ s'.upc ≠ .idle) ∨ s'.trackedDone = true := by
  cases l <;> g_bash <;> simp_all

theorem trackedDone_stable (c : Cfg) {s s' : State} {l : Label} (h1 : s.trackedDone = true)
    (st : step c s l = some s') : s'.trackedDone = true := by
  cases l <;> g_bash <;> simp_all

end UrcuVerif.Gp
