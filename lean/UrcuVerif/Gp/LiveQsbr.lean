import UrcuVerif.Machine.Fair
import UrcuVerif.Gp.Qsbr
/-! Step-level lemmas for `Props/LiveC02Qsbr.lean` (liveness of `synchronize_rcu()` in the QSBR flavour).
Same structure as `Gp/LiveFlip.lean`: fix a reader `j` and the value `g` of `rcu_gp.ctr` during the grace period; the
scan accepts `j` iff its word in memory is 0 (offline) or `g`.  The only stale snapshot a reader can hold is the
`rcu_gp.ctr` value it loaded in a `rcu_quiescent_state()` that is still in progress (`rpc j = ld g'`). -/
set_option linter.unusedSimpArgs false
set_option linter.unusedVariables false
namespace UrcuVerif.Qsbr
open UrcuVerif UrcuVerif.Fair

def ldStale (g : Nat) : RPc → Nat
  | .ld g' => if g' = g then 0 else 1
  | .out => 0 | .fence => 0

def phi (j : Nat) (g : Nat) (s : State) : Nat := ldStale g (s.rpc j)

/-- the reader's own view of its word is offline or the current counter -/
def LocalGood (j : Nat) (g : Nat) (s : State) : Prop := s.lctr j = 0 ∨ s.lctr j = g

def badE (g : Nat) (e : Nat) : Bool := e != 0 && e != g

def lastBad (g : Nat) : List Nat → Nat
  | [] => 0
  | e :: r => if lastBad g r = 0 then (if badE g e then 1 else 0) else lastBad g r + 1

def MemGood (j : Nat) (g : Nat) (s : State) : Prop := s.mctr j = 0 ∨ s.mctr j = g

def mM (j : Nat) (g : Nat) (s : State) : Nat :=
  2 * lastBad g (s.buf j) + (if s.mctr j = 0 ∨ s.mctr j = g then 0 else 1)

theorem lastBad_snoc_good (g : Nat) (l : List Nat) (e : Nat) (h : badE g e = false) :
    lastBad g (l ++ [e]) = lastBad g l := by
  induction l with
  | nil => simp [lastBad, h]
  | cons a r ih => simp only [List.cons_append, lastBad, ih]

theorem lastBad_tail (g : Nat) (e : Nat) (r : List Nat) : lastBad g r = lastBad g (e :: r) - 1 := by
  simp only [lastBad]
  split
  · rename_i h; rw [h]; split <;> rfl
  · omega

theorem lastBad_head_good (g : Nat) (e : Nat) (r : List Nat) (h : lastBad g (e :: r) = 0) : badE g e = false := by
  simp only [lastBad] at h
  split at h
  · split at h
    · omega
    · rename_i hb; simpa using hb
  · omega

def wordLabel (j : Nat) : Label → Prop
  | .qSt i | .qOff i | .flush i => i = j
  | _ => False

set_option hygiene false in
macro "q_bash" : tactic => `(tactic| (
  simp only [step] at st <;> (repeat' split at st) <;>
  (first | (simp at st; done) | skip) <;>
  simp only [Option.some.injEq] at st <;> subst st))

theorem word_frame (c : Cfg) {s s' : State} {l : Label} (j : Nat) (hl : ¬ wordLabel j l) (st : step c s l = some s') :
    s'.buf j = s.buf j ∧ s'.mctr j = s.mctr j ∧ s'.lctr j = s.lctr j := by
  cases l <;> simp only [wordLabel] at hl <;> q_bash <;> simp only [upd] <;> grind

theorem phi_step (c : Cfg) {s s' : State} {l : Label} (j : Nat) (g : Nat) (hg : s.gp = g) (st : step c s l = some s') :
    phi j g s' ≤ phi j g s := by
  cases l <;> q_bash <;> simp only [phi, upd] <;> (try (split <;> simp_all [ldStale])) <;>
    (first | exact Nat.le_refl _ | omega | skip)

theorem mM_congr (j : Nat) (g : Nat) {s s' : State} (h1 : s'.buf j = s.buf j) (h2 : s'.mctr j = s.mctr j) :
    mM j g s' = mM j g s := by
  simp only [mM, h1, h2]

theorem settle_step (c : Cfg) {s s' : State} {l : Label} (j : Nat) (g : Nat) (hg : s.gp = g)
    (hlg : LocalGood j g s) (st : step c s l = some s') :
    phi j g s' < phi j g s ∨
      (LocalGood j g s' ∧ mM j g s' ≤ mM j g s ∧ (l = .flush j → mM j g s ≠ 0 → mM j g s' < mM j g s)) := by
  by_cases hw : wordLabel j l
  · unfold LocalGood at hlg ⊢
    cases l <;> simp only [wordLabel] at hw <;> (have hw' := hw.symm; subst hw')
    case qSt =>
      simp only [step] at st
      split at st
      · rename_i g' hq
        split at st
        · simp only [Option.some.injEq] at st; subst st
          by_cases hgg : g' = g
          · subst hgg
            right
            refine ⟨by simp [upd], ?_, by intro h; cases h⟩
            simp only [mM, upd, ↓reduceIte]
            rw [lastBad_snoc_good _ _ _ (by simp [badE])]; exact Nat.le_refl _
          · left
            simp [phi, upd, hq, hgg, ldStale]
        · simp at st
      · simp at st
    case qOff =>
      simp only [step] at st
      split at st
      · simp only [Option.some.injEq] at st; subst st
        right
        refine ⟨by simp [upd], ?_, by intro h; cases h⟩
        simp only [mM, upd, ↓reduceIte]
        rw [lastBad_snoc_good _ _ _ (by simp [badE])]; exact Nat.le_refl _
      · simp at st
    case flush =>
      simp only [step] at st
      split at st
      · rename_i e rest hb
        simp only [Option.some.injEq] at st; subst st
        right
        have ht := lastBad_tail g e rest
        refine ⟨by simpa [upd] using hlg, ?_, ?_⟩
        · simp only [mM, upd, ↓reduceIte, hb]
          by_cases hk : lastBad g (e :: rest) = 0
          · have hge := lastBad_head_good g e rest hk
            have : e = 0 ∨ e = g := by
              simp only [badE, Bool.and_eq_false_iff, bne_eq_false_iff_eq] at hge; exact hge
            rw [if_pos this]; omega
          · split <;> split <;> omega
        · intro _ hm
          simp only [mM, upd, ↓reduceIte, hb] at hm ⊢
          by_cases hk : lastBad g (e :: rest) = 0
          · have hge := lastBad_head_good g e rest hk
            have : e = 0 ∨ e = g := by
              simp only [badE, Bool.and_eq_false_iff, bne_eq_false_iff_eq] at hge; exact hge
            rw [if_pos this]
            rw [hk] at hm ht ⊢
            by_cases hmg : s.mctr j = 0 ∨ s.mctr j = g
            · rw [if_pos hmg] at hm; omega
            · rw [if_neg hmg]; omega
          · split <;> split <;> omega
      · simp at st
  · right
    obtain ⟨h1, h2, h3⟩ := word_frame c j hw st
    refine ⟨by unfold LocalGood at hlg ⊢; rw [h3]; exact hlg, Nat.le_of_eq (mM_congr j g h1 h2), ?_⟩
    intro e; subst e; exact absurd rfl hw

theorem settle_enabled (c : Cfg) {s : State} (I : Inv c s) (j : Nat) (g : Nat) (hlg : LocalGood j g s)
    (hm : mM j g s ≠ 0) : (step c s (.flush j)).isSome = true := by
  have : s.buf j ≠ [] := by
    intro hb
    have hv := I.empty_view j hb
    unfold LocalGood at hlg
    simp only [mM, hb, lastBad] at hm
    rw [if_pos (by rw [hv]; exact hlg)] at hm
    exact hm rfl
  simp only [step]
  cases hb : s.buf j with
  | nil => exact absurd hb this
  | cons e r => rfl

theorem mM_zero_good (j : Nat) (g : Nat) {s : State} (h : mM j g s = 0) : MemGood j g s := by
  unfold mM at h
  unfold MemGood
  split at h
  · assumption
  · omega

/-! ### the updater -/

def uLabel : Label → Prop
  | .uScan _ | .uEnd => True
  | _ => False

def isReg : Label → Bool
  | .reg _ => true
  | _ => false

def cnt (c : Cfg) (f : Nat → Bool) : Nat := sumTo c.n (fun j => if f j then 1 else 0)

theorem cnt_le (c : Cfg) {f f' : Nat → Bool} (h : ∀ j, j < c.n → f' j = true → f j = true) : cnt c f' ≤ cnt c f := by
  refine sumTo_le (fun j hj => ?_)
  cases hf : f' j with
  | false => simp
  | true => simp [h j hj hf]

theorem cnt_lt (c : Cfg) {f f' : Nat → Bool} (h : ∀ j, j < c.n → f' j = true → f j = true) (k : Nat) (hk : k < c.n)
    (h1 : f k = true) (h2 : f' k = false) : cnt c f' < cnt c f := by
  refine sumTo_lt k hk (by simp [h1, h2]) (fun j hj => ?_)
  cases hf : f' j with
  | false => simp
  | true => simp [h j hj hf]

theorem scan_own (c : Cfg) {s s' : State} {l : Label} (hp : s.upc = .scan) (hl : uLabel l) (st : step c s l = some s') :
    s'.upc = .idle ∨ (s'.upc = .scan ∧ s'.gp = s.gp ∧ (∀ k, s'.inp k = true → s.inp k = true) ∧ cnt c s'.inp < cnt c s.inp) := by
  cases l <;> simp only [uLabel] at hl <;> q_bash <;> simp_all
  all_goals (rename_i j hg
             have hm : ∀ k, upd s.inp j false k = true → s.inp k = true := by
               intro k hk; simp only [upd] at hk; split at hk <;> simp_all
             exact ⟨hm, cnt_lt c (fun k _ hk => hm k hk) j hg.2.1 hg.2.2.1 (by simp [upd])⟩)

theorem scan_other (c : Cfg) {s s' : State} {l : Label} (hp : s.upc = .scan) (hl : ¬ uLabel l) (hr : isReg l = false)
    (st : step c s l = some s') :
    s'.upc = .scan ∧ s'.gp = s.gp ∧ (∀ j, s'.inp j = true → s.inp j = true) := by
  cases l <;> simp only [uLabel, not_true_eq_false, not_false_eq_true] at hl <;> simp only [isReg, Bool.true_eq_false] at hr <;>
    q_bash <;> simp_all [upd] <;> grind

theorem scan_exit_enabled (c : Cfg) {s : State} (hp : s.upc = .scan) (h : ∀ j, j < c.n → s.inp j = false) :
    Enabled (step c) uLabel s := ⟨.uEnd, trivial, by simp [step, hp]; exact h⟩

theorem scan_scan_enabled (c : Cfg) {s : State} (hp : s.upc = .scan) (j : Nat) (hj : j < c.n) (hi : s.inp j = true)
    (hg : MemGood j s.gp s) : Enabled (step c) uLabel s :=
  ⟨.uScan j, trivial, by simp [step, hp, hj, hi]; exact hg⟩

theorem idle_by_uEnd (c : Cfg) {s s' : State} {l : Label} (h1 : s.upc ≠ .idle) (h2 : s'.upc = .idle)
    (st : step c s l = some s') : l = .uEnd := by
  cases l <;> q_bash <;> simp_all

end UrcuVerif.Qsbr
