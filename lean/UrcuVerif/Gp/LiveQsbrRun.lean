import UrcuVerif.Gp.LiveQsbr
/-! Run-level lemmas for `Props/LiveC02Qsbr.lean` (adapted from `Gp/LiveFlipRun.lean`). -/
set_option linter.unusedSimpArgs false
set_option linter.unusedVariables false
namespace UrcuVerif.Qsbr
open UrcuVerif UrcuVerif.Fair

theorem qreach_along (c : Cfg) {ρ : Nat → State} {ℓ : Nat → Option Label} (hrun : IsRun (step c) ρ ℓ)
    (hreach : Reach c (ρ 0)) (j : Nat) : Reach c (ρ j) :=
  inv_along hrun (Reach c) (fun _ _ _ h st => Reach.step h st) 0 hreach j (Nat.zero_le j)

/-- **the reader's word settles.**  Fix a reader `j` and suppose that from position `i0` on the phase of `rcu_gp.ctr`
is `g` (a grace period is in progress).  If `j`'s store buffer drains (`hflush`) and `j` again and again announces a
quiescent state for the current counter or is offline (`hq`), then from some position on the memory copy of `j`'s word
is – and stays – 0 (offline) or `g`.  The bound `n` is on the stale snapshot `j` may still hold (`phi`). -/
theorem reader_settles (c : Cfg) {ρ : Nat → State} {ℓ : Nat → Option Label} (hrun : IsRun (step c) ρ ℓ)
    (hR : ∀ t, Reach c (ρ t)) (j : Nat) (g : Nat)
    (hflush : WeakFair (step c) ρ ℓ (fun l => l = .flush j))
    (hq : ∀ t, ∃ t', t ≤ t' ∧ ((ρ t').lctr j = 0 ∨ (ρ t').lctr j = (ρ t').gp)) :
    ∀ n i0, (∀ t, i0 ≤ t → (ρ t).gp = g) → phi j g (ρ i0) ≤ n → ∃ T, i0 ≤ T ∧ ∀ t, T ≤ t → MemGood j g (ρ t) := by
  intro n
  induction n using Nat.strongRecOn with
  | _ n ih =>
    intro i0 hgp hphi
    have hI : ∀ t, Inv c (ρ t) := fun t => inv_reach c (hR t)
    -- the number of stale snapshots does not increase
    have hmono1 : ∀ t, i0 ≤ t → phi j g (ρ (t + 1)) ≤ phi j g (ρ t) := by
      intro t ht
      cases hl : ℓ t with
      | none => rw [hrun.idle t hl]; exact Nat.le_refl _
      | some l => exact phi_step c j g (hgp t ht) (hrun.move t l hl)
    have hmono : ∀ d, phi j g (ρ (i0 + d)) ≤ phi j g (ρ i0) := by
      intro d
      induction d with
      | zero => exact Nat.le_refl _
      | succ d ihd => exact Nat.le_trans (hmono1 (i0 + d) (by omega)) ihd
    have hle : ∀ t, i0 ≤ t → phi j g (ρ t) ≤ n := by
      intro t ht
      have := hmono (t - i0); rw [show i0 + (t - i0) = t by omega] at this
      omega
    -- as soon as a stale snapshot is consumed the induction hypothesis applies
    have useIH : ∀ t, i0 ≤ t → phi j g (ρ t) < n → ∃ T, i0 ≤ T ∧ ∀ t', T ≤ t' → MemGood j g (ρ t') := by
      intro t ht hlt
      obtain ⟨T, hT, hgood⟩ := ih (phi j g (ρ t)) hlt t (fun t' ht' => hgp t' (by omega)) (Nat.le_refl _)
      exact ⟨T, by omega, hgood⟩
    -- 1. the reader's own view becomes acceptable (its current section ends)
    have h1 : ∃ t1, i0 ≤ t1 ∧ LocalGood j g (ρ t1) := by
      obtain ⟨t', ht', hz⟩ := hq i0
      refine ⟨t', ht', ?_⟩
      unfold LocalGood
      rw [← hgp t' ht']; exact hz
    obtain ⟨t1, ht1, hlg1⟩ := h1
    -- 2. the buffered stores of the old section drain
    have h2 := fair_measure_leadsTo_from hrun (fun l => l = .flush j) (fun s => Inv c s ∧ s.gp = g)
      (fun s => LocalGood j g s ∧ phi j g s ≤ n) (fun s => (LocalGood j g s ∧ mM j g s = 0) ∨ phi j g s < n)
      (fun s => mM j g s) i0 (fun t ht => ⟨hI t, hgp t ht⟩) hflush
      (fun s l s' I p ng st => by
        rcases settle_step c j g I.2 p.1 st with h | h
        · exact Or.inr (Or.inr (by omega))
        · exact Or.inl ⟨h.1, Nat.le_trans (phi_step c j g I.2 st) p.2⟩)
      (fun s I p ng => ⟨.flush j, rfl, settle_enabled c I.1 j g p.1 (fun h => ng (Or.inl ⟨p.1, h⟩))⟩)
      (fun s l s' I p ng hl st => by
        rcases settle_step c j g I.2 p.1 st with h | h
        · exact Or.inr (Or.inr (by omega))
        · exact Or.inl (h.2.2 hl (fun h0 => ng (Or.inl ⟨p.1, h0⟩))))
      (fun s l s' I p ng hl st => by
        rcases settle_step c j g I.2 p.1 st with h | h
        · exact Or.inr (Or.inr (by omega))
        · exact Or.inl h.2.1)
      t1 ht1 ⟨hlg1, hle t1 ht1⟩
    obtain ⟨t2, ht2, hg2⟩ := h2
    rcases hg2 with hall | hlt
    · -- 3. acceptable for good, unless a stale snapshot is stored later
      by_cases hst : ∀ t, t2 ≤ t → LocalGood j g (ρ t) ∧ mM j g (ρ t) = 0
      · exact ⟨t2, by omega, fun t ht => mM_zero_good j g (hst t ht).2⟩
      · have : ∃ t3, t2 ≤ t3 ∧ ¬ (LocalGood j g (ρ t3) ∧ mM j g (ρ t3) = 0) :=
          Classical.byContradiction (fun hno => hst (fun t ht => Classical.byContradiction (fun h => hno ⟨t, ht, h⟩)))
        obtain ⟨t3, ht3, hbad⟩ := this
        obtain ⟨m, hm1, hm2, hin, hout⟩ := change_step (ρ := ρ) (fun s => LocalGood j g s ∧ mM j g s = 0) ht3 hall hbad
        cases hl : ℓ m with
        | none => rw [hrun.idle m hl] at hout; exact absurd hin hout
        | some l =>
          rcases settle_step c j g (hgp m (by omega)) hin.1 (hrun.move m l hl) with h | h
          · exact useIH (m + 1) (by omega) (by have := hle m (by omega); omega)
          · exact absurd ⟨h.1, by have := h.2.1; omega⟩ hout
    · exact useIH t2 (by omega) hlt

/-- a non-increasing sequence of naturals is eventually constant -/
theorem nat_stabilises (f : Nat → Nat) (i : Nat) (h : ∀ t, i ≤ t → f (t + 1) ≤ f t) :
    ∃ T, i ≤ T ∧ ∀ t, T ≤ t → f t = f T := by
  have mono : ∀ a, i ≤ a → ∀ d, f (a + d) ≤ f a := by
    intro a ha d
    induction d with
    | zero => exact Nat.le_refl _
    | succ d ih => exact Nat.le_trans (h (a + d) (by omega)) ih
  have key : ∀ n a, i ≤ a → f a = n → ∃ T, a ≤ T ∧ ∀ t, T ≤ t → f t = f T := by
    intro n
    induction n using Nat.strongRecOn with
    | _ n ih =>
      intro a ha hn
      by_cases hc : ∀ t, a ≤ t → f t = f a
      · exact ⟨a, Nat.le_refl a, hc⟩
      · have : ∃ t, a ≤ t ∧ f t ≠ f a := Classical.byContradiction (fun hno => hc (fun t ht =>
          Classical.byContradiction (fun h => hno ⟨t, ht, h⟩)))
        obtain ⟨t, ht, hne⟩ := this
        have hle := mono a ha (t - a)
        rw [show a + (t - a) = t by omega] at hle
        obtain ⟨T, hT, hst⟩ := ih (f t) (by omega) t (by omega) rfl
        exact ⟨T, by omega, hst⟩
  obtain ⟨T, hT, hst⟩ := key (f i) i (Nat.le_refl i) rfl
  exact ⟨T, hT, hst⟩

/-- **the scan of `wait_for_readers()` terminates** (generic form). -/
theorem pass_terminates (c : Cfg) {ρ : Nat → State} {ℓ : Nat → Option Label} (hrun : IsRun (step c) ρ ℓ)
    (hR : ∀ t, Reach c (ρ t)) (pc next : UPc) (fld : State → Nat → Bool)
    (hown : ∀ s l s', s.upc = pc → uLabel l → step c s l = some s' →
      s'.upc = next ∨ (s'.upc = pc ∧ s'.gp = s.gp ∧ (∀ j, fld s' j = true → fld s j = true) ∧ cnt c (fld s') < cnt c (fld s)))
    (hoth : ∀ s l s', s.upc = pc → ¬ uLabel l → isReg l = false → step c s l = some s' →
      s'.upc = pc ∧ s'.gp = s.gp ∧ (∀ j, fld s' j = true → fld s j = true))
    (hexit : ∀ s, s.upc = pc → (∀ j, j < c.n → fld s j = false) → Enabled (step c) uLabel s)
    (hscan : ∀ s j, s.upc = pc → j < c.n → fld s j = true → MemGood j s.gp s → Enabled (step c) uLabel s)
    (hu : WeakFair (step c) ρ ℓ uLabel)
    (hflush : ∀ j, j < c.n → WeakFair (step c) ρ ℓ (fun l => l = .flush j))
    (hq : ∀ j, j < c.n → ∀ t, ∃ t', t ≤ t' ∧ ((ρ t').lctr j = 0 ∨ (ρ t').lctr j = (ρ t').gp)) :
    ∀ i, (∀ t l, i ≤ t → ℓ t = some l → isReg l = false) → (ρ i).upc = pc → ∃ t, i ≤ t ∧ (ρ t).upc = next := by
  intro i hnr hp
  apply Classical.byContradiction
  intro hno
  have hnn : ∀ t, i ≤ t → ¬ (ρ t).upc = next := fun t ht h => hno ⟨t, ht, h⟩
  -- one step inside the pass: the phase stays, the list only shrinks, an updater step shrinks it strictly
  have hstep : ∀ t, i ≤ t → (ρ t).upc = pc → (ρ (t + 1)).upc = pc ∧ (ρ (t + 1)).gp = (ρ t).gp ∧
      (∀ j, fld (ρ (t + 1)) j = true → fld (ρ t) j = true) ∧
      (∀ l, ℓ t = some l → uLabel l → cnt c (fld (ρ (t + 1))) < cnt c (fld (ρ t))) := by
    intro t ht hpt
    cases hl : ℓ t with
    | none => rw [hrun.idle t hl]; exact ⟨hpt, rfl, fun _ h => h, fun l h => by cases h⟩
    | some l =>
      have st := hrun.move t l hl
      by_cases hul : uLabel l
      · rcases hown _ l _ hpt hul st with h | h
        · exact absurd h (hnn (t + 1) (by omega))
        · exact ⟨h.1, h.2.1, h.2.2.1, fun l' _ _ => h.2.2.2⟩
      · have := hoth _ l _ hpt hul (hnr t l ht hl) st
        exact ⟨this.1, this.2.1, this.2.2, fun l' e hu' => by cases e; exact absurd hu' hul⟩
  have hpc : ∀ d, (ρ (i + d)).upc = pc := by
    intro d
    induction d with
    | zero => exact hp
    | succ d ih => exact (hstep (i + d) (by omega) ih).1
  have hpcT : ∀ t, i ≤ t → (ρ t).upc = pc := fun t ht => by
    have := hpc (t - i); rwa [show i + (t - i) = t by omega] at this
  -- the size of the list stabilises
  obtain ⟨T, hT, hstab⟩ := nat_stabilises (fun t => cnt c (fld (ρ t))) i (fun t ht =>
    cnt_le c (fun j _ h => (hstep t ht (hpcT t ht)).2.2.1 j h))
  -- from then on the updater takes no step
  have hnou : ∀ t, T ≤ t → ∀ l, ℓ t = some l → ¬ uLabel l := by
    intro t ht l hl hul
    have := (hstep t (by omega) (hpcT t (by omega))).2.2.2 l hl hul
    have h1 := hstab t ht
    have h2 := hstab (t + 1) (by omega)
    omega
  -- the phase is constant
  have hgp : ∀ d, (ρ (T + d)).gp = (ρ T).gp := by
    intro d
    induction d with
    | zero => rfl
    | succ d ih =>
      rw [show T + (d + 1) = T + d + 1 by omega, (hstep (T + d) (by omega) (hpcT _ (by omega))).2.1]; exact ih
  have hgpT : ∀ t, T ≤ t → (ρ t).gp = (ρ T).gp := fun t ht => by
    have := hgp (t - T); rwa [show T + (t - T) = t by omega] at this
  -- and so is the list
  have hfld : ∀ j, j < c.n → fld (ρ T) j = true → ∀ d, fld (ρ (T + d)) j = true := by
    intro j hj hf d
    induction d with
    | zero => exact hf
    | succ d ih =>
      apply Classical.byContradiction
      intro hnf
      have hnf : fld (ρ (T + d + 1)) j = false := by
        rw [show T + d + 1 = T + (d + 1) by omega]; simpa using hnf
      have hlt := cnt_lt c (fun k _ h => (hstep (T + d) (by omega) (hpcT _ (by omega))).2.2.1 k h) j hj ih hnf
      have h1 := hstab (T + d) (by omega)
      have h2 := hstab (T + d + 1) (by omega)
      omega
  by_cases hemp : ∀ j, j < c.n → fld (ρ T) j = false
  · -- the list is empty: the exit step is enabled for ever
    have hempT : ∀ t, T ≤ t → ∀ j, j < c.n → fld (ρ t) j = false := by
      intro t ht
      have : ∀ d, ∀ j, j < c.n → fld (ρ (T + d)) j = false := by
        intro d
        induction d with
        | zero => exact hemp
        | succ d ih =>
          intro j hj
          cases hf : fld (ρ (T + (d + 1))) j with
          | false => rfl
          | true =>
            have := (hstep (T + d) (by omega) (hpcT _ (by omega))).2.2.1 j (by rw [show T + d + 1 = T + (d + 1) by omega]; exact hf)
            rw [ih j hj] at this; cases this
      have := this (t - T); rwa [show T + (t - T) = t by omega] at this
    obtain ⟨t, ht, l, hl, hul⟩ := hu T (fun t ht => hexit _ (hpcT t (by omega)) (hempT t ht))
    exact hnou t ht l hl hul
  · -- some reader stays in the list: its word settles, its scan is enabled for ever
    have : ∃ j, j < c.n ∧ fld (ρ T) j = true := Classical.byContradiction (fun hno' => hemp (fun j hj => by
      cases hf : fld (ρ T) j with
      | false => rfl
      | true => exact absurd ⟨j, hj, hf⟩ hno'))
    obtain ⟨j, hj, hf⟩ := this
    obtain ⟨T', hT', hgood⟩ := reader_settles c hrun hR j (ρ T).gp (hflush j hj) (hq j hj) (phi j (ρ T).gp (ρ T)) T
      hgpT (Nat.le_refl _)
    obtain ⟨t, ht, l, hl, hul⟩ := hu T' (fun t ht => by
      have hft := hfld j hj hf (t - T); rw [show T + (t - T) = t by omega] at hft
      refine hscan _ j (hpcT t (by omega)) hj hft ?_
      rw [hgpT t (by omega)]; exact hgood t ht)
    exact hnou t (by omega) l hl hul

end UrcuVerif.Qsbr
