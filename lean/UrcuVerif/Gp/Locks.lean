import UrcuVerif.Machine.Upd
/-!
# C02 — lock discipline of `src/urcu.c` / `src/urcu-qsbr.c` / `src/urcu-bp.c`: no lock-order deadlock

Any number of threads; each is idle, inside `synchronize_rcu()` or inside `rcu_(un)register_thread()`.
`synchronize_rcu()`: `lock(rcu_gp_lock)` ; `lock(rcu_registry_lock)` ; … `wait_for_readers()` releases
`rcu_registry_lock` around every wait and takes it again (still holding `rcu_gp_lock`) … ;
`unlock(rcu_registry_lock)` ; `unlock(rcu_gp_lock)`.  Registration: `lock(rcu_registry_lock)` ; list
surgery ; `unlock`.  (Callers merged behind a leader take no lock at all: they wait on their node, C02's
`waiter_no_lost_wakeup`.)  The order of LOCK/UNLOCK events of every thread of the real code is checked against
exactly this discipline by the trace tie (`Driver/Gp.lean`, every flavor).

`lock_deadlock_free`: in every reachable state every thread that is not idle is enabled, or waits for a lock
whose owner is enabled, or waits for a lock whose owner waits for a lock whose owner is enabled – the wait-for
graph of the two locks has no cycle and every chain has length ≤ 2.  Whether the *wait for readers* ends is the
futex handshake (`no_lost_wakeup`), not a lock matter: in this model the waiting leader can always retake the
registry lock when it is free.
-/
namespace UrcuVerif.Locks
open UrcuVerif

inductive Pc
  | idle
  | wantGp      -- synchronize_rcu(): before mutex_lock(&rcu_gp_lock)
  | haveGp      -- holds rcu_gp_lock, before mutex_lock(&rcu_registry_lock)
  | both        -- holds both (scan, flip, list splices)
  | waiting     -- wait_for_readers(): released rcu_registry_lock around the wait, still holds rcu_gp_lock
  | gpOnly      -- released rcu_registry_lock at `out:`, before mutex_unlock(&rcu_gp_lock)
  | wantReg     -- rcu_(un)register_thread(): before mutex_lock(&rcu_registry_lock)
  | haveReg     -- holds rcu_registry_lock (registry list surgery)
  deriving DecidableEq, Repr

structure State where
  pc  : Nat → Pc
  gp  : Option Nat      -- owner of rcu_gp_lock
  reg : Option Nat      -- owner of rcu_registry_lock

def init : State := { pc := fun _ => .idle, gp := none, reg := none }

inductive Label
  | callSync | lockGp | lockReg | relReg | reacq | unlockReg | unlockGp
  | callReg | lockReg2 | unlockReg2
  deriving DecidableEq, Repr

def step (s : State) (t : Nat) : Label → Option State
  | .callSync => if s.pc t = .idle then some { s with pc := upd s.pc t .wantGp } else none
  | .lockGp => if s.pc t = .wantGp ∧ s.gp = none then some { s with pc := upd s.pc t .haveGp, gp := some t } else none
  | .lockReg => if s.pc t = .haveGp ∧ s.reg = none then some { s with pc := upd s.pc t .both, reg := some t } else none
  | .relReg => if s.pc t = .both then some { s with pc := upd s.pc t .waiting, reg := none } else none
  | .reacq => if s.pc t = .waiting ∧ s.reg = none then some { s with pc := upd s.pc t .both, reg := some t } else none
  | .unlockReg => if s.pc t = .both then some { s with pc := upd s.pc t .gpOnly, reg := none } else none
  | .unlockGp => if s.pc t = .gpOnly then some { s with pc := upd s.pc t .idle, gp := none } else none
  | .callReg => if s.pc t = .idle then some { s with pc := upd s.pc t .wantReg } else none
  | .lockReg2 => if s.pc t = .wantReg ∧ s.reg = none then some { s with pc := upd s.pc t .haveReg, reg := some t } else none
  | .unlockReg2 => if s.pc t = .haveReg then some { s with pc := upd s.pc t .idle, reg := none } else none

inductive Reach : State → Prop
  | init : Reach init
  | step {s s' t l} : Reach s → step s t l = some s' → Reach s'

def holdsGp (p : Pc) : Bool := p = .haveGp || p = .both || p = .waiting || p = .gpOnly
def holdsReg (p : Pc) : Bool := p = .both || p = .haveReg

structure Inv (s : State) : Prop where
  gp_owner : ∀ t, s.gp = some t ↔ holdsGp (s.pc t) = true
  reg_owner : ∀ t, s.reg = some t ↔ holdsReg (s.pc t) = true

theorem inv_init : Inv init := by
  constructor <;> simp [init, holdsGp, holdsReg]

theorem inv_step {s s' : State} {t l} (h : Inv s) (st : step s t l = some s') : Inv s' := by
  obtain ⟨h1, h2⟩ := h
  cases l <;> simp only [step] at st <;> split at st <;> (try (simp at st; done)) <;>
    (simp only [Option.some.injEq] at st; subst st; constructor <;> simp only [upd, holdsGp, holdsReg] at * <;> grind)

theorem inv_reach {s : State} (r : Reach s) : Inv s := by
  induction r with
  | init => exact inv_init
  | step _ st ih => exact inv_step ih st

/-- thread `t` has an enabled step -/
def Enabled (s : State) (t : Nat) : Prop := ∃ l, (step s t l).isSome = true

/-- `t` is waiting for a lock owned by `o` -/
def BlockedOn (s : State) (t o : Nat) : Prop :=
  (s.pc t = .wantGp ∧ s.gp = some o) ∨ ((s.pc t = .haveGp ∨ s.pc t = .waiting ∨ s.pc t = .wantReg) ∧ s.reg = some o)

/-- the owner of `rcu_registry_lock` never waits for anything -/
theorem reg_owner_enabled {s : State} (h : Inv s) {o : Nat} (ho : s.reg = some o) : Enabled s o := by
  have := (h.reg_owner o).1 ho
  simp only [holdsReg, Bool.or_eq_true, decide_eq_true_eq] at this
  rcases this with hp | hp
  · exact ⟨.unlockReg, by simp [step, hp]⟩
  · exact ⟨.unlockReg2, by simp [step, hp]⟩

/-- **lock_deadlock_free**: wait chains over the two locks have length ≤ 2 and end in an enabled thread -/
theorem lock_deadlock_free {s : State} (r : Reach s) (t : Nat) :
    Enabled s t ∨ ∃ o, BlockedOn s t o ∧ (Enabled s o ∨ ∃ o2, BlockedOn s o o2 ∧ Enabled s o2) := by
  have h := inv_reach r
  cases hp : s.pc t with
  | idle => exact .inl ⟨.callSync, by simp [step, hp]⟩
  | both => exact .inl ⟨.unlockReg, by simp [step, hp]⟩
  | gpOnly => exact .inl ⟨.unlockGp, by simp [step, hp]⟩
  | haveReg => exact .inl ⟨.unlockReg2, by simp [step, hp]⟩
  | haveGp =>
    cases hr : s.reg with
    | none => exact .inl ⟨.lockReg, by simp [step, hp, hr]⟩
    | some o => exact .inr ⟨o, .inr ⟨.inl hp, hr⟩, .inl (reg_owner_enabled h hr)⟩
  | waiting =>
    cases hr : s.reg with
    | none => exact .inl ⟨.reacq, by simp [step, hp, hr]⟩
    | some o => exact .inr ⟨o, .inr ⟨.inr (.inl hp), hr⟩, .inl (reg_owner_enabled h hr)⟩
  | wantReg =>
    cases hr : s.reg with
    | none => exact .inl ⟨.lockReg2, by simp [step, hp, hr]⟩
    | some o => exact .inr ⟨o, .inr ⟨.inr (.inr hp), hr⟩, .inl (reg_owner_enabled h hr)⟩
  | wantGp =>
    cases hg : s.gp with
    | none => exact .inl ⟨.lockGp, by simp [step, hp, hg]⟩
    | some o =>
      refine .inr ⟨o, .inl ⟨hp, hg⟩, ?_⟩
      have ho := (h.gp_owner o).1 hg
      simp only [holdsGp, Bool.or_eq_true, decide_eq_true_eq] at ho
      cases hr : s.reg with
      | none =>
        left
        rcases ho with ((ho | ho) | ho) | ho
        · exact ⟨.lockReg, by simp [step, ho, hr]⟩
        · exact ⟨.unlockReg, by simp [step, ho]⟩
        · exact ⟨.reacq, by simp [step, ho, hr]⟩
        · exact ⟨.unlockGp, by simp [step, ho]⟩
      | some o2 =>
        rcases ho with ((ho | ho) | ho) | ho
        · exact .inr ⟨o2, .inr ⟨.inl ho, hr⟩, reg_owner_enabled h hr⟩
        · exact .inl ⟨.unlockReg, by simp [step, ho]⟩
        · exact .inr ⟨o2, .inr ⟨.inr (.inl ho), hr⟩, reg_owner_enabled h hr⟩
        · exact .inl ⟨.unlockGp, by simp [step, ho]⟩

/-- mutual exclusion, for the record -/
theorem locks_exclusive {s : State} (r : Reach s) (t u : Nat) :
    (holdsGp (s.pc t) = true → holdsGp (s.pc u) = true → t = u) ∧
    (holdsReg (s.pc t) = true → holdsReg (s.pc u) = true → t = u) := by
  have h := inv_reach r
  constructor
  · intro a b
    have := (h.gp_owner t).2 a; have := (h.gp_owner u).2 b; simp_all
  · intro a b
    have := (h.reg_owner t).2 a; have := (h.reg_owner u).2 b; simp_all

/-- non-vacuity: a leader inside its wait, a second caller queued on `rcu_gp_lock`, a registering thread holding
`rcu_registry_lock`: the chain caller → leader → registrant has length 2 -/
example :
    let s : State := { pc := fun t => if t = 0 then .waiting else if t = 1 then .wantGp else if t = 2 then .haveReg else .idle,
                       gp := some 0, reg := some 2 }
    BlockedOn s 1 0 ∧ BlockedOn s 0 2 ∧ Enabled s 2 := by
  refine ⟨.inl ⟨by simp, rfl⟩, .inr ⟨.inr (.inl (by simp)), rfl⟩, .unlockReg2, by simp [step]⟩

end UrcuVerif.Locks
