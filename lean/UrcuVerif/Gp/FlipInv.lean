import UrcuVerif.Gp.Flip
/-! Inductive invariant of the phase-flip grace-period model (helper lemmas; the property
statements are in `Props/C01.lean`). -/
set_option linter.unusedVariables false
namespace UrcuVerif.Gp

inductive Reach (c : Cfg) : State → Prop
  | init : Reach c init
  | step {s s' l} : Reach c s → step c s l = some s' → Reach c s'

/-- the configurations that exist: sys_membarrier as master barrier, or a reader-side fence -/
def Cfg.WF (c : Cfg) : Prop := c.membarrier = true ∨ c.slaveFence = true

/-- reader i has been force-fenced by the tracked grace period's first master barrier -/
def fenced (s : State) (i : Nat) : Prop :=
  s.tracked = true ∧ (s.upc = .p1 ∨ s.upc = .p2 ∨ s.upc = .mbar2 ∨ (s.upc = .mbar1 ∧ s.pend i = false))

/-- reader i's activating store is known to be in memory -/
def synced (c : Cfg) (s : State) (i : Nat) : Prop :=
  c.slaveFence = true ∨ (c.membarrier = true ∧ fenced s i)

structure Inv (c : Cfg) (s : State) : Prop where
  cs_nest : ∀ i, ((s.rpc i = .cs ∨ s.rpc i = .fence) ↔ 1 ≤ s.lnest i)
  d_cs : ∀ i, s.inD i = true → s.rpc i = .cs
  rpc_reg : ∀ i, s.rpc i ≠ .out → s.reg i = true ∧ i < c.n
  trk_x : s.tracked = true → s.xset = true
  td_x : s.trackedDone = true → s.xset = true
  y_td : s.yset = true → s.trackedDone = true
  idle_untracked : s.upc = .idle → s.tracked = false
  empty_view : ∀ i, s.buf i = [] → s.mnest i = s.lnest i ∧ s.mph i = s.lph i
  d_mem : ∀ i, synced c s i → s.inD i = true → 1 ≤ s.mnest i ∧ s.mph i = s.lph i
  d_buf : ∀ i, synced c s i → s.inD i = true → ∀ e, e ∈ s.buf i → 1 ≤ e.1 ∧ e.2 = s.lph i
  qs_safe : s.tracked = true → ∀ i, s.qs i = true → s.inD i = false
  snap_p1 : s.tracked = true → s.upc = .p1 → ∀ i, s.snap i = true → s.inD i = true → s.lph i = s.gp
  snap_p2 : s.tracked = true → s.upc = .p2 → ∀ i, s.snap i = true → s.inD i = true → s.lph i = !s.gp
  cover_m1 : s.tracked = true → s.upc = .mbar1 → ∀ i, s.inD i = true → s.inp i = true
  cover_p1 : s.tracked = true → s.upc = .p1 → ∀ i, s.inD i = true → s.inp i = true ∨ s.snap i = true ∨ s.qs i = true
  cover_p2 : s.tracked = true → s.upc = .p2 → ∀ i, s.inD i = true → s.snap i = true ∨ s.qs i = true
  nolist_mbar : s.upc = .mbar1 → ∀ i, s.snap i = false ∧ s.qs i = false
  done_m2 : s.tracked = true → s.upc = .mbar2 → ∀ i, s.inD i = false
  done_td : s.trackedDone = true → ∀ i, s.inD i = false
  buf_last : ∀ i e, (s.buf i).getLast? = some e → e = (s.lnest i, s.lph i)
  old_in_d : ∀ i, s.rpc i = .cs → s.xset = false → s.inD i = true
  x0_in_d : ∀ i, s.rpc i = .cs → s.sawX0 i = true → s.inD i = true
  y1_not_d : ∀ i, s.rpc i = .cs → s.sawY1 i = true → s.inD i = false
  /-- C15: the updater's lists only ever hold registered readers, each in at most one list -/
  lists_reg : (s.upc = .mbar1 ∨ s.upc = .p1 ∨ s.upc = .p2) → ∀ i, (s.inp i = true ∨ s.snap i = true ∨ s.qs i = true) → s.reg i = true
  lists_disj : (s.upc = .mbar1 ∨ s.upc = .p1 ∨ s.upc = .p2) → ∀ i, ¬ (s.inp i = true ∧ s.snap i = true) ∧ ¬ (s.inp i = true ∧ s.qs i = true) ∧ ¬ (s.snap i = true ∧ s.qs i = true)
  inp_p2 : s.upc = .p2 → ∀ i, i < c.n → s.inp i = false
  held_reg : ∀ i, s.held i ≠ [] → s.reg i = true ∧ i < c.n

theorem inv_init (c) : Inv c init := by
  constructor <;> simp [init, fenced, synced]

set_option hygiene false in
/-- the whole inductive step for one label: unfold `step`, split its guards, substitute the
post-state and let `grind` discharge every clause of `Inv` -/
macro "step_tac" : tactic => `(tactic| (
  simp only [step] at st
  (repeat' split at st)
  all_goals (first | (simp at st; done) | skip)
  all_goals (simp only [Option.some.injEq] at st; subst st)
  all_goals (constructor <;> simp only [upd, fenced, synced] at * <;>
    grind [getLast?_snoc, snoc_ne_nil, getLast?_cons_cons', getLast?_single])))

theorem inv_reg (c : Cfg) (hc : c.WF) {s s' : State} (h : Inv c s) (i)
    (st : step c s (.reg i) = some s') : Inv c s' := by
  obtain ⟨h1, h2, h3, h4, h5, h6, h7, h8, h9, h10, h11, h12, h13, h14, h15, h16, h17, h18, h19, h20, h21, h22, h23, h24, h25, h26, h27⟩ := h
  unfold Cfg.WF at hc
  step_tac

theorem inv_unreg (c : Cfg) (hc : c.WF) {s s' : State} (h : Inv c s) (i)
    (st : step c s (.unreg i) = some s') : Inv c s' := by
  obtain ⟨h1, h2, h3, h4, h5, h6, h7, h8, h9, h10, h11, h12, h13, h14, h15, h16, h17, h18, h19, h20, h21, h22, h23, h24, h25, h26, h27⟩ := h
  unfold Cfg.WF at hc
  step_tac

theorem inv_rLd (c : Cfg) (hc : c.WF) {s s' : State} (h : Inv c s) (i)
    (st : step c s (.rLd i) = some s') : Inv c s' := by
  obtain ⟨h1, h2, h3, h4, h5, h6, h7, h8, h9, h10, h11, h12, h13, h14, h15, h16, h17, h18, h19, h20, h21, h22, h23, h24, h25, h26, h27⟩ := h
  unfold Cfg.WF at hc
  step_tac

theorem inv_rSt (c : Cfg) (hc : c.WF) {s s' : State} (h : Inv c s) (i)
    (st : step c s (.rSt i) = some s') : Inv c s' := by
  obtain ⟨h1, h2, h3, h4, h5, h6, h7, h8, h9, h10, h11, h12, h13, h14, h15, h16, h17, h18, h19, h20, h21, h22, h23, h24, h25, h26, h27⟩ := h
  unfold Cfg.WF at hc
  step_tac

theorem inv_rEnter (c : Cfg) (hc : c.WF) {s s' : State} (h : Inv c s) (i)
    (st : step c s (.rEnter i) = some s') : Inv c s' := by
  obtain ⟨h1, h2, h3, h4, h5, h6, h7, h8, h9, h10, h11, h12, h13, h14, h15, h16, h17, h18, h19, h20, h21, h22, h23, h24, h25, h26, h27⟩ := h
  unfold Cfg.WF at hc
  step_tac

theorem inv_rInc (c : Cfg) (hc : c.WF) {s s' : State} (h : Inv c s) (i)
    (st : step c s (.rInc i) = some s') : Inv c s' := by
  obtain ⟨h1, h2, h3, h4, h5, h6, h7, h8, h9, h10, h11, h12, h13, h14, h15, h16, h17, h18, h19, h20, h21, h22, h23, h24, h25, h26, h27⟩ := h
  unfold Cfg.WF at hc
  step_tac

theorem inv_rDec (c : Cfg) (hc : c.WF) {s s' : State} (h : Inv c s) (i)
    (st : step c s (.rDec i) = some s') : Inv c s' := by
  obtain ⟨h1, h2, h3, h4, h5, h6, h7, h8, h9, h10, h11, h12, h13, h14, h15, h16, h17, h18, h19, h20, h21, h22, h23, h24, h25, h26, h27⟩ := h
  unfold Cfg.WF at hc
  step_tac

theorem inv_rUnlock (c : Cfg) (hc : c.WF) {s s' : State} (h : Inv c s) (i)
    (st : step c s (.rUnlock i) = some s') : Inv c s' := by
  obtain ⟨h1, h2, h3, h4, h5, h6, h7, h8, h9, h10, h11, h12, h13, h14, h15, h16, h17, h18, h19, h20, h21, h22, h23, h24, h25, h26, h27⟩ := h
  unfold Cfg.WF at hc
  step_tac

theorem inv_rRead (c : Cfg) (hc : c.WF) {s s' : State} (h : Inv c s) (i)
    (st : step c s (.rRead i) = some s') : Inv c s' := by
  obtain ⟨h1, h2, h3, h4, h5, h6, h7, h8, h9, h10, h11, h12, h13, h14, h15, h16, h17, h18, h19, h20, h21, h22, h23, h24, h25, h26, h27⟩ := h
  unfold Cfg.WF at hc
  step_tac

theorem inv_flush (c : Cfg) (hc : c.WF) {s s' : State} (h : Inv c s) (i)
    (st : step c s (.flush i) = some s') : Inv c s' := by
  obtain ⟨h1, h2, h3, h4, h5, h6, h7, h8, h9, h10, h11, h12, h13, h14, h15, h16, h17, h18, h19, h20, h21, h22, h23, h24, h25, h26, h27⟩ := h
  unfold Cfg.WF at hc
  step_tac

theorem inv_uStart (c : Cfg) (hc : c.WF) {s s' : State} (h : Inv c s) (trk)
    (st : step c s (.uStart trk) = some s') : Inv c s' := by
  obtain ⟨h1, h2, h3, h4, h5, h6, h7, h8, h9, h10, h11, h12, h13, h14, h15, h16, h17, h18, h19, h20, h21, h22, h23, h24, h25, h26, h27⟩ := h
  unfold Cfg.WF at hc
  step_tac

theorem inv_uStartEmpty (c : Cfg) (hc : c.WF) {s s' : State} (h : Inv c s) (trk)
    (st : step c s (.uStartEmpty trk) = some s') : Inv c s' := by
  obtain ⟨h1, h2, h3, h4, h5, h6, h7, h8, h9, h10, h11, h12, h13, h14, h15, h16, h17, h18, h19, h20, h21, h22, h23, h24, h25, h26, h27⟩ := h
  unfold Cfg.WF at hc
  step_tac

theorem inv_forced (c : Cfg) (hc : c.WF) {s s' : State} (h : Inv c s) (i)
    (st : step c s (.forced i) = some s') : Inv c s' := by
  obtain ⟨h1, h2, h3, h4, h5, h6, h7, h8, h9, h10, h11, h12, h13, h14, h15, h16, h17, h18, h19, h20, h21, h22, h23, h24, h25, h26, h27⟩ := h
  unfold Cfg.WF at hc
  step_tac

theorem inv_uMbarRet (c : Cfg) (hc : c.WF) {s s' : State} (h : Inv c s)
    (st : step c s .uMbarRet = some s') : Inv c s' := by
  obtain ⟨h1, h2, h3, h4, h5, h6, h7, h8, h9, h10, h11, h12, h13, h14, h15, h16, h17, h18, h19, h20, h21, h22, h23, h24, h25, h26, h27⟩ := h
  unfold Cfg.WF at hc
  step_tac

theorem inv_uScan1Inactive (c : Cfg) (hc : c.WF) {s s' : State} (h : Inv c s) (j)
    (st : step c s (.uScan1Inactive j) = some s') : Inv c s' := by
  obtain ⟨h1, h2, h3, h4, h5, h6, h7, h8, h9, h10, h11, h12, h13, h14, h15, h16, h17, h18, h19, h20, h21, h22, h23, h24, h25, h26, h27⟩ := h
  unfold Cfg.WF at hc
  step_tac

theorem inv_uScan1Current (c : Cfg) (hc : c.WF) {s s' : State} (h : Inv c s) (j)
    (st : step c s (.uScan1Current j) = some s') : Inv c s' := by
  obtain ⟨h1, h2, h3, h4, h5, h6, h7, h8, h9, h10, h11, h12, h13, h14, h15, h16, h17, h18, h19, h20, h21, h22, h23, h24, h25, h26, h27⟩ := h
  unfold Cfg.WF at hc
  step_tac

theorem inv_uFlip (c : Cfg) (hc : c.WF) {s s' : State} (h : Inv c s)
    (st : step c s .uFlip = some s') : Inv c s' := by
  obtain ⟨h1, h2, h3, h4, h5, h6, h7, h8, h9, h10, h11, h12, h13, h14, h15, h16, h17, h18, h19, h20, h21, h22, h23, h24, h25, h26, h27⟩ := h
  unfold Cfg.WF at hc
  step_tac

theorem inv_uScan2 (c : Cfg) (hc : c.WF) {s s' : State} (h : Inv c s) (j)
    (st : step c s (.uScan2 j) = some s') : Inv c s' := by
  obtain ⟨h1, h2, h3, h4, h5, h6, h7, h8, h9, h10, h11, h12, h13, h14, h15, h16, h17, h18, h19, h20, h21, h22, h23, h24, h25, h26, h27⟩ := h
  unfold Cfg.WF at hc
  step_tac

theorem inv_uP2Done (c : Cfg) (hc : c.WF) {s s' : State} (h : Inv c s)
    (st : step c s .uP2Done = some s') : Inv c s' := by
  obtain ⟨h1, h2, h3, h4, h5, h6, h7, h8, h9, h10, h11, h12, h13, h14, h15, h16, h17, h18, h19, h20, h21, h22, h23, h24, h25, h26, h27⟩ := h
  unfold Cfg.WF at hc
  step_tac

theorem inv_uEnd (c : Cfg) (hc : c.WF) {s s' : State} (h : Inv c s)
    (st : step c s .uEnd = some s') : Inv c s' := by
  obtain ⟨h1, h2, h3, h4, h5, h6, h7, h8, h9, h10, h11, h12, h13, h14, h15, h16, h17, h18, h19, h20, h21, h22, h23, h24, h25, h26, h27⟩ := h
  unfold Cfg.WF at hc
  step_tac

theorem inv_setY (c : Cfg) (hc : c.WF) {s s' : State} (h : Inv c s)
    (st : step c s .setY = some s') : Inv c s' := by
  obtain ⟨h1, h2, h3, h4, h5, h6, h7, h8, h9, h10, h11, h12, h13, h14, h15, h16, h17, h18, h19, h20, h21, h22, h23, h24, h25, h26, h27⟩ := h
  unfold Cfg.WF at hc
  step_tac

theorem inv_sigPush (c : Cfg) (hc : c.WF) {s s' : State} (h : Inv c s) (i)
    (st : step c s (.sigPush i) = some s') : Inv c s' := by
  obtain ⟨h1, h2, h3, h4, h5, h6, h7, h8, h9, h10, h11, h12, h13, h14, h15, h16, h17, h18, h19, h20, h21, h22, h23, h24, h25, h26, h27⟩ := h
  unfold Cfg.WF at hc
  step_tac

theorem inv_sigPop (c : Cfg) (hc : c.WF) {s s' : State} (h : Inv c s) (i)
    (st : step c s (.sigPop i) = some s') : Inv c s' := by
  obtain ⟨h1, h2, h3, h4, h5, h6, h7, h8, h9, h10, h11, h12, h13, h14, h15, h16, h17, h18, h19, h20, h21, h22, h23, h24, h25, h26, h27⟩ := h
  unfold Cfg.WF at hc
  step_tac

theorem inv_step (c : Cfg) (hc : c.WF) {s s' : State} {l : Label} (h : Inv c s)
    (st : step c s l = some s') : Inv c s' := by
  cases l with
  | reg i => exact inv_reg c hc h i st
  | unreg i => exact inv_unreg c hc h i st
  | rLd i => exact inv_rLd c hc h i st
  | rSt i => exact inv_rSt c hc h i st
  | rEnter i => exact inv_rEnter c hc h i st
  | rInc i => exact inv_rInc c hc h i st
  | rDec i => exact inv_rDec c hc h i st
  | rUnlock i => exact inv_rUnlock c hc h i st
  | rRead i => exact inv_rRead c hc h i st
  | flush i => exact inv_flush c hc h i st
  | uStart trk => exact inv_uStart c hc h trk st
  | uStartEmpty trk => exact inv_uStartEmpty c hc h trk st
  | forced i => exact inv_forced c hc h i st
  | uMbarRet => exact inv_uMbarRet c hc h st
  | uScan1Inactive j => exact inv_uScan1Inactive c hc h j st
  | uScan1Current j => exact inv_uScan1Current c hc h j st
  | uFlip => exact inv_uFlip c hc h st
  | uScan2 j => exact inv_uScan2 c hc h j st
  | uP2Done => exact inv_uP2Done c hc h st
  | uEnd => exact inv_uEnd c hc h st
  | setY => exact inv_setY c hc h st
  | sigPush i => exact inv_sigPush c hc h i st
  | sigPop i => exact inv_sigPop c hc h i st

theorem inv_reach (c : Cfg) (hc : c.WF) {s : State} (h : Reach c s) : Inv c s := by
  induction h with
  | init => exact inv_init c
  | step _ st ih => exact inv_step c hc ih st

end UrcuVerif.Gp
